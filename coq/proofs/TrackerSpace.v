(* Generic key-space lemmas for the tracker model (model/Tracker.v, Section Space):
   association lists, the modified map with its reference counts, compaction, the commit to
   the table, the LRU cache with its pending-write channel, and the correctness of a lookup. *)
From Coq Require Import NArith List Bool Arith Lia.
From Verif.model Require Import LedgerSpec Tracker.
From Verif.proofs Require Import LedgerSpecProofs.
Import ListNotations.

(* ---------- "mem is a prefix of l after position R", for any element type ---------- *)
Definition pfx {A : Type} (l : list A) (R : nat) (mem : list A) : Prop :=
  mem = firstn (length mem) (skipn R l).

Lemma nth_skipn_add' : forall (A : Type) (d : A) (l : list A) n i, nth i (skipn n l) d = nth (n + i) l d.
Proof.
  intros A d l. induction l as [|x l IH]; intros n i; destruct n; simpl; try reflexivity.
  - now destruct i.
  - apply IH.
Qed.

Lemma skipn_skipn_add' : forall (A : Type) (l : list A) a b, skipn a (skipn b l) = skipn (b + a) l.
Proof.
  intros A l a b. revert l. induction b as [|b IH]; intro l; simpl; [reflexivity|].
  destruct l as [|x l]; [now destruct a|apply IH].
Qed.

Lemma pfx_nil : forall (A : Type) (l : list A) R, pfx l R [].
Proof. intros. reflexivity. Qed.

Lemma pfx_snoc : forall (A : Type) (d : A) (l : list A) R mem x,
  pfx l R mem -> nth (R + length mem) l d = x -> R + length mem < length l -> pfx l R (mem ++ [x]).
Proof.
  intros A d l R mem x H Hn Hl. unfold pfx in *. rewrite app_length. simpl.
  rewrite Nat.add_1_r. rewrite (firstn_S_nth _ d (length mem) (skipn R l)).
  - rewrite <- H. f_equal. rewrite nth_skipn_add'. now rewrite Hn.
  - rewrite skipn_length. lia.
Qed.

Lemma pfx_app : forall (A : Type) (l : list A) R mem x,
  pfx l R mem -> R + length mem = length l -> pfx (l ++ [x]) R (mem ++ [x]).
Proof.
  intros A l R mem x H Hl. apply (pfx_snoc A x).
  - unfold pfx in *. rewrite skipn_app, firstn_app.
    replace (length mem - length (skipn R l)) with 0 by (rewrite skipn_length; lia).
    simpl. rewrite app_nil_r. exact H.
  - rewrite Hl. apply nth_middle.
  - rewrite app_length. simpl. lia.
Qed.

Lemma pfx_skip : forall (A : Type) (l : list A) R mem off,
  pfx l R mem -> off <= length mem -> pfx l (R + off) (skipn off mem).
Proof.
  intros A l R mem off H Ho. unfold pfx in *. rewrite skipn_length.
  rewrite H at 1. rewrite skipn_firstn_comm. f_equal. apply skipn_skipn_add'.
Qed.

Lemma pfx_map : forall (A B : Type) (f : A -> B) (l : list A) R mem,
  pfx l R mem -> pfx (map f l) R (map f mem).
Proof.
  intros A B f l R mem H. unfold pfx in *. rewrite map_length, skipn_map, firstn_map. now f_equal.
Qed.

Lemma pfx_len : forall (A : Type) (l : list A) R mem, pfx l R mem -> R <= length l -> R + length mem <= length l.
Proof.
  intros A l R mem H HR. unfold pfx in H. assert (H2 := f_equal (@length A) H).
  rewrite firstn_length, skipn_length in H2. lia.
Qed.

Section Space.
  Variables K V D : Type.
  Variable keqb : K -> K -> bool.
  Variable interp : D -> V.
  Variable merge : V -> D -> V.
  Variable vempty : V.
  Variable is_empty : V -> bool.
  Variable skip : D -> V -> bool.
  Variable nf_mode : bool.
  Variable strict : bool.

  Hypothesis keqb_spec : forall x y, keqb x y = true <-> x = y.
  Hypothesis is_empty_spec : forall v, is_empty v = true <-> v = vempty.

  (* what the evaluator guarantees about a record, given the value before the round *)
  Variable wfrec : V -> D -> Prop.
  Hypothesis merge_first : forall d, merge vempty d = interp d.
  Hypothesis merge_ok : forall prev d, wfrec prev d -> merge prev d = interp d.
  Hypothesis skip_ok : forall prev d v, wfrec prev d -> skip d v = true -> v = prev.

  Notation kref := (keqb_refl K keqb keqb_spec).
  Notation kneq := (keqb_neq K keqb keqb_spec).
  Notation ksym := (keqb_sym K keqb keqb_spec).
  Notation Aget := (aget K keqb).
  Notation Adel := (adel K keqb).
  Notation Rfind := (rfind keqb).
  Notation Walk := (walk K D keqb).
  Notation rounds := (list (list (K * D))).

  Lemma keqb_dec : forall x y : K, {x = y} + {x <> y}.
  Proof.
    intros x y. destruct (keqb x y) eqn:E.
    - left. now apply keqb_spec.
    - right. intro H. subst. rewrite kref in E. discriminate.
  Qed.

  (* ------------------------------------------------------------------ association lists *)
  Lemma aget_adel : forall (A : Type) (l : list (K * A)) k k',
    Aget k (Adel k' l) = if keqb k k' then None else Aget k l.
  Proof.
    induction l as [|[k0 a] l IH]; intros k k'; simpl.
    - now destruct (keqb k k').
    - destruct (keqb k' k0) eqn:E1; simpl.
      + apply keqb_spec in E1. subst k0. rewrite IH. now destruct (keqb k k').
      + destruct (keqb k k0) eqn:E2.
        * apply keqb_spec in E2. subst k0. rewrite (ksym k k'), E1. reflexivity.
        * apply IH.
  Qed.

  Lemma aget_app : forall (A : Type) (l1 l2 : list (K * A)) k,
    Aget k (l1 ++ l2) = match Aget k l1 with Some a => Some a | None => Aget k l2 end.
  Proof.
    induction l1 as [|[k0 a] l1 IH]; intros l2 k; simpl; [reflexivity|].
    destruct (keqb k k0); [reflexivity|apply IH].
  Qed.

  Lemma aget_in : forall (A : Type) (l : list (K * A)) k a, Aget k l = Some a -> In (k, a) l.
  Proof.
    induction l as [|[k0 a0] l IH]; intros k a H; simpl in *; [discriminate|].
    destruct (keqb k k0) eqn:E.
    - apply keqb_spec in E. inversion H; subst. now left.
    - right. now apply IH.
  Qed.

  Lemma aget_none_notin : forall (A : Type) (l : list (K * A)) k,
    Aget k l = None -> ~ In k (map fst l).
  Proof.
    induction l as [|[k0 a0] l IH]; intros k H; simpl in *; [tauto|].
    destruct (keqb k k0) eqn:E; [discriminate|].
    intros [H1|H1]; [subst; rewrite kref in E; discriminate | now apply (IH k)].
  Qed.

  Lemma notin_aget_none : forall (A : Type) (l : list (K * A)) k,
    ~ In k (map fst l) -> Aget k l = None.
  Proof.
    induction l as [|[k0 a0] l IH]; intros k H; simpl in *; [reflexivity|].
    destruct (keqb k k0) eqn:E.
    - apply keqb_spec in E. subst. tauto.
    - apply IH. tauto.
  Qed.

  (* rfind and aget are the same function *)
  Lemma rfind_aget : forall (l : list (K * D)) k, Rfind k l = Aget k l.
  Proof. induction l as [|[k0 d] l IH]; intros k; simpl; [reflexivity|]. now rewrite IH. Qed.

  Lemma walk_lastrec : forall ds k, Walk ds k = lastrec K D keqb ds k.
  Proof. induction ds as [|r ds IH]; intros k; simpl; [reflexivity|]. now rewrite IH. Qed.

  Lemma walk_app : forall ds1 ds2 k,
    Walk (ds1 ++ ds2) k = match Walk ds2 k with Some d => Some d | None => Walk ds1 k end.
  Proof. intros. rewrite !walk_lastrec. apply lastrec_app. Qed.

  (* ------------------------------------------------------------------ table *)
  Notation Dbget := (db_get K V keqb vempty).
  Notation Dbset := (db_set K V keqb is_empty).

  Lemma db_get_set : forall t k v k',
    Dbget (Dbset t k v) k' = if keqb k' k then v else Dbget t k'.
  Proof.
    intros t k v k'. unfold db_get, db_set. destruct (is_empty v) eqn:E.
    - rewrite aget_adel. destruct (keqb k' k); [|reflexivity].
      apply is_empty_spec in E. now subst.
    - simpl. destruct (keqb k' k) eqn:E2; [reflexivity|]. now rewrite aget_adel, E2.
  Qed.

  (* ------------------------------------------------------------------ counting records *)
  Definition has (recs : list (K * D)) (k : K) : bool :=
    match Rfind k recs with Some _ => true | None => false end.
  Fixpoint cnt (ds : rounds) (k : K) : nat :=
    match ds with
    | [] => 0
    | recs :: tl => (if has recs k then 1 else 0) + cnt tl k
    end.
  Fixpoint firstrec (ds : rounds) (k : K) : option D :=
    match ds with
    | [] => None
    | recs :: tl => match Rfind k recs with Some d => Some d | None => firstrec tl k end
    end.

  Lemma cnt_app : forall ds1 ds2 k, cnt (ds1 ++ ds2) k = cnt ds1 k + cnt ds2 k.
  Proof. induction ds1 as [|r ds1 IH]; intros; simpl; [reflexivity|]. rewrite IH. lia. Qed.

  Lemma cnt_zero_walk : forall ds k, cnt ds k = 0 <-> Walk ds k = None.
  Proof.
    induction ds as [|r ds IH]; intros k; simpl; [tauto|].
    unfold has. destruct (Rfind k r) eqn:E.
    - split; [lia|]. destruct (Walk ds k); discriminate.
    - simpl. rewrite IH. destruct (Walk ds k); split; intro H; try discriminate; reflexivity.
  Qed.

  Lemma firstrec_none_walk : forall ds k, firstrec ds k = None <-> Walk ds k = None.
  Proof.
    induction ds as [|r ds IH]; intros k; simpl; [tauto|].
    destruct (Rfind k r) eqn:E.
    - split; [discriminate|]. destruct (Walk ds k); discriminate.
    - rewrite IH. destruct (Walk ds k); split; intro H; try discriminate; reflexivity.
  Qed.

  Lemma firstrec_app : forall ds1 ds2 k,
    firstrec (ds1 ++ ds2) k = match firstrec ds1 k with Some d => Some d | None => firstrec ds2 k end.
  Proof.
    induction ds1 as [|r ds1 IH]; intros; simpl; [reflexivity|].
    destruct (Rfind k r); [reflexivity|apply IH].
  Qed.

  Definition all_nodup (ds : rounds) : Prop := Forall (fun recs => nodup_keys keqb recs = true) ds.

  (* ------------------------------------------------------------------ modified map *)
  Notation Bump := (mods_bump K V keqb).
  Notation NewB := (mods_newblock K V D keqb interp).

  Lemma bump_get : forall m k v k',
    Aget k' (Bump m k v) =
    if keqb k' k then Some (v, match Aget k m with Some (_, n) => S n | None => 1 end)
    else Aget k' m.
  Proof.
    intros m k v k'. unfold mods_bump. destruct (Aget k m) as [[v0 n]|] eqn:E; simpl.
    - destruct (keqb k' k) eqn:E2; [reflexivity|]. now rewrite aget_adel, E2.
    - destruct (keqb k' k) eqn:E2; reflexivity.
  Qed.

  Lemma newblock_get : forall recs m k,
    nodup_keys keqb recs = true ->
    Aget k (NewB m recs) =
    match Rfind k recs with
    | Some d => Some (interp d, match Aget k m with Some (_, n) => S n | None => 1 end)
    | None => Aget k m
    end.
  Proof.
    induction recs as [|[k0 d0] recs IH]; intros m k Hnd; simpl in *; [reflexivity|].
    destruct (Rfind k0 recs) eqn:E0; [discriminate|].
    unfold mods_newblock in *. simpl. rewrite (IH _ _ Hnd).
    destruct (keqb k k0) eqn:E.
    - apply keqb_spec in E. subst k0. rewrite E0. rewrite bump_get, kref. reflexivity.
    - destruct (Rfind k recs); rewrite bump_get, E; reflexivity.
  Qed.

  (* the modified map summarises the in-memory rounds *)
  Definition mods_ok (m : mods K V) (mem : rounds) : Prop :=
    forall k, Aget k m = match Walk mem k with
                         | Some d => Some (interp d, cnt mem k)
                         | None => None
                         end.

  Lemma mods_ok_nil : mods_ok [] [].
  Proof. intro k. reflexivity. Qed.

  Lemma mods_ok_newblock : forall m mem recs,
    mods_ok m mem -> nodup_keys keqb recs = true -> mods_ok (NewB m recs) (mem ++ [recs]).
  Proof.
    intros m mem recs Hm Hnd k. rewrite (newblock_get _ _ _ Hnd), walk_app, cnt_app. simpl.
    unfold has. destruct (Rfind k recs) eqn:E.
    - rewrite (Hm k). destruct (Walk mem k) eqn:E2.
      + f_equal. f_equal. lia.
      + apply cnt_zero_walk in E2. rewrite E2. reflexivity.
    - rewrite (Hm k). destruct (Walk mem k); [|reflexivity]. f_equal. f_equal. lia.
  Qed.

  (* ------------------------------------------------------------------ compaction *)
  Notation Cadd := (compact_add K V D keqb merge vempty).
  Notation Compact := (compact K V D keqb merge vempty).

  Definition mstep (k : K) (v : V) (recs : list (K * D)) : V :=
    match Rfind k recs with Some d => merge v d | None => v end.
  Definition mergeall (ds : rounds) (k : K) : V := fold_left (mstep k) ds vempty.

  Lemma aget_replace_other : forall (A : Type) (c : list (K * A)) k x k',
    keqb k' k = false ->
    Aget k' (map (fun q => if keqb k (fst q) then (k, x) else q) c) = Aget k' c.
  Proof.
    induction c as [|[k0 a] c IH]; intros k x k' H; simpl; [reflexivity|].
    destruct (keqb k k0) eqn:E1; simpl.
    - apply keqb_spec in E1. subst k0. rewrite H. now apply IH.
    - destruct (keqb k' k0); [reflexivity|now apply IH].
  Qed.

  Lemma aget_replace_same : forall (A : Type) (c : list (K * A)) k x y,
    Aget k c = Some y ->
    Aget k (map (fun q => if keqb k (fst q) then (k, x) else q) c) = Some x.
  Proof.
    induction c as [|[k0 a] c IH]; intros k x y H; simpl in *; [discriminate|].
    destruct (keqb k k0) eqn:E1; simpl.
    - now rewrite kref.
    - rewrite E1. now apply (IH k x y).
  Qed.

  Lemma cadd_get : forall c k d k',
    Aget k' (Cadd c (k, d)) =
    if keqb k' k then
      match Aget k c with
      | Some (v, n, f) => Some (merge v d, S n, f)
      | None => Some (merge vempty d, 1, d)
      end
    else Aget k' c.
  Proof.
    intros c k d k'. unfold compact_add. simpl. destruct (Aget k c) as [[[v n] f]|] eqn:E.
    - destruct (keqb k' k) eqn:E2.
      + apply keqb_spec in E2. subst k'. now apply (aget_replace_same _ c k _ _ E).
      + now apply aget_replace_other.
    - rewrite aget_app. simpl. destruct (keqb k' k) eqn:E2.
      + apply keqb_spec in E2. subst k'. now rewrite E.
      + now destruct (Aget k' c).
  Qed.
  Lemma cadd_fold_get : forall recs c k,
    nodup_keys keqb recs = true ->
    Aget k (fold_left Cadd recs c) =
    match Rfind k recs with
    | Some d => match Aget k c with
                | Some (v, n, f) => Some (merge v d, S n, f)
                | None => Some (merge vempty d, 1, d)
                end
    | None => Aget k c
    end.
  Proof.
    induction recs as [|[k0 d0] recs IH]; intros c k Hnd; simpl in *; [reflexivity|].
    destruct (Rfind k0 recs) eqn:E0; [discriminate|].
    rewrite (IH _ _ Hnd). destruct (keqb k k0) eqn:E.
    - apply keqb_spec in E. subst k0. rewrite E0, cadd_get, kref. reflexivity.
    - destruct (Rfind k recs); rewrite cadd_get, E; reflexivity.
  Qed.

  Lemma compact_snoc : forall ds recs, Compact (ds ++ [recs]) = fold_left Cadd recs (Compact ds).
  Proof. intros. unfold compact. now rewrite fold_left_app. Qed.

  Lemma mergeall_snoc : forall ds recs k, mergeall (ds ++ [recs]) k = mstep k (mergeall ds k) recs.
  Proof. intros. unfold mergeall. now rewrite fold_left_app. Qed.

  Lemma mergeall_none : forall ds k, Walk ds k = None -> mergeall ds k = vempty.
  Proof.
    induction ds as [|recs ds IH] using rev_ind; intros k H; [reflexivity|].
    rewrite walk_app in H. simpl in H. rewrite mergeall_snoc. unfold mstep.
    destruct (Rfind k recs); [discriminate|]. destruct (Walk ds k) eqn:E; [discriminate|].
    now apply IH.
  Qed.

  Lemma all_nodup_app : forall ds1 ds2, all_nodup (ds1 ++ ds2) <-> all_nodup ds1 /\ all_nodup ds2.
  Proof. intros. unfold all_nodup. apply Forall_app. Qed.

  Lemma compact_get : forall ds k,
    all_nodup ds ->
    Aget k (Compact ds) =
    match firstrec ds k with
    | Some f => Some (mergeall ds k, cnt ds k, f)
    | None => None
    end.
  Proof.
    induction ds as [|recs ds IH] using rev_ind; intros k Hnd; [reflexivity|].
    apply all_nodup_app in Hnd. destruct Hnd as [Hnd1 Hnd2]. inversion Hnd2; subst.
    rewrite compact_snoc, (cadd_fold_get _ _ _ H1), (IH k Hnd1), firstrec_app, mergeall_snoc, cnt_app.
    simpl. unfold mstep, has. destruct (Rfind k recs) eqn:E.
    - destruct (firstrec ds k) eqn:E2.
      + f_equal. f_equal. f_equal. lia.
      + apply firstrec_none_walk in E2. rewrite (mergeall_none _ _ E2).
        apply cnt_zero_walk in E2. rewrite E2. reflexivity.
    - destruct (firstrec ds k); [|reflexivity]. f_equal. f_equal. f_equal. lia.
  Qed.

  Lemma NoDup_snoc : forall (A : Type) (l : list A) (x : A), NoDup l -> ~ In x l -> NoDup (l ++ [x]).
  Proof.
    induction l as [|y l IH]; intros x H Hx; simpl.
    - constructor; [tauto|constructor].
    - inversion H; subst. constructor.
      + rewrite in_app_iff. simpl in *. intros [H1|[H1|[]]]; [tauto|subst; tauto].
      + apply IH; [assumption|]. simpl in Hx. tauto.
  Qed.

  Lemma cadd_keys : forall c p, NoDup (map fst c) -> NoDup (map fst (Cadd c p)).
  Proof.
    intros c [k d] H. unfold compact_add. simpl. destruct (Aget k c) as [[[v n] f]|] eqn:E.
    - replace (map fst (map (fun q : K * (V * nat * D) => if keqb k (fst q) then (k, (merge v d, S n, f)) else q) c))
        with (map fst c); [exact H|].
      clear -keqb_spec. induction c as [|[k0 x] c IH]; simpl; [reflexivity|].
      destruct (keqb k k0) eqn:E1; simpl; [apply keqb_spec in E1; subst|]; now rewrite IH.
    - rewrite map_app. simpl. apply NoDup_snoc; [exact H|]. now apply (aget_none_notin _ _ _ E).
  Qed.
  Lemma compact_nodup : forall ds, NoDup (map fst (Compact ds)).
  Proof.
    intros ds. unfold compact.
    assert (G : forall ds c, NoDup (map fst c) ->
                NoDup (map fst (fold_left (fun c recs => fold_left Cadd recs c) ds c))).
    { clear ds. induction ds as [|recs ds IH]; intros c H; simpl; [exact H|].
      apply IH. clear IH. revert c H. induction recs as [|p recs IH2]; intros c H; simpl; [exact H|].
      apply IH2. now apply cadd_keys. }
    apply G. constructor.
  Qed.

  (* ------------------------------------------------------------------ well-formed ranges *)
  Notation app1 := (fun (f : K -> V) (recs : list (K * D)) => apply_recs keqb interp recs f).
  Definition stf (f0 : K -> V) (ds : rounds) (i : nat) : K -> V := fold_left app1 (firstn i ds) f0.

  Definition wf_range (f0 : K -> V) (ds : rounds) : Prop :=
    forall i k d, i < length ds -> Rfind k (nth i ds []) = Some d -> wfrec (stf f0 ds i k) d.

  Lemma stf_walk : forall f0 ds i k,
    stf f0 ds i k = match Walk (firstn i ds) k with Some d => interp d | None => f0 k end.
  Proof. intros. unfold stf. rewrite walk_lastrec. apply fold_lastrec. Qed.

  Lemma wf_range_prefix : forall f0 ds recs, wf_range f0 (ds ++ [recs]) -> wf_range f0 ds.
  Proof.
    intros f0 ds recs H i k d Hi Hr.
    specialize (H i k d). rewrite app_length in H. simpl in H.
    rewrite app_nth1 in H by lia. unfold stf in *. rewrite firstn_app in H.
    replace (i - length ds) with 0 in H by lia. simpl in H. rewrite app_nil_r in H.
    apply H; [lia|exact Hr].
  Qed.

  Lemma mergeall_interp : forall f0 ds k dl,
    wf_range f0 ds -> Walk ds k = Some dl -> mergeall ds k = interp dl.
  Proof.
    intros f0. induction ds as [|recs ds IH] using rev_ind; intros k dl Hwf Hw; [discriminate|].
    rewrite walk_app in Hw. simpl in Hw. rewrite mergeall_snoc. unfold mstep.
    destruct (Rfind k recs) as [d|] eqn:E.
    - inversion Hw; subst dl. destruct (Walk ds k) as [dp|] eqn:E2.
      + rewrite (IH k dp (wf_range_prefix _ _ _ Hwf) E2).
        apply merge_ok. specialize (Hwf (length ds) k d).
        rewrite app_length in Hwf. simpl in Hwf. rewrite nth_middle in Hwf.
        rewrite stf_walk in Hwf. rewrite firstn_app in Hwf.
        replace (length ds - length ds) with 0 in Hwf by lia. simpl in Hwf.
        rewrite app_nil_r, firstn_all, E2 in Hwf. apply Hwf; [lia|exact E].
      + rewrite (mergeall_none _ _ E2). apply merge_first.
    - destruct (Walk ds k) as [dp|] eqn:E2; [|discriminate]. inversion Hw; subst dp.
      apply (IH k dl (wf_range_prefix _ _ _ Hwf) E2).
  Qed.

  Lemma firstrec_wf : forall f0 ds k f, wf_range f0 ds -> firstrec ds k = Some f -> wfrec (f0 k) f.
  Proof.
    intros f0. induction ds as [|recs ds IH] using rev_ind; intros k f Hwf Hf; [discriminate|].
    rewrite firstrec_app in Hf. destruct (firstrec ds k) as [f'|] eqn:E.
    - inversion Hf; subst f'. apply (IH k f (wf_range_prefix _ _ _ Hwf) E).
    - simpl in Hf. destruct (Rfind k recs) as [d|] eqn:E2; [|discriminate]. inversion Hf; subst d.
      specialize (Hwf (length ds) k f). rewrite app_length in Hwf. simpl in Hwf.
      rewrite nth_middle, stf_walk, firstn_app in Hwf.
      replace (length ds - length ds) with 0 in Hwf by lia. simpl in Hwf.
      rewrite app_nil_r, firstn_all in Hwf. apply firstrec_none_walk in E. rewrite E in Hwf.
      apply Hwf; [lia|exact E2].
  Qed.

  (* ------------------------------------------------------------------ commit to the table *)
  Notation Commit1 := (commit_one K V D keqb is_empty skip strict).

  Lemma commit_fold_none : forall c, fold_left Commit1 c None = None.
  Proof. induction c as [|e c IH]; simpl; [reflexivity|exact IH]. Qed.

  Lemma commit_fold_get : forall c t t',
    NoDup (map fst c) -> fold_left Commit1 c (Some t) = Some t' ->
    forall k, Dbget t' k = match Aget k c with
                           | Some (v, _, f) => if skip f v then Dbget t k else v
                           | None => Dbget t k
                           end.
  Proof.
    induction c as [|[k0 [[v n] f]] c IH]; intros t t' Hnd H k; simpl in *.
    - now inversion H.
    - inversion Hnd; subst.
      destruct (skip f v) eqn:Es.
      + rewrite (IH _ _ H3 H k). destruct (keqb k k0) eqn:E.
        * apply keqb_spec in E. subst k0. rewrite (notin_aget_none _ _ _ H2), Es. reflexivity.
        * reflexivity.
      + destruct (strict && negb (is_empty v) && match Aget k0 t with Some _ => true | None => false end).
        * rewrite commit_fold_none in H. discriminate.
        * rewrite (IH _ _ H3 H k). destruct (keqb k k0) eqn:E.
          -- apply keqb_spec in E. subst k0. rewrite (notin_aget_none _ _ _ H2), Es.
             now rewrite db_get_set, kref.
          -- destruct (Aget k c) as [[[v1 n1] f1]|]; rewrite ?db_get_set, ?E; reflexivity.
  Qed.

  Lemma commit_fold_total : forall c t, strict = false -> exists t', fold_left Commit1 c (Some t) = Some t'.
  Proof.
    induction c as [|[k0 [[v n] f]] c IH]; intros t Hs; simpl; [eauto|].
    destruct (skip f v); [apply IH; exact Hs|].
    replace (strict && negb (is_empty v) && match Aget k0 t with Some _ => true | None => false end)
      with false by (rewrite Hs; reflexivity).
    apply IH; exact Hs.
  Qed.

  (* the table after the commit holds the state after the committed rounds *)
  Lemma commit_table_ok : forall f0 ds t t',
    all_nodup ds -> wf_range f0 ds ->
    (forall k, Dbget t k = f0 k) ->
    fold_left Commit1 (Compact ds) (Some t) = Some t' ->
    forall k, Dbget t' k = stf f0 ds (length ds) k.
  Proof.
    intros f0 ds t t' Hnd Hwf Ht H k.
    rewrite (commit_fold_get _ _ _ (compact_nodup ds) H k), (compact_get _ _ Hnd), stf_walk, firstn_all.
    destruct (firstrec ds k) as [f|] eqn:E.
    - destruct (Walk ds k) as [dl|] eqn:E2.
      + rewrite (mergeall_interp _ _ _ _ Hwf E2). destruct (skip f (interp dl)) eqn:Es; [|reflexivity].
        rewrite Ht. symmetry. apply (skip_ok _ _ _ (firstrec_wf _ _ _ _ Hwf E) Es).
      + apply firstrec_none_walk in E2. rewrite E2 in E. discriminate.
    - apply firstrec_none_walk in E. rewrite E. apply Ht.
  Qed.
  (* ------------------------------------------------------------------ postCommit: reference counts *)
  Notation Drop := (mods_drop K V keqb).
  Notation Postm := (post_mods K V D keqb).

  Lemma mods_drop_get : forall m k c v n,
    Aget k m = Some (v, n) -> c <= n ->
    exists m', Drop m k c = Some m' /\
      forall k', Aget k' m' = if keqb k' k then (if n =? c then None else Some (v, n - c)) else Aget k' m.
  Proof.
    intros m k c v n H Hc. unfold mods_drop. rewrite H.
    destruct (n <? c) eqn:E1; [apply Nat.ltb_lt in E1; lia|].
    destruct (n =? c) eqn:E2.
    - eexists. split; [reflexivity|]. intro k'. rewrite aget_adel. now destruct (keqb k' k).
    - eexists. split; [reflexivity|]. intro k'. simpl. destruct (keqb k' k) eqn:E3; [reflexivity|].
      now rewrite aget_adel, E3.
  Qed.

  Lemma post_mods_fold : forall (c : list (cent K V D)) m,
    NoDup (map fst c) ->
    (forall k v n f, Aget k c = Some (v, n, f) -> exists v' n', Aget k m = Some (v', n') /\ n <= n') ->
    exists m', fold_left Postm c (Some m) = Some m' /\
      forall k, Aget k m' =
        match Aget k c with
        | Some (_, n, _) => match Aget k m with
                            | Some (v', n') => if n' =? n then None else Some (v', n' - n)
                            | None => None
                            end
        | None => Aget k m
        end.
  Proof.
    induction c as [|[k0 [[v0 n0] f0]] c IH]; intros m Hnd Hpre; simpl.
    - eexists. split; [reflexivity|]. reflexivity.
    - inversion Hnd; subst.
      destruct (Hpre k0 v0 n0 f0) as [v' [n' [Hm Hle]]]; [simpl; now rewrite kref|].
      destruct (mods_drop_get m k0 n0 v' n' Hm Hle) as [m1 [Hd Hg]]. rewrite Hd.
      destruct (IH m1 H2) as [m' [Hf Hg']].
      + intros k v n f Hk. assert (Hne : keqb k k0 = false).
        { destruct (keqb k k0) eqn:E; [|reflexivity]. apply keqb_spec in E. subst.
          rewrite (notin_aget_none _ _ _ H1) in Hk. discriminate. }
        rewrite Hg, Hne. apply (Hpre k v n f). simpl. now rewrite Hne.
      + exists m'. split; [exact Hf|]. intro k. rewrite Hg'. destruct (keqb k k0) eqn:E.
        * apply keqb_spec in E. subst k0. rewrite (notin_aget_none _ _ _ H1), Hg, kref, Hm. reflexivity.
        * rewrite Hg, E. reflexivity.
  Qed.

  Lemma mods_ok_post : forall m ds rest,
    mods_ok m (ds ++ rest) -> all_nodup ds ->
    exists m', fold_left Postm (Compact ds) (Some m) = Some m' /\ mods_ok m' rest.
  Proof.
    intros m ds rest Hm Hnd.
    destruct (post_mods_fold (Compact ds) m (compact_nodup ds)) as [m' [Hf Hg]].
    - intros k v n f Hk. rewrite (compact_get _ _ Hnd) in Hk.
      destruct (firstrec ds k) as [f'|] eqn:E; [|discriminate]. inversion Hk; subst.
      rewrite (Hm k), walk_app, cnt_app.
      assert (Hw : Walk ds k <> None). { intro Hx. apply firstrec_none_walk in Hx. congruence. }
      destruct (Walk rest k); [eexists; eexists; split; [reflexivity|lia]|].
      destruct (Walk ds k); [eexists; eexists; split; [reflexivity|lia]|congruence].
    - exists m'. split; [exact Hf|]. intro k. rewrite Hg, (compact_get _ _ Hnd), (Hm k), walk_app, cnt_app.
      destruct (firstrec ds k) as [f'|] eqn:E.
      + assert (Hw : Walk ds k <> None). { intro Hx. apply firstrec_none_walk in Hx. congruence. }
        destruct (Walk rest k) as [d|] eqn:E2.
        * assert (Hc : cnt rest k <> 0). { intro Hx. apply cnt_zero_walk in Hx. congruence. }
          destruct (cnt ds k + cnt rest k =? cnt ds k) eqn:E3; [apply Nat.eqb_eq in E3; lia|].
          f_equal. f_equal. lia.
        * apply cnt_zero_walk in E2. rewrite E2. destruct (Walk ds k); [|congruence].
          now rewrite Nat.add_0_r, Nat.eqb_refl.
      + apply firstrec_none_walk in E. rewrite E. assert (Hc := E). apply cnt_zero_walk in Hc.
        rewrite Hc. now destruct (Walk rest k).
  Qed.
  (* ------------------------------------------------------------------ LRU cache *)
  Notation CE := (centry K V).
  Notation Cread := (c_read K V keqb).
  Notation Cremove := (c_remove K V keqb).
  Notation Lwrite := (lru_write K V keqb).
  Notation key := (ce_key K V).
  Notation val := (ce_val K V).
  Notation rnd := (ce_rnd K V).

  Lemma cread_some : forall l k e, Cread l k = Some e -> In e l /\ key e = k.
  Proof.
    intros l k e H. unfold c_read in H. apply find_some in H. destruct H as [H1 H2].
    split; [exact H1|]. apply keqb_spec in H2. now subst.
  Qed.

  Lemma cread_remove : forall l k0 k, Cread (Cremove l k0) k = if keqb k k0 then None else Cread l k.
  Proof.
    induction l as [|e l IH]; intros k0 k; simpl; [now destruct (keqb k k0)|].
    destruct (keqb k0 (key e)) eqn:E1; simpl.
    - apply keqb_spec in E1. subst k0. rewrite IH. now destruct (keqb k (key e)).
    - destruct (keqb k (key e)) eqn:E2.
      + apply keqb_spec in E2. subst k. rewrite (ksym (key e) k0), E1. reflexivity.
      + apply IH.
  Qed.

  Definition winner (l : list CE) (e : CE) : CE :=
    match Cread l (key e) with
    | Some old => if rnd old <? rnd e then e else old
    | None => e
    end.

  Lemma lwrite_read : forall l e k,
    Cread (Lwrite l e) k = if keqb k (key e) then Some (winner l e) else Cread l k.
  Proof.
    intros l e k. unfold lru_write, winner. destruct (Cread l (key e)) as [old|] eqn:E.
    - assert (Hk : key (if rnd old <? rnd e then e else old) = key e).
      { destruct (rnd old <? rnd e); [reflexivity|]. now apply cread_some in E. }
      unfold c_read at 1. simpl. fold (Cread (Cremove l (key e)) k). rewrite Hk.
      destruct (keqb k (key e)) eqn:E2; [reflexivity|]. now rewrite cread_remove, E2.
    - unfold c_read at 1. simpl. fold (Cread l k). destruct (keqb k (key e)); reflexivity.
  Qed.

  Lemma lwrite_in : forall l e x, In x (Lwrite l e) -> x = winner l e \/ (In x l /\ key x <> key e).
  Proof.
    intros l e x H. unfold lru_write, winner in *. destruct (Cread l (key e)) as [old|] eqn:E.
    - destruct H as [H|H]; [left; now symmetry|]. right. unfold c_remove in H.
      apply filter_In in H. destruct H as [H1 H2]. split; [exact H1|].
      intro Hx. rewrite Hx, kref in H2. discriminate.
    - destruct H as [H|H]; [left; now symmetry|]. right. split; [exact H|].
      intro Hx. unfold c_read in E. apply (find_none _ _ E) in H. rewrite Hx, kref in H. discriminate.
  Qed.

  Lemma winner_cases : forall l e,
    (winner l e = e /\ (forall old, Cread l (key e) = Some old -> rnd old < rnd e)) \/
    (exists old, Cread l (key e) = Some old /\ winner l e = old /\ rnd e <= rnd old).
  Proof.
    intros l e. unfold winner. destruct (Cread l (key e)) as [old|] eqn:E.
    - destruct (rnd old <? rnd e) eqn:E2.
      + left. split; [reflexivity|]. intros o Ho. inversion Ho; subst. now apply Nat.ltb_lt.
      + right. exists old. repeat split. apply Nat.ltb_ge in E2. exact E2.
    - left. split; [reflexivity|]. intros o Ho. discriminate.
  Qed.

  Lemma winner_key : forall l e, key (winner l e) = key e.
  Proof.
    intros l e. destruct (winner_cases l e) as [[H _]|[old [H1 [H2 _]]]]; [now rewrite H|].
    rewrite H2. now apply cread_some in H1.
  Qed.

  (* MoveToFront *)
  Notation Ltouch := (lru_touch K V keqb).

  Lemma ltouch_read : forall l k k', Cread (Ltouch l k) k' = Cread l k'.
  Proof.
    intros l k k'. unfold lru_touch. destruct (Cread l k) as [old|] eqn:E; [|reflexivity].
    assert (Hk := proj2 (cread_some _ _ _ E)).
    unfold c_read at 1. simpl. fold (Cread (Cremove l k) k'). rewrite Hk.
    destruct (keqb k' k) eqn:E2.
    - apply keqb_spec in E2. subst k'. now rewrite E.
    - now rewrite cread_remove, E2.
  Qed.

  Lemma ltouch_in : forall l k x, In x (Ltouch l k) -> In x l.
  Proof.
    intros l k x H. unfold lru_touch in H. destruct (Cread l k) as [old|] eqn:E; [|exact H].
    destruct H as [H|H]; [subst; now apply cread_some in E|].
    unfold c_remove in H. now apply filter_In in H.
  Qed.

  (* dl = keys whose value changed in the commit being post-processed and whose new row has
     not been written to the cache yet ("dirty"); empty outside postCommit *)
  Definition lru_ok (dl : list K) (R : nat) (S : K -> V) (l : list CE) : Prop :=
    forall e, In e l ->
      rnd e <= R /\ (In (key e) dl -> rnd e < R) /\ (~ In (key e) dl -> val e = S (key e)).
  (* something a reader took from the DB at round [rnd]: only binding while that is still the
     DB round *)
  Definition ent_ok (R : nat) (S : K -> V) (e : CE) : Prop :=
    rnd e <= R /\ (rnd e = R -> val e = S (key e)).
  Definition nfe_ok (R : nat) (S : K -> V) (p : K * nat) : Prop :=
    snd p <= R /\ (snd p = R -> S (fst p) = vempty).
  Definition item_ok (R : nat) (S : K -> V) (x : CE + K * nat) : Prop :=
    match x with inl e => ent_ok R S e | inr p => nfe_ok R S p end.
  Definition nf_ok (dl : list K) (S : K -> V) (l : list CE) (ks : list K) : Prop :=
    forall k, In k ks -> ~ In k dl -> S k = vempty \/ Cread l k <> None.

  Record CInvD (dl : list K) (R : nat) (S : K -> V) (c : cache K V) : Prop := mkCInvD {
    ci_lru : lru_ok dl R S (c_lru K V c);
    ci_pend : Forall (ent_ok R S) (c_pend K V c);
    ci_pnf : Forall (nfe_ok R S) (c_pnf K V c);
    ci_stall : Forall (item_ok R S) (c_stall K V c);
    ci_nf : nf_ok dl S (c_lru K V c) (c_nf K V c) }.
  Definition CInv := CInvD [].

  Lemma cinv_empty : forall R S, CInv R S (cache_empty K V).
  Proof.
    intros R S. constructor; simpl.
    - intros x Hx. inversion Hx.
    - constructor.
    - constructor.
    - constructor.
    - intros x Hx. inversion Hx.
  Qed.

  Lemma in_dec_k : forall (k : K) (l : list K), {In k l} + {~ In k l}.
  Proof. intros. apply in_dec. apply keqb_dec. Qed.

  (* one cache write of postCommit: the key stops being dirty *)
  Lemma cinvd_write : forall k dl R S c,
    ~ In k dl -> CInvD (k :: dl) R S c ->
    CInvD dl R S (cache_write K V keqb true c (mkCE K V k (S k) R)).
  Proof.
    intros k dl R S c Hk [Hl Hp Hpn Hs Hn]. unfold cache_write.
    set (e := mkCE K V k (S k) R). set (l := c_lru K V c) in *.
    assert (Hw : winner l e = e).
    { destruct (winner_cases l e) as [[H _]|[old [H1 [H2 H3]]]]; [exact H|].
      apply cread_some in H1. destruct H1 as [H1 H1k]. simpl in H1k.
      destruct (Hl old H1) as [_ [Hd _]]. rewrite H1k in Hd. simpl in H3.
      specialize (Hd (or_introl eq_refl)). lia. }
    constructor; simpl; try assumption.
    - (* lru_ok *)
      intros e0 H. destruct (lwrite_in l e e0 H) as [Hx|[Hx Hne]].
      + rewrite Hx, Hw. simpl. split; [lia|split; [intro; contradiction|intro; reflexivity]].
      + destruct (Hl e0 Hx) as [H1 [H2 H3]]. split; [exact H1|split].
        * intro Hd. apply H2. now right.
        * intro Hd. apply H3. intros [Hy|Hy]; [simpl in Hne; congruence|contradiction].
    - (* nf_ok *)
      intros k0 Hk0 Hd. destruct (keqb_dec k0 k) as [Hy|Hy].
      + right. rewrite lwrite_read, Hy. simpl. rewrite kref. discriminate.
      + destruct (Hn k0 Hk0) as [Hq|Hq]; [intros [Hz|Hz]; [congruence|contradiction] | now left |].
        right. rewrite lwrite_read. simpl. now rewrite (kneq _ _ Hy).
  Qed.

  Lemma ent_ok_enter : forall R R' S S' e, R < R' -> ent_ok R S e -> ent_ok R' S' e.
  Proof. intros R R' S S' e HR [H1 _]. split; [lia|intro; lia]. Qed.
  Lemma nfe_ok_enter : forall R R' S S' p, R < R' -> nfe_ok R S p -> nfe_ok R' S' p.
  Proof. intros R R' S S' p HR [H1 _]. split; [lia|intro; lia]. Qed.

  (* entering postCommit: the rows changed by the commit become dirty; whatever readers took
     from the DB before is now from an older round *)
  Lemma cinvd_enter : forall dl R R' S S' c,
    R < R' -> (forall k, ~ In k dl -> S' k = S k) ->
    CInv R S c -> CInvD dl R' S' c.
  Proof.
    intros dl R R' S S' c HR HS [Hl Hp Hpn Hs Hn]. constructor.
    - intros e H. destruct (Hl e H) as [H1 [_ H3]]. split; [lia|split; [intros; lia|]].
      intro Hd. rewrite (HS _ Hd). apply H3. tauto.
    - eapply Forall_impl; [|exact Hp]. intros e. now apply ent_ok_enter.
    - eapply Forall_impl; [|exact Hpn]. intros e. now apply nfe_ok_enter.
    - eapply Forall_impl; [|exact Hs]. intros [e|q]; simpl; [now apply ent_ok_enter|now apply nfe_ok_enter].
    - intros k Hk Hd. rewrite (HS _ Hd). apply (Hn k Hk). tauto.
  Qed.

  (* flushPendingWritesSince *)
  Notation Fone := (flush_one K V keqb true).

  Lemma flush_fold : forall R S p l ks,
    lru_ok [] R S l -> Forall (ent_ok R S) p -> nf_ok [] S l ks ->
    lru_ok [] R S (fold_left (Fone R) p l) /\ nf_ok [] S (fold_left (Fone R) p l) ks.
  Proof.
    intros R S. induction p as [|e p IH]; intros l ks Hl Hp Hn; simpl; [now split|].
    inversion Hp as [|e' p' He Hp']; subst. destruct He as [He1 He2].
    destruct (rnd e <? R) eqn:E.
    - (* read at an older DB round: promotion only *)
      assert (Hstep : Fone R l e = Ltouch l (key e)) by (unfold flush_one; simpl; now rewrite E).
      rewrite Hstep. apply IH; [|exact Hp'|].
      + intros x Hx. apply Hl. now apply ltouch_in in Hx.
      + intros k Hk Hd. rewrite ltouch_read. now apply Hn.
    - assert (Hstep : Fone R l e = Lwrite l e) by (unfold flush_one; simpl; now rewrite E).
      rewrite Hstep. apply Nat.ltb_ge in E. assert (Heq : rnd e = R) by lia. apply IH; [|exact Hp'|].
      + intros x Hx. destruct (lwrite_in l e x Hx) as [Hy|[Hy _]]; [|now apply Hl].
        subst x. destruct (winner_cases l e) as [[H _]|[old [H1 [H2 _]]]].
        * rewrite H. split; [lia|split; [simpl; tauto|]]. intros _. now apply He2.
        * rewrite H2. apply Hl. now apply cread_some in H1.
      + intros k Hk Hd. destruct (Hn k Hk Hd) as [Hq|Hq]; [now left|]. right.
        rewrite lwrite_read. destruct (keqb k (key e)); [discriminate|exact Hq].
  Qed.

  Lemma cinv_flush : forall R S c, CInv R S c -> CInv R S (cache_flush K V keqb true true R c).
  Proof.
    intros R S c [Hl Hp Hpn Hs Hn]. unfold cache_flush.
    destruct (flush_fold R S _ _ (c_nf K V c) Hl Hp Hn) as [H1 H2].
    constructor; simpl; [exact H1|constructor|constructor|exact Hs|].
    intros k Hk Hd. apply in_app_iff in Hk. destruct Hk as [Hk|Hk]; [|now apply H2].
    left. apply in_map_iff in Hk. destruct Hk as [[k0 r0] [Hk1 Hk2]]. simpl in Hk1. subst k0.
    apply filter_In in Hk2. destruct Hk2 as [Hk2 Hk3]. simpl in Hk3.
    rewrite Forall_forall in Hpn. destruct (Hpn _ Hk2) as [Ha Hb]. simpl in *.
    apply Hb. apply negb_true_iff, Nat.ltb_ge in Hk3. lia.
  Qed.

  Lemma cinv_flush_prune : forall R S c n,
    CInv R S c -> CInv R S (cache_prune K V true (cache_flush K V keqb true true R c) n).
  Proof.
    intros R S c n H. apply cinv_flush in H. destruct H as [Hl Hp Hpn Hs Hn]. unfold cache_prune.
    simpl in *. constructor; simpl; try assumption.
    - intros e He. apply Hl. rewrite <- (firstn_skipn n). apply in_or_app. now left.
    - intros x Hx. inversion Hx.
  Qed.

  Lemma cinv_wpend : forall R S c en pcap e,
    CInv R S c -> ent_ok R S e -> CInv R S (cache_wpend K V en pcap c e).
  Proof.
    intros R S c en pcap e [Hl Hp Hpn Hs Hn] He. unfold cache_wpend.
    destruct (en && (length (c_pend K V c) <? pcap)); [|now constructor].
    constructor; simpl; try assumption. apply Forall_app. split; [exact Hp|now constructor].
  Qed.

  Lemma cinv_wpnf : forall R S c en pcap p,
    CInv R S c -> nfe_ok R S p -> CInv R S (cache_wpnf K V en pcap c p).
  Proof.
    intros R S c en pcap p [Hl Hp Hpn Hs Hn] He. unfold cache_wpnf.
    destruct (en && (length (c_pnf K V c) <? pcap)); [|now constructor].
    constructor; simpl; try assumption. apply Forall_app. split; [exact Hpn|now constructor].
  Qed.

  Lemma cinv_put : forall R S c stall en pcap x,
    CInv R S c -> item_ok R S x -> CInv R S (cache_put K V stall en pcap c x).
  Proof.
    intros R S c stall en pcap x H Hx. unfold cache_put. destruct stall.
    - destruct en; [|exact H]. destruct H as [Hl Hp Hpn Hs Hn]. constructor; simpl; try assumption.
      apply Forall_app. split; [exact Hs|now constructor].
    - destruct x as [e|p]; [now apply cinv_wpend|now apply cinv_wpnf].
  Qed.

  Lemma remove_nth_in : forall (A : Type) (l : list A) n x, In x (remove_nth n l) -> In x l.
  Proof.
    induction l as [|y l IH]; intros n x H; destruct n; simpl in *; try contradiction.
    - now right.
    - destruct H as [H|H]; [now left|right; now apply (IH n)].
  Qed.

  (* a stalled reader finally executes its cache write *)
  Lemma cinv_land : forall R S c en pcap n, CInv R S c -> CInv R S (cache_land K V en pcap c n).
  Proof.
    intros R S c en pcap n H. unfold cache_land. destruct (nth_error (c_stall K V c) n) as [x|] eqn:E; [|exact H].
    destruct H as [Hl Hp Hpn Hs Hn]. apply cinv_put.
    - constructor; simpl; try assumption. rewrite Forall_forall in *. intros y Hy. apply Hs.
      now apply remove_nth_in in Hy.
    - rewrite Forall_forall in Hs. apply Hs. now apply nth_error_In in E.
  Qed.

  (* ---------- the original flushPendingWrites: pending entries are written like any other ---------- *)
  (* an entry in the pending channel must carry the DB value, or be shadowed by a newer cache
     entry for its key; held readers ([c_stall]) are constrained only when they land *)
  Definition pendU_ok (dl : list K) (R : nat) (S : K -> V) (l p : list CE) : Prop :=
    forall e, In e p ->
      rnd e <= R /\ (In (key e) dl -> rnd e < R) /\
      (~ In (key e) dl -> val e = S (key e) \/ exists e', Cread l (key e) = Some e' /\ rnd e < rnd e').

  Record CInvU (dl : list K) (R : nat) (S : K -> V) (c : cache K V) : Prop := mkCInvU {
    cu_lru : lru_ok dl R S (c_lru K V c);
    cu_pend : pendU_ok dl R S (c_lru K V c) (c_pend K V c);
    cu_stall : Forall (item_ok R S) (c_stall K V c);
    cu_nf : nf_ok dl S (c_lru K V c) (c_nf K V c ++ map fst (c_pnf K V c)) }.

  Lemma cinvu_empty : forall R S, CInvU [] R S (cache_empty K V).
  Proof.
    intros R S. constructor; simpl.
    - intros x Hx. inversion Hx.
    - intros x Hx. inversion Hx.
    - constructor.
    - intros x Hx. inversion Hx.
  Qed.

  Lemma cinvu_write : forall k dl R S c,
    ~ In k dl -> CInvU (k :: dl) R S c ->
    CInvU dl R S (cache_write K V keqb true c (mkCE K V k (S k) R)).
  Proof.
    intros k dl R S c Hk [Hl Hp Hs Hn]. unfold cache_write.
    set (e := mkCE K V k (S k) R). set (l := c_lru K V c) in *.
    assert (Hw : winner l e = e).
    { destruct (winner_cases l e) as [[H _]|[old [H1 [H2 H3]]]]; [exact H|].
      apply cread_some in H1. destruct H1 as [H1 H1k]. simpl in H1k.
      destruct (Hl old H1) as [_ [Hd _]]. rewrite H1k in Hd. simpl in H3.
      specialize (Hd (or_introl eq_refl)). lia. }
    constructor; simpl; try assumption.
    - intros e0 H. destruct (lwrite_in l e e0 H) as [Hx|[Hx Hne]].
      + rewrite Hx, Hw. simpl. split; [lia|split; [intro; contradiction|intro; reflexivity]].
      + destruct (Hl e0 Hx) as [H1 [H2 H3]]. split; [exact H1|split].
        * intro Hd. apply H2. now right.
        * intro Hd. apply H3. intros [Hy|Hy]; [simpl in Hne; congruence|contradiction].
    - intros e0 H. destruct (Hp e0 H) as [H1 [H2 H3]]. split; [exact H1|split].
      + intro Hd. apply H2. now right.
      + intro Hd. destruct (keqb_dec (key e0) k) as [Hy|Hy].
        * right. exists e. rewrite lwrite_read, Hy. simpl. rewrite kref, Hw. split; [reflexivity|].
          simpl. apply H2. now left.
        * destruct H3 as [Hq|[e' [Hq1 Hq2]]]; [intros [Hz|Hz]; [congruence|contradiction] | now left |].
          right. exists e'. rewrite lwrite_read. simpl. rewrite (kneq _ _ Hy). now split.
    - intros k0 Hk0 Hd. destruct (keqb_dec k0 k) as [Hy|Hy].
      + right. rewrite lwrite_read, Hy. simpl. rewrite kref. discriminate.
      + destruct (Hn k0 Hk0) as [Hq|Hq]; [intros [Hz|Hz]; [congruence|contradiction] | now left |].
        right. rewrite lwrite_read. simpl. now rewrite (kneq _ _ Hy).
  Qed.

  Lemma cinvu_enter : forall dl R R' S S' c,
    R < R' -> (forall k, ~ In k dl -> S' k = S k) ->
    CInvU [] R S c -> CInvU dl R' S' c.
  Proof.
    intros dl R R' S S' c HR HS [Hl Hp Hs Hn]. constructor.
    - intros e H. destruct (Hl e H) as [H1 [_ H3]]. split; [lia|split; [intros; lia|]].
      intro Hd. rewrite (HS _ Hd). apply H3. tauto.
    - intros e H. destruct (Hp e H) as [H1 [_ H3]]. split; [lia|split; [intros; lia|]].
      intro Hd. rewrite (HS _ Hd). apply H3. tauto.
    - eapply Forall_impl; [|exact Hs]. intros [e|q]; simpl; [now apply ent_ok_enter|now apply nfe_ok_enter].
    - intros k Hk Hd. rewrite (HS _ Hd). apply (Hn k Hk). tauto.
  Qed.

  Lemma flushu_fold : forall R S p l ks,
    lru_ok [] R S l -> pendU_ok [] R S l p -> nf_ok [] S l ks ->
    lru_ok [] R S (fold_left Lwrite p l) /\ nf_ok [] S (fold_left Lwrite p l) ks.
  Proof.
    intros R S. induction p as [|e p IH]; intros l ks Hl Hp Hn; simpl; [now split|].
    apply IH.
    - intros x Hx. destruct (lwrite_in l e x Hx) as [Hy|[Hy _]]; [|now apply Hl].
      subst x. destruct (winner_cases l e) as [[H Hlt]|[old [H1 [H2 H3]]]].
      + rewrite H. destruct (Hp e (or_introl eq_refl)) as [Ha [_ Hb]].
        split; [exact Ha|split; [simpl; tauto|]].
        intros _. destruct (Hb (fun x => x)) as [Hc|[e' [Hc1 Hc2]]]; [exact Hc|].
        specialize (Hlt e' Hc1). lia.
      + rewrite H2. apply Hl. now apply cread_some in H1.
    - intros x Hx. destruct (Hp x (or_intror Hx)) as [Ha [_ Hb]].
      split; [exact Ha|split; [simpl; tauto|]].
      intros _. destruct (Hb (fun z => z)) as [Hc|[e' [Hc1 Hc2]]]; [now left|]. right.
      rewrite lwrite_read. destruct (keqb (key x) (key e)) eqn:E.
      + apply keqb_spec in E. rewrite E in Hc1. exists (winner l e). split; [reflexivity|].
        destruct (winner_cases l e) as [[H Hlt]|[old [H1 [H2 H3]]]].
        * rewrite H. specialize (Hlt e' Hc1). lia.
        * rewrite H2. rewrite Hc1 in H1. inversion H1; subst. exact Hc2.
      + exists e'. now split.
    - intros k Hk Hd. destruct (Hn k Hk Hd) as [Hq|Hq]; [now left|]. right.
      rewrite lwrite_read. destruct (keqb k (key e)); [discriminate|exact Hq].
  Qed.

  Lemma flush_one_old : forall R l e, flush_one K V keqb false R l e = Lwrite l e.
  Proof. reflexivity. Qed.

  Lemma fold_flush_old : forall R p l, fold_left (flush_one K V keqb false R) p l = fold_left Lwrite p l.
  Proof. intros R. induction p as [|e p IH]; intro l; simpl; [reflexivity|apply IH]. Qed.

  Lemma filter_all : forall (A : Type) (l : list A), filter (fun _ => true) l = l.
  Proof. induction l as [|x l IH]; simpl; [reflexivity|now rewrite IH]. Qed.

  Lemma cinvu_flush : forall R S c, CInvU [] R S c -> CInvU [] R S (cache_flush K V keqb true false R c).
  Proof.
    intros R S c [Hl Hp Hs Hn]. unfold cache_flush. simpl. rewrite fold_flush_old, filter_all.
    destruct (flushu_fold R S _ _ _ Hl Hp Hn) as [H1 H2].
    constructor; simpl; [exact H1|intros x Hx; inversion Hx|exact Hs|].
    rewrite app_nil_r. intros k Hk Hd. apply H2; [|exact Hd].
    rewrite in_app_iff in *. tauto.
  Qed.

  Lemma cinvu_flush_prune : forall R S c n,
    CInvU [] R S c -> CInvU [] R S (cache_prune K V true (cache_flush K V keqb true false R c) n).
  Proof.
    intros R S c n H. apply cinvu_flush in H. destruct H as [Hl Hp Hs Hn]. unfold cache_prune.
    simpl in *. constructor; simpl; try assumption.
    - intros e He. apply Hl. rewrite <- (firstn_skipn n). apply in_or_app. now left.
    - intros x Hx. inversion Hx.
    - intros x Hx. inversion Hx.
  Qed.

  (* what may enter the pending channels of the original code *)
  Definition entU_ok (R : nat) (S : K -> V) (l : list CE) (e : CE) : Prop :=
    rnd e <= R /\ (val e = S (key e) \/ exists e', Cread l (key e) = Some e' /\ rnd e < rnd e').
  Definition nfeU_ok (S : K -> V) (l : list CE) (p : K * nat) : Prop :=
    S (fst p) = vempty \/ Cread l (fst p) <> None.
  Definition itemU_ok (R : nat) (S : K -> V) (l : list CE) (x : CE + K * nat) : Prop :=
    match x with inl e => entU_ok R S l e | inr p => nfeU_ok S l p end.

  Lemma cinvu_wpend : forall R S c en pcap e,
    CInvU [] R S c -> entU_ok R S (c_lru K V c) e -> CInvU [] R S (cache_wpend K V en pcap c e).
  Proof.
    intros R S c en pcap e [Hl Hp Hs Hn] [He1 He2]. unfold cache_wpend.
    destruct (en && (length (c_pend K V c) <? pcap)); [|now constructor].
    constructor; simpl; try assumption.
    intros x Hx. apply in_app_iff in Hx. destruct Hx as [Hx|[Hx|[]]]; [now apply Hp|]. subst x.
    split; [exact He1|split; [simpl; tauto|intros _; exact He2]].
  Qed.

  Lemma cinvu_wpnf : forall R S c en pcap p,
    CInvU [] R S c -> nfeU_ok S (c_lru K V c) p -> CInvU [] R S (cache_wpnf K V en pcap c p).
  Proof.
    intros R S c en pcap p [Hl Hp Hs Hn] He. unfold cache_wpnf.
    destruct (en && (length (c_pnf K V c) <? pcap)); [|now constructor].
    constructor; simpl; try assumption.
    intros x Hx Hd. rewrite map_app, app_assoc in Hx. apply in_app_iff in Hx.
    destruct Hx as [Hx|[Hx|[]]]; [now apply Hn|]. subst x. exact He.
  Qed.

  (* an immediate cache write of a lookup: the item is both fresh and correct *)
  Lemma cinvu_put : forall R S c stall en pcap x,
    CInvU [] R S c -> item_ok R S x -> (stall = false -> itemU_ok R S (c_lru K V c) x) ->
    CInvU [] R S (cache_put K V stall en pcap c x).
  Proof.
    intros R S c stall en pcap x H Hx Hu. unfold cache_put. destruct stall.
    - destruct en; [|exact H]. destruct H as [Hl Hp Hs Hn]. constructor; simpl; try assumption.
      apply Forall_app. split; [exact Hs|now constructor].
    - specialize (Hu eq_refl). destruct x as [e|p]; [now apply cinvu_wpend|now apply cinvu_wpnf].
  Qed.

  (* a held reader's write lands: admissible for the original flush only if it is still from the
     current DB round, or it is shadowed by a newer cache entry, or the row has not changed *)
  Definition land_safe (R : nat) (S : K -> V) (c : cache K V) (n : nat) : Prop :=
    match nth_error (c_stall K V c) n with
    | Some x => itemU_ok R S (c_lru K V c) x
    | None => True
    end.

  Lemma cinvu_land : forall R S c en pcap n,
    CInvU [] R S c -> land_safe R S c n -> CInvU [] R S (cache_land K V en pcap c n).
  Proof.
    intros R S c en pcap n H Hsafe. unfold cache_land, land_safe in *.
    destruct (nth_error (c_stall K V c) n) as [x|] eqn:E; [|exact H].
    destruct H as [Hl Hp Hs Hn]. apply cinvu_put.
    - constructor; simpl; try assumption. rewrite Forall_forall in *. intros y Hy. apply Hs.
      now apply remove_nth_in in Hy.
    - rewrite Forall_forall in Hs. apply Hs. now apply nth_error_In in E.
    - intros _. exact Hsafe.
  Qed.

  Lemma land_ok_safe : forall R S c n,
    CInvU [] R S c -> cache_land_ok K V keqb R c n = true -> land_safe R S c n.
  Proof.
    intros R S c n [Hl Hp Hs Hn] H. unfold cache_land_ok, land_safe in *.
    destruct (nth_error (c_stall K V c) n) as [x|] eqn:E; [|exact I].
    rewrite Forall_forall in Hs. assert (Hx := Hs x (nth_error_In _ _ E)).
    destruct x as [e|q]; simpl in *.
    - destruct Hx as [H1 H2]. split; [exact H1|]. apply orb_true_iff in H. destruct H as [H|H].
      + apply Nat.eqb_eq in H. left. now apply H2.
      + destruct (Cread (c_lru K V c) (key e)) as [e'|] eqn:Er; [|discriminate].
        right. exists e'. split; [reflexivity|now apply Nat.ltb_lt].
    - destruct Hx as [H1 H2]. apply orb_true_iff in H. destruct H as [H|H].
      + apply Nat.eqb_eq in H. left. now apply H2.
      + right. destruct (Cread (c_lru K V c) (fst q)); [discriminate|discriminate].
  Qed.

  (* the invariant of the cache for either flush *)
  Definition CInvG (fixed : bool) (dl : list K) (R : nat) (S : K -> V) (c : cache K V) : Prop :=
    if fixed then CInvD dl R S c else CInvU dl R S c.

  Definition item_fresh (R : nat) (S : K -> V) (x : CE + K * nat) : Prop :=
    match x with
    | inl e => rnd e <= R /\ val e = S (key e)
    | inr p => snd p <= R /\ S (fst p) = vempty
    end.

  Lemma cinvg_empty : forall fx R S, CInvG fx [] R S (cache_empty K V).
  Proof. intros [|] R S; [apply cinv_empty|apply cinvu_empty]. Qed.

  Lemma cinvg_lru : forall fx dl R S c, CInvG fx dl R S c -> lru_ok dl R S (c_lru K V c).
  Proof. intros [|] dl R S c H; [apply (ci_lru _ _ _ _ H)|apply (cu_lru _ _ _ _ H)]. Qed.

  Lemma cinvg_nf : forall fx R S c k, CInvG fx [] R S c -> In k (c_nf K V c) ->
    S k = vempty \/ Cread (c_lru K V c) k <> None.
  Proof.
    intros [|] R S c k H Hk.
    - apply (ci_nf _ _ _ _ H k Hk). tauto.
    - apply (cu_nf _ _ _ _ H k); [apply in_or_app; now left|tauto].
  Qed.

  Lemma cinvg_wpend : forall fx R S c en pcap e,
    CInvG fx [] R S c -> rnd e <= R -> val e = S (key e) -> CInvG fx [] R S (cache_wpend K V en pcap c e).
  Proof.
    intros [|] R S c en pcap e H H1 H2.
    - apply cinv_wpend; [exact H|]. split; [exact H1|intro; exact H2].
    - apply cinvu_wpend; [exact H|]. split; [exact H1|now left].
  Qed.

  Lemma cinvg_put : forall fx R S c stall en pcap x,
    CInvG fx [] R S c -> item_fresh R S x -> CInvG fx [] R S (cache_put K V stall en pcap c x).
  Proof.
    intros [|] R S c stall en pcap x H Hx.
    - apply cinv_put; [exact H|]. destruct x as [e|q]; simpl in *; destruct Hx as [H1 H2]; split; auto.
    - apply cinvu_put; [exact H| |].
      + destruct x as [e|q]; simpl in *; destruct Hx as [H1 H2]; split; auto.
      + intros _. destruct x as [e|q]; simpl in *; destruct Hx as [H1 H2]; [split; [exact H1|now left]|now left].
  Qed.

  Lemma cinvg_flush : forall fx R S c, CInvG fx [] R S c -> CInvG fx [] R S (cache_flush K V keqb true fx R c).
  Proof. intros [|] R S c H; [now apply cinv_flush|now apply cinvu_flush]. Qed.

  Lemma cinvg_flush_prune : forall fx R S c n,
    CInvG fx [] R S c -> CInvG fx [] R S (cache_prune K V true (cache_flush K V keqb true fx R c) n).
  Proof. intros [|] R S c n H; [now apply cinv_flush_prune|now apply cinvu_flush_prune]. Qed.

  Lemma cinvg_land : forall fx R S c en pcap n,
    CInvG fx [] R S c -> (fx = false -> land_safe R S c n) -> CInvG fx [] R S (cache_land K V en pcap c n).
  Proof. intros [|] R S c en pcap n H Hs; [now apply cinv_land|apply cinvu_land; auto]. Qed.

  (* a disabled cache stays empty *)
  Definition cache_dis (en : bool) (c : cache K V) : Prop := en = false -> c = cache_empty K V.

  (* postCommit's cache writes, for the entries of a compact delta *)
  Notation Postc := (post_cache K V D keqb skip).
  Definition dirty_keys (c : list (cent K V D)) : list K :=
    map fst (filter (fun e => negb (skip (snd (snd e)) (fst (fst (snd e))))) c).

  Lemma dirty_keys_in : forall c k, In k (dirty_keys c) -> In k (map fst c).
  Proof.
    intros c k H. unfold dirty_keys in H. apply in_map_iff in H. destruct H as [x [H1 H2]].
    apply filter_In in H2. apply in_map_iff. exists x. tauto.
  Qed.

  Lemma post_cache_fold : forall (c : list (cent K V D)) R S ca,
    NoDup (map fst c) ->
    (forall k v n f, In (k, (v, n, f)) c -> skip f v = false -> v = S k) ->
    CInvD (dirty_keys c) R S ca ->
    CInv R S (fold_left (Postc true R) c ca).
  Proof.
    induction c as [|[k [[v n] f]] c IH]; intros R S ca Hnd Hv Hc; simpl; [exact Hc|].
    inversion Hnd; subst. apply IH; [exact H2|intros; eapply Hv; [right; eassumption|assumption]|].
    unfold dirty_keys in Hc. simpl in Hc. destruct (skip f v) eqn:Es; simpl in Hc; [exact Hc|].
    rewrite (Hv k v n f (or_introl eq_refl) Es). apply cinvd_write; [|exact Hc].
    intro Hx. apply H1. now apply dirty_keys_in.
  Qed.
  Lemma post_cache_fold_u : forall (c : list (cent K V D)) R S ca,
    NoDup (map fst c) ->
    (forall k v n f, In (k, (v, n, f)) c -> skip f v = false -> v = S k) ->
    CInvU (dirty_keys c) R S ca ->
    CInvU [] R S (fold_left (Postc true R) c ca).
  Proof.
    induction c as [|[k [[v n] f]] c IH]; intros R S ca Hnd Hv Hc; simpl; [exact Hc|].
    inversion Hnd; subst. apply IH; [exact H2|intros; eapply Hv; [right; eassumption|assumption]|].
    unfold dirty_keys in Hc. simpl in Hc. destruct (skip f v) eqn:Es; simpl in Hc; [exact Hc|].
    rewrite (Hv k v n f (or_introl eq_refl) Es). apply cinvu_write; [|exact Hc].
    intro Hx. apply H1. now apply dirty_keys_in.
  Qed.

  Lemma cinvg_post : forall fx (c : list (cent K V D)) R R' S S' ca,
    NoDup (map fst c) -> R < R' ->
    (forall k v n f, In (k, (v, n, f)) c -> skip f v = false -> v = S' k) ->
    (forall k, ~ In k (dirty_keys c) -> S' k = S k) ->
    CInvG fx [] R S ca -> CInvG fx [] R' S' (fold_left (Postc true R') c ca).
  Proof.
    intros [|] c R R' S S' ca Hnd HR Hv HS H.
    - apply post_cache_fold; [exact Hnd|exact Hv|]. now apply (cinvd_enter _ R R' S).
    - apply post_cache_fold_u; [exact Hnd|exact Hv|]. now apply (cinvu_enter _ R R' S).
  Qed.

  Lemma cinvu_ext : forall dl R S S' c, (forall k, S k = S' k) -> CInvU dl R S c -> CInvU dl R S' c.
  Proof.
    intros dl R S S' c HS [Hl Hp Hs Hn].
    constructor.
    - intros e H. destruct (Hl e H) as [H1 [H2 H3]]. split; [exact H1|split; [exact H2|]].
      intro Hd. rewrite <- HS. now apply H3.
    - intros e H. destruct (Hp e H) as [H1 [H2 H3]]. split; [exact H1|split; [exact H2|]].
      intro Hd. rewrite <- HS. now apply H3.
    - eapply Forall_impl; [|exact Hs]. intros [e|q]; simpl.
      + intros [H1 H2]. split; [exact H1|]. intro Hx. rewrite <- HS. now apply H2.
      + intros [H1 H2]. split; [exact H1|]. intro Hx. rewrite <- HS. now apply H2.
    - intros k Hk Hd. rewrite <- HS. now apply Hn.
  Qed.

  (* ------------------------------------------------------------------ the space invariant *)
  Variable f0 : K -> V.                      (* genesis values *)
  Notation Sf := (ks_state keqb interp f0).

  (* fx: which flush of the base caches the code uses (true = the proposed flushPendingWritesSince) *)
  Record SpInv (fx en : bool) (hist : rounds) (R dbr : nat) (mem : rounds) (s : sp K V) : Prop := mkSpInv {
    si_mods : mods_ok (s_mods K V s) mem;
    si_cache : CInvG fx [] R (Sf hist R) (s_cache K V s);
    si_dis : cache_dis en (s_cache K V s);
    si_db : forall k, Dbget (s_db K V s) k = Sf hist dbr k }.

  (* the in-memory rounds are a prefix of the history after round R *)
  Definition is_prefix (hist : rounds) (R : nat) (mem : rounds) : Prop :=
    mem = firstn (length mem) (skipn R hist).

  Lemma prefix_firstn : forall hist R mem off,
    is_prefix hist R mem -> off <= length mem -> firstn off (skipn R hist) = firstn off mem.
  Proof.
    intros hist R mem off H Ho. unfold is_prefix in H.
    transitivity (firstn off (firstn (length mem) (skipn R hist))); [|now rewrite <- H].
    rewrite firstn_firstn. now replace (Nat.min off (length mem)) with off by lia.
  Qed.

  Lemma Sf_mem : forall hist R mem off k,
    is_prefix hist R mem -> off <= length mem ->
    Sf hist (R + off) k = match Walk (firstn off mem) k with
                          | Some d => interp d
                          | None => Sf hist R k
                          end.
  Proof.
    intros hist R mem off k H Ho.
    rewrite (ks_state_walk K V D keqb interp f0 hist R off k), (prefix_firstn _ _ _ _ H Ho).
    rewrite <- (walk_lastrec (firstn off mem) k). reflexivity.
  Qed.

  Lemma walk_firstn_none : forall ds n k, Walk ds k = None -> Walk (firstn n ds) k = None.
  Proof.
    intros ds n k H. rewrite <- (firstn_skipn n ds), walk_app in H.
    destruct (Walk (skipn n ds) k); [discriminate|exact H].
  Qed.

  Lemma existsb_keqb : forall k l, existsb (keqb k) l = true -> In k l.
  Proof.
    intros k l H. apply existsb_exists in H. destruct H as [x [H1 H2]].
    apply keqb_spec in H2. now subst.
  Qed.

  Notation Fall := (sp_fall K V keqb vempty is_empty nf_mode).
  Notation Lookup := (sp_lookup K V D keqb interp vempty is_empty nf_mode).

  Lemma cache_put_dis : forall stall pcap c x, cache_put K V stall false pcap c x = c.
  Proof. intros. unfold cache_put, cache_wpend, cache_wpnf. destruct stall; [reflexivity|now destruct x]. Qed.

  Lemma sp_fall_ok : forall fx stall en pcap hist R dbr mem s k res s',
    SpInv fx en hist R dbr mem s ->
    Fall stall en pcap R dbr s k = (res, s') ->
    SpInv fx en hist R dbr mem s' /\
    (forall v, res = LOk v -> v = Sf hist R k) /\
    (dbr = R -> exists v, res = LOk v) /\
    (R < dbr -> res = LRetry \/ exists v, res = LOk v).
  Proof.
    intros fx stall en pcap hist R dbr mem s k res s' [Hm Hc Hd Hdb] H. unfold sp_fall in H.
    assert (Hdis : forall c', (en = false -> c' = s_cache K V s) -> cache_dis en c').
    { intros c' Hx He. rewrite (Hx He). now apply Hd. }
    destruct (Cread (c_lru K V (s_cache K V s)) k) as [e|] eqn:Er.
    - (* cache hit *)
      inversion H; subst res s'. clear H. apply cread_some in Er. destruct Er as [Hin Hk].
      destruct (cinvg_lru _ _ _ _ _ Hc e Hin) as [H1 [_ H3]].
      assert (Hv : val e = Sf hist R (key e)) by (apply H3; tauto).
      split; [|split; [|split]].
      + constructor; simpl; [exact Hm| |
          apply Hdis; intro He; unfold cache_wpend; now rewrite He | exact Hdb].
        now apply cinvg_wpend.
      + intros v Hx. inversion Hx. now rewrite Hv, Hk.
      + eauto.
      + eauto.
    - destruct (nf_mode && existsb (keqb k) (c_nf K V (s_cache K V s))) eqn:Enf.
      + (* notFound hit *)
        inversion H; subst res s'. clear H. apply andb_true_iff in Enf. destruct Enf as [_ Enf].
        apply existsb_keqb in Enf.
        split; [now constructor|]. split; [|split; eauto].
        intros v Hx. inversion Hx; subst v.
        destruct (cinvg_nf _ _ _ _ k Hc Enf) as [Hq|Hq]; [now symmetry|contradiction].
      + destruct (dbr =? R) eqn:Edb.
        * apply Nat.eqb_eq in Edb. subst dbr.
          destruct (nf_mode && is_empty (Dbget (s_db K V s) k)) eqn:Eemp.
          -- inversion H; subst res s'. clear H. apply andb_true_iff in Eemp.
             destruct Eemp as [_ Eemp]. apply is_empty_spec in Eemp. rewrite Hdb in Eemp.
             split; [|split; [|split; eauto]].
             ++ constructor; simpl; [exact Hm| |
                  apply Hdis; intro He; rewrite He; apply cache_put_dis | exact Hdb].
                apply cinvg_put; [exact Hc|]. simpl. split; [lia|exact Eemp].
             ++ intros v Hx. inversion Hx; subst v. now symmetry.
          -- inversion H; subst res s'. clear H.
             split; [|split; [|split; eauto]].
             ++ constructor; simpl; [exact Hm| |
                  apply Hdis; intro He; rewrite He; apply cache_put_dis | exact Hdb].
                apply cinvg_put; [exact Hc|]. simpl. split; [lia|apply Hdb].
             ++ intros v Hx. inversion Hx. apply Hdb.
        * apply Nat.eqb_neq in Edb. destruct (dbr <? R) eqn:Elt.
          -- apply Nat.ltb_lt in Elt. inversion H; subst res s'.
             split; [now constructor|]. split; [intros v Hx; discriminate|].
             split; [intro; lia|intro; lia].
          -- inversion H; subst res s'.
             split; [now constructor|]. split; [intros v Hx; discriminate|].
             split; [intro; congruence|intro; now left].
  Qed.

  Lemma sp_lookup_ok : forall fx stall en pcap hist R dbr mem s r k res s',
    SpInv fx en hist R dbr mem s -> is_prefix hist R mem ->
    Lookup stall en pcap R dbr mem s r k = (res, s') ->
    SpInv fx en hist R dbr mem s' /\
    (forall v, res = LOk v -> v = Sf hist r k) /\
    (R <= r <= R + length mem ->
       (dbr = R -> exists v, res = LOk v) /\ (R < dbr -> res = LRetry \/ exists v, res = LOk v)).
  Proof.
    intros fx stall en pcap hist R dbr mem s r k res s' Hinv Hpre H. unfold sp_lookup in H.
    destruct (r <? R) eqn:E1.
    { apply Nat.ltb_lt in E1. inversion H; subst. split; [exact Hinv|].
      split; [intros v Hx; discriminate|intro; lia]. }
    apply Nat.ltb_ge in E1.
    destruct (length mem <? r - R) eqn:E2.
    { apply Nat.ltb_lt in E2. inversion H; subst. split; [exact Hinv|].
      split; [intros v Hx; discriminate|intro; lia]. }
    apply Nat.ltb_ge in E2.
    assert (Hr : r = R + (r - R)) by lia.
    assert (HS := Sf_mem hist R mem (r - R) k Hpre E2). rewrite <- Hr in HS.
    assert (Hmods := si_mods _ _ _ _ _ _ _ Hinv k).
    assert (Hfall : forall res s', Fall stall en pcap R dbr s k = (res, s') ->
              Walk (firstn (r - R) mem) k = None ->
              SpInv fx en hist R dbr mem s' /\ (forall v, res = LOk v -> v = Sf hist r k) /\
              (R <= r <= R + length mem ->
                (dbr = R -> exists v, res = LOk v) /\ (R < dbr -> res = LRetry \/ exists v, res = LOk v))).
    { intros res0 s0 Hf Hw. destruct (sp_fall_ok _ _ _ _ _ _ _ _ _ _ _ _ Hinv Hf) as [Ha [Hb [Hc Hd]]].
      rewrite Hw in HS. split; [exact Ha|]. split; [|now split].
      intros v Hv. rewrite HS. now apply Hb. }
    destruct (Aget k (s_mods K V s)) as [[v n]|] eqn:Em.
    - destruct (r - R =? length mem) eqn:E3.
      + apply Nat.eqb_eq in E3. inversion H; subst res s'. rewrite E3, firstn_all in HS.
        destruct (Walk mem k) as [d|]; [|discriminate]. inversion Hmods; subst.
        split; [exact Hinv|]. split; [intros v' Hx; inversion Hx; now rewrite HS|].
        intro; split; eauto.
      + destruct (Walk (firstn (r - R) mem) k) as [d|] eqn:Ew.
        * inversion H; subst res s'. split; [exact Hinv|].
          split; [intros v' Hx; inversion Hx; now rewrite HS|]. intro; split; eauto.
        * now apply Hfall.
    - apply Hfall; [exact H|]. apply walk_firstn_none.
      destruct (Walk mem k); [discriminate|reflexivity].
  Qed.

  (* getCreatorForRound *)
  Notation CrLookup := (cr_lookup K V D keqb interp vempty).

  Lemma cr_lookup_ok : forall fx en hist R dbr mem s r k res,
    SpInv fx en hist R dbr mem s -> is_prefix hist R mem ->
    CrLookup R dbr mem s r k = res ->
    (forall v, res = LOk v -> v = Sf hist r k) /\
    (R <= r <= R + length mem ->
       (dbr = R -> exists v, res = LOk v) /\ (R < dbr -> res = LRetry \/ exists v, res = LOk v)).
  Proof.
    intros fx en hist R dbr mem s r k res Hinv Hpre H. unfold cr_lookup in H.
    destruct (r <? R) eqn:E1.
    { apply Nat.ltb_lt in E1. subst res. split; [intros v Hx; discriminate|intro; lia]. }
    apply Nat.ltb_ge in E1.
    destruct (length mem <? r - R) eqn:E2.
    { apply Nat.ltb_lt in E2. subst res. split; [intros v Hx; discriminate|intro; lia]. }
    apply Nat.ltb_ge in E2.
    assert (Hr : r = R + (r - R)) by lia.
    assert (HS := Sf_mem hist R mem (r - R) k Hpre E2). rewrite <- Hr in HS.
    assert (Hmods := si_mods _ _ _ _ _ _ _ Hinv k).
    assert (Hdb := si_db _ _ _ _ _ _ _ Hinv k).
    set (dbq := if dbr =? R then LOk (Dbget (s_db K V s) k) else if dbr <? R then LErr 3 else LRetry) in H.
    assert (Hq : Walk (firstn (r - R) mem) k = None ->
              (forall v, dbq = LOk v -> v = Sf hist r k) /\
              (R <= r <= R + length mem ->
                (dbr = R -> exists v, dbq = LOk v) /\ (R < dbr -> dbq = LRetry \/ exists v, dbq = LOk v))).
    { intro Hw. rewrite Hw in HS. unfold dbq. destruct (dbr =? R) eqn:Edb.
      - apply Nat.eqb_eq in Edb. subst dbr. split; [|intro; split; eauto].
        intros v Hx. inversion Hx. now rewrite HS.
      - apply Nat.eqb_neq in Edb. destruct (dbr <? R) eqn:Elt.
        + apply Nat.ltb_lt in Elt. split; [intros v Hx; discriminate|intro; split; intro; lia].
        + split; [intros v Hx; discriminate|intro; split; [intro; congruence|intro; now left]]. }
    destruct (r - R =? length mem) eqn:E3.
    - apply Nat.eqb_eq in E3. rewrite E3, firstn_all in HS, Hq.
      destruct (Aget k (s_mods K V s)) as [[v n]|] eqn:Em.
      + subst res. destruct (Walk mem k) as [d|]; [|discriminate]. inversion Hmods; subst.
        split; [intros v' Hx; inversion Hx; now rewrite HS|intro; split; eauto].
      + subst res. apply Hq. destruct (Walk mem k); [discriminate|reflexivity].
    - destruct (Walk (firstn (r - R) mem) k) as [d|] eqn:Ew.
      + subst res. split; [intros v' Hx; inversion Hx; now rewrite HS|intro; split; eauto].
      + subst res. now apply Hq.
  Qed.
  (* ------------------------------------------------------------------ operations keep the invariant *)
  Lemma cinvd_ext : forall dl R S S' c, (forall k, S k = S' k) -> CInvD dl R S c -> CInvD dl R S' c.
  Proof.
    intros dl R S S' c HS [Hl Hp Hpn Hs Hn].
    assert (He : forall e, ent_ok R S e -> ent_ok R S' e).
    { intros e [H1 H2]. split; [exact H1|]. intro Hx. rewrite <- HS. now apply H2. }
    assert (Hf : forall q, nfe_ok R S q -> nfe_ok R S' q).
    { intros q [H1 H2]. split; [exact H1|]. intro Hx. rewrite <- HS. now apply H2. }
    constructor.
    - intros e H. destruct (Hl e H) as [H1 [H2 H3]]. split; [exact H1|split; [exact H2|]].
      intro Hd. rewrite <- HS. now apply H3.
    - eapply Forall_impl; [|exact Hp]. exact He.
    - eapply Forall_impl; [|exact Hpn]. exact Hf.
    - eapply Forall_impl; [|exact Hs]. intros [e|q]; simpl; [apply He|apply Hf].
    - intros k Hk Hd. rewrite <- HS. now apply Hn.
  Qed.

  Lemma cinvg_ext : forall fx dl R S S' c, (forall k, S k = S' k) -> CInvG fx dl R S c -> CInvG fx dl R S' c.
  Proof. intros [|] dl R S S' c HS H; [now apply (cinvd_ext _ _ S)|now apply (cinvu_ext _ _ S)]. Qed.

  Lemma spinv_ext : forall fx en hist hist' R dbr mem s,
    (forall k, Sf hist' R k = Sf hist R k) -> (forall k, Sf hist' dbr k = Sf hist dbr k) ->
    SpInv fx en hist R dbr mem s -> SpInv fx en hist' R dbr mem s.
  Proof.
    intros fx en hist hist' R dbr mem s H1 H2 [Hm Hc Hd Hdb]. constructor; [exact Hm| |exact Hd|].
    - apply (cinvg_ext _ _ _ (Sf hist R)); [intro k; now rewrite H1|exact Hc].
    - intro k. now rewrite H2.
  Qed.

  Lemma sp_newblock_inv : forall fx en buf hist R dbr mem s recs,
    SpInv fx en hist R dbr mem s -> nodup_keys keqb recs = true ->
    SpInv fx en hist R dbr (mem ++ [recs]) (sp_newblock K V D keqb interp en fx R buf recs s).
  Proof.
    intros fx en buf hist R dbr mem s recs [Hm Hc Hd Hdb] Hnd. unfold sp_newblock.
    constructor; simpl; [now apply mods_ok_newblock| | |exact Hdb].
    - destruct en; [now apply cinvg_flush_prune|exact Hc].
    - intro He. subst en. simpl. now apply Hd.
  Qed.

  Lemma sp_flush_inv : forall fx en hist R dbr mem s,
    SpInv fx en hist R dbr mem s -> SpInv fx en hist R dbr mem (sp_flush K V keqb en fx R s).
  Proof.
    intros fx en hist R dbr mem s [Hm Hc Hd Hdb]. unfold sp_flush, sp_setc.
    constructor; simpl; [exact Hm| | |exact Hdb].
    - destruct en; [now apply cinvg_flush|exact Hc].
    - intro He. subst en. simpl. now apply Hd.
  Qed.

  Lemma sp_prune_inv : forall fx en n hist R dbr mem s,
    SpInv fx en hist R dbr mem s -> SpInv fx en hist R dbr mem (sp_prune K V keqb en fx R n s).
  Proof.
    intros fx en n hist R dbr mem s [Hm Hc Hd Hdb]. unfold sp_prune, sp_setc.
    constructor; simpl; [exact Hm| | |exact Hdb].
    - destruct en; [now apply cinvg_flush_prune|exact Hc].
    - intro He. subst en. simpl. now apply Hd.
  Qed.

  (* with the original flush a held reader's write may only land while it cannot do harm *)
  Lemma sp_land_inv : forall fx en pcap n hist R dbr mem s,
    SpInv fx en hist R dbr mem s ->
    (fx = false -> land_safe R (Sf hist R) (s_cache K V s) n) ->
    SpInv fx en hist R dbr mem (sp_land K V en pcap n s).
  Proof.
    intros fx en pcap n hist R dbr mem s [Hm Hc Hd Hdb] Hs. unfold sp_land, sp_setc.
    constructor; simpl; [exact Hm|now apply cinvg_land| |exact Hdb].
    intro He. subst en. rewrite (Hd eq_refl). unfold cache_land. simpl. now destruct n.
  Qed.

  Lemma sp_reset_inv : forall fx en hist R dbr mem s,
    SpInv fx en hist R dbr mem s -> SpInv fx en hist dbr dbr [] (sp_reset K V s).
  Proof.
    intros fx en hist R dbr mem s [Hm Hc Hd Hdb]. unfold sp_reset, sp_init.
    constructor; simpl; [apply mods_ok_nil|apply cinvg_empty|intro; reflexivity|exact Hdb].
  Qed.

  Lemma stf_full : forall f ds k,
    stf f ds (length ds) k = match Walk ds k with Some d => interp d | None => f k end.
  Proof. intros. now rewrite stf_walk, firstn_all. Qed.

  Notation CommitDb := (sp_commit_db K V D keqb merge vempty is_empty skip strict).

  Lemma sp_commit_inv : forall fx en hist R mem s off s',
    SpInv fx en hist R R mem s -> is_prefix hist R mem -> off <= length mem ->
    all_nodup (firstn off mem) -> wf_range (Sf hist R) (firstn off mem) ->
    CommitDb (firstn off mem) s = Some s' ->
    SpInv fx en hist R (R + off) mem s'.
  Proof.
    intros fx en hist R mem s off s' [Hm Hc Hd Hdb] Hpre Ho Hnd Hwf H. unfold sp_commit_db in H.
    destruct (fold_left Commit1 (Compact (firstn off mem)) (Some (s_db K V s))) as [t|] eqn:E; [|discriminate].
    inversion H; subst s'. constructor; simpl; [exact Hm|exact Hc|exact Hd|].
    intro k. rewrite (commit_table_ok _ _ _ _ Hnd Hwf Hdb E k), stf_full.
    now rewrite (Sf_mem hist R mem off k Hpre Ho).
  Qed.

  Lemma sp_commit_total : forall ds s, strict = false -> exists s', CommitDb ds s = Some s'.
  Proof.
    intros ds s Hs. unfold sp_commit_db.
    destruct (commit_fold_total (Compact ds) (s_db K V s) Hs) as [t Ht]. rewrite Ht. eauto.
  Qed.

  Lemma in_nodup_aget : forall (A : Type) (l : list (K * A)) k a,
    NoDup (map fst l) -> In (k, a) l -> Aget k l = Some a.
  Proof.
    induction l as [|[k0 a0] l IH]; intros k a Hnd H; simpl in *; [contradiction|].
    inversion Hnd; subst. destruct H as [H|H].
    - inversion H; subst. now rewrite kref.
    - destruct (keqb k k0) eqn:E; [|now apply IH].
      apply keqb_spec in E. subst k0. exfalso. apply H2. apply in_map_iff. exists (k, a). now split.
  Qed.

  Lemma post_cache_disabled : forall (c : list (cent K V D)) R ca, fold_left (Postc false R) c ca = ca.
  Proof.
    induction c as [|[k [[v n] f]] c IH]; intros R ca; simpl; [reflexivity|].
    rewrite IH. now destruct (skip f v).
  Qed.

  Notation Post := (sp_post K V D keqb merge vempty skip).

  Lemma sp_post_inv : forall fx en hist R mem s off,
    SpInv fx en hist R (R + off) mem s -> is_prefix hist R mem -> 1 <= off <= length mem ->
    all_nodup (firstn off mem) -> wf_range (Sf hist R) (firstn off mem) ->
    exists s', Post en (R + off) (firstn off mem) s = Some s' /\
               SpInv fx en hist (R + off) (R + off) (skipn off mem) s'.
  Proof.
    intros fx en hist R mem s off [Hm Hc Hd Hdb] Hpre Ho Hnd Hwf. unfold sp_post.
    set (ds := firstn off mem) in *. set (rest := skipn off mem).
    assert (Hsplit : mem = ds ++ rest) by (symmetry; apply firstn_skipn).
    rewrite Hsplit in Hm. destruct (mods_ok_post _ _ _ Hm Hnd) as [m' [Hf Hm']]. rewrite Hf.
    eexists. split; [reflexivity|]. constructor; simpl; [exact Hm'| | |exact Hdb].
    - (* cache *)
      assert (HS : forall k, Sf hist (R + off) k = match Walk ds k with
                                                  | Some d => interp d
                                                  | None => Sf hist R k end).
      { intro k. apply (Sf_mem hist R mem off k Hpre). lia. }
      destruct en.
      + apply (cinvg_post fx _ R (R + off) (Sf hist R)); [apply compact_nodup|lia| | |exact Hc].
        * intros k v n f Hin Hs. apply (in_nodup_aget _ _ _ _ (compact_nodup ds)) in Hin.
          rewrite (compact_get _ _ Hnd) in Hin. destruct (firstrec ds k) as [f'|] eqn:E; [|discriminate].
          inversion Hin as [[Hv Hn' Hf']]. rewrite HS. destruct (Walk ds k) as [dl|] eqn:E2.
          -- apply (mergeall_interp _ _ _ _ Hwf E2).
          -- apply firstrec_none_walk in E2. congruence.
        * intros k Hk. rewrite HS. destruct (firstrec ds k) as [f|] eqn:E.
          -- destruct (Walk ds k) as [dl|] eqn:E2; [|reflexivity].
             assert (Hg := compact_get ds k Hnd). rewrite E in Hg.
             destruct (skip f (mergeall ds k)) eqn:Es.
             ++ rewrite <- (mergeall_interp _ _ _ _ Hwf E2).
                apply (skip_ok _ _ _ (firstrec_wf _ _ _ _ Hwf E) Es).
             ++ exfalso. apply Hk. unfold dirty_keys. apply in_map_iff.
                exists (k, (mergeall ds k, cnt ds k, f)). split; [reflexivity|].
                apply filter_In. split; [now apply aget_in|]. simpl. now rewrite Es.
          -- apply firstrec_none_walk in E. now rewrite E.
      + rewrite post_cache_disabled. rewrite (Hd eq_refl). apply cinvg_empty.
    - intro He. subst en. rewrite post_cache_disabled. now apply Hd.
  Qed.

  (* ------------------------------------------------------------------ well-formed history -> ranges *)
  Definition wf_all (hist : rounds) : Prop :=
    forall j k d, j < length hist -> Rfind k (nth j hist []) = Some d -> wfrec (Sf hist j k) d.

  Lemma nth_firstn_lt : forall (A : Type) (d : A) (l : list A) n i, i < n -> nth i (firstn n l) d = nth i l d.
  Proof.
    intros A d l. induction l as [|x l IH]; intros n i H; destruct n, i; simpl; try reflexivity; try lia.
    apply IH. lia.
  Qed.

  Lemma nth_skipn_add : forall (A : Type) (d : A) (l : list A) n i, nth i (skipn n l) d = nth (n + i) l d.
  Proof.
    intros A d l. induction l as [|x l IH]; intros n i; destruct n; simpl; try reflexivity.
    - now destruct i.
    - apply IH.
  Qed.

  Lemma wf_all_range : forall hist R mem off,
    wf_all hist -> is_prefix hist R mem -> off <= length mem ->
    wf_range (Sf hist R) (firstn off mem).
  Proof.
    intros hist R mem off Hwf Hpre Ho i k d Hi Hr.
    rewrite <- (prefix_firstn _ _ _ _ Hpre Ho) in *.
    assert (Hlen : length (firstn off (skipn R hist)) <= length hist - R).
    { rewrite firstn_length, skipn_length. lia. }
    assert (Hio : i < off). { rewrite firstn_length in Hi. lia. }
    rewrite (nth_firstn_lt _ [] _ off i Hio), nth_skipn_add in Hr.
    replace (stf (Sf hist R) (firstn off (skipn R hist)) i k) with (Sf hist (R + i) k).
    - apply (Hwf (R + i) k d); [lia|exact Hr].
    - unfold stf, ks_state. rewrite firstn_firstn. replace (Nat.min i off) with i by lia.
      rewrite <- fold_left_app, <- firstn_add. reflexivity.
  Qed.

  Lemma all_nodup_prefix : forall hist R mem off,
    all_nodup hist -> is_prefix hist R mem -> off <= length mem -> all_nodup (firstn off mem).
  Proof.
    intros hist R mem off H Hpre Ho. rewrite <- (prefix_firstn _ _ _ _ Hpre Ho).
    unfold all_nodup in *. rewrite Forall_forall in *. intros x Hx. apply H.
    rewrite <- (firstn_skipn R hist). apply in_or_app. right.
    rewrite <- (firstn_skipn off (skipn R hist)). apply in_or_app. now left.
  Qed.

  Lemma is_prefix_snoc : forall hist R mem recs,
    is_prefix hist R mem -> nth (R + length mem) hist [] = recs -> R + length mem < length hist ->
    is_prefix hist R (mem ++ [recs]).
  Proof.
    intros hist R mem recs H Hn Hl. unfold is_prefix in *. rewrite app_length. simpl.
    rewrite Nat.add_1_r. rewrite (firstn_S_nth _ [] (length mem) (skipn R hist)).
    - rewrite <- H. f_equal. rewrite nth_skipn_add. now rewrite Hn.
    - rewrite skipn_length. lia.
  Qed.

  Lemma skipn_skipn_add : forall (A : Type) (l : list A) a b, skipn a (skipn b l) = skipn (b + a) l.
  Proof.
    intros A l a b. revert l. induction b as [|b IH]; intro l; simpl; [reflexivity|].
    destruct l as [|x l]; [now destruct a|apply IH].
  Qed.

  Lemma is_prefix_skip : forall hist R mem off,
    is_prefix hist R mem -> off <= length mem -> is_prefix hist (R + off) (skipn off mem).
  Proof.
    intros hist R mem off H Ho. unfold is_prefix in *. rewrite skipn_length.
    rewrite H at 1. rewrite skipn_firstn_comm. f_equal. apply skipn_skipn_add.
  Qed.

  Lemma is_prefix_nil : forall hist R, is_prefix hist R [].
  Proof. intros. reflexivity. Qed.

  Lemma is_prefix_app_hist : forall hist R mem recs,
    is_prefix hist R mem -> R + length mem = length hist -> is_prefix (hist ++ [recs]) R (mem ++ [recs]).
  Proof.
    intros hist R mem recs H Hl. apply is_prefix_snoc.
    - unfold is_prefix in *. rewrite skipn_app, firstn_app.
      replace (length mem - length (skipn R hist)) with 0 by (rewrite skipn_length; lia).
      simpl. rewrite app_nil_r. exact H.
    - rewrite Hl. apply nth_middle.
    - rewrite app_length. simpl. lia.
  Qed.
End Space.
