(* C02 (premise of crash_nonequiv): attest-once along single runs of the agreement model.

   PART 1 (this file, proved for EVERY event sequence): soft votes and next_k votes (3 <= k < 253).
   The player's position (round, period, 2*step + [not napping]) never decreases along a run
   (enter_period / enter_round move to a larger period / round, handle_timeout only increases the
   step or clears Napping), and every soft / next_k attest is emitted by a transition that crosses
   the boundary of its key: soft (r,p): from step soft to step cert; next_k (r,p): from
   (step < k or napping at k) to (step k, not napping).  Boundaries crossed along a run are strictly
   increasing, so no key is attested twice.

   Premises on the event sequence ([trace_ok2]): no uint64 wrap-around of the round / period / step
   counters (the model computes modulo 2^64 as Go does), round interruptions move to a later round,
   verified payloads are of the player's round (as for C03), committee thresholds are positive. *)
From Coq Require Import NArith List Bool Lia ZifyN ZifyNat ZifyBool String.
Import ListNotations.
From Verif.model Require Import AgreementTypes AgreementVotes AgreementProposals AgreementPlayer.
From Verif.proofs Require Import AgreementLemmas AgreementVoteProofs AgreementTreeProofs AgreementC03Proofs.
Open Scope N_scope.

(* ---------- positions ---------- *)
Definition pos : Type := (N * N * N)%type.
Definition ord_of (pl : player) : N := 2 * p_step pl + (if p_nap pl then 0 else 1).
Definition pos_of (pl : player) : pos := (p_rnd pl, p_per pl, ord_of pl).

Definition pos_lt (a b : pos) : Prop :=
  match a, b with (r, p, o), (r', p', o') => r < r' \/ (r = r' /\ (p < p' \/ (p = p' /\ o < o'))) end.
Definition pos_le (a b : pos) : Prop :=
  match a, b with (r, p, o), (r', p', o') => r < r' \/ (r = r' /\ (p < p' \/ (p = p' /\ o <= o'))) end.

Ltac pos_solve :=
  unfold pos_lt, pos_le, pos_of, ord_of in *;
  repeat match goal with x : pos |- _ => destruct x as [[? ?] ?] end;
  cbn [p_rnd p_per p_step p_nap] in *; try lia.

Lemma pos_le_refl a : pos_le a a. Proof. pos_solve. Qed.
Lemma pos_le_trans a b c : pos_le a b -> pos_le b c -> pos_le a c. Proof. pos_solve. Qed.
Lemma pos_lt_le a b : pos_lt a b -> pos_le a b. Proof. pos_solve. Qed.
Lemma pos_lt_le_trans a b c : pos_lt a b -> pos_le b c -> pos_lt a c. Proof. pos_solve. Qed.
Lemma pos_le_lt_trans a b c : pos_le a b -> pos_lt b c -> pos_lt a c. Proof. pos_solve. Qed.
Lemma pos_lt_irrefl a : ~ pos_lt a a. Proof. pos_solve. Qed.

(* ---------- the boundary crossed by a soft / next_k attest ---------- *)
Definition tracked (s : N) : bool := (s =? s_soft) || ((s_next <=? s) && (s <? s_late)).
Definition bnd_key (r p s : N) : pos := (r, p, if s =? s_soft then 4 else 2 * s + 1).
Definition bnd (a : action) : option pos :=
  match a with
  | AAttest r p s _ => if tracked s then Some (bnd_key r p s) else None
  | _ => None
  end.

Fixpoint chain (lo : pos) (acts : list action) (hi : pos) : Prop :=
  match acts with
  | [] => pos_le lo hi
  | a :: t => match bnd a with
              | None => chain lo t hi
              | Some b => pos_lt lo b /\ chain b t hi
              end
  end.

Definition quiet (acts : list action) : Prop := forall a, In a acts -> bnd a = None.

Lemma chain_le lo acts : forall hi, chain lo acts hi -> pos_le lo hi.
Proof.
  revert lo. induction acts as [|a t IH]; intros lo hi H; cbn in H; [exact H|].
  destruct (bnd a) as [b|]; [|apply IH; exact H].
  destruct H as [H1 H2]. apply pos_lt_le. eapply pos_lt_le_trans; [exact H1|]. apply IH. exact H2.
Qed.

Lemma chain_lo lo lo' acts hi : pos_le lo' lo -> chain lo acts hi -> chain lo' acts hi.
Proof.
  revert lo lo'. induction acts as [|a t IH]; intros lo lo' L H; cbn in *.
  - eapply pos_le_trans; eassumption.
  - destruct (bnd a) as [b|]; [|eapply IH; eassumption].
    destruct H as [H1 H2]. split; [|exact H2]. eapply pos_le_lt_trans; eassumption.
Qed.

Lemma chain_hi lo acts hi hi' : pos_le hi hi' -> chain lo acts hi -> chain lo acts hi'.
Proof.
  revert lo. induction acts as [|a t IH]; intros lo L H; cbn in *.
  - eapply pos_le_trans; eassumption.
  - destruct (bnd a) as [b|]; [|apply IH; assumption].
    destruct H as [H1 H2]. split; [exact H1|]. apply IH; assumption.
Qed.

Lemma chain_app lo a mid b hi : chain lo a mid -> chain mid b hi -> chain lo (a ++ b) hi.
Proof.
  revert lo. induction a as [|x t IH]; intros lo H1 H2; cbn in *.
  - eapply chain_lo; eassumption.
  - destruct (bnd x) as [bx|]; [|apply IH; assumption].
    destruct H1 as [G1 G2]. split; [exact G1|]. apply IH; assumption.
Qed.

Lemma chain_quiet lo acts hi : quiet acts -> pos_le lo hi -> chain lo acts hi.
Proof.
  induction acts as [|a t IH]; intros Q L; cbn; [exact L|].
  rewrite (Q a (or_introl eq_refl)). apply IH; [|exact L]. intros x Hx. apply Q. right. exact Hx.
Qed.

Lemma chain_quiet_app lo a b hi : quiet a -> chain lo b hi -> chain lo (a ++ b) hi.
Proof. intros Q H. eapply chain_app; [apply chain_quiet; [exact Q|apply pos_le_refl]|exact H]. Qed.

Lemma chain_cons_quiet lo a t hi : bnd a = None -> chain lo t hi -> chain lo (a :: t) hi.
Proof. intros E H. cbn. rewrite E. exact H. Qed.

Lemma quiet_app a b : quiet a -> quiet b -> quiet (a ++ b).
Proof. intros Qa Qb x Hx. apply in_app_or in Hx. destruct Hx; auto. Qed.
Lemma quiet_nil : quiet []. Proof. intros x []. Qed.
Lemma quiet_cons a t : bnd a = None -> quiet t -> quiet (a :: t).
Proof. intros E Q x [<-|Hx]; auto. Qed.

(* every boundary in a chain lies above its lower end; boundaries are pairwise distinct *)
Lemma chain_above lo acts hi a b : chain lo acts hi -> In a acts -> bnd a = Some b -> pos_lt lo b.
Proof.
  revert lo. induction acts as [|x t IH]; intros lo H Hin E; [destruct Hin|].
  cbn in H. destruct Hin as [->|Hin].
  - rewrite E in H. exact (proj1 H).
  - destruct (bnd x) as [bx|]; [|eapply IH; eassumption].
    destruct H as [H1 H2]. eapply pos_lt_le_trans; [exact H1|]. apply pos_lt_le. eapply IH; eassumption.
Qed.

(* two occurrences at different places have different boundaries: stated on a split of the list *)
Lemma chain_split_distinct lo l1 a l2 a' l3 hi b b' :
  chain lo (l1 ++ a :: l2 ++ a' :: l3) hi -> bnd a = Some b -> bnd a' = Some b' -> pos_lt b b'.
Proof.
  revert lo. induction l1 as [|x t IH]; intros lo H E E'.
  - cbn in H. rewrite E in H. destruct H as [_ H].
    eapply chain_above; [exact H| |exact E']. apply in_or_app. right. left. reflexivity.
  - cbn in H. destruct (bnd x) as [bx|]; [destruct H as [_ H]|]; eapply IH; eassumption.
Qed.

Lemma bnd_attest r p s v : tracked s = true -> bnd (AAttest r p s v) = Some (bnd_key r p s).
Proof. intros T. cbn. rewrite T. reflexivity. Qed.

(* attest-once inside one chain: two attests of one tracked key are the same occurrence *)
Lemma chain_attest_once lo acts hi r p s v v' :
  chain lo acts hi -> tracked s = true ->
  In (AAttest r p s v) acts -> In (AAttest r p s v') acts -> v = v'.
Proof.
  intros H T I1 I2.
  destruct (in_split _ _ I1) as [l1 [l2 E]].
  rewrite E in I2. apply in_app_or in I2. destruct I2 as [I2|[I2|I2]].
  - (* v' occurs before v *)
    destruct (in_split _ _ I2) as [m1 [m2 E2]]. rewrite E2 in E. rewrite E in H.
    rewrite <- app_assoc in H. cbn in H.
    exfalso. eapply pos_lt_irrefl. eapply (chain_split_distinct lo m1 _ m2 _ l2 hi); [exact H| |]; apply bnd_attest; exact T.
  - injection I2 as <-. reflexivity.
  - destruct (in_split _ _ I2) as [m1 [m2 E2]]. rewrite E2 in E. rewrite E in H.
    exfalso. eapply pos_lt_irrefl. eapply (chain_split_distinct lo l1 _ m1 _ m2 hi); [exact H| |]; apply bnd_attest; exact T.
Qed.

(* ---------- small facts ---------- *)
Lemma wp_true : forall A (x : res A), wp x (fun _ => True).
Proof. intros A [a| |]; exact Logic.I. Qed.

(* 2^64, kept abstract in the arithmetic side conditions *)
Definition W64 : N := 2 ^ 64.
Lemma add1_small x : x + 1 < W64 -> add1 x = x + 1.
Proof. intros H. unfold add1, w64. apply N.mod_small. exact H. Qed.

Lemma w64_small x : x < W64 -> w64 x = x.
Proof. intros H. unfold w64. apply N.mod_small. exact H. Qed.
Global Opaque W64.

Lemma bnd_attest_untracked r p s v : tracked s = false -> bnd (AAttest r p s v) = None.
Proof. intros T. cbn. rewrite T. reflexivity. Qed.

Lemma tracked_cert : tracked s_cert = false. Proof. reflexivity. Qed.
Lemma tracked_late : tracked s_late = false. Proof. reflexivity. Qed.
Lemma tracked_redo : tracked s_redo = false. Proof. reflexivity. Qed.
Lemma tracked_down : tracked s_down = false. Proof. reflexivity. Qed.

(* a threshold backed by delivered votes has the period of one of them *)
Definition params_pos (pm : params) : Prop :=
  0 < pm_soft pm /\ 0 < pm_cert pm /\ 0 < pm_next pm /\ 0 < pm_late pm /\ 0 < pm_redo pm /\ 0 < pm_down pm.
Definition per_small (D : list vote) : Prop := forall x, In x D -> vt_per x + 1 < W64.

Lemma sumN_pos_in l : 0 < sumN l -> exists x, In x l.
Proof. destruct l as [|x t]; cbn; [lia|]. intros _. exists x. left. reflexivity. Qed.

Lemma good_thresh_per pm D th :
  params_pos pm -> per_small D -> good_thresh pm D th -> th_per th + 1 < W64.
Proof.
  intros (P1 & P2 & P3 & P4 & P5 & P6) S ([GV GE _ GW] & GK & _ & _).
  assert (W : 0 < bundle_weight (th_b th)).
  { unfold reaches in GW. destruct (step_threshold pm (ub_step (th_b th))) as [t|] eqn:ET; [|discriminate].
    assert (0 < t).
    { unfold step_threshold in ET.
      repeat match type of ET with (if ?c then _ else _) = _ => destruct c end; inversion ET; subst; assumption. }
    apply N.leb_le in GW. lia. }
  unfold bundle_weight in W. inversion GK as [[K1 K2 K3]].
  destruct (N.eq_dec (sumN (map vt_w (ub_votes (th_b th)))) 0) as [Z|NZ].
  - assert (W2 : 0 < sumN (map eq_w (ub_eqs (th_b th)))) by lia.
    apply sumN_pos_in in W2. destruct W2 as [w Hw]. apply in_map_iff in Hw. destruct Hw as [e [_ He]].
    destruct (GE e He) as [(x & y & Hx & _ & _ & _ & Kx & _) Ke].
    unfold key_of, ekey_of, bkey_of in *. specialize (S x Hx).
    assert (vt_per x = ub_per (th_b th)) by congruence. lia.
  - assert (W2 : 0 < sumN (map vt_w (ub_votes (th_b th)))) by lia.
    apply sumN_pos_in in W2. destruct W2 as [w Hw]. apply in_map_iff in Hw. destruct Hw as [x [_ Hx]].
    destruct (GV x Hx) as (HD & Kx & _). unfold key_of, bkey_of in *. specialize (S x HD).
    assert (vt_per x = ub_per (th_b th)) by congruence. lia.
Qed.

Lemma good_thresh_rnd pm D th : good_thresh pm D th -> ub_rnd (th_b th) = th_rnd th.
Proof. intros (_ & GK & _). inversion GK. reflexivity. Qed.

(* ---------- handlers without recursion ---------- *)
Definition ppost (pl : player) (r : player * router * list action) : Prop :=
  chain (pos_of pl) (snd r) (pos_of (fst (fst r))).

Section Pos.
Variable pm : params.

Ltac skip_bind := apply wp_bind; eapply wp_mono; [apply wp_true|]; cbv beta.

Lemma partition_policy_quiet pl rt : wp (partition_policy pm pl rt) (fun '(_, acts) => quiet acts).
Proof.
  unfold partition_policy. destruct (negb (partitioned pl)); cbn; [apply quiet_nil|].
  skip_bind. intros [rt1 fr] _.
  set (acts0 := match fr with Some th => [ABroadcastBundle (th_b th)] | None => [] end).
  assert (Q0 : quiet acts0).
  { unfold acts0. destruct fr; [apply quiet_cons; [reflexivity|apply quiet_nil]|apply quiet_nil]. }
  match goal with |- wp (match ?g with _ => _ end) _ => destruct g as [[br bp]|] end; cbn; [|exact Q0].
  skip_bind. intros [rt2 [sv c]] _. destruct c; cbn.
  - apply quiet_app; [exact Q0|]. apply quiet_cons; [reflexivity|apply quiet_nil].
  - skip_bind. intros [rt3 [pv ok]] _. destruct ok; cbn; [|exact Q0].
    apply quiet_app; [exact Q0|]. apply quiet_cons; [reflexivity|apply quiet_nil].
Qed.

Lemma issue_soft_vote_pos pl rt d :
  wp (issue_soft_vote pm pl rt d)
     (fun '(pl', _, acts) => pl' = set_deadline pl d dl_deadline /\
        (acts = [] \/ exists v, acts = [AAttest (p_rnd pl) (p_per pl) s_soft v])).
Proof.
  unfold issue_soft_vote.
  skip_bind. intros [rt1 frozen] _. skip_bind. intros [rt2 ns] _.
  repeat match goal with |- wp (if ?c then _ else _) _ => destruct c end; cbn; split; eauto.
Qed.

Lemma issue_next_vote_pos pl rt d :
  wp (issue_next_vote pm pl rt d)
     (fun '(pl', _, acts) =>
        p_rnd pl' = p_rnd pl /\ p_per pl' = p_per pl /\ p_step pl' = p_step pl /\ p_nap pl' = false /\
        exists q v, quiet q /\ acts = q ++ [AAttest (p_rnd pl) (p_per pl) (p_step pl) v]).
Proof.
  unfold issue_next_vote.
  apply wp_bind. eapply wp_mono; [apply partition_policy_quiet|]. intros [rt1 acts] Q.
  skip_bind. intros [rt2 [sv committable]] _.
  apply wp_bind.
  match goal with |- wp ?x _ => assert (H : wp x (fun _ => True)) by apply wp_true; eapply wp_mono; [exact H|] end.
  intros [rt4 prop] _.
  destruct (next_vote_ranges pm (p_step pl) d) as [lo up]. cbn.
  repeat split; eauto.
Qed.

Lemma issue_fast_vote_quiet pl rt : wp (issue_fast_vote pm pl rt) (fun '(_, acts) => quiet acts).
Proof.
  unfold issue_fast_vote.
  apply wp_bind. eapply wp_mono; [apply partition_policy_quiet|]. intros [rt1 acts] Q.
  skip_bind. intros [rt2 elate] _. skip_bind. intros [rt3 eredo] _. skip_bind. intros [rt4 edown] _.
  skip_bind. intros [rt5 [sv committable]] _.
  apply wp_bind.
  match goal with |- wp ?x _ =>
    assert (H : wp x (fun '(_, (s, _)) => s = s_late \/ s = s_redo \/ s = s_down)) end.
  { destruct committable; cbn; [auto|]. skip_bind. intros [rt6 ns] _. destruct (negb (vp_bottom ns)); cbn; auto. }
  eapply wp_mono; [exact H|]. intros [rt7 [s prop]] Hs. cbn.
  apply quiet_app; [exact Q|]. apply quiet_cons; [reflexivity|]. apply quiet_cons; [|apply quiet_nil].
  apply bnd_attest_untracked. destruct (is_bottom prop); [reflexivity|].
  destruct Hs as [->|[->| ->]]; reflexivity.
Qed.

Lemma handle_fast_timeout_pos pl rt en bad : wp (handle_fast_timeout pm pl rt en bad) (ppost pl).
Proof.
  unfold handle_fast_timeout, ppost.
  destruct bad; [exact (pos_le_refl (pos_of pl))|]. destruct (pm_frlambda pm =? 0); [exact Logic.I|].
  destruct (p_frd pl =? 0); [exact (pos_le_refl (pos_of pl))|].
  apply wp_bind. eapply wp_mono; [apply issue_fast_vote_quiet|]. intros [rt1 acts] Q. cbn.
  apply chain_quiet; [exact Q|]. apply pos_le_refl.
Qed.

Lemma handle_timeout_pos pl rt en bad :
  p_step pl + 1 < W64 -> wp (handle_timeout pm pl rt en bad) (ppost pl).
Proof.
  intros B. unfold handle_timeout, ppost.
  destruct (p_step pl =? s_soft) eqn:E1.
  - apply wp_bind. eapply wp_mono; [apply issue_soft_vote_pos|]. intros [[pl1 rt1] acts] [-> A]. cbn.
    apply N.eqb_eq in E1.
    destruct A as [->|[v ->]]; cbn.
    + unfold s_cert, s_soft in *. pos_solve. destruct (p_nap pl); lia.
    + unfold s_cert, s_soft in *. pos_solve. destruct (p_nap pl); lia.
  - destruct (p_step pl =? s_cert) eqn:E2.
    + apply N.eqb_eq in E2.
      eapply wp_mono; [apply issue_next_vote_pos|]. intros [[pl1 rt1] acts] (R & P & S & NP & q & v & Q & ->). cbn in *.
      apply chain_quiet_app; [exact Q|]. cbn. unfold tracked, s_next, s_soft, s_late, s_cert in *. cbn.
      unfold bnd_key. cbn. pos_solve. rewrite R, P, S, NP. destruct (p_nap pl); lia.
    + destruct (p_nap pl) eqn:EN.
      * eapply wp_mono; [apply issue_next_vote_pos|]. intros [[pl1 rt1] acts] (R & P & S & NP & q & v & Q & ->). cbn in *.
        apply chain_quiet_app; [exact Q|]. cbn.
        destruct (tracked (p_step pl)) eqn:ET.
        -- unfold bnd_key. rewrite E1. pos_solve. rewrite R, P, S, NP, EN. lia.
        -- pos_solve. rewrite R, P, S, NP, EN. lia.
      * destruct (next_vote_ranges pm _ _) as [lo up].
        destruct (up - lo =? 0); [exact Logic.I|]. cbn.
        rewrite w64_small by lia. unfold set_deadline, set_nap, set_step. pos_solve. rewrite EN. lia.
Qed.

Lemma enter_period_pos pl rt src target :
  p_per pl < target ->
  wp (enter_period pm pl rt src target) (fun r => ppost pl r /\ p_rnd (fst (fst r)) = p_rnd pl).
Proof.
  intros L. unfold enter_period, ppost.
  apply wp_bind. eapply wp_mono; [apply partition_policy_quiet|]. intros [rt1 acts] Q.
  skip_bind. intros [rt2 out] _.
  assert (LE : pos_le (pos_of pl)
                 (pos_of (mkPlayer (p_rnd pl) target s_soft (p_step pl) (filter_timeout pm target) dl_filter false 0
                                   (p_pending pl) (p_pnext pl)))) by (pos_solve).
  assert (QQ : forall tl, quiet tl -> quiet ((acts ++ [ARezero (p_rnd pl)]) ++ tl)).
  { intros tl Qt. apply quiet_app; [|exact Qt]. apply quiet_app; [exact Q|]. apply quiet_cons; [reflexivity|apply quiet_nil]. }
  destruct out as [[prop auth|prop]|]; cbn.
  - split; [|reflexivity]. apply chain_quiet; [|exact LE]. apply QQ. apply quiet_cons; [reflexivity|apply quiet_nil].
  - destruct (th_t src); [| |destruct (is_bottom (th_val src))]; cbn; (split; [|reflexivity]);
      (apply chain_quiet; [|exact LE]);
      first [ rewrite <- (app_nil_r (acts ++ _)); apply QQ; apply quiet_nil
            | apply QQ; apply quiet_cons; [reflexivity|apply quiet_nil] ].
  - destruct (th_t src); [| |destruct (is_bottom (th_val src))]; cbn; (split; [|reflexivity]);
      (apply chain_quiet; [|exact LE]);
      first [ rewrite <- (app_nil_r (acts ++ _)); apply QQ; apply quiet_nil
            | apply QQ; apply quiet_cons; [reflexivity|apply quiet_nil] ].
Qed.

End Pos.

(* ---------- handlers with recursion ---------- *)
Definition pre (f : nat) (pl : player) (e : pevent) : Prop :=
  p_rnd pl + N.of_nat f + 1 < W64 /\
  match e with
  | PTimeout false _ _ => p_step pl + 1 < W64
  | PRoundInt r => p_rnd pl < r /\ r + N.of_nat f + 1 < W64
  | _ => True
  end.

Section Rec.
Variable pm : params.
Variable D : list vote.
Hypothesis Hpp : params_pos pm.
Hypothesis Hsmall : per_small D.
Variable f : nat.
Variable rec : player -> router -> pevent -> hres.
Hypothesis Hrec : forall pl rt e, RInv pm D rt -> pev_ok pm D pl e -> wp (rec pl rt e) (hpost pm D).
Hypothesis Hrec2 : forall pl rt e, RInv pm D rt -> pev_ok pm D pl e -> pre f pl e -> wp (rec pl rt e) (ppost pl).

Ltac skip_bind := apply wp_bind; eapply wp_mono; [apply wp_true|]; cbv beta.

Lemma enter_round_pos pl rt target :
  RInv pm D rt -> p_rnd pl < target -> target + N.of_nat f + 1 < W64 ->
  wp (enter_round pm rec pl rt target) (ppost pl).
Proof.
  intros I L B. unfold enter_round, ppost.
  apply wp_bind. eapply wp_mono; [apply pm_new_round_spec; eauto|]. intros [rt1 e] A1.
  apply wp_bind. eapply wp_mono; [apply d_freshest_spec; eauto|]. intros [rt2 fr] (A2 & B2).
  set (pl' := mkPlayer target 0 s_soft (p_step pl) (filter_timeout pm 0) dl_filter false 0 (p_pending pl) (p_pnext pl)).
  set (acts1 := match e with PLPipelined _ per pinned prop _ => _ | _ => _ end).
  assert (Q1 : quiet acts1).
  { unfold acts1. destruct e; repeat (apply quiet_cons; [reflexivity|]); apply quiet_nil. }
  assert (LE : pos_le (pos_of pl) (pos_of pl')) by (unfold pl'; pos_solve).
  destruct fr as [th|]; cbn.
  - apply wp_bind. eapply wp_mono.
    + apply Hrec2; [exact A2| cbn; apply (B2 th); reflexivity | split; [exact B|exact Logic.I] ].
    + intros [[pl2 rt3] a4] H. cbn [fst snd] in *. unfold ppost in H. cbn [fst snd] in H.
      eapply chain_app; [apply chain_quiet; [exact Q1|exact LE]|exact H].
  - apply chain_quiet; [exact Q1|exact LE].
Qed.

Lemma handle_threshold_pos pl rt th :
  RInv pm D rt -> good_thresh pm D th -> p_rnd pl + N.of_nat (S f) + 1 < W64 ->
  wp (handle_threshold pm rec pl rt th) (ppost pl).
Proof.
  intros I G B. pose proof (good_thresh_per pm D th Hpp Hsmall G) as PB.
  unfold handle_threshold.
  destruct (th_t th) eqn:ET.
  - (* soft *)
    destruct (th_per th <? p_per pl) eqn:E1; [exact (pos_le_refl (pos_of pl))|].
    destruct (p_per pl <? th_per th) eqn:E2.
    { eapply wp_mono; [apply enter_period_pos; lia|]. intros r [H _]. exact H. }
    skip_bind. intros [rt1 out] _.
    destruct out as [[prop auth|prop]|]; cbn; try exact (pos_le_refl (pos_of pl)).
    destruct (p_step pl <=? s_cert); cbn; [|exact (pos_le_refl (pos_of pl))].
    unfold ppost. cbn. exact (pos_le_refl (pos_of pl)).
  - (* cert *)
    apply wp_bind. eapply wp_mono; [apply pm_threshold_spec; eauto|]. intros [rt1 out] (A1 & _).
    apply wp_bind. eapply wp_mono; [apply (d_staged_spec pm D); exact A1|]. intros [rt2 [sv c]] (A2 & _).
    destruct c; cbn.
    + apply wp_bind. eapply wp_mono; [apply update_cred_history_spec; eauto|]. intros rt3 A3.
      apply wp_bind. eapply wp_mono.
      * apply enter_round_pos; [exact A3| |]; rewrite add1_small by lia; lia.
      * intros [[pl2 rt4] as_] H. unfold ppost in *. cbn [fst snd] in *. exact H.
    + destruct (p_per pl <? th_per th) eqn:E2.
      * apply wp_bind. eapply wp_mono; [apply enter_period_pos; lia|].
        intros [[pl2 rt3] as_] [H _]. unfold ppost in *. cbn [fst snd] in *. exact H.
      * cbn. exact (pos_le_refl (pos_of pl)).
  - (* next *)
    destruct (th_per th <? p_per pl) eqn:E1; [exact (pos_le_refl (pos_of pl))|].
    eapply wp_mono; [apply enter_period_pos; rewrite add1_small by lia; lia|]. intros r [H _]. exact H.
Qed.

Lemma handle_proposal_vote_pos pl rt m x :
  RInv pm D rt -> p_rnd pl + N.of_nat (S f) + 1 < W64 ->
  wp (handle_proposal_vote pm rec pl rt m x) (ppost pl).
Proof.
  intros I B. unfold handle_proposal_vote.
  apply wp_bind. eapply wp_mono; [apply pm_vote_spec; eauto|]. intros [rt1 ef] A1.
  apply wp_bind.
  match goal with |- wp ?body _ =>
    assert (HB : wp body (fun '(pl1, acts, _) => quiet acts /\ pos_of pl1 = pos_of pl /\ p_rnd pl1 = p_rnd pl)) end.
  { cbv zeta. destruct ef as [|note| |prop ok]; cbn;
      repeat match goal with |- wp (if ?c then _ else _) _ => destruct c end; cbn;
      first [exact Logic.I | (split; [repeat (apply quiet_cons; [reflexivity|]); apply quiet_nil | split; reflexivity])]. }
  eapply wp_mono; [exact HB|]. intros [[pl1 acts] done] (Q & PE & RE).
  match goal with |- wp (let '(pl2, tail) := ?pt in _) _ =>
    assert (HP : pos_of (fst pt) = pos_of pl /\ p_rnd (fst pt) = p_rnd pl)
      by (destruct (me_verified m); cbn; auto);
    destruct pt as [pl2 tail] end.
  cbn in HP. destruct HP as [PE2 RE2].
  assert (FIN : chain (pos_of pl) acts (pos_of pl2)).
  { apply chain_quiet; [exact Q|]. rewrite PE2. apply pos_le_refl. }
  destruct tail as [t|]; [|exact FIN].
  destruct done; [|exact FIN].
  apply wp_bind. eapply wp_mono.
  - apply Hrec2; [exact A1| |].
    + cbn. split; [intros y Hy; cbn in Hy; contradiction|]. unfold payload_ok; cbn. intro C; discriminate.
    + split; [rewrite RE2; lia|exact Logic.I].
  - intros [[pl3 rt2] suffix] H. unfold ppost in *. cbn [fst snd] in *.
    eapply chain_app; [exact FIN|exact H].
Qed.

Lemma handle_message_pos pl rt m :
  RInv pm D rt -> (forall x, In x (delivered_by m) -> In x D) -> payload_ok pl m ->
  p_rnd pl + N.of_nat (S f) + 1 < W64 ->
  wp (handle_message pm rec pl rt m) (ppost pl).
Proof.
  intros I S PO B. unfold handle_message.
  assert (RF : forall (acts : list action), quiet acts -> ppost pl (pl, rt, acts)).
  { intros acts Q. unfold ppost. cbn. apply chain_quiet; [exact Q|apply pos_le_refl]. }
  destruct (me_in m) as [x|b|pv] eqn:EM.
  - destruct (vt_step x =? s_propose); [apply handle_proposal_vote_pos; auto|].
    apply wp_bind. eapply wp_mono; [apply va_handle_spec; eauto|]. intros [rt1 ef] (A1 & G1).
    destruct ef as [| | |th]; cbn; try exact (pos_le_refl (pos_of pl)).
    + destruct (negb (me_verified m)); cbn; exact (pos_le_refl (pos_of pl)).
    + destruct (negb (me_verified m)); [cbn; exact (pos_le_refl (pos_of pl))|].
      apply wp_bind. eapply wp_mono.
      * apply Hrec2; [exact A1 | cbn; inversion G1; auto | split; [lia|exact Logic.I] ].
      * intros [[pl2 rt2] a1] H. unfold ppost in *. cbn [fst snd] in *. exact H.
  - apply wp_bind. eapply wp_mono; [apply va_handle_spec; eauto|]. intros [rt1 ef] (A1 & G1).
    destruct ef as [| | |th]; cbn; try exact (pos_le_refl (pos_of pl)).
    + destruct (negb (me_verified m)); cbn; first [exact Logic.I | exact (pos_le_refl (pos_of pl))].
    + destruct (negb (me_verified m)); [cbn; exact (pos_le_refl (pos_of pl))|].
      apply wp_bind. eapply wp_mono.
      * apply Hrec2; [exact A1 | cbn; inversion G1; auto | split; [lia|exact Logic.I] ].
      * intros [[pl2 rt2] a1] H. unfold ppost in *. cbn [fst snd] in *. exact H.
  - apply wp_bind. eapply wp_mono; [apply pm_payload_spec; eauto|]. intros [rt1 ef] (A1 & PA).
    destruct ef as [| | |rnd per pinned prop auth|prop auth|prop auth]; try exact (pos_le_refl (pos_of pl)).
    + cbv zeta. cbn. destruct (mm_hnil (me_meta m)); cbn; exact (pos_le_refl (pos_of pl)).
    + cbv zeta. destruct (rnd =? p_rnd pl); [exact (pos_le_refl (pos_of pl))|]. cbn.
      destruct (mm_hnil (me_meta m)); cbn; exact (pos_le_refl (pos_of pl)).
    + (* accepted *)
      cbv zeta. cbn.
      apply wp_bind. eapply wp_mono; [apply d_freshest_spec; eauto|]. intros [rt2 fr] (A2 & B2).
      set (acts1 := if mm_hnil (me_meta m) then _ else _).
      assert (Q1 : quiet acts1).
      { unfold acts1. destruct (mm_hnil (me_meta m)); repeat (apply quiet_cons; [reflexivity|]); apply quiet_nil. }
      destruct fr as [th|]; [|cbn; apply chain_quiet; [exact Q1|apply pos_le_refl]].
      destruct (tkind_eqb (th_t th) TCert && value_eqb (th_val th) pv) eqn:EC;
        [|cbn; apply chain_quiet; [exact Q1|apply pos_le_refl]].
      destruct (B2 th eq_refl) as (GT & GR).
      apply wp_bind. eapply wp_mono; [apply update_cred_history_spec; eauto|]. intros rt3 A3.
      apply wp_bind. eapply wp_mono.
      * apply enter_round_pos; [exact A3| |]; rewrite (good_thresh_rnd pm D th GT), GR, add1_small by lia; lia.
      * intros [[pl2 rt4] as_] H. unfold ppost in *. cbn [fst snd] in *.
        apply chain_quiet_app; [exact Q1|]. exact H.
    + (* committable *)
      cbv zeta. cbn.
      apply wp_bind. eapply wp_mono; [apply d_freshest_spec; eauto|]. intros [rt2 fr] (A2 & B2).
      set (acts1 := if mm_hnil (me_meta m) then _ else _).
      assert (Q1 : quiet acts1).
      { unfold acts1. destruct (mm_hnil (me_meta m)); repeat (apply quiet_cons; [reflexivity|]); apply quiet_nil. }
      assert (FIN : wp (if p_step pl <=? s_cert
                        then Ok (pl, rt2, acts1 ++ [AAttest (p_rnd pl) (p_per pl) s_cert prop])
                        else Ok (pl, rt2, acts1)) (ppost pl)).
      { destruct (p_step pl <=? s_cert); cbn; unfold ppost; cbn.
        - apply chain_quiet; [|apply pos_le_refl]. apply quiet_app; [exact Q1|]. apply quiet_cons; [reflexivity|apply quiet_nil].
        - apply chain_quiet; [exact Q1|apply pos_le_refl]. }
      destruct fr as [th|]; [|exact FIN].
      destruct (tkind_eqb (th_t th) TCert && value_eqb (th_val th) pv) eqn:EC; [|exact FIN].
      destruct (B2 th eq_refl) as (GT & GR).
      apply wp_bind. eapply wp_mono; [apply update_cred_history_spec; eauto|]. intros rt3 A3.
      apply wp_bind. eapply wp_mono.
      * apply enter_round_pos; [exact A3| |]; rewrite (good_thresh_rnd pm D th GT), GR, add1_small by lia; lia.
      * intros [[pl2 rt4] as_] H. unfold ppost in *. cbn [fst snd] in *.
        apply chain_quiet_app; [exact Q1|]. exact H.
Qed.

Lemma handle_body_pos pl rt e :
  RInv pm D rt -> pev_ok pm D pl e -> pre (S f) pl e -> wp (handle_body pm rec pl rt e) (ppost pl).
Proof.
  intros I PE [B X]. destruct e as [m|th|fast en bad|r|r p s err]; cbn [handle_body].
  - destruct PE. apply handle_message_pos; auto.
  - apply handle_threshold_pos; auto.
  - destruct fast; [apply handle_fast_timeout_pos | apply handle_timeout_pos; exact X].
  - destruct X as [X1 X2]. apply enter_round_pos; auto. lia.
  - exact (pos_le_refl (pos_of pl)).
Qed.

End Rec.

(* ---------- player.handle, submitTop, whole runs ---------- *)
Lemma p_handle_pos pm D : params_pos pm -> per_small D -> forall fuel pl rt e,
  RInv pm D rt -> pev_ok pm D pl e -> pre fuel pl e -> wp (p_handle fuel pm pl rt e) (ppost pl).
Proof.
  intros Hpp Hs. induction fuel as [|f IH]; intros pl rt e I PE PR; cbn [p_handle]; [exact Logic.I|].
  apply (handle_body_pos pm D Hpp Hs f (p_handle f pm)); auto.
  intros pl0 rt0 e0 I0 PE0. apply p_handle_spec; auto.
Qed.

Definition ev_ok2 (st : state) (e : ext_event) : Prop :=
  ev_payload_ok (s_pl st) e /\ pre default_fuel (s_pl st) (pevent_of e) /\ per_small (ev_delivered e).

Fixpoint trace_ok2 (pm : params) (st : state) (es : list ext_event) : Prop :=
  match es with
  | [] => True
  | e :: es' =>
      ev_ok2 st e /\
      match step pm st e with Ok (st', _) => trace_ok2 pm st' es' | _ => True end
  end.

Lemma step_pos pm D st e :
  params_pos pm -> per_small D -> RInv pm D (s_rt st) -> (forall x, In x (ev_delivered e) -> In x D) ->
  ev_ok2 st e ->
  wp (step pm st e) (fun '(st', acts) => RInv pm D (s_rt st') /\ chain (pos_of (s_pl st)) acts (pos_of (s_pl st'))).
Proof.
  intros Hpp Hs I S (PO & PR & _). unfold step. apply wp_bind.
  assert (PE : pev_ok pm D (s_pl st) (pevent_of e)) by (destruct e; cbn in *; auto).
  eapply wp_mono.
  - apply wp_and.
    + apply (p_handle_spec pm D default_fuel); [apply root_update_inv; exact I|exact PE].
    + apply (p_handle_pos pm D Hpp Hs default_fuel); [apply root_update_inv; exact I|exact PE|exact PR].
  - intros [[pl rt'] acts] [[A _] B]. cbn in *. split; [exact A|exact B].
Qed.

Definition all_acts (pm : params) (st : state) (es : list ext_event) : list action :=
  List.concat (map fst (fst (run pm st es))).

Lemma per_small_app D D' : per_small D -> per_small D' -> per_small (D ++ D').
Proof. intros A B x Hx. apply in_app_or in Hx. destruct Hx; auto. Qed.

Lemma run_chain pm : params_pos pm -> forall es D st,
  RInv pm D (s_rt st) -> per_small D -> trace_ok2 pm st es ->
  exists hi, chain (pos_of (s_pl st)) (all_acts pm st es) hi.
Proof.
  intros Hpp. induction es as [|e es IH]; intros D st I Hs T; unfold all_acts; cbn [run].
  - exists (pos_of (s_pl st)). exact (pos_le_refl _).
  - destruct T as [EO T].
    set (D1 := D ++ ev_delivered e).
    assert (Hs1 : per_small D1) by (apply per_small_app; [exact Hs|exact (proj2 (proj2 EO))]).
    assert (I1 : RInv pm D1 (s_rt st)) by (eapply RInv_mono; [|exact I]; intros x Hx; apply in_or_app; auto).
    pose proof (step_pos pm D1 st e Hpp Hs1 I1 (fun x Hx => in_or_app _ _ _ (or_intror Hx)) EO) as SP.
    destruct (step pm st e) as [[st1 acts1]| |] eqn:ES;
      try (exists (pos_of (s_pl st)); exact (pos_le_refl _)).
    cbn in SP. destruct SP as [A B].
    destruct (IH D1 st1 A Hs1 T) as [hi H]. unfold all_acts in H.
    destruct (run pm st1 es) as [l o]. cbn in *.
    exists hi. eapply chain_app; [exact B|exact H].
Qed.

(* ATTEST-ONCE for soft and next_k votes: along ANY event sequence accepted by the model, two attest
   actions of one (round, period, step) with step = soft or next <= step < late carry the same
   value -- they are in fact the same occurrence: no such key is attested twice. *)
Theorem attest_once_soft_next_proof : forall pm r0 es,
  params_pos pm -> trace_ok2 pm (init pm r0) es ->
  forall r p s v v', tracked s = true ->
    In (AAttest r p s v) (all_acts pm (init pm r0) es) ->
    In (AAttest r p s v') (all_acts pm (init pm r0) es) -> v = v'.
Proof.
  intros pm r0 es Hpp T r p s v v' Tr I1 I2.
  destruct (run_chain pm Hpp es [] (init pm r0) (RInv_init pm [] r0) (fun x (H : In x []) => match H with end) T) as [hi H].
  eapply chain_attest_once; eassumption.
Qed.

(* the same, as a statement about occurrences: a tracked key occurs at most once *)
Theorem attest_at_most_once_proof : forall pm r0 es,
  params_pos pm -> trace_ok2 pm (init pm r0) es ->
  forall l1 l2 l3 r p s v v', tracked s = true ->
    all_acts pm (init pm r0) es <> l1 ++ AAttest r p s v :: l2 ++ AAttest r p s v' :: l3.
Proof.
  intros pm r0 es Hpp T l1 l2 l3 r p s v v' Tr E.
  destruct (run_chain pm Hpp es [] (init pm r0) (RInv_init pm [] r0) (fun x (H : In x []) => match H with end) T) as [hi H].
  rewrite E in H. eapply pos_lt_irrefl. eapply chain_split_distinct; [exact H| |]; apply bnd_attest; exact Tr.
Qed.

(* ---------- the other steps: hypothesis, non-vacuity, counterexample ---------- *)
(* thresholds (quorums of delivered votes) of one round and period agree on their non-bottom value;
   discharged in C01 from quorum intersection *)
Definition thresholds_consistent (pm : params) (D : list vote) : Prop :=
  forall th th', good_thresh pm D th -> good_thresh pm D th' ->
    th_rnd th = th_rnd th' -> th_per th = th_per th' ->
    is_bottom (th_val th) = false -> is_bottom (th_val th') = false -> th_val th = th_val th'.

Lemma good_thresh_single_value pm D th v0 :
  params_pos pm -> (forall x, In x D -> vt_val x = v0) -> good_thresh pm D th -> th_val th = v0.
Proof.
  intros (P1 & P2 & P3 & P4 & P5 & P6) S ([GV GE _ GW] & GK & GVal & _).
  assert (W : 0 < bundle_weight (th_b th)).
  { unfold reaches in GW. destruct (step_threshold pm (ub_step (th_b th))) as [t|] eqn:ET; [|discriminate].
    assert (0 < t).
    { unfold step_threshold in ET.
      repeat match type of ET with (if ?c then _ else _) = _ => destruct c end; inversion ET; subst; assumption. }
    apply N.leb_le in GW. lia. }
  unfold bundle_weight in W.
  destruct (N.eq_dec (sumN (map vt_w (ub_votes (th_b th)))) 0) as [Z|NZ].
  - assert (W2 : 0 < sumN (map eq_w (ub_eqs (th_b th)))) by lia.
    apply sumN_pos_in in W2. destruct W2 as [w Hw]. apply in_map_iff in Hw. destruct Hw as [e [_ He]].
    destruct (GE e He) as [(x & y & Hx & Hy & _ & _ & _ & _ & Vx & Vy & NE & _) _].
    exfalso. apply NE. rewrite <- Vx, <- Vy, (S x Hx), (S y Hy). reflexivity.
  - assert (W2 : 0 < sumN (map vt_w (ub_votes (th_b th)))) by lia.
    apply sumN_pos_in in W2. destruct W2 as [w Hw]. apply in_map_iff in Hw. destruct Hw as [x [_ Hx]].
    destruct (GV x Hx) as (HD & _ & Vx). rewrite <- GVal, <- Vx. apply S. exact HD.
Qed.

(* the hypothesis is satisfiable: it holds whenever all delivered votes carry one value *)
Lemma thresholds_consistent_single_value pm D v0 :
  params_pos pm -> (forall x, In x D -> vt_val x = v0) -> thresholds_consistent pm D.
Proof.
  intros Hpp S th th' G G' _ _ _ _.
  rewrite (good_thresh_single_value pm D th v0 Hpp S G), (good_thresh_single_value pm D th' v0 Hpp S G'). reflexivity.
Qed.

(* concrete scripts (thresholds 1: one vote of weight 10 is a quorum) *)
Definition pmx : params := mkParams 1 1 1 1 1 1 100 100 1000 1000 10 50 false 2.
Definition vx1 : value := mkV 1 5 0 1.
Definition vx2 : value := mkV 2 5 0 2.
Definition mx0 : mmeta := mkMeta false false false false 0.
Definition evote (s r p st : N) (v : value) : ext_event :=
  EvMsg (mkME true (InVote (mkVote s r p st v 10 0)) mx0 None).

(* anti-vacuity of attest_once_soft_next: a run that satisfies the premises and attests soft, next_3, next_4 *)
Definition script_soft_next : list ext_event :=
  [evote 1 5 0 0 vx1; EvTimeout false 0 false; EvTimeout false 0 false; EvTimeout false 0 false; EvTimeout false 0 false].

Lemma pmx_pos : params_pos pmx. Proof. unfold params_pos, pmx; cbn; lia. Qed.

Lemma script_soft_next_acts :
  filter (fun a => match a with AAttest _ _ _ _ => true | _ => false end) (all_acts pmx (init pmx 5) script_soft_next)
  = [AAttest 5 0 1 vx1; AAttest 5 0 3 bottom; AAttest 5 0 4 bottom].
Proof. vm_compute. reflexivity. Qed.

(* WITHOUT thresholds_consistent attest-once FAILS for redo: a next quorum for vx1 (step next) moves
   the node to period 1, the fast-recovery timer votes redo vx1; then a late-step quorum of period 0
   for vx2 overwrites voteTrackerPeriod.Cached (it is not "fresher", so the player never sees it), and
   the next fast-recovery vote is redo vx2 *)
Definition script_redo : list ext_event :=
  [evote 1 5 0 3 vx1; EvTimeout true 0 false; EvTimeout true 0 false; evote 2 5 0 253 vx2; EvTimeout true 0 false].

Lemma script_redo_acts :
  filter (fun a => match a with AAttest _ _ _ _ => true | _ => false end) (all_acts pmx (init pmx 5) script_redo)
  = [AAttest 5 1 254 vx1; AAttest 5 1 254 vx2].
Proof. vm_compute. reflexivity. Qed.

(* the premises as a boolean (reflection: concrete scripts are checked by computation) *)
Definition pre_b (f : nat) (pl : player) (e : pevent) : bool :=
  (p_rnd pl + N.of_nat f + 1 <? W64) &&
  match e with
  | PTimeout false _ _ => p_step pl + 1 <? W64
  | PRoundInt r => (p_rnd pl <? r) && (r + N.of_nat f + 1 <? W64)
  | _ => true
  end.
Definition payload_ok_b (pl : player) (m : mevent) : bool :=
  match me_in m with
  | InPayload pv => negb (me_verified m) || mm_err (me_meta m) || mm_cancelled (me_meta m) || (v_rnd pv =? p_rnd pl)
  | _ => true
  end.
Definition ev_ok2_b (st : state) (e : ext_event) : bool :=
  match e with EvMsg m => payload_ok_b (s_pl st) m | _ => true end &&
  pre_b default_fuel (s_pl st) (pevent_of e) &&
  forallb (fun x => vt_per x + 1 <? W64) (ev_delivered e).
Fixpoint trace_ok2_b (pm : params) (st : state) (es : list ext_event) : bool :=
  match es with
  | [] => true
  | e :: es' =>
      ev_ok2_b st e &&
      match step pm st e with Ok (st', _) => trace_ok2_b pm st' es' | _ => true end
  end.

Lemma ev_ok2_b_sound st e : ev_ok2_b st e = true -> ev_ok2 st e.
Proof.
  unfold ev_ok2_b, ev_ok2. rewrite !andb_true_iff. intros [[H1 H2] H3]. split; [|split].
  - destruct e as [m| | |]; cbn; auto. unfold payload_ok, payload_ok_b in *.
    destruct (me_in m) as [x|b|pv]; auto. intros V E C. rewrite V, E, C in H1. cbn in H1.
    apply N.eqb_eq in H1. exact H1.
  - unfold pre, pre_b in *. apply andb_true_iff in H2. destruct H2 as [H2 H4]. split; [apply N.ltb_lt; exact H2|].
    destruct (pevent_of e) as [m|th|[|] en bad|r|r p s err]; auto.
    + apply N.ltb_lt. exact H4.
    + apply andb_true_iff in H4. destruct H4 as [H4 H5]. split; apply N.ltb_lt; assumption.
  - intros x Hx. rewrite forallb_forall in H3. apply N.ltb_lt. apply H3. exact Hx.
Qed.

Lemma trace_ok2_b_sound pm : forall es st, trace_ok2_b pm st es = true -> trace_ok2 pm st es.
Proof.
  induction es as [|e es IH]; intros st H; cbn [trace_ok2 trace_ok2_b] in *; [exact Logic.I|].
  apply andb_true_iff in H. destruct H as [H1 H2]. split; [apply ev_ok2_b_sound; exact H1|].
  destruct (step pm st e) as [[st' acts]| |]; auto.
Qed.

Lemma script_soft_next_ok : trace_ok2 pmx (init pmx 5) script_soft_next.
Proof. apply trace_ok2_b_sound. vm_compute. reflexivity. Qed.

Lemma script_redo_ok : trace_ok2 pmx (init pmx 5) script_redo.
Proof. apply trace_ok2_b_sound. vm_compute. reflexivity. Qed.

(* ... and the delivered votes of script_redo are indeed not threshold-consistent *)
Definition thx (s : N) (snd : N) (v : value) : thresh :=
  mkTh TNext 5 0 s v (mkUB 5 0 s v [mkVote snd 5 0 s v 10 0] []).

Lemma thx_good s snd v D :
  In (mkVote snd 5 0 s v 10 0) D -> reaches pmx s 10 = true -> tkind_of_step s = TNext ->
  good_thresh pmx D (thx s snd v).
Proof.
  intros HD HR HT. unfold thx, good_thresh. cbn. repeat split; auto.
  - destruct H as [<-|[]]. exact HD.
  - destruct H as [<-|[]]. reflexivity.
  - destruct H as [<-|[]]. reflexivity.
  - destruct H.
  - destruct H.
  - cbn. constructor; [intros []|constructor].
Qed.

Lemma script_redo_inconsistent : ~ thresholds_consistent pmx (delivered script_redo).
Proof.
  intros H.
  assert (E : vx1 = vx2).
  { apply (H (thx 3 1 vx1) (thx 253 2 vx2)); try reflexivity.
    - apply thx_good; [cbn; auto|reflexivity|reflexivity].
    - apply thx_good; [cbn; auto|reflexivity|reflexivity]. }
  discriminate E.
Qed.

Lemma redo_needs_consistency :
  params_pos pmx /\ trace_ok2 pmx (init pmx 5) script_redo /\
  In (AAttest 5 1 s_redo vx1) (all_acts pmx (init pmx 5) script_redo) /\
  In (AAttest 5 1 s_redo vx2) (all_acts pmx (init pmx 5) script_redo) /\ vx1 <> vx2 /\
  ~ thresholds_consistent pmx (delivered script_redo).
Proof.
  split; [exact pmx_pos|]. split; [exact script_redo_ok|].
  pose proof script_redo_acts as E.
  set (L := all_acts pmx (init pmx 5) script_redo) in *. clearbody L.
  set (F := fun a => match a with AAttest _ _ _ _ => true | _ => false end) in *.
  assert (M1 : In (AAttest 5 1 s_redo vx1) (filter F L)) by (rewrite E; left; reflexivity).
  assert (M2 : In (AAttest 5 1 s_redo vx2) (filter F L)) by (rewrite E; right; left; reflexivity).
  split; [exact (proj1 (proj1 (filter_In F _ L) M1))|].
  split; [exact (proj1 (proj1 (filter_In F _ L) M2))|].
  split; [discriminate|exact script_redo_inconsistent].
Qed.
