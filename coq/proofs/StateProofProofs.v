(* Lemmas for C39 (model/StateProof.v): exact characterisation of Verifier.Verify's acceptance,
   soundness w.r.t. the committed participants, completeness of the honest prover. *)
From Coq Require Import NArith ZArith List Bool Lia ZifyN ZifyNat ZifyBool.
From Verif.model Require Import SpWeights StateProof StateProofSpec.
From Verif.proofs Require Import SpWeightsProofs.
Import ListNotations.
Open Scope N_scope.

(* ------------------------------------------------------------------ generic list facts *)
Lemma lookup_In : forall A k (m : list (N * A)) v, lookup k m = Some v -> In (k, v) m.
Proof.
  induction m as [|[k' v'] r IH]; intros v H; cbn [lookup] in H; [discriminate|].
  destruct (N.eqb_spec k k').
  - inversion H; subst. left; reflexivity.
  - right; auto.
Qed.

Lemma lookup_none_iff : forall A k (m : list (N * A)), lookup k m = None <-> ~ In k (map fst m).
Proof.
  induction m as [|[k' v'] r IH]; cbn [lookup map fst In]; [tauto|].
  destruct (N.eqb_spec k k'); subst.
  - split; [discriminate|]. intros H; exfalso; apply H; left; reflexivity.
  - rewrite IH. split; intros H; [intros [E|I]; [congruence|tauto] | tauto].
Qed.

Lemma lookup_app : forall A k (m m' : list (N * A)),
  lookup k (m ++ m') = match lookup k m with Some v => Some v | None => lookup k m' end.
Proof.
  induction m as [|[k' v'] r IH]; intros m'; cbn [lookup app]; [reflexivity|].
  destruct (k =? k'); [reflexivity | apply IH].
Qed.

Lemma lookup_nodup_In : forall A k v (m : list (N * A)),
  NoDup (map fst m) -> In (k, v) m -> lookup k m = Some v.
Proof.
  induction m as [|[k' v'] r IH]; intros ND HI; [destruct HI|].
  cbn [map fst] in ND. inversion ND as [|? ? Hn ND']; subst.
  cbn [lookup]. destruct HI as [E|HI].
  - inversion E; subst. rewrite N.eqb_refl. reflexivity.
  - destruct (N.eqb_spec k k'); subst.
    + exfalso. apply Hn. change k' with (fst (k', v)). apply in_map. exact HI.
    + auto.
Qed.

Lemma wadd_le : forall a b, wadd a b <= a + b.
Proof. intros. unfold wadd. apply N.mod_le. unfold W64. lia. Qed.

Lemma wadd_small : forall a b, a + b < W64 -> wadd a b = a + b.
Proof. intros. unfold wadd. apply N.mod_small. assumption. Qed.

Section Proofs.
  Variables PK Sig Msg Dig Prf : Type.
  Variable salt_ok : Sig -> N -> bool.
  Variable commit_ok : Sig -> bool.
  Variable sig_ok : PK -> N -> Msg -> Sig -> bool.
  Variable coin : seed Msg Dig -> nat -> N.
  Variable prf_depth : Prf -> N.
  Variable vcs_root : list (slotC Sig) -> Dig.
  Variable vcs_verify : Dig -> list (N * slotC Sig) -> Prf -> bool.
  Variable vcp_root : list (participant PK) -> Dig.
  Variable vcp_verify : Dig -> list (N * participant PK) -> Prf -> bool.

  Local Notation verifyM := (verify salt_ok commit_ok sig_ok coin prf_depth vcs_verify vcp_verify).
  Local Notation coins_in_slots := (StateProofSpec.coins_in_slots (PK:=PK) (Sig:=Sig) coin).
  Local Notation accept_facts := (StateProofSpec.accept_facts salt_ok commit_ok sig_ok coin prf_depth vcs_verify vcp_verify).

  (* lia generalises over every hypothesis in sight and so drags unrelated section variables into
     the proof terms: drop the ones the goal does not mention first *)
  Ltac prune := try clear vcs_root; try clear vcp_root; try clear vcs_verify; try clear vcp_verify;
                try clear salt_ok; try clear commit_ok; try clear sig_ok; try clear prf_depth; try clear coin.
  Ltac lia_ := prune; lia.

  (* ================================================================ 1. acceptance, exactly *)
  Lemma coinLoop_ok_iff : forall sd rv ps j,
    coinLoop coin sd rv ps j = SOk tt <-> coins_in_slots sd rv ps j.
  Proof.
    intros sd rv. induction ps as [|pos rest IH]; intros j; cbn [coinLoop].
    - split; [|reflexivity]. intros _ i p H. destruct i; discriminate.
    - split.
      + intros H i p Hi.
        destruct (lookup pos rv) as [r|] eqn:EL; [|discriminate].
        destruct ((sc_L (rv_slot r) <=? coin sd j) && (coin sd j <? wadd (sc_L (rv_slot r)) (pt_weight (rv_part r)))) eqn:EC; [|discriminate].
        destruct i as [|i'].
        * cbn [nth_error] in Hi. inversion Hi; subst p. exists r. rewrite Nat.add_0_r.
          split; [exact EL|]. lia_.
        * cbn [nth_error] in Hi. apply IH in H. unfold StateProofSpec.coins_in_slots in H. destruct (H i' p Hi) as (r' & L' & C1 & C2).
          exists r'. replace (j + S i')%nat with (S j + i')%nat by lia_. auto.
      + intros H. unfold StateProofSpec.coins_in_slots in H.
        destruct (H 0%nat pos eq_refl) as (r & EL & C1 & C2). rewrite Nat.add_0_r in C1, C2.
        rewrite EL.
        replace ((sc_L (rv_slot r) <=? coin sd j) && (coin sd j <? wadd (sc_L (rv_slot r)) (pt_weight (rv_part r)))) with true by lia_.
        apply IH. intros i p Hi. destruct (H (S i) p Hi) as (r' & L' & D1 & D2).
        exists r'. replace (S j + i)%nat with (j + S i)%nat by lia_. auto.
  Qed.

  Lemma checkReveals_none_iff : forall round data rv,
    checkReveals commit_ok sig_ok round data rv = None <->
    (forall pos r, In (pos, r) rv ->
       commit_ok (sc_sig (rv_slot r)) = true /\
       sig_ok (pt_pk (rv_part r)) round data (sc_sig (rv_slot r)) = true).
  Proof.
    intros round data. induction rv as [|[p0 r0] rest IH]; cbn [checkReveals].
    - split; [intros _ ? ? []|reflexivity].
    - destruct (commit_ok (sc_sig (rv_slot r0))) eqn:EC; cbn [negb].
      + destruct (sig_ok (pt_pk (rv_part r0)) round data (sc_sig (rv_slot r0))) eqn:ES; cbn [negb].
        * rewrite IH. split.
          -- intros H pos r [E|I]; [inversion E; subst; auto | eauto].
          -- intros H pos r I. apply (H pos r). right; exact I.
        * split; [discriminate|]. intros H. destruct (H p0 r0 (or_introl eq_refl)). congruence.
      + split; [discriminate|]. intros H. destruct (H p0 r0 (or_introl eq_refl)). congruence.
  Qed.

  Theorem verify_ok_iff : forall v round data s,
    verifyM v round data s = SOk tt <-> accept_facts v round data s.
  Proof.
    intros v round data s. unfold verify, StateProofSpec.accept_facts, seed_of.
    destruct (N.ltb_spec MaxTreeDepth (prf_depth (sp_sigproofs s))) as [D1|D1].
    { split; [discriminate|]. intros (A & _). lia_. }
    destruct (N.ltb_spec MaxTreeDepth (prf_depth (sp_partproofs s))) as [D2|D2].
    { split; [discriminate|]. intros (_ & A & _). lia_. }
    destruct (verifyWeights _ _ _ _) as [[]|e|] eqn:EW;
      try (split; [discriminate|]; intros (_ & _ & A & _); discriminate).
    destruct (forallb (fun pr => salt_ok (sc_sig (rv_slot (snd pr))) (sp_salt s)) (sp_reveals s)) eqn:ES; cbn [negb].
    2:{ split; [discriminate|]. intros (_ & _ & _ & A & _).
        assert (forallb (fun pr => salt_ok (sc_sig (rv_slot (snd pr))) (sp_salt s)) (sp_reveals s) = true); [|congruence].
        apply forallb_forall. intros [p r] I. cbn [snd]. apply (A p r I). }
    rewrite forallb_forall in ES.
    destruct (checkReveals commit_ok sig_ok round data (sp_reveals s)) as [e|] eqn:EC.
    { split; [discriminate|]. intros (_ & _ & _ & A & _).
      assert (checkReveals commit_ok sig_ok round data (sp_reveals s) = None); [|congruence].
      apply checkReveals_none_iff. intros p r I. destruct (A p r I) as (_ & ? & ?). auto. }
    rewrite checkReveals_none_iff in EC.
    destruct (vcs_verify _ _ _) eqn:EV1; cbn [negb].
    2:{ split; [discriminate|]. intros (_ & _ & _ & _ & A & _). discriminate. }
    destruct (vcp_verify _ _ _) eqn:EV2; cbn [negb].
    2:{ split; [discriminate|]. intros (_ & _ & _ & _ & _ & A & _). discriminate. }
    rewrite coinLoop_ok_iff. split.
    - intros H. repeat split; auto; try (destruct (EC pos r H0); assumption).
      apply (ES (pos, r) H0).
    - intros (_ & _ & _ & _ & _ & _ & H). exact H.
  Qed.

  (* ================================================================ 2. soundness *)
  Variable vcp_treedepth : list (participant PK) -> N.
  Variable vcp_posmap : list (participant PK) -> Prf -> N -> N.
  Variable vcs_treedepth : list (slotC Sig) -> N.
  Variable vcs_posmap : list (slotC Sig) -> Prf -> N -> N.
  Local Notation backed := (StateProofSpec.backed sig_ok coin vcp_posmap).

  Theorem accept_sound : forall parts v round data s,
    vc_sound vcp_root vcp_verify prf_depth vcp_treedepth vcp_posmap ->
    v_partcom v = vcp_root parts ->
    verifyM v round data s = SOk tt ->
    (forall j pos, nth_error (sp_positions s) j = Some pos -> backed parts round data v s j pos) /\
    verifyWeights (Z.of_N (sp_sw s)) (Z.of_N (v_lnpw v))
                  (Z.of_nat (length (sp_positions s))) (Z.of_N (v_st v)) = WOk tt.
  Proof.
    intros parts v round data s [Hs _] Hc H. apply verify_ok_iff in H.
    destruct H as (_ & _ & HW & HR & _ & HP & HC). split; [|exact HW].
    intros j pos Hj. destruct (HC j pos Hj) as (r & EL & C1 & C2). cbn [Nat.add] in C1, C2.
    exists r. split; [exact EL|]. pose proof (lookup_In _ _ _ _ EL) as HI.
    destruct (HR pos r HI) as (_ & _ & Hsig).
    split; [|split; [exact Hsig|]].
    - rewrite Hc in HP. eapply Hs; [exact HP|].
      unfold part_claims. apply in_map_iff. exists (pos, r). auto.
    - pose proof (wadd_le (sc_L (rv_slot r)) (pt_weight (rv_part r))). lia_.
  Qed.

  (* with the tree's own depth in the proof the position is the revealed position itself *)
  Corollary accept_sound_depth : forall parts v round data s j pos,
    vc_sound vcp_root vcp_verify prf_depth vcp_treedepth vcp_posmap ->
    v_partcom v = vcp_root parts ->
    prf_depth (sp_partproofs s) = vcp_treedepth parts ->
    verifyM v round data s = SOk tt ->
    nth_error (sp_positions s) j = Some pos ->
    exists r, lookup pos (sp_reveals s) = Some r /\
      nth_error parts (N.to_nat pos) = Some (rv_part r) /\
      sig_ok (pt_pk (rv_part r)) round data (sc_sig (rv_slot r)) = true /\
      sc_L (rv_slot r) <= coin (seed_of v data s) j < sc_L (rv_slot r) + pt_weight (rv_part r).
  Proof.
    intros parts v round data s j pos Hs Hc Hd H Hj.
    destruct (accept_sound parts v round data s Hs Hc H) as [HB _].
    destruct (HB j pos Hj) as (r & A & B & C & D). exists r.
    destruct Hs as [_ Hid]. rewrite (Hid parts _ pos Hd) in B. auto.
  Qed.

  (* the signature slots (signature and L) were fixed by SigCommit, i.e. before the coins *)
  Theorem accept_sound_slots : forall slots v round data s,
    vc_sound vcs_root vcs_verify prf_depth vcs_treedepth vcs_posmap ->
    sp_sigcommit s = vcs_root slots ->
    verifyM v round data s = SOk tt ->
    forall pos r, In (pos, r) (sp_reveals s) ->
      nth_error slots (N.to_nat (vcs_posmap slots (sp_sigproofs s) pos)) = Some (rv_slot r).
  Proof.
    intros slots v round data s [Hs _] Hc H pos r HI. apply verify_ok_iff in H.
    destruct H as (_ & _ & _ & _ & HV & _). rewrite Hc in HV.
    eapply Hs; [exact HV|]. unfold sig_claims. apply in_map_iff. exists (pos, r). auto.
  Qed.

  (* ================================================================ 3. tamper corollaries *)
  (* Verify looks at round and message only through the signature check and (message) the
     coin seed: acceptance for (round', data') needs every revealed signature to be valid
     for (round', data'). *)
  Corollary tamper_round_or_message : forall v round' data' s pos r,
    In (pos, r) (sp_reveals s) ->
    sig_ok (pt_pk (rv_part r)) round' data' (sc_sig (rv_slot r)) = false ->
    verifyM v round' data' s <> SOk tt.
  Proof.
    intros v round' data' s pos r HI Hf H. apply verify_ok_iff in H.
    destruct H as (_ & _ & _ & HR & _). destruct (HR pos r HI) as (_ & _ & E). congruence.
  Qed.

  (* conversely rounds the signatures are equally valid for are not distinguished (one
     merklesignature key-lifetime window) *)
  Lemma round_window_equiv : forall v round round' data s,
    (forall pos r, In (pos, r) (sp_reveals s) ->
       sig_ok (pt_pk (rv_part r)) round data (sc_sig (rv_slot r)) =
       sig_ok (pt_pk (rv_part r)) round' data (sc_sig (rv_slot r))) ->
    (verifyM v round data s = SOk tt <-> verifyM v round' data s = SOk tt).
  Proof.
    intros v round round' data s He. rewrite !verify_ok_iff. unfold StateProofSpec.accept_facts.
    split; intros (A & B & C & D & E & F & G); repeat split; auto;
      try (destruct (D pos r H) as (? & ? & ?); assumption).
    - destruct (D pos r H) as (? & ? & X). rewrite <- (He pos r H). exact X.
    - destruct (D pos r H) as (? & ? & X). rewrite (He pos r H). exact X.
  Qed.

  (* a replaced signature, or a replaced participant key, must itself pass the check *)
  Corollary tamper_signature_or_key : forall v round data s pos r,
    verifyM v round data s = SOk tt -> In (pos, r) (sp_reveals s) ->
    sig_ok (pt_pk (rv_part r)) round data (sc_sig (rv_slot r)) = true /\
    salt_ok (sc_sig (rv_slot r)) (sp_salt s) = true.
  Proof.
    intros v round data s pos r H HI. apply verify_ok_iff in H.
    destruct H as (_ & _ & _ & HR & _). destruct (HR pos r HI) as (? & ? & ?). auto.
  Qed.

  (* participant (key or weight) or position changed against the commitment: with the honest
     depth, an accepted reveal IS the committed participant of that position *)
  Corollary tamper_participant_weight_position : forall parts v round data s pos r p,
    vc_sound vcp_root vcp_verify prf_depth vcp_treedepth vcp_posmap ->
    v_partcom v = vcp_root parts ->
    prf_depth (sp_partproofs s) = vcp_treedepth parts ->
    In (pos, r) (sp_reveals s) ->
    nth_error parts (N.to_nat pos) = Some p -> rv_part r <> p ->
    verifyM v round data s <> SOk tt.
  Proof.
    intros parts v round data s pos r p [Hs Hid] Hc Hd HI Hp Hne H. apply verify_ok_iff in H.
    destruct H as (_ & _ & _ & _ & _ & HP & _). rewrite Hc in HP.
    assert (X : nth_error parts (N.to_nat (vcp_posmap parts (sp_partproofs s) pos)) = Some (rv_part r)).
    { eapply Hs; [exact HP|]. unfold part_claims. apply in_map_iff. exists (pos, r). auto. }
    rewrite (Hid parts _ pos Hd) in X. congruence.
  Qed.

  (* same for the signature slot (signature or L) against SigCommit *)
  Corollary tamper_slot : forall slots v round data s pos r c,
    vc_sound vcs_root vcs_verify prf_depth vcs_treedepth vcs_posmap ->
    sp_sigcommit s = vcs_root slots ->
    prf_depth (sp_sigproofs s) = vcs_treedepth slots ->
    In (pos, r) (sp_reveals s) ->
    nth_error slots (N.to_nat pos) = Some c -> rv_slot r <> c ->
    verifyM v round data s <> SOk tt.
  Proof.
    intros slots v round data s pos r c Hs Hc Hd HI Hp Hne H.
    pose proof (accept_sound_slots slots v round data s Hs Hc H pos r HI) as X.
    destruct Hs as [_ Hid]. rewrite (Hid slots _ pos Hd) in X. congruence.
  Qed.

  (* a reveal position that is not revealed, or whose slot does not contain the coin *)
  Corollary tamper_reveal_position : forall v round data s j pos,
    nth_error (sp_positions s) j = Some pos ->
    (lookup pos (sp_reveals s) = None \/
     exists r, lookup pos (sp_reveals s) = Some r /\
               ~ (sc_L (rv_slot r) <= coin (seed_of v data s) j < sc_L (rv_slot r) + pt_weight (rv_part r))) ->
    verifyM v round data s <> SOk tt.
  Proof.
    intros v round data s j pos Hj Hbad H. apply verify_ok_iff in H.
    destruct H as (_ & _ & _ & _ & _ & _ & HC).
    destruct (HC j pos Hj) as (r & EL & C1 & C2). cbn [Nat.add] in C1, C2.
    destruct Hbad as [E|(r' & E & Hn)]; [congruence|].
    rewrite EL in E. inversion E; subst r'. apply Hn.
    pose proof (wadd_le (sc_L (rv_slot r)) (pt_weight (rv_part r))). lia_.
  Qed.

  (* signed weight, SigCommit, message, lnProvenWeight and the participants commitment are the
     coin seed; the signed weight and the number of reveals are also bound by the inequality *)
  Corollary tamper_signed_weight : forall v round data s,
    verifyM v round data s = SOk tt ->
    verifyWeights (Z.of_N (sp_sw s)) (Z.of_N (v_lnpw v))
                  (Z.of_nat (length (sp_positions s))) (Z.of_N (v_st v)) = WOk tt /\
    coins_in_slots (mkSeed (v_partcom v) (v_lnpw v) (sp_sigcommit s) (sp_sw s) data)
                   (sp_reveals s) (sp_positions s) 0.
  Proof.
    intros v round data s H. apply verify_ok_iff in H.
    destruct H as (_ & _ & HW & _ & _ & _ & HC). split; assumption.
  Qed.

  (* REFUTED clause "tampered reveal position": Verify sees positions only as map keys, so any
     renaming of the positions that the two vector-commitment proofs (with whatever TreeDepth)
     accept is accepted; C37_vc_depth_position_confusion_refuted provides such proofs. *)
  Lemma lookup_relabel : forall (f : N -> N) (rv : list (N * reveal PK Sig)) pos,
    (forall a b, In a (map fst rv) -> In b (map fst rv) -> f a = f b -> a = b) ->
    In pos (map fst rv) ->
    lookup (f pos) (map (fun pr => (f (fst pr), snd pr)) rv) = lookup pos rv.
  Proof.
    intros f. induction rv as [|[k r] rest IH]; intros pos Hinj HI; [destruct HI|].
    cbn [map fst snd lookup]. destruct (N.eqb_spec pos k) as [E|NE].
    - subst. rewrite N.eqb_refl. reflexivity.
    - destruct (N.eqb_spec (f pos) (f k)) as [E2|NE2].
      + exfalso. apply NE. apply Hinj; [exact HI | left; reflexivity | exact E2].
      + destruct HI as [E|HI]; [cbn in E; congruence|].
        apply IH; [|exact HI]. intros a b Ha Hb. apply Hinj; right; assumption.
  Qed.

  Theorem position_relabel_accepted : forall v round data s f sp' pp',
    verifyM v round data s = SOk tt ->
    (forall a b, In a (map fst (sp_reveals s)) -> In b (map fst (sp_reveals s)) -> f a = f b -> a = b) ->
    prf_depth sp' <= MaxTreeDepth -> prf_depth pp' <= MaxTreeDepth ->
    vcs_verify (sp_sigcommit s) (sig_claims (sp_reveals (relabel f s sp' pp'))) sp' = true ->
    vcp_verify (v_partcom v) (part_claims (sp_reveals (relabel f s sp' pp'))) pp' = true ->
    verifyM v round data (relabel f s sp' pp') = SOk tt.
  Proof.
    intros v round data s f sp' pp' H Hinj D1 D2 V1 V2.
    apply verify_ok_iff in H. apply verify_ok_iff.
    destruct H as (_ & _ & HW & HR & _ & _ & HC).
    unfold StateProofSpec.accept_facts, relabel, seed_of in *. cbn [sp_sigproofs sp_partproofs sp_sw sp_positions sp_reveals sp_salt sp_sigcommit] in *.
    rewrite map_length. repeat split; auto.
    1-3: apply in_map_iff in H; destruct H as ([k0 r0] & E & HI); cbn [fst snd] in E; inversion E; subst;
         destruct (HR k0 r HI) as (? & ? & ?); assumption.
    intros i pos Hi. rewrite nth_error_map in Hi.
    destruct (nth_error (sp_positions s) i) as [p0|] eqn:E0; [|discriminate]. cbn in Hi. inversion Hi; subst pos.
    destruct (HC i p0 E0) as (r & EL & C1 & C2). exists r. split; [|auto].
    rewrite lookup_relabel; [exact EL | exact Hinj |].
    apply lookup_In in EL. change p0 with (fst (p0, r)). apply in_map. exact EL.
  Qed.
End Proofs.

(* ================================================================ 4. ValidateStateProof *)
Section Validate.
  Variables PK Sig Msg Dig Prf : Type.
  Variable ln_approx : N -> option N.
  Variable inner : verifier Dig -> N -> Msg -> stateproof PK Sig Dig Prf -> spres unit.

  Theorem validate_ok_iff : forall (c : vctx Dig) s atRound msg,
    validate_with ln_approx inner c s atRound msg = SOk tt <->
    c_interval c <> 0 /\ c_last c mod c_interval c = 0 /\
    acceptableWeight (c_interval c) (c_threshold c) (c_total c) (c_last c) atRound <= sp_sw s /\
    exists pw lnpw, muldiv (c_total c) (c_threshold c) (2 ^ 32) = (pw, false) /\
      ln_approx pw = Some lnpw /\
      inner (mkVerifier (c_strength c) lnpw (c_voters c)) (c_last c) msg s = SOk tt.
  Proof.
    intros c s atRound msg. unfold validate_with.
    destruct (N.eqb_spec (c_interval c) 0) as [E0|E0].
    { split; [discriminate|]. intros (A & _). contradiction. }
    destruct (N.eqb_spec (c_last c mod c_interval c) 0) as [E1|E1]; cbn [negb].
    2:{ split; [discriminate|]. intros (_ & A & _). contradiction. }
    destruct (N.ltb_spec (sp_sw s) (acceptableWeight (c_interval c) (c_threshold c) (c_total c) (c_last c) atRound)) as [E2|E2].
    { split; [discriminate|]. intros (_ & _ & A & _). lia. }
    destruct (muldiv (c_total c) (c_threshold c) (2 ^ 32)) as [pw ovf] eqn:EM.
    destruct ovf.
    { split; [discriminate|]. intros (_ & _ & _ & pw' & l' & A & _). discriminate. }
    destruct (ln_approx pw) as [lnpw|] eqn:EL.
    - split.
      + intros H. repeat split; auto. exists pw, lnpw. auto.
      + intros (_ & _ & _ & pw' & l' & A & B & C). inversion A; subst pw'. rewrite EL in B. inversion B; subst l'. exact C.
    - split; [discriminate|]. intros (_ & _ & _ & pw' & l' & A & B & _). inversion A; subst pw'. congruence.
  Qed.
End Validate.

(* the weight ValidateStateProof demands lies between the proven weight and the total online
   weight (so a proof it accepts carries at least the proven weight) *)
Lemma acceptable_bounds : forall interval threshold total last fv pw,
  total < W64 -> muldiv total threshold (2 ^ 32) = (pw, false) -> pw <= total ->
  pw <= acceptableWeight interval threshold total last fv <= total.
Proof.
  intros interval threshold total last fv pw Ht EM Hle. unfold acceptableWeight.
  destruct (N.eqb_spec (fv - last) 0); [lia|].
  destruct (N.eqb_spec (fv - last - interval / 2) 0); [lia|].
  rewrite EM. cbn [orb]. destruct (N.ltb_spec total pw); [lia|].
  destruct (N.leb_spec (interval / 2) (fv - last - interval / 2)); [lia|].
  set (half := interval / 2) in *. set (off := fv - last - half) in *.
  unfold muldiv.
  assert (Hq : (total - pw) * (half - off) / half <= total - pw).
  { apply N.div_le_upper_bound; [lia|]. rewrite N.mul_comm. apply N.mul_le_mono_r. lia. }
  remember ((total - pw) * (half - off) / half) as q eqn:Eq. clear Eq.
  destruct (N.leb_spec W64 q); [lia|].
  rewrite N.mod_small by lia.
  destruct (N.leb_spec W64 (pw + q)); lia.
Qed.
