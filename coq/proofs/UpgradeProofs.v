(* C26 lemmas: the upgrade state machine (model/Upgrade.v) against the history property of
   model/UpgradeSpec.v, for every consensus table and every list of votes. *)
From Coq Require Import NArith ZArith List Bool Lia ZifyN ZifyNat ZifyBool Arith.
From Verif.lib Require Import Term.
From Verif.model Require Import Upgrade UpgradeSpec.
Import ListNotations.
Open Scope N_scope.

(* ---------- versions ---------- *)
Lemma list_eqb_N_spec : forall a b : list N, list_eqb N.eqb a b = true <-> a = b.
Proof.
  induction a as [|x a IH]; intros [|y b]; cbn; split; intros H; try reflexivity; try discriminate.
  - apply andb_true_iff in H. destruct H as [H1 H2]. apply N.eqb_eq in H1. apply IH in H2.
    subst. reflexivity.
  - inversion H; subst. rewrite N.eqb_refl. cbn. apply IH. reflexivity.
Qed.

Lemma ver_eqb_eq a b : ver_eqb a b = true <-> a = b.
Proof. apply list_eqb_N_spec. Qed.

Lemma ver_eqb_refl a : ver_eqb a a = true.
Proof. apply ver_eqb_eq. reflexivity. Qed.

Lemma ver_eqb_neq a b : ver_eqb a b = false <-> a <> b.
Proof.
  split.
  - intros H E. apply ver_eqb_eq in E. congruence.
  - intros H. destruct (ver_eqb a b) eqn:E; [apply ver_eqb_eq in E; contradiction|reflexivity].
Qed.

Lemma ver_empty_nil v : ver_empty v = true <-> v = [].
Proof. destruct v; cbn; split; intros; congruence. Qed.

Lemma ver_empty_false v : ver_empty v = false <-> v <> [].
Proof. destruct v; cbn; split; intros; congruence. Qed.

Lemma W_val : W = 2 ^ 64. Proof. reflexivity. Qed.
Lemma W_pos : 0 < W. Proof. reflexivity. Qed.
Global Opaque W.

Lemma wadd_small a b : a + b < W -> wadd a b = a + b.
Proof. intros H. unfold wadd. apply N.mod_small. exact H. Qed.

(* ---------- what an accepted step does, from a quiescent state ---------- *)
Lemma quiescent_eta s : quiescent s -> s = mkUS (us_current s) [] 0 0 0.
Proof. destruct s; cbn. intros (A & B & C & D); cbn in *. subst. reflexivity. Qed.

(* the phases on explicit records (all by computation) *)
Lemma phase_propose_mk P c n a vb so r v :
  phase_propose P (mkUS c n a vb so) r v =
  if negb (ver_empty (v_propose v)) then
    if negb (ver_empty n) then UErr EProposalDuringProposal
    else if (up_maxlen P <? Z.of_nat (length (v_propose v)))%Z then UErr ETooLong
    else if (up_maxwait P <? v_delay v) || (v_delay v <? up_minwait P) then UErr EDelayRange
    else UOk (mkUS c (v_propose v) 0 (wadd r (up_voteRounds P))
                   (wadd (wadd r (up_voteRounds P)) (eff_delay P (v_delay v))))
  else if negb (v_delay v =? 0) then UErr EDelayNonzero
  else UOk (mkUS c n a vb so).
Proof. reflexivity. Qed.

Lemma phase_approve_mk c n a vb so r v :
  phase_approve (mkUS c n a vb so) r v =
  if v_approve v then
    if ver_empty n then UErr EApproveNoProposal
    else if vb <=? r then UErr EApproveLate
    else UOk (mkUS c n (wadd a 1) vb so)
  else UOk (mkUS c n a vb so).
Proof. reflexivity. Qed.

Lemma phase_clear_mk P c n a vb so r :
  phase_clear P (mkUS c n a vb so) r =
  if (r =? vb) && (a <? up_threshold P) then mkUS c [] 0 0 0 else mkUS c n a vb so.
Proof. reflexivity. Qed.

Lemma phase_switch_mk c n a vb so r :
  phase_switch (mkUS c n a vb so) r = if r =? so then mkUS n [] 0 0 0 else mkUS c n a vb so.
Proof. reflexivity. Qed.

Lemma eqb_false a b : a <> b -> (a =? b) = false.
Proof. apply N.eqb_neq. Qed.

Lemma step_from_quiescent cons B s r v s' :
  wf_cons cons B -> quiescent s -> 1 <= r -> r + B < W ->
  step cons s r v = UOk s' ->
  (quiescent s' /\ us_current s' = us_current s /\
   (v_propose v = [] \/ exists P, cons (us_current s) = Some P /\ up_voteRounds P = 0)) \/
  (exists P, cons (us_current s) = Some P /\ v_propose v <> [] /\
     up_minwait P <= v_delay v /\ v_delay v <= up_maxwait P /\
     let a := if v_approve v then 1 else 0 in
     ((s' = mkUS (us_current s) (v_propose v) a (r + up_voteRounds P)
                 (r + up_voteRounds P + eff_delay P (v_delay v)) /\
       r < r + up_voteRounds P + eff_delay P (v_delay v) /\
       (v_approve v = true -> 1 <= up_voteRounds P) /\
       (up_voteRounds P = 0 -> up_threshold P <= a)) \/
      (up_voteRounds P = 0 /\ eff_delay P (v_delay v) = 0 /\ up_threshold P = 0 /\
       v_approve v = false /\ s' = mkUS (v_propose v) [] 0 0 0))).
Proof.
  intros Hwf Hq Hr HB. rewrite (quiescent_eta s Hq). set (cur := us_current s).
  unfold step. cbn [us_current]. destruct (cons cur) as [P|] eqn:HP; [|discriminate].
  destruct (Hwf _ _ HP) as [Hb1 Hb2].
  rewrite phase_propose_mk. cbn [ver_empty negb].
  destruct (ver_empty (v_propose v)) eqn:Hpe; cbn [negb].
  - (* no proposal *)
    destruct (v_delay v =? 0); cbn [negb]; [|discriminate].
    rewrite phase_approve_mk. cbn [ver_empty].
    destruct (v_approve v); [discriminate|].
    rewrite phase_clear_mk. rewrite (eqb_false r 0) by lia. cbn [andb].
    rewrite phase_switch_mk. rewrite (eqb_false r 0) by lia.
    intros H. inversion H; subst s'. left. apply ver_empty_nil in Hpe.
    unfold quiescent. cbn. auto.
  - (* proposal *)
    apply ver_empty_false in Hpe.
    destruct (up_maxlen P <? Z.of_nat (length (v_propose v)))%Z; [discriminate|].
    destruct (N.ltb_spec (up_maxwait P) (v_delay v)) as [Hmx|Hmx]; cbn [orb]; [discriminate|].
    destruct (N.ltb_spec (v_delay v) (up_minwait P)) as [Hmn|Hmn]; [discriminate|].
    set (d := eff_delay P (v_delay v)).
    assert (Hd : d <= up_maxwait P \/ d = up_defwait P).
    { subst d. unfold eff_delay. destruct (v_delay v =? 0); [right; reflexivity|left; exact Hmx]. }
    assert (Hsum : r + up_voteRounds P + d < W) by (destruct Hd; lia).
    rewrite (wadd_small r (up_voteRounds P)) by lia.
    rewrite (wadd_small (r + up_voteRounds P) d) by lia.
    rewrite phase_approve_mk.
    replace (ver_empty (v_propose v)) with false by (symmetry; apply ver_empty_false; exact Hpe).
    destruct (v_approve v) eqn:Ha.
    + (* with approval: needs r < r + VR *)
      destruct (N.leb_spec (r + up_voteRounds P) r) as [Hl|Hl]; [discriminate|].
      rewrite (wadd_small 0 1) by (pose proof W_pos; lia).
      rewrite phase_clear_mk. rewrite (eqb_false r (r + up_voteRounds P)) by lia. cbn [andb].
      rewrite phase_switch_mk. rewrite (eqb_false r (r + up_voteRounds P + d)) by lia.
      intros H. inversion H; subst s'. right. exists P.
      split; [reflexivity|]. split; [exact Hpe|]. split; [exact Hmn|]. split; [exact Hmx|].
      left. split; [reflexivity|]. split; [lia|]. split; [lia|]. intros; lia.
    + rewrite phase_clear_mk.
      destruct (N.eqb_spec r (r + up_voteRounds P)) as [Hvb|Hvb]; cbn [andb].
      * assert (HVR : up_voteRounds P = 0) by lia.
        destruct (N.ltb_spec 0 (up_threshold P)) as [Hth|Hth].
        -- (* failed at once *)
           rewrite phase_switch_mk. rewrite (eqb_false r 0) by lia.
           intros H. inversion H; subst s'. left. unfold quiescent. cbn.
           split; [auto|]. split; [reflexivity|]. right. exists P. auto.
        -- rewrite phase_switch_mk.
           destruct (N.eqb_spec r (r + up_voteRounds P + d)) as [Hso|Hso].
           ++ intros H. inversion H; subst s'. right. exists P.
              split; [reflexivity|]. split; [exact Hpe|]. split; [exact Hmn|]. split; [exact Hmx|].
              right. split; [exact HVR|]. split; [lia|]. split; [lia|]. auto.
           ++ intros H. inversion H; subst s'. right. exists P.
              split; [reflexivity|]. split; [exact Hpe|]. split; [exact Hmn|]. split; [exact Hmx|].
              left. split; [reflexivity|]. split; [lia|]. split; [congruence|]. intros; lia.
      * rewrite phase_switch_mk. rewrite (eqb_false r (r + up_voteRounds P + d)) by lia.
        intros H. inversion H; subst s'. right. exists P.
        split; [reflexivity|]. split; [exact Hpe|]. split; [exact Hmn|]. split; [exact Hmx|].
        left. split; [reflexivity|]. split; [lia|]. split; [congruence|]. intros; lia.
Qed.

(* ---------- what an accepted step does while a proposal is pending ---------- *)
Lemma step_from_pending cons s r v s' P :
  PendingOK cons s r P -> 1 <= r -> r + 1 < W ->
  step cons s r v = UOk s' ->
  v_propose v = [] /\ (v_approve v = true -> r < us_voteBefore s) /\
  let a := us_approvals s + (if v_approve v then 1 else 0) in
  ((r = us_voteBefore s /\ a < up_threshold P /\ s' = mkUS (us_current s) [] 0 0 0) \/
   (r = us_switchOn s /\ (r = us_voteBefore s -> up_threshold P <= a) /\
    s' = mkUS (us_next s) [] 0 0 0) \/
   (r < us_switchOn s /\ (r = us_voteBefore s -> up_threshold P <= a) /\
    s' = mkUS (us_current s) (us_next s) a (us_voteBefore s) (us_switchOn s))).
Proof.
  destruct s as [c n a vb so]. unfold PendingOK. cbn [us_current us_next us_approvals us_voteBefore us_switchOn].
  intros (Hn & HP & Hvs & Hrs & HsW & Har & Hth) Hr HrW.
  unfold step. cbn [us_current]. rewrite HP. rewrite phase_propose_mk.
  assert (Hne : ver_empty n = false) by (apply ver_empty_false; exact Hn).
  destruct (ver_empty (v_propose v)) eqn:Hpe; cbn [negb].
  2:{ rewrite Hne. cbn [negb]. discriminate. }
  apply ver_empty_nil in Hpe.
  destruct (v_delay v =? 0); cbn [negb]; [|discriminate].
  rewrite phase_approve_mk, Hne.
  assert (Hfin : forall a',
     a <= a' -> (vb < r -> a' = a) ->
     UOk (phase_switch (phase_clear P (mkUS c n a' vb so) r) r) = UOk s' ->
     (r = vb /\ a' < up_threshold P /\ s' = mkUS c [] 0 0 0) \/
     (r = so /\ (r = vb -> up_threshold P <= a') /\ s' = mkUS n [] 0 0 0) \/
     (r < so /\ (r = vb -> up_threshold P <= a') /\ s' = mkUS c n a' vb so)).
  { intros a' Ha' Hsame. rewrite phase_clear_mk.
    destruct (N.eqb_spec r vb) as [Hrv|Hrv]; cbn [andb].
    - destruct (N.ltb_spec a' (up_threshold P)) as [Hlt|Hge].
      + rewrite phase_switch_mk. rewrite (eqb_false r 0) by lia.
        intros H. inversion H; subst s'. left. auto.
      + rewrite phase_switch_mk. destruct (N.eqb_spec r so) as [Hso|Hso].
        * intros H. inversion H; subst s'. right. left. auto.
        * intros H. inversion H; subst s'. right. right. split; [lia|]. auto.
    - rewrite phase_switch_mk. destruct (N.eqb_spec r so) as [Hso|Hso].
      + intros H. inversion H; subst s'. right. left. split; [exact Hso|]. split; [intros; contradiction|reflexivity].
      + intros H. inversion H; subst s'. right. right. split; [lia|]. split; [intros; contradiction|reflexivity]. }
  destruct (v_approve v) eqn:Hap.
  - destruct (N.leb_spec vb r) as [Hl|Hl]; [discriminate|].
    rewrite (wadd_small a 1) by lia.
    intros H. split; [exact Hpe|]. split; [intros _; exact Hl|].
    cbv zeta. apply Hfin; [lia|lia|exact H].
  - intros H. split; [exact Hpe|]. split; [discriminate|].
    cbv zeta. rewrite N.add_0_r. apply Hfin; [lia|reflexivity|exact H].
Qed.

(* the invariant is preserved by the "continue" and the "proposal accepted" outcomes *)
Lemma pending_continue cons s r P a :
  PendingOK cons s r P -> r < us_switchOn s ->
  us_approvals s <= a -> a <= us_approvals s + 1 -> (us_voteBefore s < r -> a = us_approvals s) ->
  (r = us_voteBefore s -> up_threshold P <= a) ->
  PendingOK cons (mkUS (us_current s) (us_next s) a (us_voteBefore s) (us_switchOn s)) (r + 1) P.
Proof.
  unfold PendingOK. cbn [us_current us_next us_approvals us_voteBefore us_switchOn].
  intros (Hn & HP & Hvs & Hrs & HsW & Har & Hth) Hlt Ha1 Ha2 Hsame Hdead.
  repeat split; try assumption; try lia.
Qed.

Lemma pending_after_proposal cons B c P r v :
  wf_cons cons B -> cons c = Some P -> r + 1 + B < W ->
  v_propose v <> [] -> v_delay v <= up_maxwait P ->
  r < r + up_voteRounds P + eff_delay P (v_delay v) ->
  (up_voteRounds P = 0 -> up_threshold P <= (if v_approve v then 1 else 0)) ->
  PendingOK cons (mkUS c (v_propose v) (if v_approve v then 1 else 0) (r + up_voteRounds P)
                       (r + up_voteRounds P + eff_delay P (v_delay v))) (r + 1) P.
Proof.
  intros Hwf HP HB Hpe Hmx Hlt Hth. destruct (Hwf _ _ HP) as [Hb1 Hb2].
  unfold PendingOK. cbn [us_current us_next us_approvals us_voteBefore us_switchOn].
  assert (Hd : eff_delay P (v_delay v) <= up_maxwait P \/ eff_delay P (v_delay v) = up_defwait P).
  { unfold eff_delay. destruct (v_delay v =? 0); [right; reflexivity|left; exact Hmx]. }
  split; [exact Hpe|]. split; [exact HP|]. split; [lia|]. split; [lia|].
  split; [destruct Hd; lia|]. split; [destruct (v_approve v); lia|].
  intros Hv. apply Hth. lia.
Qed.

(* ---------- every switch in every history is justified ---------- *)
Lemma sj_shift cons r v vs s0 bef' k sk sk' :
  switch_justified cons (r + 1) vs bef' k sk sk' ->
  switch_justified cons r (v :: vs) (s0 :: bef') (S k) sk sk'.
Proof.
  intros (j & vp & P & Hjk & Hv & HP & Hprop & Hne & Hmn & Hmx & Hk & Hth & Hbj & Hbetween).
  exists (S j), vp, P.
  split; [lia|]. split; [exact Hv|]. split; [exact HP|]. split; [exact Hprop|].
  split; [exact Hne|]. split; [exact Hmn|]. split; [exact Hmx|].
  split; [lia|]. split; [exact Hth|]. split; [exact Hbj|].
  intros i si Hi Hnth. destruct i as [|i]; [lia|]. cbn [nth_error] in Hnth.
  destruct (Hbetween i si ltac:(lia) Hnth) as (A & B & C & D).
  split; [exact A|]. split; [exact B|]. split; lia.
Qed.

Lemma quiescent_mk c : quiescent (mkUS c [] 0 0 0).
Proof. unfold quiescent. cbn. auto. Qed.

Lemma switch_classified cons B : wf_cons cons B ->
  forall vs s r sts,
  1 <= r -> r + N.of_nat (length vs) + B < W ->
  trace cons s r vs = Some sts ->
  forall k sk sk',
    nth_error (s :: sts) k = Some sk -> nth_error sts k = Some sk' ->
    us_current sk' <> us_current sk ->
    (quiescent s -> switch_justified cons r vs (s :: sts) k sk sk') /\
    (forall P, PendingOK cons s r P ->
       concl_pending r vs s (s :: sts) k sk' P \/ switch_justified cons r vs (s :: sts) k sk sk').
Proof.
  intros Hwf. induction vs as [|v vs IH]; intros s r sts Hr HB Htr k sk sk' Hk Hk' Hchg.
  { cbn in Htr. inversion Htr; subst sts. destruct k; discriminate. }
  cbn [trace] in Htr. destruct (step cons s r v) as [s1|] eqn:Hstep; [|discriminate].
  destruct (trace cons s1 (r + 1) vs) as [l|] eqn:Hl; [|discriminate].
  inversion Htr; subst sts. clear Htr.
  cbn [length] in HB.
  assert (HB' : r + 1 + N.of_nat (length vs) + B < W) by lia.
  destruct k as [|k].
  - (* the first block of this suffix switches *)
    cbn [nth_error] in Hk, Hk'. inversion Hk; subst sk. inversion Hk'; subst sk'. clear Hk Hk'.
    split.
    + intros Hq.
      destruct (step_from_quiescent cons B s r v s1 Hwf Hq Hr ltac:(lia) Hstep)
        as [(_ & Hsame & _)|(P & HP & Hpe & Hmn & Hmx & Hcase)]; [congruence|].
      cbv zeta in Hcase. destruct Hcase as [(Hs1 & _)|(HVR & Hd & Hth & Hap & Hs1)].
      * subst s1. cbn in Hchg. congruence.
      * subst s1. exists 0%nat, v, P.
        split; [lia|]. split; [reflexivity|]. split; [exact HP|]. split; [reflexivity|].
        split; [exact Hpe|]. split; [exact Hmn|]. split; [exact Hmx|].
        split; [cbn; lia|]. split; [lia|]. split.
        -- intros sj Hsj. cbn in Hsj. inversion Hsj; subst sj. destruct Hq as (Hq1 & _). auto.
        -- intros i si Hi. lia.
    + intros P HPok.
      destruct (step_from_pending cons s r v s1 P HPok Hr ltac:(lia) Hstep) as (Hpe & Hap & Hcase).
      cbv zeta in Hcase. destruct HPok as (Hn & HP & Hvs & Hrs & HsW & Har & Hth).
      destruct Hcase as [(_ & _ & Hs1)|[(Hso & Hdead & Hs1)|(_ & _ & Hs1)]];
        subst s1; cbn [us_current] in Hchg; try congruence.
      left. unfold concl_pending. cbn [us_current].
      split; [cbn; lia|]. split; [reflexivity|]. split.
      * destruct (N.eq_dec r (us_voteBefore s)) as [E|E].
        -- specialize (Hdead E). destruct (v_approve v) eqn:Hv; [specialize (Hap eq_refl); lia|].
           rewrite <- E, N.sub_diag. cbn. lia.
        -- assert (Hlt : us_voteBefore s < r) by lia. specialize (Hth Hlt).
           replace (us_voteBefore s - r) with 0 by lia. cbn. lia.
      * intros i si Hi Hnth. assert (i = 0%nat) by lia. subst i. cbn in Hnth.
        inversion Hnth; subst si. auto.
  - (* a later block switches: use the induction hypothesis on the rest *)
    cbn [nth_error] in Hk, Hk'.
    assert (Hr' : 1 <= r + 1) by lia.
    destruct (IH s1 (r + 1) l Hr' HB' Hl k sk sk' Hk Hk' Hchg) as [IHq IHp].
    split.
    + intros Hq.
      destruct (step_from_quiescent cons B s r v s1 Hwf Hq Hr ltac:(lia) Hstep)
        as [(Hq1 & _ & _)|(P & HP & Hpe & Hmn & Hmx & Hcase)].
      * apply sj_shift. apply IHq. exact Hq1.
      * cbv zeta in Hcase. destruct Hcase as [(Hs1 & Hlt & Hap & Hth0)|(_ & _ & _ & _ & Hs1)].
        -- assert (HPok : PendingOK cons s1 (r + 1) P).
           { subst s1. apply (pending_after_proposal cons B); auto. lia. }
           destruct (IHp P HPok) as [Hcp|Hsj]; [|apply sj_shift; exact Hsj].
           (* the proposal made by block 0 of this suffix is the one that switches *)
           destruct Hcp as (Hso & Hcur & Hthr & Hbetween).
           subst s1. cbn [us_current us_next us_approvals us_voteBefore us_switchOn] in *.
           exists 0%nat, v, P.
           split; [lia|]. split; [reflexivity|].
           assert (Hcsk : us_current sk = us_current s).
           { destruct (Hbetween k sk ltac:(lia) Hk) as (A & _). exact A. }
           split; [rewrite Hcsk; exact HP|]. split; [symmetry; exact Hcur|].
           split; [exact Hpe|]. split; [exact Hmn|]. split; [exact Hmx|].
           split; [lia|]. split.
           ++ unfold window. cbn [skipn].
              destruct (N.eq_dec (up_voteRounds P) 0) as [E|E].
              ** rewrite E in *. cbn. specialize (Hth0 eq_refl).
                 replace (r + 0 - (r + 1)) with 0 in Hthr by lia. cbn in Hthr.
                 destruct (v_approve v); [specialize (Hap eq_refl); lia|lia].
              ** replace (N.to_nat (up_voteRounds P)) with (S (N.to_nat (up_voteRounds P - 1))) by lia.
                 cbn [firstn count_approve].
                 replace (r + up_voteRounds P - (r + 1)) with (up_voteRounds P - 1) in Hthr by lia.
                 exact Hthr.
           ++ split.
              ** intros sj Hsj. cbn in Hsj. inversion Hsj; subst sj. destruct Hq as (Hq1 & _). auto.
              ** intros i si Hi Hnth. destruct i as [|i]; [lia|]. cbn [nth_error] in Hnth.
                 destruct (Hbetween i si ltac:(lia) Hnth) as (A & B' & C & D).
                 split; [congruence|]. split; [exact B'|]. split; [rewrite C; cbn; lia|]. rewrite D. lia.
        -- apply sj_shift. apply IHq. subst s1. apply quiescent_mk.
    + intros P HPok.
      destruct (step_from_pending cons s r v s1 P HPok Hr ltac:(lia) Hstep) as (Hpe & Hap & Hcase).
      cbv zeta in Hcase.
      destruct Hcase as [(_ & _ & Hs1)|[(_ & _ & Hs1)|(Hlt & Hdead & Hs1)]].
      * right. apply sj_shift. apply IHq. subst s1. apply quiescent_mk.
      * right. apply sj_shift. apply IHq. subst s1. apply quiescent_mk.
      * assert (HPok1 : PendingOK cons s1 (r + 1) P).
        { subst s1. apply pending_continue; auto.
          - lia.
          - destruct (v_approve v); lia.
          - intros Hv. destruct (v_approve v); [specialize (Hap eq_refl); lia|lia]. }
        destruct (IHp P HPok1) as [Hcp|Hsj]; [|right; apply sj_shift; exact Hsj].
        left. destruct Hcp as (Hso & Hcur & Hthr & Hbetween).
        subst s1. cbn [us_current us_next us_approvals us_voteBefore us_switchOn] in *.
        unfold concl_pending. split; [lia|]. split; [exact Hcur|]. split.
        -- destruct (N.ltb_spec r (us_voteBefore s)) as [Hin|Hout].
           ++ replace (N.to_nat (us_voteBefore s - r)) with (S (N.to_nat (us_voteBefore s - (r + 1)))) by lia.
              cbn [firstn count_approve]. lia.
           ++ replace (us_voteBefore s - r) with 0 by lia.
              replace (us_voteBefore s - (r + 1)) with 0 in Hthr by lia. cbn in *.
              destruct (v_approve v); [specialize (Hap eq_refl); lia|lia].
        -- intros i si Hi Hnth. destruct i as [|i].
           ++ cbn in Hnth. inversion Hnth; subst si. auto.
           ++ cbn [nth_error] in Hnth. apply (Hbetween i si); [lia|exact Hnth].
Qed.

(* ---------- one proposal at a time (holds of every accepted step, any state) ---------- *)
Lemma step_one_pending cons s r v s' :
  step cons s r v = UOk s' -> v_propose v <> [] -> us_next s = [].
Proof.
  destruct s as [c n a vb so]. unfold step. cbn [us_current us_next].
  destruct (cons c) as [P|]; [|discriminate]. rewrite phase_propose_mk.
  intros H Hpe. apply ver_empty_false in Hpe. rewrite Hpe in H. cbn [negb] in H.
  destruct (ver_empty n) eqn:Hn; [apply ver_empty_nil; exact Hn|]. cbn [negb] in H. discriminate.
Qed.

Lemma step_pending_stable cons s r v s' :
  step cons s r v = UOk s' -> us_next s <> [] -> us_next s' <> [] ->
  us_next s' = us_next s /\ us_voteBefore s' = us_voteBefore s /\
  us_switchOn s' = us_switchOn s /\ us_current s' = us_current s.
Proof.
  destruct s as [c n a vb so]. unfold step. cbn [us_current us_next us_voteBefore us_switchOn].
  destruct (cons c) as [P|]; [|discriminate]. rewrite phase_propose_mk.
  intros H Hn Hn'. assert (Hne : ver_empty n = false) by (apply ver_empty_false; exact Hn).
  rewrite Hne in H. cbn [negb] in H.
  destruct (ver_empty (v_propose v)); cbn [negb] in H; [|discriminate].
  destruct (v_delay v =? 0); cbn [negb] in H; [|discriminate].
  rewrite phase_approve_mk, Hne in H.
  assert (Hfin : forall a', UOk (phase_switch (phase_clear P (mkUS c n a' vb so) r) r) = UOk s' ->
            us_next s' = n /\ us_voteBefore s' = vb /\ us_switchOn s' = so /\ us_current s' = c).
  { intros a'. rewrite phase_clear_mk.
    destruct ((r =? vb) && (a' <? up_threshold P)); rewrite phase_switch_mk.
    - destruct (r =? 0); intros E; inversion E; subst s'; cbn in Hn'; congruence.
    - destruct (r =? so); intros E; inversion E; subst s'; cbn in *; [congruence|auto]. }
  destruct (v_approve v).
  - destruct (vb <=? r); [discriminate|]. apply Hfin in H. exact H.
  - apply Hfin in H. exact H.
Qed.

(* ---------- the trace is the sequence of steps ---------- *)
Lemma trace_nth cons : forall vs s r sts k sk sk' v,
  trace cons s r vs = Some sts ->
  nth_error (s :: sts) k = Some sk -> nth_error sts k = Some sk' -> nth_error vs k = Some v ->
  step cons sk (r + N.of_nat k) v = UOk sk'.
Proof.
  induction vs as [|v0 vs IH]; intros s r sts k sk sk' v Htr Hk Hk' Hv.
  { destruct k; discriminate. }
  cbn [trace] in Htr. destruct (step cons s r v0) as [s1|] eqn:Hstep; [|discriminate].
  destruct (trace cons s1 (r + 1) vs) as [l|] eqn:Hl; [|discriminate].
  inversion Htr; subst sts. destruct k as [|k]; cbn [nth_error] in *.
  - inversion Hk; inversion Hk'; inversion Hv; subst. rewrite N.add_0_r. exact Hstep.
  - replace (r + N.of_nat (S k)) with (r + 1 + N.of_nat k) by lia.
    eapply IH; eassumption.
Qed.

Lemma trace_length cons : forall vs s r sts, trace cons s r vs = Some sts -> length sts = length vs.
Proof.
  induction vs as [|v0 vs IH]; intros s r sts Htr; cbn [trace] in Htr.
  - inversion Htr. reflexivity.
  - destruct (step cons s r v0) as [s1|]; [|discriminate].
    destruct (trace cons s1 (r + 1) vs) as [l|] eqn:Hl; [|discriminate].
    inversion Htr; subst sts. cbn. f_equal. eapply IH. exact Hl.
Qed.

(* ---------- the whole property on every accepted history ---------- *)
Theorem trace_hist_ok cons B s0 r0 vs sts :
  wf_cons cons B -> quiescent s0 -> 1 <= r0 -> r0 + N.of_nat (length vs) + B < W ->
  trace cons s0 r0 vs = Some sts ->
  hist_ok cons r0 s0 vs sts.
Proof.
  intros Hwf Hq Hr HB Htr k s s' v Hk Hk' Hv.
  pose proof (trace_nth cons vs s0 r0 sts k s s' v Htr Hk Hk' Hv) as Hstep.
  split; [|split].
  - intros Hchg.
    destruct (switch_classified cons B Hwf vs s0 r0 sts Hr HB Htr k s s' Hk Hk' Hchg) as [H _].
    apply H. exact Hq.
  - apply (step_one_pending _ _ _ _ _ Hstep).
  - apply (step_pending_stable _ _ _ _ _ Hstep).
Qed.

(* a history that starts in the middle of a vote: the first switch is that of the pending
   proposal (at its announced round, with the threshold reached over the whole window: the
   approvals already counted plus those still to come), every later one is justified inside
   the history *)
Theorem trace_from_pending cons B s0 r0 vs sts P :
  wf_cons cons B -> PendingOK cons s0 r0 P -> 1 <= r0 -> r0 + N.of_nat (length vs) + B < W ->
  trace cons s0 r0 vs = Some sts ->
  forall k s s', nth_error (s0 :: sts) k = Some s -> nth_error sts k = Some s' ->
    us_current s' <> us_current s ->
    concl_pending r0 vs s0 (s0 :: sts) k s' P \/ switch_justified cons r0 vs (s0 :: sts) k s s'.
Proof.
  intros Hwf HP Hr HB Htr k s s' Hk Hk' Hchg.
  destruct (switch_classified cons B Hwf vs s0 r0 sts Hr HB Htr k s s' Hk Hk' Hchg) as [_ H].
  apply H. exact HP.
Qed.
