(* C26 lemmas: the upgrade state machine (model/Upgrade.v) against the history property of
   model/UpgradeSpec.v, for every consensus table and every list of votes. *)
From Coq Require Import NArith ZArith List Bool Lia ZifyN ZifyNat ZifyBool Arith.
From Verif.lib Require Import Term.
From Verif.model Require Import Upgrade UpgradeSpec.
Import ListNotations.
Open Scope N_scope.

(* ---------- versions ---------- *)
Lemma list_eqb_N_spec : forall a b : list N, list_eqb N.eqb a b = true <-> a = b.
Proof.
  induction a as [|x a IH]; intros [|y b]; cbn; split; intros H; try reflexivity; try discriminate.
  - apply andb_true_iff in H. destruct H as [H1 H2]. apply N.eqb_eq in H1. apply IH in H2.
    subst. reflexivity.
  - inversion H; subst. rewrite N.eqb_refl. cbn. apply IH. reflexivity.
Qed.

Lemma ver_eqb_eq a b : ver_eqb a b = true <-> a = b.
Proof. apply list_eqb_N_spec. Qed.

Lemma ver_eqb_refl a : ver_eqb a a = true.
Proof. apply ver_eqb_eq. reflexivity. Qed.

Lemma ver_eqb_neq a b : ver_eqb a b = false <-> a <> b.
Proof.
  split.
  - intros H E. apply ver_eqb_eq in E. congruence.
  - intros H. destruct (ver_eqb a b) eqn:E; [apply ver_eqb_eq in E; contradiction|reflexivity].
Qed.

Lemma ver_empty_nil v : ver_empty v = true <-> v = [].
Proof. destruct v; cbn; split; intros; congruence. Qed.

Lemma ver_empty_false v : ver_empty v = false <-> v <> [].
Proof. destruct v; cbn; split; intros; congruence. Qed.

Lemma W_val : W = 2 ^ 64. Proof. reflexivity. Qed.
Lemma W_pos : 0 < W. Proof. reflexivity. Qed.
Global Opaque W.

Lemma wadd_small a b : a + b < W -> wadd a b = a + b.
Proof. intros H. unfold wadd. apply N.mod_small. exact H. Qed.

(* ---------- what an accepted step does, from a quiescent state ---------- *)
Definition PendingOK (cons : consensus) (s : ustate) (r : N) (P : uparams) : Prop :=
  us_next s <> [] /\ cons (us_current s) = Some P /\
  us_voteBefore s <= us_switchOn s /\ r <= us_switchOn s /\ us_switchOn s < W /\
  us_approvals s <= r /\
  (us_voteBefore s < r -> up_threshold P <= us_approvals s).

Lemma quiescent_eta s : quiescent s -> s = mkUS (us_current s) [] 0 0 0.
Proof. destruct s; cbn. intros (A & B & C & D); cbn in *. subst. reflexivity. Qed.

(* the phases on explicit records (all by computation) *)
Lemma phase_propose_mk P c n a vb so r v :
  phase_propose P (mkUS c n a vb so) r v =
  if negb (ver_empty (v_propose v)) then
    if negb (ver_empty n) then UErr EProposalDuringProposal
    else if (up_maxlen P <? Z.of_nat (length (v_propose v)))%Z then UErr ETooLong
    else if (up_maxwait P <? v_delay v) || (v_delay v <? up_minwait P) then UErr EDelayRange
    else UOk (mkUS c (v_propose v) 0 (wadd r (up_voteRounds P))
                   (wadd (wadd r (up_voteRounds P)) (eff_delay P (v_delay v))))
  else if negb (v_delay v =? 0) then UErr EDelayNonzero
  else UOk (mkUS c n a vb so).
Proof. reflexivity. Qed.

Lemma phase_approve_mk c n a vb so r v :
  phase_approve (mkUS c n a vb so) r v =
  if v_approve v then
    if ver_empty n then UErr EApproveNoProposal
    else if vb <=? r then UErr EApproveLate
    else UOk (mkUS c n (wadd a 1) vb so)
  else UOk (mkUS c n a vb so).
Proof. reflexivity. Qed.

Lemma phase_clear_mk P c n a vb so r :
  phase_clear P (mkUS c n a vb so) r =
  if (r =? vb) && (a <? up_threshold P) then mkUS c [] 0 0 0 else mkUS c n a vb so.
Proof. reflexivity. Qed.

Lemma phase_switch_mk c n a vb so r :
  phase_switch (mkUS c n a vb so) r = if r =? so then mkUS n [] 0 0 0 else mkUS c n a vb so.
Proof. reflexivity. Qed.

Lemma eqb_false a b : a <> b -> (a =? b) = false.
Proof. apply N.eqb_neq. Qed.

Lemma step_from_quiescent cons B s r v s' :
  wf_cons cons B -> quiescent s -> 1 <= r -> r + B < W ->
  step cons s r v = UOk s' ->
  (quiescent s' /\ us_current s' = us_current s /\
   (v_propose v = [] \/ exists P, cons (us_current s) = Some P /\ up_voteRounds P = 0)) \/
  (exists P, cons (us_current s) = Some P /\ v_propose v <> [] /\
     up_minwait P <= v_delay v /\ v_delay v <= up_maxwait P /\
     let a := if v_approve v then 1 else 0 in
     ((s' = mkUS (us_current s) (v_propose v) a (r + up_voteRounds P)
                 (r + up_voteRounds P + eff_delay P (v_delay v)) /\
       r < r + up_voteRounds P + eff_delay P (v_delay v) /\
       (v_approve v = true -> 1 <= up_voteRounds P) /\
       (up_voteRounds P = 0 -> up_threshold P <= a)) \/
      (up_voteRounds P = 0 /\ eff_delay P (v_delay v) = 0 /\ up_threshold P = 0 /\
       v_approve v = false /\ s' = mkUS (v_propose v) [] 0 0 0))).
Proof.
  intros Hwf Hq Hr HB. rewrite (quiescent_eta s Hq). set (cur := us_current s).
  unfold step. cbn [us_current]. destruct (cons cur) as [P|] eqn:HP; [|discriminate].
  destruct (Hwf _ _ HP) as [Hb1 Hb2].
  rewrite phase_propose_mk. cbn [ver_empty negb].
  destruct (ver_empty (v_propose v)) eqn:Hpe; cbn [negb].
  - (* no proposal *)
    destruct (v_delay v =? 0); cbn [negb]; [|discriminate].
    rewrite phase_approve_mk. cbn [ver_empty].
    destruct (v_approve v); [discriminate|].
    rewrite phase_clear_mk. rewrite (eqb_false r 0) by lia. cbn [andb].
    rewrite phase_switch_mk. rewrite (eqb_false r 0) by lia.
    intros H. inversion H; subst s'. left. apply ver_empty_nil in Hpe.
    unfold quiescent. cbn. auto.
  - (* proposal *)
    apply ver_empty_false in Hpe.
    destruct (up_maxlen P <? Z.of_nat (length (v_propose v)))%Z; [discriminate|].
    destruct (N.ltb_spec (up_maxwait P) (v_delay v)) as [Hmx|Hmx]; cbn [orb]; [discriminate|].
    destruct (N.ltb_spec (v_delay v) (up_minwait P)) as [Hmn|Hmn]; [discriminate|].
    set (d := eff_delay P (v_delay v)).
    assert (Hd : d <= up_maxwait P \/ d = up_defwait P).
    { subst d. unfold eff_delay. destruct (v_delay v =? 0); [right; reflexivity|left; exact Hmx]. }
    assert (Hsum : r + up_voteRounds P + d < W) by (destruct Hd; lia).
    rewrite (wadd_small r (up_voteRounds P)) by lia.
    rewrite (wadd_small (r + up_voteRounds P) d) by lia.
    rewrite phase_approve_mk.
    replace (ver_empty (v_propose v)) with false by (symmetry; apply ver_empty_false; exact Hpe).
    destruct (v_approve v) eqn:Ha.
    + (* with approval: needs r < r + VR *)
      destruct (N.leb_spec (r + up_voteRounds P) r) as [Hl|Hl]; [discriminate|].
      rewrite (wadd_small 0 1) by (pose proof W_pos; lia).
      rewrite phase_clear_mk. rewrite (eqb_false r (r + up_voteRounds P)) by lia. cbn [andb].
      rewrite phase_switch_mk. rewrite (eqb_false r (r + up_voteRounds P + d)) by lia.
      intros H. inversion H; subst s'. right. exists P.
      split; [exact HP|]. split; [exact Hpe|]. split; [exact Hmn|]. split; [exact Hmx|].
      left. split; [reflexivity|]. split; [lia|]. split; [lia|]. intros; lia.
    + rewrite phase_clear_mk.
      destruct (N.eqb_spec r (r + up_voteRounds P)) as [Hvb|Hvb]; cbn [andb].
      * assert (HVR : up_voteRounds P = 0) by lia.
        destruct (N.ltb_spec 0 (up_threshold P)) as [Hth|Hth].
        -- (* failed at once *)
           rewrite phase_switch_mk. rewrite (eqb_false r 0) by lia.
           intros H. inversion H; subst s'. left. unfold quiescent. cbn.
           split; [auto|]. split; [reflexivity|]. right. exists P. auto.
        -- rewrite phase_switch_mk.
           destruct (N.eqb_spec r (r + up_voteRounds P + d)) as [Hso|Hso].
           ++ intros H. inversion H; subst s'. right. exists P.
              split; [exact HP|]. split; [exact Hpe|]. split; [exact Hmn|]. split; [exact Hmx|].
              right. split; [exact HVR|]. split; [lia|]. split; [lia|]. auto.
           ++ intros H. inversion H; subst s'. right. exists P.
              split; [exact HP|]. split; [exact Hpe|]. split; [exact Hmn|]. split; [exact Hmx|].
              left. split; [reflexivity|]. split; [lia|]. split; [congruence|]. intros; lia.
      * rewrite phase_switch_mk. rewrite (eqb_false r (r + up_voteRounds P + d)) by lia.
        intros H. inversion H; subst s'. right. exists P.
        split; [exact HP|]. split; [exact Hpe|]. split; [exact Hmn|]. split; [exact Hmx|].
        left. split; [reflexivity|]. split; [lia|]. split; [congruence|]. intros; lia.
Qed.
