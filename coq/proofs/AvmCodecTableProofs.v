(* C33: facts about the regenerated tables (decided by vm_compute) and the witnesses. *)
From Coq Require Import List NArith ZArith String Bool Arith Lia.
From Verif.lib Require Import Term.
From Verif.model Require Import AvmTypes AvmCodec AvmCodecCheck.
From Verif.gen Require Import AvmTables.
From Verif.proofs Require Import AvmCodecProofs.
Import ListNotations.
Open Scope N_scope.

(* a default value for every immediate kind (field immediates: the first named field) *)
Definition default_imm (im : immediate) : immv :=
  match kind_of (im_kind im) with
  | KByte => VByte (match gen_grp (im_group im) with f :: _ => fs_field f | [] => 0 end)
  | KLabel => VLabel (-3)%Z
  | KVLabel => VVLabel 70%Z
  | KInt => VInt 300
  | KBytes => VBytes [1; 2; 3]
  | KInts => VInts [0; 128; 18446744073709551615]
  | KBytess => VBytess [[]; [255]]
  | KLabels => VLabels [0; -5; 32767]%Z
  | KBad => VByte 0
  end.
Definition default_instr (s : opspec) : instr :=
  mkI (os_opcode s) (os_sub s) (map default_imm (os_imms s)).

(* the assemblable specs of version v: named direct entries without SubOps, named sub-opcodes *)
Definition table_specs (v : N) : list opspec :=
  flat_map (fun e : tentry =>
              let '(_, (i, subs)) := e in
              (match subs with
               | [] => if String.eqb (os_name (pool_get i)) "" then [] else [pool_get i]
               | _ => []
               end)
              ++ filter (fun s => os_hasop s && negb (String.eqb (os_name s) "")) (map pool_get subs))
           (version_table v).

Definition all_versions : list N := map N.of_nat (seq 0 (S (N.to_nat logic_version))).

(* every assemblable op of every version is a well-formed instruction of the codec, its
   encoding decodes back (strictly), and the table is consistent: the spec found at
   (opcode, sub) carries that opcode and sub *)
Definition op_covered (v : N) (s : opspec) : bool :=
  let i := default_instr s in
  c_wf_instr v i &&
  match dec_instr gen_tbl gen_grp true v 1000 (enc_instr i ++ [7]) with
  | Some (j, [7]) => AvmCodec.list_eqb N.eqb (enc_instr j) (enc_instr i)
  | _ => false
  end.
Definition all_ops_covered : bool :=
  forallb (fun v => forallb (op_covered v) (table_specs v)) all_versions.
Definition ops_counted : N :=
  fold_right (fun v acc => nlen (table_specs v) + acc) 0 all_versions.

Lemma all_ops_covered_true : all_ops_covered = true.
Proof. vm_compute. reflexivity. Qed.

Lemma ops_counted_positive : 2000 <= ops_counted.
Proof. vm_compute. discriminate. Qed.

Lemma table_op_wf : forall v s,
  In v all_versions -> In s (table_specs v) -> c_wf_instr v (default_instr s) = true.
Proof.
  intros v s Hv Hs. pose proof all_ops_covered_true as H. unfold all_ops_covered in H.
  rewrite forallb_forall in H. specialize (H v Hv). rewrite forallb_forall in H.
  specialize (H s Hs). unfold op_covered in H. apply andb_true_iff in H. tauto.
Qed.

(* ------------------------------------------------------------------ witnesses *)
(* a program with a sub-opcode instruction, multi-value pushints / pushbytess, a switch table,
   2-byte (v8) and varint (v13) branches *)
Definition demo_prog13 : list instr :=
  [ mkI 131 0 [VInts [1; 300; 18446744073709551615]];
    mkI 141 0 [VLabels [0; -6; 12]%Z];
    mkI 212 1 [];
    mkI 130 0 [VBytess [[]; [1; 2; 3]]];
    mkI 66 0 [VVLabel (-20)%Z];
    mkI 128 0 [VBytes [222; 173]];
    mkI 49 0 [VByte 16] ].

Lemma demo_prog13_wf : c_wf_prog 13 demo_prog13 = true.
Proof. vm_compute. reflexivity. Qed.

Lemma demo_prog13_bytes :
  enc_prog 13 demo_prog13 =
  [13; 131; 3; 1; 172; 2; 255; 255; 255; 255; 255; 255; 255; 255; 255; 1;
   141; 3; 0; 0; 255; 250; 0; 12; 212; 1; 130; 2; 0; 3; 1; 2; 3; 66; 39; 128; 2; 222; 173; 49; 16].
Proof. vm_compute. reflexivity. Qed.

Definition demo_prog8 : list instr :=
  [ mkI 66 0 [VLabel 3%Z]; mkI 129 0 [VInt 128]; mkI 64 0 [VLabel (-9)%Z] ].
Lemma demo_prog8_wf : c_wf_prog 8 demo_prog8 = true.
Proof. vm_compute. reflexivity. Qed.

(* the lax decoder (what Disassemble does) reads non-minimal varints; re-encoding differs *)
Lemma reencode_refuted_witness :
  c_dec_prog false [3; 129; 128; 0] = Some (3, [mkI 129 0 [VInt 0]]) /\
  enc_prog 3 [mkI 129 0 [VInt 0]] = [3; 129; 0].
Proof. vm_compute. auto. Qed.

Lemma reencode_refuted :
  exists b v p, bytes_ok b /\ c_dec_prog false b = Some (v, p) /\ enc_prog v p <> b.
Proof.
  exists [3; 129; 128; 0], 3, [mkI 129 0 [VInt 0]].
  destruct reencode_refuted_witness as [H1 H2]. split; [|split; auto].
  - repeat constructor.
  - rewrite H2. discriminate.
Qed.

(* ------------------------------------------------------------------ label layer *)
(* disassemble + assemble in the model *)
Definition c_reasm (b : list N) : ares :=
  match c_dis_sym false b with
  | Some (v, p, _) => c_asm_base v p (c_dis_labels v p)
  | None => AReject
  end.

(* "err / L1: intcblock 1 2 3 4 5 6 / intc 5": accepted (the label ends the dead code, so the
   block is registered), but the disassembly has no label L1 and is rejected *)
Definition deadcode_prog : list sinstr :=
  [ mkS 0 0 []; mkS 32 0 [SInts [1; 2; 3; 4; 5; 6]]; mkS 33 0 [SByte 5] ].

Lemma deadcode_witness :
  c_asm_base 8 deadcode_prog [1%nat] = AOk [8; 0; 32; 6; 1; 2; 3; 4; 5; 6; 33; 5] /\
  c_reasm [8; 0; 32; 6; 1; 2; 3; 4; 5; 6; 33; 5] = AReject /\
  c_asm_base 8 deadcode_prog [] = AReject.
Proof. vm_compute. auto. Qed.

Lemma roundtrip_deadcode_refuted :
  exists v p labs b, c_asm_base v p labs = AOk b /\ c_reasm b = AReject.
Proof.
  exists 8, deadcode_prog, [1%nat], [8; 0; 32; 6; 1; 2; 3; 4; 5; 6; 33; 5].
  destruct deadcode_witness as [H1 [H2 _]]. auto.
Qed.

(* label resolution on concrete layouts: a forward varint branch over 64 bytes needs a 2-byte
   offset, the back branch behind it one byte more than its distance suggests; re-assembling
   the disassembly reproduces the bytes *)
Definition branch_prog : list sinstr :=
  [ mkS 66 0 [SVLabel 2]; mkS 128 0 [SBytes (repeat 7 62)]; mkS 66 0 [SVLabel 0];
    mkS 141 0 [SLabels [0%nat; 4%nat; 1%nat]] ].
Lemma branch_witness :
  match c_asm_base 13 branch_prog [2%nat; 0%nat; 4%nat; 1%nat] with
  | AOk b => AvmCodecCheck.bytes_eqb (firstn 4 b) [13; 66; 128; 1] &&
             match c_reasm b with AOk b' => AvmCodecCheck.bytes_eqb b b' | _ => false end
  | _ => false
  end = true.
Proof. vm_compute. reflexivity. Qed.
