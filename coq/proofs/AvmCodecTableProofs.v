(* C33: facts about the regenerated tables (decided by vm_compute) and the witnesses. *)
From Coq Require Import List NArith ZArith String Bool Arith Lia.
From Verif.lib Require Import Term.
From Verif.model Require Import AvmTypes AvmCodec AvmCodecCheck.
From Verif.gen Require Import AvmTables.
From Verif.proofs Require Import AvmCodecProofs.
Import ListNotations.
Open Scope N_scope.

(* a default value for every immediate kind (field immediates: the first named field) *)
Definition default_imm (im : immediate) : immv :=
  match kind_of (im_kind im) with
  | KByte => VByte (match gen_grp (im_group im) with f :: _ => fs_field f | [] => 0 end)
  | KLabel => VLabel (-3)%Z
  | KVLabel => VVLabel 70%Z
  | KInt => VInt 300
  | KBytes => VBytes [1; 2; 3]
  | KInts => VInts [0; 128; 18446744073709551615]
  | KBytess => VBytess [[]; [255]]
  | KLabels => VLabels [0; -5; 32767]%Z
  | KBad => VByte 0
  end.
Definition default_instr (s : opspec) : instr :=
  mkI (os_opcode s) (os_sub s) (map default_imm (os_imms s)).

(* the assemblable specs of version v: named direct entries without SubOps, named sub-opcodes *)
Definition table_specs (v : N) : list opspec :=
  flat_map (fun e : tentry =>
              let '(_, (i, subs)) := e in
              (match subs with
               | [] => if String.eqb (os_name (pool_get i)) "" then [] else [pool_get i]
               | _ => []
               end)
              ++ filter (fun s => os_hasop s && negb (String.eqb (os_name s) "")) (map pool_get subs))
           (version_table v).

Definition all_versions : list N := map N.of_nat (seq 0 (S (N.to_nat logic_version))).

(* every assemblable op of every version is a well-formed instruction of the codec, its
   encoding decodes back (strictly), and the table is consistent: the spec found at
   (opcode, sub) carries that opcode and sub *)
Definition op_covered (v : N) (s : opspec) : bool :=
  let i := default_instr s in
  c_wf_instr v i &&
  match dec_instr gen_tbl gen_grp true v 1000 (enc_instr i ++ [7]) with
  | Some (j, [7]) => AvmCodec.list_eqb N.eqb (enc_instr j) (enc_instr i)
  | _ => false
  end.
Definition all_ops_covered : bool :=
  forallb (fun v => forallb (op_covered v) (table_specs v)) all_versions.
Definition ops_counted : N :=
  fold_right (fun v acc => nlen (table_specs v) + acc) 0 all_versions.

Lemma all_ops_covered_true : all_ops_covered = true.
Proof. vm_compute. reflexivity. Qed.

Lemma ops_counted_positive : 2000 <= ops_counted.
Proof. vm_compute. discriminate. Qed.

Lemma table_op_wf : forall v s,
  In v all_versions -> In s (table_specs v) -> c_wf_instr v (default_instr s) = true.
Proof.
  intros v s Hv Hs. pose proof all_ops_covered_true as H. unfold all_ops_covered in H.
  rewrite forallb_forall in H. specialize (H v Hv). rewrite forallb_forall in H.
  specialize (H s Hs). unfold op_covered in H. apply andb_true_iff in H. tauto.
Qed.

(* ------------------------------------------------------------------ witnesses *)
(* a program with a sub-opcode instruction, multi-value pushints / pushbytess, a switch table,
   2-byte (v8) and varint (v13) branches *)
Definition demo_prog13 : list instr :=
  [ mkI 131 0 [VInts [1; 300; 18446744073709551615]];
    mkI 141 0 [VLabels [0; -6; 12]%Z];
    mkI 212 1 [];
    mkI 130 0 [VBytess [[]; [1; 2; 3]]];
    mkI 66 0 [VVLabel (-20)%Z];
    mkI 128 0 [VBytes [222; 173]];
    mkI 49 0 [VByte 16] ].

Lemma demo_prog13_wf : c_wf_prog 13 demo_prog13 = true.
Proof. vm_compute. reflexivity. Qed.

Lemma demo_prog13_bytes :
  enc_prog 13 demo_prog13 =
  [13; 131; 3; 1; 172; 2; 255; 255; 255; 255; 255; 255; 255; 255; 255; 1;
   141; 3; 0; 0; 255; 250; 0; 12; 212; 1; 130; 2; 0; 3; 1; 2; 3; 66; 39; 128; 2; 222; 173; 49; 16].
Proof. vm_compute. reflexivity. Qed.

Definition demo_prog8 : list instr :=
  [ mkI 66 0 [VLabel 3%Z]; mkI 129 0 [VInt 128]; mkI 64 0 [VLabel (-9)%Z] ].
Lemma demo_prog8_wf : c_wf_prog 8 demo_prog8 = true.
Proof. vm_compute. reflexivity. Qed.

(* the lax decoder (what Disassemble does) reads non-minimal varints; re-encoding differs *)
Lemma reencode_refuted_witness :
  c_dec_prog false [3; 129; 128; 0] = Some (3, [mkI 129 0 [VInt 0]]) /\
  enc_prog 3 [mkI 129 0 [VInt 0]] = [3; 129; 0].
Proof. vm_compute. auto. Qed.

Lemma reencode_refuted :
  exists b v p, bytes_ok b /\ c_dec_prog false b = Some (v, p) /\ enc_prog v p <> b.
Proof.
  exists [3; 129; 128; 0], 3, [mkI 129 0 [VInt 0]].
  destruct reencode_refuted_witness as [H1 H2]. split; [|split; auto].
  - repeat constructor.
  - rewrite H2. discriminate.
Qed.

(* ------------------------------------------------------------------ label layer *)
(* disassemble + assemble in the model *)
Definition c_reasm (b : list N) : ares :=
  match c_dis_sym false b with
  | Some (v, p, _) => c_asm_base v p (c_dis_labels v p)
  | None => AReject
  end.

(* "err / L1: intcblock 1 2 3 4 5 6 / intc 5": accepted (the label ends the dead code, so the
   block is registered), but the disassembly has no label L1 and is rejected *)
Definition deadcode_prog : list sinstr :=
  [ mkS 0 0 []; mkS 32 0 [SInts [1; 2; 3; 4; 5; 6]]; mkS 33 0 [SByte 5] ].

Lemma deadcode_witness :
  c_asm_base 8 deadcode_prog [1%nat] = AOk [8; 0; 32; 6; 1; 2; 3; 4; 5; 6; 33; 5] /\
  c_reasm [8; 0; 32; 6; 1; 2; 3; 4; 5; 6; 33; 5] = AReject /\
  c_asm_base 8 deadcode_prog [] = AReject.
Proof. vm_compute. auto. Qed.

Lemma roundtrip_deadcode_refuted :
  exists v p labs b, c_asm_base v p labs = AOk b /\ c_reasm b = AReject.
Proof.
  exists 8, deadcode_prog, [1%nat], [8; 0; 32; 6; 1; 2; 3; 4; 5; 6; 33; 5].
  destruct deadcode_witness as [H1 [H2 _]]. auto.
Qed.

(* label resolution on concrete layouts: a forward varint branch over 64 bytes needs a 2-byte
   offset, the back branch behind it one byte more than its distance suggests; re-assembling
   the disassembly reproduces the bytes *)
Definition branch_prog : list sinstr :=
  [ mkS 66 0 [SVLabel 2]; mkS 128 0 [SBytes (repeat 7 62)]; mkS 66 0 [SVLabel 0];
    mkS 141 0 [SLabels [0%nat; 4%nat; 1%nat]] ].
Lemma branch_witness :
  match c_asm_base 13 branch_prog [2%nat; 0%nat; 4%nat; 1%nat] with
  | AOk b => AvmCodecCheck.bytes_eqb (firstn 4 b) [13; 66; 128; 1] &&
             match c_reasm b with AOk b' => AvmCodecCheck.bytes_eqb b b' | _ => false end
  | _ => false
  end = true.
Proof. vm_compute. reflexivity. Qed.

(* ================================================================== the table facts behind
   asm_output_canonical, decided by vm_compute over the regenerated tables and lifted to all
   (version, opcode, sub-opcode) *)
From Verif.proofs Require Import AvmCodecAsmProofs.

Definition indexed (l : list opspec) : list (N * opspec) :=
  combine (map N.of_nat (seq 0 (List.length l))) l.

Definition entry_triples (e : tentry) : list (N * N * opspec) :=
  let '(o, (i, subs)) := e in
  (match subs with [] => [(o, 0, pool_get i)] | _ => [] end)
  ++ map (fun js => (o, fst js, snd js))
         (filter (fun js : N * opspec => os_hasop (snd js) && negb (String.eqb (os_name (snd js)) ""))
                 (indexed (map pool_get subs))).

Definition triples (v : N) : list (N * N * opspec) := flat_map entry_triples (version_table v).

Lemma indexed_in : forall l j, (j < List.length l)%nat -> In (N.of_nat j, nth j l zero_spec) (indexed l).
Proof.
  intros l j H. unfold indexed.
  assert (E : nth j (combine (map N.of_nat (seq 0 (List.length l))) l) (0, zero_spec)
              = (N.of_nat j, nth j l zero_spec)).
  { rewrite combine_nth by (rewrite map_length, seq_length; reflexivity).
    f_equal. change 0 with (N.of_nat 0%nat). rewrite map_nth. rewrite seq_nth by exact H. reflexivity. }
  rewrite <- E. apply nth_In. rewrite combine_length, map_length, seq_length. lia.
Qed.

Lemma spec_at_in : forall v o s op,
  spec_at gen_tbl v o s = Some op -> In (o, s, op) (triples v).
Proof.
  intros v o s op H. unfold spec_at, gen_tbl in H.
  destruct (find (fun e : tentry => fst e =? o) (version_table v)) as [[o' [i subs]]|] eqn:F.
  - apply find_some in F. destruct F as [Fin Feq]. cbn [fst] in Feq. apply N.eqb_eq in Feq. subst o'.
    unfold triples. apply in_flat_map. exists (o, (i, subs)). split; [exact Fin|].
    cbn [entry_triples]. apply in_or_app.
    destruct (s =? 0) eqn:E0.
    + apply N.eqb_eq in E0. subst s. left.
      destruct subs as [|x r]; cbn [map] in H; try discriminate.
      destruct (String.eqb (os_name (pool_get i)) ""); try discriminate.
      inversion H; subst. left. reflexivity.
    + right.
      match type of H with (if ?c then _ else _) = _ => destruct c eqn:C end; try discriminate.
      inversion H; subst op. apply andb_true_iff in C. destruct C as [C C3].
      apply andb_true_iff in C. destruct C as [C C2]. apply Nat.ltb_lt in C.
      apply in_map_iff. exists (s, nth (N.to_nat s) (map pool_get subs) zero_spec). split; [reflexivity|].
      apply filter_In. split.
      * rewrite <- (N2Nat.id s) at 1. apply indexed_in. exact C.
      * cbn [snd]. rewrite C2, C3. reflexivity.
  - destruct (s =? 0); [discriminate|]. simpl in H.
    destruct (N.to_nat s); simpl in H; discriminate.
Qed.

Lemma versions_len : List.length ops_by_opcode = S (N.to_nat logic_version).
Proof. vm_compute. reflexivity. Qed.

Lemma version_in : forall v, v <= logic_version -> In v all_versions.
Proof.
  intros v H. unfold all_versions. apply in_map_iff. exists (N.to_nat v). split; [apply N2Nat.id|].
  apply in_seq. lia.
Qed.

Lemma version_table_out : forall v, logic_version < v -> version_table v = [].
Proof.
  intros v H. unfold version_table. apply nth_overflow. rewrite versions_len. lia.
Qed.

Definition table_forall (P : N -> N -> N -> opspec -> bool) : bool :=
  forallb (fun v => forallb (fun t : N * N * opspec => P v (fst (fst t)) (snd (fst t)) (snd t)) (triples v))
          all_versions.

Lemma table_lift : forall P, table_forall P = true ->
  forall v o s op, spec_at gen_tbl v o s = Some op -> P v o s op = true.
Proof.
  intros P HP v o s op H. destruct (N.le_gt_cases v logic_version) as [Hv|Hv].
  - unfold table_forall in HP. rewrite forallb_forall in HP. specialize (HP v (version_in v Hv)).
    rewrite forallb_forall in HP. specialize (HP (o, s, op) (spec_at_in v o s op H)). exact HP.
  - exfalso. pose proof (spec_at_in v o s op H) as Hin. unfold triples in Hin.
    rewrite (version_table_out v Hv) in Hin. simpl in Hin. exact Hin.
Qed.

(* ---- the individual facts *)
Definition cons_b (v o s : N) (op : opspec) : bool :=
  (os_opcode op =? o) && (os_sub op =? s) && (o <? 256) && (s <? 256).
Lemma cons_ok : table_forall cons_b = true.
Proof. vm_compute. reflexivity. Qed.

Definition nosub_b (v o s : N) (op : opspec) : bool :=
  (s =? 0) || ((match os_imms op with [] => true | _ => false end) && negb (is_special (os_name op))).
Lemma nosub_ok : table_forall nosub_b = true.
Proof. vm_compute. reflexivity. Qed.

Definition field_b (v o s : N) (op : opspec) : bool :=
  forallb (fun im =>
             (if im_kind im =? 0 then
                let k' := gen_agrp (os_name op) (im_group im) in
                if k' =? 0 then im_group im =? 0
                else forallb (fun f => if fs_version f <=? v
                                       then (fs_field f <? 256) && field_named gen_grp (im_group im) (fs_field f)
                                       else true) (gen_grp k')
              else true) &&
             (if im_kind im =? 1 then im_group im =? 0 else true)) (os_imms op).
Lemma field_ok_table : table_forall field_b = true.
Proof. vm_compute. reflexivity. Qed.

Definition kinds_are (op : opspec) (k : ikind) : bool :=
  match map (fun im => kind_of (im_kind im)) (os_imms op), k with
  | [KInts], KInts => true
  | [KBytess], KBytess => true
  | _, _ => false
  end.
Definition block_b (v o s : N) (op : opspec) : bool :=
  (if String.eqb (os_name op) "intcblock" then kinds_are op KInts else true) &&
  (if String.eqb (os_name op) "bytecblock" then kinds_are op KBytess else true).
Lemma block_ok : table_forall block_b = true.
Proof. vm_compute. reflexivity. Qed.

Definition short_b (v o s : N) (op : opspec) : bool :=
  if existsb (String.eqb (os_name op)) ["arg"; "intc"; "bytec"]%string then
    forallb (fun n => let a := by_name gen_names v (short_name (os_name op) n) in
                      c_wf_instr v (mkI (os_opcode a) (os_sub a) []) &&
                      (String.eqb (os_name op) "arg" || (os_sub a =? 0))) [0; 1; 2; 3]
  else true.
Lemma short_ok : table_forall short_b = true.
Proof. vm_compute. reflexivity. Qed.

Definition bytes_4_255 : list N := map N.of_nat (seq 4 252).
Definition long_b (v o s : N) (op : opspec) : bool :=
  if existsb (String.eqb (os_name op)) ["intc"; "bytec"]%string then
    forallb (fun n => c_wf_instr v (mkI (os_opcode (by_name gen_names v (os_name op))) 0 [VByte n])) bytes_4_255
  else true.
Lemma long_ok : table_forall long_b = true.
Proof. vm_compute. reflexivity. Qed.

Lemma gen_Hcons : forall v o s op, spec_at gen_tbl v o s = Some op ->
  os_opcode op = o /\ os_sub op = s /\ o < 256 /\ s < 256.
Proof.
  intros v o s op H. pose proof (table_lift _ cons_ok v o s op H) as C. unfold cons_b in C.
  repeat (apply andb_true_iff in C; destruct C as [C ?]).
  apply N.eqb_eq in C. apply N.eqb_eq in H2. apply N.ltb_lt in H1. apply N.ltb_lt in H0. auto.
Qed.

Lemma gen_Hnosub : forall v o s op, spec_at gen_tbl v o s = Some op -> s <> 0 ->
  os_imms op = [] /\ is_special (os_name op) = false.
Proof.
  intros v o s op H Hs. pose proof (table_lift _ nosub_ok v o s op H) as C. unfold nosub_b in C.
  apply orb_true_iff in C. destruct C as [C|C]; [apply N.eqb_eq in C; contradiction|].
  apply andb_true_iff in C. destruct C as [C1 C2]. apply negb_true_iff in C2.
  destruct (os_imms op); [auto|discriminate].
Qed.

Lemma gen_Hfield : forall v o s op im b, spec_at gen_tbl v o s = Some op -> In im (os_imms op) ->
  (im_kind im = 0 -> field_ok gen_grp v (gen_agrp (os_name op) (im_group im)) b = true ->
   (b <? 256) && field_named gen_grp (im_group im) b = true) /\
  (im_kind im = 1 -> im_group im = 0).
Proof.
  intros v o s op im b H Hin. pose proof (table_lift _ field_ok_table v o s op H) as C.
  unfold field_b in C. rewrite forallb_forall in C. specialize (C im Hin).
  apply andb_true_iff in C. destruct C as [C0 C1]. split.
  - intros E0 Hf. rewrite E0 in C0. cbn [N.eqb] in C0. cbv zeta in C0.
    unfold field_ok in Hf.
    destruct (gen_agrp (os_name op) (im_group im) =? 0) eqn:Ek.
    + apply N.eqb_eq in C0. rewrite C0. rewrite Hf. reflexivity.
    + apply existsb_exists in Hf. destruct Hf as [f [Fin Ff]].
      apply andb_true_iff in Ff. destruct Ff as [F1 F2]. apply N.eqb_eq in F1. subst b.
      rewrite forallb_forall in C0. specialize (C0 f Fin). rewrite F2 in C0. exact C0.
  - intros E1. rewrite E1 in C1. cbn [N.eqb Pos.eqb] in C1. apply N.eqb_eq in C1. exact C1.
Qed.

Lemma gen_Hblock : forall v o s op, spec_at gen_tbl v o s = Some op ->
  (os_name op = "intcblock"%string -> map (fun im => kind_of (im_kind im)) (os_imms op) = [KInts]) /\
  (os_name op = "bytecblock"%string -> map (fun im => kind_of (im_kind im)) (os_imms op) = [KBytess]).
Proof.
  intros v o s op H. pose proof (table_lift _ block_ok v o s op H) as C. unfold block_b in C.
  apply andb_true_iff in C. destruct C as [C1 C2]. split; intros E; rewrite E in *.
  - cbn in C1. unfold kinds_are in C1.
    destruct (map (fun im => kind_of (im_kind im)) (os_imms op)) as [|[] [|? ?]]; try discriminate. reflexivity.
  - cbn in C2. unfold kinds_are in C2.
    destruct (map (fun im => kind_of (im_kind im)) (os_imms op)) as [|[] [|? ?]]; try discriminate. reflexivity.
Qed.

Lemma gen_Hshort : forall v o s op base n, spec_at gen_tbl v o s = Some op -> os_name op = base ->
  In base ["arg"; "intc"; "bytec"]%string -> n < 4 ->
  let a := by_name gen_names v (short_name base n) in
  c_wf_instr v (mkI (os_opcode a) (os_sub a) []) = true /\ (base <> "arg"%string -> os_sub a = 0).
Proof.
  intros v o s op base n H Hn Hb Hlt. pose proof (table_lift _ short_ok v o s op H) as C.
  unfold short_b in C. rewrite Hn in C.
  assert (Hex : existsb (String.eqb base) ["arg"; "intc"; "bytec"]%string = true).
  { apply existsb_exists. exists base. split; [exact Hb|apply String.eqb_refl]. }
  rewrite Hex in C. rewrite forallb_forall in C.
  assert (Hn4 : In n [0; 1; 2; 3]).
  { assert (0 = n \/ 1 = n \/ 2 = n \/ 3 = n) by lia. simpl. tauto. }
  specialize (C n Hn4). cbv zeta in C. apply andb_true_iff in C. destruct C as [C1 C2].
  cbv zeta. split; [exact C1|]. intros Hna. apply orb_true_iff in C2. destruct C2 as [C2|C2].
  - apply String.eqb_eq in C2. contradiction.
  - apply N.eqb_eq in C2. exact C2.
Qed.

Lemma gen_Hlong : forall v o s op base n, spec_at gen_tbl v o s = Some op -> os_name op = base ->
  In base ["intc"; "bytec"]%string -> 4 <= n -> n < 256 ->
  c_wf_instr v (mkI (os_opcode (by_name gen_names v base)) 0 [VByte n]) = true.
Proof.
  intros v o s op base n H Hn Hb H4 H256. pose proof (table_lift _ long_ok v o s op H) as C.
  unfold long_b in C. rewrite Hn in C.
  assert (Hex : existsb (String.eqb base) ["intc"; "bytec"]%string = true).
  { apply existsb_exists. exists base. split; [exact Hb|apply String.eqb_refl]. }
  rewrite Hex in C. rewrite forallb_forall in C. apply C.
  unfold bytes_4_255. apply in_map_iff. exists (N.to_nat n). split; [apply N2Nat.id|]. apply in_seq. lia.
Qed.

Lemma gen_Hlv : logic_version < 2 ^ 64.
Proof. vm_compute. reflexivity. Qed.
Lemma gen_Hmax : max_string_size < 2 ^ 64.
Proof. vm_compute. reflexivity. Qed.

(* Everything the assembler model accepts for the tables of the running code is the canonical
   encoding of a well-formed program; hence the disassembler's decoder reads exactly these
   instructions back, even in strict mode. *)
Theorem asm_output_canonical_gen : forall v p labs b,
  feasible p = true -> c_asm_base v p labs = AOk b ->
  exists q, c_wf_prog v q = true /\ b = enc_prog v q /\ List.length q = List.length p.
Proof.
  exact (asm_output_canonical gen_tbl gen_grp gen_names gen_agrp max_string_size
           back_branch_enabled_version logic_version gen_Hlv gen_Hmax gen_Hcons gen_Hnosub
           gen_Hfield gen_Hblock gen_Hshort gen_Hlong).
Qed.

Theorem asm_output_decodes : forall v p labs b,
  feasible p = true -> c_asm_base v p labs = AOk b ->
  exists q, c_dec_prog true b = Some (v, q) /\ c_dec_prog false b = Some (v, q) /\
            enc_prog v q = b /\ List.length q = List.length p.
Proof.
  intros v p labs b Hf H. destruct (asm_output_canonical_gen v p labs b Hf H) as [q [W [E L]]].
  exists q. subst b. unfold c_dec_prog.
  rewrite (prog_roundtrip gen_tbl gen_grp logic_version true v q W).
  rewrite (prog_roundtrip gen_tbl gen_grp logic_version false v q W). auto.
Qed.

(* findBranchSizes never runs out of the fuel asm_base gives it *)
Theorem asm_base_no_fuel : forall v p labs, c_asm_base v p labs <> AFuel.
Proof.
  intros v p labs. unfold c_asm_base, asm_base.
  destruct (logic_version <? v); [discriminate|].
  destruct (asm_pass1 _ _ _ _ _ v labs 0 _ p) as [ps|]; [|discriminate].
  destruct (find_sizes_initial_total labs ps) as [r Hr]. rewrite Hr.
  match goal with |- (match ?x with _ => _ end) <> _ => destruct x end; discriminate.
Qed.
