(* C14: (i) the real key / value / leaf-builder instance meets the structural hypotheses of the
   generic theorems; (ii) a small instance with an injective leaf function showing that the
   hypotheses of the positive theorems are satisfiable and that labels are produced. *)
From Coq Require Import List NArith ZArith Bool Lia ZifyN ZifyNat ZifyBool.
From Verif.lib Require Import Term.
From Verif.model Require Import MerkleTrie MerkleTrieSpec CatchpointHash CatchpointLabel CatchpointLabelCheck.
From Verif.proofs Require Import MerkleTrieProofs CatchpointHashProofs CatchpointLabelCompact CatchpointLabelTrie CatchpointLabelProofs.
Import ListNotations.
Open Scope N_scope.

(* ---------- (i) the real instance ---------- *)
Lemma list_eqb_eq (a b : list N) : list_eqb N.eqb a b = true -> a = b.
Proof.
  revert b. induction a as [|x a IH]; destruct b as [|y b]; cbn; try discriminate; [reflexivity|].
  intros E. apply andb_true_iff in E. destruct E as [E1 E2]. apply N.eqb_eq in E1. f_equal; auto.
Qed.

Lemma cval_eqb_eq a b : cval_eqb a b = true -> a = b.
Proof.
  destruct a, b. unfold cval_eqb, bytes_eqb. cbn. intros E.
  repeat (apply andb_true_iff in E; destruct E as [E ?]).
  apply list_eqb_eq in E. apply list_eqb_eq in H. apply N.eqb_eq in H2, H1. apply eqb_prop in H0.
  subst. reflexivity.
Qed.

Lemma in_firstn {A} (x : A) : forall n l, In x (firstn n l) -> In x l.
Proof. induction n as [|n IH]; intros [|y l] X; cbn in *; try tauto. destruct X; auto. Qed.

Lemma in_skipn {A} (x : A) : forall n l, In x (skipn n l) -> In x l.
Proof. induction n as [|n IH]; intros [|y l] X; cbn in *; try tauto. right. auto. Qed.

Section Real.
  Variable H : list N -> list N.
  Hypothesis H_bytes : forall x, bytes_ok (H x).       (* a hash function returns bytes *)

  Lemma bytes_ok_app a b : bytes_ok a -> bytes_ok b -> bytes_ok (a ++ b).
  Proof. unfold bytes_ok. intros. apply Forall_app. auto. Qed.

  Lemma trunc31_bytes p : bytes_ok (trunc31 H p).
  Proof.
    unfold trunc31, go_copy. apply bytes_ok_app.
    - apply Forall_forall. intros x X. apply in_firstn in X.
      pose proof (H_bytes p) as B. destruct (H p) as [|h t]; [destruct X|]. cbn in X.
      inversion B; subst. exact (proj1 (Forall_forall _ _) H3 x X).
    - apply Forall_forall. intros x X. apply in_skipn in X. apply repeat_spec in X. subst. lia.
  Qed.

  Lemma v6_leaf_ok a k p : k < 256 ->
    length (finishV6 H (hashBufV6 a k) p) = 36%nat /\ bytes_ok (finishV6 H (hashBufV6 a k) p).
  Proof.
    intros Hk. rewrite leaf_shape, be_low4. split.
    - cbn [app length]. rewrite trunc31_length. reflexivity.
    - cbn [app]. repeat (apply Forall_cons; [try lia; apply N.mod_lt; lia|]). apply trunc31_bytes.
  Qed.

  Lemma cleaf_ok k v : length (cleaf H k v) = 36%nat /\ bytes_ok (cleaf H k v).
  Proof.
    destruct k as [c [b i]]. unfold cleaf. destruct (c =? 0); [apply v6_leaf_ok; reflexivity|].
    destruct (c =? 1); [|apply v6_leaf_ok; reflexivity].
    unfold resource_leaf_k. destruct (v_asset v); apply v6_leaf_ok; reflexivity.
  Qed.
End Real.

Lemma label_schedule_independent_real :
  forall (H : list N -> list N), (forall x, bytes_ok (H x)) ->
  forall (hist : list cblock) (g : store ckey cval) (gleaves : list key) (gtotals : list N),
  genesis_ok ckey cval (cleaf H) g gleaves -> leaves_distinct ckey cval ckey_dec (cleaf H) hist g ->
  kv_old_ok ckey cval ckey_dec cclass hist g ->
  forall (P1 P2 : params) (ops1 ops2 : list cop) (R : N) (l1 l2 : list N),
  p_interval P1 <> 0 -> p_interval P2 <> 0 -> p_lookback P1 = p_lookback P2 -> p_nextras P1 = p_nextras P2 ->
  In (R, l1) (c_labels (crun ckey_dec cval_eqb cclass (cleaf H) H P1 hist (init_state g gleaves gtotals) ops1)) ->
  In (R, l2) (c_labels (crun ckey_dec cval_eqb cclass (cleaf H) H P2 hist (init_state g gleaves gtotals) ops2)) ->
  l1 = l2.
Proof.
  intros H HB. exact (label_schedule_independent ckey cval ckey_dec cval_eqb cval_eqb_eq cclass (cleaf H) H 36 (cleaf_ok H HB)).
Qed.

(* ---------- (ii) non-vacuity ---------- *)
Definition xleaf (k v : bool) : key := [if k then 1 else 0; if v then 1 else 0].
Definition xclass (k : bool) : N := if k then 2 else 0.       (* key true: a KV key; key false: an account *)
Definition xH (x : list N) : list N := firstn 32 (x ++ repeat 7 32).

Definition x_hist : list (block bool bool) :=
  [ mkBlock [mkMod true (Some true) None; mkMod false (Some false) (Some true)] [1] [128] [[1]; [2]; [3]];
    mkBlock [mkMod true (Some false) (Some true)] [2] [128] [[1]; [2]; [3]];
    mkBlock [mkMod true None (Some false)] [3] [129] [[1]; [2]; [3]];
    mkBlock [mkMod false None None] [4] [130] [[1]; [2]; [3]];
    mkBlock [] [5] [130] [[1]; [2]; [3]] ].
Definition x_g : store bool bool := fun k => if k then None else Some true.
Definition x_P1 : params := mkParams 4 0 2 true 3.
Definition x_P2 : params := mkParams 2 1 2 true 3.
Definition x_ops1 : list cop := [ONewBlock; OCommitTo 1; ONewBlock; OCommitTo 2; ONewBlock; ONewBlock; OReloadTrackers; OCommitTo 4].
Definition x_ops2 : list cop := [ONewBlock; ONewBlock; ONewBlock; OCommitTo 3; ONewBlock; ONewBlock; OCommitTo 5].

Lemma x_leaf_ok k v : length (xleaf k v) = 2%nat /\ bytes_ok (xleaf k v).
Proof. split; [reflexivity|]. destruct k, v; repeat constructor. Qed.

Lemma x_veqb_eq a b : Bool.eqb a b = true -> a = b.
Proof. apply eqb_prop. Qed.

Lemma x_genesis_ok : genesis_ok bool bool xleaf x_g [xleaf false true].
Proof.
  intros y. split.
  - intros [<-|[]]. exists false, true. split; reflexivity.
  - intros (k & v & A & ->). destruct k; cbn in A; [discriminate|]. inversion A. left. reflexivity.
Qed.

Lemma x_distinct : leaves_distinct bool bool bool_dec xleaf x_hist x_g.
Proof. intros r1 r2 k1 k2 v1 v2 Hne _ _ E. apply Hne. destruct k1, k2; try reflexivity; destruct v1, v2; inversion E. Qed.

Lemma x_kv_old_ok : kv_old_ok bool bool bool_dec xclass x_hist x_g.
Proof.
  intros pre m post E Hk. cbn in E.
  destruct pre as [|a [|b [|c [|d [|e pre]]]]]; inversion E; subst; try reflexivity; try discriminate.
  destruct pre; discriminate.
Qed.

(* both nodes label round 4 (its first stage is round 2) *)
Lemma x_labels :
  exists l1 l2,
    In (4, l1) (c_labels (crun bool_dec Bool.eqb xclass xleaf xH x_P1 x_hist (init_state x_g [xleaf false true] [128]) x_ops1)) /\
    In (4, l2) (c_labels (crun bool_dec Bool.eqb xclass xleaf xH x_P2 x_hist (init_state x_g [xleaf false true] [128]) x_ops2)) /\
    l1 <> [].
Proof. vm_compute. eexists _, _. split; [left; reflexivity|]. split; [left; reflexivity | discriminate]. Qed.
