(* C39, completeness: a prover filled through IsValid/Add builds a proof that its verifier
   accepts (model/StateProof.v).  Binary search over the committed prefix sums, the reveal
   loop invariant, and the final check against [accept_facts]. *)
From Coq Require Import NArith ZArith List Bool Lia ZifyN ZifyNat ZifyBool.
From Verif.model Require Import SpWeights StateProof StateProofSpec.
From Verif.proofs Require Import SpWeightsProofs StateProofProofs.
Import ListNotations.
Open Scope N_scope.
Ltac Zify.zify_post_hook ::= Z.div_mod_to_equations.

Lemma F2_length : forall A B (R : A -> B -> Prop) la lb, Forall2 R la lb -> length la = length lb.
Proof. intros A B R la lb H. induction H; cbn [length]; congruence. Qed.
Arguments F2_length {A B R la lb}.

Lemma NoDup_snoc : forall A (l : list A) x, NoDup l -> ~ In x l -> NoDup (l ++ [x]).
Proof.
  induction l as [|a t IH]; intros x ND Hx; cbn [app].
  - constructor; [intros []|constructor].
  - inversion ND; subst. constructor.
    + rewrite in_app_iff. intros [X|[X|[]]]; [contradiction|]. subst. apply Hx. left; reflexivity.
    + apply IH; [assumption|]. intros X. apply Hx. right; exact X.
Qed.

Section Sums.
  Variable Sig : Type.
  Implicit Types l : list (slot Sig).

  Lemma sumw_firstn_le : forall l i, sumw (firstn i l) <= sumw l.
  Proof.
    induction l as [|s r IH]; intros [|i]; cbn [firstn sumw]; try lia.
    specialize (IH i). lia.
  Qed.

  Lemma sumw_firstn_S : forall l i s, nth_error l i = Some s ->
    sumw (firstn (S i) l) = sumw (firstn i l) + sl_weight s.
  Proof.
    induction l as [|s0 r IH]; intros [|i] s H; cbn [nth_error] in H; try discriminate.
    - inversion H; subst. cbn [firstn sumw]. lia.
    - change (firstn (S (S i)) (s0 :: r)) with (s0 :: firstn (S i) r).
      change (firstn (S i) (s0 :: r)) with (s0 :: firstn i r).
      cbn [sumw]. rewrite (IH i s H). lia.
  Qed.

  Lemma sumw_firstn_mono : forall l i j, (i <= j)%nat -> sumw (firstn i l) <= sumw (firstn j l).
  Proof.
    induction l as [|s r IH]; intros i j H.
    - rewrite !firstn_nil. lia.
    - destruct i as [|i]; [cbn [firstn sumw]; lia|].
      destruct j as [|j]; [lia|]. cbn [firstn sumw]. specialize (IH i j). lia.
  Qed.

  Lemma sumw_firstn_all : forall l i, (length l <= i)%nat -> sumw (firstn i l) = sumw l.
  Proof. intros l i H. rewrite firstn_all2 by exact H. reflexivity. Qed.

  Lemma sumw_ext : forall l l', map (@sl_weight Sig) l = map (@sl_weight Sig) l' -> sumw l = sumw l'.
  Proof.
    induction l as [|s r IH]; intros [|s' r'] H; cbn [map] in H; try discriminate; [reflexivity|].
    inversion H. cbn [sumw]. rewrite (IH r') by assumption. lia.
  Qed.

  Lemma sumw_set_nth : forall l i s x, nth_error l i = Some s ->
    sumw (set_nth l i x) + sl_weight s = sumw l + sl_weight x.
  Proof.
    induction l as [|s0 r IH]; intros [|i] s x H; cbn [nth_error] in H; try discriminate.
    - inversion H; subst. cbn [set_nth sumw]. lia.
    - cbn [set_nth sumw]. specialize (IH i s x H). lia.
  Qed.

  (* ---- commitL ---- *)
  Lemma commitL_from_weights : forall l a,
    map (@sl_weight Sig) (commitL_from a l) = map (@sl_weight Sig) l /\
    map (fun s => sc_sig (sl_c s)) (commitL_from a l) = map (fun s => sc_sig (sl_c s)) l /\
    length (commitL_from a l) = length l.
  Proof.
    induction l as [|s r IH]; intros a; cbn [commitL_from map length]; [auto|].
    destruct (IH (wadd a (sl_weight s))) as (A & B & C). cbn [sl_weight sl_c sc_sig].
    rewrite A, B, C. auto.
  Qed.

  (* the L of every slot is the sum of the weights before it *)
  Definition committed l : Prop :=
    sumw l < W64 /\ forall i s, nth_error l i = Some s -> sc_L (sl_c s) = sumw (firstn i l).

  Lemma commitL_from_L : forall l a, a + sumw l < W64 ->
    forall i s, nth_error (commitL_from a l) i = Some s ->
      sc_L (sl_c s) = a + sumw (firstn i (commitL_from a l)).
  Proof.
    induction l as [|s0 r IH]; intros a Ha i s H; cbn [commitL_from] in *.
    - destruct i; discriminate.
    - cbn [sumw] in Ha. destruct i as [|i]; cbn [nth_error] in H.
      + inversion H; subst. cbn [sl_c sc_L firstn sumw]. lia.
      + cbn [firstn sumw sl_weight].
        rewrite (wadd_small a (sl_weight s0)) in * by lia.
        rewrite (IH (a + sl_weight s0) ltac:(lia) i s H). lia.
  Qed.

  Lemma commitL_eq_from0 : forall l,
    (forall s, nth_error l 0 = Some s -> sc_L (sl_c s) = 0) -> commitL l = commitL_from 0 l.
  Proof.
    intros [|s r] H; [reflexivity|]. cbn [commitL commitL_from].
    specialize (H s eq_refl). destruct s as [w [sg L]]. cbn [sl_c sc_L sl_weight sc_sig] in *. subst L.
    reflexivity.
  Qed.

  (* ---- coinIndex finds the slot of the coin ---- *)
  Lemma coinIndex_found : forall l, committed l -> forall fuel c lo hi,
    lo <= hi -> (N.to_nat hi <= length l)%nat ->
    sumw (firstn (N.to_nat lo) l) <= c < sumw (firstn (N.to_nat hi) l) ->
    (N.to_nat hi - N.to_nat lo < fuel)%nat ->
    exists pos s, coinIndex fuel l c lo hi = CIOk pos /\ nth_error l (N.to_nat pos) = Some s /\
      sc_L (sl_c s) <= c /\ c < wadd (sc_L (sl_c s)) (sl_weight s).
  Proof.
    intros l [Hsum HL]. induction fuel as [|f IH]; intros c lo hi Hle Hhi Hc Hf; [lia|].
    cbn [coinIndex].
    destruct (N.leb_spec hi lo) as [E|E].
    { assert (lo = hi) by lia. subst. lia. }
    set (mid := (lo + hi) / 2).
    assert (Hmid : lo <= mid < hi) by (unfold mid; lia).
    destruct (nth_error l (N.to_nat mid)) as [s|] eqn:ES.
    2:{ apply nth_error_None in ES. lia. }
    pose proof (HL _ _ ES) as HLs.
    pose proof (sumw_firstn_S l _ _ ES) as HS.
    pose proof (sumw_firstn_le l (S (N.to_nat mid))) as HB.
    assert (Hw : wadd (sc_L (sl_c s)) (sl_weight s) = sc_L (sl_c s) + sl_weight s)
      by (apply wadd_small; lia).
    destruct (N.ltb_spec c (sc_L (sl_c s))) as [C1|C1].
    - apply IH; try lia.
    - rewrite Hw. destruct (N.ltb_spec c (sc_L (sl_c s) + sl_weight s)) as [C2|C2].
      + exists mid, s. repeat split; auto; lia.
      + apply IH; try lia.
        replace (N.to_nat (mid + 1)) with (S (N.to_nat mid)) by lia. lia.
  Qed.
End Sums.

Section Honest.
  Variables PK Sig Msg Dig Prf : Type.
  Variable sig0 : Sig.
  Variable scheme_salt : N.
  Variable salt_ok : Sig -> N -> bool.
  Variable commit_ok : Sig -> bool.
  Variable sig_ok : PK -> N -> Msg -> Sig -> bool.
  Variable coin : seed Msg Dig -> nat -> N.
  Variable prf_depth : Prf -> N.
  Variable vcs_root : list (slotC Sig) -> Dig.
  Variable vcs_prove : list (slotC Sig) -> list N -> option Prf.
  Variable vcs_verify : Dig -> list (N * slotC Sig) -> Prf -> bool.
  Variable vcp_root : list (participant PK) -> Dig.
  Variable vcp_prove : list (participant PK) -> list N -> option Prf.
  Variable vcp_verify : Dig -> list (N * participant PK) -> Prf -> bool.

  Local Notation verifyM := (verify salt_ok commit_ok sig_ok coin prf_depth vcs_verify vcp_verify).
  Local Notation createM := (createProof scheme_salt commit_ok coin vcs_root vcs_prove vcp_root vcp_prove).
  Local Notation isValidM := (isValid scheme_salt salt_ok commit_ok sig_ok).
  Local Notation cslot_ok := (StateProofSpec.cslot_ok scheme_salt salt_ok commit_ok sig_ok).
  Local Notation slot_ok := (StateProofSpec.slot_ok scheme_salt salt_ok commit_ok sig_ok).
  Local Notation wf := (StateProofSpec.wf scheme_salt salt_ok commit_ok sig_ok).
  Local Notation built := (StateProofSpec.built sig0 scheme_salt salt_ok commit_ok sig_ok).

  (* lia generalises over every hypothesis in sight and so drags unrelated section variables into
     the proof terms: drop the ones the goal does not mention first *)
  Ltac prune := try clear sig0; try clear scheme_salt; try clear vcs_prove; try clear vcp_prove;
                try clear vcs_root; try clear vcp_root; try clear vcs_verify; try clear vcp_verify;
                try clear salt_ok; try clear commit_ok; try clear sig_ok; try clear prf_depth; try clear coin.
  Ltac lia_ := prune; lia.

  Lemma slots_le_total : forall round data parts sigs,
    Forall2 (cslot_ok round data) parts sigs -> sumw sigs <= totw parts.
  Proof.
    intros round data parts sigs H. induction H as [|p s ps ss [_ Hs] _ IH]; cbn [sumw totw]; [lia_|].
    destruct Hs as [E|(E & _)]; lia_.
  Qed.

  Lemma Forall2_slot_cslot : forall round data parts sigs,
    Forall2 (slot_ok round data) parts sigs -> Forall2 (cslot_ok round data) parts sigs.
  Proof. intros round data parts sigs H. induction H as [|a b la lb [_ X] _ IH]; constructor; assumption. Qed.

  Lemma makeProver_wf : forall data round pw lnpw parts st,
    commit_ok sig0 = true -> totw parts < W64 ->
    wf (makeProver sig0 data round pw lnpw parts st).
  Proof.
    intros data round pw lnpw parts st H0 Ht. unfold StateProofSpec.wf, makeProver. cbn.
    repeat split; [| |exact Ht].
    - induction parts as [|p r IH]; cbn [length repeat]; constructor.
      + unfold StateProofSpec.slot_ok, StateProofSpec.cslot_ok. cbn. auto.
      + apply IH. cbn [totw] in Ht. lia_.
    - clear. induction (length parts) as [|n IH]; cbn [repeat sumw sl_weight]; [reflexivity|]. rewrite <- IH. reflexivity.
  Qed.

  Lemma Forall2_set_nth : forall A B (R : A -> B -> Prop) la lb i a x,
    Forall2 R la lb -> nth_error la i = Some a -> R a x -> Forall2 R la (set_nth lb i x).
  Proof.
    intros A B R la lb i a x H. revert i. induction H as [|a0 b0 la lb Hab H IH]; intros i Ha Hx.
    - destruct i; discriminate.
    - destruct i as [|i]; cbn [nth_error] in Ha; cbn [set_nth].
      + inversion Ha; subst. constructor; assumption.
      + constructor; [assumption | apply IH; assumption].
  Qed.

  Lemma Forall2_nth : forall A B (R : A -> B -> Prop) la lb i a b,
    Forall2 R la lb -> nth_error la i = Some a -> nth_error lb i = Some b -> R a b.
  Proof.
    intros A B R la lb i a b H. revert i. induction H as [|a0 b0 la lb Hab H IH]; intros i Ha Hb.
    - destruct i; discriminate.
    - destruct i as [|i]; cbn [nth_error] in Ha, Hb.
      + inversion Ha; inversion Hb; subst. assumption.
      + eapply IH; eassumption.
  Qed.

  Lemma Forall2_nth_r : forall A B (R : A -> B -> Prop) la lb i b,
    Forall2 R la lb -> nth_error lb i = Some b -> exists a, nth_error la i = Some a /\ R a b.
  Proof.
    intros A B R la lb i b H. revert i. induction H as [|a0 b0 la lb Hab H IH]; intros i Hb.
    - destruct i; discriminate.
    - destruct i as [|i]; cbn [nth_error] in *.
      + inversion Hb; subst. eauto.
      + apply IH. exact Hb.
  Qed.

  (* the invariant is kept by every signature that passes IsValid and is added *)
  Lemma add_wf : forall b pos sig b',
    wf b -> isValidM b pos sig true = SOk tt -> add b pos sig = SOk b' -> wf b'.
  Proof.
    intros b pos sig b' (HF & Hsw & Ht) HV HA.
    unfold isValid, isValid_gen in HV. unfold add, present in HA.
    destruct (nth_error (b_parts b) (N.to_nat pos)) as [p|] eqn:EP; [|discriminate].
    destruct (nth_error (b_sigs b) (N.to_nat pos)) as [s|] eqn:ES; [|discriminate].
    destruct (N.eqb_spec (pt_weight p) 0) as [|Hp0]; [discriminate|].
    cbn [andb] in HV.
    destruct (salt_ok sig scheme_salt) eqn:ESalt; cbn [negb] in HV; [|discriminate].
    destruct (sig_ok (pt_pk p) (b_round b) (b_data b) sig) eqn:ESig; cbn [negb] in HV; [|discriminate].
    destruct (commit_ok sig) eqn:ECom; cbn [negb] in HV; [|discriminate].
    destruct (N.eqb_spec (sl_weight s) 0) as [Hs0|]; cbn [negb] in HA; [|discriminate].
    inversion HA; subst b'; clear HA. unfold StateProofSpec.wf. cbn [b_round b_data b_parts b_sigs b_sw].
    pose proof (Forall2_nth _ _ _ _ _ _ _ _ HF EP ES) as (HL & _).
    pose proof (slots_le_total _ _ _ _ (Forall2_slot_cslot _ _ _ _ HF)) as Hle.
    pose proof (sumw_set_nth _ (b_sigs b) _ _ (mkSlot (pt_weight p) (mkSlotC sig (sc_L (sl_c s)))) ES) as HS.
    cbn [sl_weight] in HS.
    repeat split; [| |exact Ht].
    - eapply Forall2_set_nth; [exact HF | exact EP |].
      unfold StateProofSpec.slot_ok, StateProofSpec.cslot_ok. cbn [sl_c sc_L sc_sig sl_weight]. repeat split; auto.
    - rewrite Hsw.
      assert (X : Forall2 (cslot_ok (b_round b) (b_data b)) (b_parts b)
                          (set_nth (b_sigs b) (N.to_nat pos) (mkSlot (pt_weight p) (mkSlotC sig (sc_L (sl_c s)))))).
      { eapply Forall2_set_nth; [apply Forall2_slot_cslot; exact HF | exact EP |].
        unfold StateProofSpec.cslot_ok. cbn [sl_c sc_sig sl_weight]. auto. }
      apply slots_le_total in X. rewrite wadd_small by lia_. lia_.
  Qed.

  (* ---- after commitL ---- *)
  Lemma commit_preserves : forall round data parts sigs a,
    Forall2 (cslot_ok round data) parts sigs -> Forall2 (cslot_ok round data) parts (commitL_from a sigs).
  Proof.
    intros round data parts sigs a H. revert a. induction H as [|p s ps ss Hs _ IH]; intros a; cbn [commitL_from]; constructor.
    - unfold StateProofSpec.cslot_ok in *. cbn [sl_c sc_sig sl_weight]. exact Hs.
    - apply IH.
  Qed.

  Section Loop.
    Variable round : N.
    Variable data : Msg.
    Variable parts : list (participant PK).
    Variable sigs : list (slot Sig).           (* after commitL *)
    Variable sd : seed Msg Dig.
    Hypothesis Hwf : Forall2 (cslot_ok round data) parts sigs.
    Hypothesis Hcm : committed Sig sigs.
    Hypothesis Hcoin : forall j, coin sd j < sumw sigs.

    Definition rinv (j : nat) (st : rstate PK Sig) : Prop :=
      length (rs_seq st) = j /\
      map fst (rs_reveals st) = rs_pp st /\ NoDup (rs_pp st) /\
      (forall pos r, In (pos, r) (rs_reveals st) ->
         exists s p, nth_error sigs (N.to_nat pos) = Some s /\ nth_error parts (N.to_nat pos) = Some p /\
                     r = mkReveal (sl_c s) p /\ sl_weight s <> 0) /\
      (forall i pos, nth_error (rs_seq st) i = Some pos ->
         exists r, lookup pos (rs_reveals st) = Some r /\
           sc_L (rv_slot r) <= coin sd i /\ coin sd i < wadd (sc_L (rv_slot r)) (pt_weight (rv_part r))).

    Lemma revealLoop_inv : forall k j st, rinv j st ->
      exists st', revealLoop coin sigs parts sd k j st = SOk st' /\ rinv (j + k) st'.
    Proof.
      induction k as [|k IH]; intros j st Hinv.
      { exists st. rewrite Nat.add_0_r. split; [reflexivity | exact Hinv]. }
      cbn [revealLoop].
      pose proof (F2_length Hwf) as Hlen.
      destruct Hcm as [Hsum HL].
      destruct (coinIndex_found Sig sigs Hcm (S (length sigs)) (coin sd j) 0 (N.of_nat (length sigs)))
        as (pos & s & EI & ES & C1 & C2); try lia_.
      { cbn [N.to_nat firstn sumw]. rewrite Nat2N.id, sumw_firstn_all by lia_. specialize (Hcoin j). lia_. }
      rewrite EI.
      assert (Hpos : (N.to_nat pos < length sigs)%nat) by (apply nth_error_Some; congruence).
      destruct (N.leb_spec (N.of_nat (length parts)) pos) as [X|_]; [lia_|].
      destruct (nth_error parts (N.to_nat pos)) as [p|] eqn:EP.
      2:{ apply nth_error_None in EP. lia_. }
      assert (Hw0 : sl_weight s <> 0).
      { intros Z. rewrite Z in C2. unfold wadd in C2. rewrite N.add_0_r in C2.
        pose proof (N.mod_le (sc_L (sl_c s)) W64 ltac:(unfold W64; lia_)). lia_. }
      assert (Hwp : sl_weight s = pt_weight p).
      { destruct (Forall2_nth _ _ _ _ _ _ _ _ Hwf EP ES) as (_ & [Z|(Z & _)]); [contradiction|exact Z]. }
      destruct Hinv as (I0 & I1 & I2 & I3 & I4).
      destruct (lookup pos (rs_reveals st)) as [r0|] eqn:ELk.
      - (* already revealed *)
        replace (j + S k)%nat with (S j + k)%nat by lia_. apply IH.
        unfold rinv. cbn [rs_reveals rs_seq rs_pp]. repeat split; auto.
        + rewrite app_length. cbn [length]. lia_.
        + intros i q Hi. destruct (Nat.lt_ge_cases i (length (rs_seq st))) as [Hlt|Hge].
          * rewrite nth_error_app1 in Hi by exact Hlt. apply I4. exact Hi.
          * rewrite nth_error_app2 in Hi by exact Hge.
            assert (i = j) by (destruct (i - length (rs_seq st))%nat as [|[|]] eqn:Z; cbn in Hi; try discriminate; lia_).
            subst i. replace (j - length (rs_seq st))%nat with 0%nat in Hi by lia_. cbn in Hi. inversion Hi; subst q.
            exists r0. split; [exact ELk|].
            destruct (I3 pos r0 (lookup_In _ _ _ _ ELk)) as (s' & p' & A & B & C & _).
            rewrite ES in A. rewrite EP in B. inversion A; inversion B; subst s' p' r0.
            cbn [rv_slot rv_part]. rewrite <- Hwp. auto.
      - (* new reveal *)
        rewrite ES.
        replace (j + S k)%nat with (S j + k)%nat by lia_. apply IH.
        apply lookup_none_iff in ELk.
        unfold rinv. cbn [rs_reveals rs_seq rs_pp]. repeat split.
        + rewrite app_length. cbn [length]. lia_.
        + rewrite map_app, I1. reflexivity.
        + rewrite <- I1 in *. apply NoDup_snoc; assumption.
        + intros q r HI. apply in_app_iff in HI. destruct HI as [HI|[HI|[]]]; [apply I3; exact HI|].
          inversion HI; subst q r. exists s, p. auto.
        + intros i q Hi. destruct (Nat.lt_ge_cases i (length (rs_seq st))) as [Hlt|Hge].
          * rewrite nth_error_app1 in Hi by exact Hlt. destruct (I4 i q Hi) as (r & A & B).
            exists r. split; [|exact B]. rewrite lookup_app, A. reflexivity.
          * rewrite nth_error_app2 in Hi by exact Hge.
            assert (i = j) by (destruct (i - length (rs_seq st))%nat as [|[|]] eqn:Z; cbn in Hi; try discriminate; lia_).
            subst i. replace (j - length (rs_seq st))%nat with 0%nat in Hi by lia_. cbn in Hi. inversion Hi; subst q.
            exists (mkReveal (sl_c s) p). split.
            -- rewrite lookup_app.
               replace (lookup pos (rs_reveals st)) with (@None (reveal PK Sig)) by (symmetry; apply lookup_none_iff; exact ELk).
               cbn [lookup]. rewrite N.eqb_refl. reflexivity.
            -- cbn [rv_slot rv_part]. rewrite <- Hwp. auto.
    Qed.
  End Loop.

  Lemma sig_claims_fst : forall rv : list (N * reveal PK Sig), map fst (sig_claims rv) = map fst rv.
  Proof. induction rv as [|[k r] t IH]; cbn [sig_claims map fst] in *; [reflexivity|]. f_equal. exact IH. Qed.
  Lemma part_claims_fst : forall rv : list (N * reveal PK Sig), map fst (part_claims rv) = map fst rv.
  Proof. induction rv as [|[k r] t IH]; cbn [part_claims map fst] in *; [reflexivity|]. f_equal. exact IH. Qed.

  (* ---- CreateProof / Verify ---- *)
  Lemma numReveals_ok_pos : forall sw lnpw st nr, numReveals sw lnpw st = WOk nr -> (1 <= nr)%Z.
  Proof.
    intros sw lnpw st nr H. unfold numReveals in H.
    destruct (sw <=? 0)%Z; [discriminate|].
    destruct (denom sw lnpw <=? 0)%Z; [discriminate|].
    destruct (negb (isUint64 (numerator sw st / denom sw lnpw)) || (numerator sw st / denom sw lnpw >=? MaxReveals)%Z) eqn:E; [discriminate|].
    inversion H; subst. apply orb_false_iff in E. destruct E as [E _]. apply negb_false_iff in E.
    unfold isUint64 in E. lia_.
  Qed.

  Theorem honest_verifies : forall b nr,
    wf b -> (length (b_parts b) <= 1024)%nat ->
    vc_complete vcs_root vcs_prove vcs_verify prf_depth ->
    vc_complete vcp_root vcp_prove vcp_verify prf_depth ->
    (forall sd j, 0 < sd_sw sd -> coin sd j < sd_sw sd) ->
    ready b = true ->
    numReveals (Z.of_N (b_sw b)) (Z.of_N (b_lnpw b)) (Z.of_N (b_st b)) = WOk nr ->
    exists s, createM b = SOk s /\
      verifyM (mkVerifier (b_st b) (b_lnpw b) (vcp_root (b_parts b))) (b_round b) (b_data b) s = SOk tt /\
      sp_sw s = b_sw b /\ Z.of_nat (length (sp_positions s)) = nr.
  Proof.
    intros b nr (HF & Hsw & Ht) Hn Hvs Hvp Hcoin Hr Hnr.
    unfold createProof. rewrite Hr. cbn [negb].
    assert (H0 : forall s, nth_error (b_sigs b) 0 = Some s -> sc_L (sl_c s) = 0).
    { intros s Hs. destruct (Forall2_nth_r _ _ _ _ _ _ _ HF Hs) as (p & _ & [X _]). exact X. }
    rewrite (commitL_eq_from0 Sig _ H0).
    set (sigs := commitL_from 0 (b_sigs b)).
    pose proof (Forall2_slot_cslot _ _ _ _ HF) as HFc.
    pose proof (commit_preserves _ _ _ _ 0 HFc) as HFs. fold sigs in HFs.
    destruct (commitL_from_weights Sig (b_sigs b) 0) as (HWm & _ & HLn). fold sigs in HWm, HLn.
    pose proof (sumw_ext Sig _ _ HWm) as Hsum.
    pose proof (slots_le_total _ _ _ _ HFc) as Hle.
    assert (Hcm : committed Sig sigs).
    { split; [lia_|]. intros i s Hs. unfold sigs in *.
      rewrite (commitL_from_L Sig (b_sigs b) 0 ltac:(lia_) i s Hs). lia_. }
    assert (Hco : forallb (fun s => commit_ok (sc_sig (sl_c s))) sigs = true).
    { apply forallb_forall. intros s Hs. apply In_nth_error in Hs. destruct Hs as [i Hi].
      assert (Hi' : (i < length (b_parts b))%nat).
      { rewrite (F2_length HFs). apply nth_error_Some. congruence. }
      destruct (nth_error (b_parts b) i) as [p|] eqn:EP; [|apply nth_error_None in EP; lia_].
      destruct (Forall2_nth _ _ _ _ _ _ _ _ HFs EP Hi) as [X _]. exact X. }
    rewrite Hco. cbn [negb]. rewrite Hnr.
    set (sd := mkSeed (vcp_root (b_parts b)) (b_lnpw b) (vcs_root (map (@sl_c Sig) sigs)) (b_sw b) (b_data b)).
    assert (Hready : 0 < b_sw b) by (unfold ready in Hr; lia_).
    assert (Hc : forall j, coin sd j < sumw sigs).
    { intros j. rewrite Hsum, <- Hsw. apply (Hcoin sd j). exact Hready. }
    destruct (revealLoop_inv (b_round b) (b_data b) (b_parts b) sigs sd HFs Hcm Hc (Z.to_nat nr) 0 (mkRS [] [] []))
      as (st & ELoop & I0 & I1 & I2 & I3 & I4).
    { unfold rinv. cbn [rs_seq rs_reveals rs_pp length map]. split; [reflexivity|]. split; [reflexivity|].
      split; [constructor|]. split; [intros ? ? []|]. intros [|i0] pos0 Hi0; discriminate. }
    rewrite ELoop.
    pose proof (numReveals_ok_pos _ _ _ _ Hnr) as Hnr1.
    cbn [Nat.add] in I0.
    (* the positions that get a proof *)
    assert (Hne : rs_pp st <> []).
    { destruct (rs_seq st) as [|q t] eqn:Eq; [cbn in I0; lia_|].
      destruct (I4 0%nat q eq_refl) as (r & A & _). apply lookup_In in A.
      rewrite <- I1. intros Z. apply map_eq_nil in Z. rewrite Z in A. destruct A. }
    assert (Hrange : forall i, In i (rs_pp st) -> (N.to_nat i < length (b_parts b))%nat).
    { intros i Hi. rewrite <- I1 in Hi. apply in_map_iff in Hi. destruct Hi as ([q r] & E & HI). cbn in E; subst q.
      destruct (I3 i r HI) as (s & p & _ & B & _). apply nth_error_Some. congruence. }
    (* signature side *)
    destruct (Hvs (map (@sl_c Sig) sigs) (rs_pp st) (sig_claims (rs_reveals st))) as (pfS & EPS & EVS & EDS); auto.
    { intros i Hi. rewrite map_length, HLn, <- (F2_length HF). apply Hrange. exact Hi. }
    { rewrite map_length, HLn, <- (F2_length HF). exact Hn. }
    { rewrite sig_claims_fst, I1. exact I2. }
    { intros q e. unfold sig_claims. rewrite in_map_iff. split.
      - intros ([q' r] & E & HI). cbn [fst snd] in E. inversion E; subst q' e.
        destruct (I3 q r HI) as (s & p & A & _ & C & _). subst r. cbn [rv_slot]. split.
        + rewrite <- I1. change q with (fst (q, mkReveal (sl_c s) p)). apply in_map. exact HI.
        + rewrite nth_error_map, A. reflexivity.
      - intros (Hq & He). rewrite <- I1 in Hq. apply in_map_iff in Hq. destruct Hq as ([q' r] & E & HI). cbn in E; subst q'.
        exists (q, r). split; [|exact HI]. cbn [fst snd].
        destruct (I3 q r HI) as (s & p & A & _ & C & _). subst r. cbn [rv_slot].
        rewrite nth_error_map, A in He. cbn in He. inversion He. reflexivity. }
    rewrite EPS.
    (* participant side *)
    destruct (Hvp (b_parts b) (rs_pp st) (part_claims (rs_reveals st))) as (pfP & EPP & EVP & EDP); auto.
    { rewrite part_claims_fst, I1. exact I2. }
    { intros q e. unfold part_claims. rewrite in_map_iff. split.
      - intros ([q' r] & E & HI). cbn [fst snd] in E. inversion E; subst q' e.
        destruct (I3 q r HI) as (s & p & _ & B & C & _). subst r. cbn [rv_part]. split; [|exact B].
        rewrite <- I1. change q with (fst (q, mkReveal (sl_c s) p)). apply in_map. exact HI.
      - intros (Hq & He). rewrite <- I1 in Hq. apply in_map_iff in Hq. destruct Hq as ([q' r] & E & HI). cbn in E; subst q'.
        exists (q, r). split; [|exact HI]. cbn [fst snd].
        destruct (I3 q r HI) as (s & p & _ & B & C & _). subst r. cbn [rv_part]. congruence. }
    rewrite EPP.
    eexists. split; [reflexivity|]. cbn [sp_sw sp_positions]. split; [|split; [reflexivity | lia_]].
    apply verify_ok_iff. unfold StateProofSpec.accept_facts, seed_of.
    cbn [sp_sigproofs sp_partproofs sp_sw sp_positions sp_reveals sp_salt sp_sigcommit v_lnpw v_st v_partcom].
    split; [exact EDS|]. split; [exact EDP|].
    split. { rewrite I0, Z2Nat.id by lia_. apply prover_satisfies_verifier_l. exact Hnr. }
    split.
    { intros pos r H. destruct (I3 pos r H) as (s & p & A & B & C & D). subst r. cbn [rv_slot rv_part].
      destruct (Forall2_nth _ _ _ _ _ _ _ _ HFs B A) as (Z1 & [Z|(_ & Z2 & Z3)]); [contradiction|]. auto. }
    split; [exact EVS|]. split; [exact EVP|].
    intros i pos Hi. cbn [Nat.add]. apply I4. exact Hi.
  Qed.

  (* ---- provers as the node builds them: MakeProver, then IsValid(.., true) + Add ---- *)
  Lemma built_wf : forall data round pw lnpw parts st b,
    commit_ok sig0 = true -> totw parts < W64 ->
    built true data round pw lnpw parts st b ->
    wf b /\ b_parts b = parts /\ b_data b = data /\ b_round b = round /\ b_lnpw b = lnpw /\ b_st b = st /\ b_pw b = pw.
  Proof.
    intros data round pw lnpw parts st b H0 Ht H. induction H as [|b pos sig b' Hb IH HV HA].
    - split; [apply makeProver_wf; assumption|]. cbn. repeat split; reflexivity.
    - destruct IH as (Hwf & E1 & E2 & E3 & E4 & E5 & E6).
      split; [eapply add_wf; eassumption|].
      unfold add in HA. destruct (present b pos) as [[|]| | |]; try discriminate.
      destruct (nth_error (b_parts b) (N.to_nat pos)); [|discriminate].
      destruct (nth_error (b_sigs b) (N.to_nat pos)); [|discriminate].
      inversion HA; subst b'. cbn. repeat split; assumption.
  Qed.

  Theorem honest_verifies_built : forall data round pw lnpw parts st b nr,
    commit_ok sig0 = true -> totw parts < W64 -> (length parts <= 1024)%nat ->
    vc_complete vcs_root vcs_prove vcs_verify prf_depth ->
    vc_complete vcp_root vcp_prove vcp_verify prf_depth ->
    (forall sd j, 0 < sd_sw sd -> coin sd j < sd_sw sd) ->
    built true data round pw lnpw parts st b ->
    ready b = true ->
    numReveals (Z.of_N (b_sw b)) (Z.of_N lnpw) (Z.of_N st) = WOk nr ->
    exists s, createM b = SOk s /\
      verifyM (mkVerifier st lnpw (vcp_root parts)) round data s = SOk tt.
  Proof.
    intros data round pw lnpw parts st b nr H0 Ht Hn Hvs Hvp Hc Hb Hr Hnr.
    destruct (built_wf _ _ _ _ _ _ _ H0 Ht Hb) as (Hwf & E1 & E2 & E3 & E4 & E5 & E6).
    subst. destruct (honest_verifies b nr Hwf Hn Hvs Hvp Hc Hr Hnr) as (s & A & B & _).
    exists s. split; assumption.
  Qed.

  (* the other outcomes of CreateProof on a well-formed prover *)
  Lemma createProof_not_ready : forall b, ready b = false -> createM b = SErr ENotReady.
  Proof. intros b H. unfold createProof. rewrite H. reflexivity. Qed.
End Honest.

(* ---- REFUTED before /verif/fixes/C39.patch: IsValid(.., true) + Add accept a signature that
   verifies but cannot be committed; CreateProof then fails whatever the signed weight.  The
   instance: one participant of weight 10, proven weight 3 (lnProvenWeight 72000), target 4;
   signature 1 verifies and is not committable (the real one: a genuine signature with
   SingleLeafProof.TreeDepth = 17, replayed by the harness). ---- *)
Definition u_commit_ok (sig : N) : bool := negb (sig =? 1).
Definition u_parts : list (participant N) := [mkPart 7 10].
Definition u_b0 : builder N N N := makeProver 0 0 0 3 72000 u_parts 4.
Definition u_b1 : builder N N N :=
  mkB 0 0 u_parts 72000 3 4 [mkSlot 10 (mkSlotC 1 0)] 10.

Lemma valid_sig_uncommittable_witness :
  StateProofSpec.built 0 0 (fun _ _ => true) u_commit_ok (fun _ _ _ _ => true) false 0 0 3 72000 u_parts 4 u_b1 /\
  ready u_b1 = true /\
  numReveals (Z.of_N (b_sw u_b1)) 72000 4 = WOk 3%Z /\
  createProof (Dig := N) (Prf := N) 0 u_commit_ok (fun _ _ => 0) (fun _ => 0) (fun _ _ => Some 0)
              (fun _ => 0) (fun _ _ => Some 0) u_b1 = SErr ECommit /\
  isValid 0 (fun _ _ => true) u_commit_ok (fun _ _ _ _ => true) u_b0 0 1 true = SErr ECommit.
Proof.
  split; [|vm_compute; repeat split; reflexivity].
  eapply built_add with (b := u_b0) (pos := 0) (sig := 1); [apply built_init | reflexivity | reflexivity].
Qed.
