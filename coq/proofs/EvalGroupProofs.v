(* C19: child isolation, atomicity of TransactionGroup, and what an accepted group leaves
   behind (model/EvalGroup.v). *)
From Coq Require Import NArith PeanoNat List Bool Lia ZifyN ZifyBool.
From Verif.model Require Import Overflow EvalCow EvalApply EvalGroup.
From Verif.proofs Require Import EvalCowProofs.
Import ListNotations.
Open Scope N_scope.

(* ------------------------------------------------------------------ frame lemmas, group level *)
Section FrameTx.
  Variable R : cow -> cow -> Prop.
  Hypothesis Hrefl : forall c, R c c.
  Hypothesis Htrans : forall a b c, R a b -> R b c -> R a c.
  Hypothesis Hput : forall c a x, R c (put c a x).
  Hypothesis Hfee : forall c fee, R c (addfee c fee).
  Hypothesis Hph : forall c a i d, R c (put_holding_delta c a i d).
  Hypothesis Hpp : forall c a i d, R c (put_params_delta c a i d).
  Hypothesis Hcr : forall c i v, R c (set_creatable c i v).
  Hypothesis Haux : forall c l', aux_eq (c_top c) l' -> R c (set_top c l').
  Hypothesis Hsb : forall E app clear script c, same_below c (fst (run_script E app clear script c)).
  Hypothesis Hcommit : forall c c1, same_below (child c) c1 -> R (child c) c1 -> R c (commit c1).
  Hypothesis Haddtx : forall c t l s le, R c (addtx c t l s le).

  Local Notation keeps := (keeps R).

  Ltac kq :=
    repeat lazymatch goal with
      | |- EvalCowProofs.keeps _ (bind _ _) => apply (keeps_bind R Htrans); [|intro]
      | |- EvalCowProofs.keeps _ (ret _) => apply (keeps_ret R Hrefl)
      | |- EvalCowProofs.keeps _ (lift _) => apply (keeps_lift R Hrefl)
      | |- EvalCowProofs.keeps _ (m_lookup _) => apply (keeps_lookup R Hrefl)
      | |- EvalCowProofs.keeps _ (guard _ _) => apply (keeps_guard R Hrefl)
      | |- EvalCowProofs.keeps _ (m_checkdup _ _ _ _ _) => apply (keeps_checkdup R Hrefl)
      | |- EvalCowProofs.keeps _ (when _ _) => apply (keeps_when R Hrefl)
      | |- EvalCowProofs.keeps _ m_counter => apply (keeps_counter R Hrefl)
      | |- EvalCowProofs.keeps _ (apply_transaction _ _ _) => apply (keeps_apply_transaction R Hrefl Htrans Hput Hfee Hph Hpp Hcr Haux Hsb Hcommit)
      end.

  Lemma keeps_addtx t l s le : keeps (m_addtx t l s le).
  Proof. intro c. apply Haddtx. Qed.

  Lemma keeps_check_min_balance E : keeps (check_min_balance E).
  Proof. intro c. apply Hrefl. Qed.

  Lemma keeps_transaction E tx : keeps (transaction E tx).
  Proof.
    unfold transaction. kq; [apply keeps_check_min_balance | apply keeps_addtx].
  Qed.

  Lemma keeps_group_loop E g0 multi txs : keeps (group_loop E g0 multi txs).
  Proof.
    induction txs as [|tx r IH]; cbn [group_loop]; kq; [apply keeps_transaction | exact IH].
  Qed.

  Lemma keeps_group_body E g lf : keeps (group_body E g lf).
  Proof.
    unfold group_body. kq; [apply keeps_group_loop|].
    destruct (summarize_fees g lf). kq.
  Qed.
End FrameTx.

(* ------------------------------------------------------------------ child isolation *)
(* parents and base are never written by anything that runs inside a group *)
Ltac sb_side :=
  intros;
  first [ apply same_below_refl
        | (eapply same_below_trans; eassumption)
        | (split; reflexivity) ].

Lemma run_script_same_below E app clear script c : same_below c (fst (run_script E app clear script c)).
Proof. apply (keeps_run_script same_below); sb_side. Qed.

Lemma commit_same_below c c1 : same_below (child c) c1 -> same_below c (commit c1).
Proof.
  intros [Hp Hb]. cbn [child c_parents c_base] in Hp, Hb. unfold commit. rewrite Hp. split; [reflexivity | exact Hb].
Qed.

Ltac sb_all :=
  first [ exact run_script_same_below
        | (intros ? ? ? ?; apply commit_same_below; assumption)
        | sb_side ].

Lemma group_body_same_below E g lf c : same_below c (fst (group_body E g lf c)).
Proof. apply (keeps_group_body same_below); sb_all. Qed.

(* child_isolation: whatever a group does -- including everything done before a failing
   member -- happens in the child; dropping the child gives back exactly the evaluator's
   cow, the ledger below it included *)
Lemma child_isolation E g lf c :
  let c1 := fst (group_body E g lf (child c)) in
  c_parents c1 = c_top c :: c_parents c /\ c_base c1 = c_base c /\ recycle c1 = c.
Proof.
  cbn zeta. destruct (group_body_same_below E g lf (child c)) as [Hp Hb].
  set (c1 := fst (group_body E g lf (child c))) in *.
  cbn [child c_parents c_base] in Hp, Hb. repeat split; auto.
  unfold recycle. rewrite Hp, Hb. destruct c; reflexivity.
Qed.

(* the same for a single transaction and for Move: no write reaches below the current cow *)
Lemma transaction_same_below E tx c : same_below c (fst (transaction E tx c)).
Proof. apply (keeps_transaction same_below); sb_all. Qed.

Lemma move_same_below E from to amt fr tr c : same_below c (fst (move E from to amt fr tr c)).
Proof. apply (keeps_move same_below); sb_side. Qed.

(* a program -- any script, whatever it does and however it ends -- writes to its calf only,
   and StatefulEval returns the transaction's cow untouched unless the program approved *)
Lemma stateful_eval_same_below E app clear script acc c : same_below c (fst (stateful_eval E app clear script acc c)).
Proof. apply (keeps_stateful_eval same_below); sb_all. Qed.

Lemma stateful_eval_not_approved E app clear script acc c c' r :
  stateful_eval E app clear script acc c = (c', r) -> r <> Ok true -> c' = c.
Proof.
  unfold stateful_eval. pose proof (run_script_same_below E app clear script (child c)) as Hs.
  destruct (run_script E app clear script (child c)) as [c1 [u|e]]; cbn [fst] in Hs.
  - destruct acc; intros H Hr; inversion H; subst; [contradiction | now apply recycle_of_child].
  - intros H _. inversion H. now apply recycle_of_child.
Qed.

(* ------------------------------------------------------------------ group_atomic *)
Theorem group_atomic E ev g lf ev' e :
  transaction_group E ev g lf = (ev', Err e) -> ev' = ev.
Proof.
  unfold transaction_group. destruct (ev_corrupt ev) eqn:Hc.
  - intros H. now inversion H.
  - destruct g as [|tx g']; [discriminate|].
    destruct (p_maxgroup (e_P E) <? N.of_nat (length (tx :: g'))).
    + intros H. now inversion H.
    + destruct (group_body E (tx :: g') lf (child (ev_cow ev))) as [c1 [u|e1]] eqn:Hb; [discriminate|].
      intros H. inversion H. subst.
      pose proof (child_isolation E (tx :: g') lf (ev_cow ev)) as Hi. cbn zeta in Hi.
      rewrite Hb in Hi. cbn [fst] in Hi. destruct Hi as (_ & _ & Hr). rewrite Hr.
      destruct ev. cbn in *. now subst.
Qed.

(* ------------------------------------------------------------------ what a group records *)
(* txids / leases / txnCount of the current cow are only written by addTx *)
Definition same_tx (c c' : cow) : Prop :=
  l_txids (c_top c') = l_txids (c_top c) /\ l_leases (c_top c') = l_leases (c_top c).

Lemma same_tx_refl c : same_tx c c. Proof. repeat split. Qed.
Lemma same_tx_trans a b c : same_tx a b -> same_tx b c -> same_tx a c.
Proof. intros (H1 & H2) (H4 & H5). repeat split; congruence. Qed.

Lemma merge_leases_nil p : merge_leases p [] = p. Proof. reflexivity. Qed.

(* inner transactions are not recorded in Txids / Txleases: a committed calf adds none *)
Lemma commit_same_tx c c1 : same_below (child c) c1 -> same_tx (child c) c1 -> same_tx c (commit c1).
Proof.
  intros [Hp Hb] [Ht Hl]. cbn [child c_parents c_base c_top layer0 l_txids l_leases] in *.
  unfold commit. rewrite Hp. unfold same_tx. cbn [c_top merge_layer l_txids l_leases]. rewrite Ht, Hl, app_nil_r. split; reflexivity.
Qed.

Lemma apply_transaction_same_tx E tx ctr c : same_tx c (fst (apply_transaction E tx ctr c)).
Proof.
  apply (keeps_apply_transaction same_tx);
    first [ exact run_script_same_below
          | exact commit_same_tx
          | exact same_tx_refl
          | exact same_tx_trans
          | (intros c0 l' (H1 & H2 & H3 & H4); split; assumption)
          | (intros; repeat split) ].
Qed.

(* the fee counter is only written by takeFee *)
Definition same_fees (c c' : cow) : Prop := l_fees (c_top c') = l_fees (c_top c).

Definition txrec (tx : txn) : N * N := (t_txid tx, t_lv tx).

Lemma bind_ok {A B} (m : M A) (k : A -> M B) c c' b :
  bind m k c = (c', Ok b) -> exists c1 a, m c = (c1, Ok a) /\ k a c1 = (c', Ok b).
Proof.
  unfold bind. destruct (m c) as [c1 [a|e]]; [|discriminate]. intros H. eauto.
Qed.

Lemma when_ok b (m : M unit) c c' u :
  when b m c = (c', Ok u) -> (b = true /\ m c = (c', Ok u)) \/ (b = false /\ c' = c).
Proof.
  destruct b; cbn [when]; [auto|]. unfold ret. intros H. inversion H. auto.
Qed.

Lemma guard_ok b e c c' u : guard b e c = (c', Ok u) -> b = true /\ c' = c.
Proof. destruct b; cbn [guard]; unfold ret, fail; intros H; inversion H; auto. Qed.

Lemma transaction_records E tx c c' u :
  transaction E tx c = (c', Ok u) ->
  l_txids (c_top c') = l_txids (c_top c) ++ [txrec tx].
Proof.
  unfold transaction. intros H.
  apply bind_ok in H. destruct H as (c1 & [] & H1 & H).
  apply bind_ok in H. destruct H as (c1' & ctr & Hctr & H).
  unfold m_counter in Hctr. inversion Hctr. subst c1' ctr. clear Hctr.
  apply bind_ok in H. destruct H as (c2 & ad & H2 & H).
  apply bind_ok in H. destruct H as (c3 & [] & H3 & H).
  unfold m_addtx in H. inversion H. subst c'. clear H.
  assert (S1 : same_tx c c1).
  { apply when_ok in H1. destruct H1 as [[_ H1]|[_ ->]]; [|apply same_tx_refl].
    pose proof (@keeps_bind (fun a b : cow => b = a) (fun a b c (H1 : b = a) (H2 : c = b) => eq_trans H2 H1)) as KB.
    assert (K : keeps (fun a b : cow => b = a)
      (guard ((t_fv tx <=? e_rnd E) && (e_rnd E <=? t_lv tx)) E_DEAD ;;;
       guard (t_genok tx) E_GENESIS ;;;
       m_checkdup (e_P E) (e_rnd E) (t_txid tx) (t_sender tx) (t_lease tx) ;;;
       acctdata <- m_lookup (t_sender tx) ;;
       guard (t_authorizer tx =? (if a_auth acctdata =? 0 then t_sender tx else a_auth acctdata)) E_AUTH)).
    { repeat (apply KB; [|intro]);
        first [apply keeps_guard | apply keeps_checkdup | apply keeps_lookup]; reflexivity. }
    specialize (K c). rewrite H1 in K. cbn [fst] in K. subst c1. apply same_tx_refl. }
  assert (S2 : same_tx c1 c2).
  { pose proof (apply_transaction_same_tx E tx (counter c1) c1) as K. rewrite H2 in K. exact K. }
  assert (S3 : c3 = c2).
  { apply when_ok in H3. destruct H3 as [[_ H3]|[_ ->]]; [|reflexivity].
    unfold check_min_balance in H3. now inversion H3. }
  subst c3. destruct (same_tx_trans _ _ _ S1 S2) as (T1 & T2).
  unfold addtx. cbn [c_top set_top upd_tx l_txids l_txncount]. rewrite T1. reflexivity.
Qed.

Lemma group_loop_records E g0 multi txs c c' u :
  group_loop E g0 multi txs c = (c', Ok u) ->
  l_txids (c_top c') = l_txids (c_top c) ++ map txrec txs.
Proof.
  revert c. induction txs as [|tx r IH]; intros c; cbn [group_loop map].
  - unfold ret. intros H. inversion H. now rewrite app_nil_r.
  - intros H.
    apply bind_ok in H. destruct H as (c1 & [] & H1 & H).
    apply bind_ok in H. destruct H as (c2 & [] & H2 & H).
    apply bind_ok in H. destruct H as (c3 & [] & H3 & H).
    apply guard_ok in H2. destruct H2 as [_ ->]. apply guard_ok in H3. destruct H3 as [_ ->].
    apply IH in H. apply transaction_records in H1.
    rewrite H, H1, <- app_assoc. reflexivity.
Qed.

Lemma group_body_records E g lf c c' u :
  group_body E g lf c = (c', Ok u) ->
  l_txids (c_top c') = l_txids (c_top c) ++ map txrec g.
Proof.
  unfold group_body. intros H.
  apply bind_ok in H. destruct H as (c1 & [] & H1 & H).
  apply bind_ok in H. destruct H as (c2 & [] & H2 & H).
  apply bind_ok in H. destruct H as (c3 & [] & H3 & H).
  destruct (summarize_fees g lf). unfold lift in H. inversion H. subst c'.
  apply guard_ok in H3. destruct H3 as [_ ->].
  apply group_loop_records in H2. rewrite H2. f_equal.
  apply when_ok in H1. destruct H1 as [[_ H1]|[_ ->]]; [|reflexivity].
  apply guard_ok in H1. now destruct H1 as [_ ->].
Qed.

(* okc is an invariant of everything a group does *)
Definition ok_rel (c c' : cow) : Prop := okc c -> okc c'.

Lemma ukeys_merge_accts into from : ukeys into -> ukeys (merge_accts into from).
Proof.
  revert into. induction from as [|[k v] r IH]; intros into H; cbn [merge_accts]; [exact H|].
  apply IH. now apply ukeys_aupsert.
Qed.

Lemma commit_okc c c1 : same_below (child c) c1 -> ok_rel (child c) c1 -> ok_rel c (commit c1).
Proof.
  intros [Hp Hb] _ Hok. cbn [child c_parents] in Hp. unfold okc, commit. rewrite Hp.
  cbn [c_top merge_layer l_accts]. now apply ukeys_merge_accts.
Qed.

Ltac ok_side :=
  first [ exact run_script_same_below
        | exact commit_okc
        | (unfold ok_rel; intros c0 l' (H1 & _) H; unfold okc in *; cbn [set_top c_top]; rewrite H1; exact H)
        | (unfold ok_rel; intros; now apply okc_put)
        | (unfold ok_rel; now auto) ].

Lemma group_body_okc E g lf c : okc c -> okc (fst (group_body E g lf c)).
Proof. apply (keeps_group_body ok_rel); ok_side. Qed.

Lemma run_script_okc E app clear script c : okc c -> okc (fst (run_script E app clear script c)).
Proof. apply (keeps_run_script ok_rel); ok_side. Qed.

(* group_all: an accepted group leaves exactly the effects of ALL its members: the view of
   every account is the one the child had after the last member, the Payset and the
   transaction-id list grew by the whole group in order, and nothing below the evaluator's
   cow was touched *)
Theorem group_all E ev g lf ev' :
  g <> [] -> transaction_group E ev g lf = (ev', Ok tt) ->
  exists c1, group_body E g lf (child (ev_cow ev)) = (c1, Ok tt) /\
    ev_cow ev' = commit c1 /\
    (forall a, lookup (ev_cow ev') a = lookup c1 a) /\
    ev_payset ev' = ev_payset ev ++ map t_txid g /\
    l_txids (c_top (ev_cow ev')) = l_txids (c_top (ev_cow ev)) ++ map txrec g /\
    c_parents (ev_cow ev') = c_parents (ev_cow ev) /\ c_base (ev_cow ev') = c_base (ev_cow ev).
Proof.
  intros Hne. unfold transaction_group. destruct (ev_corrupt ev); [discriminate|].
  destruct g as [|tx g']; [contradiction|].
  destruct (p_maxgroup (e_P E) <? N.of_nat (length (tx :: g'))); [discriminate|].
  destruct (group_body E (tx :: g') lf (child (ev_cow ev))) as [c1 [[]|e1]] eqn:Hb; [|discriminate].
  intros H. inversion H. subst ev'. clear H. cbn [ev_cow ev_payset].
  exists c1. split; [reflexivity|]. split; [reflexivity|].
  pose proof (child_isolation E (tx :: g') lf (ev_cow ev)) as Hi. cbn zeta in Hi.
  rewrite Hb in Hi. cbn [fst] in Hi. destruct Hi as (Hp & Hbase & _).
  pose proof (group_body_okc E (tx :: g') lf (child (ev_cow ev)) (okc_child _)) as Hok.
  rewrite Hb in Hok. cbn [fst] in Hok.
  split; [intro a; now apply lookup_commit|]. split; [reflexivity|].
  pose proof (group_body_records _ _ _ _ _ _ Hb) as Ht. cbn [child c_top layer0 l_txids app] in Ht.
  unfold commit. rewrite Hp. cbn [c_top c_parents c_base merge_layer l_txids].
  rewrite Ht. repeat split; auto.
Qed.

(* ------------------------------------------------------------------ panics and corruptedState *)
Lemma tgp_none E ev g lf : transaction_group_p E ev g lf None = transaction_group E ev g lf.
Proof.
  unfold transaction_group_p, transaction_group. destruct (ev_corrupt ev); [reflexivity|].
  destruct g; [reflexivity|]. destruct (p_maxgroup (e_P E) <? _); reflexivity.
Qed.

Lemma loop_prefix_same_below E g i c :
  same_below c (fst ((when (e_validate E) (guard (forallb t_wf g) E_WF) ;;;
                      group_loop E (first_grp g) (1 <? N.of_nat (length g)) (firstn i g)) c)).
Proof.
  apply (keeps_bind same_below same_below_trans).
  - apply (keeps_when same_below same_below_refl). apply (keeps_guard same_below same_below_refl).
  - intro. apply (keeps_group_loop same_below); sb_all.
Qed.

Lemma evalst_eta ev : mkEval (ev_cow ev) (ev_payset ev) (ev_corrupt ev) = ev.
Proof. destruct ev; reflexivity. Qed.

(* a panic before the commit point -- in any transaction of the loop -- is a clean rejection:
   the evaluator is exactly as before and stays usable *)
Theorem panic_before_commit_clean E ev g lf i :
  ev_corrupt ev = false -> g <> [] -> (i < length g)%nat ->
  exists e, transaction_group_p E ev g lf (Some (PLoop i)) = (ev, Err e).
Proof.
  intros Hc Hne Hi. unfold transaction_group_p. rewrite Hc.
  destruct g as [|tx g']; [contradiction|].
  destruct (p_maxgroup (e_P E) <? N.of_nat (length (tx :: g'))); [eexists; reflexivity|].
  apply Nat.ltb_lt in Hi. rewrite Hi.
  pose proof (loop_prefix_same_below E (tx :: g') i (child (ev_cow ev))) as Hs.
  destruct ((when (e_validate E) (guard (forallb t_wf (tx :: g')) E_WF) ;;;
             group_loop E (first_grp (tx :: g')) (1 <? N.of_nat (length (tx :: g'))) (firstn i (tx :: g'))) (child (ev_cow ev)))
    as [c1 [u|e]]; cbn [fst] in Hs; rewrite (recycle_of_child _ _ Hs), <- Hc, evalst_eta; eexists; reflexivity.
Qed.

(* a panic from the commit point on: either the group had already failed before reaching it
   (clean, as always), or the evaluator is marked corrupted *)
Theorem panic_marks_corrupted E ev g lf k ev' r :
  transaction_group_p E ev g lf (Some (PCommit k)) = (ev', r) ->
  (exists e, r = Err e /\ ev' = ev) \/ r = Ok tt /\ g = [] /\ ev' = ev \/ (r = Err E_PANIC /\ ev_corrupt ev' = true).
Proof.
  unfold transaction_group_p. destruct (ev_corrupt ev) eqn:Hc.
  { intros H. inversion H. left. eauto. }
  destruct g as [|tx g']. { intros H. inversion H. right. left. auto. }
  destruct (p_maxgroup (e_P E) <? N.of_nat (length (tx :: g'))). { intros H. inversion H. left. eauto. }
  pose proof (group_body_same_below E (tx :: g') lf (child (ev_cow ev))) as Hs.
  destruct (group_body E (tx :: g') lf (child (ev_cow ev))) as [c1 [u|e]]; cbn [fst] in Hs; intros H; inversion H.
  - right. right. auto.
  - left. exists e. split; [reflexivity|]. rewrite (recycle_of_child _ _ Hs), <- Hc. apply evalst_eta.
Qed.

(* a corrupted evaluator refuses everything and changes nothing *)
Theorem corrupted_refuses E ev :
  ev_corrupt ev = true ->
  (forall g lf pp, transaction_group_p E ev g lf pp = (ev, Err E_CORRUPT)) /\
  (forall g lf, transaction_group E ev g lf = (ev, Err E_CORRUPT)) /\
  (forall expired absent, generate_block E ev expired absent = Err E_CORRUPT).
Proof.
  intros Hc. repeat split; intros.
  - unfold transaction_group_p. now rewrite Hc.
  - unfold transaction_group. now rewrite Hc.
  - unfold generate_block. now rewrite Hc.
Qed.

(* every call, whatever panics: it either applies the whole group (and equals the panic-free
   call), or leaves the evaluator untouched, or leaves it corrupted *)
Theorem tgp_trichotomy E ev g lf pp ev' r :
  transaction_group_p E ev g lf pp = (ev', r) ->
  (r = Ok tt /\ transaction_group E ev g lf = (ev', Ok tt)) \/
  (exists e, r = Err e /\ ev' = ev) \/
  (r = Err E_PANIC /\ ev_corrupt ev' = true).
Proof.
  intros H. destruct pp as [[i|k]|].
  - destruct (ev_corrupt ev) eqn:Hc.
    { unfold transaction_group_p in H. rewrite Hc in H. inversion H. right. left. eauto. }
    destruct g as [|tx g'].
    { unfold transaction_group_p in H. rewrite Hc in H. inversion H. subst. left. split; [reflexivity|].
      unfold transaction_group. now rewrite Hc. }
    destruct (Nat.ltb i (length (tx :: g'))) eqn:Hi.
    + apply Nat.ltb_lt in Hi.
      destruct (panic_before_commit_clean E ev (tx :: g') lf i Hc ltac:(discriminate) Hi) as [e He].
      rewrite He in H. inversion H. right. left. eauto.
    + unfold transaction_group_p in H. rewrite Hc, Hi in H.
      destruct (p_maxgroup (e_P E) <? N.of_nat (length (tx :: g'))) eqn:Hsz.
      { inversion H. right. left. eauto. }
      destruct r as [[]|e].
      * left. auto.
      * right. left. exists e. split; [reflexivity|]. eapply group_atomic; eauto.
  - destruct (panic_marks_corrupted _ _ _ _ _ _ _ H) as [(e & -> & ->)|[(-> & -> & ->)|[-> Hc]]].
    + right. left. eauto.
    + left. split; [reflexivity|]. unfold transaction_group_p in H. unfold transaction_group.
      destruct (ev_corrupt ev); [discriminate | reflexivity].
    + right. right. auto.
  - rewrite tgp_none in H. destruct r as [[]|e].
    + left. auto.
    + right. left. exists e. split; [reflexivity|]. eapply group_atomic; eauto.
Qed.

(* once corrupted, always corrupted, and frozen *)
Lemma run_calls_corrupted E ev calls : ev_corrupt ev = true -> run_calls E ev calls = ev.
Proof.
  intros Hc. induction calls as [|[[g lf] pp] r IH]; cbn [run_calls]; [reflexivity|].
  destruct (corrupted_refuses E ev Hc) as [H _]. rewrite H. exact IH.
Qed.

(* the evaluator states reachable by whole, accepted groups only *)
Inductive whole (E : env) (ev0 : evalst) : evalst -> Prop :=
| whole_refl : whole E ev0 ev0
| whole_step : forall ev g lf ev', whole E ev0 ev -> transaction_group E ev g lf = (ev', Ok tt) -> whole E ev0 ev'.

(* no block with a half-applied group: after ANY sequence of TransactionGroup calls with ANY
   panics, an evaluator that is not marked corrupted (the only kind GenerateBlock accepts) is in
   a state reached by whole accepted groups *)
Theorem uncorrupted_means_whole_groups E ev0 calls :
  ev_corrupt (run_calls E ev0 calls) = false -> whole E ev0 (run_calls E ev0 calls).
Proof.
  assert (G : forall ev, whole E ev0 ev -> ev_corrupt (run_calls E ev calls) = false -> whole E ev0 (run_calls E ev calls)).
  { induction calls as [|[[g lf] pp] r IH]; intros ev Hw Hc; cbn [run_calls] in *; [exact Hw|].
    destruct (transaction_group_p E ev g lf pp) as [ev' res] eqn:Ht. cbn [fst] in *.
    destruct (tgp_trichotomy _ _ _ _ _ _ _ Ht) as [[_ Hok]|[(e & _ & ->)|[_ Hcor]]].
    - apply IH; [|exact Hc]. eapply whole_step; eauto.
    - apply IH; assumption.
    - rewrite (run_calls_corrupted E ev' r Hcor) in Hc. congruence. }
  apply G. constructor.
Qed.

Theorem generate_needs_uncorrupted E ev expired absent ev' :
  generate_block E ev expired absent = Ok ev' -> ev_corrupt ev = false.
Proof. unfold generate_block. destruct (ev_corrupt ev); [discriminate | reflexivity]. Qed.
