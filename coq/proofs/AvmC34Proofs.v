(* C34: the statements of props/C34.v about the regenerated tables + the frame. *)
From Coq Require Import List NArith ZArith String Bool Arith Lia.
From Verif.lib Require Import Term.
From Verif.model Require Import AvmTypes AvmFrame AvmTable AvmC34Check.
From Verif.gen Require Import AvmTables.
From Verif.proofs Require Import AvmFrameProofs AvmAgreeProofs AvmTableProofs.
Import ListNotations.

Section Gen.
  Variable lsv : N.
  Variable W : Type.
  Variable bmax : Z.
  Variable isolate : bool.
  Variable opf : opspec -> list N -> state W -> outcome W.

  Notation gstep := (step gen_tbl max_depth_nat max_string_size W bmax isolate opf).

  (* a signature-mode program can never execute a ledger-touching opcode, whatever the op
     functions do, at any version, from any state *)
  Theorem sig_mode_excludes_state_ops_thm : forall v prog st,
      touches_ledger (os_name (get_op_spec gen_tbl v prog (st_pc W st))) = true ->
      gstep v mode_sig prog st = Err EMode \/ gstep v mode_sig prog st = Err EIllegal.
  Proof.
    intros v prog st Ht.
    destruct (os_hasop (get_op_spec gen_tbl v prog (st_pc W st))) eqn:Hop.
    - left. apply step_rejects_mode; [exact Hop|]. now apply gen_sig_excludes.
    - right. now apply step_rejects_unknown.
  Qed.

  (* whatever instruction a version-v program executes successfully was introduced at or before
     v, is an OpSpecs entry, allows the current mode, and -- for op families that validate their
     field immediates against the field tables -- only names fields of version <= v usable in
     the current mode *)
  Theorem executed_instruction_is_allowed_thm : forall v mode prog st st',
      (v <= logic_version)%N -> (byte_at prog (st_pc W st) < 256)%N ->
      (forall s st1 stack' n calls' pool' w',
          opf s prog st1 = OOk W stack' n calls' pool' w' -> field_gate v mode s prog (st_pc W st1) = true) ->
      gstep v mode prog st = Ok st' ->
      let s := get_op_spec gen_tbl v prog (st_pc W st) in
      (os_version s <= v)%N /\
      (if N.eqb v 0 then exists s1, In s1 src_specs /\ os_version s1 = 1%N /\ s = with_version s1 0
       else In s src_specs) /\
      N.land mode (os_modes s) <> 0%N /\
      field_gate v mode s prog (st_pc W st) = true.
  Proof.
    intros v mode prog st st' Hv Hb Hf Hs s.
    destruct (step_ok_inv gen_tbl max_depth_nat max_string_size W bmax isolate opf v mode prog st st' Hs)
      as (Hop & Hmode & _ & c & stack' & n & calls' & pool' & w' & _ & _ & _ & Hopf & _).
    destruct (dispatch_respects_version_gen v prog (st_pc W st) Hv Hb Hop) as [H1 H2].
    split; [exact H1|]. split; [exact H2|]. split; [exact Hmode|].
    apply (Hf _ _ _ _ _ _ _ Hopf).
  Qed.

  (* static check and execution agree on instruction boundaries and branch targets *)
  Theorem check_eval_agree_gen : forall mode maxcost minv acc prog v vlen starts st0 st,
      begin_prog lsv logic_version prog minv acc = Ok (v, vlen) ->
      check_prog gen_tbl lsv max_string_size logic_version mode maxcost minv acc prog = Some (Ok starts) ->
      (forall s st1 stack' n calls' pool' w',
          opf s prog st1 = OOk W stack' n calls' pool' w' ->
          ctl_allowed lsv max_string_size v s prog (st_pc W st1) (st_calls W st1) n calls' = true) ->
      st_pc W st0 = vlen -> st_calls W st0 = [] ->
      reach gen_tbl max_depth_nat max_string_size W bmax isolate opf v mode prog st0 st ->
      ((st_pc W st < List.length prog)%nat -> In (st_pc W st) starts) /\
      Forall (fun r => (r < List.length prog)%nat -> In r starts) (st_calls W st).
  Proof.
    intros mode maxcost minv acc prog v vlen starts st0 st Hb Hck Hopf Hpc Hc Hr.
    unfold check_prog in Hck. destruct (N.eqb lsv 0); [discriminate|]. rewrite Hb in Hck.
    eapply (check_eval_agree gen_tbl lsv max_depth_nat max_string_size W bmax isolate opf v mode prog
                             (fun pc => gen_kinds_ok v prog pc) Hopf); eauto.
  Qed.
End Gen.

(* ---- the source-level oracle of the checker agrees with the dispatch table *)
Definition dispatch_at (v opcode sub : N) : opspec :=
  let '(e, subs) := gen_tbl v opcode in
  if is_prefix_src opcode then nth (N.to_nat sub) subs zero_spec else e.

Definition src_lookup_agrees_at (v opcode sub : N) : bool :=
  match src_lookup v opcode sub with
  | Some s => spec_eqb (dispatch_at v opcode sub) (if N.eqb v 0 then with_version s 0 else s)
  | None => negb (os_hasop (dispatch_at v opcode sub))
  end.

Lemma src_lookup_agrees :
  forallb (fun v => forallb (fun op =>
     if is_prefix_src op then forallb (src_lookup_agrees_at v op) all_bytes else src_lookup_agrees_at v op 0)
     all_bytes) all_versions = true.
Proof. vm_compute. reflexivity. Qed.


(* the checker's source-level oracle (src_lookup over OpSpecs in source order) names exactly the
   spec the dispatch table holds, for every version, opcode and sub-opcode *)
Theorem src_lookup_is_dispatch : forall v op sub,
    (v <= logic_version)%N -> (op < 256)%N -> (sub < 256)%N ->
    (is_prefix_src op = false -> sub = 0%N) -> src_lookup_agrees_at v op sub = true.
Proof.
  intros v op sub Hv Hop Hsub Hp.
  pose proof src_lookup_agrees as H0.
  rewrite forallb_forall in H0. specialize (H0 v (in_all_versions v Hv)).
  rewrite forallb_forall in H0. specialize (H0 op (in_all_bytes op Hop)).
  destruct (is_prefix_src op) eqn:E.
  - rewrite forallb_forall in H0. exact (H0 sub (in_all_bytes sub Hsub)).
  - rewrite (Hp eq_refl). exact H0.
Qed.

(* ---- non-vacuity: a program with forward branches passes the static check and runs *)
Definition ex_prog : list N := [4; 66; 0; 1; 0; 66; 0; 0]%N.   (* v4: b +1; err; b +0 *)
Definition ex_st (pc : nat) (cost : Z) : state unit := mkSt unit pc [] [] cost None tt.

Example ex_check : check_prog gen_tbl 14 max_string_size logic_version ModeSig 20000 0 false ex_prog
                   = Some (Ok [5; 4; 1]%nat).
Proof. vm_compute. reflexivity. Qed.

Example ex_reach :
  reach gen_tbl max_depth_nat max_string_size unit 20000 false (ref_opf 14 max_string_size 4) 4 ModeSig ex_prog
        (ex_st 1 0) (ex_st 8 2).
Proof.
  eapply reach_step; [vm_compute; lia | vm_compute; reflexivity |].
  eapply reach_step; [vm_compute; lia | vm_compute; reflexivity |].
  apply reach_refl.
Qed.
