(* C32 proofs, part 4: the per-opcode results grouped by family (the statements of props/C32.v). *)
From Coq Require Import NArith ZArith List Bool.
Import ListNotations.
From Verif.model Require Import AvmArith AvmArithSpec.
From Verif.proofs Require Import AvmArithUint AvmArithBytes.
Open Scope N_scope.

Lemma basic_arith_spec : forall a b, a < W -> b < W ->
  opPlus a b = (if a + b <? W then Ok [U (a + b)] else Err) /\
  opMinus a b = (if b <=? a then Ok [U (a - b)] else Err) /\
  opMul a b = (if a * b <? W then Ok [U (a * b)] else Err) /\
  opDiv a b = (if b =? 0 then Err else Ok [U (a / b)]) /\
  opModulo a b = (if b =? 0 then Err else Ok [U (a mod b)]).
Proof.
  intros a b Ha Hb. repeat split.
  - apply plus_spec; assumption.
  - apply minus_spec; assumption.
  - apply mul_spec; assumption.
Qed.

Lemma wide_add_mul_spec : forall a b, a < W -> b < W ->
  (exists hi lo, opAddw a b = Ok [U hi; U lo] /\ hi * W + lo = a + b /\ lo < W /\ hi <= 1) /\
  (exists hi lo, opMulw a b = Ok [U hi; U lo] /\ hi * W + lo = a * b /\ lo < W /\ hi < W).
Proof. intros a b Ha Hb. split; [apply addw_exact | apply mulw_exact]; assumption. Qed.

Lemma divmodw_full_spec : forall a b c d, a < W -> b < W -> c < W -> d < W ->
  (c * W + d = 0 -> opDivModw a b c d = Err) /\
  (c * W + d <> 0 ->
   exists qh ql rh rl, opDivModw a b c d = Ok [U qh; U ql; U rh; U rl] /\
     qh < W /\ ql < W /\ rh < W /\ rl < W /\
     (qh * W + ql) * (c * W + d) + (rh * W + rl) = a * W + b /\ rh * W + rl < c * W + d).
Proof.
  intros a b c d Ha Hb Hc Hd. split.
  - intros E. rewrite divmodw_spec by assumption. cbv zeta. rewrite E. reflexivity.
  - intros E. apply divmodw_exact; assumption.
Qed.

Lemma shifts_spec : forall a s,
  opShiftLeft a s = (if 63 <? s then Err else Ok [U ((a * 2 ^ s) mod W)]) /\
  opShiftRight a s = (if 63 <? s then Err else Ok [U (a / 2 ^ s)]).
Proof. intros. split; [apply shl_spec | apply shr_spec]. Qed.

Lemma sqrt_full_spec :
  (forall x, x < W -> opSqrt x = Ok [U (N.sqrt x)]) /\
  (forall x k st, x < W -> sqrt_inv x (S k) st -> sqrt_inv x k (sqrt_step st)).
Proof. split; [exact sqrt_spec | exact sqrt_step_inv]. Qed.

Lemma exp_expw_spec : forall a e, a < W -> e < W ->
  opExp a e = (if (a =? 0) && (e =? 0) then Err
               else if a ^ e <? W then Ok [U (a ^ e)] else Err) /\
  opExpw a e = (if (a =? 0) && (e =? 0) then Err
                else if a ^ e <? 2 ^ 128 then Ok [U (a ^ e / W); U (a ^ e mod W)] else Err).
Proof. intros a e Ha He. split; [apply exp_spec | apply expw_spec]; assumption. Qed.

Lemma bitlen_full_spec :
  (forall a, opBitLen (U a) = Ok [U (bitlen_of a)]) /\
  (forall l, bytes_wf l -> opBitLen (B l) = Ok [U (bitlen_of (be_val l))]) /\
  (forall n k, bitlen_of n = k <-> (n < 2 ^ k /\ (k = 0 \/ 2 ^ (k - 1) <= n))).
Proof.
  split; [exact bitlen_u_spec|]. split; [|exact bitlen_of_char].
  intros l H. cbn [opBitLen]. rewrite bitlen_bytes_spec by assumption. reflexivity.
Qed.

Lemma compare_not_spec : forall a b, a < W ->
  lt_v a b = b2u (a <? b) /\ gt_v a b = b2u (b <? a) /\
  le_v a b = b2u (a <=? b) /\ ge_v a b = b2u (b <=? a) /\
  opBitNot a = Ok [U (W - 1 - a)].
Proof.
  intros a b Ha. destruct (cmp_spec a b) as (H1 & H2 & H3 & H4).
  repeat split; try assumption. apply bitnot_spec. assumption.
Qed.

Lemma bits_uint_spec : forall t i b,
  opGetBit (U t) i = (if 63 <? i then Err else Ok [U (b2u (N.testbit t i))]) /\
  opSetBit (U t) i b =
  (if 1 <? b then Err else if 63 <? i then Err
   else Ok [U (if b =? 1 then (if N.testbit t i then t else t + 2 ^ i)
               else (if N.testbit t i then t - 2 ^ i else t))]).
Proof. intros. split; [apply getbit_u_spec | apply setbit_u_spec]. Qed.

Lemma conversions_spec :
  (forall l, bytes_wf l -> opBtoi l = if 8 <? blen l then Err else Ok [U (be_val l)]) /\
  (forall a, a < W -> exists l, opItob a = Ok [B l] /\ be_val l = a /\ bytes_wf l /\ length l = 8%nat) /\
  (forall a, a < W -> forall l, opItob a = Ok [B l] -> opBtoi l = Ok [U a]) /\
  (forall l, bytes_wf l -> length l = 8%nat ->
     exists a, opBtoi l = Ok [U a] /\ a < W /\ opItob a = Ok [B l]).
Proof. repeat split; [exact btoi_spec | exact itob_spec | exact btoi_itob | exact itob_btoi]. Qed.

Lemma bytes_codec_spec :
  (forall l, setbytes l = be_val l) /\
  (forall n, be_val (bigbytes n) = n /\ bytes_wf (bigbytes n) /\ hd 1 (bigbytes n) <> 0).
Proof. split; [exact setbytes_val | exact bigbytes_min]. Qed.

Lemma bytes_arith_spec : forall a b,
  opBytesPlus a b = guard64 a b (Ok [B (bigbytes (be_val a + be_val b))]) /\
  opBytesMinus a b =
    guard64 a b (if be_val a <? be_val b then Err else Ok [B (bigbytes (be_val a - be_val b))]) /\
  opBytesMul a b = guard64 a b (Ok [B (bigbytes (be_val a * be_val b))]) /\
  opBytesDiv a b =
    guard64 a b (if be_val b =? 0 then Err else Ok [B (bigbytes (be_val a / be_val b))]) /\
  opBytesModulo a b =
    guard64 a b (if be_val b =? 0 then Err else Ok [B (bigbytes (be_val a mod be_val b))]) /\
  opBytesSqrt a = (if 64 <? blen a then Err else Ok [B (bigbytes (N.sqrt (be_val a)))]).
Proof.
  intros a b. repeat split;
    [apply bplus_spec | apply bminus_spec | apply bmul_spec | apply bdiv_spec | apply bmod_spec | apply bsqrt_spec].
Qed.

Lemma bytes_bitwise_spec : forall a b, bytes_wf a -> bytes_wf b ->
  (exists l, opBytesBitOr a b = Ok [B l] /\ be_val l = N.lor (be_val a) (be_val b) /\
             bytes_wf l /\ length l = Nat.max (length a) (length b)) /\
  (exists l, opBytesBitAnd a b = Ok [B l] /\ be_val l = N.land (be_val a) (be_val b) /\
             bytes_wf l /\ length l = Nat.max (length a) (length b)) /\
  (exists l, opBytesBitXor a b = Ok [B l] /\ be_val l = N.lxor (be_val a) (be_val b) /\
             bytes_wf l /\ length l = Nat.max (length a) (length b)) /\
  (exists l, opBytesBitNot a = Ok [B l] /\ be_val l = 2 ^ (8 * blen a) - 1 - be_val a /\
             bytes_wf l /\ length l = length a).
Proof.
  intros a b Ha Hb. split; [apply bor_spec; assumption|]. split; [apply band_spec; assumption|].
  split; [apply bxor_spec; assumption | apply bnot_spec; assumption].
Qed.

Lemma bits_bytes_spec : forall l idx bit, bytes_wf l ->
  opGetBit (B l) idx =
    (if 8 * blen l <=? idx then Err
     else Ok [U (b2u (N.testbit (be_val l) (8 * blen l - 1 - idx)))]) /\
  ((1 <? bit) || (8 * blen l <=? idx) = true -> opSetBit (B l) idx bit = Err) /\
  (bit <= 1 -> idx < 8 * blen l ->
   let v := be_val l in let k := 8 * blen l - 1 - idx in
   exists l', opSetBit (B l) idx bit = Ok [B l'] /\
     be_val l' = (if bit =? 1 then (if N.testbit v k then v else v + 2 ^ k)
                  else (if N.testbit v k then v - 2 ^ k else v)) /\
     bytes_wf l' /\ length l' = length l).
Proof.
  intros l idx bit Hw. split; [apply getbit_b_spec; assumption|].
  split; [apply setbit_b_err | apply setbit_b_spec; assumption].
Qed.

Lemma byte_access_spec : forall l i v,
  opGetByte l i = (if blen l <=? i then Err else Ok [U (byte_at l i)]) /\
  opSetByte l i v =
    (if 255 <? v then Err else if blen l <=? i then Err else Ok [B (replace_at l i v)]).
Proof. intros. split; [apply getbyte_spec | apply setbyte_spec]. Qed.
