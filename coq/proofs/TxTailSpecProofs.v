(* C11: the statements of props/C11.v, derived from the invariant (TxTailInv) and the evaluator
   lemmas (TxTailEval); the Prop-level reading of spec_dup; the refutation witness for the
   original (single-row skipping) loader. *)
From Coq Require Import NArith List Bool Lia ZifyN ZifyNat ZifyBool.
From Verif.model Require Import TxTail TxTailSpec.
From Verif.proofs Require Import TxTailBasics TxTailInv TxTailEval.
Import ListNotations.
Open Scope N_scope.

(* a committed transaction holds lease k at round cur *)
Definition lease_held (B : blocks_t) (p : proto) (k : lkey) (cur fv : N) : Prop :=
  exists r x, committed B r x /\ t_key x = k /\ cur <= t_lv x /\ (p_fix p = true \/ fv <= r).
(* a transaction with this id and lastValid is in some block *)
Definition tx_committed (B : blocks_t) (lv id : N) : Prop :=
  exists r x, committed B r x /\ t_lv x = lv /\ t_id x = id.
Definition lease_blocked (B : blocks_t) (p : proto) (k : lkey) (cur fv : N) : Prop :=
  p_sup p = true /\ snd k <> 0 /\ lease_held B p k cur fv.

Section Spec.
Variable p : proto.

Lemma reach_inv : forall ops s, run p sys0 ops = Some s -> Inv p s.
Proof. intros ops s H. apply (run_inv p ops sys0 s (inv_sys0 p) H). Qed.

Lemma history_never_fails : forall ops s o,
  run p sys0 ops = Some s -> op_ok p s o = true -> snd (step p s o) = OK.
Proof.
  intros ops s o H Hok. destruct (step_inv p s o (reach_inv _ _ H) Hok) as [s' [E _]]. rewrite E. reflexivity.
Qed.

Lemma checkDup_exact : forall ops s cur fv lv id k,
  run p sys0 ops = Some s -> cur = s_latest s + 1 -> cur <= lv ->
  checkDup (s_tail s) p cur fv lv id k = spec_dup (s_blocks s) (s_latest s) p cur fv lv id k.
Proof. intros. apply checkDup_exact_inv; auto. eapply reach_inv; eauto. Qed.

(* ---------- spec_dup, read as a proposition ---------- *)
Lemma holds_lease_iff : forall B n k cur fv, BInv p B n ->
  (committed_some B n (holds_lease p k cur fv) = true <-> lease_held B p k cur fv).
Proof.
  intros B n k cur fv HB. rewrite (committed_some_iff p _ _ _ HB). unfold lease_held, holds_lease. split.
  - intros [r [x [Hc H]]]. apply andb_true_iff in H. destruct H as [H H3]. apply andb_true_iff in H.
    destruct H as [H1 H2]. apply lkey_eqb_eq in H1. exists r, x.
    split; [exact Hc|]. split; [exact H1|]. split; [lia|].
    destruct (p_fix p); [left; reflexivity|right; cbn [orb] in H3; lia].
  - intros [r [x [Hc [H1 [H2 H3]]]]]. exists r, x. split; [exact Hc|].
    rewrite H1, lkey_eqb_refl. cbn [andb]. apply andb_true_iff. split; [lia|].
    destruct H3 as [->|H3]; [reflexivity|]. apply orb_true_iff. right. lia.
Qed.

Lemma same_tx_iff : forall B n lv id, BInv p B n ->
  (committed_some B n (same_tx lv id) = true <-> tx_committed B lv id).
Proof.
  intros B n lv id HB. rewrite (committed_some_iff p _ _ _ HB). unfold tx_committed, same_tx. split.
  - intros [r [x [Hc H]]]. exists r, x. split; [exact Hc|lia].
  - intros [r [x [Hc [H1 H2]]]]. exists r, x. split; [exact Hc|lia].
Qed.

Lemma spec_dup_sound_inv : forall B n cur fv lv id k, BInv p B n ->
  (spec_dup B n p cur fv lv id k = DupLease <-> lease_blocked B p k cur fv) /\
  (spec_dup B n p cur fv lv id k = DupTx <-> ~ lease_blocked B p k cur fv /\ tx_committed B lv id) /\
  (spec_dup B n p cur fv lv id k = DupNone <-> ~ lease_blocked B p k cur fv /\ ~ tx_committed B lv id).
Proof.
  intros B n cur fv lv id k HB. unfold spec_dup, lease_blocked.
  pose proof (holds_lease_iff B n k cur fv HB) as H1. pose proof (same_tx_iff B n lv id HB) as H2.
  destruct (p_sup p); cbn [andb].
  2:{ destruct (committed_some B n (same_tx lv id)); repeat split; try discriminate; try tauto;
      try (intros [[? _] _]; discriminate); try (intros [? _]; discriminate);
      try (intros [_ ?]; tauto); intuition congruence. }
  destruct (snd k =? 0) eqn:Hk; cbn [negb andb].
  { apply N.eqb_eq in Hk.
    destruct (committed_some B n (same_tx lv id)); repeat split; try discriminate; try tauto;
      try (intros [_ [? _]]; contradiction); try (intros [_ ?]; tauto); intuition congruence. }
  apply N.eqb_neq in Hk.
  destruct (committed_some B n (holds_lease p k cur fv)).
  - repeat split; try discriminate; try tauto; intros [Hn _]; exfalso; apply Hn; tauto.
  - destruct (committed_some B n (same_tx lv id)); repeat split; try discriminate; try tauto;
      try (intros [_ [_ ?]]; intuition congruence); try (intros [_ ?]; intuition congruence); intuition congruence.
Qed.

Lemma spec_dup_sound : forall ops s cur fv lv id k, run p sys0 ops = Some s ->
  let B := s_blocks s in let d := spec_dup B (s_latest s) p cur fv lv id k in
  (d = DupLease <-> lease_blocked B p k cur fv) /\
  (d = DupTx <-> ~ lease_blocked B p k cur fv /\ tx_committed B lv id) /\
  (d = DupNone <-> ~ lease_blocked B p k cur fv /\ ~ tx_committed B lv id).
Proof. intros. apply spec_dup_sound_inv. apply (inv_b p s). eapply reach_inv; eauto. Qed.

(* ---------- the named consequences ---------- *)
Lemma dup_detect : forall ops s r x,
  run p sys0 ops = Some s -> committed (s_blocks s) r x -> s_latest s + 1 <= t_lv x ->
  let d := checkDup (s_tail s) p (s_latest s + 1) (t_fv x) (t_lv x) (t_id x) (t_key x) in
  d = DupTx \/ d = DupLease.
Proof.
  intros ops s r x H Hc Hlv d. subst d. rewrite (checkDup_exact ops) by auto.
  pose proof (inv_b p s (reach_inv _ _ H)) as HB.
  destruct (spec_dup_sound_inv (s_blocks s) (s_latest s) (s_latest s + 1) (t_fv x) (t_lv x) (t_id x) (t_key x) HB)
    as [H1 [H2 H3]].
  destruct (spec_dup (s_blocks s) (s_latest s) p (s_latest s + 1) (t_fv x) (t_lv x) (t_id x) (t_key x)) eqn:E;
    try (unfold spec_dup in E;
         destruct (p_sup p && negb (snd (t_key x) =? 0) &&
                   committed_some (s_blocks s) (s_latest s) (holds_lease p (t_key x) (s_latest s + 1) (t_fv x)));
         [discriminate|destruct (committed_some (s_blocks s) (s_latest s) (same_tx (t_lv x) (t_id x))); discriminate]);
    auto.
  exfalso. destruct H3 as [H3 _]. destruct (H3 eq_refl) as [_ Hn]. apply Hn. exists r, x. auto.
Qed.

Lemma no_false_positive : forall ops s cur fv lv id k,
  run p sys0 ops = Some s -> cur = s_latest s + 1 -> cur <= lv ->
  ~ tx_committed (s_blocks s) lv id -> ~ lease_blocked (s_blocks s) p k cur fv ->
  checkDup (s_tail s) p cur fv lv id k = DupNone.
Proof.
  intros ops s cur fv lv id k H Hc Hlv Hn1 Hn2. rewrite (checkDup_exact ops) by auto.
  apply (spec_dup_sound_inv (s_blocks s) (s_latest s) cur fv lv id k (inv_b p s (reach_inv _ _ H))). auto.
Qed.

Lemma lease_exclusive : forall ops s r x fv lv id,
  run p sys0 ops = Some s -> p_sup p = true -> p_fix p = true ->
  committed (s_blocks s) r x -> t_lease x <> 0 -> s_latest s + 1 <= t_lv x -> s_latest s + 1 <= lv ->
  checkDup (s_tail s) p (s_latest s + 1) fv lv id (t_key x) = DupLease.
Proof.
  intros ops s r x fv lv id H Hs Hf Hc Hl Hlx Hlv. rewrite (checkDup_exact ops) by auto.
  apply (spec_dup_sound_inv (s_blocks s) (s_latest s) (s_latest s + 1) fv lv id (t_key x)
           (inv_b p s (reach_inv _ _ H))).
  split; [exact Hs|]. split; [exact Hl|]. exists r, x. auto.
Qed.

Lemma lease_released : forall ops s fv lv id k,
  run p sys0 ops = Some s -> s_latest s + 1 <= lv ->
  (forall r x, committed (s_blocks s) r x -> t_key x = k -> t_lv x <= s_latest s) ->
  ~ tx_committed (s_blocks s) lv id ->
  checkDup (s_tail s) p (s_latest s + 1) fv lv id k = DupNone.
Proof.
  intros ops s fv lv id k H Hlv Hexp Hn. apply (no_false_positive ops); auto.
  intros [_ [_ [r [x [Hc [Hk [Hcur _]]]]]]]. specialize (Hexp r x Hc Hk). lia.
Qed.

(* garbage collection, flushing to the tracker DB and a restart never change an answer *)
Lemma existsb_ext_in : forall A (f g : A -> bool) l, (forall x, In x l -> f x = g x) -> existsb f l = existsb g l.
Proof.
  induction l as [|a l IH]; intros H; [reflexivity|]. cbn [existsb].
  rewrite (H a) by (left; reflexivity). rewrite IH; [reflexivity|]. intros. apply H. right. assumption.
Qed.

Lemma spec_dup_ext : forall B B' n cur fv lv id k,
  (forall r, 1 <= r <= n -> lookup r B' = lookup r B) ->
  spec_dup B' n p cur fv lv id k = spec_dup B n p cur fv lv id k.
Proof.
  intros B B' n cur fv lv id k H. unfold spec_dup.
  assert (Hc : forall f, committed_some B' n f = committed_some B n f).
  { intros f. unfold committed_some. apply existsb_ext_in. intros r Hr. apply in_nrange in Hr.
    unfold in_block. rewrite H by lia. reflexivity. }
  rewrite !Hc. reflexivity.
Qed.

Definition is_maintenance (s : sys) (o : op) : bool :=
  match o with
  | OCommitted _ | OCommit _ => true
  | ORestart keep => keep =? s_latest s
  | _ => false
  end.

Lemma maintenance_transparent : forall ops s o s' fv lv id k,
  run p sys0 ops = Some s -> is_maintenance s o = true -> op_ok p s o = true ->
  step p s o = (s', OK) -> s_latest s + 1 <= lv ->
  checkDup (s_tail s') p (s_latest s + 1) fv lv id k = checkDup (s_tail s) p (s_latest s + 1) fv lv id k.
Proof.
  intros ops s o s' fv lv id k H Hm Hok Hst Hlv.
  pose proof (reach_inv _ _ H) as HI.
  destruct (step_inv p s o HI Hok) as [s1 [E [HI1 HB1]]]. rewrite E in Hst. inversion Hst. subst s1.
  assert (Hlat : s_latest s' = s_latest s).
  { destruct o as [txs|gs|r|off|keep]; cbn [is_maintenance] in Hm; try discriminate.
    - unfold step, step_gen in E. inversion E. reflexivity.
    - unfold step, step_gen in E. destruct (prepareCommit (s_tail s) (s_dbRound s) off); try (inversion E; fail).
      destruct (txtailNewRound (s_rows s) (s_dbRound s + 1) deltas (s_dbRound s + off + 1 - retain));
        inversion E. reflexivity.
    - apply N.eqb_eq in Hm. subst keep. cbn [op_ok] in Hok.
      destruct (inv_restart p s (s_latest s) HI) as [s2 [E2 [_ [_ Hl]]]]; [lia|lia|].
      rewrite E in E2. inversion E2. subst. exact Hl. }
  rewrite (checkDup_exact_inv p s) by (auto; lia).
  rewrite (checkDup_exact_inv p s') by (auto; lia).
  rewrite Hlat, HB1. apply spec_dup_ext. intros r Hr.
  destruct o as [txs|gs|r0|off|keep]; cbn [is_maintenance] in Hm; try discriminate; cbn [blocks_after]; try reflexivity.
  apply N.eqb_eq in Hm. subst keep. rewrite lookup_trunc. replace (r <=? s_latest s) with true by lia. reflexivity.
Qed.

(* ---------- evaluator-built histories ---------- *)
Lemma NoDup_map_inj : forall A C (f : A -> C) l x y,
  NoDup (map f l) -> In x l -> In y l -> f x = f y -> x = y.
Proof.
  induction l as [|a l IH]; intros x y ND Hx Hy E; [destruct Hx|].
  cbn [map] in ND. inversion ND as [|? ? Hn ND']. subst.
  destruct Hx as [->|Hx], Hy as [->|Hy]; try reflexivity.
  - exfalso. apply Hn. rewrite E. apply in_map. exact Hy.
  - exfalso. apply Hn. rewrite <- E. apply in_map. exact Hx.
  - apply IH; assumption.
Qed.

Lemma NoDup_map_nth : forall A C (f : A -> C) l i j x,
  NoDup (map f l) -> nth_error l i = Some x -> nth_error l j = Some x -> i = j.
Proof.
  intros A C f l i j x ND Hi Hj.
  assert (Hlen : (i < length (map f l))%nat).
  { rewrite map_length. apply nth_error_Some. congruence. }
  apply (proj1 (NoDup_nth_error (map f l)) ND i j Hlen).
  rewrite (map_nth_error f _ _ Hi), (map_nth_error f _ _ Hj). reflexivity.
Qed.

Definition evaluator_built (ops : list op) : bool := forallb (fun o => negb (is_raw_block o)) ops.

Lemma no_double_commit : forall ops s r1 r2 txs1 txs2 i1 i2 x,
  run p sys0 ops = Some s -> evaluator_built ops = true ->
  lookup r1 (s_blocks s) = Some txs1 -> lookup r2 (s_blocks s) = Some txs2 ->
  nth_error txs1 i1 = Some x -> nth_error txs2 i2 = Some x ->
  r1 = r2 /\ i1 = i2.
Proof.
  intros ops s r1 r2 txs1 txs2 i1 i2 x H Hev E1 E2 N1 N2.
  pose proof (run_hok p ops sys0 s (inv_sys0 p) (hok_nil p) Hev H) as [Hids Hin _].
  assert (r1 = r2).
  { apply (Hids r1 r2 x x); try reflexivity.
    - exists txs1. split; [exact E1|eapply nth_error_In; eauto].
    - exists txs2. split; [exact E2|eapply nth_error_In; eauto]. }
  subst r2. split; [reflexivity|]. rewrite E1 in E2. inversion E2. subst txs2.
  apply (NoDup_map_nth _ _ t_id txs1 i1 i2 x); auto. apply (Hin r1). exact E1.
Qed.

Lemma lease_never_granted_twice : forall ops s r1 r2 x1 x2,
  run p sys0 ops = Some s -> evaluator_built ops = true -> p_sup p = true -> p_fix p = true ->
  committed (s_blocks s) r1 x1 -> committed (s_blocks s) r2 x2 ->
  t_key x1 = t_key x2 -> t_lease x1 <> 0 ->
  (r1 < r2 -> t_lv x1 < r2) /\ (r1 = r2 -> x1 = x2).
Proof.
  intros ops s r1 r2 x1 x2 H Hev Hs Hf Hc1 Hc2 Ek Hl.
  pose proof (run_hok p ops sys0 s (inv_sys0 p) (hok_nil p) Hev H) as [_ _ Hle].
  split.
  - intros Hlt. apply (Hle Hs Hf r1 r2 x1 x2); auto.
  - intros ->. destruct Hc1 as [txs1 [E1 I1]], Hc2 as [txs2 [E2 I2]]. rewrite E1 in E2. inversion E2. subst txs2.
    pose proof (b_ok p _ _ (inv_b p s (reach_inv _ _ H)) _ _ E1) as Hok.
    apply (NoDup_map_inj _ _ t_key (leased txs1)); auto.
    + apply (blk_ok_nodup p r2); assumption.
    + apply in_leased. auto.
    + apply in_leased. split; [exact I2|]. unfold t_key in Ek. inversion Ek. congruence.
Qed.

(* in-block duplicates never pass the cow *)
Lemma cow_rejects_inblock_txid : forall c a t hdr fv lv id k,
  In id (map t_id (a ++ c)) -> cow_checkDup [cow_of c; cow_of a] t p hdr fv lv id k <> DupNone.
Proof. intros c a t hdr fv lv id k HI E. apply cow_checkDup_two in E. tauto. Qed.

Lemma cow_rejects_inblock_lease : forall c a t hdr fv lv id y,
  p_sup p = true -> t_lease y <> 0 -> In y (a ++ c) -> hdr <= t_lv y ->
  NoDup (map t_key (leased a)) -> NoDup (map t_key (leased c)) ->
  cow_checkDup [cow_of c; cow_of a] t p hdr fv lv id (t_key y) <> DupNone.
Proof.
  intros c a t hdr fv lv id y Hs Hl HI Hal NDa NDc E. apply cow_checkDup_two in E.
  destruct E as [_ [H _]]. destruct (H Hs) as [Hc Ha]; [exact Hl|].
  apply in_app_or in HI. destruct HI as [HI|HI].
  - specialize (Ha _ (klookup_leases_complete a y NDa HI Hl)). lia.
  - specialize (Hc _ (klookup_leases_complete c y NDc HI Hl)). lia.
Qed.

Lemma eval_delta : forall t hdr gs root txs,
  eval_groups t p hdr cow0 [] gs = (root, txs) ->
  c_ids root = rev (map t_id txs) /\ c_leases root = leases_of txs.
Proof.
  intros t hdr gs root txs H. rewrite cow_of_nil in H. apply eval_groups_root in H. subst root. auto.
Qed.
End Spec.

(* ---------- the original loader: refutation witness ---------- *)
Definition p_wit : proto := mkProto 4 1 true true.
Definition x_wit : tx := mkTx 1 1 5 1 1.
Definition ops_wit : list op := [OBlock [x_wit; mkTx 2 1 4 2 0]; OBlock []; OCommitted 2; OCommit 1; ORestart 2].

Lemma single_row_reload_refuted :
  exists ops s r x,
    run_orig p_wit sys0 ops = Some s /\ committed (s_blocks s) r x /\ s_latest s + 1 <= t_lv x /\
    checkDup (s_tail s) p_wit (s_latest s + 1) (t_fv x) (t_lv x) (t_id x) (t_key x) = DupNone.
Proof.
  exists ops_wit. eexists. exists 1, x_wit. split; [vm_compute; reflexivity|].
  split; [exists [x_wit; mkTx 2 1 4 2 0]; split; [vm_compute; reflexivity|left; reflexivity]|].
  split; vm_compute; [discriminate|reflexivity].
Qed.
