(* C13 lemmas, part D1: the order of TopOnlineAccounts (normalized balance descending, then
   address descending), insertion sort, uniqueness of sorted lists, prefixes that survive
   insertions, and the batch loop that fetches candidates. *)
From Coq Require Import Arith PeanoNat NArith List Bool Lia ZifyN ZifyNat ZifyBool Permutation.
From Verif.model Require Import Overflow OnlineAccts.
Import ListNotations.
Open Scope N_scope.

(* ---------- the order ---------- *)
Lemma tb_irrefl x : top_before x x = false.
Proof. unfold top_before. rewrite N.ltb_irrefl, N.eqb_refl, N.ltb_irrefl. reflexivity. Qed.

Lemma tb_trans x y z : top_before x y = true -> top_before y z = true -> top_before x z = true.
Proof.
  unfold top_before. rewrite !orb_true_iff, !andb_true_iff, !N.ltb_lt, !N.eqb_eq. intros H1 H2.
  destruct H1 as [H1|[H1 H1']]; destruct H2 as [H2|[H2 H2']]; [left; lia|left; lia|left; lia|right; split; lia].
Qed.

Lemma tb_asym x y : top_before x y = true -> top_before y x = false.
Proof.
  intros H. destruct (top_before y x) eqn:E; [|reflexivity].
  pose proof (tb_trans _ _ _ H E) as Hc. rewrite tb_irrefl in Hc. discriminate.
Qed.

Lemma tb_total x y : t_addr x <> t_addr y -> top_before x y = true \/ top_before y x = true.
Proof.
  intros Hn. unfold top_before. rewrite !orb_true_iff, !andb_true_iff, !N.ltb_lt, !N.eqb_eq.
  destruct (N.lt_trichotomy (t_norm x) (t_norm y)) as [H|[H|H]]; [right; left; exact H| |left; left; exact H].
  destruct (N.lt_trichotomy (t_addr x) (t_addr y)) as [H'|[H'|H']]; [right; right; split; [lia|exact H']|contradiction|left; right; split; assumption].
Qed.

Fixpoint sortedT (l : list oacc) : Prop :=
  match l with
  | [] => True
  | x :: r => (forall y, In y r -> top_before x y = true) /\ sortedT r
  end.

Definition addrs (l : list oacc) : list N := map t_addr l.

Lemma top_insert_perm x l : Permutation (top_insert x l) (x :: l).
Proof.
  induction l as [|y l IH]; [apply Permutation_refl|]. cbn [top_insert].
  destruct (top_before x y); [apply Permutation_refl|].
  eapply Permutation_trans; [apply perm_skip; exact IH|apply perm_swap].
Qed.

Lemma top_sort_perm l : Permutation (top_sort l) l.
Proof.
  induction l as [|x l IH]; [apply Permutation_refl|]. cbn [top_sort fold_right].
  eapply Permutation_trans; [apply top_insert_perm|apply perm_skip; exact IH].
Qed.

Lemma top_insert_sorted x l : sortedT l -> ~ In (t_addr x) (addrs l) -> sortedT (top_insert x l).
Proof.
  induction l as [|y l IH]; intros Hs Hn; cbn [top_insert].
  - split; [intros ? []|exact I].
  - destruct Hs as [Hy Hs]. destruct (top_before x y) eqn:E.
    + split; [|split; assumption]. intros z [<-|Hz]; [exact E|]. exact (tb_trans _ _ _ E (Hy z Hz)).
    + assert (Hyx : top_before y x = true).
      { destruct (tb_total x y) as [H|H]; [|congruence|exact H]. intros Heq. apply Hn. left. symmetry; exact Heq. }
      split.
      * intros z Hz. apply (Permutation_in _ (top_insert_perm x l)) in Hz. destruct Hz as [<-|Hz]; [exact Hyx|exact (Hy z Hz)].
      * apply IH; [exact Hs|]. intros Hc. apply Hn. right; exact Hc.
Qed.

Lemma top_sort_sorted l : NoDup (addrs l) -> sortedT (top_sort l).
Proof.
  induction l as [|x l IH]; intros Hnd; [exact I|]. inversion Hnd as [|? ? Hx Hnd']; subst.
  cbn [top_sort fold_right]. apply top_insert_sorted; [exact (IH Hnd')|].
  intros Hc. apply Hx. unfold addrs in *. rewrite in_map_iff in *. destruct Hc as (y & E & Hy).
  exists y. split; [exact E|]. exact (Permutation_in _ (top_sort_perm l) Hy).
Qed.

(* a sorted list is determined by its elements *)
Lemma sorted_unique : forall l1 l2, sortedT l1 -> sortedT l2 -> Permutation l1 l2 -> l1 = l2.
Proof.
  induction l1 as [|x l1 IH]; intros l2 H1 H2 Hp.
  - apply Permutation_nil in Hp. symmetry; exact Hp.
  - destruct l2 as [|y l2]; [apply Permutation_sym, Permutation_nil in Hp; discriminate|].
    destruct H1 as [Hx H1]. destruct H2 as [Hy H2].
    assert (x = y).
    { assert (Hxin : In x (y :: l2)) by (apply (Permutation_in _ Hp); left; reflexivity).
      assert (Hyin : In y (x :: l1)) by (apply (Permutation_in _ (Permutation_sym Hp)); left; reflexivity).
      destruct Hxin as [E|Hxin]; [symmetry; exact E|]. destruct Hyin as [E|Hyin]; [exact E|].
      pose proof (Hy x Hxin) as A. pose proof (Hx y Hyin) as B. rewrite (tb_asym _ _ A) in B. discriminate. }
    subst y. f_equal. apply IH; [exact H1|exact H2|exact (Permutation_cons_inv Hp)].
Qed.

Lemma top_sort_perm_eq l1 l2 : NoDup (addrs l1) -> Permutation l1 l2 -> top_sort l1 = top_sort l2.
Proof.
  intros Hnd Hp. apply sorted_unique.
  - apply top_sort_sorted; exact Hnd.
  - apply top_sort_sorted. unfold addrs. apply (Permutation_NoDup (Permutation_map t_addr Hp)). exact Hnd.
  - eapply Permutation_trans; [apply top_sort_perm|]. eapply Permutation_trans; [exact Hp|apply Permutation_sym, top_sort_perm].
Qed.

(* elements of a prefix precede the elements of the rest *)
Lemma sorted_split m : forall l, sortedT l ->
  forall x y, In x (firstn m l) -> In y (skipn m l) -> top_before x y = true.
Proof.
  induction m as [|m IH]; intros l Hs x y Hx Hy; [destruct Hx|].
  destruct l as [|z l]; [destruct Hx|]. destruct Hs as [Hz Hs]. cbn [firstn skipn] in *.
  destruct Hx as [<-|Hx]; [|exact (IH l Hs x y Hx Hy)].
  apply Hz. rewrite <- (firstn_skipn m l). apply in_or_app. right; exact Hy.
Qed.

(* the elements before z form a prefix of a sorted list *)
Lemma sorted_filter_prefix z : forall l, sortedT l ->
  filter (fun y => top_before y z) l = firstn (length (filter (fun y => top_before y z) l)) l.
Proof.
  induction l as [|x l IH]; intros Hs; [reflexivity|]. destruct Hs as [Hx Hs]. cbn [filter].
  destruct (top_before x z) eqn:E.
  - cbn [length firstn]. f_equal. exact (IH Hs).
  - (* nothing later is before z either *)
    assert (Hnone : filter (fun y => top_before y z) l = []).
    { clear IH. induction l as [|w l IHl]; [reflexivity|]. cbn [filter].
      destruct (top_before w z) eqn:Ew.
      - pose proof (tb_trans _ _ _ (Hx w (or_introl eq_refl)) Ew) as Hc. congruence.
      - apply IHl; [intros y Hy; apply Hx; right; exact Hy|exact (proj2 Hs)]. }
    rewrite Hnone. reflexivity.
Qed.

(* inserting an element that comes after the first n elements leaves them in place *)
Lemma firstn_insert_after z : forall n l, (n <= length l)%nat ->
  (forall y, In y (firstn n l) -> top_before z y = false) ->
  firstn n (top_insert z l) = firstn n l.
Proof.
  induction n as [|n IH]; intros l Hl Hb; [reflexivity|].
  destruct l as [|y l]; [cbn in Hl; lia|]. cbn [top_insert].
  rewrite (Hb y (or_introl eq_refl)). cbn [firstn]. f_equal. apply IH; [cbn in Hl; lia|].
  intros w Hw. apply Hb. right; exact Hw.
Qed.

(* adding elements each of which has at least n elements of X before it does not change the
   first n of the sorted list *)
Lemma firstn_sort_extend n (X : list oacc) : forall (Z : list oacc) (B : list oacc),
  NoDup (addrs (Z ++ X)) -> NoDup B -> incl B X -> (n <= length B)%nat ->
  (forall z b, In z Z -> In b B -> top_before b z = true) ->
  firstn n (top_sort (Z ++ X)) = firstn n (top_sort X).
Proof.
  induction Z as [|z Z IH]; intros B Hnd HB Hincl Hlen Hbz; [reflexivity|].
  cbn [app top_sort fold_right]. fold (top_sort (Z ++ X)).
  inversion Hnd as [|? ? Hz Hnd']; subst.
  rewrite <- (IH B Hnd' HB Hincl Hlen (fun z' b Hz' Hb => Hbz z' b (or_intror Hz') Hb)).
  set (L := top_sort (Z ++ X)).
  assert (HsL : sortedT L) by (apply top_sort_sorted; exact Hnd').
  assert (HBL : incl B L).
  { intros b Hb. apply (Permutation_in _ (Permutation_sym (top_sort_perm (Z ++ X)))). apply in_or_app. right. exact (Hincl b Hb). }
  (* at least n elements of L are before z, and they are a prefix *)
  pose proof (sorted_filter_prefix z L HsL) as Hpre.
  set (F := filter (fun y => top_before y z) L) in *.
  assert (HnF : (n <= length F)%nat).
  { assert (incl B F) by (intros b Hb; apply filter_In; split; [exact (HBL b Hb)|exact (Hbz z b (or_introl eq_refl) Hb)]).
    pose proof (NoDup_incl_length HB H). lia. }
  assert (HFL : (length F <= length L)%nat) by (pose proof (f_equal (@length _) Hpre) as E; rewrite firstn_length in E; lia).
  apply firstn_insert_after; [lia|].
  intros y Hy. apply tb_asym.
  assert (In y F).
  { rewrite Hpre. rewrite <- (firstn_skipn n (firstn (length F) L)). apply in_or_app. left.
    rewrite firstn_firstn. replace (Nat.min n (length F)) with n by lia. exact Hy. }
  apply filter_In in H. exact (proj2 H).
Qed.

(* ---------- the batch loop ---------- *)
Definition validb (vr : N) (oa : oacc) : bool := valid_in (t_vfirst oa) (t_vlast oa) vr.

Lemma firstn_add' {A} (l : list A) (a b : nat) : firstn (a + b) l = firstn a l ++ firstn b (skipn a l).
Proof.
  revert l. induction a as [|a IH]; intros l; [reflexivity|].
  destruct l as [|x l]; [destruct b; reflexivity|]. cbn [Nat.add firstn skipn app]. f_equal. apply IH.
Qed.

Lemma top_fetch_spec batch need vr (D : list oacc) : (1 <= batch)%nat ->
  forall fuel off cands inv c i, (length D < off + fuel)%nat ->
  cands = filter (validb vr) (firstn off D) ->
  inv = filter (fun oa => negb (validb vr oa)) (firstn off D) ->
  top_fetch fuel batch need vr D off cands inv = (c, i) ->
  exists m, c = filter (validb vr) (firstn m D) /\
            i = filter (fun oa => negb (validb vr oa)) (firstn m D) /\
            ((length D <= m)%nat \/ (need <= length c)%nat).
Proof.
  intros Hb. induction fuel as [|f IH]; intros off cands inv c i Hf Hc Hi H; cbn [top_fetch] in H.
  - destruct (Nat.leb_spec need (length cands)).
    + inversion H; subst c i. exists off. split; [exact Hc|]. split; [exact Hi|]. right. assumption.
    + inversion H; subst c i. exists off. split; [exact Hc|]. split; [exact Hi|]. left. lia.
  - destruct (Nat.leb_spec need (length cands)).
    + inversion H; subst c i. exists off. split; [exact Hc|]. split; [exact Hi|]. right. assumption.
    + fold (validb vr) in H.
      assert (Hc' : cands ++ filter (validb vr) (firstn batch (skipn off D)) = filter (validb vr) (firstn (off + batch) D))
        by (rewrite firstn_add', filter_app, Hc; reflexivity).
      assert (Hi' : inv ++ filter (fun oa => negb (validb vr oa)) (firstn batch (skipn off D)) =
                    filter (fun oa => negb (validb vr oa)) (firstn (off + batch) D))
        by (rewrite firstn_add', filter_app, Hi; reflexivity).
      unfold validb in H, Hc', Hi'. rewrite Hc', Hi' in H.
      destruct (Nat.ltb_spec (length (firstn batch (skipn off D))) batch) as [Hs|Hs].
      * inversion H; subst c i. exists (off + batch)%nat. split; [reflexivity|]. split; [reflexivity|]. left.
        rewrite firstn_length, skipn_length in Hs. lia.
      * exact (IH (off + batch)%nat _ _ c i ltac:(lia) eq_refl eq_refl H).
Qed.
