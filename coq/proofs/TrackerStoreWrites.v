(* C47 lemmas, part 5: every writer of the key-value backend keeps the refinement relation. *)
From Coq Require Import NArith List Bool Lia Sorted.
From Verif.model Require Import TrackerStore.
From Verif.proofs Require Import TrackerStoreKeys TrackerStoreMap TrackerStoreRefine TrackerStoreRanges.
Import ListNotations.
Open Scope N_scope.

Lemma R_empty : R [] [].
Proof.
  split; [split; constructor|]. split; [constructor|]. intros kb v. cbn. split; [intros []|intros (k & [] & _)].
Qed.

Lemma sremove_nodup s k : NoDup (map fst s) -> NoDup (map fst (sremove s k)).
Proof. apply map_fst_filter. Qed.
Lemma sremove_not_in s k : ~ In k (map fst (sremove s k)).
Proof. intros I. apply in_map_iff in I as (e & E & I). apply sremove_In in I as [_ N]. congruence. Qed.

Lemma wf_sset s k v : spec_wf s -> entry_ok (k, v) -> spec_wf (sset s k v).
Proof.
  intros [ND W] OK. split.
  - cbn. constructor; [apply sremove_not_in|apply sremove_nodup, ND].
  - constructor; [exact OK|]. rewrite Forall_forall in *. intros x I. apply sremove_In in I as [I _]. exact (W _ I).
Qed.
Lemma wf_filter s f : spec_wf s -> spec_wf (filter f s).
Proof.
  intros [ND W]. split; [apply map_fst_filter, ND|]. rewrite Forall_forall in *. intros x I.
  apply filter_In in I as [I _]. exact (W _ I).
Qed.

(* the view of a filtered store, when the filter looks at keys only and treats an online row and its
   two stored entries alike *)
Lemma sview_filter_In s (P : skey -> bool) k v :
  (forall a r b, P (KBal r b a) = P (KOnl a r)) ->
  (In (k, v) (sview (filter (fun e => P (fst e)) s)) <-> In (k, v) (sview s) /\ P k = true).
Proof.
  intros HP. unfold sview. rewrite !in_flat_map. split.
  - intros ([k0 v0] & I & J). apply filter_In in I as [I Pk]. cbn [fst] in Pk. split; [exists (k0, v0); auto|].
    unfold view_entry in J. cbn [fst snd] in J.
    destruct k0; cbn in J; try (destruct J as [[= <- <-]|[]]; exact Pk).
    destruct J as [[= <- <-]|[[= <- <-]|[]]]; [exact Pk|]. rewrite HP. exact Pk.
  - intros [([k0 v0] & I & J) Pk]. exists (k0, v0). split; [|exact J]. apply filter_In. split; [exact I|]. cbn [fst].
    unfold view_entry in J. cbn [fst snd] in J.
    destruct k0; cbn in J; try (destruct J as [[= <- <-]|[]]; exact Pk).
    destruct J as [[= <- <-]|[[= <- <-]|[]]]; [exact Pk|]. rewrite HP in Pk. exact Pk.
Qed.

Lemma sview_sremove_plain s k k' v : plain k ->
  (In (k', v) (sview (sremove s k)) <-> In (k', v) (sview s) /\ k' <> k).
Proof.
  intros Pl. unfold sremove.
  rewrite (sview_filter_In s (fun x => negb (skey_eqb k x))).
  - rewrite negb_true_iff, skey_eqb_neq. intuition congruence.
  - intros a r b. destruct k; try elim Pl; reflexivity.
Qed.

Lemma R_set_plain s kv k v : R s kv -> valid_key k = true -> plain k ->
  R (sset s k v) (kv_set kv (enc k) v).
Proof.
  intros (W & S & M) V Pl. split; [|split].
  - apply wf_sset; [exact W|]. split; [exact V|]. cbn [fst]. destruct k; try exact Logic.I; elim Pl.
  - apply kv_set_sorted, S.
  - intros kb v'. rewrite (kv_set_In kv (enc k) v S). unfold sset.
    change (sview ((k, v) :: sremove s k)) with (view_entry (k, v) ++ sview (sremove s k)).
    assert (view_entry (k, v) = [(k, v)]) as -> by (destruct k; try reflexivity; elim Pl).
    split.
    + intros [[-> ->]|[N I]].
      * exists k. split; [left; reflexivity|reflexivity].
      * apply M in I as (k' & I & ->). exists k'. split; [|reflexivity]. right.
        apply sview_sremove_plain; [exact Pl|]. split; [exact I|]. intros ->. apply N. reflexivity.
    + intros (k' & [[= <- <-]|I] & ->); [left; auto|].
      apply sview_sremove_plain in I as [I N]; [|exact Pl]. right. split.
      * intros E. apply N. apply enc_inj; [eapply sview_valid; [exact (proj2 W)|exact I]|exact V|exact E].
      * apply M. exists k'. auto.
Qed.

Lemma R_del_plain s kv k : R s kv -> valid_key k = true -> plain k ->
  R (sremove s k) (kv_del kv (enc k)).
Proof.
  intros (W & S & M) V Pl. split; [|split].
  - apply wf_filter, W.
  - apply kv_del_sorted, S.
  - intros kb v'. rewrite (kv_del_In kv (enc k) S). split.
    + intros [N I]. apply M in I as (k' & I & ->). exists k'. split; [|reflexivity].
      apply sview_sremove_plain; [exact Pl|]. split; [exact I|]. intros ->. apply N. reflexivity.
    + intros (k' & I & ->). apply sview_sremove_plain in I as [I N]; [|exact Pl]. split.
      * intros E. apply N. apply enc_inj; [eapply sview_valid; [exact (proj2 W)|exact I]|exact V|exact E].
      * apply M. exists k'. auto.
Qed.

Lemma sremove_absent s k : alookup s k = None -> sremove s k = s.
Proof.
  rewrite alookup_None. intros H. unfold sremove. induction s as [|[k' v'] s IH]; [reflexivity|].
  cbn. destruct (skey_eqb k k') eqn:E.
  - apply skey_eqb_eq in E. subst. elim (H v'). left. reflexivity.
  - cbn. f_equal. apply IH. intros v I. apply (H v). right. exact I.
Qed.

(* InsertOnlineAccount of a new (address, round): the row and its balance-index entry *)
Lemma R_set_onl s kv a r nb d : R s kv -> valid_key (KOnl a r) = true -> u64 nb = true ->
  alookup s (KOnl a r) = None ->
  R (sset s (KOnl a r) (nb :: d)) (kv_set (kv_set kv (enc (KOnl a r)) d) (enc (KBal r nb a)) d).
Proof.
  intros (W & S & M) V Vb Ab. pose proof V as V'. cbn [valid_key] in V'. apply andb_true_iff in V' as [Va Vr].
  assert (valid_key (KBal r nb a) = true) as VB by (cbn [valid_key]; rewrite Vr, Vb, Va; reflexivity).
  split; [|split].
  - apply wf_sset; [exact W|]. split; [exact V|exact Vb].
  - apply kv_set_sorted, kv_set_sorted, S.
  - intros kb v'. rewrite (kv_set_In _ _ _ (kv_set_sorted _ _ _ S)), (kv_set_In kv _ _ S).
    unfold sset. rewrite (sremove_absent s _ Ab).
    change (sview ((KOnl a r, nb :: d) :: s)) with ([(KOnl a r, d); (KBal r nb a, d)] ++ sview s).
    rewrite alookup_None in Ab. split.
    + intros [[-> ->]|[N1 [[-> ->]|[N2 I]]]].
      * exists (KBal r nb a). split; [right; left; reflexivity|reflexivity].
      * exists (KOnl a r). split; [left; reflexivity|reflexivity].
      * apply M in I as (k' & I & ->). exists k'. split; [right; right; exact I|reflexivity].
    + intros (k' & [[= <- <-]|[[= <- <-]|I]] & ->).
      * right. split; [|left; auto]. intros E. apply enc_inj in E; [discriminate|exact V|exact VB].
      * left. auto.
      * pose proof (sview_valid s k' v' (proj2 W) I) as Vk'. right. split; [|right; split].
        -- intros E. apply enc_inj in E; [|exact Vk'|exact VB]. subst k'.
           apply sview_In_bal in I as (v0 & I & _); [|exact (proj2 W)]. exact (Ab v0 I).
        -- intros E. apply enc_inj in E; [|exact Vk'|exact V]. subst k'.
           apply sview_In_onl in I as (v0 & I & _). exact (Ab v0 I).
        -- apply M. exists k'. auto.
Qed.

(* DeleteRange over a range that is a predicate on plain keys *)
Lemma R_delrange s kv lo hi P : R s kv ->
  (forall k, valid_key k = true -> in_range lo (Some hi) (enc k) = P k) ->
  (forall a r, P (KOnl a r) = false) -> (forall r b a, P (KBal r b a) = false) ->
  R (sdelwhere s P) (kv_delrange kv lo hi).
Proof.
  intros (W & S & M) HP HO HB. split; [|split].
  - apply wf_filter, W.
  - apply kv_delrange_sorted, S.
  - intros kb v. rewrite kv_delrange_In. cbn [fst]. unfold sdelwhere. split.
    + intros [I Rg]. apply M in I as (k & I & ->). exists k. split; [|reflexivity].
      apply (sview_filter_In s (fun x => negb (P x))); [intros; rewrite HO, HB; reflexivity|].
      split; [exact I|]. rewrite <- HP, Rg; [reflexivity|]. eapply sview_valid; [exact (proj2 W)|exact I].
    + intros (k & I & ->). apply (sview_filter_In s (fun x => negb (P x))) in I as [I Pk];
        [|intros; rewrite HO, HB; reflexivity].
      split; [apply M; exists k; auto|]. rewrite HP; [apply negb_true_iff, Pk|].
      eapply sview_valid; [exact (proj2 W)|exact I].
Qed.

Lemma R_put_seq (mk : N -> skey) (kmk : N -> bytes) ps : forall s kv start,
  (forall n, enc (mk n) = kmk n) -> (forall n, plain (mk n)) ->
  (forall n, u64 n = true -> valid_key (mk n) = true) ->
  (forall i, (i < length ps)%nat -> u64 (start + N.of_nat i) = true) ->
  R s kv -> R (sput_seq s mk start ps) (kv_put_seq kv kmk start ps).
Proof.
  induction ps as [|p ps IH]; intros s kv start He Hp Hv Hu HR; [exact HR|].
  cbn [sput_seq kv_put_seq]. apply IH; try assumption.
  - intros i Hi. replace (start + 1 + N.of_nat i) with (start + N.of_nat (S i)) by lia. apply Hu. cbn. lia.
  - rewrite <- He. apply R_set_plain; [exact HR| |apply Hp]. apply Hv. specialize (Hu 0%nat). rewrite N.add_0_r in Hu.
    apply Hu. cbn. lia.
Qed.

Lemma i63_u64 n : i63 n = true -> u64 n = true.
Proof. unfold i63, u64. rewrite !N.ltb_lt. intros H. assert (2 ^ 63 < 2 ^ 64) by (apply N.pow_lt_mono_r; lia). lia. Qed.

Lemma seq_absent_u64 s mk start n : seq_absent s mk start n = true ->
  forall i, (i < n)%nat -> u64 (start + N.of_nat i) = true.
Proof.
  revert start. induction n as [|n IH]; intros start H i Hi; [lia|].
  cbn [seq_absent] in H. apply andb_true_iff in H as [H Hn]. apply andb_true_iff in H as [_ H63].
  destruct i as [|i].
  - rewrite N.add_0_r. apply i63_u64, H63.
  - replace (start + N.of_nat (S i)) with (start + 1 + N.of_nat i) by lia. apply IH; [exact Hn|lia].
Qed.

Lemma R_init : R spec_init kv_init.
Proof.
  change spec_init with (sset (sset (sset (sset [] KRound [0]) KSchema [schema_version]) (KTotals false) [0]) (KOrp 0) [0]).
  unfold kv_init.
  change (onlineAccountRoundParamsKey 0) with (enc (KOrp 0)). change (totalsKey false) with (enc (KTotals false)).
  change schemaVersionKey with (enc KSchema). change roundKey with (enc KRound).
  repeat (apply R_set_plain; [|reflexivity|exact Logic.I]). exact R_empty.
Qed.

(* ---------- every operation of a protocol-respecting history ---------- *)
Lemma has_false s k : negb (has s k) = true -> alookup s k = None.
Proof. unfold has. destruct (alookup s k); [discriminate|reflexivity]. Qed.

Lemma sp_list_ok_sset s r p l : sp_list_ok s l = true -> negb (existsb (fun e => fst e =? r) l) = true ->
  sp_list_ok (sset s (KSp r) [p]) l = true.
Proof.
  induction l as [|[r' p'] l IHl]; intros Hok Hne; [reflexivity|]. cbn [sp_list_ok] in *.
  apply andb_true_iff in Hok as [Hok Hl]. apply andb_true_iff in Hok as [Hok Hex].
  apply andb_true_iff in Hok as [Hok Hp]. apply andb_true_iff in Hok as [Hab H63].
  cbn [existsb fst] in Hne. rewrite negb_orb in Hne. apply andb_true_iff in Hne as [Hr Hne].
  rewrite IHl, H63, Hp, Hex by assumption. rewrite !andb_true_r.
  unfold has, sset in *. cbn [alookup]. destruct (skey_eqb (KSp r') (KSp r)) eqn:E.
  - apply skey_eqb_eq in E. injection E as ->. rewrite N.eqb_refl in Hr. discriminate.
  - destruct (alookup (sremove s (KSp r)) (KSp r')) as [v|] eqn:F; [|reflexivity].
    apply alookup_In_1, sremove_In in F as [F _]. destruct (alookup s (KSp r')) eqn:G'; [discriminate|].
    rewrite alookup_None in G'. elim (G' v F).
Qed.

Lemma R_store_sp l : forall s kv, R s kv -> sp_list_ok s l = true ->
  R (fold_left (fun st e => sset st (KSp (fst e)) [snd e]) l s)
    (fold_left (fun st e => kv_set st (stateproofKey (fst e)) [snd e]) l kv).
Proof.
  induction l as [|[r p] l IH]; intros s kv HR H; [exact HR|]. cbn [fold_left fst snd].
  cbn [sp_list_ok] in H.
  apply andb_true_iff in H as [H Hl]. apply andb_true_iff in H as [H Hex].
  apply andb_true_iff in H as [H Hp]. apply andb_true_iff in H as [Hab H63].
  apply IH.
  - change (stateproofKey r) with (enc (KSp r)). apply R_set_plain; [exact HR| |exact I]. cbn. apply i63_u64. assumption.
  - apply sp_list_ok_sset; assumption.
Qed.

Lemma apply_refines s kv o : R s kv -> op_ok s o = true ->
  match o with OOd _ => False | _ => True end ->
  R (spec_apply s o) (kv_apply kv o).
Proof.
  intros HR OK NOd. destruct o; cbn [op_ok] in OK; cbn [spec_apply kv_apply kv_apply_with];
    repeat match goal with H : _ && _ = true |- _ => apply andb_true_iff in H as [? ?] end.
  - (* OUar *) change roundKey with (enc KRound). apply R_set_plain; [exact HR|reflexivity|exact I].
  - (* OIa *) change (accountKey a) with (enc (KAcct a)). apply R_set_plain; [exact HR|assumption|exact I].
  - (* OUa *) change (accountKey a) with (enc (KAcct a)). apply R_set_plain; [exact HR|assumption|exact I].
  - (* ODa *) change (accountKey a) with (enc (KAcct a)). apply R_del_plain; [exact HR|assumption|exact I].
  - (* OIr *) change (resourceKey a i) with (enc (KRes a i)). apply R_set_plain; [exact HR| |exact I].
    cbn. rewrite H, (i63_u64 i) by assumption. reflexivity.
  - (* OUr *) change (resourceKey a i) with (enc (KRes a i)). apply R_set_plain; [exact HR| |exact I].
    cbn. rewrite H, (i63_u64 i) by assumption. reflexivity.
  - (* ODr *) change (resourceKey a i) with (enc (KRes a i)). apply R_del_plain; [exact HR| |exact I].
    cbn. rewrite H, (i63_u64 i) by assumption. reflexivity.
  - (* OUk *) change (appKvKey k) with (enc (KApp k)). apply R_set_plain; [exact HR|assumption|exact I].
  - (* ODk *) change (appKvKey k) with (enc (KApp k)). apply R_del_plain; [exact HR|assumption|exact I].
  - (* OIc *) change (creatableKey i) with (enc (KCreat i)). apply R_set_plain; [exact HR| |exact I].
    cbn. apply i63_u64. assumption.
  - (* ODc *) change (creatableKey i) with (enc (KCreat i)). apply R_del_plain; [exact HR| |exact I].
    cbn. apply i63_u64. assumption.
  - (* OIo *) change (onlineAccountKey a upd) with (enc (KOnl a upd)).
    change (onlineAccountBalanceKey upd nb a) with (enc (KBal upd nb a)).
    apply R_set_onl; [exact HR| |assumption|apply has_false; assumption].
    cbn. rewrite H, (i63_u64 upd) by assumption. reflexivity.
  - (* OOd *) elim NOd.
  - (* OTt *) unfold txTailRoundRangePrefix.
    apply R_delrange.
    + exact (R_put_seq KTxTail txTailKey ps s kv base (fun _ => eq_refl) (fun _ => I) (fun n Hn => Hn)
               (seq_absent_u64 _ _ _ _ ltac:(eassumption)) HR).
    + intros k Vk. exact (range_txtail_before fb k (i63_u64 _ H) Vk).
    + reflexivity.
    + reflexivity.
  - (* OPo *) exact (R_put_seq KOrp onlineAccountRoundParamsKey ps s kv start (fun _ => eq_refl) (fun _ => I) (fun n Hn => Hn)
               (seq_absent_u64 _ _ _ _ ltac:(eassumption)) HR).
  - (* OPr *) unfold onlineAccountRoundParamsRoundRangePrefix. apply R_delrange; [exact HR| |reflexivity|reflexivity].
    intros k Vk. exact (range_orp_before r k (i63_u64 _ OK) Vk).
  - (* OSs *) apply R_store_sp; assumption.
  - (* ODs *) unfold stateproofRoundRangePrefix. apply R_delrange; [exact HR| |reflexivity|reflexivity].
    intros k Vk. exact (range_sp_before r k (i63_u64 _ OK) Vk).
  - (* OPt *) change (totalsKey staging) with (enc (KTotals staging)). apply R_set_plain; [exact HR|reflexivity|exact I].
Qed.
