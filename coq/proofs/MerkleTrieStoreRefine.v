(* C17 lemmas, part 5: every operation of the store model refines the logical trie machine. *)
From Coq Require Import List NArith Bool Lia ZifyN ZifyNat ZifyBool Arith.
From Verif.model Require Import MerkleTrie MerkleTrieStore MerkleTrieStoreRel.
From Verif.proofs Require Import MerkleTrieHeapProofs MerkleTriePagedProofs.
Import ListNotations.
Open Scope N_scope.

Section Refine.
Variable npp : N.
Hypothesis Hnpp : 0 < npp <= base_id.
Notation Inv := (Inv npp).
Notation Abs := (Abs npp).

Lemma live_bounded s fp : Inv s fp -> bounded fp (p_next s).
Proof.
  intros I x Hx. pose proof (iv_live _ _ _ I x Hx) as L.
  assert (p_mem s x <> None \/ p_disk s x <> None).
  { unfold rd in L. destruct (p_mem s x); [left; congruence | right; exact L]. }
  apply (iv_bnd _ _ _ I) in H. lia.
Qed.

(* a step that only loads / releases pages *)
Lemma Abs_same s s' m :
  Abs s m -> (forall fp, Inv s fp -> Inv s' fp /\ forall x, rd s' x = rd s x) ->
  p_disk s' = p_disk s -> p_root s' = p_root s -> p_next s' = p_next s -> p_elen s' = p_elen s ->
  p_modified s' = p_modified s -> p_dhas s' = p_dhas s -> p_droot s' = p_droot s ->
  p_dnext s' = p_dnext s -> p_delen s' = p_delen s -> Abs s' m.
Proof.
  intros (fp0 & I & L & Dk & E1 & E2 & E3) H Ed Er En Ee Em Eh Edr Edn Ede.
  destruct (H fp0 I) as [I' RD]. exists fp0. split; [exact I'|]. split.
  - unfold live_ok in *. destruct (t_root (m_cur m)) as [t|].
    + destruct L as [A B]. split; [congruence|]. rewrite Er. eapply repr_ext; [exact B|]. intros x _. apply RD.
    + rewrite Er. exact L.
  - split.
    + unfold disk_ok in *. rewrite Eh, Ed, Edn, Edr, En. exact Dk.
    + rewrite Ee, Eh, Ede, Em. auto.
Qed.

Lemma repr_live_ext s s' t id fp :
  repr (rd s) t id fp -> (forall x, In x fp -> rd s' x = rd s x) -> repr (rd s') t id fp.
Proof. intros R E. eapply repr_ext; eauto. Qed.

Lemma with_mem_eta s mem def :
  {| p_mem := mem; p_disk := p_disk s; p_root := p_root s; p_next := p_next s; p_elen := p_elen s;
     p_created := p_created s; p_delpages := p_delpages s; p_deferred := def;
     p_modified := p_modified s; p_dhas := p_dhas s; p_droot := p_droot s;
     p_dnext := p_dnext s; p_delen := p_delen s |} = with_mem s mem def.
Proof. reflexivity. Qed.

(* the lookup-only outcome of Add / Delete *)
Lemma lookup_only s m reads :
  Abs s m ->
  Abs (let '(mem1, def1) := replay_loads npp (p_next s) (p_disk s) reads (p_mem s) (p_deferred s) in
       with_mem s mem1 def1) m.
Proof.
  intros A. destruct (replay_as_loads npp Hnpp (p_next s) reads s) as (s1 & E1 & E2 & E3 & _).
  rewrite E1, <- E2. eapply Abs_same; eauto; rewrite E2; reflexivity.
Qed.

(* ---------- Add ---------- *)
Lemma add_refines s m k s' r st' lr mo :
  Abs s m -> p_add npp s k = (s', r) -> trie_add (m_cur m) k = (st', lr, mo) -> lr <> RPanic ->
  res_rel r lr /\
  Abs s' {| m_cur := st'; m_modified := m_modified m || mo; m_committed := m_committed m |}.
Proof.
  intros (fp & I & L & Dk & Ee & Ed & Em) P T NP.
  unfold p_add in P. unfold trie_add in T. unfold live_ok in L.
  destruct (t_root (m_cur m)) as [t|] eqn:Er.
  - (* non-empty trie *)
    destruct L as [Hr R]. pose proof Hr as Hr'. apply N.eqb_neq in Hr. rewrite Hr in P.
    rewrite <- Ee in T. destruct (negb (Nat.eqb (length k) (p_elen s))) eqn:El.
    + inversion P; subst s' r. inversion T; subst st' lr mo. split; [cbn; trivial|]. rewrite orb_false_r.
      exists fp. unfold live_ok. destruct m; cbn in *. rewrite Er.
      split; [exact I|]. split; [split; [exact Hr' | exact R]|]. split; [exact Dk|]. auto.
    + pose proof (iv_live _ _ _ I _ (repr_root_in _ _ _ _ R)) as Lr.
      cbn [o_mark start_tx o_h] in P.
      destruct (rd s (p_root s)) as [rn|] eqn:Ern; [|congruence].
      destruct (find t k) as [b|] eqn:Ef; [|inversion T; congruence].
      set (st0 := o_mark (start_tx s) (p_root s)) in *.
      assert (R0 : repr (o_h st0) t (p_root s) fp) by exact R.
      destruct (hfind_sim k t (p_root s) fp st0 b R0 Ef) as (nrf & Hf & Inf).
      rewrite Hf in P. destruct b.
      * (* already present *)
        cbn [o_reads] in P.
        destruct (replay_loads npp (p_next s) (p_disk s) (rev (nrf ++ o_reads st0)) (p_mem s) (p_deferred s))
          as [mem1 def1] eqn:Erl.
        inversion P; subst s' r. inversion T; subst st' lr mo. split; [reflexivity|]. rewrite orb_false_r.
        pose proof (lookup_only s m (rev (nrf ++ o_reads st0))) as LO. rewrite Erl in LO.
        assert (A0 : Abs s m).
        { exists fp. unfold live_ok. rewrite Er.
          split; [exact I|]. split; [split; [exact Hr' | exact R]|]. split; [exact Dk|]. auto. }
        specialize (LO A0). destruct m; cbn in *. exact LO.
      * (* absent: node.add *)
        destruct (add t k) as [t'|] eqn:Ea; [|inversion T; congruence].
        inversion T; subst st' lr mo. clear T.
        set (st1 := {| o_h := o_h st0; o_next := o_next st0; o_dels := o_dels st0; o_reads := nrf ++ o_reads st0 |}) in *.
        assert (R1 : repr (o_h st1) t (p_root s) fp) by exact R.
        pose proof (live_bounded s fp I) as Bd.
        destruct (hadd_sim k t (p_root s) fp st1 t' R1 (iv_nd _ _ _ I) Bd Ea)
          as (st2 & id' & fp' & nd & nr & Ha & R2 & Po).
        rewrite Ha in P. inversion P; subst s' r. clear P. split; [reflexivity|]. rewrite orb_true_r.
        destruct Po as [[Pe1 Pe2] Pd Pr Pn Pb Pf Pnd Pndb Pnr].
        cbn [st1 o_next o_h o_dels o_reads st0 o_mark start_tx] in Pe1, Pe2, Pd, Pr, Pf, Pnd, Pnr.
        assert (Hroot : In (p_root s) fp) by (eapply repr_root_in; eauto).
        destruct (Inv_finish_tx npp Hnpp s fp (o_del st2 (p_root s)) fp' id' (p_elen s) I) as [I' RD'].
        -- exact Pe1.
        -- intros x Hx. cbn. rewrite Pe2 by exact Hx. reflexivity.
        -- exact Pn.
        -- exact Pb.
        -- intros x Hx. destruct (Pf x Hx) as [A B]. cbn [o_del o_dels]. rewrite Pd, app_nil_r. split.
           ++ intros [<-|Hin]; [|tauto]. destruct B as [[_ B]|B]; [congruence | apply Bd in Hroot; lia].
           ++ destruct B as [[B _]|B]; auto.
        -- intros x Hx. cbn [o_del o_dels o_reads] in Hx |- *. rewrite Pd, app_nil_r in Hx. rewrite Pr.
           destruct Hx as [<-|Hx].
           ++ left. split; [exact Hroot|]. apply in_or_app. right. apply in_or_app. right. left. reflexivity.
           ++ destruct (Pnd x Hx) as [(A & _ & C)|C]; [|right; exact C].
              left. split; [exact A|]. apply in_or_app. left. exact C.
        -- intros x Hx. cbn [o_del o_dels o_next] in Hx |- *. rewrite Pd, app_nil_r in Hx.
           destruct Hx as [<-|Hx]; [apply Bd in Hroot; lia | apply Pndb; exact Hx].
        -- intros x Hx. cbn. eapply repr_defined; eauto.
        -- assert (Hid : In id' fp') by (eapply repr_root_in; eauto).
           assert (Fr : p_root (finish_tx npp s (o_del st2 (p_root s)) id' (p_elen s)) = id').
           { unfold finish_tx. destruct (replay_loads _ _ _ _ _ _). reflexivity. }
           exists fp'. split; [exact I'|]. split.
           ++ unfold live_ok. cbn [m_cur t_root]. rewrite Fr. split.
              ** destruct (Pf id' Hid) as [_ [[B C]|B]]; pose proof (iv_base _ _ _ I) as Hb; unfold base_id in Hb.
                 --- pose proof (iv_live _ _ _ I id' B) as Lx.
                     assert (p_mem s id' <> None \/ p_disk s id' <> None).
                     { unfold rd in Lx. destruct (p_mem s id'); [left; congruence | right; exact Lx]. }
                     apply (iv_bnd _ _ _ I) in H. unfold base_id in H. lia.
                 --- lia.
              ** eapply repr_ext; [exact R2|]. intros x Hx. rewrite (RD' x Hx). reflexivity.
           ++ split.
              ** unfold disk_ok in *. unfold finish_tx. destruct (replay_loads _ _ _ _ _ _).
                 cbn [p_dhas p_disk p_dnext p_droot p_next m_committed].
                 destruct (p_dhas s); [|exact Dk]. destruct Dk as (A & B & C & D).
                 split; [exact A|]. split; [exact B|]. split; [cbn [o_del o_next]; lia | exact D].
              ** unfold finish_tx. destruct (replay_loads _ _ _ _ _ _). cbn. auto.
  - (* empty trie: the element becomes the root leaf *)
    destruct L as [Hr ->]. rewrite Hr in P. cbn [N.eqb] in P. cbn [o_alloc start_tx] in P.
    inversion P; subst s' r. clear P. inversion T; subst st' lr mo. clear T.
    split; [reflexivity|]. rewrite orb_true_r.
    set (st := {| o_h := upd (rd s) (p_next s) (SLeaf k); o_next := p_next s + 1; o_dels := []; o_reads := [] |}).
    destruct (Inv_finish_tx npp Hnpp s [] st [p_next s] (p_next s) (length k) I) as [I' RD'].
    + cbn. lia.
    + intros x Hx. cbn. unfold upd. destruct (x =? p_next s) eqn:E; [apply N.eqb_eq in E; lia | reflexivity].
    + repeat constructor. intros [].
    + intros x [<-|[]]. cbn. lia.
    + intros x [<-|[]]. split; [intros [] | right; lia].
    + intros x [].
    + intros x [].
    + intros x [<-|[]]. cbn. unfold upd. rewrite N.eqb_refl. congruence.
    + assert (Fr : p_root (finish_tx npp s st (p_next s) (length k)) = p_next s).
      { unfold finish_tx. destruct (replay_loads _ _ _ _ _ _). reflexivity. }
      exists [p_next s]. split; [exact I'|]. split.
      * unfold live_ok. cbn [m_cur t_root]. rewrite Fr. split.
        -- pose proof (iv_base _ _ _ I) as Hb. unfold base_id in Hb. lia.
        -- constructor. rewrite (RD' (p_next s)) by (left; reflexivity). cbn. unfold upd. rewrite N.eqb_refl. reflexivity.
      * split.
        -- unfold disk_ok in *. unfold finish_tx. destruct (replay_loads _ _ _ _ _ _).
           cbn [p_dhas p_disk p_dnext p_droot p_next m_committed].
           destruct (p_dhas s); [|exact Dk]. destruct Dk as (A & B & C & D).
           split; [exact A|]. split; [exact B|]. split; [cbn; lia | exact D].
        -- unfold finish_tx. destruct (replay_loads _ _ _ _ _ _). cbn. auto.
Qed.

(* ---------- Delete ---------- *)
Lemma delete_refines s m k s' r st' lr mo :
  Abs s m -> p_delete npp s k = (s', r) -> trie_delete (m_cur m) k = (st', lr, mo) -> lr <> RPanic ->
  res_rel r lr /\
  Abs s' {| m_cur := st'; m_modified := m_modified m || mo; m_committed := m_committed m |}.
Proof.
  intros (fp & I & L & Dk & Ee & Ed & Em) P T NP.
  unfold p_delete in P. unfold trie_delete in T. unfold live_ok in L.
  destruct (t_root (m_cur m)) as [t|] eqn:Er.
  - destruct L as [Hr R]. pose proof Hr as Hr'. apply N.eqb_neq in Hr. rewrite Hr in P.
    rewrite <- Ee in T.
    assert (A0 : Abs s m).
    { exists fp. unfold live_ok. rewrite Er.
      split; [exact I|]. split; [split; [exact Hr' | exact R]|]. split; [exact Dk|]. auto. }
    destruct (negb (Nat.eqb (length k) (p_elen s))) eqn:El.
    + inversion P; subst s' r. inversion T; subst st' lr mo. split; [cbn; trivial|]. rewrite orb_false_r.
      destruct m; cbn in *. exact A0.
    + pose proof (iv_live _ _ _ I _ (repr_root_in _ _ _ _ R)) as Lr.
      cbn [o_mark start_tx o_h] in P.
      destruct (rd s (p_root s)) as [rn|] eqn:Ern; [|congruence].
      destruct (find t k) as [b|] eqn:Ef; [|inversion T; congruence].
      set (st0 := o_mark (start_tx s) (p_root s)) in *.
      assert (R0 : repr (o_h st0) t (p_root s) fp) by exact R.
      destruct (hfind_sim k t (p_root s) fp st0 b R0 Ef) as (nrf & Hf & Inf).
      rewrite Hf in P. destruct b.
      * (* present *)
        set (st1 := {| o_h := o_h st0; o_next := o_next st0; o_dels := o_dels st0; o_reads := nrf ++ o_reads st0 |}) in *.
        pose proof (live_bounded s fp I) as Bd.
        assert (Hroot : In (p_root s) fp) by (eapply repr_root_in; eauto).
        assert (DkN : forall s2, p_dhas s2 = p_dhas s -> p_disk s2 = p_disk s -> p_dnext s2 = p_dnext s ->
                                 p_droot s2 = p_droot s -> p_next s <= p_next s2 ->
                                 disk_ok s2 (t_root (m_committed m))).
        { intros s2 E1 E2 E3 E4 E5. unfold disk_ok in *. rewrite E1, E2, E3, E4.
          destruct (p_dhas s); [|exact Dk]. destruct Dk as (A & B & C & D).
          split; [exact A|]. split; [exact B|]. split; [lia | exact D]. }
        destruct t as [h|cs].
        -- (* the root is the only element *)
           inversion R as [id0 k0 Hh|]; subst. rewrite Ern in Hh. inversion Hh; subst rn.
           cbn [is_leaf] in T. inversion T; subst st' lr mo. clear T.
           inversion P; subst s' r. clear P. split; [reflexivity|]. rewrite orb_true_r.
           destruct (Inv_finish_tx npp Hnpp s [p_root s] (o_del st1 (p_root s)) [] 0 0%nat I) as [I' _].
           ++ cbn. lia.
           ++ intros x Hx. reflexivity.
           ++ constructor.
           ++ intros x [].
           ++ intros x [].
           ++ intros x Hx. cbn in Hx. left. destruct Hx as [<-|Hx].
              ** split; [left; reflexivity|]. cbn. apply in_or_app. right. left. reflexivity.
              ** destruct Hx.
           ++ intros x Hx. cbn in Hx |- *. destruct Hx as [<-|[]]. apply Bd. left. reflexivity.
           ++ intros x [].
           ++ exists []. split; [exact I'|]. split.
              ** unfold live_ok. cbn [m_cur t_root]. split; [|reflexivity].
                 unfold finish_tx. destruct (replay_loads _ _ _ _ _ _). reflexivity.
              ** split.
                 --- apply DkN; unfold finish_tx; destruct (replay_loads _ _ _ _ _ _); cbn; try reflexivity; lia.
                 --- unfold finish_tx. destruct (replay_loads _ _ _ _ _ _). cbn. auto.
        -- (* node.remove *)
           inversion R as [|id0 cs0 ics fp0 Hh Rs]; subst. rewrite Ern in Hh. inversion Hh; subst rn.
           cbn [is_leaf] in T.
           destruct (remove (Node cs) k) as [t'|] eqn:Ea; [|inversion T; congruence].
           inversion T; subst st' lr mo. clear T.
           assert (R1 : repr (o_h st1) (Node cs) (p_root s) (p_root s :: fp0)) by exact R.
           destruct (hremove_sim k (Node cs) (p_root s) (p_root s :: fp0) st1 t' R1 (iv_nd _ _ _ I) Bd Ea)
             as (st2 & id' & fp' & nd & nr & Ha & R2 & Po).
           rewrite Ha in P. inversion P; subst s' r. clear P. split; [reflexivity|]. rewrite orb_true_r.
           destruct Po as [[Pe1 Pe2] Pd Pr Pn Pb Pf Pnd Pndb Pnr].
           cbn [st1 o_next o_h o_dels o_reads st0 o_mark start_tx] in Pe1, Pe2, Pd, Pr, Pf, Pnd, Pnr.
           destruct (Inv_finish_tx npp Hnpp s (p_root s :: fp0) (o_del st2 (p_root s)) fp' id' (p_elen s) I) as [I' RD'].
           ++ exact Pe1.
           ++ intros x Hx. cbn. rewrite Pe2 by exact Hx. reflexivity.
           ++ exact Pn.
           ++ exact Pb.
           ++ intros x Hx. destruct (Pf x Hx) as [A B]. cbn [o_del o_dels]. rewrite Pd, app_nil_r. split.
              ** intros [<-|Hin]; [|tauto]. destruct B as [[_ B]|B]; [congruence | apply Bd in Hroot; lia].
              ** destruct B as [[B _]|B]; auto.
           ++ intros x Hx. cbn [o_del o_dels o_reads] in Hx |- *. rewrite Pd, app_nil_r in Hx. rewrite Pr.
              destruct Hx as [<-|Hx].
              ** left. split; [exact Hroot|]. apply in_or_app. right. apply in_or_app. right. left. reflexivity.
              ** destruct (Pnd x Hx) as [(A & _ & C)|C]; [|right; exact C].
                 left. split; [exact A|]. apply in_or_app. left. exact C.
           ++ intros x Hx. cbn [o_del o_dels o_next] in Hx |- *. rewrite Pd, app_nil_r in Hx.
              destruct Hx as [<-|Hx]; [apply Bd in Hroot; lia | apply Pndb; exact Hx].
           ++ intros x Hx. cbn. eapply repr_defined; eauto.
           ++ assert (Hid : In id' fp') by (eapply repr_root_in; eauto).
              assert (Fr : p_root (finish_tx npp s (o_del st2 (p_root s)) id' (p_elen s)) = id').
              { unfold finish_tx. destruct (replay_loads _ _ _ _ _ _). reflexivity. }
              exists fp'. split; [exact I'|]. split.
              ** unfold live_ok. cbn [m_cur t_root]. rewrite Fr. split.
                 --- destruct (Pf id' Hid) as [_ [[B C]|B]]; pose proof (iv_base _ _ _ I) as Hb; unfold base_id in Hb.
                     +++ pose proof (iv_live _ _ _ I id' B) as Lx.
                         assert (p_mem s id' <> None \/ p_disk s id' <> None).
                         { unfold rd in Lx. destruct (p_mem s id'); [left; congruence | right; exact Lx]. }
                         apply (iv_bnd _ _ _ I) in H. unfold base_id in H. lia.
                     +++ lia.
                 --- eapply repr_ext; [exact R2|]. intros x Hx. rewrite (RD' x Hx). reflexivity.
              ** split.
                 --- apply DkN; unfold finish_tx; destruct (replay_loads _ _ _ _ _ _); cbn; try reflexivity; lia.
                 --- unfold finish_tx. destruct (replay_loads _ _ _ _ _ _). cbn. auto.
      * (* absent *)
        cbn [o_reads] in P.
        destruct (replay_loads npp (p_next s) (p_disk s) (rev (nrf ++ o_reads st0)) (p_mem s) (p_deferred s))
          as [mem1 def1] eqn:Erl.
        inversion P; subst s' r. inversion T; subst st' lr mo. split; [reflexivity|]. rewrite orb_false_r.
        pose proof (lookup_only s m (rev (nrf ++ o_reads st0))) as LO. rewrite Erl in LO.
        specialize (LO A0). destruct m; cbn in *. exact LO.
  - destruct L as [Hr ->]. rewrite Hr in P. cbn [N.eqb] in P.
    inversion P; subst s' r. inversion T; subst st' lr mo. split; [reflexivity|]. rewrite orb_false_r.
    exists []. unfold live_ok. destruct m; cbn in *. rewrite Er.
    split; [exact I|]. split; [split; [exact Hr | reflexivity]|]. split; [exact Dk|]. auto.
Qed.

(* ---------- commit / evict / reload / RootHash ---------- *)
Lemma commit_refines s m rho next' s' :
  Abs s m -> p_commit npp s rho next' = (s', POk) -> Abs s' (do_commit m).
Proof.
  intros (fp & I & L & Dk & Ee & Ed & Em) C.
  destruct (commit_ok npp Hnpp s fp rho next' s' I C)
    as (I' & V & Er & Edr & Eh & Edn & En & Eel & Edl & Emo & Bd & Hn & F0).
  exists (map (rho_fwd rho) fp). split; [exact I'|].
  unfold live_ok, disk_ok in *. cbn [do_commit m_cur m_committed m_modified].
  rewrite Eh, Er, Edr, Edn, En.
  destruct (t_root (m_cur m)) as [t|].
  - destruct L as [Hr R].
    assert (R1 : repr (rd s') t (rho_fwd rho (p_root s)) (map (rho_fwd rho) fp)).
    { apply (proj1 (repr_rename_both (rd s) (rd s') rho) t (p_root s) fp R). intros x Hx. apply V. exact Hx. }
    assert (R2 : repr (p_disk s') t (rho_fwd rho (p_root s)) (map (rho_fwd rho) fp)).
    { apply (proj1 (repr_rename_both (rd s) (p_disk s') rho) t (p_root s) fp R). intros x Hx. apply V. exact Hx. }
    assert (Hnz : rho_fwd rho (p_root s) <> 0).
    { pose proof (repr_defined _ _ _ _ _ R2 (repr_root_in _ _ _ _ R2)) as D. apply Bd in D. unfold base_id in D. lia. }
    split; [split; assumption|]. split.
    + split; [exact Bd|]. split; [pose proof (iv_base _ _ _ I); lia|]. split; [lia|].
      split; [exact Hnz|]. exists (map (rho_fwd rho) fp). split; [exact R2 | exact (iv_nd _ _ _ I')].
    + rewrite Eel, Edl, Emo. auto.
  - destruct L as [Hr ->]. rewrite Hr, F0. split; [split; reflexivity|]. split.
    + split; [exact Bd|]. split; [pose proof (iv_base _ _ _ I); lia|]. split; [lia | reflexivity].
    + rewrite Eel, Edl, Emo. auto.
Qed.

Lemma evict_refines s m Dp : Abs s m -> p_modified s = false -> Abs (p_evict npp true s Dp) m.
Proof.
  intros A Hc. eapply Abs_same; [exact A| | | | | | | | | |]; try reflexivity.
  intros fp I. apply evict_ok; assumption.
Qed.

Lemma get_refines s m x : Abs s m -> Abs (p_get npp s x) m.
Proof.
  intros A. assert (E : p_get npp s x = s \/ p_get npp s x = load npp s (page npp x)).
  { unfold p_get. destruct (p_mem s x); [left; reflexivity | right; reflexivity]. }
  eapply Abs_same; [exact A| | | | | | | | | |];
    try (destruct E as [-> | ->]; reflexivity).
  intros fp I. apply get_ok; assumption.
Qed.

Lemma reload_refines s m :
  Abs s m -> Abs (p_reload npp s) {| m_cur := m_committed m; m_modified := false; m_committed := m_committed m |}.
Proof.
  intros (fp & I & L & Dk & Ee & Ed & Em).
  unfold disk_ok in Dk.
  destruct (p_dhas s) eqn:Eh.
  - destruct Dk as (Bd & Bs & Bn & D).
    assert (Hfp : exists fpd, (forall x, In x fpd -> p_disk s x <> None) /\ NoDup fpd /\
                   match t_root (m_committed m) with
                   | None => fpd = []
                   | Some t => repr (p_disk s) t (p_droot s) fpd
                   end).
    { destruct (t_root (m_committed m)) as [t|].
      - destruct D as (_ & fpd & R & Nd). exists fpd. split; [|split; assumption].
        intros x Hx. eapply repr_defined; eauto.
      - exists []. split; [intros x []|]. split; [constructor | reflexivity]. }
    destruct Hfp as (fpd & Lv & Nd & Hr).
    destruct (reload_ok npp Hnpp s fpd) as [I' RD].
    { rewrite Eh. repeat split; auto; apply Bd; assumption. }
    exists fpd. split; [exact I'|].
    unfold live_ok, disk_ok, p_reload in *. rewrite Eh in *. cbn [m_cur m_committed m_modified p_root p_dhas p_disk p_dnext p_droot p_next p_elen p_delen p_modified].
    destruct (t_root (m_committed m)) as [t|].
    + destruct D as (Hz & _). split.
      * split; [exact Hz|]. eapply repr_ext; [exact Hr|]. intros x _. apply RD.
      * split; [|auto]. split; [exact Bd|]. split; [exact Bs|]. split; [lia|].
        split; [exact Hz|]. exists fpd. auto.
    + subst fpd. split; [split; [exact D | reflexivity]|]. split; [|auto].
      split; [exact Bd|]. split; [exact Bs|]. split; [lia | exact D].
  - destruct Dk as [En Em0].
    destruct (reload_ok npp Hnpp s []) as [I' RD].
    { rewrite Eh. split; [reflexivity | exact Em0]. }
    exists []. split; [exact I'|].
    unfold live_ok, disk_ok, p_reload in *. rewrite Eh in *. cbn [m_cur m_committed m_modified p_root p_dhas p_disk p_dnext p_droot p_next p_elen p_delen p_modified].
    rewrite En. split; [split; reflexivity|]. split; [split; [reflexivity | exact Em0]|]. auto.
Qed.

(* ---------- one step ---------- *)
Theorem pstep_refines s m o s' r :
  Abs s m -> pstep npp true s o = (s', r) -> snd (step m (erase_op o)) <> RPanic -> r <> PBadOracle ->
  Abs s' (fst (step m (erase_op o))) /\ res_rel r (snd (step m (erase_op o))).
Proof.
  intros A P NP NB. pose proof A as (fp & I & L & Dk & Ee & Ed & Em).
  destruct o as [k|k|rho n'|[|] rho n' Dp| |rho n']; cbn [pstep erase_op step] in *.
  - destruct (trie_add (m_cur m) k) as [[st' lr] mo] eqn:T.
    destruct (add_refines s m k s' r st' lr mo A P T NP) as [R A']. cbn. split; assumption.
  - destruct (trie_delete (m_cur m) k) as [[st' lr] mo] eqn:T.
    destruct (delete_refines s m k s' r st' lr mo A P T NP) as [R A']. cbn. split; assumption.
  - destruct (p_commit npp s rho n') as [s1 r1] eqn:C. inversion P; subst s1 r1.
    destruct r; try (unfold p_commit in C; destruct (negb _) in C; inversion C; fail); try congruence.
    cbn. split; [eapply commit_refines; eauto | trivial].
  - rewrite <- Em. destruct (p_modified s) eqn:Emod.
    + destruct (p_commit npp s rho n') as [s1 r1] eqn:C.
      destruct r1; try (unfold p_commit in C; destruct (negb _) in C; inversion C; fail).
      * inversion P; subst s' r. cbn. split; [|trivial].
        pose proof (commit_refines s m rho n' s1 A C) as A1.
        apply evict_refines; [exact A1|].
        destruct (commit_ok npp Hnpp s fp rho n' s1 I C) as (_ & _ & _ & _ & _ & _ & _ & _ & _ & Emo & _). exact Emo.
      * inversion P; subst. congruence.
    + inversion P; subst s' r. cbn. split; [|trivial]. apply evict_refines; assumption.
  - rewrite <- Em. destruct (p_modified s) eqn:Emod.
    + inversion P; subst s' r. cbn. split; [exact A | trivial].
    + inversion P; subst s' r. cbn. split; [|trivial]. apply evict_refines; assumption.
  - inversion P; subst s' r. cbn. split; [apply reload_refines; exact A | trivial].
  - unfold live_ok in L. destruct (t_root (m_cur m)) as [t|] eqn:Er.
    + destruct L as [Hr R]. pose proof Hr as Hr'. apply N.eqb_neq in Hr. rewrite Hr in P.
      rewrite <- Em. destruct (p_modified s) eqn:Emod.
      * destruct (p_commit npp s rho n') as [s1 r1] eqn:C.
        destruct r1; try (unfold p_commit in C; destruct (negb _) in C; inversion C; fail).
        -- inversion P; subst s' r. cbn. split; [|trivial].
           apply get_refines. eapply commit_refines; eauto.
        -- inversion P; subst. congruence.
      * inversion P; subst s' r. cbn. split; [|trivial]. apply get_refines. exact A.
    + destruct L as [Hr ->]. rewrite Hr in P. cbn [N.eqb] in P. inversion P; subst s' r. cbn. split; [exact A | trivial].
Qed.

(* ---------- whole histories ---------- *)
Lemma prun_refines : forall ops s m,
  Abs s m -> ~ In RPanic (snd (run m (map erase_op ops))) -> ~ In PBadOracle (snd (prun npp true s ops)) ->
  Abs (fst (prun npp true s ops)) (fst (run m (map erase_op ops))) /\
  Forall2 res_rel (snd (prun npp true s ops)) (snd (run m (map erase_op ops))).
Proof.
  induction ops as [|o ops IH]; intros s m A NP NB; cbn [prun run map] in *.
  - split; [exact A | constructor].
  - destruct (pstep npp true s o) as [s1 r] eqn:P.
    destruct (step m (erase_op o)) as [m1 lr] eqn:T.
    destruct (prun npp true s1 ops) as [s2 rs] eqn:PR.
    destruct (run m1 (map erase_op ops)) as [m2 lrs] eqn:RR.
    cbn [fst snd] in *.
    destruct (pstep_refines s m o s1 r A P) as [A1 R1].
    { rewrite T. cbn. intros E. apply NP. left. exact E. }
    { intros E. apply NB. left. exact E. }
    rewrite T in A1, R1. cbn [fst snd] in A1, R1.
    destruct (IH s1 m1 A1) as [A2 R2].
    { rewrite RR. cbn. intros H. apply NP. right. exact H. }
    { rewrite PR. cbn. intros H. apply NB. right. exact H. }
    rewrite PR, RR in A2, R2. cbn [fst snd] in A2, R2.
    split; [exact A2 | constructor; assumption].
Qed.

Lemma Abs_init : Abs p_init m_init.
Proof.
  exists []. split.
  - constructor; cbn; unfold hempty.
    + intros x [A|A]; congruence.
    + intros; discriminate.
    + intros x A. congruence.
    + intros x [].
    + intros x [].
    + intros x y A. congruence.
    + intros _ y [].
    + auto.
    + lia.
    + constructor.
  - split; [split; reflexivity|]. split; [split; [reflexivity | intros x; reflexivity]|]. auto.
Qed.

Lemma res_rel_no_fail : forall rs ls, Forall2 res_rel rs ls -> ~ In PFail rs.
Proof.
  induction 1 as [|r l rs ls R _ IH]; [intros []|]. intros [E|Hin]; [subst r; destruct l; exact R | tauto].
Qed.
End Refine.
