(* C47 lemmas, part 4: every range the key-value readers / writers scan, characterised on encoded
   keys by a predicate on the structured keys. *)
From Coq Require Import NArith List Bool Lia.
From Verif.model Require Import TrackerStore.
From Verif.proofs Require Import TrackerStoreKeys.
Import ListNotations.
Open Scope N_scope.

Lemma bcmp_nil_l b : bcmp [] b <> Gt.
Proof. destruct b; cbn; discriminate. Qed.
Lemma bleb_nil b : bleb [] b = true.
Proof. unfold bleb. destruct b; reflexivity. Qed.
Lemma bltb_nil_r b : bltb b [] = false.
Proof. unfold bltb. destruct b; reflexivity. Qed.

Lemma bleb_cons_same x a b : bleb (x :: a) (x :: b) = bleb a b.
Proof. unfold bleb. rewrite bcmp_cons_same. reflexivity. Qed.
Lemma bltb_cons_same x a b : bltb (x :: a) (x :: b) = bltb a b.
Proof. unfold bltb. rewrite bcmp_cons_same. reflexivity. Qed.

(* [p-, p.) is exactly "has prefix p-" *)
Lemma sep_range p : forall k, in_range (p ++ [sep]) (Some (p ++ [endsep])) k = is_prefix (p ++ [sep]) k.
Proof.
  unfold in_range. induction p as [|h p IH]; intros [|x t]; try reflexivity.
  - cbn [app is_prefix]. unfold sep, endsep. destruct (N.eqb_spec 45 x) as [<-|NE]; cbn [andb].
    + unfold bleb, bltb. cbn. destruct t; reflexivity.
    + unfold bleb, bltb. cbn [bcmp].
      destruct (N.compare_spec 45 x) as [E|E|E]; [congruence| |reflexivity]. cbn [andb].
      destruct (N.compare_spec x 46) as [F|F|F]; [subst; destruct t; reflexivity|lia|reflexivity].
  - cbn [app is_prefix]. destruct (N.eqb_spec h x) as [->|NE].
    + rewrite bleb_cons_same, bltb_cons_same. cbn [andb]. apply IH.
    + unfold bleb, bltb. cbn [bcmp]. rewrite (N.compare_antisym h x).
      destruct (N.compare_spec h x) as [E|E|E]; try congruence; reflexivity.
Qed.

Lemma is_prefix_app_eqlen a : forall a' x y, length a = length a' ->
  is_prefix (a ++ x) (a' ++ y) = beqb a a' && is_prefix x y.
Proof.
  induction a as [|h a IH]; intros [|h' a'] x y L; cbn in L; try discriminate.
  - reflexivity.
  - cbn [app is_prefix]. unfold beqb. cbn [bcmp]. rewrite IH by lia. unfold beqb.
    destruct (N.eqb_spec h h') as [->|NE].
    + rewrite N.compare_refl. reflexivity.
    + destruct (N.compare_spec h h'); try congruence; reflexivity.
Qed.

Lemma be8_cons n : exists x t, be8 n = x :: t.
Proof. pose proof (be8_length n) as L. destruct (be8 n) as [|x t]; [discriminate|]. eauto. Qed.

Ltac split_valid :=
  repeat match goal with
         | H : _ && _ = true |- _ => apply andb_true_iff in H as [? ?]
         end.
Ltac unfold_keys :=
  cbn [enc accountKey resourceKey appKvKey creatableKey onlineAccountKey onlineAccountBalanceKey txTailKey
       onlineAccountRoundParamsKey stateproofKey roundKey schemaVersionKey totalsKey
       kvPrefixAccount kvPrefixResource kvPrefixAppKv kvPrefixCreatorIndex kvRoundKey kvSchemaVersionKey kvTotalsKey
       kvPrefixOnlineAccount kvPrefixOnlineAccountBalance kvTxTail kvOnlineAccountRoundParams kvPrefixStateproof app].

(* ---- "all rows of a table" / "all rows of an address" ranges ---- *)
Lemma range_res a k : valid_addr a = true -> valid_key k = true ->
  in_range (fst (resourceAddrOnlyRangePrefix a)) (Some (snd (resourceAddrOnlyRangePrefix a))) (enc k) = is_res_of a k.
Proof.
  intros Va V. unfold resourceAddrOnlyRangePrefix. cbn [fst snd].
  change (kvPrefixResource ++ sep :: a ++ [sep]) with (([120; 98; 45] ++ a) ++ [sep]) at 1.
  replace (kvPrefixResource ++ sep :: a ++ [endsep]) with (([120; 98; 45] ++ a) ++ [endsep]) by (rewrite <- app_assoc; reflexivity).
  replace (([120; 98; 45] ++ a) ++ [sep]) with ([120; 98; 45] ++ a ++ [sep]) in * by (rewrite <- app_assoc; reflexivity).
  replace ([120; 98; 45] ++ a ++ [sep]) with (([120; 98; 45] ++ a) ++ [sep]) by (rewrite <- app_assoc; reflexivity).
  rewrite sep_range. rewrite <- app_assoc.
  destruct k; try reflexivity. cbn [valid_key] in V. split_valid. unfold_keys. cbn [is_prefix N.eqb Pos.eqb andb is_res_of].
  rewrite is_prefix_app_eqlen by (rewrite !valid_addr_length by assumption; reflexivity).
  cbn [is_prefix]. unfold sep. rewrite N.eqb_refl. cbn. rewrite andb_true_r. reflexivity.
Qed.

Lemma range_onl_addr a k : valid_addr a = true -> valid_key k = true ->
  in_range (fst (onlineAccountAddressRangePrefix a)) (Some (snd (onlineAccountAddressRangePrefix a))) (enc k) = is_onl_of a k.
Proof.
  intros Va V. unfold onlineAccountAddressRangePrefix, onlineAccountOnlyPartialKey. cbn [fst snd].
  replace (kvPrefixOnlineAccount ++ sep :: a ++ [sep]) with (([120; 101; 45] ++ a) ++ [sep]) by (rewrite <- app_assoc; reflexivity).
  replace (kvPrefixOnlineAccount ++ sep :: a ++ [endsep]) with (([120; 101; 45] ++ a) ++ [endsep]) by (rewrite <- app_assoc; reflexivity).
  rewrite sep_range. rewrite <- app_assoc.
  destruct k; try reflexivity. cbn [valid_key] in V. split_valid. unfold_keys. cbn [is_prefix N.eqb Pos.eqb andb is_onl_of].
  rewrite is_prefix_app_eqlen by (rewrite !valid_addr_length by assumption; reflexivity).
  cbn [is_prefix]. unfold sep. rewrite N.eqb_refl. cbn. rewrite andb_true_r. reflexivity.
Qed.

Lemma table_range (c : N) k :
  in_range ([120; c] ++ [sep]) (Some ([120; c] ++ [endsep])) k = is_prefix [120; c; 45] k.
Proof. rewrite sep_range. reflexivity. Qed.

Lemma range_onl_full k : valid_key k = true ->
  in_range (fst onlineAccountFullRangePrefix) (Some (snd onlineAccountFullRangePrefix)) (enc k) = is_onl k.
Proof.
  intros V. unfold onlineAccountFullRangePrefix, kvPrefixOnlineAccount. cbn [fst snd]. rewrite table_range.
  destruct k; reflexivity.
Qed.
Lemma range_txtail_full k : valid_key k = true ->
  in_range (fst txTailFullRangePrefix) (Some (snd txTailFullRangePrefix)) (enc k) = is_txtail k.
Proof.
  intros V. unfold txTailFullRangePrefix, kvTxTail. cbn [fst snd]. rewrite table_range. destruct k; reflexivity.
Qed.
Lemma range_orp_full k : valid_key k = true ->
  in_range (fst onlineAccountRoundParamsFullRangePrefix) (Some (snd onlineAccountRoundParamsFullRangePrefix)) (enc k) = is_orp k.
Proof.
  intros V. unfold onlineAccountRoundParamsFullRangePrefix, kvOnlineAccountRoundParams. cbn [fst snd]. rewrite table_range.
  destruct k; reflexivity.
Qed.
Lemma range_sp_full k : valid_key k = true ->
  in_range (fst stateproofFullRangePrefix) (Some (snd stateproofFullRangePrefix)) (enc k) = is_sp k.
Proof.
  intros V. unfold stateproofFullRangePrefix, kvPrefixStateproof. cbn [fst snd]. rewrite table_range. destruct k; reflexivity.
Qed.

(* ---- "rounds before r" ranges: [x?-, x?- be8 r) ---- *)
Lemma bltb_be8 n m : u64 n = true -> u64 m = true -> bltb (be8 n) (be8 m) = (n <? m).
Proof. intros. unfold bltb, N.ltb. rewrite be8_cmp by assumption. reflexivity. Qed.

Lemma range_txtail_before r k : u64 r = true -> valid_key k = true ->
  in_range (fst (txTailRoundRangePrefix r)) (Some (snd (txTailRoundRangePrefix r))) (enc k)
  = is_txtail k && (key_round k <? r).
Proof.
  intros Vr V. unfold txTailRoundRangePrefix, in_range. cbn [fst snd]. destruct k; try reflexivity.
  cbn [valid_key] in V. unfold_keys. rewrite !bleb_cons_same, !bltb_cons_same, bleb_nil, bltb_be8 by assumption. reflexivity.
Qed.
Lemma range_orp_before r k : u64 r = true -> valid_key k = true ->
  in_range (fst (onlineAccountRoundParamsRoundRangePrefix r)) (Some (snd (onlineAccountRoundParamsRoundRangePrefix r))) (enc k)
  = is_orp k && (key_round k <? r).
Proof.
  intros Vr V. unfold onlineAccountRoundParamsRoundRangePrefix, in_range. cbn [fst snd]. destruct k; try reflexivity.
  cbn [valid_key] in V. unfold_keys. rewrite !bleb_cons_same, !bltb_cons_same, bleb_nil, bltb_be8 by assumption. reflexivity.
Qed.
Lemma range_sp_before r k : u64 r = true -> valid_key k = true ->
  in_range (fst (stateproofRoundRangePrefix r)) (Some (snd (stateproofRoundRangePrefix r))) (enc k)
  = is_sp k && (key_round k <? r).
Proof.
  intros Vr V. unfold stateproofRoundRangePrefix, in_range. cbn [fst snd]. destruct k; try reflexivity.
  cbn [valid_key] in V. unfold_keys. rewrite !bleb_cons_same, !bltb_cons_same, bleb_nil, bltb_be8 by assumption. reflexivity.
Qed.

(* ---- the balance index ---- *)
Definition is_bal (k : skey) : bool := match k with KBal _ _ _ => true | _ => false end.
Definition bal_round (k : skey) : N := match k with KBal r _ _ => r | _ => 0 end.
Definition bal_addr (k : skey) : bytes := match k with KBal _ _ a => a | _ => [] end.

Lemma range_bal_before r k : u64 r = true -> valid_key k = true ->
  in_range (fst (onlineAccountBalanceBeforeRoundRangePrefix r)) (Some (snd (onlineAccountBalanceBeforeRoundRangePrefix r))) (enc k)
  = is_bal k && (bal_round k <? r).
Proof.
  intros Vr V. unfold onlineAccountBalanceBeforeRoundRangePrefix, in_range. cbn [fst snd]. destruct k; try reflexivity.
  cbn [valid_key] in V. split_valid. unfold_keys. rewrite !bleb_cons_same, !bltb_cons_same, bleb_nil. cbn [andb is_bal bal_round].
  unfold bltb. rewrite <- (app_nil_r (be8 r)).
  rewrite bcmp_app_eqlen by (rewrite !be8_length; reflexivity). rewrite be8_cmp by assumption.
  unfold N.ltb. destruct (r0 ?= r); reflexivity.
Qed.
Lemma range_bal_upto r k : u64 r = true -> valid_key k = true ->
  in_range (fst (onlineAccountBalanceForRoundRangePrefix r)) (Some (snd (onlineAccountBalanceForRoundRangePrefix r))) (enc k)
  = is_bal k && (bal_round k <=? r).
Proof.
  intros Vr V. unfold onlineAccountBalanceForRoundRangePrefix, in_range. cbn [fst snd]. destruct k; try reflexivity.
  cbn [valid_key] in V. split_valid. unfold_keys. rewrite !bleb_cons_same, !bltb_cons_same, bleb_nil. cbn [andb is_bal bal_round].
  unfold bltb. rewrite bcmp_app_eqlen by (rewrite !be8_length; reflexivity). rewrite be8_cmp by assumption.
  unfold N.leb. destruct (r0 ?= r); reflexivity.
Qed.

(* ---- LookupOnline, repaired bound: [xe-a-, key(a, r) ++ [0]) ---- *)
Lemma range_onl_latest a r k : valid_addr a = true -> u64 r = true -> valid_key k = true ->
  in_range (fst (onlineAccountLatestRangePrefix a r)) (Some (snd (onlineAccountLatestRangePrefix a r))) (enc k)
  = is_onl_of a k && (onl_round k <=? r).
Proof.
  intros Va Vr V. unfold onlineAccountLatestRangePrefix, onlineAccountOnlyPartialKey, onlineAccountKey, in_range. cbn [fst snd].
  destruct k; try reflexivity. cbn [valid_key] in V. split_valid. unfold_keys.
  rewrite !bleb_cons_same, !bltb_cons_same. cbn [is_onl_of onl_round].
  unfold bleb, bltb. rewrite <- !app_assoc. cbn [app].
  rewrite !bcmp_app_eqlen by (rewrite !valid_addr_length by assumption; reflexivity).
  rewrite !bcmp_cons_same. rewrite (bcmp_antisym a a0).
  unfold beqb. destruct (bcmp a a0) eqn:C; cbn [lexc CompOpp andb]; try reflexivity.
  destruct (be8_cons r0) as (x & t & E). rewrite E at 1. cbn [bcmp andb].
  rewrite <- (app_nil_r (be8 r0)). rewrite bcmp_app_eqlen by (rewrite !be8_length; reflexivity).
  rewrite be8_cmp by assumption. unfold N.leb. destruct (r0 ?= r); reflexivity.
Qed.

(* ---- app kv prefix scans (repaired): [xc-p, xc-(p+1)) ---- *)
(* keyPrefixIntervalPreprocessing computed from the front *)
Fixpoint incr (p : bytes) : option bytes :=
  match p with
  | [] => None
  | h :: t => match incr t with
              | Some t' => Some (h :: t')
              | None => if h <? 255 then Some [h + 1] else None
              end
  end.

Lemma incr_app_last q : forall x, incr (q ++ [x]) = if 255 <=? x then incr q else Some (q ++ [x + 1]).
Proof.
  induction q as [|h q IH]; intros x.
  - cbn. rewrite N.ltb_antisym. destruct (255 <=? x); reflexivity.
  - cbn [app incr]. rewrite IH. destruct (255 <=? x); reflexivity.
Qed.
Lemma prefix_incr_rev_incr p : prefix_incr_rev (rev p) = incr p.
Proof.
  induction p as [|x p IH] using rev_ind; [reflexivity|].
  rewrite rev_app_distr, incr_app_last. cbn [rev app prefix_incr_rev].
  destruct (255 <=? x); [exact IH|]. rewrite rev_involutive. reflexivity.
Qed.
Lemma incr_none p : incr p = None <-> strange_prefix p = true.
Proof.
  unfold strange_prefix. induction p as [|h p IH]; cbn; [tauto|].
  destruct (incr p) as [t'|].
  - split; [discriminate|]. intros H. apply andb_true_iff in H as [_ H]. apply IH in H. discriminate.
  - rewrite N.ltb_antisym. destruct (255 <=? h); cbn; [|split; discriminate].
    split; intros _; [apply IH|]; reflexivity.
Qed.

Lemma ff_bleb t : forall u, strange_prefix t = true -> all_lt256 u = true -> bleb t u = is_prefix t u.
Proof.
  unfold strange_prefix. induction t as [|h t IH]; intros u St Vu.
  - rewrite bleb_nil. reflexivity.
  - cbn in St. apply andb_true_iff in St as [Hh St]. apply N.leb_le in Hh.
    destruct u as [|y u]; [reflexivity|]. cbn in Vu. apply andb_true_iff in Vu as [Vy Vu]. apply N.ltb_lt in Vy.
    cbn [is_prefix]. destruct (N.eqb_spec h y) as [->|NE].
    + rewrite bleb_cons_same. apply IH; assumption.
    + unfold bleb. cbn [bcmp]. destruct (N.compare_spec h y); try lia; try reflexivity.
Qed.

Lemma incr_range p : forall pe k, all_lt256 k = true -> incr p = Some pe -> bleb p k && bltb k pe = is_prefix p k.
Proof.
  induction p as [|h t IH]; intros pe k Vk E; [discriminate|].
  cbn [incr] in E. destruct k as [|x u]; [reflexivity|].
  cbn in Vk. apply andb_true_iff in Vk as [Vx Vu]. fold (all_lt256 u) in Vu.
  cbn [is_prefix]. destruct (incr t) as [t'|] eqn:Et.
  - injection E as <-. destruct (N.eqb_spec h x) as [->|NE].
    + rewrite bleb_cons_same, bltb_cons_same. apply IH; [exact Vu|reflexivity].
    + unfold bleb, bltb. cbn [bcmp]. rewrite (N.compare_antisym h x).
      destruct (N.compare_spec h x); try congruence; reflexivity.
  - destruct (h <? 255) eqn:Hh; [|discriminate]. injection E as <-. apply N.ltb_lt in Hh.
    apply incr_none in Et.
    destruct (N.eqb_spec h x) as [->|NE].
    + rewrite bleb_cons_same, ff_bleb by assumption. unfold bltb. cbn [bcmp].
      destruct (N.compare_spec x (x + 1)); [lia| |lia]. rewrite andb_true_r. reflexivity.
    + unfold bleb, bltb. cbn [bcmp]. destruct (N.compare_spec h x) as [E|E|E]; [congruence| |reflexivity].
      cbn [andb]. destruct (N.compare_spec x (h + 1)) as [F|F|F]; [|lia|reflexivity].
      destruct u; reflexivity.
Qed.

Lemma bleb_trans a b c : bleb a b = true -> bleb b c = true -> bleb a c = true.
Proof.
  rewrite !bleb_spec. intros H1 H2 H3. apply bcmp_gt_lt in H3.
  destruct (bcmp b c) eqn:E; [| |congruence].
  - apply bcmp_eq in E. subst. apply H1. apply bcmp_gt_lt. exact H3.
  - apply H1. apply bcmp_gt_lt. eapply bcmp_trans_lt; eassumption.
Qed.
Lemma is_prefix_bleb p : forall k, is_prefix p k = true -> bleb p k = true.
Proof.
  induction p as [|h p IH]; intros k H; [apply bleb_nil|].
  destruct k as [|x k]; [discriminate|]. cbn in H. apply andb_true_iff in H as [E H]. apply N.eqb_eq in E. subst.
  rewrite bleb_cons_same. apply IH, H.
Qed.

Lemma range_app_prefix p pe k : prefix_incr_rev (rev p) = Some pe -> valid_key k = true ->
  in_range (appKvKey p) (Some (appKvKey pe)) (enc k) = is_app_with_prefix p k.
Proof.
  intros E V. rewrite prefix_incr_rev_incr in E. unfold in_range, appKvKey. destruct k; try reflexivity.
  cbn [valid_key] in V. unfold_keys. rewrite !bleb_cons_same, !bltb_cons_same. cbn [is_app_with_prefix].
  apply incr_range; assumption.
Qed.
(* with a cursor at or past the prefix start: [xc-cursor, xc-(p+1)) *)
Lemma range_app_prefix_cursor p pe cursor k : prefix_incr_rev (rev p) = Some pe -> bleb p cursor = true ->
  valid_key k = true ->
  in_range (appKvKey cursor) (Some (appKvKey pe)) (enc k) = is_app_with_prefix p k && bleb cursor (app_key k).
Proof.
  intros E C V. rewrite prefix_incr_rev_incr in E. unfold in_range, appKvKey. destruct k; try reflexivity.
  cbn [valid_key] in V. unfold_keys. rewrite !bleb_cons_same, !bltb_cons_same. cbn [is_app_with_prefix app_key].
  rewrite <- (incr_range p pe k V E).
  destruct (bleb cursor k) eqn:B; [|rewrite andb_false_r; reflexivity].
  rewrite (bleb_trans p cursor k C B). rewrite andb_true_r. reflexivity.
Qed.
