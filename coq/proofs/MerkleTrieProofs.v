(* C17 lemmas, part 1: the logical trie.
   find / add / remove of model/MerkleTrie.v preserve the canonical shape [wf] and compute
   membership / insertion / deletion on the element set [elems]; a canonical trie is
   determined by its element set ([wf_unique]). *)
From Coq Require Import List NArith Bool Sorted Lia ZifyN ZifyNat ZifyBool Arith.
From Verif.model Require Import MerkleTrie MerkleTrieSpec.
Import ListNotations.
Open Scope N_scope.

(* ---------- induction principle for the nested type ---------- *)
Lemma trie_ind' (P : trie -> Prop) :
  (forall h, P (Leaf h)) ->
  (forall cs, Forall (fun p => P (snd p)) cs -> P (Node cs)) ->
  forall t, P t.
Proof.
  intros HL HN. fix IH 1. intros [h|cs]. apply HL. apply HN.
  induction cs as [|[i c] l IHl]; constructor; [apply IH | exact IHl].
Qed.

Definition idx (cs : list (N * trie)) : list N := map fst cs.
Definition children_ok (n : nat) (cs : list (N * trie)) : Prop :=
  Forall (fun p => fst p < 256 /\ wf n (snd p)) cs.

Lemma wf_node n cs :
  wf (S n) (Node cs) <->
  cs <> [] /\ StronglySorted N.lt (idx cs) /\ not_single_leaf cs /\ children_ok n cs.
Proof.
  cbn [wf]. unfold children_ok, idx.
  assert (E : forall l,
    (fix all (l : list (N * trie)) : Prop :=
       match l with [] => True | (i, c) :: l' => (i < 256 /\ wf n c) /\ all l' end) l <->
    Forall (fun p => fst p < 256 /\ wf n (snd p)) l).
  { induction l as [|[i c] l IH]; split; intros Hl.
    - constructor.
    - exact I.
    - destruct Hl as [A B]. constructor; [exact A | apply IH, B].
    - inversion Hl; subst. split; [assumption | apply IH; assumption]. }
  rewrite E. tauto.
Qed.

Lemma wf_node_0 cs : ~ wf 0 (Node cs).
Proof. cbn. tauto. Qed.

Lemma wf_leaf n h : wf n (Leaf h) <-> length h = n /\ bytes_ok h.
Proof. reflexivity. Qed.

(* ---------- keys ---------- *)
Lemma key_eqb_eq a b : key_eqb a b = true <-> a = b.
Proof.
  revert b. induction a as [|x a IH]; destruct b as [|y b]; cbn; try (split; congruence).
  rewrite andb_true_iff, N.eqb_eq, IH. split; [intros [-> ->]; reflexivity | intros E; inversion E; auto].
Qed.

Lemma key_eqb_refl a : key_eqb a a = true.
Proof. apply key_eqb_eq; reflexivity. Qed.

Lemma key_eqb_neq a b : key_eqb a b = false <-> a <> b.
Proof.
  destruct (key_eqb a b) eqn:E.
  - apply key_eqb_eq in E. split; [discriminate | congruence].
  - split; [intros _ ->; rewrite key_eqb_refl in E; discriminate | reflexivity].
Qed.

(* ---------- elems ---------- *)
Lemma elems_node_cons i c l :
  elems (Node ((i, c) :: l)) = map (cons i) (elems c) ++ elems (Node l).
Proof. reflexivity. Qed.

Lemma elems_node_nil : elems (Node []) = [].
Proof. reflexivity. Qed.

Lemma elems_node_app l1 l2 : elems (Node (l1 ++ l2)) = elems (Node l1) ++ elems (Node l2).
Proof. cbn [elems]. apply flat_map_app. Qed.

Lemma in_elems_node k cs :
  In k (elems (Node cs)) <-> exists i c r, In (i, c) cs /\ k = i :: r /\ In r (elems c).
Proof.
  cbn [elems]. rewrite in_flat_map. split.
  - intros ([i c] & Hin & Hk). cbn in Hk. apply in_map_iff in Hk. destruct Hk as (r & <- & Hr).
    exists i, c, r. auto.
  - intros (i & c & r & Hin & -> & Hr). exists (i, c). split; [exact Hin|].
    cbn. apply in_map. exact Hr.
Qed.

Lemma in_map_cons (b : N) (k : key) (l : list key) :
  In k (map (cons b) l) <-> exists r, k = b :: r /\ In r l.
Proof.
  rewrite in_map_iff. split; intros (r & A & B); exists r; split; auto.
Qed.

Lemma in_elems_first k l : In k (elems (Node l)) -> exists i r, k = i :: r /\ In i (idx l).
Proof.
  rewrite in_elems_node. intros (i & c & r & Hin & -> & _). exists i, r. split; [reflexivity|].
  unfold idx. apply in_map_iff. exists (i, c). auto.
Qed.

(* ---------- sorted association lists ---------- *)
Fixpoint lookup (b : N) (cs : list (N * trie)) : option trie :=
  match cs with
  | [] => None
  | (i, c) :: l => if i =? b then Some c else lookup b l
  end.

Lemma lookup_In b cs c : lookup b cs = Some c -> In (b, c) cs.
Proof.
  induction cs as [|[i x] l IH]; cbn; [discriminate|].
  destruct (i =? b) eqn:E.
  - apply N.eqb_eq in E. intros [= ->]. left. congruence.
  - intros H. right. auto.
Qed.

Lemma lookup_None b cs : lookup b cs = None <-> ~ In b (idx cs).
Proof.
  induction cs as [|[i x] l IH]; cbn; [tauto|].
  destruct (i =? b) eqn:E.
  - apply N.eqb_eq in E. split; [discriminate | intros H; exfalso; apply H; auto].
  - apply N.eqb_neq in E. rewrite IH. tauto.
Qed.

Lemma lookup_Some_idx b cs c : lookup b cs = Some c -> In b (idx cs).
Proof. intros H. apply lookup_In in H. unfold idx. apply in_map_iff. exists (b, c). auto. Qed.

Lemma has_child_lookup b cs : has_child b cs = false <-> lookup b cs = None.
Proof.
  unfold has_child. induction cs as [|[i x] l IH]; cbn; [tauto|].
  destruct (i =? b); cbn; [split; discriminate | exact IH].
Qed.

Lemma sorted_inv (i : N) l :
  StronglySorted N.lt (i :: l) -> StronglySorted N.lt l /\ Forall (N.lt i) l.
Proof. apply StronglySorted_inv. Qed.

Lemma sorted_NoDup (l : list N) : StronglySorted N.lt l -> NoDup l.
Proof.
  induction l as [|i l IH]; intros H; constructor.
  - apply sorted_inv in H. destruct H as [_ H]. rewrite Forall_forall in H. intros Hin.
    apply H in Hin. lia.
  - apply IH. apply sorted_inv in H. tauto.
Qed.

Lemma sorted_app_drop (l1 : list N) x l2 :
  StronglySorted N.lt (l1 ++ x :: l2) -> StronglySorted N.lt (l1 ++ l2).
Proof.
  induction l1 as [|a l1 IH]; cbn; intros H.
  - apply sorted_inv in H. tauto.
  - apply sorted_inv in H. destruct H as [H1 H2]. constructor; [auto|].
    rewrite Forall_forall in *. intros y Hy. apply H2. rewrite in_app_iff in *. cbn. tauto.
Qed.

Lemma In_lookup b c cs : StronglySorted N.lt (idx cs) -> In (b, c) cs -> lookup b cs = Some c.
Proof.
  induction cs as [|[i x] l IH]; cbn; intros Hs Hin; [tauto|].
  apply sorted_inv in Hs. destruct Hs as [Hs Hlt].
  destruct Hin as [E|Hin].
  - inversion E; subst. rewrite N.eqb_refl. reflexivity.
  - destruct (i =? b) eqn:E.
    + apply N.eqb_eq in E. subst. rewrite Forall_forall in Hlt.
      assert (b < b) by (apply Hlt; unfold idx; apply in_map_iff; exists (b, c); auto). lia.
    + auto.
Qed.

(* the child at indexOf(b), when the mask says there is one, is the child with index b *)
Lemma split_at b c cs :
  StronglySorted N.lt (idx cs) -> lookup b cs = Some c ->
  exists pre post, cs = pre ++ (b, c) :: post /\
    (forall A (f : trie -> option A), at_index_of f b cs = f c) /\
    (forall f, splice_index_of f b cs =
               match f b c with Some e => Some (pre ++ e ++ post) | None => None end).
Proof.
  induction cs as [|[i x] l IH]; cbn [lookup]; intros Hs Hl; [discriminate|].
  cbn [idx map fst] in Hs. apply sorted_inv in Hs. destruct Hs as [Hs Hlt].
  destruct (i =? b) eqn:E.
  - apply N.eqb_eq in E. subst i. inversion Hl; subst x. exists [], l. split; [reflexivity|].
    split; intros; cbn; rewrite N.ltb_irrefl; [reflexivity|]. destruct (f b c); reflexivity.
  - apply N.eqb_neq in E.
    assert (Hib : i < b).
    { rewrite Forall_forall in Hlt. apply Hlt. eapply lookup_Some_idx; eauto. }
    destruct (IH Hs Hl) as (pre & post & -> & Ha & Hsp).
    exists ((i, x) :: pre), post. split; [reflexivity|].
    apply N.ltb_lt in Hib.
    split; intros; cbn; rewrite Hib.
    + apply Ha.
    + fold (splice_index_of f b). rewrite Hsp. destruct (f b c); reflexivity.
Qed.

Lemma idx_app l1 l2 : idx (l1 ++ l2) = idx l1 ++ idx l2.
Proof. apply map_app. Qed.

Lemma split_not_in b (c : trie) pre post :
  StronglySorted N.lt (idx (pre ++ (b, c) :: post)) ->
  ~ In b (idx pre) /\ ~ In b (idx post).
Proof.
  intros H. apply sorted_NoDup in H. rewrite idx_app in H. cbn in H.
  apply NoDup_remove_2 in H. rewrite in_app_iff in H. tauto.
Qed.

Lemma sorted_lookup_ext cs1 cs2 :
  StronglySorted N.lt (idx cs1) -> StronglySorted N.lt (idx cs2) ->
  (forall b, lookup b cs1 = lookup b cs2) -> cs1 = cs2.
Proof.
  revert cs2. induction cs1 as [|[i1 c1] l1 IH]; intros [|[i2 c2] l2] H1 H2 E.
  - reflexivity.
  - specialize (E i2). cbn in E. rewrite N.eqb_refl in E. discriminate.
  - specialize (E i1). cbn in E. rewrite N.eqb_refl in E. discriminate.
  - cbn [idx map fst] in H1, H2. apply sorted_inv in H1. apply sorted_inv in H2.
    destruct H1 as [H1 L1], H2 as [H2 L2]. rewrite Forall_forall in L1, L2.
    assert (Ei : i1 = i2).
    { pose proof (E i1) as A. pose proof (E i2) as B. cbn in A, B.
      rewrite N.eqb_refl in A, B.
      destruct (i2 =? i1) eqn:E21; [apply N.eqb_eq in E21; auto|].
      destruct (i1 =? i2) eqn:E12; [apply N.eqb_eq in E12; auto|].
      symmetry in A. apply lookup_Some_idx in A. apply lookup_Some_idx in B.
      apply L2 in A. apply L1 in B. lia. }
    subst i2.
    assert (Ec : c1 = c2).
    { pose proof (E i1) as A. cbn in A. rewrite N.eqb_refl in A. congruence. }
    subst c2. f_equal. apply IH; auto.
    intros b. specialize (E b). cbn in E. destruct (i1 =? b) eqn:Eb; [|exact E].
    apply N.eqb_eq in Eb. subst b.
    assert (A : lookup i1 l1 = None).
    { apply lookup_None. intros Hin. apply L1 in Hin. lia. }
    assert (B : lookup i1 l2 = None).
    { apply lookup_None. intros Hin. apply L2 in Hin. lia. }
    congruence.
Qed.

Lemma in_elems_lookup b r cs :
  StronglySorted N.lt (idx cs) ->
  (In (b :: r) (elems (Node cs)) <-> exists c, lookup b cs = Some c /\ In r (elems c)).
Proof.
  intros Hs. rewrite in_elems_node. split.
  - intros (i & c & r' & Hin & E & Hr). inversion E; subst. exists c. split; [|exact Hr].
    apply In_lookup; assumption.
  - intros (c & Hl & Hr). exists b, c, r. split; [apply lookup_In; exact Hl | auto].
Qed.

(* ---------- non-emptiness ---------- *)
Lemma wf_nonempty : forall t n, wf n t -> exists k, In k (elems t).
Proof.
  induction t as [h|cs IH] using trie_ind'; intros n Hw.
  - exists h. left. reflexivity.
  - destruct n; [exfalso; eapply wf_node_0; eauto|].
    apply wf_node in Hw. destruct Hw as (Hne & _ & _ & Hc).
    destruct cs as [|[i c] l]; [congruence|].
    inversion IH; subst. inversion Hc; subst. cbn [fst snd] in *.
    destruct (H1 n) as (r & Hr); [tauto|].
    exists (i :: r). rewrite elems_node_cons, in_app_iff. left. apply in_map. exact Hr.
Qed.

Lemma wf_node_two : forall t n, wf n t -> is_leaf t = false ->
  exists k1 k2, k1 <> k2 /\ In k1 (elems t) /\ In k2 (elems t).
Proof.
  induction t as [h|cs IH] using trie_ind'; intros n Hw Hl; [discriminate|].
  destruct n; [exfalso; eapply wf_node_0; eauto|].
  apply wf_node in Hw. destruct Hw as (Hne & Hs & Hns & Hc).
  destruct cs as [|[i c] [|[j d] l]]; [congruence| |].
  - (* single child: it is not a leaf *)
    inversion IH; subst. inversion Hc; subst. cbn [fst snd] in *.
    destruct c as [s|cs']; [contradiction|].
    destruct (H1 n) as (k1 & k2 & Hne' & A & B); [tauto|reflexivity|].
    exists (i :: k1), (i :: k2). split; [congruence|].
    rewrite elems_node_cons, !in_app_iff. split; left; apply in_map; assumption.
  - inversion Hc as [|? ? [_ Wc] Hc']; subst. inversion Hc' as [|? ? [_ Wd] _]; subst. cbn [fst snd idx map] in *.
    destruct (wf_nonempty _ _ Wc) as (r1 & R1). destruct (wf_nonempty _ _ Wd) as (r2 & R2).
    apply sorted_inv in Hs. destruct Hs as [_ Hlt]. inversion Hlt; subst.
    exists (i :: r1), (j :: r2). split; [intros E; inversion E; lia|].
    rewrite !elems_node_cons, !in_app_iff. split.
    + left. apply in_map; assumption.
    + right. left. apply in_map; assumption.
Qed.

(* ---------- a canonical trie is determined by its element set ---------- *)
Lemma wf_unique : forall t1 n t2, wf n t1 -> wf n t2 ->
  (forall k, In k (elems t1) <-> In k (elems t2)) -> t1 = t2.
Proof.
  induction t1 as [h|cs1 IH] using trie_ind'; intros n t2 W1 W2 E.
  - destruct t2 as [h2|cs2].
    + f_equal. assert (A : In h (elems (Leaf h2))) by (apply E; left; reflexivity).
      cbn in A. destruct A; [auto | tauto].
    + destruct (wf_node_two _ _ W2 eq_refl) as (k1 & k2 & Hne & A & B).
      apply E in A. apply E in B. cbn in A, B. destruct A, B; try tauto. congruence.
  - destruct t2 as [h2|cs2].
    + destruct (wf_node_two _ _ W1 eq_refl) as (k1 & k2 & Hne & A & B).
      apply E in A. apply E in B. cbn in A, B. destruct A, B; try tauto. congruence.
    + destruct n; [exfalso; eapply wf_node_0; eauto|].
      apply wf_node in W1. apply wf_node in W2.
      destruct W1 as (_ & S1 & _ & C1), W2 as (_ & S2 & _ & C2).
      f_equal.
      assert (D1 : forall b c, lookup b cs1 = Some c -> lookup b cs2 = Some c).
      { intros b c Hl.
        pose proof (lookup_In _ _ _ Hl) as Hin.
        unfold children_ok in C1. rewrite Forall_forall in C1, IH.
        destruct (C1 _ Hin) as [_ Wc]. cbn in Wc.
        destruct (wf_nonempty _ _ Wc) as (r & Hr).
        assert (A : In (b :: r) (elems (Node cs2))).
        { apply E. apply in_elems_lookup; [assumption|]. exists c. auto. }
        apply in_elems_lookup in A; [|assumption]. destruct A as (c2 & Hl2 & _).
        rewrite Hl2. f_equal. symmetry.
        pose proof (lookup_In _ _ _ Hl2) as Hin2.
        unfold children_ok in C2. rewrite Forall_forall in C2.
        destruct (C2 _ Hin2) as [_ Wc2]. cbn in Wc2.
        apply (IH _ Hin n c2 Wc Wc2). intros k.
        split; intros Hk.
        - assert (B : In (b :: k) (elems (Node cs2))).
          { apply E. apply in_elems_lookup; [assumption|]. exists c. auto. }
          apply in_elems_lookup in B; [|assumption]. destruct B as (c2' & Hl2' & Hk').
          rewrite Hl2 in Hl2'. inversion Hl2'; subst. exact Hk'.
        - assert (B : In (b :: k) (elems (Node cs1))).
          { apply E. apply in_elems_lookup; [assumption|]. exists c2. auto. }
          apply in_elems_lookup in B; [|assumption]. destruct B as (c1' & Hl1' & Hk').
          rewrite Hl in Hl1'. inversion Hl1'; subst. exact Hk'. }
      apply sorted_lookup_ext; auto.
      intros b. destruct (lookup b cs1) as [c|] eqn:L1.
      * symmetry. apply D1. exact L1.
      * destruct (lookup b cs2) as [c2|] eqn:L2; [|reflexivity].
        exfalso.
        pose proof (lookup_In _ _ _ L2) as Hin2.
        unfold children_ok in C2. rewrite Forall_forall in C2.
        destruct (C2 _ Hin2) as [_ Wc2]. cbn in Wc2.
        destruct (wf_nonempty _ _ Wc2) as (r & Hr).
        assert (A : In (b :: r) (elems (Node cs1))).
        { apply E. apply in_elems_lookup; [assumption|]. exists c2. auto. }
        apply in_elems_lookup in A; [|assumption]. destruct A as (c1 & Hl1 & _). congruence.
Qed.

(* ---------- node.find ---------- *)
Lemma find_correct : forall t n d, wf n t -> length d = n ->
  exists b, find t d = Some b /\ (b = true <-> In d (elems t)).
Proof.
  induction t as [h|cs IH] using trie_ind'; intros n d W L.
  - exists (key_eqb d h). split; [reflexivity|]. rewrite key_eqb_eq. cbn. intuition congruence.
  - destruct n; [exfalso; eapply wf_node_0; eauto|].
    destruct d as [|b d']; [discriminate|]. cbn in L. injection L as L.
    apply wf_node in W. destruct W as (_ & S1 & _ & C1).
    cbn [find]. destruct (lookup b cs) as [c|] eqn:Hl.
    + assert (Hh : has_child b cs = true).
      { destruct (has_child b cs) eqn:Hh; [reflexivity|]. apply has_child_lookup in Hh. congruence. }
      rewrite Hh. cbn [negb].
      destruct (split_at _ _ _ S1 Hl) as (pre & post & _ & Ha & _). rewrite Ha.
      pose proof (lookup_In _ _ _ Hl) as Hin.
      unfold children_ok in C1. rewrite Forall_forall in C1, IH.
      destruct (C1 _ Hin) as [_ Wc]. cbn in Wc.
      destruct (IH _ Hin n d' Wc L) as (r & Hf & Hr). exists r. split; [exact Hf|].
      rewrite Hr. rewrite in_elems_lookup by assumption. split.
      * intros H. exists c. auto.
      * intros (c' & Hl' & H). rewrite Hl in Hl'. inversion Hl'; subst. exact H.
    + apply has_child_lookup in Hl as Hh. rewrite Hh. cbn [negb]. exists false. split; [reflexivity|].
      split; [discriminate|]. rewrite in_elems_lookup by assumption. intros (c & Hc & _). congruence.
Qed.

(* ---------- node.add ---------- *)
Lemma bytes_ok_cons b k : bytes_ok (b :: k) <-> b < 256 /\ bytes_ok k.
Proof. unfold bytes_ok. split; [intros H; inversion H; auto | intros [A B]; constructor; auto]. Qed.

Lemma split_leaf_ok : forall h d n, length h = n -> length d = n -> h <> d ->
  bytes_ok h -> bytes_ok d ->
  exists t, split_leaf h d = Some t /\ wf n t /\ is_leaf t = false /\
            (forall k, In k (elems t) <-> k = d \/ k = h).
Proof.
  induction h as [|a h' IH]; intros [|b d'] n Lh Ld Hne Bh Bd; cbn in Lh, Ld; subst n;
    try discriminate; [congruence|].
  injection Ld as Ld. apply bytes_ok_cons in Bh. apply bytes_ok_cons in Bd.
  destruct Bh as [Ba Bh], Bd as [Bb Bd].
  cbn [split_leaf]. destruct (a =? b) eqn:Eab.
  - apply N.eqb_eq in Eab. subst b.
    destruct (IH d' (length h') eq_refl Ld) as (t & -> & Wt & Lt & Et); auto; [congruence|].
    eexists. split; [reflexivity|]. split; [|split; [reflexivity|]].
    + apply wf_node. split; [discriminate|]. split; [repeat constructor|].
      split; [destruct t; [discriminate | exact I]|]. constructor; [cbn; auto | constructor].
    + intros k. rewrite elems_node_cons, elems_node_nil, app_nil_r, in_map_cons.
      split.
      * intros (r & -> & Hr). apply Et in Hr. destruct Hr; subst; auto.
      * intros [->| ->]; eexists; (split; [reflexivity|]); apply Et; auto.
  - apply N.eqb_neq in Eab. destruct (a <? b) eqn:Elt.
    + apply N.ltb_lt in Elt. eexists. split; [reflexivity|]. split; [|split; [reflexivity|]].
      * apply wf_node. split; [discriminate|]. split.
        { cbn. constructor; [repeat constructor|]. constructor; [exact Elt | constructor]. }
        split; [exact I|].
        repeat constructor; cbn; auto.
      * intros k. cbn. intuition congruence.
    + apply N.ltb_ge in Elt. assert (b < a) by lia.
      eexists. split; [reflexivity|]. split; [|split; [reflexivity|]].
      * apply wf_node. split; [discriminate|]. split.
        { cbn. constructor; [repeat constructor|]. constructor; [assumption | constructor]. }
        split; [exact I|].
        repeat constructor; cbn; auto; congruence.
      * intros k. cbn. intuition congruence.
Qed.

Lemma in_insert_child p b x cs : In p (insert_child b x cs) <-> p = (b, x) \/ In p cs.
Proof.
  induction cs as [|[i c] l IH]; cbn.
  - intuition.
  - destruct (b <? i); cbn; rewrite ?IH; intuition.
Qed.

Lemma idx_insert_child_in j b x cs : In j (idx (insert_child b x cs)) <-> j = b \/ In j (idx cs).
Proof.
  unfold idx. rewrite !in_map_iff. split.
  - intros ([i c] & <- & Hin). apply in_insert_child in Hin. destruct Hin as [E|Hin].
    + inversion E. auto.
    + right. exists (i, c). auto.
  - intros [->|((i & c) & <- & Hin)].
    + exists (b, x). split; [reflexivity|]. apply in_insert_child. auto.
    + exists (i, c). split; [reflexivity|]. apply in_insert_child. auto.
Qed.

Lemma sorted_insert_child b x cs :
  StronglySorted N.lt (idx cs) -> ~ In b (idx cs) -> StronglySorted N.lt (idx (insert_child b x cs)).
Proof.
  induction cs as [|[i c] l IH]; cbn; intros Hs Hn.
  - repeat constructor.
  - apply sorted_inv in Hs. destruct Hs as [Hs Hlt].
    destruct (b <? i) eqn:E.
    + apply N.ltb_lt in E. cbn. constructor; [constructor; assumption|].
      constructor; [exact E|]. rewrite Forall_forall in *. intros y Hy. apply Hlt in Hy. lia.
    + apply N.ltb_ge in E. assert (i < b) by (assert (i <> b) by tauto; lia).
      cbn. constructor; [apply IH; tauto|].
      rewrite Forall_forall in *. intros y Hy. apply idx_insert_child_in in Hy.
      destruct Hy as [->|Hy]; auto.
Qed.

Lemma length_insert_child b x cs : length (insert_child b x cs) = S (length cs).
Proof.
  induction cs as [|[i c] l IH]; cbn; [reflexivity|]. destruct (b <? i); cbn; auto.
Qed.

Lemma not_single_leaf_len (cs : list (N * trie)) : (2 <= length cs)%nat -> not_single_leaf cs.
Proof. destruct cs as [|p [|q l]]; cbn; try lia. destruct p as [? []]; auto. Qed.

Lemma not_single_leaf_mid pre b c post :
  is_leaf c = false -> not_single_leaf (pre ++ (b, c) :: post).
Proof.
  intros Hc. destruct pre as [|p pre].
  - destruct post; [destruct c; [discriminate | exact I]|]. apply not_single_leaf_len. cbn. lia.
  - apply not_single_leaf_len. cbn. rewrite app_length. cbn. lia.
Qed.

Lemma idx_replace pre b (c c' : trie) post :
  idx (pre ++ (b, c') :: post) = idx (pre ++ (b, c) :: post).
Proof. rewrite !idx_app. reflexivity. Qed.

Lemma children_ok_app n l1 l2 : children_ok n (l1 ++ l2) <-> children_ok n l1 /\ children_ok n l2.
Proof. apply Forall_app. Qed.

Lemma children_ok_cons n i c l : children_ok n ((i, c) :: l) <-> (i < 256 /\ wf n c) /\ children_ok n l.
Proof. unfold children_ok. split; [intros H; inversion H; auto | intros [A B]; constructor; auto]. Qed.

Lemma add_not_leaf t d t' : add t d = Some t' -> is_leaf t' = false.
Proof.
  destruct t as [h|cs]; cbn [add].
  - revert d t'. induction h as [|a h IH]; intros [|b d] t'; cbn; try discriminate.
    destruct (a =? b); [destruct (split_leaf h d); [intros [= <-]; reflexivity | discriminate]|].
    destruct (a <? b); intros [= <-]; reflexivity.
  - destruct d as [|b d']; [discriminate|].
    destruct (negb (has_child b cs)); [intros [= <-]; reflexivity|].
    match goal with |- context [splice_index_of ?f b cs] => destruct (splice_index_of f b cs) end;
      [intros [= <-]; reflexivity | discriminate].
Qed.

Lemma add_ok : forall t n d, wf n t -> length d = n -> bytes_ok d -> ~ In d (elems t) ->
  exists t', add t d = Some t' /\ wf n t' /\ (forall k, In k (elems t') <-> k = d \/ In k (elems t)).
Proof.
  induction t as [h|cs IH] using trie_ind'; intros n d W L B Hn.
  - apply wf_leaf in W. destruct W as [Lh Bh].
    destruct (split_leaf_ok h d n Lh L) as (t & Hs & Wt & _ & Et); auto.
    { intros ->. apply Hn. left. reflexivity. }
    exists t. split; [exact Hs|]. split; [exact Wt|]. intros k. rewrite Et. cbn. intuition.
  - destruct n; [exfalso; eapply wf_node_0; eauto|].
    destruct d as [|b d']; [discriminate|]. cbn in L. injection L as L.
    apply bytes_ok_cons in B. destruct B as [Bb Bd].
    apply wf_node in W. destruct W as (Hne & S1 & Hns & C1).
    cbn [add]. destruct (lookup b cs) as [c|] eqn:Hl.
    + assert (Hh : has_child b cs = true).
      { destruct (has_child b cs) eqn:Hh; [reflexivity|]. apply has_child_lookup in Hh. congruence. }
      rewrite Hh. cbn [negb].
      destruct (split_at _ _ _ S1 Hl) as (pre & post & Ecs & _ & Hsp). rewrite Hsp.
      pose proof (lookup_In _ _ _ Hl) as Hin.
      unfold children_ok in C1. rewrite Forall_forall in IH.
      assert (Wc : wf n c).
      { rewrite Forall_forall in C1. destruct (C1 _ Hin) as [_ Wc]. exact Wc. }
      assert (Hnc : ~ In d' (elems c)).
      { intros H. apply Hn. apply in_elems_lookup; [assumption|]. exists c. auto. }
      destruct (IH _ Hin n d' Wc L Bd Hnc) as (c' & Hadd & Wc' & Ec').
      cbn [snd] in Hadd. rewrite Hadd. eexists. split; [reflexivity|].
      pose proof (add_not_leaf _ _ _ Hadd) as Lc'.
      subst cs. split.
      * apply wf_node. cbn [app]. split; [destruct pre; discriminate|].
        split; [rewrite (idx_replace pre b c c' post); exact S1|].
        split; [apply not_single_leaf_mid; exact Lc'|].
        fold (children_ok n (pre ++ (b, c) :: post)) in C1.
        apply children_ok_app in C1. destruct C1 as [C1 C2]. apply children_ok_cons in C2.
        apply children_ok_app. split; [exact C1|]. apply children_ok_cons. cbn in *. tauto.
      * intros k. cbn [app]. rewrite !elems_node_app, !elems_node_cons, !in_app_iff, !in_map_cons.
        split.
        -- intros [H|[(r & -> & Hr)|H]]; auto.
           apply Ec' in Hr. destruct Hr as [->|Hr]; [auto|]. right. right. left. eauto.
        -- intros [->|[H|[(r & -> & Hr)|H]]]; auto.
           ++ right. left. exists d'. split; [reflexivity|]. apply Ec'. auto.
           ++ right. left. exists r. split; [reflexivity|]. apply Ec'. auto.
    + apply has_child_lookup in Hl as Hh. rewrite Hh. cbn [negb].
      eexists. split; [reflexivity|]. split.
      * apply wf_node. split.
        { intros E. pose proof (length_insert_child b (Leaf d') cs) as Hlen. rewrite E in Hlen. discriminate. }
        split; [apply sorted_insert_child; [assumption | apply lookup_None; assumption]|].
        split.
        { apply not_single_leaf_len. rewrite length_insert_child. destruct cs; [congruence | cbn; lia]. }
        unfold children_ok in *. rewrite Forall_forall in *. intros p Hp.
        apply in_insert_child in Hp. destruct Hp as [->|Hp]; [|auto].
        cbn. split; [assumption|]. split; assumption.
      * intros k. rewrite !in_elems_node. split.
        -- intros (i & c & r & Hin & -> & Hr). apply in_insert_child in Hin. destruct Hin as [E|Hin].
           ++ inversion E; subst. cbn in Hr. destruct Hr as [->|[]]. auto.
           ++ right. eauto 6.
        -- intros [->|(i & c & r & Hin & -> & Hr)].
           ++ exists b, (Leaf d'), d'. split; [apply in_insert_child; auto|]. split; [reflexivity|]. left. reflexivity.
           ++ exists i, c, r. split; [apply in_insert_child; auto|]. auto.
Qed.

(* ---------- node.remove ---------- *)
Lemma elems_collapse cs : elems (collapse cs) = elems (Node cs).
Proof. destruct cs as [|[i [s|cs']] [|q l]]; reflexivity. Qed.

Lemma wf_collapse n cs :
  cs <> [] -> StronglySorted N.lt (idx cs) -> children_ok n cs -> wf (S n) (collapse cs).
Proof.
  intros Hne Hs Hc.
  destruct cs as [|[i [s|cs']] [|q l]]; try congruence.
  - cbn [collapse]. apply children_ok_cons in Hc. destruct Hc as [[Hi Ws] _].
    apply wf_leaf in Ws. destruct Ws as [Ls Bs]. apply wf_leaf. cbn. split; [congruence|].
    apply bytes_ok_cons. auto.
  - cbn [collapse]. apply wf_node. split; [discriminate|]. split; [assumption|]. split; [|assumption].
    apply not_single_leaf_len. cbn. lia.
  - cbn [collapse]. apply wf_node. split; [discriminate|]. split; [assumption|]. split; [exact I|assumption].
  - cbn [collapse]. apply wf_node. split; [discriminate|]. split; [assumption|]. split; [|assumption].
    apply not_single_leaf_len. cbn. lia.
Qed.

Lemma first_byte_not b k l : ~ In b (idx l) -> In k (elems (Node l)) -> forall r, k <> b :: r.
Proof.
  intros Hn Hk r ->. apply in_elems_first in Hk. destruct Hk as (i & r' & E & Hi). inversion E; subst. tauto.
Qed.

Lemma remove_ok : forall t n d, wf n t -> is_leaf t = false -> In d (elems t) ->
  exists t', remove t d = Some t' /\ wf n t' /\
             (forall k, In k (elems t') <-> In k (elems t) /\ k <> d).
Proof.
  induction t as [h|cs IH] using trie_ind'; intros n d W Lf Hd; [discriminate|].
  destruct n; [exfalso; eapply wf_node_0; eauto|].
  apply wf_node in W. destruct W as (Hne & S1 & Hns & C1).
  pose proof Hd as Hd'. apply in_elems_node in Hd'. destruct Hd' as (b & c & r & Hin & -> & Hr).
  pose proof (In_lookup _ _ _ S1 Hin) as Hl.
  destruct (split_at _ _ _ S1 Hl) as (pre & post & Ecs & _ & Hsp).
  cbn [remove]. rewrite Hsp. subst cs.
  destruct (split_not_in _ _ _ _ S1) as [Npre Npost].
  pose proof C1 as C1'. apply children_ok_app in C1'. destruct C1' as [Cpre C2].
  apply children_ok_cons in C2. destruct C2 as [[Bb Wc] Cpost]. cbn [fst snd] in Bb, Wc.
  destruct c as [s|cs0].
  - (* the child is a leaf: it is dropped *)
    cbn in Hr. destruct Hr as [->|[]].
    eexists. split; [reflexivity|]. cbn [app]. split.
    + apply wf_collapse.
      * intros E. apply app_eq_nil in E. destruct E; subst. cbn in Hns. exact Hns.
      * rewrite idx_app. rewrite idx_app in S1. cbn [idx map fst] in S1. eapply sorted_app_drop; eauto.
      * apply children_ok_app. auto.
    + intros k. rewrite elems_collapse, !elems_node_app, elems_node_cons, !in_app_iff, in_map_cons.
      split.
      * intros [H|H]; (split; [tauto|]); [apply (first_byte_not b k pre) | apply (first_byte_not b k post)]; assumption.
      * intros [[H|[(r' & -> & Hr')|H]] Hk]; auto. cbn in Hr'. destruct Hr' as [->|[]]. congruence.
  - (* the child is a non-leaf node: recursive removal *)
    rewrite Forall_forall in IH.
    destruct (IH _ Hin n r Wc eq_refl Hr) as (c' & Hrm & Wc' & Ec'). cbn [snd] in Hrm.
    rewrite Hrm. eexists. split; [reflexivity|]. cbn [app]. split.
    + apply wf_collapse.
      * destruct pre; discriminate.
      * rewrite (idx_replace pre b (Node cs0) c' post). exact S1.
      * apply children_ok_app. split; [assumption|]. apply children_ok_cons. cbn. auto.
    + intros k. rewrite elems_collapse, !elems_node_app, !elems_node_cons, !in_app_iff, !in_map_cons.
      split.
      * intros [H|[(r' & -> & Hr')|H]].
        -- split; [tauto|]. apply (first_byte_not b k pre); assumption.
        -- apply Ec' in Hr'. destruct Hr' as [Hr' Hne']. split; [right; left; eauto | congruence].
        -- split; [tauto|]. apply (first_byte_not b k post); assumption.
      * intros [[H|[(r' & -> & Hr')|H]] Hk]; auto.
        right. left. exists r'. split; [reflexivity|]. apply Ec'. split; [assumption | congruence].
Qed.
