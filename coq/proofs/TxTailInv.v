(* C11: the invariant tying the in-memory txTail, the txtail table and the block list together,
   preserved by every operation of a history; exactness of checkDup follows from it. *)
From Coq Require Import NArith List Bool Lia ZifyN ZifyNat ZifyBool.
From Verif.model Require Import TxTail TxTailSpec.
From Verif.proofs Require Import TxTailBasics.
Import ListNotations.
Open Scope N_scope.

Definition blocks_t := list (N * list tx).
Definition getb (B : blocks_t) (r : N) : list tx := match lookup r B with Some txs => txs | None => [] end.
Definition committed (B : blocks_t) (r : N) (x : tx) : Prop := exists txs, lookup r B = Some txs /\ In x txs.

Section Inv.
Variable p : proto.
Notation L := (p_life p).
Notation R := (p_life p + p_deeper p).

Definition mk (B : blocks_t) (r : N) : tailround := mkTr r p (getb B r).

Record BInv (B : blocks_t) (n : N) : Prop := {
  b_dom : forall r, lookup r B <> None <-> 1 <= r <= n;
  b_ok : forall r txs, lookup r B = Some txs -> blk_ok p r txs = true
}.

Record TInv (t : tail) (B : blocks_t) (n d : N) : Prop := {
  i_r1 : forall r rl, lookup r (recent t) = Some rl ->
         exists txs, lookup r B = Some txs /\ rl_proto rl = p /\ (p_sup p = true -> rl_leases rl = leases_of txs);
  i_r2 : forall r txs, lookup r B = Some txs -> lwm t < r + L -> lookup r (recent t) <> None;
  i_v1 : forall lv id, In (lv, id) (lastValid t) -> exists r x, committed B r x /\ t_lv x = lv /\ t_id x = id;
  i_v2 : forall r x, committed B r x -> lwm t < t_lv x -> In (t_lv x, t_id x) (lastValid t);
  i_p : pending t = map (mk B) (nrange (d + 1) n);
  i_h : forall r, d < r <= n -> lookup r (hdrs t) = Some p
}.

Definition DInv (rows : table) (B : blocks_t) (d : N) : Prop :=
  rows = map (fun r => (r, mk B r)) (nrange (N.max 1 (d + 1 - R)) d).

Record Inv (s : sys) : Prop := {
  inv_b : BInv (s_blocks s) (s_latest s);
  inv_t : TInv (s_tail s) (s_blocks s) (s_latest s) (s_dbRound s);
  inv_w : lwm (s_tail s) <= s_latest s;
  inv_d : DInv (s_rows s) (s_blocks s) (s_dbRound s);
  inv_dn : s_dbRound s <= s_latest s
}.

(* ---------- what blk_ok gives ---------- *)
Lemma blk_ok_tx : forall r txs x, blk_ok p r txs = true -> In x txs ->
  t_fv x <= r /\ r <= t_lv x /\ t_lv x <= t_fv x + L.
Proof.
  intros r txs x H HI. unfold blk_ok in H. apply andb_true_iff in H. destruct H as [H _].
  rewrite forallb_forall in H. specialize (H x HI). lia.
Qed.

Lemma blk_ok_nodup : forall r txs, blk_ok p r txs = true -> p_sup p = true ->
  NoDup (map t_key (leased txs)).
Proof.
  intros r txs H Hs. unfold blk_ok in H. apply andb_true_iff in H. destruct H as [_ H].
  rewrite Hs in H. cbn [negb orb] in H. apply nodup_keys_NoDup. exact H.
Qed.

Lemma getb_ext : forall B B' r, lookup r B' = lookup r B -> getb B' r = getb B r.
Proof. intros. unfold getb. rewrite H. reflexivity. Qed.

Lemma mk_ext : forall B B' r, lookup r B' = lookup r B -> mk B' r = mk B r.
Proof. intros. unfold mk. rewrite (getb_ext _ _ _ H). reflexivity. Qed.

Lemma DInv_ext : forall rows B B' d,
  DInv rows B d -> (forall r, r <= d -> lookup r B' = lookup r B) -> DInv rows B' d.
Proof.
  intros rows B B' d H Hx. unfold DInv in *. rewrite H. apply map_ext_in.
  intros r Hr. apply in_nrange in Hr. rewrite (mk_ext B B' r); [reflexivity|]. apply Hx. lia.
Qed.

(* ---------- newBlock ---------- *)
Lemma binv_newBlock : forall B B' n txs,
  BInv B n -> blk_ok p (n + 1) txs = true ->
  (forall r, lookup r B' = if r =? n + 1 then Some txs else lookup r B) ->
  BInv B' (n + 1).
Proof.
  intros B B' n txs [Hd Ho] Hok HB. split.
  - intros r. rewrite HB. destruct (N.eqb_spec r (n + 1)) as [->|Hn].
    + split; [lia|discriminate].
    + rewrite Hd. lia.
  - intros r txs0. rewrite HB. destruct (N.eqb_spec r (n + 1)) as [->|Hn].
    + intros E. inversion E. subst. exact Hok.
    + apply Ho.
Qed.

Lemma newBlock_fresh : forall t B n d, TInv t B n d -> BInv B n -> lookup (n + 1) (recent t) = None.
Proof.
  intros t B n d HT HB. destruct (lookup (n + 1) (recent t)) as [rl|] eqn:E; [|reflexivity].
  destruct (i_r1 _ _ _ _ HT _ _ E) as [txs [H1 _]].
  assert (lookup (n + 1) B <> None) by congruence.
  apply (b_dom _ _ HB) in H. lia.
Qed.

Lemma tinv_newBlock : forall t B B' n d txs,
  TInv t B n d -> BInv B n -> d <= n ->
  (forall r, lookup r B' = if r =? n + 1 then Some txs else lookup r B) ->
  TInv (newBlock t (n + 1) p txs) B' (n + 1) d.
Proof.
  intros t B B' n d txs HT HB Hdn HB'.
  pose proof (newBlock_fresh _ _ _ _ HT HB) as Hf.
  unfold newBlock. rewrite Hf.
  assert (Hcom : forall r x, committed B' r x <-> (r = n + 1 /\ In x txs) \/ (r <> n + 1 /\ committed B r x)).
  { intros r x. unfold committed. rewrite HB'. destruct (N.eqb_spec r (n + 1)) as [->|Hn].
    - split.
      + intros [txs0 [E HI]]. inversion E. subst. left. auto.
      + intros [[_ HI]|[Hn _]]; [exists txs; auto|contradiction].
    - split; [intros H; right; auto|intros [[E _]|[_ H]]; [contradiction|exact H]]. }
  split; cbn [recent lastValid lwm pending hdrs lowestHdr].
  - intros r rl. rewrite lookup_cons, HB'. destruct (N.eqb_spec r (n + 1)) as [->|Hn].
    + intros E. inversion E. subst. exists txs. cbn. auto.
    + apply (i_r1 _ _ _ _ HT).
  - intros r txs0. rewrite lookup_cons, HB'. destruct (N.eqb_spec r (n + 1)) as [->|Hn].
    + intros _ _. discriminate.
    + apply (i_r2 _ _ _ _ HT).
  - intros lv id HI. apply fold_lastValid_In in HI. destruct HI as [HI|[x [HI [E1 E2]]]].
    + destruct (i_v1 _ _ _ _ HT _ _ HI) as [r [x [Hc HE]]]. exists r, x. split; [|exact HE].
      apply Hcom. right. split; [|exact Hc]. destruct Hc as [txs0 [Hl _]].
      assert (lookup r B <> None) by congruence. apply (b_dom _ _ HB) in H. lia.
    + exists (n + 1), x. split; [|auto]. apply Hcom. left. auto.
  - intros r x Hc Hl. apply fold_lastValid_In. apply Hcom in Hc. destruct Hc as [[-> HI]|[Hn Hc]].
    + right. exists x. auto.
    + left. apply (i_v2 _ _ _ _ HT r x Hc Hl).
  - rewrite (i_p _ _ _ _ HT). rewrite nrange_snoc by lia. rewrite map_app. cbn [map]. f_equal.
    + apply map_ext_in. intros r Hr. apply in_nrange in Hr. symmetry. apply mk_ext.
      rewrite HB'. destruct (N.eqb_spec r (n + 1)); [lia|reflexivity].
    + unfold mk, getb. rewrite HB'. rewrite N.eqb_refl. reflexivity.
  - intros r Hr. rewrite lookup_cons. destruct (N.eqb_spec r (n + 1)) as [->|Hn]; [reflexivity|].
    apply (i_h _ _ _ _ HT). lia.
Qed.

Lemma inv_add_block : forall s txs,
  Inv s -> blk_ok p (s_latest s + 1) txs = true -> Inv (add_block p s txs).
Proof.
  intros s txs [HB HT HW HD Hdn] Hok. unfold add_block.
  assert (HB' : forall r, lookup r ((s_latest s + 1, txs) :: s_blocks s) =
                          if r =? s_latest s + 1 then Some txs else lookup r (s_blocks s)).
  { intros. apply lookup_cons. }
  split; cbn [s_tail s_blocks s_latest s_rows s_dbRound].
  - eapply binv_newBlock; eauto.
  - eapply tinv_newBlock; eauto.
  - pose proof (newBlock_fresh _ _ _ _ HT HB) as Hf. unfold newBlock. rewrite Hf. cbn [lwm]. lia.
  - eapply DInv_ext; [exact HD|]. intros r Hr. rewrite HB'.
    destruct (N.eqb_spec r (s_latest s + 1)); [lia|reflexivity].
  - lia.
Qed.

(* ---------- committedUpTo ---------- *)
Lemma tinv_committedUpTo : forall t B n d r,
  TInv t B n d -> BInv B n -> lwm t <= r -> r <= n -> 1 <= r ->
  TInv (committedUpTo t r) B n d.
Proof.
  intros t B n d r HT HB Hlr Hrn H1r.
  assert (Hml : match lookup r (recent t) with Some rl => p_life (rl_proto rl) | None => 0 end = L).
  { destruct (lookup r (recent t)) as [rl|] eqn:E.
    - destruct (i_r1 _ _ _ _ HT _ _ E) as [txs [_ [Hp _]]]. rewrite Hp. reflexivity.
    - destruct (lookup r B) as [txs|] eqn:EB.
      + destruct (N.lt_ge_cases (lwm t) (r + L)) as [Hlt|Hge].
        * exfalso. apply (i_r2 _ _ _ _ HT _ _ EB Hlt). exact E.
        * lia.
      + exfalso. assert (Hx : lookup r B <> None) by (apply (b_dom _ _ HB); lia). contradiction. }
  unfold committedUpTo. rewrite Hml.
  split; cbn [recent lastValid lwm pending hdrs lowestHdr].
  - intros r0 rl. rewrite (lookup_filter_key _ (fun k => negb (k + L <? r))).
    destruct (negb (r0 + L <? r)); [apply (i_r1 _ _ _ _ HT)|discriminate].
  - intros r0 txs Hl Hlt. rewrite (lookup_filter_key _ (fun k => negb (k + L <? r))).
    replace (r0 + L <? r) with false by lia. cbn [negb]. apply (i_r2 _ _ _ _ HT _ _ Hl). lia.
  - intros lv id HI. apply filter_In in HI. destruct HI as [HI _]. apply (i_v1 _ _ _ _ HT _ _ HI).
  - intros r0 x Hc Hlt. apply filter_In. split.
    + apply (i_v2 _ _ _ _ HT _ _ Hc). lia.
    + cbn [fst]. lia.
  - apply (i_p _ _ _ _ HT).
  - apply (i_h _ _ _ _ HT).
Qed.

(* ---------- commit ---------- *)
Lemma tbl_insert_append : forall rows r d,
  (forall e, In e rows -> fst e < r) -> tbl_insert r d rows = Some (rows ++ [(r, d)]).
Proof.
  induction rows as [|[r' d'] rows IH]; intros r d H; [reflexivity|].
  cbn [tbl_insert]. assert (r' < r) by (apply (H (r', d')); left; reflexivity).
  replace (r <? r') with false by lia. replace (r =? r') with false by lia.
  rewrite IH by (intros e He; apply H; right; exact He). reflexivity.
Qed.

Lemma tbl_insert_all_append : forall (g : N -> tailround) cnt base rows,
  (forall e, In e rows -> fst e < base) ->
  tbl_insert_all base (map g (nseq base cnt)) rows = Some (rows ++ map (fun r => (r, g r)) (nseq base cnt)).
Proof.
  induction cnt as [|cnt IH]; intros base rows H.
  - cbn. rewrite app_nil_r. reflexivity.
  - cbn [nseq map tbl_insert_all]. rewrite tbl_insert_append by exact H.
    rewrite IH.
    + rewrite <- app_assoc. reflexivity.
    + intros e He. apply in_app_or in He. destruct He as [He|[<-|[]]].
      * specialize (H e He). lia.
      * cbn [fst]. lia.
Qed.

Lemma inv_commit : forall s off,
  Inv s -> 1 <= off -> s_dbRound s + off <= s_latest s ->
  exists s', step p s (OCommit off) = (s', OK) /\ Inv s'.
Proof.
  intros s off [HB HT HW HD Hdn] H1 H2.
  set (d := s_dbRound s) in *. set (n := s_latest s) in *. set (B := s_blocks s) in *.
  unfold step, step_gen. fold d.
  unfold prepareCommit. rewrite (i_p _ _ _ _ HT). fold d n B.
  rewrite map_length, nrange_length.
  replace (N.of_nat (N.to_nat (n + 1 - (d + 1))) <? off) with false by lia.
  rewrite (i_h _ _ _ _ HT (d + off)) by (fold d n; lia).
  rewrite firstn_map_nrange by lia.
  replace (d + 1 + off - 1) with (d + off) by lia.
  unfold txtailNewRound.
  assert (Hrows : s_rows s = map (fun r => (r, mk B r)) (nrange (N.max 1 (d + 1 - R)) d)) by exact HD.
  unfold nrange at 1. rewrite Hrows.
  rewrite (tbl_insert_all_append (mk B)).
  2:{ intros e He. apply in_map_iff in He. destruct He as [r [<- Hr]]. apply in_nrange in Hr. cbn [fst]. lia. }
  fold (nrange (d + 1) (d + off)). rewrite <- map_app.
  rewrite <- (nrange_split (N.max 1 (d + 1 - R)) d (d + off)) by lia.
  rewrite filter_map_nrange by lia.
  eexists. split; [reflexivity|].
  split; cbn [s_tail s_blocks s_latest s_rows s_dbRound]; fold d n B.
  - exact HB.
  - split; cbn [postCommit recent lastValid lwm pending hdrs lowestHdr].
    + apply (i_r1 _ _ _ _ HT).
    + apply (i_r2 _ _ _ _ HT).
    + apply (i_v1 _ _ _ _ HT).
    + apply (i_v2 _ _ _ _ HT).
    + rewrite (i_p _ _ _ _ HT). fold d n B. rewrite skipn_map_nrange by lia.
      f_equal. f_equal. lia.
    + intros r Hr. rewrite (lookup_filter_key _ (fun k => negb ((lowestHdr (s_tail s) <=? k) && (k <? d + off + 1 - R)))).
      replace (r <? d + off + 1 - R) with false by lia. rewrite andb_false_r. cbn [negb].
      apply (i_h _ _ _ _ HT). fold d n. lia.
  - exact HW.
  - unfold DInv. f_equal. f_equal. lia.
  - lia.
Qed.

(* ---------- restart: LoadTxTail, loadFromDisk, replay ---------- *)
Lemma nseq_S_snoc : forall m a, nseq a (S m) = nseq a m ++ [a + N.of_nat m].
Proof. intros. replace (S m) with (m + 1)%nat by lia. rewrite nseq_app. reflexivity. Qed.

Lemma load_desc_range : forall (g : N -> tailround) m a acc base,
  load_desc (rev (map (fun r => (r, g r)) (nseq a m))) (a + N.of_nat m - 1) acc base =
  Some (map g (nseq a m) ++ acc, match m with O => base | S _ => a end).
Proof.
  induction m as [|m IH]; intros a acc base; [reflexivity|].
  rewrite nseq_S_snoc. rewrite !map_app, rev_app_distr. cbn [map rev app load_desc].
  replace (a + N.of_nat m =? a + N.of_nat (S m) - 1) with true by lia.
  replace (a + N.of_nat (S m) - 1 - 1) with (a + N.of_nat m - 1) by lia.
  rewrite IH. rewrite <- app_assoc. cbn [app]. f_equal. f_equal.
  destruct m; [lia|reflexivity].
Qed.

Lemma combine_map_self : forall A C (g : A -> C) l, combine l (map g l) = map (fun x => (x, g x)) l.
Proof. induction l as [|x l IH]; [reflexivity|]. cbn [map combine]. rewrite IH. reflexivity. Qed.

Definition vis_of (B : blocks_t) (d : N) : list (N * tailround) :=
  map (fun r => (r, mk B r)) (nrange (N.max 1 (d + 1 - R)) d).

Lemma loadFromDisk_shape : forall rows B d keep,
  DInv rows B d ->
  exists base,
    loadFromDisk rows d keep =
    match load_lastValid keep (vis_of B d) [] with
    | None => None
    | Some lvs =>
        Some (mkTail (map (fun e => (fst e, mkRl (load_leases (snd e)) (tr_proto (snd e)))) (vis_of B d))
                     lvs keep []
                     (map (fun e => (fst e, tr_proto (snd e))) (vis_of B d)) base)
    end.
Proof.
  intros rows B d keep HD. unfold loadFromDisk, loadFromDisk_gen, visited_fixed.
  set (a := N.max 1 (d + 1 - R)).
  assert (Hv : vis_of B d = map (fun r => (r, mk B r)) (nrange a d)) by reflexivity.
  destruct (N.eqb_spec d 0) as [Hd0|Hd0].
  - subst d. cbn [N.ltb N.compare]. exists 0.
    replace (vis_of B 0) with (@nil (N * tailround)).
    2:{ rewrite Hv. rewrite nrange_empty by lia. reflexivity. }
    destruct (nrange 0 0); reflexivity.
  - replace (0 <? d) with true by lia.
    unfold loadTxTail. rewrite HD. fold a.
    destruct (N.le_gt_cases a d) as [Hle|Hgt].
    + remember (N.to_nat (d + 1 - a)) as cnt eqn:Ecnt.
      assert (Hr : nrange a d = nseq a cnt) by (subst cnt; reflexivity).
      pose proof (load_desc_range (mk B) cnt a [] (d + 1)) as Hld.
      replace (a + N.of_nat cnt - 1) with d in Hld by lia.
      rewrite Hr, Hld. rewrite app_nil_r.
      destruct cnt as [|c]; [lia|]. rewrite <- Hr.
      rewrite combine_map_self. rewrite <- Hv. exists a. reflexivity.
    + rewrite (nrange_empty a d) by lia. cbn [map rev load_desc].
      replace (vis_of B d) with (@nil (N * tailround)).
      2:{ rewrite Hv. rewrite nrange_empty by lia. reflexivity. }
      exists (d + 1). rewrite combine_nil. reflexivity.
Qed.

Lemma load_lastValid_spec : forall low vis acc,
  (forall e x, In e vis -> In x (tr_txs (snd e)) -> low < t_lv x -> tr_rnd (snd e) <= t_lv x) ->
  exists lvs, load_lastValid low vis acc = Some lvs /\
    forall a b, In (a, b) lvs <->
      In (a, b) acc \/ exists e x, In e vis /\ In x (tr_txs (snd e)) /\ low < t_lv x /\ t_lv x = a /\ t_id x = b.
Proof.
  induction vis as [|[r dd] vis IH]; intros acc H.
  - exists acc. split; [reflexivity|]. intros a b. split; [auto|intros [HI|[e [x [[] _]]]]; exact HI].
  - cbn [load_lastValid].
    destruct (existsb (fun x => t_lv x <? tr_rnd dd) (filter (fun x => low <? t_lv x) (tr_txs dd))) eqn:Eex.
    + exfalso. apply existsb_exists in Eex. destruct Eex as [x [Hx Hlt]]. apply filter_In in Hx.
      destruct Hx as [Hx Hlow]. specialize (H (r, dd) x (or_introl eq_refl) Hx). cbn [snd] in H. lia.
    + destruct (IH (fold_left (fun m x => (t_lv x, t_id x) :: m) (filter (fun x => low <? t_lv x) (tr_txs dd)) acc))
        as [lvs [E Hc]].
      { intros e x He. apply H. right. exact He. }
      exists lvs. split; [exact E|]. intros a b. rewrite Hc. rewrite fold_lastValid_In. split.
      * intros [[HI|[x [Hx [E1 E2]]]]|[e [x [He Hr]]]].
        -- auto.
        -- apply filter_In in Hx. destruct Hx as [Hx Hlow]. right. exists (r, dd), x. cbn [snd].
           split; [left; reflexivity|]. repeat split; try assumption. lia.
        -- right. exists e, x. split; [right; exact He|exact Hr].
      * intros [HI|[e [x [[<-|He] [Hx [Hlow [E1 E2]]]]]]].
        -- auto.
        -- left. right. exists x. cbn [snd] in Hx. split; [|auto]. apply filter_In. split; [exact Hx|lia].
        -- right. exists e, x. auto.
Qed.

Definition trunc (B : blocks_t) (m : N) : blocks_t := filter (fun b => fst b <=? m) B.

Lemma lookup_trunc : forall B m r, lookup r (trunc B m) = if r <=? m then lookup r B else None.
Proof. intros. unfold trunc. apply (lookup_filter_key _ (fun k => k <=? m)). Qed.

Lemma binv_trunc : forall B n m, BInv B n -> m <= n -> BInv (trunc B m) m.
Proof.
  intros B n m [Hd Ho] Hm. split.
  - intros r. rewrite lookup_trunc. destruct (r <=? m) eqn:E.
    + rewrite Hd. lia.
    + split; [congruence|lia].
  - intros r txs. rewrite lookup_trunc. destruct (r <=? m); [apply Ho|discriminate].
Qed.

Lemma getb_in_lookup : forall B r x, In x (getb B r) -> exists txs, lookup r B = Some txs /\ In x txs.
Proof.
  intros B r x H. unfold getb in H. destruct (lookup r B) as [txs|]; [exists txs; auto|destruct H].
Qed.

Lemma tinv_loaded : forall rows B n d keep,
  BInv B n -> DInv rows B d -> d <= keep -> keep <= n ->
  exists t0, loadFromDisk rows d keep = Some t0 /\ lwm t0 = keep /\ TInv t0 (trunc B d) d d.
Proof.
  intros rows B n d keep HB HD Hdk Hkn.
  destruct (loadFromDisk_shape rows B d keep HD) as [base Hshape].
  set (a := N.max 1 (d + 1 - R)) in *.
  assert (Hvis : forall e, In e (vis_of B d) <-> exists r, a <= r <= d /\ e = (r, mk B r)).
  { intros e. unfold vis_of. rewrite in_map_iff. fold a. split.
    - intros [r [<- Hr]]. apply in_nrange in Hr. exists r. auto.
    - intros [r [Hr ->]]. exists r. split; [reflexivity|apply in_nrange; exact Hr]. }
  destruct (load_lastValid_spec keep (vis_of B d) []) as [lvs [El Hl]].
  { intros e x He Hx Hlow. apply Hvis in He. destruct He as [r [Hr ->]]. cbn [snd mk tr_rnd]. lia. }
  rewrite El in Hshape. eexists. split; [exact Hshape|]. split; [reflexivity|].
  assert (Hlk : forall r, a <= r <= d -> exists txs, lookup r B = Some txs /\ getb B r = txs).
  { intros r Hr. destruct (lookup r B) as [txs|] eqn:E.
    - exists txs. split; [reflexivity|]. unfold getb. rewrite E. reflexivity.
    - exfalso. assert (Hx : lookup r B <> None) by (apply (b_dom _ _ HB); lia). contradiction. }
  split; cbn [recent lastValid lwm pending hdrs lowestHdr].
  - intros r rl. unfold vis_of. fold a. rewrite map_map. cbn [fst snd].
    rewrite (lookup_map_nrange _ (fun r => mkRl (load_leases (mk B r)) (tr_proto (mk B r)))).
    destruct ((a <=? r) && (r <=? d)) eqn:E; [|discriminate].
    intros Erl. inversion Erl. subst rl. destruct (Hlk r) as [txs [E1 E2]]; [lia|].
    exists txs. rewrite lookup_trunc. replace (r <=? d) with true by lia.
    split; [exact E1|]. cbn [rl_proto rl_leases mk tr_proto]. split; [reflexivity|].
    intros Hs. unfold load_leases, mk. cbn [tr_proto tr_txs]. rewrite Hs, E2. reflexivity.
  - intros r txs. rewrite lookup_trunc. destruct (r <=? d) eqn:E; [|discriminate].
    intros Hlr Hlt. unfold vis_of. fold a. rewrite map_map. cbn [fst snd].
    rewrite (lookup_map_nrange _ (fun r => mkRl (load_leases (mk B r)) (tr_proto (mk B r)))).
    assert (1 <= r) by (apply (b_dom _ _ HB); congruence).
    replace ((a <=? r) && (r <=? d)) with true by lia. discriminate.
  - intros lv id HI. apply Hl in HI. destruct HI as [[]|[e [x [He [Hx [Hlow [E1 E2]]]]]]].
    apply Hvis in He. destruct He as [r [Hr ->]]. cbn [snd mk tr_txs] in Hx.
    apply getb_in_lookup in Hx. destruct Hx as [txs [E HI]].
    exists r, x. split; [|auto]. exists txs. rewrite lookup_trunc. replace (r <=? d) with true by lia. auto.
  - intros r x [txs [Hlr HI]] Hlow. rewrite lookup_trunc in Hlr. destruct (r <=? d) eqn:E; [|discriminate].
    apply Hl. right. exists (r, mk B r), x.
    pose proof (blk_ok_tx _ _ _ (b_ok _ _ HB _ _ Hlr) HI) as Hw.
    assert (1 <= r) by (apply (b_dom _ _ HB); congruence).
    split; [apply Hvis; exists r; split; [lia|reflexivity]|].
    cbn [snd mk tr_txs]. unfold getb. rewrite Hlr. auto.
  - rewrite nrange_empty by lia. reflexivity.
  - intros r Hr. lia.
Qed.

Lemma newBlock_lwm : forall t r q txs, lwm (newBlock t r q txs) = lwm t.
Proof. intros. unfold newBlock. destruct (lookup r (recent t)); reflexivity. Qed.

Lemma replay_tinv : forall B n keep d cnt m t,
  BInv B n -> keep <= n -> d <= m -> m + N.of_nat cnt = keep ->
  TInv t (trunc B m) m d ->
  exists t', replay p (trunc B keep) (nseq (m + 1) cnt) t = Some t' /\
             TInv t' (trunc B keep) keep d /\ lwm t' = lwm t.
Proof.
  intros B n keep d. induction cnt as [|cnt IH]; intros m t HB Hkn Hdm Hm HT.
  - cbn [nseq replay]. exists t. replace keep with m by lia. auto.
  - cbn [nseq replay]. rewrite lookup_trunc. replace (m + 1 <=? keep) with true by lia.
    destruct (lookup (m + 1) B) as [txs|] eqn:E.
    2:{ exfalso. assert (Hx : lookup (m + 1) B <> None) by (apply (b_dom _ _ HB); lia). contradiction. }
    assert (HB' : forall r, lookup r (trunc B (m + 1)) = if r =? m + 1 then Some txs else lookup r (trunc B m)).
    { intros r. rewrite !lookup_trunc. destruct (N.eqb_spec r (m + 1)) as [->|Hn].
      - replace (m + 1 <=? m + 1) with true by lia. exact E.
      - destruct (r <=? m + 1) eqn:E1, (r <=? m) eqn:E2; try reflexivity; lia. }
    assert (HBm : BInv (trunc B m) m) by (apply (binv_trunc B n); [exact HB|lia]).
    pose proof (tinv_newBlock _ _ _ _ _ txs HT HBm Hdm HB') as HT'.
    replace (N.succ (m + 1)) with (m + 1 + 1) by lia.
    destruct (IH (m + 1) (newBlock t (m + 1) p txs) HB Hkn) as [t' [Er [HT2 Hlw]]]; [lia|lia|exact HT'|].
    exists t'. split; [exact Er|]. split; [exact HT2|]. rewrite Hlw. apply newBlock_lwm.
Qed.

Lemma inv_restart : forall s keep,
  Inv s -> s_dbRound s <= keep -> keep <= s_latest s ->
  exists s', step p s (ORestart keep) = (s', OK) /\ Inv s' /\
             s_blocks s' = trunc (s_blocks s) keep /\ s_latest s' = keep.
Proof.
  intros s keep [HB HT HW HD Hdn] H1 H2.
  destruct (tinv_loaded _ _ _ _ keep HB HD H1 H2) as [t0 [El [Hlw HT0]]].
  destruct (replay_tinv (s_blocks s) (s_latest s) keep (s_dbRound s) (N.to_nat (keep + 1 - (s_dbRound s + 1)))
              (s_dbRound s) t0 HB H2) as [t1 [Er [HT1 Hlw1]]]; [lia|lia|exact HT0|].
  unfold step, step_gen. rewrite El. fold (trunc (s_blocks s) keep). unfold nrange. rewrite Er.
  eexists. split; [reflexivity|]. split; [|auto].
  split; cbn [s_tail s_blocks s_latest s_rows s_dbRound].
  - apply (binv_trunc _ _ _ HB H2).
  - exact HT1.
  - rewrite Hlw1, Hlw. lia.
  - eapply DInv_ext; [exact HD|]. intros r Hr. rewrite lookup_trunc. replace (r <=? keep) with true by lia. reflexivity.
  - exact H1.
Qed.

(* ---------- checkDup is exactly the declarative answer ---------- *)
Lemma committed_some_iff : forall B n f, BInv B n ->
  (committed_some B n f = true <-> exists r x, committed B r x /\ f r x = true).
Proof.
  intros B n f HB. unfold committed_some. rewrite existsb_exists. split.
  - intros [r [Hr H]]. unfold in_block in H. destruct (lookup r B) as [txs|] eqn:E; [|discriminate].
    apply existsb_exists in H. destruct H as [x [HI Hf]]. exists r, x. split; [exists txs; auto|exact Hf].
  - intros [r [x [[txs [E HI]] Hf]]]. exists r. split.
    + apply in_nrange. apply (b_dom _ _ HB). congruence.
    + unfold in_block. rewrite E. apply existsb_exists. exists x. auto.
Qed.

Lemma checkDup_exact_inv : forall s cur fv lv id k,
  Inv s -> cur = s_latest s + 1 -> cur <= lv ->
  checkDup (s_tail s) p cur fv lv id k = spec_dup (s_blocks s) (s_latest s) p cur fv lv id k.
Proof.
  intros s cur fv lv id k [HB HT HW HD Hdn] Hcur Hlv.
  set (t := s_tail s) in *. set (B := s_blocks s) in *. set (n := s_latest s) in *.
  unfold checkDup, spec_dup. replace (lv <? lwm t) with false by lia.
  assert (Hlease : p_sup p = true -> snd k <> 0 ->
    ex_range (lease_hit t k cur) (if p_fix p then cur - L else fv)
             (N.to_nat ((if p_fix p then cur else lv) + 1 - (if p_fix p then cur - L else fv))) =
    committed_some B n (holds_lease p k cur fv)).
  { intros Hs Hk. apply eq_true_iff_eq. rewrite ex_range_true, (committed_some_iff _ _ _ HB). split.
    - intros [r [Hr Hhit]]. unfold lease_hit in Hhit.
      destruct (lookup r (recent t)) as [rl|] eqn:Er; [|discriminate].
      destruct (klookup k (rl_leases rl)) as [e|] eqn:Ek; [|discriminate].
      destruct (i_r1 _ _ _ _ HT _ _ Er) as [txs [Eb [_ Hle]]]. rewrite (Hle Hs) in Ek.
      apply klookup_leases_sound in Ek. destruct Ek as [x [HI [_ [Hkey Hlvx]]]].
      exists r, x. split; [exists txs; auto|]. unfold holds_lease.
      rewrite Hkey, lkey_eqb_refl. cbn [andb]. subst e. rewrite Hhit. cbn [andb].
      destruct (p_fix p); [reflexivity|]. cbn [orb]. lia.
    - intros [r [x [[txs [Eb HI]] Hh]]]. unfold holds_lease in Hh.
      apply andb_true_iff in Hh. destruct Hh as [Hh Hfx]. apply andb_true_iff in Hh. destruct Hh as [Hkey Hcl].
      apply lkey_eqb_eq in Hkey.
      pose proof (blk_ok_tx _ _ _ (b_ok _ _ HB _ _ Eb) HI) as Hw.
      assert (Hrn : 1 <= r <= n) by (apply (b_dom _ _ HB); congruence).
      exists r. split.
      + destruct (p_fix p); [lia|]. cbn [orb] in Hfx. lia.
      + unfold lease_hit. destruct (lookup r (recent t)) as [rl|] eqn:Er.
        2:{ exfalso. apply (i_r2 _ _ _ _ HT _ _ Eb); [fold t; lia|exact Er]. }
        destruct (i_r1 _ _ _ _ HT _ _ Er) as [txs' [Eb' [_ Hle]]].
        rewrite Eb in Eb'. inversion Eb'. subst txs'. rewrite (Hle Hs). subst k.
        rewrite (klookup_leases_complete txs x).
        * exact Hcl.
        * apply (blk_ok_nodup r); [apply (b_ok _ _ HB _ _ Eb)|exact Hs].
        * exact HI.
        * cbn [t_key snd] in Hk. exact Hk. }
  assert (Htx : existsb (fun e => (fst e =? lv) && (snd e =? id)) (lastValid t) =
                committed_some B n (same_tx lv id)).
  { apply eq_true_iff_eq. rewrite existsb_pair, (committed_some_iff _ _ _ HB). split.
    - intros HI. destruct (i_v1 _ _ _ _ HT _ _ HI) as [r [x [Hc [E1 E2]]]]. exists r, x. split; [exact Hc|].
      unfold same_tx. subst. rewrite !N.eqb_refl. reflexivity.
    - intros [r [x [Hc Hs]]]. unfold same_tx in Hs. apply andb_true_iff in Hs. destruct Hs as [E1 E2].
      apply N.eqb_eq in E1. apply N.eqb_eq in E2. subst lv id. apply (i_v2 _ _ _ _ HT _ _ Hc). fold t. lia. }
  rewrite Htx. destruct (p_sup p) eqn:Hs; cbn [andb]; [|reflexivity].
  destruct (snd k =? 0) eqn:Hk; cbn [negb andb]; [reflexivity|].
  rewrite Hlease by (auto; apply N.eqb_neq; exact Hk). reflexivity.
Qed.
End Inv.
