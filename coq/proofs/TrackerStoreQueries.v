(* C47 lemmas, part 6: under the refinement relation every (repaired) reader of the key-value
   backend returns what the abstract store returns. *)
From Coq Require Import NArith List Bool Lia Sorted.
From Verif.model Require Import TrackerStore.
From Verif.proofs Require Import TrackerStoreKeys TrackerStoreMap TrackerStoreRefine TrackerStoreRanges.
Import ListNotations.
Open Scope N_scope.

(* ---------- reading fields back out of encoded keys ---------- *)
Lemma skipn_app_exact {A} (a : list A) : forall n b, length a = n -> skipn n (a ++ b) = b.
Proof. induction a as [|x a IH]; intros [|n] b L; cbn in L; try discriminate; [reflexivity|]. cbn. apply IH. lia. Qed.
Lemma firstn_app_exact {A} (a : list A) : forall n b, length a = n -> firstn n (a ++ b) = a.
Proof. induction a as [|x a IH]; intros [|n] b L; cbn in L; try discriminate; [reflexivity|]. cbn. f_equal. apply IH. lia. Qed.
Lemma firstn_exact {A} (a : list A) n : length a = n -> firstn n a = a.
Proof. intros <-. apply firstn_all. Qed.

Lemma extract_res_aidx a i : valid_key (KRes a i) = true -> extractResourceAidx (enc (KRes a i)) = i.
Proof.
  cbn [valid_key]. intros V. apply andb_true_iff in V as [Va Vi]. unfold extractResourceAidx. unfold_keys.
  change (skipn 36 (120 :: 98 :: sep :: a ++ sep :: be8 i)) with (skipn 33 (a ++ sep :: be8 i)).
  replace (a ++ sep :: be8 i) with ((a ++ [sep]) ++ be8 i) by (rewrite <- app_assoc; reflexivity).
  rewrite skipn_app_exact by (rewrite app_length, valid_addr_length by assumption; reflexivity).
  rewrite firstn_exact by apply be8_length. apply unbe_be8, Vi.
Qed.
Lemma extract_onl_round a r : valid_key (KOnl a r) = true -> extractOnlineAccountRound (enc (KOnl a r)) = r.
Proof.
  cbn [valid_key]. intros V. apply andb_true_iff in V as [Va Vi]. unfold extractOnlineAccountRound. unfold_keys.
  change (skipn 36 (120 :: 101 :: sep :: a ++ sep :: be8 r)) with (skipn 33 (a ++ sep :: be8 r)).
  replace (a ++ sep :: be8 r) with ((a ++ [sep]) ++ be8 r) by (rewrite <- app_assoc; reflexivity).
  rewrite skipn_app_exact by (rewrite app_length, valid_addr_length by assumption; reflexivity).
  rewrite firstn_exact by apply be8_length. apply unbe_be8, Vi.
Qed.
Lemma extract_onl_addr a r : valid_key (KOnl a r) = true -> extractOnlineAccountAddress (enc (KOnl a r)) = a.
Proof.
  cbn [valid_key]. intros V. apply andb_true_iff in V as [Va Vi]. unfold extractOnlineAccountAddress. unfold_keys.
  change (skipn 3 (120 :: 101 :: sep :: a ++ sep :: be8 r)) with (a ++ sep :: be8 r).
  apply firstn_app_exact, valid_addr_length, Va.
Qed.
Lemma extract_round_part (c : N) r : u64 r = true -> extractRoundPart (120 :: c :: sep :: be8 r) = r.
Proof.
  intros V. unfold extractRoundPart. change (skipn 3 (120 :: c :: sep :: be8 r)) with (be8 r).
  rewrite firstn_exact by apply be8_length. apply unbe_be8, V.
Qed.
Lemma extract_bal_addr r b a : valid_key (KBal r b a) = true -> extractOnlineAccountBalanceAddress (enc (KBal r b a)) = a.
Proof.
  cbn [valid_key]. intros V. split_valid. unfold extractOnlineAccountBalanceAddress. unfold_keys.
  change (skipn 21 (120 :: 102 :: sep :: be8 r ++ sep :: be8 b ++ sep :: a)) with (skipn 18 (be8 r ++ sep :: be8 b ++ sep :: a)).
  replace (be8 r ++ sep :: be8 b ++ sep :: a) with ((be8 r ++ [sep] ++ be8 b ++ [sep]) ++ a)
    by (rewrite <- !app_assoc; reflexivity).
  rewrite skipn_app_exact by (rewrite !app_length, !be8_length; reflexivity).
  apply firstn_exact, valid_addr_length. assumption.
Qed.
Lemma extract_bal_round r b a : valid_key (KBal r b a) = true -> extractOnlineAccountBalanceRound (enc (KBal r b a)) = r.
Proof.
  cbn [valid_key]. intros V. split_valid. unfold extractOnlineAccountBalanceRound. unfold_keys.
  change (skipn 3 (120 :: 102 :: sep :: be8 r ++ sep :: be8 b ++ sep :: a)) with (be8 r ++ sep :: be8 b ++ sep :: a).
  rewrite firstn_app_exact by apply be8_length. apply unbe_be8. assumption.
Qed.

(* ---------- point lookups ---------- *)
Section Queries.
Variables (s : spec) (kv : kvs).
Hypothesis HR : R s kv.

Lemma q_round : kv_accounts_round kv = spec_round s.
Proof.
  unfold kv_accounts_round, spec_round. change roundKey with (enc KRound).
  rewrite (get_refines s kv KRound HR); [reflexivity|reflexivity|exact I].
Qed.

Lemma q_account a : valid_addr a = true -> kv_lookup_account kv a = spec_lookup_account s a.
Proof.
  intros V. unfold kv_lookup_account, spec_lookup_account. rewrite q_round. change (accountKey a) with (enc (KAcct a)).
  rewrite (get_refines s kv (KAcct a) HR); [reflexivity|exact V|exact I].
Qed.

Lemma q_resources a i ct : valid_addr a = true -> u64 i = true ->
  kv_lookup_resources kv a i ct = spec_lookup_resources s a i ct.
Proof.
  intros V Vi. unfold kv_lookup_resources, spec_lookup_resources. rewrite q_round. change (resourceKey a i) with (enc (KRes a i)).
  rewrite (get_refines s kv (KRes a i) HR); [reflexivity|cbn; rewrite V, Vi; reflexivity|exact I].
Qed.

Lemma q_key_value k : all_lt256 k = true -> kv_lookup_key_value kv k = spec_lookup_key_value s k.
Proof.
  intros V. unfold kv_lookup_key_value, spec_lookup_key_value. rewrite q_round. change (appKvKey k) with (enc (KApp k)).
  rewrite (get_refines s kv (KApp k) HR); [reflexivity|exact V|exact I].
Qed.

Lemma q_creator i ct : u64 i = true -> kv_lookup_creator kv i ct = spec_lookup_creator s i ct.
Proof.
  intros V. unfold kv_lookup_creator, spec_lookup_creator. rewrite q_round. change (creatableKey i) with (enc (KCreat i)).
  rewrite (get_refines s kv (KCreat i) HR); [reflexivity|exact V|exact I].
Qed.

Lemma q_totals st : kv_accounts_totals kv st = spec_accounts_totals s st.
Proof.
  unfold kv_accounts_totals, spec_accounts_totals. change (totalsKey st) with (enc (KTotals st)).
  rewrite (get_refines s kv (KTotals st) HR); [reflexivity|reflexivity|exact I].
Qed.

Lemma q_rowid a : valid_addr a = true -> kv_lookup_account_rowid kv a = spec_lookup_account_rowid s a.
Proof.
  intros V. unfold kv_lookup_account_rowid, spec_lookup_account_rowid. change (accountKey a) with (enc (KAcct a)).
  rewrite (get_refines s kv (KAcct a) HR); [reflexivity|exact V|exact I].
Qed.

Lemma q_resource_data a i : valid_addr a = true -> u64 i = true ->
  kv_lookup_resource_data kv a i = spec_lookup_resource_data s a i.
Proof.
  intros V Vi. unfold kv_lookup_resource_data, spec_lookup_resource_data. rewrite q_rowid by exact V.
  change (resourceKey a i) with (enc (KRes a i)).
  rewrite (get_refines s kv (KRes a i) HR); [reflexivity|cbn; rewrite V, Vi; reflexivity|exact I].
Qed.

Lemma q_online_round_params r : u64 r = true ->
  kv_lookup_online_round_params kv r = spec_lookup_online_round_params s r.
Proof.
  intros V. unfold kv_lookup_online_round_params, spec_lookup_online_round_params.
  change (onlineAccountRoundParamsKey r) with (enc (KOrp r)).
  rewrite (get_refines s kv (KOrp r) HR); [reflexivity|exact V|exact I].
Qed.

Lemma q_sp_context r : u64 r = true -> kv_lookup_sp_context kv r = spec_lookup_sp_context s r.
Proof.
  intros V. unfold kv_lookup_sp_context, spec_lookup_sp_context. change (stateproofKey r) with (enc (KSp r)).
  rewrite (get_refines s kv (KSp r) HR); [reflexivity|exact V|exact I].
Qed.

(* ---------- range scans ---------- *)
Lemma sselect_valid P e : In e (sselect s P) -> valid_key (fst e) = true /\ P (fst e) = true.
Proof.
  intros J. apply sselect_In in J as [J Pe]. split; [|exact Pe].
  destruct HR as (W & _). pose proof (wf_valid s W) as V. rewrite Forall_forall in V. exact (V _ J).
Qed.

Lemma scan_map {A} lo hi P (f : bytes * value -> A) (g : skey * value -> A) :
  (forall k, valid_key k = true -> in_range lo hi (enc k) = P k) ->
  (forall r b a, P (KBal r b a) = false) ->
  (forall e, valid_key (fst e) = true -> P (fst e) = true -> f (encV e) = g e) ->
  map f (kv_range kv lo hi) = map g (sselect s P).
Proof.
  intros HP HB Hfg. rewrite (scan_refines s kv lo hi P HR HP HB), map_map.
  apply map_ext_in. intros e J. apply sselect_valid in J as [V Pe]. apply Hfg; assumption.
Qed.
Lemma scan_map_rev {A} lo hi P (f : bytes * value -> A) (g : skey * value -> A) :
  (forall k, valid_key k = true -> in_range lo hi (enc k) = P k) ->
  (forall r b a, P (KBal r b a) = false) ->
  (forall e, valid_key (fst e) = true -> P (fst e) = true -> f (encV e) = g e) ->
  map f (rev (kv_range kv lo hi)) = map g (rev (sselect s P)).
Proof. intros HP HB Hfg. rewrite !map_rev. f_equal. apply scan_map; assumption. Qed.

Lemma q_all_resources a : valid_addr a = true -> kv_lookup_all_resources kv a = spec_lookup_all_resources s a.
Proof.
  intros V. unfold kv_lookup_all_resources, spec_lookup_all_resources, resourceAddrOnlyRangePrefix, kv_iter.
  rewrite q_round. destruct (spec_round s); try reflexivity. cbn [bind]. do 2 f_equal.
  apply scan_map; [intros k Vk; exact (range_res a k V Vk)|reflexivity|].
  intros [k v] Vk Pk. cbn [fst] in *. destruct k; try discriminate. unfold encV, vval. cbn [fst snd res_aidx].
  rewrite extract_res_aidx by exact Vk. reflexivity.
Qed.

Lemma q_online_history a : valid_addr a = true ->
  kv_lookup_online_history kv a = spec_lookup_online_history_rows s a.
Proof.
  intros V. unfold kv_lookup_online_history, spec_lookup_online_history_rows, onlineAccountAddressRangePrefix, kv_iter.
  rewrite q_round. destruct (spec_round s); try reflexivity. cbn [bind]. do 2 f_equal.
  apply scan_map; [intros k Vk; exact (range_onl_addr a k V Vk)|reflexivity|].
  intros [k v] Vk Pk. cbn [fst] in *. destruct k; try discriminate. unfold encV, vval, onl_data. cbn [fst snd onl_round].
  rewrite extract_onl_round by exact Vk. reflexivity.
Qed.

Lemma q_online_data_by_address a : valid_addr a = true ->
  kv_lookup_online_data_by_address kv a = spec_lookup_online_data_by_address s a.
Proof.
  intros V. unfold kv_lookup_online_data_by_address, spec_lookup_online_data_by_address, onlineAccountAddressRangePrefix, kv_iter.
  pose proof (scan_map_rev (onlineAccountOnlyPartialKey a) (Some (kvPrefixOnlineAccount ++ sep :: a ++ [endsep]))
                (is_onl_of a) (fun e => snd e) (fun e => onl_data (snd e))) as H.
  specialize (H (fun k Vk => range_onl_addr a k V Vk) (fun _ _ _ => eq_refl)).
  assert (forall e, valid_key (fst e) = true -> is_onl_of a (fst e) = true -> snd (encV e) = onl_data (snd e)) as Hfg.
  { intros [k v] Vk Pk. cbn [fst] in *. destruct k; try discriminate. reflexivity. }
  specialize (H Hfg). clear Hfg.
  destruct (rev (kv_range kv _ _)) as [|[k1 v1] l1]; destruct (rev (sselect s (is_onl_of a))) as [|[k2 v2] l2];
    cbn [map] in H; try discriminate; [reflexivity|]. injection H as H _. cbn [snd] in H. subst v1. reflexivity.
Qed.

Lemma q_online a r : valid_addr a = true -> u64 r = true -> kv_lookup_online kv a r = spec_lookup_online s a r.
Proof.
  intros V Vr. unfold kv_lookup_online, kv_lookup_online_with, spec_lookup_online, kv_iter.
  rewrite q_round. destruct (spec_round s); try reflexivity. cbn [bind].
  destruct (onlineAccountLatestRangePrefix a r) as [low high] eqn:E.
  pose proof (scan_map_rev low (Some high) (fun k => is_onl_of a k && (onl_round k <=? r))
                (fun e => (extractOnlineAccountRound (fst e), snd e)) (fun e => (onl_round (fst e), onl_data (snd e)))) as H.
  assert (low = fst (onlineAccountLatestRangePrefix a r)) as El by (rewrite E; reflexivity).
  assert (high = snd (onlineAccountLatestRangePrefix a r)) as Eh by (rewrite E; reflexivity).
  specialize (H ltac:(intros k Vk; rewrite El, Eh; exact (range_onl_latest a r k V Vr Vk)) (fun _ _ _ => eq_refl)).
  assert (forall e, valid_key (fst e) = true -> is_onl_of a (fst e) && (onl_round (fst e) <=? r) = true ->
            (extractOnlineAccountRound (fst (encV e)), snd (encV e)) = (onl_round (fst e), onl_data (snd e))) as Hfg.
  { intros [k v] Vk Pk. cbn [fst] in *. destruct k; try discriminate. unfold encV, vval, onl_data. cbn [fst snd onl_round].
    rewrite extract_onl_round by exact Vk. reflexivity. }
  specialize (H Hfg). clear Hfg.
  destruct (rev (kv_range kv _ _)) as [|[k1 v1] l1];
    destruct (rev (sselect s (fun k => is_onl_of a k && (onl_round k <=? r)))) as [|[k2 v2] l2];
    cbn [map] in H; try discriminate; [reflexivity|]. injection H as H1 H2 _. cbn [fst snd] in *. rewrite H1, H2. reflexivity.
Qed.

Lemma q_online_all mx : kv_online_accounts_all kv mx = spec_online_accounts_all s mx true.
Proof.
  unfold kv_online_accounts_all, spec_online_accounts_all, onlineAccountFullRangePrefix, kv_iter.
  rewrite q_round. destruct (spec_round s); try reflexivity. cbn [bind]. do 2 f_equal.
  apply scan_map; [intros k Vk; exact (range_onl_full k Vk)|reflexivity|].
  intros [k v] Vk Pk. cbn [fst] in *. destruct k; try discriminate. unfold encV, vval, onl_data. cbn [fst snd onl_round onl_addr].
  rewrite extract_onl_round, extract_onl_addr by exact Vk. reflexivity.
Qed.

Lemma q_load_txtail dbr : kv_load_txtail kv dbr = spec_load_txtail s dbr.
Proof.
  unfold kv_load_txtail, spec_load_txtail, txTailFullRangePrefix, kv_iter. f_equal.
  apply scan_map_rev; [intros k Vk; exact (range_txtail_full k Vk)|reflexivity|].
  intros [k v] Vk Pk. cbn [fst] in *. destruct k; try discriminate. unfold encV, vval. cbn [fst snd key_round].
  unfold_keys. rewrite extract_round_part by exact Vk. reflexivity.
Qed.

Lemma q_online_round_params_all : kv_accounts_online_round_params kv = spec_accounts_online_round_params s.
Proof.
  unfold kv_accounts_online_round_params, spec_accounts_online_round_params, onlineAccountRoundParamsFullRangePrefix, kv_iter.
  f_equal; [|f_equal].
  - apply scan_map; [intros k Vk; exact (range_orp_full k Vk)|reflexivity|].
    intros [k v] Vk Pk. cbn [fst] in *. destruct k; try discriminate. reflexivity.
  - apply scan_map; [intros k Vk; exact (range_orp_full k Vk)|reflexivity|].
    intros [k v] Vk Pk. cbn [fst] in *. destruct k; try discriminate. unfold encV. cbn [fst key_round].
    unfold_keys. apply extract_round_part. exact Vk.
Qed.

Lemma q_all_sp_contexts : kv_get_all_sp_contexts kv = spec_get_all_sp_contexts s.
Proof.
  unfold kv_get_all_sp_contexts, spec_get_all_sp_contexts, stateproofFullRangePrefix, kv_iter.
  apply scan_map; [intros k Vk; exact (range_sp_full k Vk)|reflexivity|].
  intros [k v] Vk Pk. cbn [fst] in *. destruct k; try discriminate. unfold encV, vval. cbn [fst snd key_round].
  unfold_keys. rewrite extract_round_part by exact Vk. reflexivity.
Qed.

(* ---------- app kv prefix scans (repaired code) ---------- *)
Lemma strange_prefix_interval p :
  appKvPrefixInterval p = if strange_prefix p then ErrStrangePrefix
                          else match prefix_incr_rev (rev p) with Some pe => Ok (appKvKey p, appKvKey pe) | None => ErrStrangePrefix end.
Proof.
  unfold appKvPrefixInterval, keyPrefixIntervalPreprocessing. cbn [snd].
  destruct (strange_prefix p) eqn:E.
  - apply incr_none in E. rewrite prefix_incr_rev_incr, E. reflexivity.
  - reflexivity.
Qed.
Lemma not_strange_incr p : strange_prefix p = false -> exists pe, prefix_incr_rev (rev p) = Some pe.
Proof.
  intros E. rewrite prefix_incr_rev_incr. destruct (incr p) as [pe|] eqn:F; [eauto|].
  apply incr_none in F. congruence.
Qed.

Lemma q_keys_by_prefix p maxn m cnt :
  kv_lookup_keys_by_prefix kv p maxn m cnt = spec_lookup_keys_by_prefix s p maxn m cnt.
Proof.
  unfold kv_lookup_keys_by_prefix, spec_lookup_keys_by_prefix. rewrite strange_prefix_interval.
  destruct (strange_prefix p) eqn:E; [reflexivity|]. destruct (not_strange_incr p E) as (pe & Ep). rewrite Ep.
  cbn [bind fst snd]. rewrite q_round. destruct (spec_round s); try reflexivity. cbn [bind]. do 3 f_equal.
  unfold kv_iter. apply scan_map; [intros k Vk; exact (range_app_prefix p pe k Ep Vk)|reflexivity|].
  intros [k v] Vk Pk. cbn [fst] in *. destruct k; try discriminate. reflexivity.
Qed.

Lemma q_keys_by_prefix_cursor p cur limit maxb incl excl :
  kv_lookup_keys_by_prefix_cursor kv p cur limit maxb incl excl
  = spec_lookup_keys_by_prefix_cursor s p cur limit maxb incl excl.
Proof.
  unfold kv_lookup_keys_by_prefix_cursor, spec_lookup_keys_by_prefix_cursor. rewrite strange_prefix_interval.
  destruct (strange_prefix p) eqn:E; [reflexivity|]. destruct (not_strange_incr p E) as (pe & Ep). rewrite Ep.
  cbn [bind fst snd]. rewrite q_round. destruct (spec_round s); try reflexivity. cbn [bind].
  assert (map (fun e : bytes * value => (appKvKeyToUserKey (fst e), snd e))
              (kv_iter kv (if negb (beqb cur []) && bleb p cur then appKvKey cur else appKvKey p) (Some (appKvKey pe)) false)
          = map (fun e : skey * value => (app_key (fst e), snd e))
              (sselect s (fun k => is_app_with_prefix p k && bleb (if negb (beqb cur []) && bleb p cur then cur else p) (app_key k)))) as ->.
  { unfold kv_iter. destruct (negb (beqb cur []) && bleb p cur) eqn:C.
    - apply andb_true_iff in C as [_ C].
      apply scan_map; [intros k Vk; exact (range_app_prefix_cursor p pe cur k Ep C Vk)|reflexivity|].
      intros [k v] Vk Pk. cbn [fst] in *. destruct k; try discriminate. reflexivity.
    - apply scan_map; [|reflexivity|].
      + intros k Vk. rewrite (range_app_prefix p pe k Ep Vk). destruct k; try reflexivity.
        cbn [is_app_with_prefix app_key]. destruct (is_prefix p k) eqn:Pf; [|reflexivity].
        rewrite (is_prefix_bleb p k Pf). reflexivity.
      + intros [k v] Vk Pk. cbn [fst] in *. destruct k; try discriminate. reflexivity. }
  reflexivity.
Qed.

End Queries.
