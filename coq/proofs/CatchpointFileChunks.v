(* C16 proofs: restore (write_file ...) = world for EVERY chunking the writer produces.

   1. the writer: the concatenation of the balances chunks of [chunk_accounts] is a GOOD STREAM of
      the accounts -- per account a chain of records, all with the account's data, every one but
      the last with ExpectingMoreEntries, their resources partitioning the account's resources in
      order -- whatever the account / resource budgets (>= 1); no chunk is empty; [chunk_list]
      cuts a list into non-empty pieces whose concatenation is the list;
   2. the accessor: processing a list of balances sections is processing the concatenation of their
      records (the expectingSpecificAccount / counter state is carried from section to section),
      likewise KV and online sections;
   3. a good stream is accepted, ends outside any account (no dangling partial record), stages the
      accounts and resources in order, and adds a PERMUTATION of the hashes of the unchunked file. *)
From Coq Require Import List NArith ZArith Bool Lia ZifyN ZifyNat ZifyBool Permutation.
From Verif.model Require Import MerkleTrie MerkleTrieSpec CatchpointHash CatchpointFile CatchpointFileCheck.
From Verif.proofs Require Import MerkleTrieProofs MerkleTrieCanonProofs CatchpointFileProofs CatchpointFileWrite.
Import ListNotations.
Open Scope N_scope.

(* ---------- lists ---------- *)
Lemma nodup_app_inv {A} (l1 l2 : list A) :
  NoDup (l1 ++ l2) -> NoDup l1 /\ NoDup l2 /\ (forall x, In x l1 -> In x l2 -> False).
Proof.
  induction l1 as [|a l1 IH]; cbn; intros Hn; [split; [constructor | split; [exact Hn | intros x []]]|].
  apply NoDup_cons_iff in Hn. destruct Hn as [Hnin Hn]. destruct (IH Hn) as (N1 & N2 & D).
  split; [constructor; [intros X; apply Hnin; apply in_app_iff; auto | exact N1]|]. split; [exact N2|].
  intros x [->|X] Y; [apply Hnin; apply in_app_iff; auto | exact (D x X Y)].
Qed.

Lemma split_at_app {A} : forall n (l : list A), fst (CatchpointFile.split_at n l) ++ snd (CatchpointFile.split_at n l) = l.
Proof.
  induction n as [|n IH]; intros l; [reflexivity|]. destruct l as [|x l]; [reflexivity|].
  cbn [CatchpointFile.split_at]. specialize (IH l). destruct (CatchpointFile.split_at n l) as [a b]. cbn in *. rewrite IH. reflexivity.
Qed.

Lemma split_at_length {A} : forall n (l : list A), (n <= length l)%nat -> length (fst (CatchpointFile.split_at n l)) = n.
Proof.
  induction n as [|n IH]; intros l L; [reflexivity|]. destruct l as [|x l]; [cbn in L; lia|].
  cbn [CatchpointFile.split_at]. specialize (IH l). destruct (CatchpointFile.split_at n l) as [a b]. cbn in *. rewrite IH; lia.
Qed.

Lemma split_at_nonempty {A} : forall n (l : list A), (1 <= n)%nat -> l <> [] -> fst (CatchpointFile.split_at n l) <> [].
Proof.
  intros [|n] [|x l] Hn Hl; try lia; try congruence. cbn [CatchpointFile.split_at]. destruct (CatchpointFile.split_at n l). cbn. discriminate.
Qed.

Definition total_res (l : list acct) : nat := fold_right (fun x n => (length (snd x) + n)%nat) 0%nat l.

Lemma fold_left_total (l : list acct) n0 :
  fold_left (fun n a => (n + length (snd a))%nat) l n0 = (n0 + total_res l)%nat.
Proof.
  revert n0. induction l as [|x l IH]; intros n0; [cbn; lia|].
  cbn [fold_left]. rewrite IH. unfold total_res. cbn [fold_right]. lia.
Qed.

Lemma total_res_cons x (l : list acct) : total_res (x :: l) = (length (snd x) + total_res l)%nat.
Proof. reflexivity. Qed.

(* ---------- 1. the writer ---------- *)
(* the records of ONE account *)
Inductive chain (a e : bytes) : list (N * bytes) -> list brec -> Prop :=
| chain_last rs : chain a e rs [mkRec a e false rs]
| chain_more now later ps : chain a e later ps -> chain a e (now ++ later) (mkRec a e true now :: ps).

Inductive good_stream : list acct -> list brec -> Prop :=
| gs_nil : good_stream [] []
| gs_cons a e rs l ps s : chain a e rs ps -> good_stream l s -> good_stream ((a, e, rs) :: l) (ps ++ s).

Lemma chunk_accounts_stream B R : (1 <= R)%nat -> forall fuel l cur nacc nres,
  (length l + total_res l < fuel)%nat -> (nres < R)%nat ->
  exists s, concat (chunk_accounts fuel B R l cur nacc nres) = rev cur ++ s /\ good_stream l s /\
            Forall (fun c => c <> []) (chunk_accounts fuel B R l cur nacc nres).
Proof.
  intros HR. induction fuel as [|fuel IH]; intros l cur nacc nres Hf Hn; [lia|].
  cbn [chunk_accounts]. destruct l as [|[[a e] rs] l].
  - exists []. rewrite app_nil_r. destruct cur as [|r cur].
    + cbn. repeat split; constructor.
    + cbn [concat]. rewrite app_nil_r. split; [reflexivity|]. split; [constructor|].
      constructor; [|constructor]. cbn. intros E. apply (f_equal (@length _)) in E. rewrite app_length in E. cbn in E. lia.
  - rewrite total_res_cons in Hf. cbn [length snd] in Hf.
    destruct (Nat.ltb (length rs) (R - nres)) eqn:Efit.
    + apply Nat.ltb_lt in Efit. destruct (Nat.eqb (S nacc) B).
      * destruct (IH l [] 0%nat 0%nat ltac:(lia) ltac:(lia)) as (s & Ec & Gs & Fa).
        exists (mkRec a e false rs :: s). cbn [concat]. rewrite Ec. cbn [rev app].
        split; [rewrite <- app_assoc; reflexivity|]. split.
        -- apply (gs_cons a e rs l [mkRec a e false rs] s); [constructor | exact Gs].
        -- constructor; [|exact Fa]. intros E. apply (f_equal (@length _)) in E. rewrite app_length in E. cbn in E. lia.
      * destruct (IH l (mkRec a e false rs :: cur) (S nacc) (nres + length rs)%nat ltac:(lia) ltac:(lia)) as (s & Ec & Gs & Fa).
        exists (mkRec a e false rs :: s). rewrite Ec. cbn [rev]. rewrite <- app_assoc.
        split; [reflexivity|]. split; [|exact Fa].
        apply (gs_cons a e rs l [mkRec a e false rs] s); [constructor | exact Gs].
    + apply Nat.ltb_ge in Efit.
      pose proof (split_at_app (R - nres) rs) as Eapp. pose proof (split_at_length (R - nres) rs Efit) as Elen.
      destruct (CatchpointFile.split_at (R - nres) rs) as [now later]. cbn [fst snd] in Eapp, Elen.
      destruct later as [|x later].
      * rewrite app_nil_r in Eapp. subst now.
        destruct (IH l [] 1%nat 0%nat ltac:(lia) ltac:(lia)) as (s & Ec & Gs & Fa).
        exists (mkRec a e false rs :: s). cbn [concat]. rewrite Ec. cbn [rev app].
        split; [rewrite <- app_assoc; reflexivity|]. split.
        -- apply (gs_cons a e rs l [mkRec a e false rs] s); [constructor | exact Gs].
        -- constructor; [|exact Fa]. intros E. apply (f_equal (@length _)) in E. rewrite app_length in E. cbn in E. lia.
      * assert (Hl : (length rs = length now + length (x :: later))%nat) by (rewrite <- Eapp, app_length; reflexivity).
        destruct (IH ((a, e, x :: later) :: l) [] 0%nat 0%nat) as (s & Ec & Gs & Fa).
        { rewrite total_res_cons. cbn [length snd] in *. lia. }
        { lia. }
        inversion Gs as [|a' e' rs' l' ps s' Hc Gs' E1 E2]; subst.
        exists ((mkRec a e true now :: ps) ++ s'). cbn [concat]. rewrite Ec. cbn [rev app].
        split; [rewrite <- !app_assoc; reflexivity|]. split.
        -- apply (gs_cons a e (now ++ x :: later) l (mkRec a e true now :: ps) s'); [constructor; exact Hc | exact Gs'].
        -- constructor; [|exact Fa]. intros E. apply (f_equal (@length _)) in E. rewrite app_length in E. cbn in E. lia.
Qed.

Lemma chunk_list_concat {A} B : (1 <= B)%nat -> forall fuel (l : list A), (length l < fuel)%nat ->
  concat (chunk_list fuel B l) = l /\ Forall (fun c => c <> []) (chunk_list fuel B l).
Proof.
  intros HB. induction fuel as [|fuel IH]; intros l Hf; [lia|]. cbn [chunk_list].
  destruct l as [|x l]; [split; [reflexivity | constructor]|].
  pose proof (split_at_app B (x :: l)) as Eapp.
  pose proof (split_at_nonempty B (x :: l) HB ltac:(discriminate)) as Hne.
  destruct (CatchpointFile.split_at B (x :: l)) as [a b]. cbn [fst snd] in *.
  assert (Lb : (length b < fuel)%nat).
  { assert (La : (1 <= length a)%nat) by (destruct a; [congruence | cbn; lia]).
    apply (f_equal (@length _)) in Eapp. rewrite app_length in Eapp. cbn [length] in Eapp, Hf. lia. }
  destruct (IH b Lb) as [Ec Fa]. cbn [concat]. rewrite Ec. split; [exact Eapp | constructor; assumption].
Qed.

Section Accessor.
  Variable fixed : bool.
  Variable H : bytes -> bytes.
  Variable tot_of : bytes -> counts.
  Variable flags_of : bytes -> bool * bool * bool * bool.
  Variable leafA : bytes -> bytes -> bytes.
  Variable leafR : bytes -> N -> bytes -> bytes.
  Variable leafK : bytes -> bytes -> bytes.

  Notation process_section := (process_section fixed tot_of flags_of leafA leafR leafK).
  Notation process_all := (process_all fixed tot_of flags_of leafA leafR leafK).
  Notation check_records := (check_records fixed tot_of flags_of).
  Notation record_hashes := (record_hashes leafA leafR).

  (* ---------- 2. sections compose ---------- *)
  Lemma check_records_app : forall l1 l2 ex cnt,
    check_records (l1 ++ l2) ex cnt =
    match check_records l1 ex cnt with Some (ex1, cnt1) => check_records l2 ex1 cnt1 | None => None end.
  Proof.
    induction l1 as [|r l1 IH]; intros l2 ex cnt; [reflexivity|].
    cbn [app CatchpointFile.check_records].
    match goal with |- (if ?g then _ else _) = _ => destruct g; [reflexivity|] end.
    destruct (b_more r); [apply IH|].
    match goal with |- (if ?g then _ else _) = _ => destruct g; [apply IH | reflexivity] end.
  Qed.

  Lemma write_balances_app : forall l1 l2 accts res,
    write_balances (l1 ++ l2) accts res =
    match write_balances l1 accts res with Some (a1, r1) => write_balances l2 a1 r1 | None => None end.
  Proof.
    induction l1 as [|r l1 IH]; intros l2 accts res; [reflexivity|].
    cbn [app write_balances].
    match goal with |- match ?g with _ => _ end = _ => destruct g; [apply IH | reflexivity] end.
  Qed.

  Lemma write_kvs_app : forall l1 l2 st,
    write_kvs (l1 ++ l2) st = match write_kvs l1 st with Some s1 => write_kvs l2 s1 | None => None end.
  Proof.
    induction l1 as [|[k v] l1 IH]; intros l2 st; [reflexivity|]. cbn [app write_kvs].
    destruct (has_key k st); [reflexivity | apply IH].
  Qed.

  Lemma write_rows_app : forall l1 l2 st,
    write_rows (l1 ++ l2) st = match write_rows l1 st with Some s1 => write_rows l2 s1 | None => None end.
  Proof.
    induction l1 as [|r l1 IH]; intros l2 st; [reflexivity|]. cbn [app write_rows].
    destruct (existsb (beqb r) st); [reflexivity | apply IH].
  Qed.

  Lemma process_all_app : forall f1 f2 a,
    process_all (f1 ++ f2) a = match process_all f1 a with Some a1 => process_all f2 a1 | None => None end.
  Proof.
    induction f1 as [|s f1 IH]; intros f2 a; [reflexivity|]. cbn [app CatchpointFile.process_all].
    destruct (process_section s a); [apply IH | reflexivity].
  Qed.

  Definition ready (a : astate) : Prop := a_seen a = true /\ (a_version a =? 128) = false.

  Lemma bal_sections : forall chunks a ex cnt ac rs,
    ready a -> Forall (fun c => c <> []) chunks ->
    check_records (concat chunks) (a_expect a) (a_cnt a) = Some (ex, cnt) ->
    write_balances (concat chunks) (a_accts a) (a_res a) = Some (ac, rs) ->
    exists a', process_all (map (fun c => SBal c [] [] []) chunks) a = Some a' /\ ready a' /\
      a_version a' = a_version a /\ a_blkround a' = a_blkround a /\ a_totals a' = a_totals a /\
      a_expect a' = ex /\ a_cnt a' = cnt /\ a_accts a' = ac /\ a_res a' = rs /\ a_kvs a' = a_kvs a /\
      a_oa a' = a_oa a /\ a_orp a' = a_orp a /\ a_sp a' = a_sp a /\
      a_hashes a' = a_hashes a ++ flat_map record_hashes (concat chunks).
  Proof.
    induction chunks as [|c chunks IH]; intros a ex cnt ac rs [Hs Hv] Hne Hc Hw.
    - cbn in *. inversion Hc; inversion Hw; subst. exists a. rewrite app_nil_r. repeat split; auto.
    - inversion Hne as [|c' l' Hc0 Hrest]; subst. cbn [concat] in Hc, Hw.
      rewrite check_records_app in Hc. rewrite write_balances_app in Hw.
      destruct (check_records c (a_expect a) (a_cnt a)) as [[ex1 cnt1]|] eqn:E1; [|discriminate].
      destruct (write_balances c (a_accts a) (a_res a)) as [[ac1 rs1]|] eqn:E2; [|discriminate].
      cbn [map CatchpointFile.process_all CatchpointFile.process_section].
      rewrite Hs, Hv. cbn [negb]. destruct c as [|r0 c]; [congruence|].
      rewrite E1, E2. cbn [write_kvs write_rows map].
      match goal with |- context [process_all _ ?a1] => set (a1' := a1) end.
      destruct (IH a1' ex cnt ac rs) as (a' & Ep & Rd & P1 & P2 & P3 & P4 & P5 & P6 & P7 & P8 & P9 & P10 & P11 & P12);
        [split; [reflexivity | exact Hv] | exact Hrest | exact Hc | exact Hw |].
      exists a'. split; [exact Ep|]. split; [exact Rd|]. unfold a1' in *. cbn in P1, P2, P3, P8, P9, P10, P11, P12.
      repeat (split; [assumption|]). rewrite P12. cbn [concat]. rewrite flat_map_app, app_nil_r, <- app_assoc. reflexivity.
  Qed.

  Lemma kv_sections : forall chunks a ks,
    ready a -> Forall (fun c => c <> []) chunks ->
    write_kvs (concat chunks) (a_kvs a) = Some ks ->
    exists a', process_all (map (fun c => SBal [] c [] []) chunks) a = Some a' /\ ready a' /\
      a_version a' = a_version a /\ a_blkround a' = a_blkround a /\ a_totals a' = a_totals a /\
      a_expect a' = a_expect a /\ a_cnt a' = a_cnt a /\ a_accts a' = a_accts a /\ a_res a' = a_res a /\ a_kvs a' = ks /\
      a_oa a' = a_oa a /\ a_orp a' = a_orp a /\ a_sp a' = a_sp a /\
      a_hashes a' = a_hashes a ++ map (fun e => leafK (fst e) (snd e)) (concat chunks).
  Proof.
    induction chunks as [|c chunks IH]; intros a ks [Hs Hv] Hne Hw.
    - cbn in *. inversion Hw; subst. exists a. rewrite app_nil_r. repeat split; auto.
    - inversion Hne as [|c' l' Hc0 Hrest]; subst. cbn [concat] in Hw. rewrite write_kvs_app in Hw.
      destruct (write_kvs c (a_kvs a)) as [k1|] eqn:E1; [|discriminate].
      cbn [map CatchpointFile.process_all CatchpointFile.process_section].
      rewrite Hs, Hv. cbn [negb]. destruct c as [|r0 c]; [congruence|].
      cbn [CatchpointFile.check_records write_balances write_rows flat_map app]. rewrite E1.
      match goal with |- context [process_all _ ?a1] => set (a1' := a1) end.
      destruct (IH a1' ks) as (a' & Ep & Rd & P1 & P2 & P3 & P4 & P5 & P6 & P7 & P8 & P9 & P10 & P11 & P12);
        [split; [reflexivity | exact Hv] | exact Hrest | exact Hw |].
      exists a'. split; [exact Ep|]. split; [exact Rd|]. unfold a1' in *. cbn in P1, P2, P3, P4, P5, P6, P7, P9, P10, P11, P12.
      repeat (split; [assumption|]). rewrite P12. cbn [concat]. rewrite map_app, <- app_assoc. reflexivity.
  Qed.

  Lemma oa_sections : forall chunks a os,
    ready a -> Forall (fun c => c <> []) chunks ->
    write_rows (concat chunks) (a_oa a) = Some os ->
    exists a', process_all (map (fun c => SBal [] [] c []) chunks) a = Some a' /\ ready a' /\
      a_version a' = a_version a /\ a_blkround a' = a_blkround a /\ a_totals a' = a_totals a /\
      a_expect a' = a_expect a /\ a_cnt a' = a_cnt a /\ a_accts a' = a_accts a /\ a_res a' = a_res a /\ a_kvs a' = a_kvs a /\
      a_oa a' = os /\ a_orp a' = a_orp a /\ a_sp a' = a_sp a /\ a_hashes a' = a_hashes a.
  Proof.
    induction chunks as [|c chunks IH]; intros a os [Hs Hv] Hne Hw.
    - cbn in *. inversion Hw; subst. exists a. repeat split; auto.
    - inversion Hne as [|c' l' Hc0 Hrest]; subst. cbn [concat] in Hw. rewrite write_rows_app in Hw.
      destruct (write_rows c (a_oa a)) as [o1|] eqn:E1; [|discriminate].
      cbn [map CatchpointFile.process_all CatchpointFile.process_section].
      rewrite Hs, Hv. cbn [negb]. destruct c as [|r0 c]; [congruence|].
      rewrite E1. cbn [CatchpointFile.check_records write_balances write_kvs write_rows flat_map map app].
      match goal with |- context [process_all _ ?a1] => set (a1' := a1) end.
      destruct (IH a1' os) as (a' & Ep & Rd & P1 & P2 & P3 & P4 & P5 & P6 & P7 & P8 & P9 & P10 & P11 & P12);
        [split; [reflexivity | exact Hv] | exact Hrest | exact Hw |].
      exists a'. split; [exact Ep|]. split; [exact Rd|]. unfold a1' in *. cbn in P1, P2, P3, P4, P5, P6, P7, P8, P10, P11, P12.
      repeat (split; [assumption|]). rewrite P12, ?app_nil_r. reflexivity.
  Qed.

  Lemma orp_sections : forall chunks a os,
    ready a -> Forall (fun c => c <> []) chunks ->
    write_rows (concat chunks) (a_orp a) = Some os ->
    exists a', process_all (map (fun c => SBal [] [] [] c) chunks) a = Some a' /\ ready a' /\
      a_version a' = a_version a /\ a_blkround a' = a_blkround a /\ a_totals a' = a_totals a /\
      a_expect a' = a_expect a /\ a_cnt a' = a_cnt a /\ a_accts a' = a_accts a /\ a_res a' = a_res a /\ a_kvs a' = a_kvs a /\
      a_oa a' = a_oa a /\ a_orp a' = os /\ a_sp a' = a_sp a /\ a_hashes a' = a_hashes a.
  Proof.
    induction chunks as [|c chunks IH]; intros a os [Hs Hv] Hne Hw.
    - cbn in *. inversion Hw; subst. exists a. repeat split; auto.
    - inversion Hne as [|c' l' Hc0 Hrest]; subst. cbn [concat] in Hw. rewrite write_rows_app in Hw.
      destruct (write_rows c (a_orp a)) as [o1|] eqn:E1; [|discriminate].
      cbn [map CatchpointFile.process_all CatchpointFile.process_section].
      rewrite Hs, Hv. cbn [negb]. destruct c as [|r0 c]; [congruence|].
      rewrite E1. cbn [CatchpointFile.check_records write_balances write_kvs write_rows flat_map map app].
      match goal with |- context [process_all _ ?a1] => set (a1' := a1) end.
      destruct (IH a1' os) as (a' & Ep & Rd & P1 & P2 & P3 & P4 & P5 & P6 & P7 & P8 & P9 & P10 & P11 & P12);
        [split; [reflexivity | exact Hv] | exact Hrest | exact Hw |].
      exists a'. split; [exact Ep|]. split; [exact Rd|]. unfold a1' in *. cbn in P1, P2, P3, P4, P5, P6, P7, P8, P9, P11, P12.
      repeat (split; [assumption|]). rewrite P12, ?app_nil_r. reflexivity.
  Qed.

  (* ---------- 3. a good stream ---------- *)
  Lemma counts_eqb_refl c : counts_eqb c c = true.
  Proof. destruct c as [[[a b] c] d]. cbn. rewrite !N.eqb_refl. reflexivity. Qed.

  Lemma chain_check a e : forall rs ps, chain a e rs ps -> forall ex cnt,
    (ex = None \/ ex = Some (a, e)) ->
    fold_left (fun c x => count_res flags_of c (snd x)) rs cnt = tot_of e ->
    check_records ps ex cnt = Some (None, counts_zero).
  Proof.
    induction 1 as [rs|now later ps Hc IH]; intros ex cnt Hex Hcnt; cbn [CatchpointFile.check_records b_addr b_enc b_more b_res].
    - assert (E : match ex with Some (a0, e0) => negb (beqb a a0) || (fixed && negb (beqb e e0)) | None => false end = false).
      { destruct Hex as [->| ->]; [reflexivity|]. rewrite !beqb_refl. cbn. rewrite andb_false_r. reflexivity. }
      rewrite E, Hcnt, counts_eqb_refl. reflexivity.
    - assert (E : match ex with Some (a0, e0) => negb (beqb a a0) || (fixed && negb (beqb e e0)) | None => false end = false).
      { destruct Hex as [->| ->]; [reflexivity|]. rewrite !beqb_refl. cbn. rewrite andb_false_r. reflexivity. }
      rewrite E. apply IH; [right; reflexivity|]. rewrite <- Hcnt, fold_left_app. reflexivity.
  Qed.

  Lemma stream_check : forall l s, good_stream l s ->
    (forall x, In x l -> fold_left (fun c e => count_res flags_of c (snd e)) (snd x) counts_zero = tot_of (snd (fst x))) ->
    check_records s None counts_zero = Some (None, counts_zero).
  Proof.
    induction 1 as [|a e rs l ps s Hc Gs IH]; intros Hcnt; [reflexivity|].
    rewrite check_records_app, (chain_check a e rs ps Hc None counts_zero (or_introl eq_refl)).
    - apply IH. intros x X. apply Hcnt. right. exact X.
    - apply (Hcnt (a, e, rs)). left. reflexivity.
  Qed.

  (* continuation records: the row exists already *)
  Lemma chain_write_cont a e : forall rs ps, chain a e rs ps -> forall accts res,
    has_key a accts = true -> NoDup (map fst rs) -> (forall c x, In c (map fst rs) -> ~ In (a, c, x) res) ->
    write_balances ps accts res = Some (accts, res ++ map (fun r => (a, fst r, snd r)) rs).
  Proof.
    induction 1 as [rs|now later ps Hc IH]; intros accts res Hk Hn Hf; cbn [write_balances b_addr b_enc b_res]; rewrite Hk.
    - rewrite (write_res_fresh a rs res Hn Hf). reflexivity.
    - rewrite map_app in Hn. destruct (nodup_app_inv _ _ Hn) as (Hn1 & Hn2 & Hdis).
      rewrite (write_res_fresh a now res Hn1).
      + rewrite (IH accts _ Hk Hn2).
        * rewrite map_app, app_assoc. reflexivity.
        * intros c x X Y. apply in_app_iff in Y. destruct Y as [Y|Y].
          -- apply (Hf c x); [rewrite map_app, in_app_iff; auto | exact Y].
          -- apply in_map_iff in Y. destruct Y as (r & E & Y). inversion E; subst.
             apply (Hdis (fst r)); [apply in_map; exact Y | exact X].
      + intros c x X. apply Hf. rewrite map_app, in_app_iff. auto.
  Qed.

  Lemma chain_write a e : forall rs ps, chain a e rs ps -> forall accts res,
    ~ In a (map fst accts) -> NoDup (map fst rs) -> (forall c x, ~ In (a, c, x) res) ->
    write_balances ps accts res = Some (accts ++ [(a, e)], res ++ map (fun r => (a, fst r, snd r)) rs).
  Proof.
    intros rs ps Hc accts res Ha Hn Hf.
    assert (Hk' : has_key a (accts ++ [(a, e)]) = true).
    { apply has_key_in. exists e. apply in_app_iff. right. left. reflexivity. }
    destruct Hc as [rs|now later ps Hc]; cbn [write_balances b_addr b_enc b_res]; rewrite (has_key_false a accts Ha).
    - rewrite (write_res_fresh a rs res Hn (fun c x _ => Hf c x)). reflexivity.
    - rewrite map_app in Hn. destruct (nodup_app_inv _ _ Hn) as (Hn1 & Hn2 & Hdis).
      rewrite (write_res_fresh a now res Hn1 (fun c x _ => Hf c x)).
      rewrite (chain_write_cont a e later ps Hc _ _ Hk' Hn2).
      + rewrite map_app, app_assoc. reflexivity.
      + intros c x X Y. apply in_app_iff in Y. destruct Y as [Y|Y]; [exact (Hf c x Y)|].
        apply in_map_iff in Y. destruct Y as (r & E & Y). inversion E; subst.
        apply (Hdis (fst r)); [apply in_map; exact Y | exact X].
  Qed.

  Lemma stream_write : forall l s, good_stream l s -> forall accts res,
    NoDup (map (fun x : acct => fst (fst x)) l) ->
    (forall x, In x l -> NoDup (map fst (snd x))) ->
    (forall x, In x l -> ~ In (fst (fst x)) (map fst accts)) ->
    (forall x c e, In x l -> ~ In (fst (fst x), c, e) res) ->
    write_balances s accts res = Some (accts ++ rows_of l, res ++ res_of l).
  Proof.
    induction 1 as [|a e rs l ps s Hc Gs IH]; intros accts res Hn Hr Ha Hx.
    - cbn. rewrite !app_nil_r. reflexivity.
    - cbn [map fst] in Hn. apply NoDup_cons_iff in Hn. destruct Hn as [Hnin Hn].
      assert (Hother : forall x, In x l -> fst (fst x) <> a).
      { intros x X E. apply Hnin. apply in_map_iff. exists x. auto. }
      rewrite write_balances_app.
      rewrite (chain_write a e rs ps Hc accts res (Ha (a, e, rs) (or_introl eq_refl))
                 (Hr (a, e, rs) (or_introl eq_refl)) (fun c x => Hx (a, e, rs) c x (or_introl eq_refl))).
      rewrite IH.
      + cbn [rows_of res_of map flat_map fst snd]. rewrite <- !app_assoc. reflexivity.
      + exact Hn.
      + intros x X. apply Hr. right. exact X.
      + intros x X Y. rewrite map_app, in_app_iff in Y. cbn in Y. destruct Y as [Y|[Y|[]]].
        * apply (Ha x); [right; exact X | exact Y].
        * apply (Hother x X). symmetry. exact Y.
      + intros x c e' X Y. apply in_app_iff in Y. destruct Y as [Y|Y].
        * apply (Hx x c e'); [right; exact X | exact Y].
        * apply in_map_iff in Y. destruct Y as (r & E & _). inversion E. apply (Hother x X). congruence.
  Qed.

  Lemma chain_hashes a e : forall rs ps, chain a e rs ps ->
    Permutation (flat_map record_hashes ps) (leafA a e :: map (fun r => leafR a (fst r) (snd r)) rs).
  Proof.
    induction 1 as [rs|now later ps Hc IH]; cbn [flat_map CatchpointFile.record_hashes b_more b_addr b_enc b_res app].
    - rewrite app_nil_r. apply Permutation_refl.
    - rewrite map_app. eapply Permutation_trans; [apply Permutation_app_head; exact IH|].
      apply Permutation_sym. apply Permutation_middle.
  Qed.

  Lemma stream_hashes : forall l s, good_stream l s ->
    Permutation (flat_map record_hashes s) (flat_map record_hashes (map rec_of l)).
  Proof.
    induction 1 as [|a e rs l ps s Hc Gs IH]; [apply Permutation_refl|].
    rewrite flat_map_app. cbn [map flat_map rec_of fst snd CatchpointFile.record_hashes b_more b_addr b_enc b_res app].
    exact (Permutation_app (chain_hashes a e rs ps Hc) IH).
  Qed.
  (* ---------- restore (write_file ...) = world ---------- *)
  Notation restore := (restore fixed H tot_of flags_of leafA leafR leafK).

  Lemma write_file_processed ver (B R : nat) balr blkr (w : world) :
    (129 <=? ver) && (ver <=? 131) = true -> (1 <= B)%nat -> (1 <= R)%nat ->
    wf_world tot_of flags_of w ->
    (ver = 131 \/ (w_oa w = [] /\ w_orp w = [])) ->
    exists a, process_all (write_file ver B R balr blkr w) a_init = Some a /\
      a_version a = ver /\ a_blkround a = blkr /\ a_totals a = w_totals w /\ a_expect a = None /\
      a_accts a = rows_of (w_accts w) /\ a_res a = res_of (w_accts w) /\ a_kvs a = w_kvs w /\
      a_oa a = w_oa w /\ a_orp a = w_orp w /\ a_sp a = w_sp w /\
      Permutation (a_hashes a) (flat_hashes leafA leafR leafK w).
  Proof.
    intros Hver HB HR (Hne & Hna & Hacc & Hnk & Hno & Hnp) Hv8.
    apply andb_true_iff in Hver. destruct Hver as [V1 V2].
    assert (Hv128 : (ver =? 128) = false) by lia.
    assert (Hvr : (128 <=? ver) && (ver <=? 131) = true) by lia.
    destruct w as [accts kvs oa orp sp totals]. cbn [w_accts w_kvs w_oa w_orp w_sp w_totals] in *.
    set (w := mkWorld accts kvs oa orp sp totals) in *.
    unfold write_file. cbn [w_accts w_kvs w_oa w_orp w_sp w_totals w].
    cbn [CatchpointFile.process_all CatchpointFile.process_section]. unfold a_init. cbn [a_seen]. rewrite Hvr.
    cbn [CatchpointFile.process_all CatchpointFile.process_section a_seen a_version a_blkround a_totals a_expect a_cnt
         a_accts a_res a_kvs a_oa a_orp a_sp a_hashes N.eqb].
    match goal with |- context [process_all _ ?x] => set (a2 := x) end.
    assert (Rd2 : ready a2) by (split; [reflexivity | exact Hv128]).
    (* the balances chunks *)
    set (fuel := S (length accts + fold_left (fun n a => (n + length (snd a))%nat) accts 0%nat)).
    destruct (chunk_accounts_stream B R HR fuel accts [] 0%nat 0%nat) as (s & Ec & Gs & Fa1).
    { unfold fuel. rewrite fold_left_total. unfold acct. lia. }
    { lia. }
    cbn [rev app] in Ec.
    destruct (bal_sections (chunk_accounts fuel B R accts [] 0 0) a2 None counts_zero (rows_of accts) (res_of accts) Rd2 Fa1)
      as (a3 & E3 & Rd3 & A1 & A2 & A3 & A4 & A5 & A6 & A7 & A8 & A9 & A10 & A11 & A12).
    { rewrite Ec. apply (stream_check accts s Gs). intros x X. apply (Hacc x X). }
    { rewrite Ec. exact (stream_write accts s Gs [] [] Hna (fun x X => proj1 (Hacc x X)) (fun _ _ Y => Y) (fun _ _ _ _ Y => Y)). }
    (* the KV chunks *)
    destruct (chunk_list_concat B HB (S (length kvs)) kvs ltac:(lia)) as [Ek Fa2].
    destruct (kv_sections (chunk_list (S (length kvs)) B kvs) a3 kvs Rd3 Fa2)
      as (a4 & E4 & Rd4 & K1 & K2 & K3 & K4 & K5 & K6 & K7 & K8 & K9 & K10 & K11 & K12).
    { rewrite Ek, A8. exact (write_kvs_fresh kvs [] Hnk (fun _ _ Y => Y)). }
    (* the online chunks *)
    assert (Fin : exists a5,
              process_all (if 131 <=? ver
                           then map (fun c => SBal [] [] c []) (chunk_list (S (length oa)) B oa) ++
                                map (fun c => SBal [] [] [] c) (chunk_list (S (length orp)) B orp)
                           else []) a4 = Some a5 /\
              a_version a5 = ver /\ a_blkround a5 = blkr /\ a_totals a5 = totals /\ a_expect a5 = None /\
              a_accts a5 = rows_of accts /\ a_res a5 = res_of accts /\ a_kvs a5 = kvs /\ a_oa a5 = oa /\ a_orp a5 = orp /\
              a_sp a5 = sp /\ a_hashes a5 = a_hashes a4).
    { destruct (131 <=? ver) eqn:E8.
      - destruct (chunk_list_concat B HB (S (length oa)) oa ltac:(lia)) as [Eo Fa3].
        destruct (chunk_list_concat B HB (S (length orp)) orp ltac:(lia)) as [Ep Fa4].
        destruct (oa_sections (chunk_list (S (length oa)) B oa) a4 oa Rd4 Fa3)
          as (a5 & E5 & Rd5 & O1 & O2 & O3 & O4 & O5 & O6 & O7 & O8 & O9 & O10 & O11 & O12).
        { rewrite Eo, K9, A9. exact (write_rows_fresh oa [] Hno (fun _ _ Y => Y)). }
        destruct (orp_sections (chunk_list (S (length orp)) B orp) a5 orp Rd5 Fa4)
          as (a6 & E6 & Rd6 & Q1 & Q2 & Q3 & Q4 & Q5 & Q6 & Q7 & Q8 & Q9 & Q10 & Q11 & Q12).
        { rewrite Ep, O10, K10, A10. exact (write_rows_fresh orp [] Hnp (fun _ _ Y => Y)). }
        exists a6. rewrite process_all_app, E5, E6. split; [reflexivity|].
        unfold a2 in *. cbn in A1, A2, A3, A9, A10, A11.
        repeat split; congruence.
      - assert (ver <> 131) by lia. destruct Hv8 as [?|[-> ->]]; [contradiction|].
        exists a4. split; [reflexivity|]. unfold a2 in *. cbn in A1, A2, A3, A9, A10, A11.
        repeat split; congruence. }
    destruct Fin as (a5 & E5 & F1 & F2 & F3 & F4 & F5 & F6 & F7 & F8 & F9 & F10 & F11).
    exists a5. rewrite process_all_app, E3. cbv iota. rewrite process_all_app, E4. cbv iota. rewrite E5.
    split; [reflexivity|]. cbn [w_totals w_accts w_kvs w_oa w_orp w_sp w].
    repeat (split; [assumption|]).
    rewrite F11, K12, A12, Ec, Ek. unfold a2. cbn [a_hashes app]. unfold flat_hashes. cbn [w_accts w_kvs w].
    apply Permutation_app_tail. apply (stream_hashes accts s Gs).
  Qed.

  Theorem restore_write_file n ver (B R : nat) balr blkr digest (w : world) :
    (129 <=? ver) && (ver <=? 131) = true -> (1 <= B)%nat -> (1 <= R)%nat ->
    wf_world tot_of flags_of w ->
    (ver = 131 \/ (w_oa w = [] /\ w_orp w = [])) ->       (* files before V8 do not carry the online tables *)
    NoDup (flat_hashes leafA leafR leafK w) ->
    (forall h, In h (flat_hashes leafA leafR leafK w) -> length h = n /\ bytes_ok h) ->
    exists t, restore (write_file ver B R balr blkr w) (producer_label H leafA leafR leafK ver blkr digest w) blkr digest
              = Accepted (w, t).
  Proof.
    intros Hver HB HR Hwf Hv8 Hnd Hlen.
    destruct (write_file_processed ver B R balr blkr w Hver HB HR Hwf Hv8)
      as (a5 & E5 & F1 & F2 & F3 & F4 & F5 & F6 & F7 & F8 & F9 & F10 & Hperm).
    destruct Hwf as (_ & Hna & _).
    unfold CatchpointFile.restore. rewrite E5, F4, andb_false_r.
    (* the trie *)
    assert (Hnd5 : NoDup (a_hashes a5)) by (eapply Permutation_NoDup; [apply Permutation_sym; exact Hperm | exact Hnd]).
    destruct (build_trie_nodup n (a_hashes a5) t_empty [] eq_refl ltac:(intros y []) Hnd5) as (t & Eb & Rt).
    { intros h X. destruct (Hlen h (Permutation_in _ Hperm X)). repeat split; auto. }
    destruct (build_trie_nodup n (flat_hashes leafA leafR leafK w) t_empty [] eq_refl ltac:(intros y []) Hnd) as (t0 & Eb0 & Rt0).
    { intros h X. destruct (Hlen h X). repeat split; auto. }
    rewrite app_nil_r in Rt, Rt0.
    assert (Hroot : t_root t = canon_set (rev (flat_hashes leafA leafR leafK w))).
    { transitivity (t_root t0); [|apply rel_root; exact Rt0]. eapply rel_set_only; [exact Rt | exact Rt0|].
      intros k. rewrite <- !in_rev. split; intros X; [exact (Permutation_in _ Hperm X) | exact (Permutation_in _ (Permutation_sym Hperm) X)]. }
    rewrite Eb, F2, N.eqb_refl. cbn [negb].
    unfold staged_label, producer_label. rewrite F1, F2, F3, F8, F9, F10, Hroot.
    rewrite beqb_refl. exists t. f_equal. f_equal.
    unfold world_of. rewrite F3, F5, F6, F7, F8, F9, F10. destruct w as [accts kvs oa orp sp totals]. cbn [w_accts w_kvs w_oa w_orp w_sp w_totals] in *. f_equal.
    apply world_accts_back. exact Hna.
  Qed.
End Accessor.

(* ---------- tamper evidence against the writer's own file, whatever its chunking ---------- *)
Section Tamper.
  Variable H : bytes -> bytes.
  Variable tot_of : bytes -> counts.
  Variable flags_of : bytes -> bool * bool * bool * bool.
  Variable leafA : bytes -> bytes -> bytes.
  Variable leafR : bytes -> N -> bytes -> bytes.
  Variable leafK : bytes -> bytes -> bytes.

  Hypothesis label_binds : forall a1 t1 a2 t2 d,
    a_blkround a1 = a_blkround a2 -> staged_label H a1 t1 d = staged_label H a2 t2 d ->
    root_hash H (t_root t1) = root_hash H (t_root t2) /\ a_totals a1 = a_totals a2.
  Hypothesis root_binds : forall hs1 hs2 t1 t2,
    build_trie hs1 t_empty = Some t1 -> build_trie hs2 t_empty = Some t2 ->
    root_hash H (t_root t1) = root_hash H (t_root t2) -> forall x, In x hs1 <-> In x hs2.
  Hypothesis leafA_inj : forall a1 e1 a2 e2, leafA a1 e1 = leafA a2 e2 -> a1 = a2 /\ e1 = e2.
  Hypothesis leafR_inj : forall a1 c1 e1 a2 c2 e2, leafR a1 c1 e1 = leafR a2 c2 e2 -> a1 = a2 /\ c1 = c2 /\ e1 = e2.
  Hypothesis leafK_concat : forall k1 v1 k2 v2, leafK k1 v1 = leafK k2 v2 -> k1 ++ v1 = k2 ++ v2.
  Hypothesis leaf_AR : forall a e a' c e', leafA a e <> leafR a' c e'.
  Hypothesis leaf_AK : forall a e k v, leafA a e <> leafK k v.
  Hypothesis leaf_RK : forall a c e k v, leafR a c e <> leafK k v.

  Theorem tamper_evidence_write_file n ver (B R : nat) (balr : N) blkr digest (w : world) f w' t' :
    (129 <=? ver) && (ver <=? 131) = true -> (1 <= B)%nat -> (1 <= R)%nat ->
    wf_world tot_of flags_of w -> (ver = 131 \/ (w_oa w = [] /\ w_orp w = [])) ->
    NoDup (flat_hashes leafA leafR leafK w) ->
    (forall h, In h (flat_hashes leafA leafR leafK w) -> length h = n /\ bytes_ok h) ->
    (* ANY file accepted under the label of the producer of w, whatever chunking the producer used *)
    restore true H tot_of flags_of leafA leafR leafK f (producer_label H leafA leafR leafK ver blkr digest w) blkr digest
      = Accepted (w', t') ->
    exists a, process_all true tot_of flags_of leafA leafR leafK f a_init = Some a /\ w' = world_of a /\
      a_totals a = w_totals w /\
      (forall ad e, In (ad, e) (a_accts a) <-> In (ad, e) (rows_of (w_accts w))) /\
      (forall ad c e, In (ad, c, e) (a_res a) <-> In (ad, c, e) (res_of (w_accts w))) /\
      (forall k v, In (k, v) (a_kvs a) -> exists k' v', In (k', v') (w_kvs w) /\ k ++ v = k' ++ v') /\
      (forall k v, In (k, v) (w_kvs w) -> exists k' v', In (k', v') (a_kvs a) /\ k ++ v = k' ++ v').
  Proof.
    intros Hver HB HR Hwf Hv8 Hnd Hlen E.
    destruct (restore_write_file true H tot_of flags_of leafA leafR leafK n ver B R balr blkr digest w Hver HB HR Hwf Hv8 Hnd Hlen)
      as (t0 & E0).
    destruct (write_file_processed true H tot_of flags_of leafA leafR leafK ver B R balr blkr w Hver HB HR Hwf Hv8)
      as (a5 & E5 & F1 & F2 & F3 & F4 & F5 & F6 & F7 & F8 & F9 & F10 & Hperm).
    destruct (accepted_binds_state H tot_of flags_of leafA leafR leafK label_binds root_binds leafA_inj leafR_inj
                leafK_concat leaf_AR leaf_AK leaf_RK _ _ _ _ _ _ _ _ _ E0 E) as (a0 & a & P0 & P & W0 & W & Hb).
    rewrite E5 in P0. inversion P0; subst a0.
    assert (Faith : producer_faithful leafA a5).
    { intros ad e X. apply (Permutation_in _ Hperm) in X. unfold flat_hashes in X. apply in_app_iff in X.
      rewrite F5. destruct X as [X|X].
      - apply in_flat_map in X. destruct X as (r & Hr & X). apply in_map_iff in Hr. destruct Hr as ([[a0 e0] rs] & <- & Hin).
        cbn in X. destruct X as [X|X].
        + apply leafA_inj in X. destruct X as [-> ->]. apply in_map_iff. exists (ad, e, rs). auto.
        + apply in_map_iff in X. destruct X as (c & X & _). exfalso. symmetry in X. eapply leaf_AR; eauto.
      - apply in_map_iff in X. destruct X as (kv & X & _). exfalso. symmetry in X. eapply leaf_AK; eauto. }
    destruct (Hb Faith) as (T & A & Rr & K1 & K2).
    exists a. split; [exact P|]. split; [exact W|]. rewrite F3, F5 in *. rewrite F6 in Rr. rewrite F7 in K1, K2. auto 10.
  Qed.
End Tamper.
