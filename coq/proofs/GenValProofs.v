(* C20, part 1: the link between the two modes of the evaluator.
   - [generate_validates_eq]: the block generated from ANY pool and finished for ANY proposer is
     re-evaluated by validate mode to exactly the generator's delta plus payout and proposal
     record (as an equation between results, so without any no-overflow premise);
   - [validate_unique]: a block with the same transactions that validate mode accepts carries
     exactly the generate-computed fields (payout: at most the computed one). *)
From Coq Require Import NArith List Bool Lia ZifyN ZifyNat ZifyBool.
From Verif.model Require Import GenVal.
Import ListNotations.
Open Scope N_scope.

Definition Eg (P : params) (c r : N) : env := mkEnv P true true r (eff_cap P c).
Definition Ev (P : params) (r : N) : env := mkEnv P true false r (p_maxbytes P).

Lemma eff_cap_le : forall P c, eff_cap P c <= p_maxbytes P.
Proof.
  intros P c. unfold eff_cap. destruct (c =? 0); cbn [orb]; [lia|].
  destruct (p_maxbytes P <? c) eqn:E; [lia|]. apply N.ltb_ge in E. exact E.
Qed.

Tactic Notation "inv_bind" hyp(H) "as" simple_intropattern(p) :=
  match type of H with
  | bind ?x _ = Ok _ => let E := fresh "Hb" in destruct x as [p|] eqn:E; [cbn [bind] in H | discriminate H]
  end.

(* ------------------------------------------------------------------ small facts *)
Lemma ad_eqb_refl : forall a, ad_eqb a a = true.
Proof. intros [c o]. unfold ad_eqb; cbn. rewrite !N.eqb_refl. reflexivity. Qed.

Lemma ad_eqb_eq : forall a b, ad_eqb a b = true -> a = b.
Proof.
  intros [c o] [c' o']. unfold ad_eqb; cbn. intro H.
  apply andb_true_iff in H as [H1 H2]. apply N.eqb_eq in H1, H2. subst. reflexivity.
Qed.

Lemma root_eqb_refl : forall r, root_eqb r r = true.
Proof. induction r as [|[i x] r IH]; cbn; [reflexivity|]. rewrite N.eqb_refl, ad_eqb_refl, IH. reflexivity. Qed.

Lemma root_eqb_eq : forall a b, root_eqb a b = true -> a = b.
Proof.
  induction a as [|[i x] a IH]; intros [|[j y] b] H; cbn in H; try discriminate; [reflexivity|].
  apply andb_true_iff in H as [H H3]. apply andb_true_iff in H as [H1 H2].
  apply N.eqb_eq in H1. apply ad_eqb_eq in H2. apply IH in H3. subst. reflexivity.
Qed.

Lemma guard_ok : forall b e, guard b e = Ok tt -> b = true.
Proof. intros [] e H; [reflexivity|discriminate]. Qed.

(* ------------------------------------------------------------------ transaction *)
(* validate mode accepts exactly the ApplyData that applyTransaction computes *)
Lemma tx_val_inv : forall P r L parent c tx a c' s',
  p_applydata P = true ->
  transaction (Ev P r) L parent c (tx, a) = Ok (c', s') ->
  exists l1, apply_transaction P L [parent] c tx = Ok (l1, a) /\ s' = (tx, a) /\ c' = addtx l1 tx.
Proof.
  intros P r L parent c tx a c' s' HA H. unfold transaction in H. cbn [fst snd Ev e_validate e_generate e_P e_rnd] in H.
  inv_bind H as []. inv_bind H as [l1 ad']. cbn [negb andb] in H. rewrite HA in H.
  inv_bind H as []. inv_bind H as []. apply guard_ok in Hb1. apply ad_eqb_eq in Hb1. subst a.
  inversion H; subst. exists l1. auto.
Qed.

(* generate mode computes the ApplyData that validate mode then accepts, reaching the same cow *)
Lemma tx_gen_val : forall P c0 r L parent c s c' s',
  p_applydata P = true ->
  transaction (Eg P c0 r) L parent c s = Ok (c', s') ->
  fst s' = fst s /\ transaction (Ev P r) L parent c s' = Ok (c', s').
Proof.
  intros P c0 r L parent c [tx a] c' s' HA H. unfold transaction in *.
  cbn [fst snd Eg Ev e_validate e_generate e_P e_rnd negb andb orb] in *.
  inv_bind H as []. inv_bind H as [l1 ad']. cbn [bind] in H. inv_bind H as [].
  inversion H; subst. cbn [fst snd]. split; [reflexivity|].
  rewrite Hb, Hb0. cbn [bind]. rewrite HA, ad_eqb_refl. cbn [guard bind]. rewrite Hb1. reflexivity.
Qed.

(* ------------------------------------------------------------------ the group loop *)
Lemma loop_gen_val : forall P c0 r L parent bb txs c gb c' ss gb',
  p_applydata P = true ->
  group_loop (Eg P c0 r) L parent c bb gb txs = Ok (c', ss, gb') ->
  map fst ss = map fst txs /\ group_loop (Ev P r) L parent c bb gb ss = Ok (c', ss, gb').
Proof.
  intros P c0 r L parent bb txs. induction txs as [|s txs IH]; intros c gb c' ss gb' HA H.
  - cbn in H. inversion H; subst. split; reflexivity.
  - cbn [group_loop] in H. inv_bind H as [c1 s1].
    destruct (tx_gen_val _ _ _ _ _ _ _ _ _ HA Hb) as [Hf Hv].
    cbn [Eg e_validate e_P e_cap] in H.
    destruct (true && (eff_cap P c0 <? bb + (gb + t_len (fst s)))) eqn:Hsp; [discriminate|].
    destruct (negb (t_gidok (fst s))) eqn:Hgd; [discriminate|].
    inv_bind H as [[c2 ss2] gb2]. inversion H; subst.
    destruct (IH _ _ _ _ _ HA Hb0) as [Hm Hl].
    split; [cbn; rewrite Hf, Hm; reflexivity|].
    (* what fits under the node-local cap fits under the protocol's limit *)
    assert (Hsp' : true && (p_maxbytes P <? bb + (gb + t_len (fst s))) = false).
    { cbn [andb] in *. apply N.ltb_ge in Hsp. apply N.ltb_ge. pose proof (eff_cap_le P c0). lia. }
    cbn [group_loop]. rewrite Hv. cbn [bind Ev e_validate e_P e_cap]. rewrite Hf, Hsp', Hgd, Hl. reflexivity.
Qed.

Lemma loop_val_fixed : forall P r L parent bb txs c gb c' ss gb',
  p_applydata P = true ->
  group_loop (Ev P r) L parent c bb gb txs = Ok (c', ss, gb') -> ss = txs.
Proof.
  intros P r L parent bb txs. induction txs as [|[tx a] txs IH]; intros c gb c' ss gb' HA H.
  - cbn in H. inversion H; reflexivity.
  - cbn [group_loop] in H. inv_bind H as [c1 s1].
    destruct (tx_val_inv _ _ _ _ _ _ _ _ _ HA Hb) as (l1 & _ & Hs & _). subst s1.
    destruct (e_validate (Ev P r) && _); [discriminate|].
    destruct (negb (t_gidok _)); [discriminate|].
    inv_bind H as [[c2 ss2] gb2]. inversion H; subst.
    f_equal. eapply IH; eauto.
Qed.

Lemma loop_val_unique : forall P r L parent bb txs1 txs2 c gb r1 r2,
  p_applydata P = true ->
  map fst txs1 = map fst txs2 ->
  group_loop (Ev P r) L parent c bb gb txs1 = Ok r1 ->
  group_loop (Ev P r) L parent c bb gb txs2 = Ok r2 ->
  txs1 = txs2.
Proof.
  intros P r L parent bb txs1. induction txs1 as [|[tx a1] txs1 IH]; intros [|[tx2 a2] txs2] c gb r1 r2 HA Hm H1 H2;
    cbn in Hm; try discriminate; [reflexivity|].
  inversion Hm; subst tx2. clear Hm.
  cbn [group_loop] in H1, H2. inv_bind H1 as [c1 s1]. inv_bind H2 as [c2 s2].
  destruct (tx_val_inv _ _ _ _ _ _ _ _ _ HA Hb) as (l1 & Ha1 & Hs1 & Hc1).
  destruct (tx_val_inv _ _ _ _ _ _ _ _ _ HA Hb0) as (l2 & Ha2 & Hs2 & Hc2).
  rewrite Ha1 in Ha2. inversion Ha2; subst.
  cbn [fst] in *.
  destruct (e_validate (Ev P r) && _); [discriminate|].
  destruct (negb (t_gidok tx)); [discriminate|].
  inv_bind H1 as q1. inv_bind H2 as q2. f_equal. eapply IH; eauto.
Qed.

(* ------------------------------------------------------------------ groups *)
Definition same_txns (g g' : group) : Prop :=
  map fst (g_txns g) = map fst (g_txns g') /\ g_wf g = g_wf g' /\ g_gid g = g_gid g' /\ g_feeok g = g_feeok g'.

Lemma group_gen_val : forall P c0 r L ev g ev',
  p_applydata P = true ->
  transaction_group (Eg P c0 r) L ev g = Ok ev' ->
  (g_txns g = [] /\ ev' = ev) \/
  (exists g', same_txns g g' /\ ev_payset ev' = ev_payset ev ++ [g'] /\
              transaction_group (Ev P r) L ev g' = Ok ev').
Proof.
  intros P c0 r L ev g ev' HA H. unfold transaction_group in H.
  destruct (g_txns g) as [|s0 txs0] eqn:Htx.
  - left. inversion H; auto.
  - right. rewrite <- Htx in H.
    destruct (p_maxgroup (e_P (Eg P c0 r)) <? N.of_nat (length (g_txns g))) eqn:Hsz; [discriminate|].
    destruct (e_validate (Eg P c0 r) && negb (g_wf g)) eqn:Hwf; [discriminate|].
    inv_bind H as [[c ss] gb].
    destruct (negb (g_gid g)) eqn:Hg; [discriminate|].
    destruct (negb (g_feeok g)) eqn:Hf; [discriminate|].
    inversion H; subst ev'. clear H.
    destruct (loop_gen_val _ _ _ _ _ _ _ _ _ _ _ _ HA Hb) as [Hm Hl].
    exists (mkGroup ss (g_wf g) (g_gid g) (g_feeok g)). cbn [ev_payset].
    split; [unfold same_txns; cbn; auto|]. split; [reflexivity|].
    unfold transaction_group. cbn [g_txns g_wf g_gid g_feeok].
    assert (Hlen : length ss = length (g_txns g)).
    { apply (f_equal (@length _)) in Hm. rewrite !map_length in Hm. exact Hm. }
    destruct ss as [|s1 ss1]; [rewrite Htx in Hlen; discriminate|].
    rewrite Hlen. cbn [Ev Eg e_P e_validate] in *. rewrite Hsz, Hwf, Hl. cbn [bind]. rewrite Hg, Hf. reflexivity.
Qed.

Lemma group_val_unique : forall P r L ev g g' e1 e2,
  p_applydata P = true -> same_txns g g' ->
  transaction_group (Ev P r) L ev g = Ok e1 ->
  transaction_group (Ev P r) L ev g' = Ok e2 ->
  g = g'.
Proof.
  intros P r L ev [t w i f] [t' w' i' f'] e1 e2 HA (Hm & Hw & Hi & Hf) H1 H2. cbn in Hm, Hw, Hi, Hf. subst w' i' f'.
  assert (t = t'); [|subst; reflexivity].
  unfold transaction_group in H1, H2. cbn [g_txns g_wf g_gid g_feeok] in *.
  destruct t as [|s t]; destruct t' as [|s' t']; try discriminate Hm; [reflexivity|].
  destruct (p_maxgroup _ <? _); [discriminate|].
  destruct (p_maxgroup _ <? _); [discriminate|].
  destruct (e_validate _ && negb w); [discriminate|].
  inv_bind H1 as q1. inv_bind H2 as q2. eapply loop_val_unique; eauto.
Qed.

(* ------------------------------------------------------------------ pools and blocks *)
Lemma gen_run : forall P c0 r L pool ev,
  p_applydata P = true ->
  exists gs, ev_payset (gen_groups (Eg P c0 r) L ev pool) = ev_payset ev ++ gs /\
             run_groups (Ev P r) L ev gs = Ok (gen_groups (Eg P c0 r) L ev pool).
Proof.
  intros P c0 r L pool. induction pool as [|g pool IH]; intros ev HA.
  - exists []. cbn. rewrite app_nil_r. auto.
  - cbn [gen_groups]. destruct (transaction_group (Eg P c0 r) L ev g) as [ev1|e] eqn:Hg.
    + destruct (group_gen_val _ _ _ _ _ _ _ HA Hg) as [[_ ->]|(g' & _ & Hp & Hv)]; [apply IH; assumption|].
      destruct (IH ev1 HA) as (gs & Hps & Hr). exists (g' :: gs). split.
      * rewrite Hps, Hp, <- app_assoc. reflexivity.
      * cbn [run_groups]. rewrite Hv. cbn [bind]. exact Hr.
    + apply IH; assumption.
Qed.

Lemma run_val_unique : forall P r L gs gs' ev e1 e2,
  p_applydata P = true -> Forall2 same_txns gs gs' ->
  run_groups (Ev P r) L ev gs = Ok e1 ->
  run_groups (Ev P r) L ev gs' = Ok e2 ->
  gs = gs'.
Proof.
  intros P r L gs gs' ev e1 e2 HA HF. revert ev e1 e2. induction HF as [|g g' gs gs' Hs HF IH]; intros ev e1 e2 H1 H2; [reflexivity|].
  cbn [run_groups] in H1, H2. inv_bind H1 as ev1. inv_bind H2 as ev2.
  assert (g = g') by (eapply group_val_unique; eauto). subst g'.
  rewrite Hb in Hb0. inversion Hb0; subst. f_equal. eapply IH; eauto.
Qed.

(* validate mode rebuilds exactly the payset it is given *)
Lemma group_val_payset : forall P r L ev g ev',
  p_applydata P = true ->
  transaction_group (Ev P r) L ev g = Ok ev' ->
  payset_commit (ev_payset ev') = payset_commit (ev_payset ev ++ [g]).
Proof.
  intros P r L ev g ev' HA H. unfold transaction_group in H.
  destruct (g_txns g) as [|s0 t0] eqn:Htx.
  - inversion H; subst. unfold payset_commit. rewrite map_app, concat_app. cbn. rewrite Htx. cbn. rewrite !app_nil_r. reflexivity.
  - rewrite <- Htx in H.
    destruct (p_maxgroup _ <? _); [discriminate|].
    destruct (e_validate _ && _); [discriminate|].
    inv_bind H as [[c ss] gb].
    destruct (negb (g_gid g)); [discriminate|]. destruct (negb (g_feeok g)); [discriminate|].
    inversion H; subst. cbn [ev_payset].
    apply loop_val_fixed in Hb; [|assumption]. subst ss.
    unfold payset_commit. rewrite !map_app, !concat_app. cbn. reflexivity.
Qed.

Lemma payset_commit_app : forall a b, payset_commit (a ++ b) = payset_commit a ++ payset_commit b.
Proof. intros. unfold payset_commit. rewrite map_app, concat_app, map_app. reflexivity. Qed.

Lemma run_val_payset : forall P r L gs ev ev',
  p_applydata P = true ->
  run_groups (Ev P r) L ev gs = Ok ev' ->
  payset_commit (ev_payset ev') = payset_commit (ev_payset ev ++ gs).
Proof.
  intros P r L gs. induction gs as [|g gs IH]; intros ev ev' HA H.
  - cbn in H. inversion H. rewrite app_nil_r. reflexivity.
  - cbn [run_groups] in H. inv_bind H as ev1. rewrite (IH _ _ HA H).
    rewrite payset_commit_app, (group_val_payset _ _ _ _ _ _ HA Hb), <- payset_commit_app, <- app_assoc. reflexivity.
Qed.

(* ------------------------------------------------------------------ StartEvaluator *)
Lemma start_gen : forall P c0 r b L hdr1 l0,
  start (Eg P c0 r) L (hdr_template r b) = Ok (hdr1, l0) ->
  hdr1 = set_start (hdr_template r b) (if p_genhash P then lv_genhash L else 0) (lv_nextrs L) /\
  l0 = put layer0 (lv_pool L) (base_lookup L (lv_pool L)) /\
  forall h, h_round h = r -> h_bonus h = b -> h_genhash h = h_genhash hdr1 -> h_rs h = h_rs hdr1 ->
            (p_loadtracking P = false -> h_load h = 0) ->
            start (Ev P r) L h = Ok (h, l0).
Proof.
  intros P c0 r b L hdr1 l0 H. unfold start in H. cbn [Eg e_P e_generate e_validate hdr_template h_round h_genhash] in H.
  destruct (r =? 0) eqn:Hr0; [discriminate|].
  set (h1 := set_start _ _ _) in H.
  inv_bind H as [].
  destruct (a_algos (base_lookup L (lv_pool L)) <? p_minbal P) eqn:Hp; [discriminate|].
  inversion H; subst hdr1 l0. clear H.
  split; [reflexivity|]. split; [reflexivity|].
  intros h Hhr Hhb Hhg Hhs Hhl. unfold start. cbn [Ev e_P e_generate e_validate].
  rewrite Hhr, Hr0. rewrite Hhb, Hhg, Hhs.
  subst h1. cbn [set_start h_round h_bonus h_load h_genhash h_rs hdr_template] in *.
  destruct (negb (r =? lv_round L + 1)); [discriminate|].
  destruct (negb (b =? lv_nextbonus L)); [discriminate|].
  replace (negb (p_loadtracking P) && negb (h_load h =? 0)) with false.
  2:{ destruct (p_loadtracking P); [reflexivity|]. rewrite Hhl by reflexivity. reflexivity. }
  change (0 =? 0) with true in Hb. cbn [negb] in Hb. rewrite andb_false_r in Hb.
  destruct (negb (p_genhash P) && negb ((if p_genhash P then lv_genhash L else 0) =? 0)); [discriminate|].
  rewrite N.eqb_refl in *. cbn [negb] in *.
  destruct (p_genhash P && negb ((if p_genhash P then lv_genhash L else 0) =? lv_genhash L)); [discriminate|].
  cbn [bind]. rewrite Hp. reflexivity.
Qed.

Lemma start_val : forall P r L h hdr1 l0,
  start (Ev P r) L h = Ok (hdr1, l0) ->
  hdr1 = h /\ l0 = put layer0 (lv_pool L) (base_lookup L (lv_pool L)) /\
  h_round h = lv_round L + 1 /\ h_bonus h = lv_nextbonus L /\
  (p_loadtracking P = false -> h_load h = 0) /\
  h_genhash h = (if p_genhash P then lv_genhash L else 0) /\ h_rs h = lv_nextrs L.
Proof.
  intros P r L h hdr1 l0 H. unfold start in H. cbn [Ev e_P e_generate e_validate] in H.
  destruct (h_round h =? 0); [discriminate|].
  inv_bind H as [].
  destruct (a_algos (base_lookup L (lv_pool L)) <? p_minbal P); [discriminate|].
  injection H as Hh Hl. subst hdr1 l0. split; [reflexivity|]. split; [reflexivity|].
  destruct (h_round h =? lv_round L + 1) eqn:H1; [|discriminate]. apply N.eqb_eq in H1.
  destruct (h_bonus h =? lv_nextbonus L) eqn:H2; [|discriminate]. apply N.eqb_eq in H2.
  cbn [negb] in Hb.
  destruct (negb (p_loadtracking P) && negb (h_load h =? 0)) eqn:H3; [discriminate|].
  destruct (negb (p_genhash P) && negb (h_genhash h =? 0)) eqn:H4; [discriminate|].
  destruct (h_rs h =? lv_nextrs L) eqn:H5; [|discriminate]. apply N.eqb_eq in H5.
  cbn [negb] in Hb.
  destruct (p_genhash P && negb (h_genhash h =? lv_genhash L)) eqn:H6; [discriminate|].
  repeat split; auto.
  - intro Hl. rewrite Hl in H3. cbn in H3. destruct (h_load h =? 0) eqn:E; [apply N.eqb_eq in E; assumption|discriminate].
  - destruct (p_genhash P); cbn in H4, H6.
    + destruct (h_genhash h =? lv_genhash L) eqn:E; [apply N.eqb_eq in E; assumption|discriminate].
    + destruct (h_genhash h =? 0) eqn:E; [apply N.eqb_eq in E; assumption|discriminate].
Qed.
