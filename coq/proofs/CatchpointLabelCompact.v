(* C14 proofs, part 1: stores, compaction of deltas, class ordering. *)
From Coq Require Import List NArith ZArith Bool Lia ZifyN ZifyNat ZifyBool.
From Verif.model Require Import MerkleTrie CatchpointLabel.
Import ListNotations.
Open Scope N_scope.

Lemma nodup_app {A} (l1 l2 : list A) :
  NoDup l1 -> NoDup l2 -> (forall x, In x l1 -> ~ In x l2) -> NoDup (l1 ++ l2).
Proof.
  induction l1 as [|a l1 IH]; intros H1 H2 D; cbn; [exact H2|].
  inversion H1; subst. constructor.
  - rewrite in_app_iff. intros [X|X]; [tauto|]. apply (D a); [left; reflexivity | exact X].
  - apply IH; auto. intros x Hx. apply D. right. exact Hx.
Qed.

Lemma nodup_map_filter {A B} (f : A -> B) (p : A -> bool) (l : list A) :
  NoDup (map f l) -> NoDup (map f (filter p l)).
Proof.
  induction l as [|a l IH]; cbn; intros Hn; [constructor|].
  inversion Hn; subst. destruct (p a); cbn; [constructor|]; auto.
  intros X. apply H1. apply in_map_iff in X. destruct X as (x & E & Hx).
  apply filter_In in Hx. apply in_map_iff. exists x. tauto.
Qed.

Section Compact.
  Variables K V : Type.
  Variable keq_dec : forall a b : K, {a = b} + {a <> b}.
  Variable kclass : K -> N.

  Notation store := (store K V).
  Notation upd := (upd keq_dec).
  Notation apply_mods := (apply_mods keq_dec).
  Notation cupsert := (cupsert keq_dec).
  Notation compact := (compact keq_dec).
  Notation kvlike := (kvlike kclass).

  Lemma upd_same (s : store) k v : upd s k v k = v.
  Proof. unfold CatchpointLabel.upd. destruct (keq_dec k k); congruence. Qed.

  Lemma upd_other (s : store) k v k' : k' <> k -> upd s k v k' = s k'.
  Proof. unfold CatchpointLabel.upd. destruct (keq_dec k' k); congruence. Qed.

  Lemma apply_mods_app ms1 ms2 (s : store) :
    apply_mods (ms1 ++ ms2) s = apply_mods ms2 (apply_mods ms1 s).
  Proof. unfold CatchpointLabel.apply_mods. apply fold_left_app. Qed.

  Lemma apply_mods_snoc ms m (s : store) :
    apply_mods (ms ++ [m]) s = upd (apply_mods ms s) (m_key m) (m_new m).
  Proof. rewrite apply_mods_app. reflexivity. Qed.

  (* ---------- cupsert ---------- *)
  Lemma cupsert_keys k o n (c : list (cdelta K V)) k' :
    In k' (map fst (cupsert k o n c)) <-> k' = k \/ In k' (map fst c).
  Proof.
    induction c as [|[k0 [o0 n0]] c IH]; cbn.
    - intuition.
    - destruct (keq_dec k k0) as [->|Hne]; cbn.
      + intuition.
      + rewrite IH. intuition.
  Qed.

  Lemma cupsert_nodup k o n (c : list (cdelta K V)) :
    NoDup (map fst c) -> NoDup (map fst (cupsert k o n c)).
  Proof.
    induction c as [|[k0 [o0 n0]] c IH]; cbn; intros Hn.
    - constructor; [intros [] | constructor].
    - inversion Hn; subst. destruct (keq_dec k k0) as [->|Hne]; cbn.
      + constructor; assumption.
      + constructor; [|auto]. rewrite cupsert_keys. intros [E|X]; [congruence | tauto].
  Qed.

  (* what an entry of the result is *)
  Lemma cupsert_in k o n (c : list (cdelta K V)) k' o' n' :
    NoDup (map fst c) -> In (k', (o', n')) (cupsert k o n c) ->
    (k' = k /\ n' = n /\ ((exists n0, In (k, (o', n0)) c) \/ (~ In k (map fst c) /\ o' = o)))
    \/ (k' <> k /\ In (k', (o', n')) c).
  Proof.
    induction c as [|[k0 [o0 n0]] c IH]; cbn; intros Hn Hin.
    - destruct Hin as [E|[]]. inversion E; subst. left. repeat split. right. split; [tauto | reflexivity].
    - inversion Hn; subst. destruct (keq_dec k k0) as [->|Hne]; cbn in Hin.
      + destruct Hin as [E|Hin].
        * inversion E; subst. left. repeat split. left. exists n0. left. reflexivity.
        * right. split; [|right; exact Hin]. intros ->. apply H1. apply in_map_iff.
          exists (k0, (o', n')). split; [reflexivity | exact Hin].
      + destruct Hin as [E|Hin].
        * inversion E; subst. right. split; [congruence | left; reflexivity].
        * destruct (IH H2 Hin) as [(-> & -> & [(nn & X)|(X & ->)])|(A & B)].
          -- left. repeat split. left. exists nn. right. exact X.
          -- left. repeat split. right. split; [|reflexivity]. intros [E|Y]; [congruence | tauto].
          -- right. split; [exact A | right; exact B].
  Qed.

  Lemma compact_snoc ms (m : kmod K V) :
    compact (ms ++ [m]) = cupsert (m_key m) (m_old m) (m_new m) (compact ms).
  Proof. unfold CatchpointLabel.compact. rewrite fold_left_app. reflexivity. Qed.

  (* ---------- what the compacted deltas of a span of modifications are ---------- *)
  (* [OldData] of every KV modification is the value just before it (roundCowState.kvPut/kvDel) *)
  Definition kv_old_wf (s0 : store) (ms : list (kmod K V)) : Prop :=
    forall pre m post, ms = pre ++ m :: post -> kvlike (m_key m) = true ->
      m_old m = apply_mods pre s0 (m_key m).

  Lemma kv_old_wf_prefix s0 ms m : kv_old_wf s0 (ms ++ [m]) -> kv_old_wf s0 ms.
  Proof.
    intros W pre m0 post E Hk. apply (W pre m0 (post ++ [m])); [|exact Hk].
    rewrite E, <- app_assoc. reflexivity.
  Qed.

  Lemma compact_char (s0 : store) : forall ms, kv_old_wf s0 ms ->
    NoDup (map fst (compact ms)) /\
    (forall k o n, In (k, (o, n)) (compact ms) ->
       n = apply_mods ms s0 k /\ (kvlike k = true -> o = s0 k)) /\
    (forall k, ~ In k (map fst (compact ms)) -> apply_mods ms s0 k = s0 k).
  Proof.
    induction ms as [|m ms IH] using rev_ind; intros W.
    - cbn. split; [constructor|]. split; [intros k o n []| reflexivity].
    - specialize (IH (kv_old_wf_prefix _ _ _ W)). destruct IH as (Hn & Hin & Hout).
      rewrite compact_snoc, apply_mods_snoc. split; [apply cupsert_nodup; exact Hn|]. split.
      + intros k o n X. apply cupsert_in in X; [|exact Hn].
        destruct X as [(-> & -> & [(n0 & X)|(X & ->)])|(A & B)].
        * rewrite upd_same. split; [reflexivity|]. apply (Hin _ _ _ X).
        * rewrite upd_same. split; [reflexivity|]. intros Hk.
          rewrite (W ms m [] eq_refl Hk). apply Hout. exact X.
        * rewrite upd_other by exact A. apply (Hin _ _ _ B).
      + intros k X. rewrite cupsert_keys in X.
        rewrite upd_other by tauto. apply Hout. tauto.
  Qed.

  (* ---------- the order accountsUpdateBalances walks the compacted deltas in ---------- *)
  Lemma by_class_in (c : list (cdelta K V)) d : In d (by_class kclass c) <-> In d c.
  Proof.
    unfold by_class. rewrite !in_app_iff, !filter_In. unfold CatchpointLabel.kvlike.
    destruct (kclass (fst d) =? 0), (kclass (fst d) =? 1); cbn; intuition congruence.
  Qed.

  Lemma by_class_nodup (c : list (cdelta K V)) :
    NoDup (map fst c) -> NoDup (map fst (by_class kclass c)).
  Proof.
    intros Hn. unfold by_class. rewrite !map_app.
    assert (D : forall (p q : cdelta K V -> bool),
               (forall d1 d2, fst d1 = fst d2 -> p d1 = true -> q d2 = true -> False) ->
               forall x, In x (map fst (filter p c)) -> ~ In x (map fst (filter q c))).
    { intros p q Hpq x X Y. apply in_map_iff in X, Y.
      destruct X as (d1 & E1 & X), Y as (d2 & E2 & Y). apply filter_In in X, Y.
      apply (Hpq d1 d2); [congruence | tauto | tauto]. }
    apply nodup_app; [apply nodup_map_filter; exact Hn | apply nodup_app; try (apply nodup_map_filter; exact Hn) |].
    - apply D. intros d1 d2 E A B. unfold CatchpointLabel.kvlike in B. rewrite <- E in B.
      rewrite A in B. rewrite orb_true_r in B. discriminate.
    - intros x X. rewrite in_app_iff. intros [Y|Y]; revert X Y; apply D.
      + intros d1 d2 E A B. rewrite E in A. apply N.eqb_eq in A, B. congruence.
      + intros d1 d2 E A B. unfold CatchpointLabel.kvlike in B. rewrite <- E, A in B. discriminate.
  Qed.

  (* the store after writing the new value of every compacted delta, in any order *)
  Definition write_all (c : list (cdelta K V)) (s : store) : store :=
    fold_left (fun s d => upd s (fst d) (snd (snd d))) c s.

  Lemma write_all_char : forall (c : list (cdelta K V)) (s : store), NoDup (map fst c) ->
    (forall k o n, In (k, (o, n)) c -> write_all c s k = n) /\
    (forall k, ~ In k (map fst c) -> write_all c s k = s k).
  Proof.
    induction c as [|[k0 [o0 n0]] c IH]; cbn; intros s Hn.
    - split; [intros k o n [] | reflexivity].
    - inversion Hn; subst. destruct (IH (upd s k0 n0) H2) as [A B]. split.
      + intros k o n [E|X].
        * inversion E; subst. unfold write_all in B. rewrite B by exact H1. apply upd_same.
        * apply (A k o n X).
      + intros k X. unfold write_all in B. rewrite B by tauto. apply upd_other. intros ->. tauto.
  Qed.
End Compact.
