(* C40/C41: the generated schema table (coq/gen/Schemas.v, re-generated from the running code on every
   run) satisfies the well-formedness premise of the general theorems; instances for the real table. *)
From Coq Require Import List NArith ZArith Bool Lia.
From Verif.model Require Import Msgpack.
From Verif.gen Require Import Schemas.
From Verif.proofs Require Import MsgpackPrim MsgpackProofs MsgpackDecProofs.
Import ListNotations.
Open Scope N_scope.

(* struct field names strictly increasing (canonical order, no duplicates), short printable names, every
   reference resolves: checked by computation on the table *)
Lemma real_env_ok : env_ok env = true.
Proof. vm_compute. reflexivity. Qed.

Lemma real_roots_resolve :
  forallb (fun id => match lookup env id with Some _ => true | None => false end) roots = true.
Proof. vm_compute. reflexivity. Qed.

Lemma real_max_depth : max_depth = 255%nat.
Proof. reflexivity. Qed.

(* every nested decoder call in the generated UnmarshalMsgWithState functions hands the caller's depth
   state on (list extracted from the msgp_gen.go sources by the translator) *)
Lemma real_depth_state_threaded : unthreaded_calls = [].
Proof. reflexivity. Qed.

(* msgp encoder / decoder of the real types *)
Theorem real_decode_encode : forall id v rest,
  wtb env false (SRef id) v = true -> (need (norm env false (SRef id) v) <= max_depth)%nat ->
  decode env false max_depth id (enc env false (SRef id) v ++ rest) = Ok (norm env false (SRef id) v, rest).
Proof. intros. apply (decode_encode env false real_env_ok); auto. Qed.

Theorem real_enc_inj : forall id v1 v2,
  wtb env false (SRef id) v1 = true -> wtb env false (SRef id) v2 = true ->
  enc env false (SRef id) v1 = enc env false (SRef id) v2 ->
  norm env false (SRef id) v1 = norm env false (SRef id) v2.
Proof.
  intros id v1 v2 H1 H2 He. apply (enc_inj env false real_env_ok (SRef id)); auto.
  destruct v1; try discriminate. cbn [wtb] in H1. cbn [schema_ok]. destruct (lookup env id); [reflexivity|discriminate].
Qed.

Theorem real_decode_bounds : forall id b v r,
  decode env false max_depth id b = Ok (v, r) ->
  bounds_okb env (SRef id) v = true /\ (need v <= 255)%nat.
Proof.
  intros id b v r H. split.
  - eapply decode_bounds; eauto.
  - eapply decode_depth; eauto.
Qed.
