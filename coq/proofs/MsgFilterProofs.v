(* C43: messageFilter -- for EVERY bucket geometry and EVERY sequence of CheckDigest calls:
   a digest that was inserted or promoted is reported present for at least
   (buckets-1)*bucketSize subsequent add-calls (so a duplicate is recognised), and a digest that
   was never added is never reported present. *)
From Coq Require Import NArith ZArith List Bool Lia ZifyN ZifyNat ZifyBool Arith.
From Verif.model Require Import MsgFilter.
Import ListNotations.

Section FilterProofs.
Context {D : Type} (deqb : D -> D -> bool).
Hypothesis deqb_spec : forall x y, reflect (x = y) (deqb x y).

Notation filt := (@filt D).
Notation mem := (mem deqb).
Notation set_add := (set_add deqb).
Notation set_del := (set_del deqb).
Notation find := (find deqb).
Notation find_from := (find_from deqb).
Notation check_digest := (check_digest deqb).
Notation run_ops := (run_ops deqb).
Notation present := (present deqb).

(* ------------------------------------------------------------------ sets as lists *)
Lemma mem_In d l : mem d l = true <-> In d l.
Proof.
  unfold MsgFilter.mem. rewrite existsb_exists. split.
  - intros (x & Hx & E). destruct (deqb_spec d x); [subst; assumption|discriminate].
  - intros H. exists d. split; [assumption|]. destruct (deqb_spec d d); congruence.
Qed.

Lemma mem_set_add x d l : mem x (set_add d l) = deqb x d || mem x l.
Proof.
  unfold MsgFilter.set_add. destruct (mem d l) eqn:E.
  - destruct (deqb_spec x d); [subst; rewrite E; reflexivity|reflexivity].
  - cbn [MsgFilter.mem existsb]. reflexivity.
Qed.

Lemma length_set_add d l :
  (length l <= length (set_add d l) <= length l + 1)%nat.
Proof. unfold MsgFilter.set_add. destruct (mem d l); cbn [length]; lia. Qed.

Lemma mem_set_del x d l : mem x (set_del d l) = mem x l && negb (deqb d x).
Proof.
  unfold MsgFilter.set_del, MsgFilter.mem. induction l as [|y l IH]; cbn [filter existsb]; [reflexivity|].
  destruct (deqb_spec d y) as [E|E]; cbn [negb].
  - subst y. rewrite IH. destruct (deqb_spec x d) as [E2|E2].
    + subst x. destruct (deqb_spec d d); [|congruence]. cbn. rewrite andb_false_r. reflexivity.
    + cbn [orb]. reflexivity.
  - cbn [existsb]. rewrite IH. destruct (deqb_spec x y) as [E2|E2]; cbn [orb]; [|reflexivity].
    subst y. destruct (deqb_spec d x); [congruence|]. reflexivity.
Qed.

(* ------------------------------------------------------------------ list update *)
Lemma length_upd {A} i (g : A -> A) l : length (upd i g l) = length l.
Proof. revert i; induction l; intros [|i]; cbn [upd length]; auto. Qed.

Lemma nth_upd {A} i (g : A -> A) l j dflt :
  nth j (upd i g l) dflt =
  if (Nat.eqb j i && Nat.ltb i (length l))%bool then g (nth i l dflt) else nth j l dflt.
Proof.
  revert i j; induction l as [|x l IH]; intros i j.
  - cbn [upd length]. rewrite andb_false_r. destruct i; reflexivity.
  - destruct i as [|i], j as [|j]; cbn [upd nth length]; try reflexivity.
    rewrite IH. cbn [Nat.eqb]. replace (Nat.ltb (S i) (S (length l))) with (Nat.ltb i (length l)); [reflexivity|].
    unfold Nat.ltb. reflexivity.
Qed.

(* ------------------------------------------------------------------ find *)
Lemma find_from_some f d k idx :
  find_from f d k = Some idx ->
  mem d (bucket f idx) = true /\ exists i, (1 <= i <= k)%nat /\ idx = Nat.modulo (top f + i) (nb f).
Proof.
  induction k as [|k IH]; cbn [MsgFilter.find_from]; [discriminate|].
  destruct (mem d (bucket f (Nat.modulo (top f + S k) (nb f)))) eqn:E.
  - intros H; inversion H; subst. split; [exact E|]. exists (S k). split; [lia|reflexivity].
  - intros H. destruct (IH H) as (Hm & i & Hi & Hidx). split; [exact Hm|]. exists i. split; [lia|exact Hidx].
Qed.

Lemma find_from_none f d k :
  find_from f d k = None ->
  forall i, (1 <= i <= k)%nat -> mem d (bucket f (Nat.modulo (top f + i) (nb f))) = false.
Proof.
  induction k as [|k IH]; cbn [MsgFilter.find_from]; intros H i Hi; [lia|].
  destruct (mem d (bucket f (Nat.modulo (top f + S k) (nb f)))) eqn:E; [discriminate|].
  destruct (Nat.eq_dec i (S k)); [subst; exact E|]. apply IH; [exact H|lia].
Qed.

Lemma find_some f d idx :
  (1 <= nb f)%nat -> find f d = Some idx -> (idx < nb f)%nat /\ mem d (bucket f idx) = true.
Proof.
  intros Hn H. destruct (find_from_some _ _ _ _ H) as (Hm & i & _ & Hidx).
  split; [|exact Hm]. subst idx. apply Nat.mod_upper_bound. lia.
Qed.

Lemma find_none f d :
  (top f < nb f)%nat -> find f d = None -> forall j, (j < nb f)%nat -> mem d (bucket f j) = false.
Proof.
  intros Ht H j Hj. pose proof (find_from_none _ _ _ H) as Hall.
  destruct (le_lt_dec (top f) j) as [Hle|Hlt].
  - destruct (Nat.eq_dec j (top f)) as [E|E].
    + specialize (Hall (nb f)). rewrite <- E in Hall.
      replace (Nat.modulo (j + nb f) (nb f)) with j in Hall; [apply Hall; lia|].
      replace (j + nb f)%nat with (j + 1 * nb f)%nat by lia.
      rewrite Nat.mod_add by lia. symmetry. apply Nat.mod_small. lia.
    + specialize (Hall (j - top f)%nat).
      replace (top f + (j - top f))%nat with j in Hall by lia.
      rewrite Nat.mod_small in Hall by lia. apply Hall. lia.
  - specialize (Hall (j + nb f - top f)%nat).
    replace (top f + (j + nb f - top f))%nat with (j + 1 * nb f)%nat in Hall by lia.
    rewrite Nat.mod_add in Hall by lia. rewrite Nat.mod_small in Hall by lia. apply Hall. lia.
Qed.

(* ------------------------------------------------------------------ well-formedness, age, life *)
Definition toplen (f : filt) : Z := Z.of_nat (length (bucket f (top f))).

(* between calls: the top bucket is never full *)
Definition wf (f : filt) : Prop :=
  (1 <= nb f)%nat /\ (top f < nb f)%nat /\ (1 <= maxsz f)%Z /\ (toplen f < maxsz f)%Z.
(* inside a call, before the capacity check *)
Definition wf1 (f : filt) : Prop :=
  (1 <= nb f)%nat /\ (top f < nb f)%nat /\ (1 <= maxsz f)%Z /\ (toplen f <= maxsz f)%Z.

(* number of rotations since bucket i was the top bucket *)
Definition age (f : filt) (i : nat) : nat :=
  if (top f <=? i)%nat then (i - top f)%nat else (i + nb f - top f)%nat.

(* d survives at least L more entries into the top bucket *)
Definition life_ge (f : filt) (d : D) (L : Z) : Prop :=
  (L <= 0)%Z \/
  exists i, (i < nb f)%nat /\ mem d (bucket f i) = true /\
            (L <= (maxsz f - toplen f) + (Z.of_nat (nb f) - 1 - Z.of_nat (age f i)) * maxsz f)%Z.

Lemma life_ge_weaken f d L L' : (L' <= L)%Z -> life_ge f d L -> life_ge f d L'.
Proof.
  intros H [H0|(i & Hi & Hm & HL)]; [left; lia|right]. exists i. repeat split; auto. lia.
Qed.

Lemma life_present f d L : wf f -> life_ge f d L -> (1 <= L)%Z -> present f d = true.
Proof.
  intros (Hn & Ht & _) [H0|(i & Hi & Hm & _)] HL; [lia|].
  unfold MsgFilter.present, MsgFilter.check_digest. cbn [negb snd].
  destruct (find f d) eqn:E; [reflexivity|].
  rewrite (find_none f d Ht E i Hi) in Hm. discriminate.
Qed.

Lemma rotate_top (f : filt) : (1 <= nb f)%nat -> (top f < nb f)%nat ->
  Nat.modulo (top f + nb f - 1) (nb f) = if Nat.eqb (top f) 0 then (nb f - 1)%nat else (top f - 1)%nat.
Proof.
  intros Hn Ht. destruct (Nat.eqb_spec (top f) 0) as [E|E].
  - rewrite E. apply Nat.mod_small. lia.
  - replace (top f + nb f - 1)%nat with ((top f - 1) + 1 * nb f)%nat by lia.
    rewrite Nat.mod_add by lia. apply Nat.mod_small. lia.
Qed.

(* the capacity check / rotation at the end of CheckDigest preserves remaining life *)
Lemma rotate_life f d L :
  wf1 f -> life_ge f d L ->
  let f' := if (maxsz f <=? toplen f)%Z then rotate f else f in
  wf f' /\ life_ge f' d L /\ nb f' = nb f /\ maxsz f' = maxsz f.
Proof.
  intros (Hn & Ht & Hm & Hl) Hlife. cbn zeta.
  destruct (Z.leb_spec (maxsz f) (toplen f)) as [Hfull|Hfree].
  2:{ split; [repeat split; auto; lia|]. auto. }
  assert (Hlen : toplen f = maxsz f) by lia.
  unfold rotate. rewrite (rotate_top f Hn Ht).
  set (t' := if Nat.eqb (top f) 0 then (nb f - 1)%nat else (top f - 1)%nat).
  assert (Ht' : (t' < nb f)%nat) by (unfold t'; destruct (Nat.eqb_spec (top f) 0); lia).
  set (f' := mkF (upd t' (fun _ => []) (buckets f)) (maxsz f) t').
  assert (Hnb : nb f' = nb f) by (unfold nb, f'; cbn [buckets]; apply length_upd).
  assert (Hb : forall j, bucket f' j = if Nat.eqb j t' then [] else bucket f j).
  { intros j. unfold bucket, f'. cbn [buckets]. rewrite nth_upd.
    fold (nb f). destruct (Nat.eqb j t'); cbn [andb]; [|reflexivity].
    destruct (Nat.ltb_spec t' (nb f)); [reflexivity|lia]. }
  assert (Htl : toplen f' = 0%Z).
  { unfold toplen. rewrite Hb. cbn [top f']. rewrite Nat.eqb_refl. reflexivity. }
  split; [|split; [|split; [exact Hnb|reflexivity]]].
  - unfold wf. rewrite Hnb, Htl. cbn [top maxsz f']. repeat split; auto; lia.
  - destruct Hlife as [H0|(i & Hi & Hmem & HL)]; [left; exact H0|].
    destruct (Z_le_gt_dec L 0) as [HL0|HL0]; [left; exact HL0|right].
    assert (Hage_nonneg : (0 <= Z.of_nat (age f i))%Z) by lia.
    assert (Hage : (age f i < nb f - 1)%nat).
    { destruct (le_lt_dec (nb f - 1) (age f i)) as [Hc|Hc]; [|exact Hc]. exfalso.
      assert ((Z.of_nat (nb f) - 1 - Z.of_nat (age f i)) * maxsz f <= 0)%Z; [|lia].
      apply Z.mul_nonpos_nonneg; lia. }
    assert (Hit : i <> t').
    { unfold age, t' in *. destruct (Nat.leb_spec (top f) i), (Nat.eqb_spec (top f) 0); lia. }
    exists i. rewrite Hnb, Hb, Htl. cbn [maxsz f'].
    destruct (Nat.eqb_spec i t') as [E|_]; [contradiction|].
    split; [exact Hi|]. split; [exact Hmem|].
    assert (Hage' : age f' i = S (age f i)).
    { unfold age in *. rewrite Hnb. cbn [top f']. unfold t' in *.
      destruct (Nat.leb_spec (top f) i), (Nat.eqb_spec (top f) 0);
        destruct (Nat.leb_spec (nb f - 1) i); destruct (Nat.leb_spec (top f - 1) i); lia. }
    rewrite Hage'. rewrite Hlen in HL. lia.
Qed.

(* buckets after inserting e into the top bucket, possibly after deleting it from bucket idx *)
Lemma bucket_upd_top (f : filt) g j :
  (top f < nb f)%nat ->
  bucket (with_buckets f (upd (top f) g (buckets f))) j =
  if Nat.eqb j (top f) then g (bucket f (top f)) else bucket f j.
Proof.
  intros Ht. unfold bucket, with_buckets. cbn [buckets]. rewrite nth_upd. fold (nb f).
  destruct (Nat.eqb j (top f)); cbn [andb]; [|reflexivity].
  destruct (Nat.ltb_spec (top f) (nb f)); [reflexivity|lia].
Qed.

Definition mutate (f : filt) (e : D) (promote : bool) : filt :=
  match find f e with
  | None => with_buckets f (upd (top f) (set_add e) (buckets f))
  | Some idx =>
      if promote && negb (Nat.eqb (top f) idx)
      then with_buckets f (upd (top f) (set_add e) (upd idx (set_del e) (buckets f)))
      else f
  end.

Lemma check_digest_add f e promote :
  check_digest f e true promote =
  (let f1 := mutate f e promote in
   if (maxsz f1 <=? toplen f1)%Z then rotate f1 else f1,
   match find f e with Some _ => true | None => false end).
Proof. unfold MsgFilter.check_digest, mutate, toplen. cbn [negb]. reflexivity. Qed.

(* shape of the buckets after the mutation step *)
Lemma mutate_shape f e promote :
  wf f ->
  let f1 := mutate f e promote in
  nb f1 = nb f /\ top f1 = top f /\ maxsz f1 = maxsz f /\
  (toplen f <= toplen f1 <= toplen f + 1)%Z /\
  (forall x j, x <> e -> mem x (bucket f1 j) = mem x (bucket f j)) /\
  (forall j, mem e (bucket f j) = true -> exists j', (j' < nb f)%nat /\ mem e (bucket f1 j') = true /\
                                                 (j' = top f \/ j' = j /\ f1 = f)) /\
  (forall j, mem e (bucket f1 j) = true -> j = top f \/ mem e (bucket f j) = true) /\
  (find f e = None \/ promote = true -> mem e (bucket f1 (top f)) = true).
Proof.
  intros (Hn & Ht & Hm & Hl). cbn zeta. unfold mutate.
  destruct (find f e) as [idx|] eqn:Ef.
  - destruct (find_some f e idx Hn Ef) as (Hidx & Hmem).
    destruct (promote && negb (Nat.eqb (top f) idx)) eqn:Ep.
    + assert (Hne : top f <> idx).
      { destruct (Nat.eqb_spec (top f) idx); [rewrite andb_false_r in Ep; discriminate|assumption]. }
      set (bs1 := upd idx (set_del e) (buckets f)).
      set (fm := with_buckets f bs1).
      assert (Hnbm : nb fm = nb f) by (unfold nb, fm, with_buckets, bs1; cbn [buckets]; apply length_upd).
      assert (Hbm : forall j, bucket fm j = if Nat.eqb j idx then set_del e (bucket f idx) else bucket f j).
      { intros j. unfold bucket, fm, with_buckets, bs1. cbn [buckets]. rewrite nth_upd. fold (nb f).
        destruct (Nat.eqb j idx); cbn [andb]; [|reflexivity].
        destruct (Nat.ltb_spec idx (nb f)); [reflexivity|lia]. }
      assert (Htm : (top fm < nb fm)%nat) by (rewrite Hnbm; exact Ht).
      pose proof (bucket_upd_top fm (set_add e)) as Hb2. specialize (fun j => Hb2 j Htm).
      change (with_buckets fm (upd (top fm) (set_add e) (buckets fm)))
        with (with_buckets f (upd (top f) (set_add e) bs1)) in Hb2.
      change (top fm) with (top f) in Hb2.
      set (f1 := with_buckets f (upd (top f) (set_add e) bs1)) in *.
      assert (Hnb1 : nb f1 = nb f).
      { unfold nb, f1, with_buckets. cbn [buckets]. rewrite length_upd. exact Hnbm. }
      assert (Htop_same : bucket fm (top f) = bucket f (top f)).
      { rewrite Hbm. destruct (Nat.eqb_spec (top f) idx); [contradiction|reflexivity]. }
      split; [exact Hnb1|]. split; [reflexivity|]. split; [reflexivity|].
      split.
      { unfold toplen. change (top f1) with (top f). rewrite Hb2, Nat.eqb_refl, Htop_same.
        pose proof (length_set_add e (bucket f (top f))). lia. }
      split.
      { intros x j Hx. rewrite Hb2. destruct (Nat.eqb_spec j (top f)) as [E|E].
        - subst j. rewrite mem_set_add, Htop_same. destruct (deqb_spec x e); [contradiction|reflexivity].
        - rewrite Hbm. destruct (Nat.eqb_spec j idx); [|reflexivity]. subst j.
          rewrite mem_set_del. destruct (deqb_spec e x); [congruence|]. apply andb_true_r. }
      split.
      { intros j _. exists (top f). split; [exact Ht|]. split; [|left; reflexivity].
        rewrite Hb2, Nat.eqb_refl, mem_set_add. destruct (deqb_spec e e); [reflexivity|congruence]. }
      split.
      { intros j. rewrite Hb2. destruct (Nat.eqb_spec j (top f)) as [E|E]; [left; exact E|].
        rewrite Hbm. destruct (Nat.eqb_spec j idx); [|right; assumption]. subst j.
        rewrite mem_set_del. destruct (deqb_spec e e); [|congruence]. rewrite andb_false_r. discriminate. }
      { intros _. rewrite Hb2, Nat.eqb_refl, mem_set_add. destruct (deqb_spec e e); [reflexivity|congruence]. }
    + split; [reflexivity|]. split; [reflexivity|]. split; [reflexivity|]. split; [lia|].
      split; [reflexivity|]. split.
      * intros j Hj. destruct (le_lt_dec (nb f) j) as [Hout|Hin].
        -- unfold bucket in Hj. rewrite nth_overflow in Hj by (fold (nb f); lia). discriminate.
        -- exists j. split; [exact Hin|]. split; [exact Hj|]. right. split; reflexivity.
      * split; [intros j Hj; right; exact Hj|].
        intros [Hc|Hc]; [discriminate|]. subst promote. cbn [andb] in Ep.
        destruct (Nat.eqb_spec (top f) idx) as [E|E]; [subst idx; exact Hmem|discriminate].
  - pose proof (bucket_upd_top f (set_add e)) as Hb. specialize (fun j => Hb j Ht).
    set (f1 := with_buckets f (upd (top f) (set_add e) (buckets f))) in *.
    assert (Hnb1 : nb f1 = nb f) by (unfold nb, f1, with_buckets; cbn [buckets]; apply length_upd).
    split; [exact Hnb1|]. split; [reflexivity|]. split; [reflexivity|].
    split.
    { unfold toplen. change (top f1) with (top f). rewrite Hb, Nat.eqb_refl.
      pose proof (length_set_add e (bucket f (top f))). lia. }
    split.
    { intros x j Hx. rewrite Hb. destruct (Nat.eqb_spec j (top f)) as [E|E]; [|reflexivity].
      subst j. rewrite mem_set_add. destruct (deqb_spec x e); [contradiction|reflexivity]. }
    split.
    { intros j _. exists (top f). split; [exact Ht|]. split; [|left; reflexivity].
      rewrite Hb, Nat.eqb_refl, mem_set_add. destruct (deqb_spec e e); [reflexivity|congruence]. }
    split.
    { intros j. rewrite Hb. destruct (Nat.eqb_spec j (top f)) as [E|E]; [left; exact E|right; assumption]. }
    { intros _. rewrite Hb, Nat.eqb_refl, mem_set_add. destruct (deqb_spec e e); [reflexivity|congruence]. }
Qed.

Lemma age_top (f : filt) : age f (top f) = 0%nat.
Proof. unfold age. rewrite Nat.leb_refl. lia. Qed.

(* one add-call costs any digest at most one unit of life *)
Lemma mutate_life f d e promote L :
  wf f -> life_ge f d L ->
  wf1 (mutate f e promote) /\ life_ge (mutate f e promote) d (L - 1).
Proof.
  intros Hwf Hlife. pose proof Hwf as (Hn & Ht & Hm & Hl).
  destruct (mutate_shape f e promote Hwf) as (Hnb & Htop & Hmx & Hlen & Hoth & Hsame & _ & _).
  set (f1 := mutate f e promote) in *.
  split. { unfold wf1. rewrite Hnb, Htop, Hmx. repeat split; auto; lia. }
  destruct Hlife as [H0|(i & Hi & Hmem & HL)]; [left; lia|right].
  assert (Hage1 : forall j, age f1 j = age f j) by (intros j; unfold age; rewrite Hnb, Htop; reflexivity).
  destruct (deqb_spec d e) as [E|E].
  - subst e. destruct (Hsame i Hmem) as (j' & Hj' & Hm' & [Hjt|(Hji & Hff)]).
    + exists j'. rewrite Hnb, Hmx, Hage1. split; [exact Hj'|]. split; [exact Hm'|].
      subst j'. rewrite age_top.
      assert (0 <= Z.of_nat (age f i) * maxsz f)%Z by (apply Z.mul_nonneg_nonneg; lia). lia.
    + exists i. rewrite Hff. split; [exact Hi|]. split; [exact Hmem|]. lia.
  - exists i. rewrite Hnb, Hmx, Hage1, (Hoth d i E). split; [exact Hi|]. split; [exact Hmem|]. lia.
Qed.

(* an inserted or promoted digest gets the full retention window *)
Lemma mutate_fresh f e promote :
  wf f ->
  (find f e = None \/ promote = true) ->
  life_ge (mutate f e promote) e ((Z.of_nat (nb f) - 1) * maxsz f).
Proof.
  intros Hwf Hcase. pose proof Hwf as (Hn & Ht & Hm & Hl).
  destruct (mutate_shape f e promote Hwf) as (Hnb & Htop & Hmx & Hlen & _ & _ & _ & Hfresh).
  right.
  assert (Hage1 : forall j, age (mutate f e promote) j = age f j)
    by (intros j; unfold age; rewrite Hnb, Htop; reflexivity).
  exists (top f). rewrite Hnb, Hmx, Hage1, age_top. split; [exact Ht|]. split; [exact (Hfresh Hcase)|]. lia.
Qed.


(* ------------------------------------------------------------------ one call, many calls *)
Lemma has_is_present f e a p : snd (check_digest f e a p) = present f e.
Proof.
  unfold MsgFilter.present, MsgFilter.check_digest. cbn [negb snd].
  destruct a; cbn [negb]; [|reflexivity].
  destruct (find f e); reflexivity.
Qed.

Lemma step_life f d e a p L :
  wf f -> life_ge f d L ->
  let f' := fst (check_digest f e a p) in
  wf f' /\ life_ge f' d (if a then L - 1 else L)%Z /\ nb f' = nb f /\ maxsz f' = maxsz f.
Proof.
  intros Hwf Hl. cbn zeta. destruct a.
  - rewrite check_digest_add. cbn [fst].
    destruct (mutate_life f d e p L Hwf Hl) as (Hw1 & Hl1).
    destruct (mutate_shape f e p Hwf) as (Hnb & _ & Hmx & _).
    destruct (rotate_life _ d _ Hw1 Hl1) as (Hw2 & Hl2 & Hnb2 & Hmx2). cbn zeta in *.
    split; [exact Hw2|]. split; [exact Hl2|]. split; congruence.
  - unfold MsgFilter.check_digest. cbn [negb fst]. auto.
Qed.

Lemma step_fresh f e p :
  wf f -> (find f e = None \/ p = true) ->
  life_ge (fst (check_digest f e true p)) e ((Z.of_nat (nb f) - 1) * maxsz f).
Proof.
  intros Hwf Hc. rewrite check_digest_add. cbn [fst].
  assert (H0 : life_ge f e 0) by (left; lia).
  destruct (mutate_life f e e p 0 Hwf H0) as (Hw1 & _).
  pose proof (mutate_fresh f e p Hwf Hc) as Hl1.
  destruct (rotate_life _ e _ Hw1 Hl1) as (_ & Hl2 & _). exact Hl2.
Qed.

Definition is_add (o : op (D:=D)) : bool := match o with Op _ a _ => a end.
Definition count_adds (ops : list (op (D:=D))) : nat := length (filter is_add ops).

Lemma run_life ops : forall f d L,
  wf f -> life_ge f d L ->
  let f' := fst (run_ops f ops) in
  wf f' /\ life_ge f' d (L - Z.of_nat (count_adds ops)) /\ nb f' = nb f /\ maxsz f' = maxsz f.
Proof.
  induction ops as [|[e a p] ops IH]; intros f d L Hwf Hl; cbn zeta.
  - cbn [MsgFilter.run_ops fst count_adds filter length].
    split; [exact Hwf|]. split; [|split; reflexivity].
    eapply life_ge_weaken; [|exact Hl]. lia.
  - cbn [MsgFilter.run_ops].
    destruct (step_life f d e a p L Hwf Hl) as (Hw1 & Hl1 & Hn1 & Hm1). cbn zeta in *.
    destruct (check_digest f e a p) as [f1 h] eqn:E1. cbn [fst] in *.
    destruct (IH f1 d _ Hw1 Hl1) as (Hw2 & Hl2 & Hn2 & Hm2). cbn zeta in *.
    destruct (run_ops f1 ops) as [f2 hs]. cbn [fst] in *.
    split; [exact Hw2|]. split; [|split; congruence].
    eapply life_ge_weaken; [|exact Hl2].
    unfold count_adds. cbn [filter is_add]. destruct a; cbn [length]; lia.
Qed.

(* retention: after d was inserted or promoted, every query of d answers "present" as long as
   fewer than (buckets-1)*bucketSize add-calls (of any digests, by any peers) intervened *)
Lemma filter_dedup_lemma f d p ops :
  wf f -> (find f d = None \/ p = true) ->
  (Z.of_nat (count_adds ops) < (Z.of_nat (nb f) - 1) * maxsz f)%Z ->
  present (fst (run_ops (fst (check_digest f d true p)) ops)) d = true.
Proof.
  intros Hwf Hc Hlt.
  assert (H0 : life_ge f d 0) by (left; lia).
  destruct (step_life f d d true p 0 Hwf H0) as (Hw1 & _ & Hn1 & Hm1). cbn zeta in *.
  pose proof (step_fresh f d p Hwf Hc) as Hl1.
  destruct (run_life ops _ d _ Hw1 Hl1) as (Hw2 & Hl2 & _). cbn zeta in *.
  eapply life_present; [exact Hw2|exact Hl2|]. lia.
Qed.

Lemma make_filter_wf n mx f :
  make_filter n mx = Some f -> (1 <= mx)%Z -> wf f /\ nb f = n /\ maxsz f = mx.
Proof.
  unfold make_filter. destruct n as [|n]; [discriminate|]. intros H; inversion H; subst; clear H.
  intros Hm. unfold wf, nb, toplen, bucket. cbn [buckets top maxsz].
  cbn [nth length]. rewrite repeat_length. repeat split; lia.
Qed.

(* ------------------------------------------------------------------ no false positives *)
Definition absentl (bs : list (list D)) (d : D) : Prop := forall j, mem d (nth j bs []) = false.
Definition absent (f : filt) (d : D) : Prop := absentl (buckets f) d.

Lemma absentl_upd bs d i g :
  absentl bs d -> (forall l, mem d l = false -> mem d (g l) = false) -> absentl (upd i g bs) d.
Proof.
  intros H Hg j. rewrite nth_upd. destruct (_ && _); [apply Hg|]; apply H.
Qed.

Lemma absent_not_present f d : absent f d -> present f d = false.
Proof.
  intros H. unfold MsgFilter.present, MsgFilter.check_digest. cbn [negb snd].
  destruct (find f d) as [idx|] eqn:E; [|reflexivity].
  destruct (find_from_some _ _ _ _ E) as (Hm & _). unfold bucket in Hm. rewrite (H idx) in Hm. discriminate.
Qed.

Lemma step_absent f d e a p :
  absent f d -> (e <> d \/ a = false) -> absent (fst (check_digest f e a p)) d.
Proof.
  intros H Hc. unfold MsgFilter.check_digest. destruct a; cbn [negb fst]; [|exact H].
  destruct Hc as [Hne|Hc]; [|discriminate].
  assert (Hadd : forall l, mem d l = false -> mem d (set_add e l) = false).
  { intros l Hl. rewrite mem_set_add, Hl. destruct (deqb_spec d e); [congruence|reflexivity]. }
  assert (Hdel : forall l, mem d l = false -> mem d (set_del e l) = false).
  { intros l Hl. rewrite mem_set_del, Hl. reflexivity. }
  cbv zeta. cbn [fst].
  match goal with |- absent (if _ then rotate ?x else ?x) d => set (f1 := x) end.
  assert (H1 : absent f1 d).
  { unfold f1. destruct (find f e) as [idx|].
    - destruct (p && negb (Nat.eqb (top f) idx)); [|exact H].
      unfold absent, with_buckets. cbn [buckets]. apply absentl_upd; [|exact Hadd].
      apply absentl_upd; [exact H|exact Hdel].
    - unfold absent, with_buckets. cbn [buckets]. apply absentl_upd; [exact H|exact Hadd]. }
  destruct (maxsz f1 <=? Z.of_nat (length (bucket f1 (top f1))))%Z; [|exact H1].
  unfold rotate, absent. cbn [buckets]. apply absentl_upd; [exact H1|]. intros; reflexivity.
Qed.

Definition op_digest (o : op (D:=D)) : D := match o with Op d _ _ => d end.

(* a digest that no call adds is never reported present, whatever else happens *)
Lemma filter_nfp_lemma ops : forall f d,
  absent f d -> (forall p, ~ In (Op d true p) ops) ->
  absent (fst (run_ops f ops)) d /\
  Forall2 (fun o h => op_digest o = d -> h = false) ops (snd (run_ops f ops)).
Proof.
  induction ops as [|[e a p] ops IH]; intros f d Habs Hno; cbn [MsgFilter.run_ops].
  - cbn [fst snd]. split; [exact Habs|constructor].
  - assert (Hc : e <> d \/ a = false).
    { destruct a; [left|right; reflexivity]. intros ->. apply (Hno p). left. reflexivity. }
    pose proof (step_absent f d e a p Habs Hc) as H1.
    pose proof (has_is_present f e a p) as Hh.
    destruct (check_digest f e a p) as [f1 h]. cbn [fst snd] in *.
    assert (Hno' : forall p', ~ In (Op d true p') ops) by (intros p' Hin; apply (Hno p'); right; exact Hin).
    destruct (IH f1 d H1 Hno') as (H2 & H3).
    destruct (run_ops f1 ops) as [f2 hs]. cbn [fst snd] in *.
    split; [exact H2|]. constructor; [|exact H3].
    cbn [op_digest]. intros ->. rewrite Hh. apply absent_not_present. exact Habs.
Qed.

Lemma nth_repeat_nil n : forall j, nth j (repeat (@nil D) n) [] = [].
Proof. induction n as [|n IH]; intros [|j]; cbn [repeat nth]; auto. Qed.

Lemma make_filter_absent n mx f d : make_filter n mx = Some f -> absent f d.
Proof.
  unfold make_filter. destruct n as [|n]; [discriminate|]. intros H; inversion H; subst; clear H.
  unfold absent, absentl. cbn [buckets]. intros j.
  change ([] :: repeat [] n) with (repeat (@nil D) (S n)). rewrite nth_repeat_nil. reflexivity.
Qed.

End FilterProofs.
