(* C22 proofs, part 4: the statements of props/C22.v, for every history of transactions. *)
From Coq Require Import NArith PeanoNat List Bool Lia ZifyN ZifyNat ZifyBool.
From Verif.model Require Import Overflow AssocList AssetOps AssetOpsSpec.
From Verif.proofs Require Import OverflowProofs AssocListProofs AssetOpsProofs AssetOpsInv AssetOpsRules.
Import ListNotations.
Open Scope N_scope.

Lemma step_ok_inv maxassets w o w' v :
  step maxassets w o = (w', Ok v) ->
  exists w1, apply_op maxassets o w = (w1, Ok v) /\ w' = bump w1.
Proof.
  unfold step. destruct (apply_op maxassets o w) as [w1 [v1|e]]; intros H; inversion H; subst. eauto.
Qed.

Lemma step_xfer_rel maxassets w s a amt r asnd ct w' v :
  Inv w -> amt < 2 ^ 64 ->
  step maxassets w (OXfer s a amt r asnd ct) = (w', Ok v) ->
  exists w1, xfer_rel s a amt r asnd ct w w1 v /\ w' = bump w1.
Proof.
  intros I Hwf H. apply step_ok_inv in H. destruct H as (w1 & H & ->). exists w1. split; auto.
  cbn [apply_op] in H. apply assetTransfer_ok in H; auto. apply Inv_hb. exact I.
Qed.

Section Reach.
  Variables (maxassets c : N) (ops : list op).
  Hypothesis Hwf : Forall op_wf ops.
  Let w := run maxassets (winit c) ops.

  Lemma reach_inv : Inv w.
  Proof. apply Inv_reachable. exact Hwf. Qed.

  Theorem supply_invariant : forall a,
    (forall p, params_of w a = Some p -> supply w a = p_total p) /\
    (creator_of w a = None -> supply w a = 0).
  Proof. apply supply_invariant_inv. exact reach_inv. Qed.

  Theorem holdings_bounded : forall x a,
    match params_of w a with
    | Some p => amount_of w x a <= p_total p
    | None => amount_of w x a = 0
    end.
  Proof. apply holdings_bounded_inv. exact reach_inv. Qed.

  Theorem creatable_consistent : forall a x,
    creator_of w a = Some x <-> exists p, aget pair_eqb (x, a) (w_par w) = Some p.
  Proof. apply creatable_consistent_inv. exact reach_inv. Qed.

  Theorem transfer_amounts : forall s a amt r asnd ct w' v,
    amt < 2 ^ 64 ->
    step maxassets w (OXfer s a amt r asnd ct) = (w', Ok v) ->
    let source := if asnd =? 0 then s else asnd in
    amt <= amount_of w source a /\
    v = xfer_closing (amt_at w) source a amt r ct /\
    forall x a', amount_of w' x a' = xfer_amounts (amt_at w) source a amt r ct (x, a').
  Proof.
    intros s a amt r asnd ct w' v Ha H.
    destruct (step_xfer_rel _ _ _ _ _ _ _ _ _ _ reach_inv Ha H) as (w1 & X & ->).
    destruct (xfer_amounts_ok _ _ _ _ _ _ _ _ _ reach_inv X) as (A & B & C).
    split; [exact A|]. split; [exact B|]. intros x a'. apply C.
  Qed.

  (* a transfer moving another account's holding was issued by the asset's clawback address *)
  Theorem clawback_authorised : forall s a amt r asnd ct w' v,
    amt < 2 ^ 64 ->
    step maxassets w (OXfer s a amt r asnd ct) = (w', Ok v) -> asnd <> 0 ->
    exists p, params_of w a = Some p /\ p_clawback p = s /\ s <> 0 /\ ct = 0.
  Proof.
    intros s a amt r asnd ct w' v Ha H Hn.
    destruct (step_xfer_rel _ _ _ _ _ _ _ _ _ _ reach_inv Ha H) as (w1 & X & ->).
    destruct X as [source claw w1' w2 w3 Hsrc Hop Htk Hpi Hcl].
    destruct Hsrc as [(E & _)|(_ & _ & -> & p & cr & Hc & Hp & Hcl' & Hs)]; [contradiction|].
    exists p. unfold params_of. rewrite Hc. repeat split; auto.
    destruct Hcl as [(E & _)|(_ & E & _)]; [exact E|discriminate].
  Qed.

  Theorem frozen_blocks_transfer : forall s a amt r asnd ct w' v x a' h,
    amt < 2 ^ 64 ->
    step maxassets w (OXfer s a amt r asnd ct) = (w', Ok v) ->
    holding_of w x a' = Some h -> h_frozen h = true ->
    amount_of w' x a' <> h_amt h ->
    (* clawback by the asset's clawback address *)
    (asnd <> 0 /\ a' = a /\ exists p, params_of w a = Some p /\ p_clawback p = s /\ s <> 0) \/
    (* the recorded exception: close-out to the asset's creator *)
    (asnd = 0 /\ ct <> 0 /\ creator_of w a = Some ct /\ a' = a /\ (x = s \/ x = ct)).
  Proof.
    intros s a amt r asnd ct w' v x a' h Ha H Eh Hf Hne.
    destruct (N.eq_dec asnd 0) as [E0|E0].
    - right. subst asnd.
      destruct (step_xfer_rel _ _ _ _ _ _ _ _ _ _ reach_inv Ha H) as (w1 & X & ->).
      destruct (frozen_close_to_creator _ _ _ _ _ _ _ _ reach_inv X x a' h Eh Hf Hne) as (A & B & C & D).
      repeat split; auto.
    - left. split; [exact E0|].
      destruct (clawback_authorised _ _ _ _ _ _ _ _ Ha H E0) as (p & Hp & Hc & Hs & _).
      split; [|eauto].
      destruct (step_xfer_rel _ _ _ _ _ _ _ _ _ _ reach_inv Ha H) as (w1 & X & ->).
      destruct (xfer_amounts_ok _ _ _ _ _ _ _ _ _ reach_inv X) as (_ & _ & C).
      destruct (N.eq_dec a' a) as [Ea|Ea]; auto. exfalso. apply Hne.
      change (amount_of (bump w1) x a') with (amt_in (w_hold w1) (x, a')). rewrite C.
      assert (forall y, pair_eqb (x, a') (y, a) = false) as Hk.
      { intros y. apply pair_eqb_false. intros [= _ E]. contradiction. }
      unfold xfer_amounts, pupd. unfold holding_of in Eh.
      destruct (ct =? 0); cbn beta; rewrite !Hk; unfold amt_in; rewrite Eh; reflexivity.
  Qed.

  Theorem both_opted_in : forall s a amt r asnd ct w' v,
    amt < 2 ^ 64 ->
    step maxassets w (OXfer s a amt r asnd ct) = (w', Ok v) ->
    let source := if asnd =? 0 then s else asnd in
    (amt <> 0 -> holding_of w source a <> None /\ holding_of w r a <> None) /\
    (ct <> 0 -> v <> 0 -> holding_of w ct a <> None).
  Proof.
    intros s a amt r asnd ct w' v Ha H.
    destruct (step_xfer_rel _ _ _ _ _ _ _ _ _ _ reach_inv Ha H) as (w1 & X & ->).
    exact (both_opted_in_rel _ _ _ _ _ _ _ _ _ X).
  Qed.

  Theorem close_out_rules : forall s a amt r asnd ct w' v,
    amt < 2 ^ 64 ->
    step maxassets w (OXfer s a amt r asnd ct) = (w', Ok v) -> ct <> 0 ->
    asnd = 0 /\ creator_of w a <> Some s /\ holding_of w' s a = None /\
    v = xfer_closing (amt_at w) s a amt r ct /\
    (* the close-to address receives the whole remainder *)
    (ct <> s -> amount_of w' ct a =
                amount_of w ct a + (if r =? ct then amt else 0) + v).
  Proof.
    intros s a amt r asnd ct w' v Ha H Hct.
    destruct (step_xfer_rel _ _ _ _ _ _ _ _ _ _ reach_inv Ha H) as (w1 & X & ->).
    destruct (close_out_rel _ _ _ _ _ _ _ _ _ reach_inv X Hct) as (A & B & C).
    subst asnd. destruct (xfer_amounts_ok _ _ _ _ _ _ _ _ _ reach_inv X) as (L & D & E).
    cbn [N.eqb] in D, E, L. repeat split; auto.
    intros Hne. change (amount_of (bump w1) ct a) with (amt_in (w_hold w1) (ct, a)). rewrite E, D.
    unfold xfer_closing, xfer_amounts. apply N.eqb_neq in Hct. rewrite Hct.
    assert (pair_eqb (ct, a) (s, a) = false) as K1.
    { apply pair_eqb_false. intros [= E1]. contradiction. }
    unfold pupd. rewrite pair_eqb_refl, K1. unfold pair_eqb. cbn [fst snd].
    rewrite !N.eqb_refl, !andb_true_r, (N.eqb_sym ct r).
    rewrite !amount_of_amt_in.
    destruct (r =? ct) eqn:E1; destruct (s =? r) eqn:E2; destruct (r =? s) eqn:E3;
      rewrite ?N.eqb_eq, ?N.eqb_neq in *; subst; try contradiction; try lia.
  Qed.

  Theorem destroy_requires_full_holding : forall s a cp w' v,
    a <> 0 -> params_is_zero cp = true ->
    step maxassets w (OConfig s a cp) = (w', Ok v) ->
    exists cr p, creator_of w a = Some cr /\ params_of w a = Some p /\
      p_manager p = s /\ s <> 0 /\
      amount_of w cr a = p_total p /\
      (forall x, x <> cr -> amount_of w x a = 0) /\
      creator_of w' a = None /\ params_of w' a = None.
  Proof.
    intros s a cp w' v Ha Hz H. apply step_ok_inv in H. destruct H as (w1 & H & ->).
    cbn [apply_op] in H. apply assetConfig_ok in H.
    destruct H as [[E _]|[(_ & _ & D & _)|(_ & E & _)]]; [contradiction| |congruence].
    exact (destroy_full_holding _ _ _ _ reach_inv D).
  Qed.

End Reach.

(* histories of transaction GROUPS (all-or-nothing) *)
Theorem supply_invariant_groups maxassets c gs : Forall (Forall op_wf) gs ->
  let w := grun maxassets (winit c) gs in
  forall a, (forall p, params_of w a = Some p -> supply w a = p_total p) /\
            (creator_of w a = None -> supply w a = 0).
Proof.
  intros F. apply supply_invariant_inv. apply Inv_grun; [apply Inv_winit|exact F].
Qed.

Lemma failing_group_changes_nothing maxassets w g w' e k :
  gstep maxassets w g = (w', Err e, k) -> w' = w.
Proof.
  unfold gstep. destruct (run_group maxassets w g 0) as [[w1 r] k1]. destruct r; intros H; inversion H; reflexivity.
Qed.

Lemma failing_op_changes_nothing maxassets w o w' e :
  step maxassets w o = (w', Err e) -> w' = w.
Proof.
  unfold step. destruct (apply_op maxassets o w) as [w1 [v|e1]]; intros H; inversion H; reflexivity.
Qed.

(* why the discard matters: the appliers write before they have finished checking *)
Definition pw_ops : list op :=
  [ OConfig 1 0 (mkP 10 false 1 0 0 0 0); OXfer 2 1 0 2 0 0 ].
Lemma partial_writes_break_supply :
  let w := run 0 w0 pw_ops in
  exists w' e, apply_op 0 (OXfer 1 1 4 3 0 0) w = (w', Err e) /\
    params_of w' 1 = Some (mkP 10 false 1 0 0 0 0) /\ supply w' 1 = 6.
Proof. vm_compute. eexists _, _. repeat split. Qed.

(* the frozen rule without the close-to-creator exception is false *)
Definition fr_ops : list op :=
  [ OConfig 1 0 (mkP 10 false 1 0 1 1 0);   (* account 1 creates asset 1; freeze/clawback = 1 *)
    OXfer 2 1 0 2 0 0;                      (* 2 opts in *)
    OXfer 1 1 4 2 0 0;                      (* 1 -> 2 : 4 *)
    OFreeze 1 1 2 true ].                   (* 2 is frozen *)
Lemma frozen_blocks_transfer_refuted :
  let w := run 0 w0 fr_ops in
  Forall op_wf fr_ops /\
  frozen_of w 2 1 = true /\ amount_of w 2 1 = 4 /\
  (* a plain transfer out of the frozen holding is refused ... *)
  snd (step 0 w (OXfer 2 1 1 1 0 0)) = Err E_FROZEN_SND /\
  (* ... but the frozen holder can move everything to the creator by closing out *)
  exists w', step 0 w (OXfer 2 1 0 2 0 1) = (w', Ok 4) /\
    amount_of w' 2 1 = 0 /\ amount_of w' 1 1 = 10.
Proof.
  cbn zeta. split; [repeat constructor; cbn; lia|].
  vm_compute. repeat split. eexists. repeat split.
Qed.
