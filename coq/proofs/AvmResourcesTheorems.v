(* C35 proofs, part 6: closed statements (for every address function, every group, every creation
   history, every probing call), the unnamed-reference count, witnesses. *)
From Coq Require Import List NArith Bool Lia ZifyN ZifyNat ZifyBool.
From Verif.lib Require Import Term.
From Verif.model Require Import AvmResources AvmResourcesSpec.
From Verif.proofs Require Import AvmResourcesFill AvmResourcesAvail AvmResourcesProofs AvmResourcesOracle AvmResourcesExact.
Import ListNotations.
Open Scope N_scope.

(* ---------------------------------------------------------------- the unnamed-access quota = number of empty
   references (AvmResourcesSpec.group_empty_refs) *)
Section Count.
Variable appaddr : N -> addr.

Lemma access_elem_unnamed : forall s ap r rr,
  unnamed (fill_access_elem s ap r rr) = unnamed r + (if rref_empty rr then 1 else 0).
Proof.
  intros. unfold fill_access_elem, rref_empty, is_nil.
  destruct rr as [a|a|a|ai si|ai pi|idx name|]; simpl;
    repeat match goal with
           | |- context [if ?c then _ else _] => destruct c eqn:?
           | |- context [match ?o with Some _ => _ | None => _ end] => destruct o eqn:?
           end; simpl; try lia; try discriminate.
Qed.

Lemma fold_access_unnamed : forall s ap l r,
  unnamed (fold_left (fill_access_elem s ap) l r) = unnamed r + N.of_nat (length (filter rref_empty l)).
Proof.
  induction l as [|rr l IH]; intro r; simpl. lia.
  rewrite IH, access_elem_unnamed. destruct (rref_empty rr); simpl; lia.
Qed.

Lemma box_elem_unnamed : forall ap r br,
  unnamed (fill_box_elem ap r br) = unnamed r + (if box_empty br then 1 else 0).
Proof.
  intros ap r [idx name]. unfold fill_box_elem, box_empty, is_nil. simpl.
  destruct ((idx =? 0) && match name with [] => true | _ => false end); simpl;
    destruct (0 <? idx); simpl; try destruct (nth1 (ap_fapps ap) idx); simpl; lia.
Qed.

Lemma fold_box_unnamed : forall ap l r,
  unnamed (fold_left (fill_box_elem ap) l r) = unnamed r + N.of_nat (length (filter box_empty l)).
Proof.
  induction l as [|br l IH]; intro r; simpl. lia.
  rewrite IH, box_elem_unnamed. destruct (box_empty br); simpl; lia.
Qed.

Lemma fill_unnamed : forall r t, unnamed (fill appaddr r t) = unnamed r + empty_refs t.
Proof.
  intros r t. destruct t as [s rcv cl|s|s id|s id rcv asnd cl|s id f|s ap|s]; simpl; try lia.
  - destruct (id =? 0); simpl; lia.
  - destruct (ap_access ap) as [l|] eqn:E.
    + unfold fill_access. rewrite fold_access_unnamed. unfold access_of. rewrite E.
      destruct (ap_id ap =? 0); simpl; lia.
    + unfold fill_foreign. rewrite fold_box_unnamed. simpl. lia.
Qed.

Lemma group_unnamed : forall g, unnamed (compute_availability appaddr g) = group_empty_refs g.
Proof.
  intro g. unfold compute_availability, group_empty_refs.
  assert (H : forall g r, unnamed (fold_left (fill appaddr) g r) = fold_left (fun acc t => acc + empty_refs t) g (unnamed r)).
  { induction g0 as [|t g0 IH]; intro r; simpl. reflexivity. rewrite IH, fill_unnamed. reflexivity. }
  apply (H g empty_res).
Qed.

Lemma av_unnamed : forall w, unnamed (av_of appaddr w) = group_empty_refs (w_group w).
Proof.
  intro w. unfold av_of, enter_contract, enter_create.
  assert (Hb : unnamed (add_cr_asas (w_created_asas w) (run_creates (w_creates w) (compute_availability appaddr (w_group w))))
               = group_empty_refs (w_group w)).
  { simpl. destruct (run_creates_fields (w_creates w) (compute_availability appaddr (w_group w))) as [_ [_ [_ [_ [_ [_ H]]]]]].
    simpl in H. rewrite H. apply group_unnamed. }
  destruct (ap_id (w_cur w) =? 0); simpl; exact Hb.
Qed.

End Count.

(* ---------------------------------------------------------------- closed theorems *)
Theorem access_sound_exact : forall appaddr w acc rs,
  w_policy w = None ->
  resolve appaddr (ctx_of appaddr w) acc = Ok rs ->
  forall r, In r rs -> justified appaddr w r \/ zero_via_access w r = true.
Proof. intros appaddr w acc rs Hp H r Hin. exact (resolve_sound_exact appaddr w Hp acc rs H r Hin). Qed.

Theorem access_sound : forall appaddr w acc rs,
  w_policy w = None ->
  resolve appaddr (ctx_of appaddr w) acc = Ok rs ->
  forall r, In r rs -> nonzero r -> justified appaddr w r.
Proof.
  intros appaddr w acc rs Hp H r Hin Hnz.
  destruct (access_sound_exact appaddr w acc rs Hp H r Hin) as [J|Z]. exact J.
  exfalso. exact (zero_via_access_zero appaddr w r Z Hnz).
Qed.

Theorem access_complete : forall appaddr w r,
  w_policy w = None ->
  begin_check (ctx_of appaddr w) = 0 ->
  justified appaddr w r -> low_ok w r -> app_nonzero r ->
  resolve appaddr (ctx_of appaddr w) (canonical_access r) = Ok [r].
Proof. intros appaddr w r Hp. exact (resolve_complete appaddr w Hp r). Qed.

Theorem lookup_respects_low : forall appaddr w acc rs r,
  w_policy w = None ->
  match acc with AAssetParams _ | AAppParams _ | AHold _ _ | ALoc _ _ => True | _ => False end ->
  resolve appaddr (ctx_of appaddr w) acc = Ok rs -> In r rs -> nonzero r -> low_ok w r.
Proof. intros appaddr w acc rs r Hp. exact (lookup_low appaddr w Hp acc rs r). Qed.

(* nothing that is not named is accessible unless a policy (simulation) is installed *)
Theorem unnamed_off_by_default : forall appaddr w r,
  w_policy w = None -> nonzero r -> ~ justified appaddr w r ->
  forall acc rs, resolve appaddr (ctx_of appaddr w) acc = Ok rs -> ~ In r rs.
Proof.
  intros appaddr w r Hp Hnz Hnj acc rs H Hin. apply Hnj. exact (access_sound appaddr w acc rs Hp H r Hin Hnz).
Qed.

(* pre-sharing programs are never run on tx.Access *)
Theorem presharing_rejects_access : forall appaddr w acc,
  w_version w < sharedResourcesVersion -> access_of (w_cur w) <> [] ->
  resolve appaddr (ctx_of appaddr w) acc = Err E_PRE.
Proof.
  intros appaddr w acc Hv Ha. unfold resolve, begin_check. cbn [cx_version cx_cur ctx_of].
  apply N.ltb_lt in Hv. rewrite Hv. destruct (access_of (w_cur w)). contradiction. reflexivity.
Qed.

(* boxes *)
Theorem boxes_initially_named : forall appaddr w app name,
  In (app, name) (bx_avail (av_of appaddr w)) <-> J_box w app name.
Proof. intros. apply av_boxes. Qed.

Definition box_key_of (cx : ctx) (op : bop) : N * bytes :=
  (if bo_app op =? 0 then cx_appid cx else bo_app op, bo_name op).

Theorem box_run_sound : forall appaddr w io dirty db exist ops st' es,
  w_policy w = None ->
  box_run (ctx_of appaddr w) io (mkBst (av_of appaddr w) dirty db exist) ops = (st', es) ->
  exists new,
    (forall app name, In (app, name) (bx_avail (bs_res st')) -> J_box w app name \/ In (app, name) new) /\
    NoDup new /\
    (forall k, In k new -> In (fst k) (created_apps w) /\ ~ J_box w (fst k) (snd k)) /\
    N.of_nat (length new) + unnamed (bs_res st') <= group_empty_refs (w_group w).
Proof.
  intros appaddr w io dirty db exist ops st' es Hp H.
  destruct (box_quota_bound appaddr (ctx_of appaddr w) Hp io ops _ st' es H) as [new [A1 [A2 [A3 [A4 A5]]]]].
  simpl in A1, A2, A3, A5. exists new. split; [|split; [exact A4|split]].
  - intros app name Hin. rewrite A1 in Hin. apply in_app_or in Hin. destruct Hin as [Hin|Hin]; auto.
    left. apply (av_boxes appaddr w app name). exact Hin.
  - intros [app name] Hk. destruct (A5 _ Hk) as [X Y]. simpl. split.
    + apply (av_cr_apps appaddr w app). exact Y.
    + intro G. apply X. apply (av_boxes appaddr w app name). exact G.
  - rewrite <- (av_unnamed appaddr w). exact A2.
Qed.

Theorem box_step_sound : forall appaddr w io dirty db exist op st',
  w_policy w = None ->
  box_step (ctx_of appaddr w) io (mkBst (av_of appaddr w) dirty db exist) op = (st', 0) ->
  let k := box_key_of (ctx_of appaddr w) op in
  J_box w (fst k) (snd k) \/
  (In (fst k) (created_apps w) /\ unnamed (bs_res st') + 1 = group_empty_refs (w_group w)).
Proof.
  intros appaddr w io dirty db exist op st' Hp H k.
  destruct (box_step_cases appaddr (ctx_of appaddr w) Hp io _ op st' 0 H) as [_ [[_ [_ B]]|[_ [B1 [_ B2]]]]]; simpl in *.
  - left. apply (av_boxes appaddr w). apply B. reflexivity.
  - right. split. apply (av_cr_apps appaddr w). exact B2. rewrite <- (av_unnamed appaddr w). exact B1.
Qed.

(* the oracle of the checker *)
Theorem oracle_sound : forall appaddr w l,
  forallb (justified_b appaddr w) l = true <-> forall r, In r l -> justified appaddr w r.
Proof.
  intros appaddr w l. rewrite forallb_forall. split; intros H r Hr.
  - apply justified_b_iff. apply H. exact Hr.
  - apply justified_b_iff. apply H. exact Hr.
Qed.

(* ---------------------------------------------------------------- witnesses *)
Definition ap_zero : appl := mkAppl 501 false [] [] [] [] (Some [RAsset 401]).
Definition w_zero : world := mkWorld 12 false [TAppl 1 ap_zero] [] [] 1 ap_zero 501 None.

(* unconditional soundness is FALSE of the faithful model (and of the code: replayed by the harness) *)
Theorem access_sound_refuted : exists w acc r,
  w_policy w = None /\ resolve appaddr_c (ctx_of appaddr_c w) acc = Ok [r] /\ ~ justified appaddr_c w r.
Proof.
  exists w_zero, (AAcct (ByAddr 0)), (ResAcct 0). split. reflexivity. split. vm_compute. reflexivity.
  intro J. apply justified_b_iff in J. vm_compute in J. discriminate J.
Qed.

Definition ap_plain : appl := mkAppl 501 false [] [] [] [] None.
Definition w_plain (p : option policy) : world := mkWorld 12 false [TAppl 1 ap_plain] [] [] 1 ap_plain 501 p.

Theorem unnamed_needs_policy :
  resolve appaddr_c (ctx_of appaddr_c (w_plain None)) (AAcct (ByAddr 5)) = Err E_ACCT /\
  resolve appaddr_c (ctx_of appaddr_c (w_plain (Some allow_all))) (AAcct (ByAddr 5)) = Ok [ResAcct 5] /\
  ~ justified appaddr_c (w_plain (Some allow_all)) (ResAcct 5).
Proof.
  split. vm_compute. reflexivity. split. vm_compute. reflexivity.
  intro J. apply justified_b_iff in J. vm_compute in J. discriminate J.
Qed.
