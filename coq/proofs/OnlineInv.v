(* C13 lemmas, part C2: the invariant tying the onlineAccounts tracker state to the block
   history, its preservation by newBlock / commit / reload / lookups, and what the lookups
   return under it. *)
From Coq Require Import Arith PeanoNat NArith List Bool Lia ZifyN ZifyNat ZifyBool.
From Verif.model Require Import Overflow OnlineAccts OnlineAcctsSpec.
From Verif.proofs Require Import OverflowProofs OnlineEntries OnlineTables OnlineSpecLemmas.
Import ListNotations.
Open Scope N_scope.

Section Inv.
Variable p : oparams.
Variable G : list (N * oacct).
Variable supply0 : N.

(* what the history table must show for address k at round r *)
Definition tgt_at (bs : list oblock) (r : N) (k : N) : bdata := tgt (acct_at G bs (N.to_nat r) k).

Definition block_ok (b : oblock) : Prop :=
  NoDup (keys (ob_mods b)) /\ ob_level b < W /\ ob_supply b < W.
Definition blocks_ok (bs : list oblock) : Prop := Forall block_ok bs.

(* accuracy of one address's rows / cached entries between rounds lo and hi *)
Definition rows_acc (bs : list oblock) (k : N) (es : list entry) (lo hi : N) : Prop :=
  forall r, lo <= r -> r <= hi -> view es r = tgt_at bs r k.
Definition cache_acc (bs : list oblock) (k : N) (es : list entry) (lo hi : N) : Prop :=
  forall r e, lo <= r -> r <= hi -> latest_le r es = Some e -> snd e = tgt_at bs r k.

Inductive Inv (bs : list oblock) (s : ostate) : Prop :=
| mkInv (dn hm H : nat)
    (i_db : o_db s = N.of_nat dn)
    (i_dn : (dn <= length bs)%nat)
    (i_deltas : o_deltas s = map ob_mods (skipn dn bs))
    (i_accts_nd : NoDup (keys (o_accts s)))
    (i_accts : forall k, aget k (o_accts s) = summ k (o_deltas s))
    (i_hm : (H <= hm)%nat /\ (hm <= dn)%nat)
    (i_params : o_params s = map (params_spec supply0 bs) (seq hm (Datatypes.S (length bs) - hm)))
    (i_dbparams : o_dbparams s = map (fun r => (N.of_nat r, params_spec supply0 bs r)) (seq H (Datatypes.S dn - H)))
    (i_rows_nd : NoDup (keys (o_rows s)))
    (i_rows : forall k, sorted_desc (tget k (o_rows s)) /\ wf_data (tget k (o_rows s)) /\
                        upd_le (tget k (o_rows s)) (o_db s) /\
                        rows_acc bs k (tget k (o_rows s)) (N.of_nat H) (o_db s))
    (i_cache_nd : NoDup (keys (o_cache s)))
    (i_cache : forall k, upd_le (tget k (o_cache s)) (o_db s) /\
                         cache_acc bs k (tget k (o_cache s)) (N.of_nat H) (o_db s)).

(* ---------- small facts ---------- *)
Lemma tgt_at_stable bs b r k : r <= N.of_nat (length bs) -> tgt_at (bs ++ [b]) r k = tgt_at bs r k.
Proof. intros Hr. unfold tgt_at. rewrite acct_at_app_stable by lia. reflexivity. Qed.

Lemma map_seq_stable bs b (f : list oblock -> nat -> rparams) lo n :
  (forall r, (r < lo + n)%nat -> f (bs ++ [b]) r = f bs r) ->
  map (f (bs ++ [b])) (seq lo n) = map (f bs) (seq lo n).
Proof.
  intros Hf. apply map_ext_in. intros r Hr. apply in_seq in Hr. apply Hf. lia.
Qed.

Lemma seq_snoc lo n : seq lo (Datatypes.S n) = seq lo n ++ [(lo + n)%nat].
Proof. rewrite seq_S. reflexivity. Qed.

(* ---------- newBlock ---------- *)
Lemma inv_new_block bs s b : Inv bs s -> block_ok b ->
  Inv (bs ++ [b]) (new_block s (ob_mods b) (ob_supply b) (ob_level b)).
Proof.
  intros [dn hm H Hdb Hdn Hdl Hand Hacc [HH Hhm] Hpar Hdbp Hrnd Hrows Hcnd Hcache] [Hbnd [Hblv _]].
  assert (Hlen : length (bs ++ [b]) = Datatypes.S (length bs)) by (rewrite app_length; cbn; lia).
  destruct (bump_accts_spec (ob_mods b) (o_accts s) Hbnd Hand) as [Hnd' Hget'].
  apply (mkInv _ _ dn hm H); cbn [new_block o_db o_deltas o_accts o_params o_rows o_dbparams o_cache].
  - exact Hdb.
  - lia.
  - rewrite Hdl. rewrite skipn_app. replace (dn - length bs)%nat with O by lia. cbn [skipn].
    rewrite map_app. reflexivity.
  - exact Hnd'.
  - intros k. rewrite Hget', summ_snoc, Hacc. reflexivity.
  - split; assumption.
  - rewrite Hpar, Hlen.
    replace (Datatypes.S (Datatypes.S (length bs)) - hm)%nat with (Datatypes.S (Datatypes.S (length bs) - hm)) by lia.
    rewrite seq_snoc, map_app. f_equal.
    + apply map_ext_in. intros r Hr. apply in_seq in Hr. symmetry. apply params_spec_app_stable. lia.
    + cbn [map]. replace (hm + (Datatypes.S (length bs) - hm))%nat with (Datatypes.S (length bs)) by lia.
      rewrite params_spec_last. reflexivity.
  - rewrite Hdbp. apply map_ext_in. intros r Hr. apply in_seq in Hr. f_equal. symmetry.
    apply params_spec_app_stable. lia.
  - exact Hrnd.
  - intros k. destruct (Hrows k) as (H1 & H2 & H3 & H4). repeat split; try assumption.
    intros r Hlo Hhi. rewrite tgt_at_stable by lia. apply H4; assumption.
  - exact Hcnd.
  - intros k. destruct (Hcache k) as (H1 & H2). split; [exact H1|].
    intros r e Hlo Hhi He. rewrite tgt_at_stable by lia. exact (H2 r e Hlo Hhi He).
Qed.

(* ---------- offsets under the invariant ---------- *)
Lemma inv_latest bs s : Inv bs s -> o_latest s = N.of_nat (length bs).
Proof.
  intros [dn hm H Hdb Hdn Hdl _ _ _ _ _ _ _ _ _]. unfold o_latest. rewrite Hdb, Hdl, map_length, skipn_length. lia.
Qed.

Lemma inv_params_at bs s : Inv bs s -> forall rnd,
  exists hm : nat, (hm <= length bs)%nat /\
  params_at s rnd = if (N.of_nat hm <=? rnd) && (rnd <=? N.of_nat (length bs))
                    then Some (params_spec supply0 bs (N.to_nat rnd)) else None.
Proof.
  intros Hinv rnd. pose proof (inv_latest _ _ Hinv) as Hlat.
  destruct Hinv as [dn hm H Hdb Hdn Hdl _ _ [HH Hhm] Hpar _ _ _ _ _].
  exists hm. split; [lia|].
  assert (Hplen : length (o_params s) = (Datatypes.S (length bs) - hm)%nat) by (rewrite Hpar, map_length, seq_length; reflexivity).
  assert (Hst : params_start s = N.of_nat hm) by (unfold params_start; rewrite Hlat, Hplen; lia).
  unfold params_at, params_offset. rewrite Hst, Hplen.
  destruct (N.ltb_spec rnd (N.of_nat hm)) as [Hlo|Hlo].
  { destruct (N.leb_spec (N.of_nat hm) rnd); [lia|reflexivity]. }
  destruct (N.leb_spec (N.of_nat hm) rnd); [|lia]. cbn [andb].
  destruct (Nat.leb_spec (Datatypes.S (length bs) - hm) (N.to_nat (rnd - N.of_nat hm))) as [Hhi|Hhi].
  { destruct (N.leb_spec rnd (N.of_nat (length bs))); [lia|reflexivity]. }
  destruct (N.leb_spec rnd (N.of_nat (length bs))); [|lia].
  rewrite Hpar. rewrite nth_error_map, nth_error_nth' with (d := O) by (rewrite seq_length; lia).
  rewrite seq_nth by lia. cbn [option_map]. f_equal. f_equal. lia.
Qed.

(* ---------- lookupOnlineAccountData ---------- *)
Lemma latest_le_beyond (es : list entry) d r : upd_le es d -> d <= r -> latest_le r es = latest_le d es.
Proof.
  intros Hu Hr. destruct es as [|e es]; [reflexivity|]. cbn [latest_le].
  assert (fst e <= d) by (apply Hu; left; reflexivity).
  destruct (N.leb_spec (fst e) r); [|lia]. destruct (N.leb_spec (fst e) d); [reflexivity|lia].
Qed.

Lemma sorted_strictly (es : list entry) : sorted_desc es -> strictly_desc es = true.
Proof.
  induction es as [|e es IH]; [reflexivity|]. intros [H1 H2]. cbn [strictly_desc].
  destruct es as [|f es']; [reflexivity|]. rewrite (IH H2), andb_true_r. apply N.ltb_lt. apply H1. left; reflexivity.
Qed.

Lemma supply_lt_W bs r : supply0 < W -> blocks_ok bs -> rp_supply (params_spec supply0 bs r) < W.
Proof.
  intros H0 Hok. destruct r as [|r]; [exact H0|]. cbn [params_spec].
  destruct (nth_error bs r) as [b|] eqn:E; [|reflexivity]. cbn [rp_supply].
  apply nth_error_In in E. unfold blocks_ok in Hok. rewrite Forall_forall in Hok. exact (proj2 (proj2 (Hok b E))).
Qed.

Lemma level_lt_W bs r : blocks_ok bs -> rp_level (params_spec supply0 bs r) < W.
Proof.
  intros Hok. destruct r as [|r]; [reflexivity|]. cbn [params_spec].
  destruct (nth_error bs r) as [b|] eqn:E; [|reflexivity]. cbn [rp_level].
  apply nth_error_In in E. unfold blocks_ok in Hok. rewrite Forall_forall in Hok. exact (proj1 (proj2 (Hok b E))).
Qed.

(* the account at rnd is the one at the DB round when no delta up to rnd touches it *)
Lemma acct_at_from_deltas bs s k (dn off : nat) :
  o_deltas s = map ob_mods (skipn dn bs) -> (off <= length (o_deltas s))%nat ->
  acct_at G bs (dn + off) k =
  match walk_back k (rev (firstn off (o_deltas s))) with
  | Some a => a
  | None => acct_at G bs dn k
  end.
Proof.
  intros Hdl Hoff. rewrite acct_at_add, <- Hdl. apply walk_back_fold.
Qed.

Lemma count_firstn_zero k ds n : count_in k ds = 0 -> count_in k (firstn n ds) = 0.
Proof.
  intros H. rewrite count_zero_none in *. intros d Hd. apply H.
  rewrite <- (firstn_skipn n ds). apply in_or_app. left; exact Hd.
Qed.

Lemma walk_back_none_count k ds : count_in k ds = 0 -> walk_back k (rev ds) = None.
Proof.
  intros H. rewrite count_zero_none in H.
  assert (G0 : forall l, (forall d, In d l -> aget k d = None) -> walk_back k l = None).
  { induction l as [|d l IH]; intros Hl; [reflexivity|]. cbn [walk_back].
    rewrite (Hl d (or_introl eq_refl)). apply IH. intros d' Hd'. apply Hl. right; exact Hd'. }
  apply G0. intros d Hd. apply H. apply in_rev. exact Hd.
Qed.

Theorem lookup_spec bs s rnd k s' res :
  Inv bs s -> op_unit p <> 0 -> blocks_ok bs ->
  lookup_online p s rnd k = (s', res) ->
  Inv bs s' /\
  res = match params_at s rnd with
        | None => RErr
        | Some rp => lift (oad_of_acct (op_unit p) (rp_level rp) (acct_at G bs (N.to_nat rnd) k))
        end.
Proof.
  intros Hinv Hunit Hok Hl.
  destruct (inv_params_at _ _ Hinv rnd) as (hm0 & _ & Hpa).
  pose proof (inv_latest _ _ Hinv) as Hlat.
  pose proof Hinv as Hinv0.
  destruct Hinv as [dn hm H Hdb Hdn Hdl Hand Hacc [HH Hhm] Hpar Hdbp Hrnd Hrows Hcnd Hcache].
  assert (Hdlen : length (o_deltas s) = (length bs - dn)%nat) by (rewrite Hdl, map_length, skipn_length; reflexivity).
  unfold lookup_online in Hl.
  (* servability *)
  assert (Hserv : forall rp, params_at s rnd = Some rp ->
            N.of_nat hm <= rnd /\ rnd <= N.of_nat (length bs) /\ rp = params_spec supply0 bs (N.to_nat rnd)).
  { intros rp Hrp. clear Hpa hm0.
    assert (Hplen : length (o_params s) = (Datatypes.S (length bs) - hm)%nat) by (rewrite Hpar, map_length, seq_length; reflexivity).
    assert (Hst : params_start s = N.of_nat hm) by (unfold params_start; rewrite Hlat, Hplen; lia).
    unfold params_at, params_offset in Hrp. rewrite Hst, Hplen in Hrp.
    destruct (N.ltb_spec rnd (N.of_nat hm)); [discriminate|].
    destruct (Nat.leb_spec (Datatypes.S (length bs) - hm) (N.to_nat (rnd - N.of_nat hm))); [discriminate|].
    split; [assumption|]. split; [lia|].
    rewrite Hpar, nth_error_map, nth_error_nth' with (d := O) in Hrp by (rewrite seq_length; lia).
    rewrite seq_nth in Hrp by lia. cbn [option_map] in Hrp. inversion Hrp. f_equal. lia. }
  destruct (params_at s rnd) as [rp|] eqn:Erp.
  2:{ destruct (round_offset s rnd); inversion Hl; subst s' res; split; try exact Hinv0; reflexivity. }
  destruct (Hserv rp eq_refl) as (Hlo & Hhi & ->).
  set (L := rp_level (params_spec supply0 bs (N.to_nat rnd))) in *.
  assert (HL : L < W) by (apply level_lt_W; exact Hok).
  (* the round of the DB state that answers when the deltas do not *)
  set (r0 := N.min rnd (o_db s)).
  assert (Hr0 : N.of_nat H <= r0 /\ r0 <= o_db s) by (unfold r0; lia).
  destruct (Hrows k) as (Hsort & Hwf & Hupd & Hracc).
  destruct (Hcache k) as (Hcupd & Hcacc).
  (* the part after the deltas, given that the account at rnd is the one at r0 *)
  assert (Hrest : forall st,
         acct_at G bs (N.to_nat rnd) k = acct_at G bs (N.to_nat r0) k ->
         match cache_read k rnd (o_cache s) with
         | Some e => (s, lift (oad_of_bdata (op_unit p) L (snd e)))
         | None =>
             match latest_le rnd (tget k (o_rows s)) with
             | None => (s, ROk oad0)
             | Some e =>
                 let hist := tget k (o_rows s) in
                 let c0 := tdel k (o_cache s) in
                 if Nat.leb (op_cachemax p) (length c0) then
                   (mkO (o_db s) (o_deltas s) (o_accts s) (o_params s) (o_rows s) (o_dbparams s) c0,
                    lift (oad_of_bdata (op_unit p) L (snd e)))
                 else if negb (strictly_desc hist) then
                   (mkO (o_db s) (o_deltas s) (o_accts s) (o_params s) (o_rows s) (o_dbparams s) c0, RErr)
                 else
                   (mkO (o_db s) (o_deltas s) (o_accts s) (o_params s) (o_rows s) (o_dbparams s) (tset k hist c0),
                    lift (oad_of_bdata (op_unit p) L (snd e)))
             end
         end = st ->
         Inv bs (fst st) /\ snd st = lift (oad_of_acct (op_unit p) L (acct_at G bs (N.to_nat rnd) k))).
  { intros st Hsame Hst.
    assert (Htg : tgt_at bs r0 k = tgt (acct_at G bs (N.to_nat rnd) k)) by (unfold tgt_at; rewrite Hsame; reflexivity).
    destruct (cache_read k rnd (o_cache s)) as [e|] eqn:Ecr.
    - subst st. cbn [fst snd]. split; [exact Hinv0|].
      unfold cache_read in Ecr. destruct (rev (tget k (o_cache s))) as [|o ro]; [discriminate|].
      destruct (rnd <? fst o); [discriminate|].
      assert (He : latest_le r0 (tget k (o_cache s)) = Some e).
      { unfold r0. destruct (N.le_ge_cases rnd (o_db s)) as [Hc|Hc].
        - rewrite N.min_l by exact Hc. exact Ecr.
        - rewrite N.min_r by exact Hc. rewrite <- (latest_le_beyond _ _ rnd Hcupd Hc). exact Ecr. }
      rewrite (Hcacc r0 e (proj1 Hr0) (proj2 Hr0) He), Htg. f_equal. apply oad_of_bdata_tgt; assumption.
    - assert (Hv : view (tget k (o_rows s)) rnd = tgt (acct_at G bs (N.to_nat rnd) k)).
      { rewrite <- Htg, <- (Hracc r0 (proj1 Hr0) (proj2 Hr0)). unfold r0.
        destruct (N.le_ge_cases rnd (o_db s)) as [Hc|Hc].
        - rewrite N.min_l by exact Hc. reflexivity.
        - rewrite N.min_r by exact Hc. apply view_beyond; assumption. }
      unfold view in Hv. destruct (latest_le rnd (tget k (o_rows s))) as [e|] eqn:Ell.
      + assert (Hres : lift (oad_of_bdata (op_unit p) L (snd e)) =
                       lift (oad_of_acct (op_unit p) L (acct_at G bs (N.to_nat rnd) k))).
        { rewrite Hv. f_equal. apply oad_of_bdata_tgt; assumption. }
        cbv zeta in Hst.
        (* any of the three cache outcomes keeps the invariant *)
        assert (Hinvc : forall c', NoDup (keys c') ->
                  (forall k', upd_le (tget k' c') (o_db s) /\ cache_acc bs k' (tget k' c') (N.of_nat H) (o_db s)) ->
                  Inv bs (mkO (o_db s) (o_deltas s) (o_accts s) (o_params s) (o_rows s) (o_dbparams s) c')).
        { intros c' Hnd' Hc'. apply (mkInv _ _ dn hm H); cbn [o_db o_deltas o_accts o_params o_rows o_dbparams o_cache]; try assumption.
          split; assumption. }
        assert (Hdel : forall k', upd_le (tget k' (tdel k (o_cache s))) (o_db s) /\ cache_acc bs k' (tget k' (tdel k (o_cache s))) (N.of_nat H) (o_db s)).
        { intros k'. destruct (N.eq_dec k' k) as [->|Hne].
          - rewrite tget_tdel_same by exact Hcnd. split; [intros ? []|intros ? ? _ _ Hc; discriminate].
          - rewrite tget_tdel_other by exact Hne. apply Hcache. }
        destruct (Nat.leb (op_cachemax p) (length (tdel k (o_cache s)))).
        * subst st. cbn [fst snd]. split; [|exact Hres]. apply Hinvc; [apply NoDup_tdel; exact Hcnd|exact Hdel].
        * rewrite (sorted_strictly _ Hsort) in Hst. cbn [negb] in Hst. subst st. cbn [fst snd]. split; [|exact Hres].
          apply Hinvc; [apply NoDup_tset; apply NoDup_tdel; exact Hcnd|].
          intros k'. destruct (N.eq_dec k' k) as [->|Hne].
          -- rewrite tget_tset_same. split; [exact Hupd|].
             intros r e' Hlo' Hhi' He'. rewrite <- (Hracc r Hlo' Hhi'). unfold view. rewrite He'. reflexivity.
          -- rewrite tget_tset_other by exact Hne. apply Hdel.
      + subst st. cbn [fst snd]. split; [exact Hinv0|].
        unfold oad_of_acct. unfold tgt in Hv. destruct (is_online (acct_at G bs (N.to_nat rnd) k)); cbn [negb]; [|reflexivity].
        rewrite <- Hv. rewrite oad_of_bdata_zero by assumption. reflexivity. }
  destruct (round_offset s rnd) as [off| |] eqn:Ero.
  3:{ exfalso. unfold round_offset in Ero. destruct (N.ltb_spec rnd (o_db s)); [discriminate|].
      destruct (Nat.ltb_spec (length (o_deltas s)) (N.to_nat (rnd - o_db s))); [|discriminate]. lia. }
  - (* the round is in the deltas *)
    unfold round_offset in Ero. destruct (N.ltb_spec rnd (o_db s)); [discriminate|].
    destruct (Nat.ltb_spec (length (o_deltas s)) (N.to_nat (rnd - o_db s))); [discriminate|].
    inversion Ero; subst off. clear Ero.
    set (off := N.to_nat (rnd - o_db s)) in *.
    assert (Ernd : N.to_nat rnd = (dn + off)%nat) by (unfold off; lia).
    pose proof (acct_at_from_deltas bs s k dn off Hdl ltac:(lia)) as Hfd. rewrite <- Ernd in Hfd.
    assert (Er0 : N.to_nat r0 = dn) by (unfold r0; lia).
    destruct (aget k (o_accts s)) as [[a c]|] eqn:Ea.
    + rewrite Hacc in Ea. unfold summ in Ea. destruct (N.eqb_spec (count_in k (o_deltas s)) 0) as [|Hcnt]; [discriminate|].
      inversion Ea; subst a c. clear Ea.
      destruct (Nat.eqb_spec off (length (o_deltas s))) as [Eoff|Noff].
      * (* the latest round: the accounts map *)
        inversion Hl; subst s' res. split; [exact Hinv0|]. f_equal. f_equal.
        rewrite Ernd, acct_at_add, <- Hdl, Eoff, firstn_all.
        apply fold_acct_touched. exact Hcnt.
      * destruct (walk_back k (rev (firstn off (o_deltas s)))) as [a|] eqn:Ew.
        -- inversion Hl; subst s' res. split; [exact Hinv0|]. rewrite Hfd. reflexivity.
        -- destruct (Hrest (s', res)) as [Hi Hr]; [rewrite Er0; exact Hfd|exact Hl|].
           cbn [fst snd] in *. split; assumption.
    + rewrite Hacc in Ea. unfold summ in Ea. destruct (N.eqb_spec (count_in k (o_deltas s)) 0) as [Hcnt|]; [|discriminate].
      rewrite (walk_back_none_count k _ (count_firstn_zero k _ off Hcnt)) in Hfd.
      destruct (Hrest (s', res)) as [Hi Hr]; [rewrite Er0; exact Hfd|exact Hl|].
      cbn [fst snd] in *. split; assumption.
  - (* the round is in history: only cache / DB *)
    unfold round_offset in Ero. destruct (N.ltb_spec rnd (o_db s)) as [Hlt|]; [|destruct (Nat.ltb _ _); discriminate].
    destruct (Hrest (s', res)) as [Hi Hr]; [unfold r0; rewrite N.min_l by lia; reflexivity|exact Hl|].
    cbn [fst snd] in *. split; assumption.
Qed.

End Inv.
