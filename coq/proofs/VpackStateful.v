(* C42: the stateful layer.  Decompress is a left inverse of Compress on EVERY input that
   Compress accepts, from every well-formed table state, and both ends compute the same
   successor state (lockstep). *)
From Coq Require Import NArith List Bool String Ascii Lia ZifyN ZifyNat ZifyBool Arith.
From Verif.lib Require Import Term.
From Verif.model Require Import Vpack VpackSpec.
From Verif.proofs Require Import VpackBase.
Import ListNotations.
Open Scope N_scope.

(* ------------------------------------------------------------------ LRU tables ---- *)

Lemma pos_land_le : forall p q, (Pos.land p q <= Npos q)%N.
Proof.
  induction p as [p IH|p IH|]; destruct q as [q|q|]; simpl; try lia;
    specialize (IH q); destruct (Pos.land p q); simpl in *; lia.
Qed.

Lemma land_le_r : forall a b, N.land a b <= b.
Proof. intros [|p] [|q]; simpl; try lia. apply pos_land_le. Qed.

Definition wf_lru (t : lru) : Prop :=
  1 <= nb t /\ nb t <= 32768 /\ List.length (bks t) = N.to_nat (nb t).

Lemma list_upd_length : forall {A} (f : A -> A) l i, List.length (list_upd i f l) = List.length l.
Proof. induction l as [|x l IH]; intros [|i]; simpl; auto. Qed.

Lemma wf_upd_bk : forall t b f, wf_lru t -> wf_lru (upd_bk t b f).
Proof. unfold wf_lru, upd_bk. intros t b f (H1 & H2 & H3). simpl. rewrite list_upd_length. auto. Qed.

Lemma wf_set_mru : forall t b s, wf_lru t -> wf_lru (set_mru t b s).
Proof. intros. apply wf_upd_bk. assumption. Qed.

Lemma wf_lru_insert : forall t k h, wf_lru t -> wf_lru (lru_insert t k h).
Proof. intros t k h H. unfold lru_insert. destruct (mru1 _); apply wf_upd_bk; assumption. Qed.

Lemma bucket_of_lt : forall t h, wf_lru t -> bucket_of t h < nb t.
Proof.
  intros t h (H1 & _). unfold bucket_of. pose proof (land_le_r h (nb t - 1)). lia.
Qed.

Lemma wf_lru_lookup : forall t k h id t', wf_lru t -> lru_lookup t k h = Some (id, t') -> wf_lru t'.
Proof.
  unfold lru_lookup. intros t k h id t' W H.
  destruct (bytes_eqb _ k); [inversion H; subst; apply wf_set_mru; assumption|].
  destruct (bytes_eqb _ k); [inversion H; subst; apply wf_set_mru; assumption | discriminate].
Qed.

(* the reference an encoder emits names, in a decoder holding the same table, exactly the key
   that was looked up, and both ends mark the same slot most-recently-used *)
Lemma lru_ref_valid : forall t k h id t',
  wf_lru t -> lru_lookup t k h = Some (id, t') -> lru_fetch t id = Some (k, t') /\ id < 65536.
Proof.
  unfold lru_lookup, lru_fetch. intros t k h id t' W H.
  pose proof (bucket_of_lt t h W) as Hb. destruct W as (W1 & W2 & W3).
  remember (bucket_of t h) as b eqn:Eb. clear Eb.
  destruct (bytes_eqb (s0 (get_bk t b)) k) eqn:E0.
  - assert (Hid : id = (2 * b) mod 65536 /\ t' = set_mru t b false) by (split; congruence).
    destruct Hid as [-> ->]. clear H. apply bytes_eqb_eq in E0.
    rewrite N.mod_small by lia.
    rewrite <- N.div2_spec, N.div2_double, N.testbit_even_0.
    replace (nb t <=? b) with false by (symmetry; apply N.leb_gt; lia).
    rewrite E0. split; [reflexivity | lia].
  - destruct (bytes_eqb (s1 (get_bk t b)) k) eqn:E1; [|discriminate].
    assert (Hid : id = (2 * b + 1) mod 65536 /\ t' = set_mru t b true) by (split; congruence).
    destruct Hid as [-> ->]. clear H. apply bytes_eqb_eq in E1.
    rewrite N.mod_small by lia.
    replace (N.shiftr (2 * b + 1) 1) with b
      by (rewrite N.shiftr_div_pow2; change (2 ^ 1) with 2; apply (N.div_unique _ 2 b 1); lia).
    rewrite N.testbit_odd_0.
    replace (nb t <=? b) with false by (symmetry; apply N.leb_gt; lia).
    rewrite E1. split; [reflexivity | lia].
Qed.

Lemma ref_id_bytes : forall id, ref_id (ref_bytes id) = id.
Proof.
  intro id. unfold ref_id, ref_bytes. simpl nth.
  rewrite N.mul_comm. symmetry. apply N.div_mod. lia.
Qed.

(* one LRU-coded field (snd, p+p1s, p2+p2s), both ends *)
Lemma ref_lockstep : forall hash klen t k isref piece t' rest,
  wf_lru t -> List.length k = klen ->
  enc_ref hash t k = (isref, piece, t') ->
  dec_ref hash klen t isref (piece ++ rest) = Some (k, t', rest) /\ wf_lru t'.
Proof.
  unfold enc_ref, dec_ref. intros hash klen t k isref piece t' rest W Hlen H.
  destruct (lru_lookup t k (hash k)) as [[id t1]|] eqn:E.
  - inversion H; subst isref piece t'; clear H.
    pose proof (wf_lru_lookup _ _ _ _ _ W E) as W'.
    apply lru_ref_valid in E as [E _]; [|assumption].
    change (ref_bytes id ++ rest) with ((ref_bytes id) ++ rest).
    rewrite (take_n_app' 2 (ref_bytes id) rest) by reflexivity.
    cbn [bind]. rewrite ref_id_bytes, E. cbn [bind]. auto.
  - inversion H; subst isref piece t'; clear H.
    rewrite (take_n_app' klen k rest) by assumption. cbn [bind].
    split; [reflexivity | apply wf_lru_insert; assumption].
Qed.

(* a reference beyond the table is rejected (never read out of bounds) *)
Lemma lru_fetch_in_bounds : forall t id k t',
  lru_fetch t id = Some (k, t') -> N.shiftr id 1 < nb t.
Proof.
  unfold lru_fetch. intros t id k t' H.
  destruct (nb t <=? N.shiftr id 1) eqn:E; [discriminate|]. apply N.leb_gt in E. exact E.
Qed.

(* ------------------------------------------------------------ proposal window ---- *)

Lemma pentry_eqb_eq : forall a b, pentry_eqb a b = true -> a = b.
Proof.
  unfold pentry_eqb. intros [a1 a2 a3 a4 a5 a6] [b1 b2 b3 b4 b5 b6] H. simpl in H.
  repeat (apply andb_true_iff in H as [H ?]).
  repeat match goal with
         | X : bytes_eqb _ _ = true |- _ => apply bytes_eqb_eq in X
         | X : (_ =? _) = true |- _ => apply N.eqb_eq in X
         end.
  subst. reflexivity.
Qed.

Lemma win_lookup_from_spec : forall fuel w pv i idx,
  win_lookup_from fuel w pv i = idx -> idx <> 0 ->
  exists j, i <= j /\ j < w_size w /\ idx = w_size w - j /\ win_get w ((w_head w + j) mod 7) = pv.
Proof.
  induction fuel as [|fuel IH]; intros w pv i idx H Hnz; simpl in H; [congruence|].
  destruct (w_size w <=? i) eqn:E1; [congruence|]. apply N.leb_gt in E1.
  destruct (pentry_eqb (win_get w ((w_head w + i) mod 7)) pv) eqn:E2.
  - apply pentry_eqb_eq in E2. exists i. repeat split; auto; lia.
  - destruct (IH w pv (i + 1) idx H Hnz) as (j & J1 & J2 & J3 & J4).
    exists j. repeat split; auto; lia.
Qed.

(* an index emitted by the encoder's lookup names the same entry in a decoder with the same window *)
Lemma win_ref_valid : forall w pv idx,
  win_lookup w pv = idx -> idx <> 0 -> win_byref w idx = Some pv /\ idx <= w_size w.
Proof.
  intros w pv idx H Hnz. unfold win_lookup in H.
  destruct (win_lookup_from_spec _ _ _ _ _ H Hnz) as (j & J1 & J2 & J3 & J4).
  unfold win_byref.
  replace (idx <? 1) with false by (symmetry; apply N.ltb_ge; lia).
  replace (w_size w <? idx) with false by (symmetry; apply N.ltb_ge; lia).
  simpl. replace (w_head w + w_size w - idx) with (w_head w + j) by lia.
  rewrite J4. split; [reflexivity | lia].
Qed.

Lemma win_byref_in_bounds : forall w idx p, win_byref w idx = Some p -> 1 <= idx /\ idx <= w_size w.
Proof.
  unfold win_byref. intros w idx p H.
  destruct (idx <? 1) eqn:E1; [discriminate|]. destruct (w_size w <? idx) eqn:E2; [discriminate|].
  apply N.ltb_ge in E1, E2. lia.
Qed.

Definition wf_win (w : pwin) : Prop := w_size w <= 7.

Lemma wf_win_insert : forall w pv, wf_win w -> wf_win (win_insert w pv).
Proof.
  unfold wf_win, win_insert. intros w pv H.
  destruct (w_size w =? 7) eqn:E; simpl; [assumption|]. apply N.eqb_neq in E. lia.
Qed.

(* --------------------------------------------------------------- round deltas ---- *)

Lemma varuint_value_cases : forall d v, is_varuint d = true -> varuint_value d = Some v ->
  (exists b, d = [b] /\ b < 128 /\ v = b) \/
  (exists m r k, d = m :: r /\ List.length r = k /\ v = be_val 0 r /\
     ((m = 204 /\ k = 1%nat) \/ (m = 205 /\ k = 2%nat) \/ (m = 206 /\ k = 4%nat) \/ (m = 207 /\ k = 8%nat))).
Proof.
  intros d v Hv Hval.
  apply is_varuint_cons in Hv as (b & r & k & -> & Hk & Hlen).
  apply varuint_more_cases in Hk.
  destruct Hk as [[-> Hk]|[[-> Hk]|[[-> Hk]|[[-> Hk]|[Hlt Hk]]]]]; subst k.
  1-4: right; destruct r as [|x r]; [simpl in Hlen; discriminate|];
       unfold varuint_value in Hval; rewrite Hlen in Hval; inversion Hval; subst v;
       eexists _, (x :: r), _; repeat split; try reflexivity; try exact Hlen; auto 6.
  left. destruct r; [|simpl in Hlen; discriminate]. simpl in Hval. injection Hval as <-.
  exists b. auto.
Qed.

Lemma varuint_value_bound : forall d v,
  is_varuint d = true -> bytes_ok d -> varuint_value d = Some v -> v < 18446744073709551616.
Proof.
  intros d v Hv Hok Hval.
  destruct (varuint_value_cases d v Hv Hval) as [(b & -> & Hb & ->)|(m & r & k & -> & Hlen & -> & Hk)]; [lia|].
  assert (Hr : bytes_ok r) by (inversion Hok; assumption).
  pose proof (be_val0_bound r Hr) as B. rewrite Hlen in B.
  destruct Hk as [[_ ->]|[[_ ->]|[[_ ->]|[_ ->]]]];
    (eapply N.lt_le_trans; [exact B|]; vm_compute; discriminate).
Qed.

(* the length test of the fix decides canonicity: an accepted uint encoding whose length is
   that of the shortest form IS what msgp.AppendUint64 produces for its value *)
Lemma canonical_by_length : forall d v,
  is_varuint d = true -> bytes_ok d -> varuint_value d = Some v ->
  List.length d = varuint_size v -> append_uint64 v = d.
Proof.
  intros d v Hv Hok Hval Hlen.
  unfold varuint_size in Hlen. unfold append_uint64.
  destruct (varuint_value_cases d v Hv Hval) as [(b & -> & Hb & ->)|(m & r & k & -> & Hr & -> & Hk)].
  - replace (b <=? 127) with true by (symmetry; apply N.leb_le; lia). reflexivity.
  - assert (Hokr : bytes_ok r) by (inversion Hok; assumption).
    pose proof (be_bytes_val r Hokr) as Hbb. rewrite Hr in Hbb.
    simpl List.length in Hlen. rewrite Hr in Hlen.
    destruct Hk as [[-> ->]|[[-> ->]|[[-> ->]|[-> ->]]]];
      destruct (be_val 0 r <=? 127); try (exfalso; lia);
      destruct (be_val 0 r <=? 255); try (exfalso; lia);
      destruct (be_val 0 r <=? 65535); try (exfalso; lia);
      destruct (be_val 0 r <=? 4294967295); try (exfalso; lia);
      rewrite Hbb; reflexivity.
Qed.

Lemma w64_small : forall x, x < 18446744073709551616 -> w64 x = x.
Proof. intros. unfold w64. apply N.mod_small. assumption. Qed.

Lemma rnd_lockstep : forall last d v rc out rest,
  last < 18446744073709551616 ->
  is_varuint d = true -> bytes_ok d -> varuint_value d = Some v ->
  enc_rnd true last d v = (rc, out) ->
  dec_rnd last rc (out ++ rest) = Some (d, v, rest) /\ rc < 4.
Proof.
  intros last d v rc out rest Hlast Hv Hok Hval H.
  unfold enc_rnd in H. cbn [andb] in H.
  assert (Hlit : dec_rnd last 0 (d ++ rest) = Some (d, v, rest)).
  { unfold dec_rnd. simpl. rewrite read_varuint_bytes_app by assumption. cbn [bind].
    rewrite Hval. reflexivity. }
  destruct (Nat.eqb (List.length d) (varuint_size v)) eqn:Ecan; cbn [negb] in H.
  2:{ inversion H; subst. split; [exact Hlit | lia]. }
  apply Nat.eqb_eq in Ecan.
  pose proof (canonical_by_length d v Hv Hok Hval Ecan) as Hcanon.
  destruct (v =? last) eqn:E1.
  { inversion H; subst rc out. apply N.eqb_eq in E1. subst last.
    unfold dec_rnd. simpl. rewrite Hcanon. split; [reflexivity | lia]. }
  destruct ((v =? w64 (last + 1)) && (last <? max_u64)) eqn:E2.
  { inversion H; subst rc out. apply andb_true_iff in E2 as [E2 E3].
    apply N.eqb_eq in E2. apply N.ltb_lt in E3. unfold max_u64 in E3.
    rewrite w64_small in E2 by lia. subst v.
    unfold dec_rnd. simpl ((1 =? 3)). cbn iota. simpl ((1 =? 1)). cbn iota.
    replace (last =? max_u64) with false by (symmetry; apply N.eqb_neq; unfold max_u64; lia).
    simpl app. rewrite Hcanon. split; [reflexivity | lia]. }
  destruct ((v =? w64 (last + max_u64)) && (0 <? last)) eqn:E3.
  { inversion H; subst rc out. apply andb_true_iff in E3 as [E3 E4].
    apply N.eqb_eq in E3. apply N.ltb_lt in E4.
    assert (Hm : w64 (last + max_u64) = last - 1).
    { unfold w64, max_u64.
      replace (last + 18446744073709551615) with ((last - 1) + 1 * 18446744073709551616) by lia.
      rewrite N.mod_add by lia. apply N.mod_small. lia. }
    rewrite Hm in E3. subst v.
    unfold dec_rnd. simpl ((2 =? 3)). cbn iota. simpl ((2 =? 1)). cbn iota. simpl ((2 =? 2)). cbn iota.
    replace (last =? 0) with false by (symmetry; apply N.eqb_neq; lia).
    simpl app. rewrite Hcanon. split; [reflexivity | lia]. }
  inversion H; subst. split; [exact Hlit | lia].
Qed.

(* ----------------------------------------------------------------- header byte ---- *)

Lemma hdr1_fields : forall rc idx s p q, rc < 4 -> idx <= 7 ->
  let h := hdr1_of rc idx s p q in
  N.land h 3 = rc /\ N.shiftr (N.land h 28) 2 = idx /\ bit h 5 = s /\ bit h 6 = p /\ bit h 7 = q.
Proof.
  intros rc idx s p q Hrc Hidx.
  assert (Crc : rc = 0 \/ rc = 1 \/ rc = 2 \/ rc = 3) by lia.
  assert (Cidx : idx = 0 \/ idx = 1 \/ idx = 2 \/ idx = 3 \/ idx = 4 \/ idx = 5 \/ idx = 6 \/ idx = 7) by lia.
  destruct Crc as [-> | [-> | [-> | ->]]];
    destruct Cidx as [-> | [-> | [-> | [-> | [-> | [-> | [-> | ->]]]]]]];
    destruct s, p, q; vm_compute; auto.
Qed.

(* ------------------------------------------------------------- proposal block ---- *)

Definition fld (c : bool) (ok : bytes -> bool) (d : bytes) : Prop :=
  if c then ok d = true else d = [].

Lemma opt_read_take_inv : forall c n l d r,
  opt_read c (take_n n) l = Some (d, r) -> l = d ++ r /\ fld c (is_bin n) d.
Proof.
  intros [|] n l d r H; simpl in H.
  - apply take_n_inv in H as [H1 H2]. split; [assumption|]. simpl. unfold is_bin. apply Nat.eqb_eq. assumption.
  - inversion H; subst. split; reflexivity.
Qed.

Lemma opt_read_varuint_inv : forall c l d r,
  opt_read c read_varuint_bytes l = Some (d, r) -> l = d ++ r /\ fld c is_varuint d.
Proof.
  intros [|] l d r H; simpl in H.
  - apply read_varuint_bytes_inv in H. assumption.
  - inversion H; subst. split; reflexivity.
Qed.

Lemma opt_read_take_app : forall c n d r, fld c (is_bin n) d -> opt_read c (take_n n) (d ++ r) = Some (d, r).
Proof.
  intros [|] n d r H; simpl in *.
  - apply take_n_app'. apply Nat.eqb_eq. exact H.
  - subst. reflexivity.
Qed.

Lemma opt_read_varuint_app : forall c d r, fld c is_varuint d -> opt_read c read_varuint_bytes (d ++ r) = Some (d, r).
Proof.
  intros [|] d r H; simpl in *.
  - apply read_varuint_bytes_app. exact H.
  - subst. reflexivity.
Qed.

Definition mk_entry (hdr0 : N) (dig encdig oper oprop : bytes) : pentry :=
  {| e_dig := pad_to 32 dig; e_encdig := pad_to 32 encdig; e_oprop := pad_to 32 oprop;
     e_oper := pad_to 9 oper; e_operlen := N.of_nat (List.length oper); e_mask := N.land hdr0 30 |}.

Lemma read_prop_inv : forall hdr0 l p rest, read_prop hdr0 l = Some (p, rest) ->
  exists dig encdig oper oprop,
    l = dig ++ encdig ++ oper ++ oprop ++ rest /\ p = mk_entry hdr0 dig encdig oper oprop /\
    fld (bit hdr0 1) (is_bin 32) dig /\ fld (bit hdr0 2) (is_bin 32) encdig /\
    fld (bit hdr0 3) is_varuint oper /\ fld (bit hdr0 4) (is_bin 32) oprop.
Proof.
  unfold read_prop. intros hdr0 l p rest H.
  apply bind_some in H as ([dig l1] & H1 & H). apply opt_read_take_inv in H1 as [-> F1].
  apply bind_some in H as ([encdig l2] & H2 & H). apply opt_read_take_inv in H2 as [-> F2].
  apply bind_some in H as ([oper l3] & H3 & H). apply opt_read_varuint_inv in H3 as [-> F3].
  apply bind_some in H as ([oprop l4] & H4 & H). apply opt_read_take_inv in H4 as [-> F4].
  inversion H; subst. exists dig, encdig, oper, oprop. repeat split; assumption.
Qed.

Lemma read_prop_app : forall hdr0 dig encdig oper oprop rest,
  fld (bit hdr0 1) (is_bin 32) dig -> fld (bit hdr0 2) (is_bin 32) encdig ->
  fld (bit hdr0 3) is_varuint oper -> fld (bit hdr0 4) (is_bin 32) oprop ->
  read_prop hdr0 (dig ++ encdig ++ oper ++ oprop ++ rest) = Some (mk_entry hdr0 dig encdig oper oprop, rest).
Proof.
  intros hdr0 dig encdig oper oprop rest F1 F2 F3 F4. unfold read_prop.
  rewrite opt_read_take_app by assumption. cbn [bind].
  rewrite opt_read_take_app by assumption. cbn [bind].
  rewrite opt_read_varuint_app by assumption. cbn [bind].
  rewrite opt_read_take_app by assumption. cbn [bind]. reflexivity.
Qed.

Lemma pad_to_exact : forall n d, List.length d = n -> pad_to n d = d.
Proof. intros n d H. unfold pad_to. rewrite H, Nat.sub_diag. simpl. apply app_nil_r. Qed.

Lemma firstn_pad_to : forall n d, firstn (List.length d) (pad_to n d) = d.
Proof.
  intros n d. unfold pad_to. rewrite firstn_app, Nat.sub_diag, firstn_all. simpl. apply app_nil_r.
Qed.

Lemma prop_bytes_mk_entry : forall hdr0 dig encdig oper oprop,
  fld (bit hdr0 1) (is_bin 32) dig -> fld (bit hdr0 2) (is_bin 32) encdig ->
  fld (bit hdr0 3) is_varuint oper -> fld (bit hdr0 4) (is_bin 32) oprop ->
  prop_bytes hdr0 (mk_entry hdr0 dig encdig oper oprop) = dig ++ encdig ++ oper ++ oprop.
Proof.
  intros hdr0 dig encdig oper oprop F1 F2 F3 F4. unfold prop_bytes, mk_entry; cbn [e_dig e_encdig e_oprop e_oper e_operlen].
  rewrite Nat2N.id.
  unfold fld, is_bin in *.
  destruct (bit hdr0 1); destruct (bit hdr0 2); destruct (bit hdr0 3); destruct (bit hdr0 4);
    repeat match goal with
           | X : Nat.eqb _ _ = true |- _ => apply Nat.eqb_eq in X
           | X : _ = [] |- _ => subst
           end;
    rewrite ?firstn_pad_to; rewrite ?pad_to_exact by assumption; rewrite ?app_nil_r; reflexivity.
Qed.

Lemma bit_land_30 : forall h i, (i = 1 \/ i = 2 \/ i = 3 \/ i = 4) -> bit (N.land h 30) i = bit h i.
Proof.
  intros h i Hi. unfold bit. rewrite N.land_spec.
  destruct Hi as [-> | [-> | [-> | ->]]]; change (N.testbit 30 _) with true; apply andb_true_r.
Qed.

Lemma prop_bytes_mask : forall hdr0 p, prop_bytes (N.land hdr0 30) p = prop_bytes hdr0 p.
Proof. intros. unfold prop_bytes. rewrite !bit_land_30 by auto. reflexivity. Qed.

(* --------------------------------------------------------------- whole frames ---- *)

Definition wf_state (s : dstate) : Prop :=
  wf_lru (snd_t s) /\ wf_lru (pk_t s) /\ wf_lru (pk2_t s) /\ wf_win (win s) /\
  last_rnd s < 18446744073709551616.

Lemma wf_new_lru : forall klen n t, new_lru klen n = Some t -> n <= 65536 -> wf_lru t.
Proof.
  unfold new_lru, wf_lru. intros klen n t H Hn.
  destruct ((n <? 16) || negb (N.land n (n - 1) =? 0)) eqn:E; [discriminate|].
  apply orb_false_iff in E as [E _]. apply N.ltb_ge in E.
  inversion H; subst; simpl. rewrite repeat_length.
  assert (n / 2 <= 32768) by (apply N.div_le_upper_bound; lia).
  assert (1 <= n / 2) by (apply N.div_le_lower_bound; lia).
  auto.
Qed.

Lemma wf_new_state : forall n s, new_state n = Some s -> n <= 65536 -> wf_state s.
Proof.
  unfold new_state. intros n s H Hn.
  apply bind_some in H as (a & Ha & H). apply bind_some in H as (b & Hb & H).
  apply bind_some in H as (c & Hc & H). inversion H; subst; clear H.
  unfold wf_state; simpl.
  split; [eapply wf_new_lru; eassumption|]. split; [eapply wf_new_lru; eassumption|].
  split; [eapply wf_new_lru; eassumption|]. split; [unfold wf_win, new_win; simpl; lia | lia].
Qed.

Lemma norm_frame_cons : forall h0 h1 r, norm_frame (h0 :: h1 :: r) = h0 :: 0 :: r.
Proof. reflexivity. Qed.

Theorem lockstep : forall st x f st',
  wf_state st -> bytes_ok x ->
  compress true st x = Some (f, st') ->
  decompress st f = Some (norm_frame x, st') /\ wf_state st'.
Proof.
  intros st x f st' (Wsnd & Wpk & Wpk2 & Wwin & Wlast) Hok H.
  unfold compress in H.
  apply bind_some in H as ([hdr l0] & Hhdr & H). apply take_n_inv in Hhdr as [-> Hhl].
  destruct hdr as [|h0 [|h1 [|? ?]]]; try (simpl in Hhl; discriminate). clear Hhl.
  cbn [nth] in H.
  apply bind_some in H as ([pf l1] & H1 & H). apply take_n_inv in H1 as [-> Lpf].
  apply bind_some in H as ([per l2] & H2 & H). apply opt_read_varuint_inv in H2 as [-> Fper].
  apply bind_some in H as ([prop l3] & H3 & H).
  apply read_prop_inv in H3 as (dig & encdig & oper & oprop & -> & -> & Fdig & Fenc & Foper & Foprop).
  set (prop := mk_entry h0 dig encdig oper oprop) in *.
  apply bind_some in H as ([rndData l4] & H4 & H). apply read_varuint_bytes_inv in H4 as [-> Vrnd].
  apply bind_some in H as (rnd & Hrnd & H).
  destruct (enc_rnd true (last_rnd st) rndData rnd) as [rc rndout] eqn:Ernd.
  apply bind_some in H as ([snd l5] & H5 & H). apply take_n_inv in H5 as [-> Lsnd].
  destruct (enc_ref snd_hash (snd_t st) snd) as [[sref sout] st1] eqn:Esnd.
  apply bind_some in H as ([step l6] & H6 & H). apply opt_read_varuint_inv in H6 as [-> Fstep].
  apply bind_some in H as ([pk l7] & H7 & H). apply take_n_inv in H7 as [-> Lpk].
  destruct (enc_ref pk_hash (pk_t st) pk) as [[pref pout] pt1] eqn:Epk.
  apply bind_some in H as ([pk2 l8] & H8 & H). apply take_n_inv in H8 as [-> Lpk2].
  destruct (enc_ref pk_hash (pk2_t st) pk2) as [[p2ref p2out] p2t1] eqn:Epk2.
  apply bind_some in H as ([sigs l9] & H9 & H). apply take_n_inv in H9 as [-> Lsigs].
  destruct (is_nil l9) eqn:Enil; [|discriminate]. apply is_nil_true in Enil. subst l9.
  cbn [negb] in H. inversion H; subst f st'; clear H.
  (* facts about the pieces *)
  assert (Hokrnd : bytes_ok rndData).
  { simpl in Hok. inversion Hok as [|? ? _ Hok1]; subst. inversion Hok1 as [|? ? _ Hok2]; subst.
    do 6 (apply bytes_ok_app in Hok2 as [_ Hok2]).
    apply bytes_ok_app in Hok2 as [Hok2 _]. exact Hok2. }
  pose proof (varuint_value_bound _ _ Vrnd Hokrnd Hrnd) as Brnd.
  set (idx := win_lookup (win st) prop) in *.
  assert (Hidx : idx <= 7).
  { destruct (N.eq_dec idx 0) as [Z|NZ]; [lia|].
    pose proof (win_ref_valid (win st) prop idx eq_refl NZ) as [_ Hle]. unfold wf_win in Wwin. lia. }
  (* run the decoder *)
  unfold decompress.
  change (h0 :: hdr1_of rc idx sref pref p2ref :: ?r) with ([h0; hdr1_of rc idx sref pref p2ref] ++ r).
  rewrite (take_n_app' 2) by reflexivity. cbn [bind nth].
  rewrite (take_n_app' 80 pf) by assumption. cbn [bind].
  rewrite opt_read_varuint_app by assumption. cbn [bind].
  pose proof (rnd_lockstep (last_rnd st) rndData rnd rc rndout) as Hrl.
  destruct (Hrl (sout ++ step ++ pout ++ p2out ++ sigs) Wlast Vrnd Hokrnd Hrnd Ernd) as [Drnd Hrc]. clear Hrl.
  destruct (hdr1_fields rc idx sref pref p2ref Hrc Hidx) as (F1 & F2 & F3 & F4 & F5).
  rewrite F1, F2, F3, F4, F5.
  pose proof (ref_lockstep snd_hash 32%nat (snd_t st) snd sref sout st1 (step ++ pout ++ p2out ++ sigs) Wsnd Lsnd Esnd) as [Dsnd Wsnd'].
  pose proof (ref_lockstep pk_hash 96%nat (pk_t st) pk pref pout pt1 (p2out ++ sigs) Wpk Lpk Epk) as [Dpk Wpk'].
  pose proof (ref_lockstep pk_hash 96%nat (pk2_t st) pk2 p2ref p2out p2t1 sigs Wpk2 Lpk2 Epk2) as [Dpk2 Wpk2'].
  assert (Hpb : prop_bytes (e_mask prop) prop = dig ++ encdig ++ oper ++ oprop).
  { unfold prop at 1. cbn [mk_entry e_mask]. rewrite prop_bytes_mask. apply prop_bytes_mk_entry; assumption. }
  assert (Htail : forall w',
    (let propout := prop_bytes (e_mask prop) prop in
     '(rndout0, rnd0, l) <- dec_rnd (last_rnd st) rc (rndout ++ sout ++ step ++ pout ++ p2out ++ sigs) ;;
     '(snd0, st10, l) <- dec_ref snd_hash 32 (snd_t st) sref l ;;
     '(step0, l) <- opt_read (bit h0 5) read_varuint_bytes l ;;
     '(pk0, pt10, l) <- dec_ref pk_hash 96 (pk_t st) pref l ;;
     '(pk20, p2t10, l) <- dec_ref pk_hash 96 (pk2_t st) p2ref l ;;
     '(sigs0, l) <- take_n 64 l ;;
     if negb (is_nil l) then None else
     Some (h0 :: 0 :: pf ++ per ++ propout ++ rndout0 ++ snd0 ++ step0 ++ pk0 ++ pk20 ++ sigs0,
           {| snd_t := st10; pk_t := pt10; pk2_t := p2t10; win := w'; last_rnd := rnd0 |})) =
    Some (h0 :: 0 :: pf ++ per ++ (dig ++ encdig ++ oper ++ oprop) ++ rndData ++ snd ++ step ++ pk ++ pk2 ++ sigs,
          {| snd_t := st1; pk_t := pt1; pk2_t := p2t1; win := w'; last_rnd := rnd |})).
  { intro w'. cbv zeta. rewrite Drnd. cbn [bind]. rewrite Dsnd. cbn [bind].
    rewrite opt_read_varuint_app by assumption. cbn [bind].
    rewrite Dpk. cbn [bind]. rewrite Dpk2. cbn [bind].
    rewrite <- (app_nil_r sigs) at 1. rewrite (take_n_app' 64 sigs []) by assumption. cbn [bind is_nil negb].
    rewrite Hpb. reflexivity. }
  assert (Hnorm : norm_frame ([h0; h1] ++ pf ++ per ++ (dig ++ encdig ++ oper ++ oprop ++ rndData ++ snd ++ step ++ pk ++ pk2 ++ sigs ++ [])) =
                  h0 :: 0 :: pf ++ per ++ (dig ++ encdig ++ oper ++ oprop) ++ rndData ++ snd ++ step ++ pk ++ pk2 ++ sigs).
  { simpl. rewrite app_nil_r. rewrite <- !app_assoc. reflexivity. }
  rewrite Hnorm. clear Hnorm.
  assert (Wst' : forall w', wf_win w' ->
            wf_state {| snd_t := st1; pk_t := pt1; pk2_t := p2t1; win := w'; last_rnd := rnd |}).
  { intros w' Hw. unfold wf_state; simpl. auto. }
  destruct (idx =? 0) eqn:Eidx.
  - (* literal proposal: both sides insert it into the window *)
    assert (Hpb0 : prop_bytes h0 prop = dig ++ encdig ++ oper ++ oprop)
      by (apply prop_bytes_mk_entry; assumption).
    rewrite Hpb0.
    replace ((dig ++ encdig ++ oper ++ oprop) ++ rndout ++ sout ++ step ++ pout ++ p2out ++ sigs)
      with (dig ++ encdig ++ oper ++ oprop ++ rndout ++ sout ++ step ++ pout ++ p2out ++ sigs)
      by (rewrite <- !app_assoc; reflexivity).
    rewrite read_prop_app by assumption. cbn [bind]. fold prop.
    split; [|apply Wst'; apply wf_win_insert; assumption].
    exact (Htail (win_insert (win st) prop)).
  - (* window reference *)
    apply N.eqb_neq in Eidx.
    destruct (win_ref_valid (win st) prop idx eq_refl Eidx) as [Hby _].
    rewrite Hby. cbn [bind]. simpl app.
    split; [|apply Wst'; assumption].
    exact (Htail (win st)).
Qed.
