(* C25, pool withdrawal in StartEvaluator: exact acceptance condition, and composition with
   NextRewardsState. *)
From Coq Require Import NArith ZArith List Bool Lia ZifyN ZifyBool.
From Verif.model Require Import Overflow OverflowSpec Rewards RewardsSpec RewardsPool.
From Verif.proofs Require Import OverflowProofs OverflowSpecProofs RewardsProofs.
Import ListNotations.
Open Scope N_scope.

Local Lemma M64 : M 64 = 2 ^ 64. Proof. reflexivity. Qed.

(* the transcription in closed form *)
Lemma withdraw_closed prev new pool units minbal :
  prev < 2 ^ 64 -> new < 2 ^ 64 -> pool < 2 ^ 64 -> units < 2 ^ 64 -> minbal < 2 ^ 64 ->
  withdraw prev new pool units minbal =
    if new <? prev then WErrLevels
    else if (2 ^ 64 <=? units * (new - prev)) || (pool <? units * (new - prev)) then WErrWithdraw
    else if pool - units * (new - prev) <? minbal then WErrMinBalance
    else WOk (pool - units * (new - prev)).
Proof.
  intros Hp Hn Hpool Hu Hm. unfold withdraw.
  remember (2 ^ 64) as W eqn:HW.
  assert (HWp : 0 < W) by (subst W; reflexivity).
  rewrite osub_spec by (rewrite M64, <- HW; assumption). rewrite M64, <- HW.
  destruct (N.ltb_spec new prev) as [Hlt|Hge]; [reflexivity|].
  rewrite mod_once by lia. replace (new + W - prev - W) with (new - prev) by lia.
  set (d := new - prev). assert (Hd : d < W) by (subst d; lia).
  rewrite omul_is_spec by (rewrite <- HW; assumption). unfold spec_omul. rewrite <- HW.
  destruct (N.leb_spec W (units * d)) as [Ho|Ho].
  - cbn [orb]. destruct (osub 64 pool 0); reflexivity.
  - rewrite osub_spec by (rewrite M64, <- HW; assumption). rewrite M64, <- HW. cbn [orb].
    destruct (N.ltb_spec pool (units * d)) as [Hl|Hl]; [reflexivity|].
    rewrite mod_once by lia. replace (pool + W - units * d - W) with (pool - units * d) by lia.
    rewrite osub_spec by (rewrite M64, <- HW; lia). reflexivity.
Qed.

(* accepted iff allowed, and then exactly the withdrawal leaves the pool *)
Lemma withdraw_ok_iff prev new pool units minbal pn :
  prev < 2 ^ 64 -> new < 2 ^ 64 -> pool < 2 ^ 64 -> units < 2 ^ 64 -> minbal < 2 ^ 64 ->
  (withdraw prev new pool units minbal = WOk pn <->
   prev <= new /\ units * (new - prev) + minbal <= pool /\ pn = pool - units * (new - prev)).
Proof.
  intros Hp Hn Hpool Hu Hm. rewrite withdraw_closed by assumption.
  destruct (N.ltb_spec new prev) as [Hlt|Hge].
  { split; [discriminate|]. intros (H & _). lia. }
  destruct (N.leb_spec (2 ^ 64) (units * (new - prev))) as [Ho|Ho]; cbn [orb].
  { split; [discriminate|]. intros (_ & H & _). lia. }
  destruct (N.ltb_spec pool (units * (new - prev))) as [Hl|Hl].
  { split; [discriminate|]. intros (_ & H & _). lia. }
  destruct (N.ltb_spec (pool - units * (new - prev)) minbal) as [Hb|Hb].
  { split; [discriminate|]. intros (_ & H & _). lia. }
  split.
  - intros H. inversion H. repeat split; lia.
  - intros (_ & _ & H). subst pn. reflexivity.
Qed.

Lemma withdraw_accepts_iff prev new pool units minbal :
  prev < 2 ^ 64 -> new < 2 ^ 64 -> pool < 2 ^ 64 -> units < 2 ^ 64 -> minbal < 2 ^ 64 ->
  ((exists pn, withdraw prev new pool units minbal = WOk pn) <->
   withdraw_allowed prev new pool units minbal = true).
Proof.
  intros Hp Hn Hpool Hu Hm. unfold withdraw_allowed. rewrite andb_true_iff, !N.leb_le. split.
  - intros (pn & H). apply withdraw_ok_iff in H; try assumption. tauto.
  - intros (H1 & H2). exists (pool - units * (new - prev)).
    apply withdraw_ok_iff; try assumption. auto.
Qed.

(* what acceptance guarantees, in the form of the property *)
Lemma withdraw_ok_guarantees prev new pool units minbal pn :
  prev < 2 ^ 64 -> new < 2 ^ 64 -> pool < 2 ^ 64 -> units < 2 ^ 64 -> minbal < 2 ^ 64 ->
  withdraw prev new pool units minbal = WOk pn ->
  pn + units * (new - prev) = pool /\ minbal <= pn /\ units * (new - prev) < 2 ^ 64 /\ pn < 2 ^ 64.
Proof.
  intros Hp Hn Hpool Hu Hm H. apply withdraw_ok_iff in H; try assumption.
  destruct H as (H1 & H2 & H3). subst pn. set (a := units * (new - prev)) in *. clearbody a.
  repeat split; lia.
Qed.

(* the oracle *)
Lemma pool_model_meets_spec prev new pool units minbal :
  prev < 2 ^ 64 -> new < 2 ^ 64 -> pool < 2 ^ 64 -> units < 2 ^ 64 -> minbal < 2 ^ 64 ->
  spec_ok_pool prev new pool units minbal (withdraw prev new pool units minbal) = true.
Proof.
  intros Hp Hn Hpool Hu Hm.
  destruct (withdraw prev new pool units minbal) as [pn| | |] eqn:E; unfold spec_ok_pool.
  - assert (Ha : withdraw_allowed prev new pool units minbal = true)
      by (apply withdraw_accepts_iff; try assumption; exists pn; exact E).
    rewrite Ha. cbn [andb]. apply N.eqb_eq.
    apply withdraw_ok_guarantees in E; try assumption. tauto.
  - destruct (withdraw_allowed prev new pool units minbal) eqn:Ha; [|reflexivity].
    apply withdraw_accepts_iff in Ha; try assumption. destruct Ha as (pn & H). congruence.
  - destruct (withdraw_allowed prev new pool units minbal) eqn:Ha; [|reflexivity].
    apply withdraw_accepts_iff in Ha; try assumption. destruct Ha as (pn & H). congruence.
  - destruct (withdraw_allowed prev new pool units minbal) eqn:Ha; [|reflexivity].
    apply withdraw_accepts_iff in Ha; try assumption. destruct Ha as (pn & H). congruence.
Qed.

(* spec_ok on ANY observed outcome is the iff of the property *)
Lemma spec_ok_pool_sound prev new pool units minbal obs :
  spec_ok_pool prev new pool units minbal obs = true ->
  match obs with
  | WOk pn => prev <= new /\ pn + units * (new - prev) = pool /\ minbal <= pn
  | _ => ~ (prev <= new /\ units * (new - prev) + minbal <= pool)
  end.
Proof.
  unfold spec_ok_pool, withdraw_allowed. destruct obs as [pn| | |].
  - rewrite !andb_true_iff, !N.leb_le, N.eqb_eq. intros ((H1 & H2) & H3). repeat split; lia.
  - rewrite negb_true_iff, andb_false_iff, !N.leb_gt. intros H (A & B). lia.
  - rewrite negb_true_iff, andb_false_iff, !N.leb_gt. intros H (A & B). lia.
  - rewrite negb_true_iff, andb_false_iff, !N.leb_gt. intros H (A & B). lia.
Qed.

(* ---------- composition with NextRewardsState ---------- *)
(* the header's rewards state is NextRewardsState of the previous one (what StartEvaluator
   generates / validates), computed from the same pool balance and reward units: if the
   block is accepted, what leaves the pool is exactly what the level increase hands out:
   rate in effect + old residue - new residue (nothing, when the level did not move) *)
Lemma withdrawal_matches_distribution s r p pool units s' pn :
  rstate_bounded s -> p_minbal p < 2 ^ 64 -> pool < 2 ^ 64 -> units < 2 ^ 64 ->
  next_rewards_state s r p pool units = Some s' ->
  withdraw (r_level s) (r_level s') pool units (p_minbal p) = WOk pn ->
  p_minbal p <= pn /\
  if distributes s (rate_in_effect p s s') units
  then pn + rate_in_effect p s s' + r_residue s = pool + r_residue s' /\ r_residue s' < units
  else pn = pool /\ r_residue s' = r_residue s.
Proof.
  intros Hs Hm Hp Hu Hn Hw.
  pose proof (nrs_bounded _ _ _ _ _ _ Hs Hm Hp Hn) as (Hl' & _).
  destruct Hs as (Hl & Hr & Hf & Hc).
  apply withdraw_ok_guarantees in Hw; try assumption.
  destruct Hw as (Hsum & Hmin & _ & _). split; [exact Hmin|].
  assert (Hs : rstate_bounded s) by (repeat split; assumption).
  destruct (distributes s (rate_in_effect p s s') units) eqn:Ed.
  - unfold distributes in Ed. rewrite !andb_true_iff, negb_true_iff in Ed.
    destruct Ed as ((Hu0 & H1) & H2). apply N.eqb_neq in Hu0. apply N.ltb_lt in H1, H2.
    destruct (rewards_exact _ _ _ _ _ _ Hs Hm Hp Hn Hu0 H1 H2) as (A & B & C).
    split; [|exact C]. rewrite N.mul_comm in Hsum. lia.
  - assert (Hk : r_level s' = r_level s /\ r_residue s' = r_residue s).
    { apply (rewards_kept _ _ _ _ _ _ Hs Hm Hp Hn).
      unfold distributes in Ed. rewrite !andb_false_iff, negb_false_iff in Ed.
      destruct Ed as [[E|E]|E].
      - left. apply N.eqb_eq. exact E.
      - right. left. apply N.ltb_ge. exact E.
      - right. right. apply N.ltb_ge. exact E. }
    destruct Hk as [Hk1 Hk2]. rewrite Hk1, N.sub_diag, N.mul_0_r in Hsum. split; [lia|exact Hk2].
Qed.
