(* C06: soundness of the executable oracle [spec_ok] (model/VoteTrackerSpec.v): a trace it
   accepts satisfies the Prop-level statement [trace_ok] of proofs/VoteTrackerProofs.v. *)
From Coq Require Import NArith List Bool String Lia ZifyN ZifyNat ZifyBool Permutation.
From Verif.model Require Import VoteTracker VoteTrackerSpec.
From Verif.proofs Require Import VoteTrackerLists VoteTrackerSpecProofs VoteTrackerProofs.
Import ListNotations.
Open Scope N_scope.

(* ---------- bundle_ok -> bundle_valid ---------- *)
Lemma isnil_false_iff {A} (l : list A) : isnil l = false <-> l <> [].
Proof. destruct l; cbn; split; congruence. Qed.

Lemma bundle_ok_valid q h p b : bundle_ok q h p b = true -> bundle_valid q h p b.
Proof.
  unfold bundle_ok. rewrite !andb_true_iff. intros [[[[[V NE] ND] VF] EF] RW].
  apply N.eqb_eq in V. apply negb_true_iff in NE. apply isnil_false_iff in NE. apply nodupb_iff in ND.
  rewrite forallb_forall in VF, EF.
  split; [exact V|]. split; [exact NE|]. split; [exact ND|]. split; [|split; [|exact RW]].
  - intros s Hs. specialize (VF s Hs). unfold is_voter_for in VF.
    destruct (status_of h s) as [|v|v1 v2]; try discriminate. apply N.eqb_eq in VF. exists v. tauto.
  - intros s p0 p1 Hs. specialize (EF _ Hs). unfold is_equiv_pair in EF.
    destruct (status_of h s) as [|v|v1 v2]; try discriminate.
    rewrite !andb_true_iff, negb_true_iff in EF. destruct EF as [[E0 E1] NEq].
    apply N.eqb_eq in E0, E1. apply N.eqb_neq in NEq. exists v1, v2. tauto.
Qed.

(* ---------- snap_ok -> Inv ---------- *)
Lemma opt_vote_eqb_eq a b : opt_vote_eqb a b = true -> a = b.
Proof.
  destruct a as [[s p w]|], b as [[s' p' w']|]; cbn [opt_vote_eqb v_sender v_value v_weight]; try discriminate; [|reflexivity].
  rewrite !andb_true_iff. intros [[A B] C]. apply N.eqb_eq in A, B, C. subst. reflexivity.
Qed.
Lemma opt_eq_eqb_eq a b : opt_eq_eqb a b = true -> a = b.
Proof.
  destruct a as [[s w p0 p1]|], b as [[s' w' p0' p1']|]; cbn [opt_eq_eqb e_sender e_weight e_p0 e_p1]; try discriminate; [|reflexivity].
  rewrite !andb_true_iff. intros [[[A B] C] D]. apply N.eqb_eq in A, B, C, D. subst. reflexivity.
Qed.

Lemma voter_for_none_of_cnt0 h p s : (forall x, In x h -> 0 < v_weight x) ->
  spec_cnt h p = 0 -> spec_voter_for h p s = None.
Proof.
  intros Pos Z. unfold spec_voter_for. destruct (status_of h s) as [|v|v1 v2] eqn:S; try reflexivity.
  destruct (v_value v =? p) eqn:E; [|reflexivity]. apply N.eqb_eq in E.
  exfalso. exact (proj1 (spec_cnt_zero_iff h p Pos) Z s v S E).
Qed.

Lemma snap_ok_Inv h st : (forall x, In x h -> 0 < v_weight x) -> snap_ok h st = true -> Inv h st.
Proof.
  intros Pos. unfold snap_ok. rewrite !andb_true_iff. intros [[[[[NDv NDc] NDe] FS] EC] FP].
  apply nodupb_iff in NDv, NDc, NDe. apply N.eqb_eq in EC. rewrite forallb_forall in FS, FP.
  set (ss := senders h ++ keys (voters st) ++ keys (equivocators st)) in *.
  set (ps := values h ++ keys (counts st)) in *.
  assert (SN : forall s, ~ In s (senders h) -> status_of h s = SNone) by (intros; apply status_unseen; assumption).
  (* per-value facts, for every p *)
  assert (CP : forall p,
     match alookup p (counts st) with
     | None => spec_cnt h p = 0
     | Some c => c_count c = spec_cnt h p /\ c_votes c <> [] /\ NoDup (keys (c_votes c)) /\
                 forall s, alookup s (c_votes c) = spec_voter_for h p s
     end).
  { intros p. destruct (in_dec N.eq_dec p ps) as [Hp|Hp].
    - specialize (FP p Hp). destruct (alookup p (counts st)) as [c|]; [|apply N.eqb_eq; exact FP].
      rewrite !andb_true_iff in FP. destruct FP as [[[A B] C] D].
      apply N.eqb_eq in A. apply negb_true_iff in B. apply isnil_false_iff in B. apply nodupb_iff in C.
      rewrite forallb_forall in D. split; [exact A|]. split; [exact B|]. split; [exact C|].
      intros s. destruct (in_dec N.eq_dec s (senders h ++ keys (c_votes c))) as [Hs|Hs].
      + apply opt_vote_eqb_eq. apply D. exact Hs.
      + rewrite in_app_iff in Hs. assert (alookup s (c_votes c) = None) as -> by (apply alookup_none_iff; tauto).
        unfold spec_voter_for. rewrite SN by tauto. reflexivity.
    - unfold ps in Hp. rewrite in_app_iff in Hp.
      assert (alookup p (counts st) = None) as -> by (apply alookup_none_iff; tauto).
      destruct (N.eq_dec (spec_cnt h p) 0) as [Z|Z]; [exact Z|]. apply spec_cnt_nonzero_value in Z. tauto. }
  constructor.
  - intros s. destruct (in_dec N.eq_dec s ss) as [Hs|Hs].
    + specialize (FS s Hs). apply andb_true_iff in FS. apply opt_vote_eqb_eq. tauto.
    + unfold ss in Hs. rewrite !in_app_iff in Hs.
      assert (alookup s (voters st) = None) as -> by (apply alookup_none_iff; tauto).
      unfold spec_voter. rewrite SN by tauto. reflexivity.
  - intros s. destruct (in_dec N.eq_dec s ss) as [Hs|Hs].
    + specialize (FS s Hs). apply andb_true_iff in FS. apply opt_eq_eqb_eq. tauto.
    + unfold ss in Hs. rewrite !in_app_iff in Hs.
      assert (alookup s (equivocators st) = None) as -> by (apply alookup_none_iff; tauto).
      unfold spec_equiv. rewrite SN by tauto. reflexivity.
  - intros p. specialize (CP p). unfold counter_of. destruct (alookup p (counts st)) as [c|]; cbn [c_count]; [tauto|auto].
  - intros p s. specialize (CP p). unfold counter_of. destruct (alookup p (counts st)) as [c|]; cbn [c_votes].
    + apply CP.
    + cbn [alookup]. symmetry. apply voter_for_none_of_cnt0; assumption.
  - intros p. specialize (CP p). destruct (alookup p (counts st)) as [c|]; [|tauto].
    split; [discriminate|]. intros Z. exfalso. destruct CP as [_ [NE [_ L]]].
    destruct (c_votes c) as [|[s v] t] eqn:EV; [congruence|].
    specialize (L s). cbn [alookup] in L. rewrite N.eqb_refl in L.
    rewrite (voter_for_none_of_cnt0 h p s Pos Z) in L. discriminate.
  - exact EC.
  - exact NDv.
  - exact NDc.
  - exact NDe.
  - intros p. specialize (CP p). unfold counter_of. destruct (alookup p (counts st)) as [c|]; cbn [c_votes]; [tauto|constructor].
Qed.

(* ---------- expected, read backwards ---------- *)
Lemma expected_inv q h x : reaches q (spec_eqw h) = false ->
  let h' := h ++ [x] in
  match expected q h x with
  | EPanic t =>
      (t = "eq"%string /\ reaches q (spec_eqw h') = true) \/
      (t = "two"%string /\ reaches q (spec_eqw h') = false /\
       exists p p', p <> p' /\ reaches q (spec_tally h' p) = true /\ reaches q (spec_tally h' p') = true)
  | ENone =>
      reaches q (spec_eqw h') = false /\ no_two q h' /\
      ((forall p, reaches q (spec_tally h' p) = false) \/ (exists p, reaches q (spec_tally h p) = true))
  | EThr p =>
      reaches q (spec_eqw h') = false /\ no_two q h' /\ reaches q (spec_tally h' p) = true /\
      (forall p', reaches q (spec_tally h p') = false)
  end.
Proof.
  intros HE h'. unfold expected. fold h'. destruct (reaches q (spec_eqw h')) eqn:HE'; [left; tauto|].
  pose proof (over_values_nodup q h') as ND.
  pose proof (fun p => over_values_iff q h' p HE') as M.
  pose proof (fun p => over_values_iff q h p HE) as M0.
  destruct (over_values q h') as [|a [|b t]].
  - assert (AF : forall p, reaches q (spec_tally h' p) = false).
    { intros p. destruct (reaches q (spec_tally h' p)) eqn:R; [|reflexivity]. apply M in R. destruct R. }
    split; [reflexivity|]. split; [apply no_two_of_none; exact AF|left; exact AF].
  - assert (NT : no_two q h').
    { intros p p' R R'. apply M in R, R'. destruct R as [R|[]], R' as [R'|[]]. congruence. }
    destruct (over_values q h) as [|c t] eqn:O0; cbn [isnil].
    + split; [reflexivity|]. split; [exact NT|]. split; [apply M; left; reflexivity|].
      intros p'. destruct (reaches q (spec_tally h p')) eqn:R; [|reflexivity]. apply M0 in R. destruct R.
    + split; [reflexivity|]. split; [exact NT|]. right. exists c. apply M0. left; reflexivity.
  - right. split; [reflexivity|]. split; [reflexivity|]. exists a, b.
    split; [|split; apply M; cbn; tauto]. inversion ND as [|? ? Hn _]; subst. intro; subst. apply Hn. left; reflexivity.
Qed.

(* ---------- the oracle is sound ---------- *)
Lemma spec_ok_from_sound q : forall l h obs, reaches q (spec_eqw h) = false -> wf_votes (h ++ l) ->
  spec_ok_from q h l obs = true -> trace_ok q h l obs.
Proof.
  induction l as [|x l IH]; intros h obs HE W SO; cbn [spec_ok_from] in SO.
  - destruct obs; [apply trace_ok_nil|discriminate].
  - destruct obs as [|[o snap] obs']; [discriminate|].
    assert (W1 : wf_votes (h ++ [x])) by (apply (wf_votes_prefix _ l); rewrite <- app_assoc; exact W).
    assert (W2 : wf_votes ((h ++ [x]) ++ l)) by (rewrite <- app_assoc; exact W).
    pose proof (expected_inv q h x HE) as EI. cbn zeta in EI.
    destruct (expected q h x) as [|p|t] eqn:EX.
    + destruct o as [|p' b|t']; try discriminate. destruct snap as [st|]; [|discriminate].
      apply andb_true_iff in SO. destruct SO as [SN SO].
      apply trace_ok_cons.
      * exact EI.
      * split; [reflexivity|]. apply snap_ok_Inv; [apply (proj1 W1)|exact SN].
      * cbn [is_panic]. apply IH; [tauto|exact W2|exact SO].
    + destruct o as [|p' b|t']; try discriminate. destruct snap as [st|]; [|discriminate].
      rewrite !andb_true_iff in SO. destruct SO as [[[EP BO] SN] SO]. apply N.eqb_eq in EP. subst p'.
      apply trace_ok_cons.
      * cbn [step_obs]. destruct EI as [A [B [C D]]]. repeat (split; [assumption|]). apply bundle_ok_valid. exact BO.
      * split; [reflexivity|]. apply snap_ok_Inv; [apply (proj1 W1)|exact SN].
      * cbn [is_panic]. apply IH; [tauto|exact W2|exact SO].
    + destruct o as [|p' b|t']; try discriminate. destruct snap as [st|]; [discriminate|].
      apply andb_true_iff in SO. destruct SO as [ET NI]. apply String.eqb_eq in ET. subst t'.
      apply trace_ok_cons.
      * exact EI.
      * reflexivity.
      * cbn [is_panic]. destruct obs'; [reflexivity|discriminate].
Qed.

Theorem spec_ok_sound q l obs : reaches q 0 = false -> wf_votes l ->
  spec_ok q l obs = true -> trace_ok q [] l obs.
Proof. intros R0 W SO. apply spec_ok_from_sound; auto. Qed.

Lemma wf_votes_b_sound l : wf_votes_b l = true -> wf_votes l.
Proof.
  unfold wf_votes_b. rewrite !andb_true_iff. intros [[P C] T]. rewrite forallb_forall in P, C.
  split; [|split].
  - intros x Hx. specialize (P x Hx). apply N.ltb_lt in P. exact P.
  - intros x y Hx Hy E. specialize (C x Hx). rewrite forallb_forall in C. specialize (C y Hy).
    apply orb_true_iff in C. destruct C as [C|C].
    + apply negb_true_iff in C. apply N.eqb_neq in C. contradiction.
    + apply N.eqb_eq in C. exact C.
  - apply N.ltb_lt in T. exact T.
Qed.
