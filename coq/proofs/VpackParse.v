(* C42: inversion of the (fixed) msgpack vote parser: whatever parseMsgpVote accepts IS the
   canonical encoding [encode_msgp v] of a well-formed vote v, and what it wrote into the
   StatelessEncoder is [frame v]. *)
From Coq Require Import NArith List Bool String Ascii Lia ZifyN ZifyNat ZifyBool Arith.
From Verif.lib Require Import Term.
From Verif.model Require Import Vpack VpackSpec.
From Verif.proofs Require Import VpackBase VpackSlots.
Import ListNotations.
Open Scope N_scope.

(* one key/value pair of a msgpack map as the parser saw it *)
Record item := { it_key : bytes; it_in : bytes; it_out : bytes; it_mask : N; it_req : N }.

Definition acc_add (a : acc) (it : item) : acc :=
  {| a_mask := N.lor (a_mask a) (it_mask it); a_req := a_req a + it_req it; a_out := a_out a ++ it_out it |}.
Definition fxk (k : bytes) : bytes := (160 + N.of_nat (List.length k)) :: k.
Definition it_enc (it : item) : bytes := fxk (it_key it) ++ it_in it.

Lemma wr_opt : forall a i v key inb,
  wr a (Some i) v = acc_add a {| it_key := key; it_in := inb; it_out := v; it_mask := 2 ^ i; it_req := 0 |}.
Proof. intros. unfold wr, acc_add. simpl. rewrite N.add_0_r. reflexivity. Qed.

Lemma wr_req : forall a v key inb,
  wr a None v = acc_add a {| it_key := key; it_in := inb; it_out := v; it_mask := 0; it_req := 1 |}.
Proof. intros. unfold wr, acc_add. simpl. rewrite N.lor_0_r. reflexivity. Qed.

(* ---- reader inversions ---- *)
Lemma read_fixmap_inv : forall l c r, read_fixmap l = Some (c, r) -> l = (128 + c) :: r /\ c <= 15.
Proof.
  intros [|b l] c r H; simpl in H; [discriminate|].
  destruct ((b <? 128) || (143 <? b)) eqn:E; [discriminate|].
  apply orb_false_iff in E as [E1 E2]. apply N.ltb_ge in E1, E2.
  inversion H; subst. split; [f_equal; lia | lia].
Qed.

Lemma read_string_inv : forall l s r, read_string l = Some (s, r) -> l = fxk s ++ r.
Proof.
  intros [|b l] s r H; simpl in H; [discriminate|].
  destruct ((b <? 160) || (191 <? b)) eqn:E; [discriminate|].
  apply orb_false_iff in E as [E1 E2]. apply N.ltb_ge in E1, E2.
  apply take_n_inv in H as [-> Hlen]. unfold fxk. cbn [app]. f_equal. lia.
Qed.

Lemma expect_key_inv : forall k l r, expect_key k l = Some r -> l = fxk k ++ r.
Proof.
  unfold expect_key. intros k l r H. apply bind_some in H as ([s r0] & H1 & H).
  destruct (bytes_eqb s k) eqn:E; [|discriminate]. apply bytes_eqb_eq in E. subst s.
  inversion H; subst. apply read_string_inv. assumption.
Qed.

Lemma read_bin_inv : forall sz l v r, read_bin sz l = Some (v, r) ->
  l = 196 :: sz :: v ++ r /\ List.length v = N.to_nat sz.
Proof.
  unfold read_bin. intros sz l v r H. apply bind_some in H as ([d r0] & H1 & H).
  apply take_n_inv in H1 as [-> Hlen].
  destruct d as [|m [|s v0]]; try discriminate.
  destruct ((m =? 196) && (s =? sz)) eqn:E; [|discriminate].
  apply andb_true_iff in E as [E1 E2]. apply N.eqb_eq in E1, E2. subst m s.
  inversion H; subst. simpl in Hlen. split; [reflexivity | lia].
Qed.

(* ---- the map loops ---- *)
Definition dispatch_spec (dispatch : bytes -> bytes -> acc -> option (bytes * acc)) (P : item -> Prop) : Prop :=
  forall key l a l2 a2, dispatch key l a = Some (l2, a2) ->
    exists it, it_key it = key /\ P it /\ l = it_in it ++ l2 /\ a2 = acc_add a it.

Inductive chain : option bytes -> list item -> Prop :=
| chain_nil : forall prev, chain prev []
| chain_cons : forall prev it l,
    match prev with None => True | Some p => bytes_ltb p (it_key it) = true end ->
    chain (Some (it_key it)) l -> chain prev (it :: l).

Lemma kv_loop_inv : forall dispatch P, dispatch_spec dispatch P ->
  forall n prev l a l' a',
    kv_loop dispatch true n prev l a = Some (l', a') ->
    exists its, List.length its = n /\ l = flat_map it_enc its ++ l' /\
                a' = fold_left acc_add its a /\ Forall P its /\ chain prev its.
Proof.
  intros dispatch P Hd. induction n as [|n IH]; intros prev l a l' a' H; simpl in H.
  - inversion H; subst. exists []. repeat split; auto; constructor.
  - apply bind_some in H as ([key l1] & Hk & H). apply read_string_inv in Hk. subst l.
    destruct (negb (order_ok true prev key)) eqn:Eo; [discriminate|].
    apply negb_false_iff in Eo. unfold order_ok in Eo. simpl in Eo.
    apply bind_some in H as ([l2 a2] & Hdis & H).
    apply Hd in Hdis as (it & Hkey & HP & -> & ->).
    apply IH in H as (its & Hlen & -> & -> & HF & Hc).
    exists (it :: its). simpl. subst key. repeat split.
    + f_equal. assumption.
    + unfold it_enc at 1. rewrite <- !app_assoc. reflexivity.
    + constructor; assumption.
    + constructor; [|assumption]. destruct prev; [assumption | exact I].
Qed.

(* strictly ascending keys among known keys = strictly increasing ranks *)
Lemma chain_incr : forall (rank : bytes -> nat) (known : bytes -> Prop),
  (forall a b, known a -> known b -> bytes_ltb a b = true -> (rank a < rank b)%nat) ->
  forall its prev,
    Forall (fun it => known (it_key it)) its -> chain prev its ->
    (forall p, prev = Some p -> known p) ->
    incr_from (fun it => rank (it_key it))
              (match prev with None => 0%nat | Some p => S (rank p) end) its.
Proof.
  intros rank known Hmono. induction its as [|it its IH]; intros prev HF Hc Hp; [constructor|].
  inversion HF as [|? ? Hk HF']; subst. inversion Hc as [|? ? ? Hlt Hc']; subst.
  constructor.
  - destruct prev as [p|]; [|lia]. specialize (Hmono p (it_key it) (Hp p eq_refl) Hk Hlt). lia.
  - apply (IH (Some (it_key it))); auto. intros p Hpe. inversion Hpe; subst. assumption.
Qed.

(* summaries of a run of the loop *)
Lemma fold_acc : forall its a,
  fold_left acc_add its a =
  {| a_mask := N.lor (a_mask a) (mcat N.lor 0 (map it_mask its));
     a_req := a_req a + mcat N.add 0 (map it_req its);
     a_out := a_out a ++ mcat (@app N) [] (map it_out its) |}.
Proof.
  induction its as [|it its IH]; intros [m r o]; simpl.
  - rewrite N.lor_0_r, N.add_0_r, app_nil_r. reflexivity.
  - rewrite IH. unfold acc_add; simpl. rewrite N.lor_assoc, N.add_assoc, <- app_assoc. reflexivity.
Qed.

Lemma flat_map_mcat : forall {A} (f : A -> bytes) l, flat_map f l = mcat (@app N) [] (map f l).
Proof. induction l as [|x l IH]; simpl; [reflexivity | rewrite IH; reflexivity]. Qed.

Lemma length_mcat : forall {A} (l : list A), List.length l = mcat Nat.add 0%nat (map (fun _ => 1%nat) l).
Proof. induction l as [|x l IH]; simpl; [reflexivity | rewrite IH; reflexivity]. Qed.

(* ---- shapes of the individual fields ---- *)
Definition shape_u (key : bytes) (mask req : N) (it : item) : Prop :=
  it_key it = key /\ is_varuint (it_out it) = true /\ it_in it = it_out it /\
  it_mask it = mask /\ it_req it = req.
Definition shape_b (key : bytes) (n : N) (mask req : N) (it : item) : Prop :=
  it_key it = key /\ List.length (it_out it) = N.to_nat n /\ it_in it = 196 :: n :: it_out it /\
  it_mask it = mask /\ it_req it = req.

Definition P_p (it : item) : Prop :=
  shape_b K_dig 32 2 0 it \/ shape_b K_encdig 32 4 0 it \/ shape_u K_oper 8 0 it \/ shape_b K_oprop 32 16 0 it.

Lemma dispatch_u : forall key i l a l2 a2,
  ('(v, l) <- read_varuint_bytes l ;; Some (l, wr a (Some i) v)) = Some (l2, a2) ->
  exists it, it_key it = key /\ shape_u key (2 ^ i) 0 it /\ l = it_in it ++ l2 /\ a2 = acc_add a it.
Proof.
  intros key i l a l2 a2 H. apply bind_some in H as ([v l'] & Hr & H).
  apply read_varuint_bytes_inv in Hr as [-> Hv]. inversion H; subst.
  exists {| it_key := key; it_in := v; it_out := v; it_mask := 2 ^ i; it_req := 0 |}.
  repeat split; auto. apply wr_opt.
Qed.

Lemma dispatch_u_req : forall key l a l2 a2,
  ('(v, l) <- read_varuint_bytes l ;; Some (l, wr a None v)) = Some (l2, a2) ->
  exists it, it_key it = key /\ shape_u key 0 1 it /\ l = it_in it ++ l2 /\ a2 = acc_add a it.
Proof.
  intros key l a l2 a2 H. apply bind_some in H as ([v l'] & Hr & H).
  apply read_varuint_bytes_inv in Hr as [-> Hv]. inversion H; subst.
  exists {| it_key := key; it_in := v; it_out := v; it_mask := 0; it_req := 1 |}.
  repeat split; auto. apply wr_req.
Qed.

Lemma dispatch_b : forall key n i l a l2 a2,
  ('(v, l) <- read_bin n l ;; Some (l, wr a (Some i) v)) = Some (l2, a2) ->
  exists it, it_key it = key /\ shape_b key n (2 ^ i) 0 it /\ l = it_in it ++ l2 /\ a2 = acc_add a it.
Proof.
  intros key n i l a l2 a2 H. apply bind_some in H as ([v l'] & Hr & H).
  apply read_bin_inv in Hr as [-> Hv]. inversion H; subst.
  exists {| it_key := key; it_in := 196 :: n :: v; it_out := v; it_mask := 2 ^ i; it_req := 0 |}.
  repeat split; auto. apply wr_opt.
Qed.

Lemma dispatch_b_req : forall key n l a l2 a2,
  ('(v, l) <- read_bin n l ;; Some (l, wr a None v)) = Some (l2, a2) ->
  exists it, it_key it = key /\ shape_b key n 0 1 it /\ l = it_in it ++ l2 /\ a2 = acc_add a it.
Proof.
  intros key n l a l2 a2 H. apply bind_some in H as ([v l'] & Hr & H).
  apply read_bin_inv in Hr as [-> Hv]. inversion H; subst.
  exists {| it_key := key; it_in := 196 :: n :: v; it_out := v; it_mask := 0; it_req := 1 |}.
  repeat split; auto. apply wr_req.
Qed.

Lemma dispatch_p_spec : dispatch_spec dispatch_p P_p.
Proof.
  unfold dispatch_spec, dispatch_p, P_p. intros key l a l2 a2 H.
  destruct (bytes_eqb key K_dig) eqn:E1.
  { apply bytes_eqb_eq in E1. apply (dispatch_b key 32 1) in H as (it & ? & ? & ? & ?). subst key. exists it. auto. }
  destruct (bytes_eqb key K_encdig) eqn:E2.
  { apply bytes_eqb_eq in E2. apply (dispatch_b key 32 2) in H as (it & ? & ? & ? & ?). subst key. exists it. auto. }
  destruct (bytes_eqb key K_oper) eqn:E3.
  { apply bytes_eqb_eq in E3. apply (dispatch_u key 3) in H as (it & ? & ? & ? & ?). subst key. exists it. auto 6. }
  destruct (bytes_eqb key K_oprop) eqn:E4; [|discriminate].
  apply bytes_eqb_eq in E4. apply (dispatch_b key 32 4) in H as (it & ? & ? & ? & ?). subst key. exists it. auto 6.
Qed.

(* ---- ranks ---- *)
Definition rank_p (k : bytes) : nat :=
  if bytes_eqb k K_dig then 0 else if bytes_eqb k K_encdig then 1
  else if bytes_eqb k K_oper then 2 else if bytes_eqb k K_oprop then 3 else 4.
Definition known_p (k : bytes) : Prop := k = K_dig \/ k = K_encdig \/ k = K_oper \/ k = K_oprop.

Lemma rank_p_mono : forall a b, known_p a -> known_p b -> bytes_ltb a b = true -> (rank_p a < rank_p b)%nat.
Proof.
  unfold known_p. intros a b [-> | [-> | [-> | ->]]] [-> | [-> | [-> | ->]]] H;
    vm_compute in H; try discriminate; vm_compute; lia.
Qed.

Definition rank_r (k : bytes) : nat :=
  if bytes_eqb k K_per then 0 else if bytes_eqb k K_prop then 1
  else if bytes_eqb k K_rnd then 2 else if bytes_eqb k K_snd then 3
  else if bytes_eqb k K_step then 4 else 5.
Definition known_r (k : bytes) : Prop := k = K_per \/ k = K_prop \/ k = K_rnd \/ k = K_snd \/ k = K_step.

Lemma rank_r_mono : forall a b, known_r a -> known_r b -> bytes_ltb a b = true -> (rank_r a < rank_r b)%nat.
Proof.
  unfold known_r. intros a b [-> | [-> | [-> | [-> | ->]]]] [-> | [-> | [-> | [-> | ->]]]] H;
    vm_compute in H; try discriminate; vm_compute; lia.
Qed.

Lemma P_p_known : forall it, P_p it -> known_p (it_key it) /\ (rank_p (it_key it) < 4)%nat.
Proof.
  unfold P_p, known_p. intros it [H | [H | [H | H]]]; destruct H as (-> & _); split; auto; vm_compute; lia.
Qed.

(* what one slot of the proposalValue map contributes *)
Definition pslot (its : list item) (j : nat) : option item := slot (fun it => rank_p (it_key it)) j its.

Lemma pslot_shape : forall its j it, Forall P_p its -> pslot its j = Some it ->
  P_p it /\ rank_p (it_key it) = j.
Proof.
  intros its j it HF H. apply slot_some in H as [Hin Hr]. rewrite Forall_forall in HF. auto.
Qed.

(* fields of a vote read off the slots: the value bytes, [] when the slot is empty *)
Definition sval (o : option item) : bytes := match o with Some it => it_out it | None => [] end.

Lemma sval_bin_slot : forall key n mask o,
  (forall it, o = Some it -> shape_b key n mask 0 it) -> (0 < n) ->
  opt (is_bin (N.to_nat n)) (sval o) = true /\
  match o with Some it => it_enc it | None => [] end =
     when_present (sval o) (fxk key ++ [196; n] ++ sval o) /\
  match o with Some it => it_mask it | None => 0 end = mask * has (sval o) /\
  match o with Some it => 1%nat | None => 0%nat end = N.to_nat (has (sval o)).
Proof.
  intros key n mask [it|] H Hn; simpl.
  - destruct (H it eq_refl) as (Hk & Hl & Hi & Hm & _).
    assert (Hnn : is_nil (it_out it) = false) by (destruct (it_out it); [simpl in Hl; lia | reflexivity]).
    unfold opt, is_bin, when_present, has, it_enc. rewrite Hnn, Hk, Hi, Hm. simpl.
    repeat split; try lia; try (apply Nat.eqb_eq; assumption).
  - unfold opt, when_present, has. simpl. repeat split; lia.
Qed.

Lemma sval_u_slot : forall key mask req o,
  (forall it, o = Some it -> shape_u key mask req it) ->
  opt is_varuint (sval o) = true /\
  match o with Some it => it_enc it | None => [] end = when_present (sval o) (fxk key ++ sval o) /\
  match o with Some it => it_mask it | None => 0 end = mask * has (sval o) /\
  match o with Some it => it_req it | None => 0 end = req * has (sval o) /\
  match o with Some it => 1%nat | None => 0%nat end = N.to_nat (has (sval o)).
Proof.
  intros key mask req [it|] H; simpl.
  - destruct (H it eq_refl) as (Hk & Hv & Hi & Hm & Hq).
    pose proof (is_varuint_not_nil _ Hv) as Hnn.
    unfold opt, when_present, has, it_enc. rewrite Hnn, Hk, Hi, Hm, Hq, Hv. simpl.
    repeat split; lia.
  - unfold opt, when_present, has. simpl. repeat split; lia.
Qed.

Lemma has_01 : forall d, has d = 0 \/ has d = 1.
Proof. intro d. unfold has. destruct (is_nil d); auto. Qed.

(* the proposalValue map, canonically *)
Definition prop_in (dig encdig oper oprop : bytes) : bytes :=
  (128 + (has dig + has encdig + has oper + has oprop)) ::
  when_present dig (enc_bin "dig" dig) ++ when_present encdig (enc_bin "encdig" encdig) ++
  when_present oper (enc_u "oper" oper) ++ when_present oprop (enc_bin "oprop" oprop).

Definition prop_item (dig encdig oper oprop : bytes) : item :=
  {| it_key := K_prop; it_in := prop_in dig encdig oper oprop; it_out := dig ++ encdig ++ oper ++ oprop;
     it_mask := 2 * has dig + 4 * has encdig + 8 * has oper + 16 * has oprop; it_req := 0 |}.

Lemma lor_prop_masks : forall a b c d,
  (a = 0 \/ a = 1) -> (b = 0 \/ b = 1) -> (c = 0 \/ c = 1) -> (d = 0 \/ d = 1) ->
  N.lor (2 * a) (N.lor (4 * b) (N.lor (8 * c) (N.lor (16 * d) 0))) = 2 * a + 4 * b + 8 * c + 16 * d.
Proof. intros a b c d [-> | ->] [-> | ->] [-> | ->] [-> | ->]; reflexivity. Qed.

Lemma fxk_fx : forall s, fxk (str s) = fx s.
Proof.
  intro s. unfold fxk, fx. f_equal. f_equal. f_equal.
  induction s as [|c s IH]; simpl; [reflexivity | rewrite IH; reflexivity].
Qed.

Lemma prop_loop_canon : forall cnt l a l' a',
  1 <= cnt -> cnt <= 4 ->
  kv_loop dispatch_p true (N.to_nat cnt) None l a = Some (l', a') ->
  exists dig encdig oper oprop,
    opt (is_bin 32) dig = true /\ opt (is_bin 32) encdig = true /\ opt is_varuint oper = true /\
    opt (is_bin 32) oprop = true /\
    cnt = has dig + has encdig + has oper + has oprop /\
    (128 + cnt) :: l = it_in (prop_item dig encdig oper oprop) ++ l' /\
    a' = acc_add a (prop_item dig encdig oper oprop).
Proof.
  intros cnt l a l' a' Hc1 Hc4 H.
  apply (kv_loop_inv dispatch_p P_p dispatch_p_spec) in H as (its & Hlen & -> & -> & HF & Hch).
  assert (HFk : Forall (fun it => known_p (it_key it)) its).
  { eapply Forall_impl; [|exact HF]. intros it Hit. apply P_p_known. assumption. }
  pose proof (chain_incr rank_p known_p rank_p_mono its None HFk Hch) as Hincr.
  specialize (Hincr ltac:(intros p Hp; discriminate)). simpl in Hincr.
  assert (Hb : forall x, In x its -> (rank_p (it_key x) < 0 + 4)%nat).
  { intros x Hx. rewrite Forall_forall in HF. apply P_p_known. auto. }
  set (rk := fun it => rank_p (it_key it)) in *.
  (* the four summaries, slot by slot *)
  pose proof (slots_mcat item bytes rk (@app N) [] it_enc (fun x => eq_refl) 4 0 its Hincr Hb) as Senc.
  pose proof (slots_mcat item bytes rk (@app N) [] it_out (fun x => eq_refl) 4 0 its Hincr Hb) as Sout.
  pose proof (slots_mcat item N rk N.lor 0 it_mask N.lor_0_l 4 0 its Hincr Hb) as Smask.
  pose proof (slots_mcat item N rk N.add 0 it_req N.add_0_l 4 0 its Hincr Hb) as Sreq.
  pose proof (slots_mcat item nat rk Nat.add 0%nat (fun _ => 1%nat) (fun x => eq_refl) 4 0 its Hincr Hb) as Scnt.
  rewrite <- length_mcat in Scnt. rewrite <- flat_map_mcat in Senc.
  simpl seq in *. unfold mcat in Senc, Sout, Smask, Sreq, Scnt. simpl map in *. simpl fold_right in *.
  unfold fslot in *. subst rk. fold (pslot its 0) (pslot its 1) (pslot its 2) (pslot its 3) in *.
  (* shapes of the slots *)
  assert (S0 : forall it, pslot its 0 = Some it -> shape_b K_dig 32 2 0 it).
  { intros it Hs. destruct (pslot_shape its 0 it HF Hs) as [[Hp | [Hp | [Hp | Hp]]] Hr]; auto;
      destruct Hp as (Hk & _); rewrite Hk in Hr; vm_compute in Hr; discriminate. }
  assert (S1 : forall it, pslot its 1 = Some it -> shape_b K_encdig 32 4 0 it).
  { intros it Hs. destruct (pslot_shape its 1 it HF Hs) as [[Hp | [Hp | [Hp | Hp]]] Hr]; auto;
      destruct Hp as (Hk & _); rewrite Hk in Hr; vm_compute in Hr; discriminate. }
  assert (S2 : forall it, pslot its 2 = Some it -> shape_u K_oper 8 0 it).
  { intros it Hs. destruct (pslot_shape its 2 it HF Hs) as [[Hp | [Hp | [Hp | Hp]]] Hr]; auto;
      destruct Hp as (Hk & _); rewrite Hk in Hr; vm_compute in Hr; discriminate. }
  assert (S3 : forall it, pslot its 3 = Some it -> shape_b K_oprop 32 16 0 it).
  { intros it Hs. destruct (pslot_shape its 3 it HF Hs) as [[Hp | [Hp | [Hp | Hp]]] Hr]; auto;
      destruct Hp as (Hk & _); rewrite Hk in Hr; vm_compute in Hr; discriminate. }
  destruct (sval_bin_slot K_dig 32 2 _ S0 ltac:(lia)) as (W0 & E0 & M0 & C0).
  destruct (sval_bin_slot K_encdig 32 4 _ S1 ltac:(lia)) as (W1 & E1 & M1 & C1).
  destruct (sval_u_slot K_oper 8 0 _ S2) as (W2 & E2 & M2 & Q2 & C2).
  destruct (sval_bin_slot K_oprop 32 16 _ S3 ltac:(lia)) as (W3 & E3 & M3 & C3).
  exists (sval (pslot its 0)), (sval (pslot its 1)), (sval (pslot its 2)), (sval (pslot its 3)).
  change (N.to_nat 32) with 32%nat in *.
  assert (Hcnt : cnt = has (sval (pslot its 0)) + has (sval (pslot its 1)) + has (sval (pslot its 2)) + has (sval (pslot its 3))).
  { rewrite C0, C1, C2, C3 in Scnt. lia. }
  repeat split; try assumption.
  - (* input bytes *)
    rewrite Senc, E0, E1, E2, E3. unfold prop_item, prop_in; cbn [it_in].
    rewrite <- Hcnt. unfold enc_bin, enc_u.
    rewrite <- !fxk_fx. unfold K_dig, K_encdig, K_oper, K_oprop.
    assert (L0 : forall d, opt (is_bin 32) d = true -> when_present d (fxk (str "dig") ++ [196; 32] ++ d) = when_present d (fxk (str "dig") ++ [196; N.of_nat (List.length d)] ++ d)).
    { intros d Hd. unfold when_present, opt, is_bin in *. destruct (is_nil d); [reflexivity|]. simpl in Hd. apply Nat.eqb_eq in Hd. rewrite Hd. reflexivity. }
    assert (L1 : forall d, opt (is_bin 32) d = true -> when_present d (fxk (str "encdig") ++ [196; 32] ++ d) = when_present d (fxk (str "encdig") ++ [196; N.of_nat (List.length d)] ++ d)).
    { intros d Hd. unfold when_present, opt, is_bin in *. destruct (is_nil d); [reflexivity|]. simpl in Hd. apply Nat.eqb_eq in Hd. rewrite Hd. reflexivity. }
    assert (L3 : forall d, opt (is_bin 32) d = true -> when_present d (fxk (str "oprop") ++ [196; 32] ++ d) = when_present d (fxk (str "oprop") ++ [196; N.of_nat (List.length d)] ++ d)).
    { intros d Hd. unfold when_present, opt, is_bin in *. destruct (is_nil d); [reflexivity|]. simpl in Hd. apply Nat.eqb_eq in Hd. rewrite Hd. reflexivity. }
    rewrite (L0 _ W0), (L1 _ W1), (L3 _ W3). rewrite app_nil_r.
    simpl app. rewrite <- !app_assoc. reflexivity.
  - (* accumulator *)
    rewrite fold_acc. unfold acc_add, prop_item; cbn [it_mask it_req it_out].
    unfold mcat. unfold bytes in *. rewrite Sout, Smask, Sreq.
    fold (sval (pslot its 0)) (sval (pslot its 1)) (sval (pslot its 2)) (sval (pslot its 3)).
    rewrite M0, M1, M2, M3.
    assert (R0 : forall o, (forall it, o = Some it -> it_req it = 0) -> match o with Some it => it_req it | None => 0 end = 0).
    { intros [it|] Hq; auto. }
    rewrite (R0 (pslot its 0)) by (intros it Hs; apply S0 in Hs; apply Hs).
    rewrite (R0 (pslot its 1)) by (intros it Hs; apply S1 in Hs; apply Hs).
    rewrite (R0 (pslot its 2)) by (intros it Hs; apply S2 in Hs; apply Hs).
    rewrite (R0 (pslot its 3)) by (intros it Hs; apply S3 in Hs; apply Hs).
    rewrite lor_prop_masks by apply has_01.
    rewrite app_nil_r. reflexivity.
Qed.

(* ---- the rawVote map ---- *)
Definition prop_shape (it : item) : Prop :=
  exists dig encdig oper oprop,
    opt (is_bin 32) dig = true /\ opt (is_bin 32) encdig = true /\ opt is_varuint oper = true /\
    opt (is_bin 32) oprop = true /\ 1 <= has dig + has encdig + has oper + has oprop /\
    it = prop_item dig encdig oper oprop.

Definition P_r (it : item) : Prop :=
  shape_u K_per 1 0 it \/ prop_shape it \/ shape_u K_rnd 0 1 it \/ shape_b K_snd 32 0 1 it \/
  shape_u K_step 32 0 it.

Lemma dispatch_r_spec : dispatch_spec (dispatch_r true) P_r.
Proof.
  unfold dispatch_spec, dispatch_r, P_r. intros key l a l2 a2 H.
  destruct (bytes_eqb key K_per) eqn:E1.
  { apply bytes_eqb_eq in E1. apply (dispatch_u key 0) in H as (it & ? & ? & ? & ?). subst key. exists it. auto. }
  destruct (bytes_eqb key K_prop) eqn:E2.
  { apply bytes_eqb_eq in E2. subst key.
    apply bind_some in H as ([cnt l1] & Hf & H). apply read_fixmap_inv in Hf as [-> _].
    destruct ((cnt <? 1) || (4 <? cnt)) eqn:Ec; [discriminate|].
    apply orb_false_iff in Ec as [Ec1 Ec2]. apply N.ltb_ge in Ec1, Ec2.
    apply prop_loop_canon in H as (dig & encdig & oper & oprop & W0 & W1 & W2 & W3 & Hc & Hin & Ha); try assumption.
    exists (prop_item dig encdig oper oprop).
    split; [reflexivity|]. split; [|split; assumption].
    right; left. exists dig, encdig, oper, oprop.
    split; [assumption|]. split; [assumption|]. split; [assumption|]. split; [assumption|].
    split; [lia | reflexivity]. }
  destruct (bytes_eqb key K_rnd) eqn:E3.
  { apply bytes_eqb_eq in E3. apply (dispatch_u_req key) in H as (it & ? & ? & ? & ?). subst key. exists it. auto 6. }
  destruct (bytes_eqb key K_snd) eqn:E4.
  { apply bytes_eqb_eq in E4. apply (dispatch_b_req key 32) in H as (it & ? & ? & ? & ?). subst key. exists it. auto 7. }
  destruct (bytes_eqb key K_step) eqn:E5; [|discriminate].
  apply bytes_eqb_eq in E5. apply (dispatch_u key 5) in H as (it & ? & ? & ? & ?). subst key. exists it. auto 8.
Qed.

Lemma P_r_known : forall it, P_r it -> known_r (it_key it) /\ (rank_r (it_key it) < 5)%nat.
Proof.
  unfold P_r, known_r. intros it [H | [H | [H | [H | H]]]].
  2:{ destruct H as (d & e & o & p & _ & _ & _ & _ & _ & ->). cbn [it_key prop_item]. split; [auto 6 | vm_compute; lia]. }
  all: destruct H as (-> & _); (split; [auto 6 | vm_compute; lia]).
Qed.

Definition rslot (its : list item) (j : nat) : option item := slot (fun it => rank_r (it_key it)) j its.

Lemma rslot_shape : forall its j it, Forall P_r its -> rslot its j = Some it ->
  P_r it /\ rank_r (it_key it) = j.
Proof.
  intros its j it HF H. apply slot_some in H as [Hin Hr]. rewrite Forall_forall in HF. auto.
Qed.

Lemma lor_vote_masks : forall a b c d e f x y,
  (a = 0 \/ a = 1) -> (b = 0 \/ b = 1) -> (c = 0 \/ c = 1) -> (d = 0 \/ d = 1) -> (e = 0 \/ e = 1) ->
  (f = 0 \/ f = 1) ->
  N.lor 0 (N.lor (1 * a) (N.lor (2 * b + 4 * c + 8 * d + 16 * e) (N.lor (0 * x) (N.lor (0 * y) (N.lor (32 * f) 0))))) =
  a + 2 * b + 4 * c + 8 * d + 16 * e + 32 * f.
Proof.
  intros a b c d e f x y [-> | ->] [-> | ->] [-> | ->] [-> | ->] [-> | ->] [-> | ->];
    rewrite !N.mul_0_l; reflexivity.
Qed.

Lemma bin_len : forall n d, List.length d = N.to_nat n -> [196; n] ++ d = [196; N.of_nat (List.length d)] ++ d.
Proof. intros n d H. rewrite H, N2Nat.id. reflexivity. Qed.

Lemma opt_has_1 : forall ok d, opt ok d = true -> has d = 1 -> ok d = true.
Proof.
  unfold opt, has. intros ok d H H1. destruct (is_nil d); [discriminate|]. exact H.
Qed.

Theorem parse_canonical : forall m x,
  compress_vote true m = Some x ->
  exists v, wf_vote v = true /\ m = encode_msgp v /\ x = frame v.
Proof.
  unfold compress_vote. intros m x H.
  apply bind_some in H as (a & Hp & H).
  destruct (Nat.ltb max_compressed_vote_size (2 + List.length (a_out a))); [discriminate|].
  destruct (negb (a_req a =? 8)) eqn:Ereq; [discriminate|].
  apply negb_false_iff, N.eqb_eq in Ereq. inversion H; subst x; clear H.
  unfold parse_vote in Hp.
  apply bind_some in Hp as ([c0 l0] & H0 & Hp). apply read_fixmap_inv in H0 as [-> _].
  destruct (negb (c0 =? 3)) eqn:E0; [discriminate|]. apply negb_false_iff, N.eqb_eq in E0. subst c0.
  apply bind_some in Hp as (l1 & H1 & Hp). apply expect_key_inv in H1. subst l0.
  apply bind_some in Hp as ([c1 l2] & H2 & Hp). apply read_fixmap_inv in H2 as [-> _].
  destruct (negb (c1 =? 1)) eqn:E1; [discriminate|]. apply negb_false_iff, N.eqb_eq in E1. subst c1.
  apply bind_some in Hp as (l3 & H3 & Hp). apply expect_key_inv in H3. subst l2.
  apply bind_some in Hp as ([pf l4] & H4 & Hp). apply read_bin_inv in H4 as [-> Lpf].
  cbv zeta in Hp.
  apply bind_some in Hp as (l5 & H5 & Hp). apply expect_key_inv in H5. subst l4.
  apply bind_some in Hp as ([cr l6] & H6 & Hp). apply read_fixmap_inv in H6 as [-> _].
  destruct ((cr <? 1) || (5 <? cr)) eqn:Ecr; [discriminate|].
  apply bind_some in Hp as ([l7 a1] & Hloop & Hp).
  apply bind_some in Hp as (l8 & H8 & Hp). apply expect_key_inv in H8. subst l7.
  apply bind_some in Hp as ([c6 l9] & H9 & Hp). apply read_fixmap_inv in H9 as [-> _].
  destruct (negb (c6 =? 6)) eqn:E6; [discriminate|]. apply negb_false_iff, N.eqb_eq in E6. subst c6.
  apply bind_some in Hp as (l10 & H10 & Hp). apply expect_key_inv in H10. subst l9.
  apply bind_some in Hp as ([p l11] & H11 & Hp). apply read_bin_inv in H11 as [-> Lp].
  apply bind_some in Hp as (l12 & H12 & Hp). apply expect_key_inv in H12. subst l11.
  apply bind_some in Hp as ([p1s l13] & H13 & Hp). apply read_bin_inv in H13 as [-> Lp1s].
  apply bind_some in Hp as (l14 & H14 & Hp). apply expect_key_inv in H14. subst l13.
  apply bind_some in Hp as ([p2 l15] & H15 & Hp). apply read_bin_inv in H15 as [-> Lp2].
  apply bind_some in Hp as (l16 & H16 & Hp). apply expect_key_inv in H16. subst l15.
  apply bind_some in Hp as ([p2s l17] & H17 & Hp). apply read_bin_inv in H17 as [-> Lp2s].
  apply bind_some in Hp as (l18 & H18 & Hp). apply expect_key_inv in H18. subst l17.
  apply bind_some in Hp as ([ps l19] & H19 & Hp). apply read_bin_inv in H19 as [-> Lps].
  destruct (negb (bytes_eqb ps (zeros 64))) eqn:Eps; [discriminate|].
  apply negb_false_iff, bytes_eqb_eq in Eps. subst ps.
  apply bind_some in Hp as (l20 & H20 & Hp). apply expect_key_inv in H20. subst l19.
  apply bind_some in Hp as ([s l21] & H21 & Hp). apply read_bin_inv in H21 as [-> Ls].
  destruct (negb (is_nil l21)) eqn:Enil; [discriminate|].
  apply negb_false_iff, is_nil_true in Enil. subst l21.
  inversion Hp; subst a; clear Hp.
  (* the rawVote loop *)
  apply (kv_loop_inv (dispatch_r true) P_r dispatch_r_spec) in Hloop as (its & Hlen & -> & -> & HF & Hch).
  assert (HFk : Forall (fun it => known_r (it_key it)) its).
  { eapply Forall_impl; [|exact HF]. intros it Hit. apply P_r_known. assumption. }
  pose proof (chain_incr rank_r known_r rank_r_mono its None HFk Hch) as Hincr.
  specialize (Hincr ltac:(intros q Hq; discriminate)). simpl in Hincr.
  assert (Hb : forall y, In y its -> (rank_r (it_key y) < 0 + 5)%nat).
  { intros y Hy. rewrite Forall_forall in HF. apply P_r_known. auto. }
  pose proof (slots_mcat item bytes (fun it => rank_r (it_key it)) (@app N) [] it_enc (fun x => eq_refl) 5 0 its Hincr Hb) as Senc.
  pose proof (slots_mcat item bytes (fun it => rank_r (it_key it)) (@app N) [] it_out (fun x => eq_refl) 5 0 its Hincr Hb) as Sout.
  pose proof (slots_mcat item N (fun it => rank_r (it_key it)) N.lor 0 it_mask N.lor_0_l 5 0 its Hincr Hb) as Smask.
  pose proof (slots_mcat item N (fun it => rank_r (it_key it)) N.add 0 it_req N.add_0_l 5 0 its Hincr Hb) as Sreq.
  pose proof (slots_mcat item nat (fun it => rank_r (it_key it)) Nat.add 0%nat (fun _ => 1%nat) (fun x => eq_refl) 5 0 its Hincr Hb) as Scnt.
  rewrite <- length_mcat in Scnt. rewrite <- flat_map_mcat in Senc.
  simpl seq in *. unfold mcat in Senc, Sout, Smask, Sreq, Scnt. simpl map in *. simpl fold_right in *.
  unfold fslot in *.
  fold (rslot its 0) (rslot its 1) (rslot its 2) (rslot its 3) (rslot its 4) in *.
  assert (S0 : forall it, rslot its 0 = Some it -> shape_u K_per 1 0 it).
  { intros it Hs. destruct (rslot_shape its 0 it HF Hs) as [[Hq | [Hq | [Hq | [Hq | Hq]]]] Hr]; auto;
      try (destruct Hq as (Hk & _); rewrite Hk in Hr; vm_compute in Hr; discriminate).
    destruct Hq as (d & e & o & q & _ & _ & _ & _ & _ & ->). vm_compute in Hr. discriminate. }
  assert (S1 : forall it, rslot its 1 = Some it -> prop_shape it).
  { intros it Hs. destruct (rslot_shape its 1 it HF Hs) as [[Hq | [Hq | [Hq | [Hq | Hq]]]] Hr]; auto;
      destruct Hq as (Hk & _); rewrite Hk in Hr; vm_compute in Hr; discriminate. }
  assert (S2 : forall it, rslot its 2 = Some it -> shape_u K_rnd 0 1 it).
  { intros it Hs. destruct (rslot_shape its 2 it HF Hs) as [[Hq | [Hq | [Hq | [Hq | Hq]]]] Hr]; auto;
      try (destruct Hq as (Hk & _); rewrite Hk in Hr; vm_compute in Hr; discriminate).
    destruct Hq as (d & e & o & q & _ & _ & _ & _ & _ & ->). vm_compute in Hr. discriminate. }
  assert (S3 : forall it, rslot its 3 = Some it -> shape_b K_snd 32 0 1 it).
  { intros it Hs. destruct (rslot_shape its 3 it HF Hs) as [[Hq | [Hq | [Hq | [Hq | Hq]]]] Hr]; auto;
      try (destruct Hq as (Hk & _); rewrite Hk in Hr; vm_compute in Hr; discriminate).
    destruct Hq as (d & e & o & q & _ & _ & _ & _ & _ & ->). vm_compute in Hr. discriminate. }
  assert (S4 : forall it, rslot its 4 = Some it -> shape_u K_step 32 0 it).
  { intros it Hs. destruct (rslot_shape its 4 it HF Hs) as [[Hq | [Hq | [Hq | [Hq | Hq]]]] Hr]; auto;
      try (destruct Hq as (Hk & _); rewrite Hk in Hr; vm_compute in Hr; discriminate).
    destruct Hq as (d & e & o & q & _ & _ & _ & _ & _ & ->). vm_compute in Hr. discriminate. }
  destruct (sval_u_slot K_per 1 0 _ S0) as (W0 & E0 & M0 & Q0 & C0).
  destruct (sval_u_slot K_rnd 0 1 _ S2) as (W2 & E2 & M2 & Q2 & C2).
  assert (S3' : forall it, rslot its 3 = Some it -> shape_b K_snd 32 0 1 it) by exact S3.
  assert (X3 : opt (is_bin 32) (sval (rslot its 3)) = true /\
               match rslot its 3 with Some it => it_enc it | None => [] end =
                 when_present (sval (rslot its 3)) (fxk K_snd ++ [196; 32] ++ sval (rslot its 3)) /\
               match rslot its 3 with Some it => it_mask it | None => 0 end = 0 * has (sval (rslot its 3)) /\
               match rslot its 3 with Some it => it_req it | None => 0 end = 1 * has (sval (rslot its 3)) /\
               match rslot its 3 with Some it => 1%nat | None => 0%nat end = N.to_nat (has (sval (rslot its 3)))).
  { destruct (rslot its 3) as [it|]; simpl.
    - destruct (S3 it eq_refl) as (Hk & Hl & Hi & Hm & Hq).
      assert (Hnn : is_nil (it_out it) = false) by (destruct (it_out it); [simpl in Hl; lia | reflexivity]).
      unfold opt, is_bin, when_present, has, it_enc. rewrite Hnn, Hk, Hi, Hm, Hq. simpl.
      repeat split; try lia; try (apply Nat.eqb_eq; assumption).
    - unfold opt, when_present, has. simpl. repeat split; lia. }
  destruct X3 as (W3 & E3 & M3 & Q3 & C3).
  destruct (sval_u_slot K_step 32 0 _ S4) as (W4 & E4 & M4 & Q4 & C4).
  (* the proposal slot *)
  assert (X1 : exists dig encdig oper oprop,
     opt (is_bin 32) dig = true /\ opt (is_bin 32) encdig = true /\ opt is_varuint oper = true /\
     opt (is_bin 32) oprop = true /\
     match rslot its 1 with Some it => it_enc it | None => [] end =
       (if has dig + has encdig + has oper + has oprop =? 0 then []
        else fx "prop" ++ [128 + (has dig + has encdig + has oper + has oprop)]) ++
       when_present dig (enc_bin "dig" dig) ++ when_present encdig (enc_bin "encdig" encdig) ++
       when_present oper (enc_u "oper" oper) ++ when_present oprop (enc_bin "oprop" oprop) /\
     match rslot its 1 with Some it => it_out it | None => [] end = dig ++ encdig ++ oper ++ oprop /\
     match rslot its 1 with Some it => it_mask it | None => 0 end =
       2 * has dig + 4 * has encdig + 8 * has oper + 16 * has oprop /\
     match rslot its 1 with Some it => it_req it | None => 0 end = 0 /\
     match rslot its 1 with Some it => 1%nat | None => 0%nat end =
       N.to_nat (if has dig + has encdig + has oper + has oprop =? 0 then 0 else 1)).
  { destruct (rslot its 1) as [it|] eqn:Er1.
    - destruct (S1 it eq_refl) as (d & e & o & q & Wd & We & Wo & Wq & Hc & ->).
      exists d, e, o, q. repeat split; try assumption.
      + replace (has d + has e + has o + has q =? 0) with false by (symmetry; apply N.eqb_neq; lia).
        unfold it_enc, prop_item, prop_in; cbn [it_key it_in]. unfold K_prop. rewrite fxk_fx.
        cbn [app]. rewrite <- !app_assoc. reflexivity.
      + replace (has d + has e + has o + has q =? 0) with false by (symmetry; apply N.eqb_neq; lia).
        reflexivity.
    - exists [], [], [], []. repeat split; reflexivity. }
  destruct X1 as (dig & encdig & oper & oprop & Wd & We & Wo & Wq & E1 & O1 & M1 & Q1 & C1).
  (* required fields: rnd and snd are present *)
  rewrite fold_acc in Ereq. unfold wr in Ereq; cbn [a_req a_mask a_out] in Ereq.
  unfold mcat in Ereq. rewrite Sreq, Q0, Q1, Q2, Q3, Q4 in Ereq.
  assert (Hrnd1 : has (sval (rslot its 2)) = 1)
    by (destruct (has_01 (sval (rslot its 2))), (has_01 (sval (rslot its 3))); lia).
  assert (Hsnd1 : has (sval (rslot its 3)) = 1)
    by (destruct (has_01 (sval (rslot its 2))), (has_01 (sval (rslot its 3))); lia).
  set (v := {| v_pf := pf; v_per := sval (rslot its 0); v_dig := dig; v_encdig := encdig; v_oper := oper;
               v_oprop := oprop; v_rnd := sval (rslot its 2); v_snd := sval (rslot its 3);
               v_step := sval (rslot its 4); v_p := p; v_p1s := p1s; v_p2 := p2; v_p2s := p2s; v_s := s |}).
  exists v.
  assert (Hcr : cr = raw_count v).
  { unfold raw_count, prop_count; cbn [v v_per v_step v_dig v_encdig v_oper v_oprop].
    rewrite C0, C1, C2, C3, C4, Hrnd1, Hsnd1 in Scnt.
    destruct (has dig + has encdig + has oper + has oprop =? 0);
      destruct (has_01 (sval (rslot its 0))) as [Z0|Z0], (has_01 (sval (rslot its 4))) as [Z4|Z4];
      rewrite Z0, Z4 in *; simpl in Scnt; lia. }
  split; [|split].
  - (* well-formed *)
    unfold wf_vote; cbn [v v_pf v_per v_dig v_encdig v_oper v_oprop v_rnd v_snd v_step v_p v_p1s v_p2 v_p2s v_s].
    rewrite W0, Wd, We, Wo, Wq, W4.
    rewrite (opt_has_1 _ _ W2 Hrnd1), (opt_has_1 _ _ W3 Hsnd1).
    unfold is_bin. rewrite Lpf, Lp, Lp1s, Lp2, Lp2s, Ls. reflexivity.
  - (* the input is the canonical encoding *)
    unfold encode_msgp; cbn [v v_pf v_per v_dig v_encdig v_oper v_oprop v_rnd v_snd v_step v_p v_p1s v_p2 v_p2s v_s].
    fold v. rewrite <- Hcr. unfold prop_count; cbn [v v_dig v_encdig v_oper v_oprop].
    rewrite Senc, E0, E1, E2, E3, E4.
    assert (Nrnd : is_nil (sval (rslot its 2)) = false)
      by (unfold has in Hrnd1; destruct (is_nil (sval (rslot its 2))); [discriminate | reflexivity]).
    assert (Nsnd : is_nil (sval (rslot its 3)) = false)
      by (unfold has in Hsnd1; destruct (is_nil (sval (rslot its 3))); [discriminate | reflexivity]).
    replace (when_present (sval (rslot its 2)) (fxk K_rnd ++ sval (rslot its 2)))
      with (fxk K_rnd ++ sval (rslot its 2)) by (unfold when_present; rewrite Nrnd; reflexivity).
    replace (when_present (sval (rslot its 3)) (fxk K_snd ++ [196; 32] ++ sval (rslot its 3)))
      with (fxk K_snd ++ [196; 32] ++ sval (rslot its 3)) by (unfold when_present; rewrite Nsnd; reflexivity).
    unfold enc_bin, enc_u. rewrite <- !fxk_fx.
    assert (Lsnd : List.length (sval (rslot its 3)) = 32%nat).
    { unfold opt, is_bin in W3. rewrite Nsnd in W3. simpl in W3. apply Nat.eqb_eq in W3. exact W3. }
    rewrite Lpf, Lp, Lp1s, Lp2, Lp2s, Ls, Lsnd. unfold zeros at 2. rewrite repeat_length.
    rewrite !N2Nat.id. change (128 + 6) with 134. change (128 + 3) with 131. change (128 + 1) with 129.
    unfold K_cred, K_pf, K_r, K_per, K_rnd, K_snd, K_step, K_sig, K_p, K_p1s, K_p2, K_p2s, K_ps, K_s.
    cbn [app N.of_nat N.to_nat Pos.to_nat Pos.iter_op Nat.add Pos.of_succ_nat Pos.succ].
    rewrite <- !app_assoc. cbn [app]. rewrite ?app_nil_r. reflexivity.
  - (* what was written is the frame *)
    unfold frame, vote_body, vote_mask; cbn [v v_pf v_per v_dig v_encdig v_oper v_oprop v_rnd v_snd v_step v_p v_p1s v_p2 v_p2s v_s].
    unfold wr; cbn [a_mask a_req a_out]. rewrite fold_acc; cbn [a_mask a_req a_out].
    unfold mcat. unfold bytes in *. rewrite Sout, Smask, O1, M0, M1, M2, M3, M4.
    fold (sval (rslot its 0)) (sval (rslot its 2)) (sval (rslot its 3)) (sval (rslot its 4)).
    rewrite lor_vote_masks by apply has_01.
    f_equal. f_equal. cbn [app]. rewrite <- !app_assoc. rewrite ?app_nil_r. reflexivity.
Qed.
