(* C33: proofs about the label layer of the assembler model (model/AvmCodec.v, Section Asm):
   findBranchSizes terminates within the fuel that asm_base gives it. *)
From Coq Require Import List NArith ZArith String Bool Arith Lia ZifyN ZifyNat ZifyBool.
From Verif.model Require Import AvmTypes AvmCodec.
From Verif.proofs Require Import AvmCodecProofs.
Import ListNotations.
Local Open Scope nat_scope.

Lemma nat_list_eqb_eq : forall a b, nat_list_eqb a b = true -> a = b.
Proof.
  induction a as [|x a IH]; destruct b as [|y b]; simpl; intros H; try discriminate; auto.
  apply andb_true_iff in H. destruct H as [H1 H2]. apply Nat.eqb_eq in H1. subst. f_equal. auto.
Qed.

Lemma nat_list_eqb_refl : forall a, nat_list_eqb a a = true.
Proof. induction a; simpl; auto. rewrite Nat.eqb_refl. auto. Qed.

Fixpoint sum_nat (l : list nat) : nat :=
  match l with [] => 0 | x :: r => x + sum_nat r end.

(* pointwise: 1 <= new <= old *)
Inductive shrunk : list nat -> list nat -> Prop :=
| shrunk_nil : shrunk [] []
| shrunk_cons : forall a b l m, 1 <= a -> a <= b -> shrunk l m -> shrunk (a :: l) (b :: m).

Lemma shrunk_sum : forall l m, shrunk l m ->
  sum_nat l <= sum_nat m /\ List.length l <= sum_nat l /\ (l <> m -> sum_nat l < sum_nat m).
Proof.
  induction 1; simpl.
  - split; [lia|]. split; [lia|]. intros C. exfalso. apply C. reflexivity.
  - destruct IHshrunk as [I1 [I2 I3]]. split; [lia|]. split; [lia|]. intros C.
    destruct (Nat.eq_dec a b) as [E|E].
    + subst. assert (l <> m) by (intros E; apply C; subst; reflexivity). specialize (I3 H2). lia.
    + lia.
Qed.

Section AsmProofs.
  Variable labs : list nat.

  Lemma shrink_step_shrunk : forall poss ps pos vss,
    List.length ps = List.length vss -> Forall (fun x => 1 <= x) vss ->
    shrunk (shrink_step labs poss pos ps vss) vss.
  Proof.
    induction ps as [|pi ps IH]; intros pos vss Hl Hv; destruct vss as [|vs vss]; simpl in Hl; try discriminate.
    - constructor.
    - inversion Hv; subst. cbn [shrink_step]. constructor.
      + destruct pi; auto. destruct (label_pos labs poss k); auto.
        destruct (n =? pos); auto.
        destruct (List.length (put_varint (vjump pos vs n)) <? vs) eqn:E; auto.
        unfold put_varint. apply put_uvarint_nonempty.
      + destruct pi; auto. destruct (label_pos labs poss k); auto.
        destruct (n =? pos); auto.
        destruct (List.length (put_varint (vjump pos vs n)) <? vs) eqn:E; auto.
        apply Nat.ltb_lt in E. lia.
      + apply IH; auto.
  Qed.

  Lemma shrink_step_length : forall poss ps pos vss,
    List.length ps = List.length vss ->
    List.length (shrink_step labs poss pos ps vss) = List.length vss.
  Proof.
    induction ps as [|pi ps IH]; intros pos vss Hl; destruct vss as [|vs vss]; simpl in Hl;
      try discriminate; auto.
    cbn [shrink_step List.length]. f_equal. apply IH. lia.
  Qed.

  (* findBranchSizes reaches its fixpoint: every round that changes something removes at least
     one placeholder byte, and no placeholder drops below one byte *)
  Lemma find_sizes_total : forall fuel ps vss,
    List.length ps = List.length vss -> Forall (fun x => 1 <= x) vss ->
    sum_nat vss - List.length vss <= fuel ->
    exists r, find_sizes labs fuel ps vss = Some r.
  Proof.
    induction fuel as [|fuel IH]; intros ps vss Hl Hv Hf; cbn [find_sizes].
    - pose proof (shrink_step_shrunk (positions 0 ps vss) ps 0 vss Hl Hv) as Hs.
      destruct (nat_list_eqb (shrink_step labs (positions 0 ps vss) 0 ps vss) vss) eqn:E; eauto.
      apply shrunk_sum in Hs. destruct Hs as [_ [S2 S3]].
      assert (shrink_step labs (positions 0 ps vss) 0 ps vss <> vss).
      { intros C. rewrite C in E. rewrite nat_list_eqb_refl in E. discriminate. }
      specialize (S3 H).
      pose proof (shrink_step_length (positions 0 ps vss) ps 0 vss Hl).
      lia.
    - pose proof (shrink_step_shrunk (positions 0 ps vss) ps 0 vss Hl Hv) as Hs.
      destruct (nat_list_eqb (shrink_step labs (positions 0 ps vss) 0 ps vss) vss) eqn:E; eauto.
      set (vss' := shrink_step labs (positions 0 ps vss) 0 ps vss) in *.
      assert (Hlen : List.length vss' = List.length vss) by (apply shrink_step_length; auto).
      assert (Hne : vss' <> vss).
      { intros C. rewrite C in E. rewrite nat_list_eqb_refl in E. discriminate. }
      pose proof (shrunk_sum _ _ Hs) as [S1 [S2 S3]]. specialize (S3 Hne).
      apply IH.
      + lia.
      + clear -Hs. induction Hs; constructor; auto.
      + lia.
  Qed.

  Theorem find_sizes_initial_total : forall ps,
    exists r, find_sizes labs (2 * List.length ps + 1) ps (map (fun _ => 3) ps) = Some r.
  Proof.
    intros ps. apply find_sizes_total.
    - rewrite map_length. reflexivity.
    - induction ps; simpl; constructor; auto.
    - rewrite map_length.
      assert (sum_nat (map (fun _ : pinstr => 3) ps) = 3 * List.length ps).
      { induction ps; simpl; lia. }
      lia.
  Qed.
End AsmProofs.
