(* C33: proofs about the label layer of the assembler model (model/AvmCodec.v, Section Asm):
   findBranchSizes terminates within the fuel that asm_base gives it. *)
From Coq Require Import List NArith ZArith String Bool Arith Lia ZifyN ZifyNat ZifyBool.
From Verif.model Require Import AvmTypes AvmCodec.
From Verif.proofs Require Import AvmCodecProofs.
Import ListNotations.
Local Open Scope nat_scope.

Lemma nat_list_eqb_eq : forall a b, nat_list_eqb a b = true -> a = b.
Proof.
  induction a as [|x a IH]; destruct b as [|y b]; simpl; intros H; try discriminate; auto.
  apply andb_true_iff in H. destruct H as [H1 H2]. apply Nat.eqb_eq in H1. subst. f_equal. auto.
Qed.

Lemma nat_list_eqb_refl : forall a, nat_list_eqb a a = true.
Proof. induction a; simpl; auto. rewrite Nat.eqb_refl. auto. Qed.

Fixpoint sum_nat (l : list nat) : nat :=
  match l with [] => 0 | x :: r => x + sum_nat r end.

(* pointwise: 1 <= new <= old *)
Inductive shrunk : list nat -> list nat -> Prop :=
| shrunk_nil : shrunk [] []
| shrunk_cons : forall a b l m, 1 <= a -> a <= b -> shrunk l m -> shrunk (a :: l) (b :: m).

Lemma shrunk_sum : forall l m, shrunk l m ->
  sum_nat l <= sum_nat m /\ List.length l <= sum_nat l /\ (l <> m -> sum_nat l < sum_nat m).
Proof.
  induction 1; simpl.
  - split; [lia|]. split; [lia|]. intros C. exfalso. apply C. reflexivity.
  - destruct IHshrunk as [I1 [I2 I3]]. split; [lia|]. split; [lia|]. intros C.
    destruct (Nat.eq_dec a b) as [E|E].
    + subst. assert (l <> m) by (intros E; apply C; subst; reflexivity). specialize (I3 H2). lia.
    + lia.
Qed.

Section AsmProofs.
  Variable labs : list nat.
  Variable back_ver : N.
  Notation resolve_all := (resolve_all back_ver).
  Notation resolve_one := (resolve_one back_ver).

  Lemma shrink_step_shrunk : forall poss ps pos vss,
    List.length ps = List.length vss -> Forall (fun x => 1 <= x) vss ->
    shrunk (shrink_step labs poss pos ps vss) vss.
  Proof.
    induction ps as [|pi ps IH]; intros pos vss Hl Hv; destruct vss as [|vs vss]; simpl in Hl; try discriminate.
    - constructor.
    - inversion Hv; subst. cbn [shrink_step]. constructor.
      + destruct pi; auto. destruct (label_pos labs poss k); auto.
        destruct (n =? pos); auto.
        destruct (List.length (put_varint (vjump pos vs n)) <? vs) eqn:E; auto.
        unfold put_varint. apply put_uvarint_nonempty.
      + destruct pi; auto. destruct (label_pos labs poss k); auto.
        destruct (n =? pos); auto.
        destruct (List.length (put_varint (vjump pos vs n)) <? vs) eqn:E; auto.
        apply Nat.ltb_lt in E. lia.
      + apply IH; auto.
  Qed.

  Lemma shrink_step_length : forall poss ps pos vss,
    List.length ps = List.length vss ->
    List.length (shrink_step labs poss pos ps vss) = List.length vss.
  Proof.
    induction ps as [|pi ps IH]; intros pos vss Hl; destruct vss as [|vs vss]; simpl in Hl;
      try discriminate; auto.
    cbn [shrink_step List.length]. f_equal. apply IH. lia.
  Qed.

  (* findBranchSizes reaches its fixpoint: every round that changes something removes at least
     one placeholder byte, and no placeholder drops below one byte *)
  Lemma find_sizes_total : forall fuel ps vss,
    List.length ps = List.length vss -> Forall (fun x => 1 <= x) vss ->
    sum_nat vss - List.length vss <= fuel ->
    exists r, find_sizes labs fuel ps vss = Some r.
  Proof.
    induction fuel as [|fuel IH]; intros ps vss Hl Hv Hf; cbn [find_sizes].
    - pose proof (shrink_step_shrunk (positions 0 ps vss) ps 0 vss Hl Hv) as Hs.
      destruct (nat_list_eqb (shrink_step labs (positions 0 ps vss) 0 ps vss) vss) eqn:E; eauto.
      apply shrunk_sum in Hs. destruct Hs as [_ [S2 S3]].
      assert (shrink_step labs (positions 0 ps vss) 0 ps vss <> vss).
      { intros C. rewrite C in E. rewrite nat_list_eqb_refl in E. discriminate. }
      specialize (S3 H).
      pose proof (shrink_step_length (positions 0 ps vss) ps 0 vss Hl).
      lia.
    - pose proof (shrink_step_shrunk (positions 0 ps vss) ps 0 vss Hl Hv) as Hs.
      destruct (nat_list_eqb (shrink_step labs (positions 0 ps vss) 0 ps vss) vss) eqn:E; eauto.
      set (vss' := shrink_step labs (positions 0 ps vss) 0 ps vss) in *.
      assert (Hlen : List.length vss' = List.length vss) by (apply shrink_step_length; auto).
      assert (Hne : vss' <> vss).
      { intros C. rewrite C in E. rewrite nat_list_eqb_refl in E. discriminate. }
      pose proof (shrunk_sum _ _ Hs) as [S1 [S2 S3]]. specialize (S3 Hne).
      apply IH.
      + lia.
      + clear -Hs. induction Hs; constructor; auto.
      + lia.
  Qed.

  Theorem find_sizes_initial_total : forall ps,
    exists r, find_sizes labs (2 * List.length ps + 1) ps (map (fun _ => 3) ps) = Some r.
  Proof.
    intros ps. apply find_sizes_total.
    - rewrite map_length. reflexivity.
    - induction ps; simpl; constructor; auto.
    - rewrite map_length.
      assert (sum_nat (map (fun _ : pinstr => 3) ps) = 3 * List.length ps).
      { induction ps; simpl; lia. }
      lia.
  Qed.

  (* ---------------------------------------------------------------- length of a varint *)
  Lemma put_uvarint_f_len_le : forall n f x,
    1 <= n -> (x < 128 ^ N.of_nat n)%N -> List.length (put_uvarint_f f x) <= n.
  Proof.
    induction n as [|n IH]; intros f x Hn Hx; [lia|].
    destruct f as [|f]; [simpl; lia|]. rewrite put_uvarint_f_S.
    destruct (x <? 128)%N eqn:E; [simpl; lia|]. apply N.ltb_ge in E.
    cbn [List.length]. destruct n as [|n].
    - change (128 ^ N.of_nat 1)%N with 128%N in Hx. lia.
    - assert (List.length (put_uvarint_f f (x / 128)) <= S n); [|lia].
      apply IH; [lia|].
      replace (N.of_nat (S (S n))) with (1 + N.of_nat (S n))%N in Hx by lia.
      rewrite N.pow_add_r in Hx. change (128 ^ 1)%N with 128%N in Hx.
      apply N.div_lt_upper_bound; lia.
  Qed.

  Lemma zigzag_bound : forall (vs : nat) (j : Z),
    1 <= vs ->
    (- 2 ^ (7 * Z.of_nat vs - 1) <= j < 2 ^ (7 * Z.of_nat vs - 1))%Z ->
    (zigzag j < 128 ^ N.of_nat vs)%N.
  Proof.
    intros vs j Hvs Hj.
    assert (E : (Z.of_N (128 ^ N.of_nat vs) = 2 * 2 ^ (7 * Z.of_nat vs - 1))%Z).
    { rewrite N2Z.inj_pow. change (Z.of_N 128) with (2 ^ 7)%Z. rewrite <- Z.pow_mul_r by lia.
      replace (7 * Z.of_N (N.of_nat vs))%Z with (1 + (7 * Z.of_nat vs - 1))%Z by lia.
      rewrite Z.pow_add_r by lia. reflexivity. }
    set (Q := (128 ^ N.of_nat vs)%N) in *. set (P := (2 ^ (7 * Z.of_nat vs - 1))%Z) in *.
    clearbody Q P.
    unfold zigzag. destruct (j <? 0)%Z eqn:Ej; [apply Z.ltb_lt in Ej|apply Z.ltb_ge in Ej].
    - apply N2Z.inj_lt. rewrite Z2N.id by lia. rewrite E. lia.
    - apply N2Z.inj_lt. rewrite Z2N.id by lia. rewrite E. lia.
  Qed.

  (* ---------------------------------------------------------------- the fixpoint is exact *)
  (* every varint branch that resolveLabels accepts fills its placeholder exactly *)
  Inductive exact_sizes (poss : list nat) : nat -> list pinstr -> list nat -> Prop :=
  | exact_nil : forall pos, exact_sizes poss pos [] []
  | exact_cons : forall pos pi vs ps vss,
      (forall op k dest, pi = PBranchV op k -> label_pos labs poss k = Some dest -> dest <> pos ->
                         List.length (put_varint (vjump pos vs dest)) = vs) ->
      exact_sizes poss (pos + psize pi vs) ps vss ->
      exact_sizes poss pos (pi :: ps) (vs :: vss).

  Lemma fixpoint_exact : forall v poss endpos ps pos vss bytes,
    List.length ps = List.length vss ->
    shrink_step labs poss pos ps vss = vss ->
    resolve_all v labs poss endpos pos ps vss = Some bytes ->
    exact_sizes poss pos ps vss.
  Proof.
    induction ps as [|pi ps IH]; intros pos vss bytes Hl Hfix Hres; destruct vss as [|vs vss];
      simpl in Hl; try discriminate.
    - constructor.
    - cbn [shrink_step] in Hfix. injection Hfix as Hvs Hrest.
      cbn [AvmCodec.resolve_all] in Hres.
      destruct (resolve_one v labs poss endpos pos pi vs) as [a|] eqn:R1; try discriminate.
      destruct (resolve_all v labs poss endpos (pos + psize pi vs) ps vss) as [b|] eqn:R2; try discriminate.
      constructor.
      + intros op k dest Hpi Hlab Hne. subst pi. rewrite Hlab in Hvs.
        destruct (dest =? pos) eqn:Ed; [apply Nat.eqb_eq in Ed; lia|].
        clear Hrest.
        cbn [AvmCodec.resolve_one] in R1. rewrite Hlab in R1. rewrite Ed in R1.
        destruct ((v <=? 1)%N && (dest =? endpos)); try discriminate.
        destruct ((v <? back_ver)%N && (dest <? pos + 1 + vs)); try discriminate.
        set (jump := vjump pos vs dest) in *.
        destruct ((jump <? - 2 ^ (7 * Z.of_nat vs - 1))%Z || (2 ^ (7 * Z.of_nat vs - 1) <=? jump)%Z) eqn:El;
          try discriminate.
        apply orb_false_iff in El. destruct El as [El1 El2].
        apply Z.ltb_ge in El1. apply Z.leb_gt in El2.
        destruct (List.length (put_varint jump) <? vs) eqn:En.
        * (* would have shrunk: contradiction with the fixpoint *)
          apply Nat.ltb_lt in En. lia.
        * apply Nat.ltb_ge in En.
          assert (Hvs1 : 1 <= vs).
          { destruct (Nat.eq_dec vs 0) as [Ez|Ez]; [|lia]. exfalso. rewrite Ez in El1, El2.
            change (7 * Z.of_nat 0 - 1)%Z with (-1)%Z in *. change (2 ^ (-1))%Z with 0%Z in *. lia. }
          assert (List.length (put_varint jump) <= vs); [|lia].
          unfold put_varint, put_uvarint. apply put_uvarint_f_len_le; [lia|].
          apply zigzag_bound; [lia|]. lia.
      + eapply IH; eauto.
  Qed.

  Lemma find_sizes_fix : forall fuel ps vss r,
    find_sizes labs fuel ps vss = Some r ->
    List.length ps = List.length vss ->
    shrink_step labs (positions 0 ps r) 0 ps r = r /\ List.length ps = List.length r.
  Proof.
    induction fuel as [|fuel IH]; intros ps vss r H Hl; cbn [find_sizes] in H.
    - destruct (nat_list_eqb (shrink_step labs (positions 0 ps vss) 0 ps vss) vss) eqn:E; try discriminate.
      inversion H; subst. apply nat_list_eqb_eq in E. auto.
    - destruct (nat_list_eqb (shrink_step labs (positions 0 ps vss) 0 ps vss) vss) eqn:E.
      + inversion H; subst. apply nat_list_eqb_eq in E. auto.
      + apply IH in H; auto. rewrite shrink_step_length; auto.
  Qed.

  (* at the layout found by findBranchSizes, every resolved varint branch occupies exactly the
     bytes of its minimal encoding: no zero byte of the placeholder survives in the program *)
  Theorem branch_sizes_exact : forall v ps fuel vss bytes,
    find_sizes labs fuel ps (map (fun _ => 3) ps) = Some vss ->
    resolve_all v labs (positions 0 ps vss) (last (positions 0 ps vss) 0) 0 ps vss = Some bytes ->
    exact_sizes (positions 0 ps vss) 0 ps vss.
  Proof.
    intros v ps fuel vss bytes Hf Hr.
    apply find_sizes_fix in Hf; [|rewrite map_length; reflexivity]. destruct Hf as [Hfix Hl].
    eapply fixpoint_exact; eauto.
  Qed.
End AsmProofs.
