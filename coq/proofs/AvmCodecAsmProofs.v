(* C33: proofs about the label layer of the assembler model (model/AvmCodec.v, Section Asm):
   findBranchSizes terminates within the fuel that asm_base gives it. *)
From Coq Require Import List NArith ZArith String Bool Arith Lia ZifyN ZifyNat ZifyBool.
From Verif.model Require Import AvmTypes AvmCodec.
From Verif.proofs Require Import AvmCodecProofs.
Import ListNotations.
Local Open Scope nat_scope.

Lemma nat_list_eqb_eq : forall a b, nat_list_eqb a b = true -> a = b.
Proof.
  induction a as [|x a IH]; destruct b as [|y b]; simpl; intros H; try discriminate; auto.
  apply andb_true_iff in H. destruct H as [H1 H2]. apply Nat.eqb_eq in H1. subst. f_equal. auto.
Qed.

Lemma nat_list_eqb_refl : forall a, nat_list_eqb a a = true.
Proof. induction a; simpl; auto. rewrite Nat.eqb_refl. auto. Qed.

Fixpoint sum_nat (l : list nat) : nat :=
  match l with [] => 0 | x :: r => x + sum_nat r end.

(* pointwise: 1 <= new <= old *)
Inductive shrunk : list nat -> list nat -> Prop :=
| shrunk_nil : shrunk [] []
| shrunk_cons : forall a b l m, 1 <= a -> a <= b -> shrunk l m -> shrunk (a :: l) (b :: m).

Lemma shrunk_sum : forall l m, shrunk l m ->
  sum_nat l <= sum_nat m /\ List.length l <= sum_nat l /\ (l <> m -> sum_nat l < sum_nat m).
Proof.
  induction 1; simpl.
  - split; [lia|]. split; [lia|]. intros C. exfalso. apply C. reflexivity.
  - destruct IHshrunk as [I1 [I2 I3]]. split; [lia|]. split; [lia|]. intros C.
    destruct (Nat.eq_dec a b) as [E|E].
    + subst. assert (l <> m) by (intros E; apply C; subst; reflexivity). specialize (I3 H2). lia.
    + lia.
Qed.

Section AsmProofs.
  Variable labs : list nat.
  Variable back_ver : N.
  Notation resolve_all := (resolve_all back_ver).
  Notation resolve_one := (resolve_one back_ver).

  Lemma shrink_step_shrunk : forall poss ps pos vss,
    List.length ps = List.length vss -> Forall (fun x => 1 <= x) vss ->
    shrunk (shrink_step labs poss pos ps vss) vss.
  Proof.
    induction ps as [|pi ps IH]; intros pos vss Hl Hv; destruct vss as [|vs vss]; simpl in Hl; try discriminate.
    - constructor.
    - inversion Hv; subst. cbn [shrink_step]. constructor.
      + destruct pi; auto. destruct (label_pos labs poss k); auto.
        destruct (n =? pos); auto.
        destruct (List.length (put_varint (vjump pos vs n)) <? vs) eqn:E; auto.
        unfold put_varint. apply put_uvarint_nonempty.
      + destruct pi; auto. destruct (label_pos labs poss k); auto.
        destruct (n =? pos); auto.
        destruct (List.length (put_varint (vjump pos vs n)) <? vs) eqn:E; auto.
        apply Nat.ltb_lt in E. lia.
      + apply IH; auto.
  Qed.

  Lemma shrink_step_length : forall poss ps pos vss,
    List.length ps = List.length vss ->
    List.length (shrink_step labs poss pos ps vss) = List.length vss.
  Proof.
    induction ps as [|pi ps IH]; intros pos vss Hl; destruct vss as [|vs vss]; simpl in Hl;
      try discriminate; auto.
    cbn [shrink_step List.length]. f_equal. apply IH. lia.
  Qed.

  (* findBranchSizes reaches its fixpoint: every round that changes something removes at least
     one placeholder byte, and no placeholder drops below one byte *)
  Lemma find_sizes_total : forall fuel ps vss,
    List.length ps = List.length vss -> Forall (fun x => 1 <= x) vss ->
    sum_nat vss - List.length vss <= fuel ->
    exists r, find_sizes labs fuel ps vss = Some r.
  Proof.
    induction fuel as [|fuel IH]; intros ps vss Hl Hv Hf; cbn [find_sizes].
    - pose proof (shrink_step_shrunk (positions 0 ps vss) ps 0 vss Hl Hv) as Hs.
      destruct (nat_list_eqb (shrink_step labs (positions 0 ps vss) 0 ps vss) vss) eqn:E; eauto.
      apply shrunk_sum in Hs. destruct Hs as [_ [S2 S3]].
      assert (shrink_step labs (positions 0 ps vss) 0 ps vss <> vss).
      { intros C. rewrite C in E. rewrite nat_list_eqb_refl in E. discriminate. }
      specialize (S3 H).
      pose proof (shrink_step_length (positions 0 ps vss) ps 0 vss Hl).
      lia.
    - pose proof (shrink_step_shrunk (positions 0 ps vss) ps 0 vss Hl Hv) as Hs.
      destruct (nat_list_eqb (shrink_step labs (positions 0 ps vss) 0 ps vss) vss) eqn:E; eauto.
      set (vss' := shrink_step labs (positions 0 ps vss) 0 ps vss) in *.
      assert (Hlen : List.length vss' = List.length vss) by (apply shrink_step_length; auto).
      assert (Hne : vss' <> vss).
      { intros C. rewrite C in E. rewrite nat_list_eqb_refl in E. discriminate. }
      pose proof (shrunk_sum _ _ Hs) as [S1 [S2 S3]]. specialize (S3 Hne).
      apply IH.
      + lia.
      + clear -Hs. induction Hs; constructor; auto.
      + lia.
  Qed.

  Theorem find_sizes_initial_total : forall ps,
    exists r, find_sizes labs (2 * List.length ps + 1) ps (map (fun _ => 3) ps) = Some r.
  Proof.
    intros ps. apply find_sizes_total.
    - rewrite map_length. reflexivity.
    - induction ps; simpl; constructor; auto.
    - rewrite map_length.
      assert (sum_nat (map (fun _ : pinstr => 3) ps) = 3 * List.length ps).
      { induction ps; simpl; lia. }
      lia.
  Qed.

  (* ---------------------------------------------------------------- length of a varint *)
  Lemma put_uvarint_f_len_le : forall n f x,
    1 <= n -> (x < 128 ^ N.of_nat n)%N -> List.length (put_uvarint_f f x) <= n.
  Proof.
    induction n as [|n IH]; intros f x Hn Hx; [lia|].
    destruct f as [|f]; [simpl; lia|]. rewrite put_uvarint_f_S.
    destruct (x <? 128)%N eqn:E; [simpl; lia|]. apply N.ltb_ge in E.
    cbn [List.length]. destruct n as [|n].
    - change (128 ^ N.of_nat 1)%N with 128%N in Hx. lia.
    - assert (List.length (put_uvarint_f f (x / 128)) <= S n); [|lia].
      apply IH; [lia|].
      replace (N.of_nat (S (S n))) with (1 + N.of_nat (S n))%N in Hx by lia.
      rewrite N.pow_add_r in Hx. change (128 ^ 1)%N with 128%N in Hx.
      apply N.div_lt_upper_bound; lia.
  Qed.

  Lemma zigzag_bound : forall (vs : nat) (j : Z),
    1 <= vs ->
    (- 2 ^ (7 * Z.of_nat vs - 1) <= j < 2 ^ (7 * Z.of_nat vs - 1))%Z ->
    (zigzag j < 128 ^ N.of_nat vs)%N.
  Proof.
    intros vs j Hvs Hj.
    assert (E : (Z.of_N (128 ^ N.of_nat vs) = 2 * 2 ^ (7 * Z.of_nat vs - 1))%Z).
    { rewrite N2Z.inj_pow. change (Z.of_N 128) with (2 ^ 7)%Z. rewrite <- Z.pow_mul_r by lia.
      replace (7 * Z.of_N (N.of_nat vs))%Z with (1 + (7 * Z.of_nat vs - 1))%Z by lia.
      rewrite Z.pow_add_r by lia. reflexivity. }
    set (Q := (128 ^ N.of_nat vs)%N) in *. set (P := (2 ^ (7 * Z.of_nat vs - 1))%Z) in *.
    clearbody Q P.
    unfold zigzag. destruct (j <? 0)%Z eqn:Ej; [apply Z.ltb_lt in Ej|apply Z.ltb_ge in Ej].
    - apply N2Z.inj_lt. rewrite Z2N.id by lia. rewrite E. lia.
    - apply N2Z.inj_lt. rewrite Z2N.id by lia. rewrite E. lia.
  Qed.

  (* ---------------------------------------------------------------- the fixpoint is exact *)
  (* every varint branch that resolveLabels accepts fills its placeholder exactly *)
  Inductive exact_sizes (poss : list nat) : nat -> list pinstr -> list nat -> Prop :=
  | exact_nil : forall pos, exact_sizes poss pos [] []
  | exact_cons : forall pos pi vs ps vss,
      (forall op k dest, pi = PBranchV op k -> label_pos labs poss k = Some dest -> dest <> pos ->
                         List.length (put_varint (vjump pos vs dest)) = vs) ->
      exact_sizes poss (pos + psize pi vs) ps vss ->
      exact_sizes poss pos (pi :: ps) (vs :: vss).

  Lemma fixpoint_exact : forall v poss endpos ps pos vss bytes,
    List.length ps = List.length vss ->
    shrink_step labs poss pos ps vss = vss ->
    resolve_all v labs poss endpos pos ps vss = Some bytes ->
    exact_sizes poss pos ps vss.
  Proof.
    induction ps as [|pi ps IH]; intros pos vss bytes Hl Hfix Hres; destruct vss as [|vs vss];
      simpl in Hl; try discriminate.
    - constructor.
    - cbn [shrink_step] in Hfix. injection Hfix as Hvs Hrest.
      cbn [AvmCodec.resolve_all] in Hres.
      destruct (resolve_one v labs poss endpos pos pi vs) as [a|] eqn:R1; try discriminate.
      destruct (resolve_all v labs poss endpos (pos + psize pi vs) ps vss) as [b|] eqn:R2; try discriminate.
      constructor.
      + intros op k dest Hpi Hlab Hne. subst pi. rewrite Hlab in Hvs.
        destruct (dest =? pos) eqn:Ed; [apply Nat.eqb_eq in Ed; lia|].
        clear Hrest.
        cbn [AvmCodec.resolve_one] in R1. rewrite Hlab in R1. rewrite Ed in R1.
        destruct ((v <=? 1)%N && (dest =? endpos)); try discriminate.
        destruct ((v <? back_ver)%N && (dest <? pos + 1 + vs)); try discriminate.
        set (jump := vjump pos vs dest) in *.
        destruct ((jump <? - 2 ^ (7 * Z.of_nat vs - 1))%Z || (2 ^ (7 * Z.of_nat vs - 1) <=? jump)%Z) eqn:El;
          try discriminate.
        apply orb_false_iff in El. destruct El as [El1 El2].
        apply Z.ltb_ge in El1. apply Z.leb_gt in El2.
        destruct (List.length (put_varint jump) <? vs) eqn:En.
        * (* would have shrunk: contradiction with the fixpoint *)
          apply Nat.ltb_lt in En. lia.
        * apply Nat.ltb_ge in En.
          assert (Hvs1 : 1 <= vs).
          { destruct (Nat.eq_dec vs 0) as [Ez|Ez]; [|lia]. exfalso. rewrite Ez in El1, El2.
            change (7 * Z.of_nat 0 - 1)%Z with (-1)%Z in *. change (2 ^ (-1))%Z with 0%Z in *. lia. }
          assert (List.length (put_varint jump) <= vs); [|lia].
          unfold put_varint, put_uvarint. apply put_uvarint_f_len_le; [lia|].
          apply zigzag_bound; [lia|]. lia.
      + eapply IH; eauto.
  Qed.

  Lemma find_sizes_fix : forall fuel ps vss r,
    find_sizes labs fuel ps vss = Some r ->
    List.length ps = List.length vss ->
    shrink_step labs (positions 0 ps r) 0 ps r = r /\ List.length ps = List.length r.
  Proof.
    induction fuel as [|fuel IH]; intros ps vss r H Hl; cbn [find_sizes] in H.
    - destruct (nat_list_eqb (shrink_step labs (positions 0 ps vss) 0 ps vss) vss) eqn:E; try discriminate.
      inversion H; subst. apply nat_list_eqb_eq in E. auto.
    - destruct (nat_list_eqb (shrink_step labs (positions 0 ps vss) 0 ps vss) vss) eqn:E.
      + inversion H; subst. apply nat_list_eqb_eq in E. auto.
      + apply IH in H; auto. rewrite shrink_step_length; auto.
  Qed.

  (* at the layout found by findBranchSizes, every resolved varint branch occupies exactly the
     bytes of its minimal encoding: no zero byte of the placeholder survives in the program *)
  Theorem branch_sizes_exact : forall v ps fuel vss bytes,
    find_sizes labs fuel ps (map (fun _ => 3) ps) = Some vss ->
    resolve_all v labs (positions 0 ps vss) (last (positions 0 ps vss) 0) 0 ps vss = Some bytes ->
    exact_sizes (positions 0 ps vss) 0 ps vss.
  Proof.
    intros v ps fuel vss bytes Hf Hr.
    apply find_sizes_fix in Hf; [|rewrite map_length; reflexivity]. destruct Hf as [Hfix Hl].
    eapply fixpoint_exact; eauto.
  Qed.
End AsmProofs.

(* ================================================================== assembler output is canonical *)
Local Open Scope N_scope.

Definition is_special (name : string) : bool :=
  existsb (String.eqb name) ["arg"; "intc"; "bytec"; "intcblock"; "bytecblock"]%string.

(* list immediates of a physically possible size (a count that fits 64 bits) *)
Definition feasible_imm (x : simm) : bool :=
  match x with
  | SInts l => u64_ok (nlen l)
  | SBytess l => u64_ok (nlen l)
  | _ => true
  end.
Definition feasible (p : list sinstr) : bool :=
  forallb (fun si => forallb feasible_imm (s_imms si)) p.

Lemma single_kind : forall (ims : list immediate) k,
  map (fun im => kind_of (im_kind im)) ims = [k] -> exists im, ims = [im] /\ kind_of (im_kind im) = k.
Proof.
  intros ims k H. destruct ims as [|im [|im2 r]]; simpl in H; try discriminate.
  inversion H. eauto.
Qed.

Section AsmCanon.
  Variable tbl : N -> N -> opspec * list opspec.
  Variable grp : N -> list fspec.
  Variable names : N -> string -> option opspec.
  Variable agrp : string -> N -> N.
  Variable max_str : N.
  Variable back_ver : N.
  Variable logic_ver : N.

  Notation spec_at := (spec_at tbl).
  Notation wf_instr := (wf_instr tbl grp).
  Notation imms_wf := (imms_wf grp).
  Notation imm_wf := (imm_wf grp).
  Notation by_name := (by_name names).
  Notation asm_default_imms := (asm_default_imms grp agrp).
  Notation asm_default := (asm_default grp agrp).
  Notation asm_res := (asm_res grp names agrp max_str).
  Notation asm_one := (asm_one tbl grp names agrp max_str).
  Notation asm_pass1 := (asm_pass1 tbl grp names agrp max_str).
  Notation asm_base := (asm_base tbl grp names agrp max_str back_ver logic_ver).
  Notation resolve_all := (resolve_all back_ver).
  Notation resolve_one := (resolve_one back_ver).
  Notation resolve2 := (resolve2 back_ver).
  Notation resolve2s := (resolve2s back_ver).

  (* facts about the tables (decided by vm_compute for the regenerated tables) *)
  Hypothesis Hlv : logic_ver < 2 ^ 64.
  Hypothesis Hmax : max_str < 2 ^ 64.
  Hypothesis Hcons : forall v o s op, spec_at v o s = Some op ->
    os_opcode op = o /\ os_sub op = s /\ o < 256 /\ s < 256.
  Hypothesis Hnosub : forall v o s op, spec_at v o s = Some op -> s <> 0 ->
    os_imms op = [] /\ is_special (os_name op) = false.
  Hypothesis Hfield : forall v o s op im b, spec_at v o s = Some op -> In im (os_imms op) ->
    (im_kind im = 0 -> field_ok grp v (agrp (os_name op) (im_group im)) b = true ->
     (b <? 256) && field_named grp (im_group im) b = true) /\
    (im_kind im = 1 -> im_group im = 0).
  Hypothesis Hblock : forall v o s op, spec_at v o s = Some op ->
    (os_name op = "intcblock"%string -> map (fun im => kind_of (im_kind im)) (os_imms op) = [KInts]) /\
    (os_name op = "bytecblock"%string -> map (fun im => kind_of (im_kind im)) (os_imms op) = [KBytess]).
  Hypothesis Hshort : forall v o s op base n, spec_at v o s = Some op -> os_name op = base ->
    In base ["arg"; "intc"; "bytec"]%string -> n < 4 ->
    let a := by_name v (short_name base n) in
    wf_instr v (mkI (os_opcode a) (os_sub a) []) = true /\ (base <> "arg"%string -> os_sub a = 0).
  Hypothesis Hlong : forall v o s op base n, spec_at v o s = Some op -> os_name op = base ->
    In base ["intc"; "bytec"]%string -> 4 <= n -> n < 256 ->
    wf_instr v (mkI (os_opcode (by_name v base)) 0 [VByte n]) = true.

  Definition fixed_wf (v : N) (bytes : list N) : Prop :=
    exists i, wf_instr v i = true /\ bytes = enc_instr i.

  Lemma wf_intro : forall v o s op xs,
    spec_at v o s = Some op -> imms_wf (os_imms op) xs = true -> wf_instr v (mkI o s xs) = true.
  Proof.
    intros v o s op xs Hs Hi. destruct (Hcons _ _ _ _ Hs) as [H1 [H2 [H3 H4]]].
    unfold AvmCodec.wf_instr, spec_of. cbn [i_op i_sub i_imms]. rewrite Hs.
    rewrite H1, H2, !N.eqb_refl. rewrite Hi.
    apply N.ltb_lt in H3. apply N.ltb_lt in H4. rewrite H3, H4. reflexivity.
  Qed.

  Lemma enc_head : forall op xs,
    enc_instr (mkI (os_opcode op) (os_sub op) xs) = spec_head op ++ flat_map enc_imm xs.
  Proof. intros. unfold enc_instr, spec_head. cbn [i_op i_sub i_imms]. reflexivity. Qed.

  Lemma field_named_0 : forall b, field_named grp 0 b = true.
  Proof. reflexivity. Qed.

  Lemma default_imms_wf : forall v o s op, spec_at v o s = Some op ->
    forall ims xs l, incl ims (os_imms op) ->
    asm_default_imms v (os_name op) ims xs = Some l ->
    imms_wf ims (map VByte l) = true /\ flat_map enc_imm (map VByte l) = l.
  Proof.
    intros v o s op Hs. induction ims as [|im ims IH]; intros xs l Hin H.
    - destruct xs; cbn [AvmCodec.asm_default_imms] in H; try discriminate. inversion H; subst. auto.
    - destruct xs as [|x xs]; cbn [AvmCodec.asm_default_imms] in H; try discriminate.
      destruct x; try discriminate.
      match type of H with (if ?c then _ else _) = _ => destruct c eqn:Eok end; try discriminate.
      destruct (asm_default_imms v (os_name op) ims xs) as [l'|] eqn:E; try discriminate.
      inversion H; subst l.
      assert (Him : In im (os_imms op)) by (apply Hin; left; reflexivity).
      assert (Hin' : incl ims (os_imms op)) by (intros y Hy; apply Hin; right; exact Hy).
      destruct (IH xs l' Hin' E) as [I1 I2].
      destruct (Hfield v o s op im b Hs Him) as [F0 F1].
      cbn [map AvmCodec.imms_wf flat_map enc_imm]. rewrite I1, I2.
      split; [|reflexivity]. rewrite andb_true_r.
      unfold AvmCodec.imm_wf.
      destruct (im_kind im =? 0) eqn:E0.
      + apply N.eqb_eq in E0. unfold kind_of. rewrite E0. cbn. apply F0; auto.
      + destruct (im_kind im =? 1) eqn:E1; try discriminate.
        apply N.eqb_eq in E1. unfold kind_of. rewrite E1. cbn.
        rewrite (F1 E1). rewrite field_named_0. rewrite Eok. reflexivity.
  Qed.

  Lemma default_fixed : forall v o s op st si pi st',
    spec_at v o s = Some op -> asm_default v st si op = Some (pi, st') ->
    exists bytes, pi = PFixed bytes /\ fixed_wf v bytes.
  Proof.
    intros v o s op st si pi st' Hs H. unfold AvmCodec.asm_default in H.
    destruct (asm_default_imms v (os_name op) (os_imms op) (s_imms si)) as [l|] eqn:E; try discriminate.
    match type of H with (if ?c then _ else _) = _ => destruct c end; try discriminate.
    inversion H; subst. eexists. split; [reflexivity|].
    destruct (default_imms_wf v o s op Hs (os_imms op) (s_imms si) l (incl_refl _) E) as [I1 I2].
    destruct (Hcons _ _ _ _ Hs) as [H1 [H2 _]].
    exists (mkI o s (map VByte l)). split.
    - eapply wf_intro; eauto.
    - rewrite <- H1, <- H2. rewrite enc_head. rewrite I2. reflexivity.
  Qed.

  Lemma sub_zero_of_imms : forall v o s op, spec_at v o s = Some op -> os_imms op <> [] -> s = 0.
  Proof.
    intros v o s op Hs Hne. destruct (N.eq_dec s 0) as [E|E]; auto.
    destruct (Hnosub _ _ _ _ Hs E) as [H _]. contradiction.
  Qed.

  Lemma sub_zero_of_special : forall v o s op, spec_at v o s = Some op ->
    is_special (os_name op) = true -> s = 0.
  Proof.
    intros v o s op Hs Hsp. destruct (N.eq_dec s 0) as [E|E]; auto.
    destruct (Hnosub _ _ _ _ Hs E) as [_ H]. rewrite H in Hsp. discriminate.
  Qed.

  Lemma short_fixed : forall v o s op base n, spec_at v o s = Some op -> os_name op = base ->
    In base ["arg"; "intc"; "bytec"]%string -> n < 4 ->
    fixed_wf v (spec_head (by_name v (short_name base n))).
  Proof.
    intros v o s op base n Hs Hn Hb Hlt. pose proof (Hshort v o s op base n Hs Hn Hb Hlt) as H.
    cbv zeta in H. destruct H as [H _].
    eexists. split; [exact H|]. rewrite enc_head. cbn [flat_map]. rewrite app_nil_r.
    reflexivity.
  Qed.

  Lemma const_fixed : forall v o s op base n defined l, spec_at v o s = Some op -> os_name op = base ->
    In base ["intc"; "bytec"]%string -> n < 256 ->
    write_const names v base n defined = Some l -> fixed_wf v l.
  Proof.
    intros v o s op base n defined l Hs Hn Hb Hlt H. unfold write_const in H.
    destruct (defined <=? n); try discriminate. inversion H; subst l. clear H.
    destruct (n <? 4) eqn:E4.
    - apply N.ltb_lt in E4.
      assert (Hb' : In base ["arg"; "intc"; "bytec"]%string) by (simpl in *; tauto).
      pose proof (Hshort v o s op base n Hs Hn Hb' E4) as Hw. cbv zeta in Hw.
      destruct Hw as [Hw Hz].
      assert (Hna : base <> "arg"%string).
      { simpl in Hb. destruct Hb as [Hb|[Hb|[]]]; rewrite <- Hb; intros C; discriminate C. }
      specialize (Hz Hna).
      eexists. split; [exact Hw|]. unfold enc_instr. cbn [i_op i_sub i_imms flat_map].
      rewrite Hz. reflexivity.
    - apply N.ltb_ge in E4.
      exists (mkI (os_opcode (by_name v base)) 0 [VByte n]). split.
      + eapply Hlong; eauto.
      + reflexivity.
  Qed.

  (* what the first pass may leave for one instruction *)
  Definition branch_spec (v opb : N) (k : ikind) : Prop :=
    exists op, spec_at v opb 0 = Some op /\ map (fun im => kind_of (im_kind im)) (os_imms op) = [k].

  Definition pinstr_ok (v : N) (pi : pinstr) : Prop :=
    match pi with
    | PFixed b => fixed_wf v b
    | PBranch2 opb _ => branch_spec v opb KLabel
    | PBranchV opb _ => branch_spec v opb KVLabel
    | PSwitch opb ks => branch_spec v opb KLabels /\ (List.length ks <= 255)%nat
    end.

  Lemma u64_of_max : forall n, n <=? max_str = true -> u64_ok n = true.
  Proof. intros n H. apply N.leb_le in H. unfold u64_ok. apply N.ltb_lt. lia. Qed.

  Lemma forallb_u64_of_max : forall (l : list (list N)),
    forallb (fun bs => nlen bs <=? max_str) l = true -> forallb (fun bs => u64_ok (nlen bs)) l = true.
  Proof.
    induction l; simpl; auto. intros H. apply andb_true_iff in H. destruct H as [H1 H2].
    rewrite (u64_of_max _ H1). auto.
  Qed.

  (* one-immediate ops assembled by their own function: opcode byte + the immediate *)
  Lemma single_fixed : forall v o s op x,
    spec_at v o s = Some op -> os_imms op <> [] ->
    imms_wf (os_imms op) [x] = true ->
    fixed_wf v (os_opcode op :: enc_imm x).
  Proof.
    intros v o s op x Hs Hne Hw.
    pose proof (sub_zero_of_imms v o s op Hs Hne) as Hz. subst s.
    destruct (Hcons _ _ _ _ Hs) as [H1 [H2 _]].
    exists (mkI o 0 [x]). split.
    - eapply wf_intro; eauto.
    - unfold enc_instr. cbn [i_op i_sub i_imms flat_map]. rewrite app_nil_r. rewrite H1. reflexivity.
  Qed.

  Lemma asm_res_ok : forall v o s op st si pi st',
    spec_at v o s = Some op -> o = s_op si -> forallb feasible_imm (s_imms si) = true ->
    asm_res v st si op = Some (pi, st') -> pinstr_ok v pi.
  Proof.
    intros v o s op st si pi st' Hs Ho Hfe H. unfold AvmCodec.asm_res in H.
    destruct (Hcons _ _ _ _ Hs) as [Hop [Hsub _]].
    destruct (String.eqb (os_name op) "arg") eqn:Earg.
    { apply String.eqb_eq in Earg.
      destruct (s_imms si) as [|[n| | | | | | |] [|? ?]]; try discriminate.
      destruct (n <? 256) eqn:E256; try discriminate.
      destruct (n <? 4) eqn:E4.
      - inversion H; subst. apply N.ltb_lt in E4. cbn [pinstr_ok].
        eapply short_fixed; eauto. simpl. auto.
      - destruct (default_fixed v o s op st si pi st' Hs H) as [bytes [E1 E2]]. subst pi. exact E2. }
    destruct (String.eqb (os_name op) "intc") eqn:Eintc.
    { apply String.eqb_eq in Eintc.
      destruct (s_imms si) as [|[n| | | | | | |] [|? ?]]; try discriminate.
      destruct (n <? 256) eqn:E256; try discriminate. apply N.ltb_lt in E256.
      destruct (write_const names v "intc" n (a_nintc st)) as [l|] eqn:W; try discriminate.
      inversion H; subst. cbn [pinstr_ok]. eapply const_fixed; eauto. simpl. auto. }
    destruct (String.eqb (os_name op) "bytec") eqn:Ebytec.
    { apply String.eqb_eq in Ebytec.
      destruct (s_imms si) as [|[n| | | | | | |] [|? ?]]; try discriminate.
      destruct (n <? 256) eqn:E256; try discriminate. apply N.ltb_lt in E256.
      destruct (write_const names v "bytec" n (a_nbytec st)) as [l|] eqn:W; try discriminate.
      inversion H; subst. cbn [pinstr_ok]. eapply const_fixed; eauto. simpl. auto. }
    destruct (String.eqb (os_name op) "intcblock") eqn:Eib.
    { apply String.eqb_eq in Eib.
      destruct (s_imms si) as [|[| | | | |l| |] [|? ?]] eqn:Esi; try discriminate.
      destruct (forallb u64_ok l) eqn:Eu; try discriminate. inversion H; subst pi. cbn [pinstr_ok].
      destruct (Hblock _ _ _ _ Hs) as [Hk _]. specialize (Hk Eib).
      destruct (single_kind _ _ Hk) as [im [Eim Ekind]].
      cbn [forallb feasible_imm] in Hfe. rewrite andb_true_r in Hfe.
      change (os_opcode op :: put_uvarint (nlen l) ++ flat_map put_uvarint l)
        with (os_opcode op :: enc_imm (VInts l)).
      eapply single_fixed; eauto.
      - rewrite Eim. discriminate.
      - rewrite Eim. cbn [AvmCodec.imms_wf]. unfold AvmCodec.imm_wf. rewrite Ekind. rewrite Hfe, Eu. reflexivity. }
    destruct (String.eqb (os_name op) "bytecblock") eqn:Ebb.
    { apply String.eqb_eq in Ebb.
      destruct (s_imms si) as [|[| | | | | |l|] [|? ?]] eqn:Esi; try discriminate.
      destruct (forallb (fun bs => nlen bs <=? max_str) l) eqn:Eu; try discriminate.
      inversion H; subst pi. cbn [pinstr_ok].
      destruct (Hblock _ _ _ _ Hs) as [_ Hk]. specialize (Hk Ebb).
      destruct (single_kind _ _ Hk) as [im [Eim Ekind]].
      cbn [forallb feasible_imm] in Hfe. rewrite andb_true_r in Hfe.
      change (os_opcode op :: put_uvarint (nlen l) ++ flat_map enc_bytes l)
        with (os_opcode op :: enc_imm (VBytess l)).
      eapply single_fixed; eauto.
      - rewrite Eim. discriminate.
      - rewrite Eim. cbn [AvmCodec.imms_wf]. unfold AvmCodec.imm_wf. rewrite Ekind. rewrite Hfe.
        rewrite (forallb_u64_of_max _ Eu). reflexivity. }
    (* dispatch on the kinds of the immediates *)
    assert (Hdef : forall pi0, asm_default v st si op = Some (pi0, st') -> pinstr_ok v pi0).
    { intros pi0 Hd. destruct (default_fixed v o s op st si pi0 st' Hs Hd) as [bytes [E1 E2]].
      subst pi0. exact E2. }
    destruct (map (fun im => kind_of (im_kind im)) (os_imms op)) as [|k [|k2 kr]] eqn:Ek;
      try (apply Hdef; exact H).
    2:{ destruct k; apply Hdef; exact H. }
    assert (Hne : os_imms op <> []) by (intros C; rewrite C in Ek; discriminate).
    destruct (single_kind _ _ Ek) as [im [Eim Ekind]].
    pose proof (sub_zero_of_imms v o s op Hs Hne) as Hz. rewrite Hz in Hs, Hsub. clear Hz.
    destruct k; destruct (s_imms si) as [|x [|x2 xr]] eqn:Esi; try (apply Hdef; exact H);
      destruct x; try (apply Hdef; exact H).
    - (* [KLabel], [SLabel k] *)
      inversion H; subst pi. cbn [pinstr_ok]. exists op. rewrite Hop. split; auto.
    - (* [KInt], [SInt n] *)
      destruct (u64_ok n) eqn:Eu; try discriminate. inversion H; subst pi. cbn [pinstr_ok].
      change (os_opcode op :: put_uvarint n) with (os_opcode op :: enc_imm (VInt n)).
      eapply single_fixed; eauto.
      rewrite Eim. cbn [AvmCodec.imms_wf]. unfold AvmCodec.imm_wf. rewrite Ekind. rewrite Eu. reflexivity.
    - (* [KBytes], [SBytes bs] *)
      destruct (nlen bs <=? max_str) eqn:Eu; try discriminate. inversion H; subst pi. cbn [pinstr_ok].
      change (os_opcode op :: enc_bytes bs) with (os_opcode op :: enc_imm (VBytes bs)).
      eapply single_fixed; eauto.
      rewrite Eim. cbn [AvmCodec.imms_wf]. unfold AvmCodec.imm_wf. rewrite Ekind.
      rewrite (u64_of_max _ Eu). reflexivity.
    - (* [KInts], [SInts l] *)
      destruct (forallb u64_ok l) eqn:Eu; try discriminate. inversion H; subst pi. cbn [pinstr_ok].
      cbn [forallb feasible_imm] in Hfe. rewrite andb_true_r in Hfe.
      change (os_opcode op :: put_uvarint (nlen l) ++ flat_map put_uvarint l)
        with (os_opcode op :: enc_imm (VInts l)).
      eapply single_fixed; eauto.
      rewrite Eim. cbn [AvmCodec.imms_wf]. unfold AvmCodec.imm_wf. rewrite Ekind. rewrite Hfe, Eu. reflexivity.
    - (* [KBytess], [SBytess l] *)
      destruct (forallb (fun bs => nlen bs <=? max_str) l) eqn:Eu; try discriminate.
      inversion H; subst pi. cbn [pinstr_ok].
      cbn [forallb feasible_imm] in Hfe. rewrite andb_true_r in Hfe.
      change (os_opcode op :: put_uvarint (nlen l) ++ flat_map enc_bytes l)
        with (os_opcode op :: enc_imm (VBytess l)).
      eapply single_fixed; eauto.
      rewrite Eim. cbn [AvmCodec.imms_wf]. unfold AvmCodec.imm_wf. rewrite Ekind. rewrite Hfe.
      rewrite (forallb_u64_of_max _ Eu). reflexivity.
    - (* [KLabels], [SLabels ks] *)
      destruct (List.length ks <=? 255)%nat eqn:Eu; try discriminate. inversion H; subst pi.
      cbn [pinstr_ok]. apply Nat.leb_le in Eu. split; auto. exists op. rewrite Hop. split; auto.
    - (* [KVLabel], [SVLabel k] *)
      inversion H; subst pi. cbn [pinstr_ok]. exists op. rewrite Hop. split; auto.
  Qed.

  Lemma asm_one_ok : forall v st si pi st',
    forallb feasible_imm (s_imms si) = true ->
    asm_one v st si = Some (pi, st') -> pinstr_ok v pi.
  Proof.
    intros v st si pi st' Hfe H. unfold AvmCodec.asm_one in H.
    destruct (spec_at v (s_op si) (s_sub si)) as [op|] eqn:Hs; try discriminate.
    destruct (asm_res v st si op) as [[pi0 st1]|] eqn:R; try discriminate.
    inversion H; subst. eapply asm_res_ok; eauto.
  Qed.

  Lemma asm_pass1_ok : forall v labs p idx st ps,
    feasible p = true -> asm_pass1 v labs idx st p = Some ps ->
    Forall (pinstr_ok v) ps /\ List.length ps = List.length p.
  Proof.
    induction p as [|si p IH]; intros idx st ps Hfe H; cbn [AvmCodec.asm_pass1] in H.
    - inversion H; subst. split; [constructor|reflexivity].
    - unfold feasible in Hfe. cbn [forallb] in Hfe. apply andb_true_iff in Hfe. destruct Hfe as [F1 F2].
      match type of H with (match asm_one v ?st0 si with _ => _ end) = _ =>
        destruct (asm_one v st0 si) as [[pi st1]|] eqn:E1 end; try discriminate.
      destruct (asm_pass1 v labs (S idx) st1 p) as [l|] eqn:E2; try discriminate.
      inversion H; subst. destruct (IH _ _ _ F2 E2) as [I1 I2]. split.
      + constructor; auto. eapply asm_one_ok; eauto.
      + simpl. rewrite I2. reflexivity.
  Qed.

  (* ---------------------------------------------------------------- resolveLabels *)
  Lemma resolve2_i16 : forall v labs poss endpos offpos k l,
    resolve2 v labs poss endpos offpos k = Some l ->
    exists j, i16_ok j = true /\ l = enc_i16 j.
  Proof.
    intros v labs poss endpos offpos k l H. unfold AvmCodec.resolve2 in H.
    destruct (label_pos labs poss k) as [dest|]; try discriminate.
    destruct ((v <=? 1) && (dest =? endpos)%nat); try discriminate.
    destruct ((v <? back_ver) && (dest <? offpos)%nat); try discriminate.
    destruct (i16_ok (Z.of_nat dest - Z.of_nat offpos)) eqn:E; try discriminate.
    inversion H; subst. eauto.
  Qed.

  Lemma resolve2s_i16 : forall v labs poss endpos offpos ks l,
    resolve2s v labs poss endpos offpos ks = Some l ->
    exists js, forallb i16_ok js = true /\ List.length js = List.length ks /\ l = flat_map enc_i16 js.
  Proof.
    induction ks as [|k ks IH]; intros l H; cbn [AvmCodec.resolve2s] in H.
    - inversion H; subst. exists []. auto.
    - destruct (resolve2 v labs poss endpos offpos k) as [a|] eqn:E1; try discriminate.
      destruct (resolve2s v labs poss endpos offpos ks) as [b|] eqn:E2; try discriminate.
      inversion H; subst. destruct (resolve2_i16 _ _ _ _ _ _ _ E1) as [j [J1 J2]].
      destruct (IH _ eq_refl) as [js [K1 [K2 K3]]]. exists (j :: js).
      cbn [forallb List.length flat_map]. rewrite J1, K1, K2, J2, K3. auto.
  Qed.

  Lemma branch_fixed : forall v opb k x,
    branch_spec v opb k ->
    (forall im, kind_of (im_kind im) = k -> imm_wf im x = true) ->
    fixed_wf v (opb :: enc_imm x).
  Proof.
    intros v opb k x [op [Hs Hk]] Hw. destruct (single_kind _ _ Hk) as [im [Eim Ekind]].
    exists (mkI opb 0 [x]). split.
    - eapply wf_intro; eauto. rewrite Eim. cbn [AvmCodec.imms_wf]. rewrite (Hw im Ekind). reflexivity.
    - unfold enc_instr. cbn [i_op i_sub i_imms flat_map]. rewrite app_nil_r. reflexivity.
  Qed.

  Lemma i64_of_limit : forall (vs : nat) (j : Z),
    (vs <= 9)%nat ->
    (- 2 ^ (7 * Z.of_nat vs - 1) <= j < 2 ^ (7 * Z.of_nat vs - 1))%Z -> i64_ok j = true.
  Proof.
    intros vs j Hvs Hj.
    assert (2 ^ (7 * Z.of_nat vs - 1) <= 2 ^ 62)%Z.
    { destruct (Nat.eq_dec vs 0) as [E|E].
      - subst. change (2 ^ (7 * Z.of_nat 0 - 1))%Z with 0%Z. lia.
      - apply Z.pow_le_mono_r; lia. }
    unfold i64_ok. apply andb_true_iff. split; apply Z.leb_le; lia.
  Qed.

  Lemma resolve_one_enc : forall v labs poss endpos pos pi vs bytes,
    pinstr_ok v pi -> (vs <= 9)%nat ->
    (forall op k dest, pi = PBranchV op k -> label_pos labs poss k = Some dest -> dest <> pos ->
                       List.length (put_varint (vjump pos vs dest)) = vs) ->
    resolve_one v labs poss endpos pos pi vs = Some bytes ->
    fixed_wf v bytes /\ List.length bytes = psize pi vs.
  Proof.
    intros v labs poss endpos pos pi vs bytes Hok Hvs Hex H. destruct pi as [b|opb k|opb k|opb ks];
      cbn [AvmCodec.resolve_one pinstr_ok psize] in *.
    - inversion H; subst. auto.
    - destruct (resolve2 v labs poss endpos (pos + 3) k) as [l|] eqn:E; try discriminate.
      inversion H; subst. destruct (resolve2_i16 _ _ _ _ _ _ _ E) as [j [J1 J2]]. subst l. split.
      + change (opb :: enc_i16 j) with (opb :: enc_imm (VLabel j)).
        eapply branch_fixed; eauto. intros im Ek. unfold AvmCodec.imm_wf. rewrite Ek. exact J1.
      + reflexivity.
    - destruct (label_pos labs poss k) as [dest|] eqn:El; try discriminate.
      destruct ((v <=? 1) && (dest =? endpos)%nat); try discriminate.
      destruct ((v <? back_ver) && (dest <? pos + 1 + vs)%nat); try discriminate.
      destruct (dest =? pos)%nat eqn:Ed; try discriminate. apply Nat.eqb_neq in Ed.
      match type of H with (if ?c then _ else _) = _ => destruct c eqn:Elim end; try discriminate.
      apply orb_false_iff in Elim. destruct Elim as [L1 L2]. apply Z.ltb_ge in L1. apply Z.leb_gt in L2.
      inversion H; subst. pose proof (Hex opb k dest eq_refl El Ed) as Hlen.
      unfold pad0. rewrite Hlen. rewrite Nat.sub_diag. cbn [repeat]. rewrite app_nil_r. split.
      + change (opb :: put_varint (vjump pos vs dest)) with (opb :: enc_imm (VVLabel (vjump pos vs dest))).
        eapply branch_fixed; eauto. intros im Ek. unfold AvmCodec.imm_wf. rewrite Ek.
        eapply i64_of_limit; eauto.
      + cbn [List.length]. rewrite Hlen. reflexivity.
    - destruct Hok as [Hb Hl].
      destruct (resolve2s v labs poss endpos (pos + 2 + 2 * List.length ks) ks) as [l|] eqn:E; try discriminate.
      inversion H; subst. destruct (resolve2s_i16 _ _ _ _ _ _ _ E) as [js [K1 [K2 K3]]]. subst l. split.
      + replace (nlen ks) with (nlen js) by (unfold nlen; rewrite K2; reflexivity).
        change (opb :: nlen js :: flat_map enc_i16 js) with (opb :: enc_imm (VLabels js)).
        eapply branch_fixed; eauto. intros im Ek. unfold AvmCodec.imm_wf. rewrite Ek. rewrite K1.
        rewrite andb_true_r. apply N.ltb_lt. unfold nlen. lia.
      + cbn [List.length].
        assert (Hl2 : forall l, List.length (flat_map enc_i16 l) = (2 * List.length l)%nat).
        { induction l as [|j l IHl]; [reflexivity|]. cbn [flat_map]. rewrite app_length, IHl.
          unfold enc_i16. cbn [List.length]. lia. }
        rewrite Hl2. lia.
  Qed.

  Lemma resolve_all_enc : forall v labs poss endpos ps pos vss bytes,
    Forall (pinstr_ok v) ps -> Forall (fun x => (x <= 9)%nat) vss ->
    exact_sizes labs poss pos ps vss ->
    resolve_all v labs poss endpos pos ps vss = Some bytes ->
    exists q, forallb (wf_instr v) q = true /\ bytes = enc_instrs q /\ List.length q = List.length ps.
  Proof.
    induction ps as [|pi ps IH]; intros pos vss bytes Hok Hb Hex H.
    - cbn [AvmCodec.resolve_all] in H. inversion H; subst. exists []. auto.
    - destruct vss as [|vs vss]; [inversion Hex|].
      cbn [AvmCodec.resolve_all] in H.
      destruct (resolve_one v labs poss endpos pos pi vs) as [a|] eqn:R1; try discriminate.
      destruct (resolve_all v labs poss endpos (pos + psize pi vs) ps vss) as [b|] eqn:R2; try discriminate.
      inversion H; subst. inversion Hok; subst. inversion Hb; subst.
      inversion Hex as [|? ? ? ? ? Hx Hrest]; subst.
      destruct (resolve_one_enc _ _ _ _ _ _ _ _ H2 H4 Hx R1) as [[i [W1 W2]] _].
      destruct (IH _ _ _ H3 H5 Hrest R2) as [q [Q1 [Q2 Q3]]].
      exists (i :: q). cbn [forallb]. rewrite W1, Q1. split; auto. split.
      + unfold enc_instrs in *. cbn [flat_map]. rewrite <- W2, <- Q2. reflexivity.
      + simpl. rewrite Q3. reflexivity.
  Qed.

  Lemma find_sizes_bound : forall labs B fuel ps vss r,
    find_sizes labs fuel ps vss = Some r -> List.length ps = List.length vss ->
    Forall (fun x => (1 <= x <= B)%nat) vss -> Forall (fun x => (1 <= x <= B)%nat) r.
  Proof.
    intros labs B. induction fuel as [|fuel IH]; intros ps vss r H Hl Hb; cbn [find_sizes] in H.
    - destruct (nat_list_eqb (shrink_step labs (positions 0 ps vss) 0 ps vss) vss); try discriminate.
      inversion H; subst. auto.
    - destruct (nat_list_eqb (shrink_step labs (positions 0 ps vss) 0 ps vss) vss).
      + inversion H; subst. auto.
      + apply IH in H; auto.
        * rewrite shrink_step_length; auto.
        * assert (Hb1 : Forall (fun x => (1 <= x)%nat) vss).
          { eapply Forall_impl; [|exact Hb]. simpl. intros; lia. }
          pose proof (shrink_step_shrunk labs (positions 0 ps vss) ps 0 vss Hl Hb1) as Hs.
          clear -Hs Hb. induction Hs; [constructor|]. inversion Hb; subst. constructor; [lia|auto].
  Qed.

  (* Everything the assembler model accepts is the canonical encoding of a well-formed
     program of the codec: version prefix + one well-formed instruction per statement. *)
  Theorem asm_output_canonical : forall v p labs b,
    feasible p = true -> asm_base v p labs = AOk b ->
    exists q, wf_prog tbl grp logic_ver v q = true /\ b = enc_prog v q /\
              List.length q = List.length p.
  Proof.
    intros v p labs b Hfe H. unfold AvmCodec.asm_base in H.
    destruct (logic_ver <? v) eqn:Ev; try discriminate. apply N.ltb_ge in Ev.
    destruct (asm_pass1 v labs 0 (mkA false 0 0) p) as [ps|] eqn:P1; try discriminate.
    destruct (find_sizes labs (2 * List.length ps + 1) ps (map (fun _ => 3%nat) ps)) as [vss|] eqn:F;
      try discriminate.
    destruct (resolve_all v labs (positions 0 ps vss) (last (positions 0 ps vss) 0%nat) 0 ps vss)
      as [pending|] eqn:R; try discriminate.
    inversion H; subst b. clear H.
    destruct (asm_pass1_ok _ _ _ _ _ _ Hfe P1) as [Hok Hlen].
    pose proof (branch_sizes_exact labs back_ver v ps _ vss pending F R) as Hex.
    assert (Hb : Forall (fun x => (1 <= x <= 3)%nat) vss).
    { eapply find_sizes_bound; eauto.
      - rewrite map_length. reflexivity.
      - clear. induction ps; simpl; constructor; auto; lia. }
    assert (Hb9 : Forall (fun x => (x <= 9)%nat) vss).
    { eapply Forall_impl; [|exact Hb]. simpl. intros; lia. }
    destruct (resolve_all_enc _ _ _ _ _ _ _ _ Hok Hb9 Hex R) as [q [Q1 [Q2 Q3]]].
    exists q. split; [|split].
    - unfold AvmCodec.wf_prog. rewrite Q1. rewrite andb_true_r. apply andb_true_iff. split.
      + apply N.leb_le. exact Ev.
      + unfold u64_ok. apply N.ltb_lt. lia.
    - unfold enc_prog. rewrite Q2. reflexivity.
    - lia.
  Qed.
End AsmCanon.

(* ================================================================== branch targets *)
(* The target the disassembler computes from a decoded offset (disassemble(): immLabel /
   immLabels: end of the instruction + offset; immVarintLabel: start + offset when negative,
   end + offset otherwise), relative to ops.pending. *)
Local Open Scope nat_scope.
Definition tgt2 (npos : nat) (off : Z) : Z := (Z.of_nat npos + off)%Z.
Definition tgtv (pos npos : nat) (off : Z) : Z :=
  if (off <? 0)%Z then (Z.of_nat pos + off)%Z else (Z.of_nat npos + off)%Z.

Section Targets.
  Variable labs : list nat.
  Variable back_ver : N.
  Notation resolve_all := (resolve_all back_ver).
  Notation resolve_one := (resolve_one back_ver).
  Notation resolve2 := (resolve2 back_ver).
  Notation resolve2s := (resolve2s back_ver).

  Lemma positions_ge : forall ps vss p0 d, In d (positions p0 ps vss) -> p0 <= d.
  Proof.
    induction ps as [|pi ps IH]; intros vss p0 d H; destruct vss as [|vs vss]; simpl in H;
      try (destruct H as [H|[]]; lia).
    destruct H as [H|H]; [lia|]. apply IH in H. lia.
  Qed.

  (* no instruction start lies strictly inside an instruction *)
  Inductive gaps (poss : list nat) : nat -> list pinstr -> list nat -> Prop :=
  | gaps_nil : forall pos, gaps poss pos [] []
  | gaps_cons : forall pos pi vs ps vss,
      (forall d, In d poss -> d <= pos \/ pos + psize pi vs <= d) ->
      gaps poss (pos + psize pi vs) ps vss -> gaps poss pos (pi :: ps) (vs :: vss).

  Lemma positions_gaps_gen : forall ps vss pre p0,
    List.length ps = List.length vss -> (forall d, In d pre -> d <= p0) ->
    gaps (pre ++ positions p0 ps vss) p0 ps vss.
  Proof.
    induction ps as [|pi ps IH]; intros vss pre p0 Hl Hpre; destruct vss as [|vs vss]; simpl in Hl;
      try discriminate.
    - constructor.
    - cbn [positions]. constructor.
      + intros d Hd. apply in_app_or in Hd. destruct Hd as [Hd|[Hd|Hd]].
        * left. auto.
        * left. lia.
        * right. apply positions_ge in Hd. exact Hd.
      + replace (pre ++ p0 :: positions (p0 + psize pi vs) ps vss)
          with ((pre ++ [p0]) ++ positions (p0 + psize pi vs) ps vss)
          by (rewrite <- app_assoc; reflexivity).
        apply IH; [lia|]. intros d Hd. apply in_app_or in Hd. destruct Hd as [Hd|[Hd|[]]].
        * specialize (Hpre d Hd). lia.
        * lia.
  Qed.

  Lemma positions_gaps : forall ps vss,
    List.length ps = List.length vss -> gaps (positions 0 ps vss) 0 ps vss.
  Proof.
    intros. apply (positions_gaps_gen ps vss [] 0); auto. intros d [].
  Qed.

  Lemma label_pos_in : forall poss k dest, label_pos labs poss k = Some dest -> In dest poss.
  Proof.
    unfold label_pos. intros poss k dest H. destruct (existsb (Nat.eqb k) labs); try discriminate.
    eapply nth_error_In; eauto.
  Qed.

  (* what resolveLabels wrote for one instruction, and where the disassembler will land *)
  Definition target_ok (poss : list nat) (pos : nat) (pi : pinstr) (vs : nat) (bytes : list N) : Prop :=
    match pi with
    | PFixed b => bytes = b
    | PBranch2 op k =>
        exists dest off, label_pos labs poss k = Some dest /\ bytes = op :: enc_imm (VLabel off) /\
                         tgt2 (pos + psize pi vs) off = Z.of_nat dest
    | PBranchV op k =>
        exists dest off, label_pos labs poss k = Some dest /\ bytes = op :: enc_imm (VVLabel off) /\
                         tgtv pos (pos + psize pi vs) off = Z.of_nat dest
    | PSwitch op ks =>
        exists offs, bytes = op :: enc_imm (VLabels offs) /\
                     Forall2 (fun k off => exists dest, label_pos labs poss k = Some dest /\
                                                        tgt2 (pos + psize pi vs) off = Z.of_nat dest) ks offs
    end.

  Lemma resolve2_target : forall v poss endpos offpos k l,
    resolve2 v labs poss endpos offpos k = Some l ->
    exists dest off, label_pos labs poss k = Some dest /\ l = enc_i16 off /\ tgt2 offpos off = Z.of_nat dest.
  Proof.
    intros v poss endpos offpos k l H. unfold AvmCodec.resolve2 in H.
    destruct (label_pos labs poss k) as [dest|]; try discriminate.
    destruct ((v <=? 1)%N && (dest =? endpos)); try discriminate.
    destruct ((v <? back_ver)%N && (dest <? offpos)); try discriminate.
    destruct (i16_ok (Z.of_nat dest - Z.of_nat offpos)); try discriminate.
    inversion H; subst. exists dest, (Z.of_nat dest - Z.of_nat offpos)%Z. unfold tgt2.
    repeat split; auto. lia.
  Qed.

  Lemma resolve2s_target : forall v poss endpos offpos ks l,
    resolve2s v labs poss endpos offpos ks = Some l ->
    exists offs, l = flat_map enc_i16 offs /\ List.length offs = List.length ks /\
      Forall2 (fun k off => exists dest, label_pos labs poss k = Some dest /\
                                         tgt2 offpos off = Z.of_nat dest) ks offs.
  Proof.
    induction ks as [|k ks IH]; intros l H; cbn [AvmCodec.resolve2s] in H.
    - inversion H; subst. exists []. repeat split; constructor.
    - destruct (resolve2 v labs poss endpos offpos k) as [a|] eqn:E1; try discriminate.
      destruct (resolve2s v labs poss endpos offpos ks) as [b|] eqn:E2; try discriminate.
      inversion H; subst. destruct (resolve2_target _ _ _ _ _ _ E1) as [dest [off [L1 [L2 L3]]]].
      destruct (IH _ eq_refl) as [offs [O1 [O2 O3]]]. exists (off :: offs). subst.
      cbn [flat_map List.length]. repeat split; auto. constructor; eauto.
  Qed.

  Lemma resolve_one_target : forall v poss endpos pos pi vs bytes,
    (forall d, In d poss -> d <= pos \/ pos + psize pi vs <= d) ->
    (forall op k dest, pi = PBranchV op k -> label_pos labs poss k = Some dest -> dest <> pos ->
                       List.length (put_varint (vjump pos vs dest)) = vs) ->
    resolve_one v labs poss endpos pos pi vs = Some bytes ->
    target_ok poss pos pi vs bytes.
  Proof.
    intros v poss endpos pos pi vs bytes Hgap Hex H. destruct pi as [b|op k|op k|op ks];
      cbn [AvmCodec.resolve_one target_ok psize] in *.
    - inversion H; auto.
    - destruct (resolve2 v labs poss endpos (pos + 3) k) as [l|] eqn:E; try discriminate.
      inversion H; subst. destruct (resolve2_target _ _ _ _ _ _ E) as [dest [off [L1 [L2 L3]]]].
      exists dest, off. subst. auto.
    - destruct (label_pos labs poss k) as [dest|] eqn:El; try discriminate.
      destruct ((v <=? 1)%N && (dest =? endpos)); try discriminate.
      destruct ((v <? back_ver)%N && (dest <? pos + 1 + vs)); try discriminate.
      destruct (dest =? pos) eqn:Ed; try discriminate. apply Nat.eqb_neq in Ed.
      match type of H with (if ?c then _ else _) = _ => destruct c end; try discriminate.
      inversion H; subst. pose proof (Hex op k dest eq_refl El Ed) as Hlen.
      unfold pad0. rewrite Hlen, Nat.sub_diag. cbn [repeat]. rewrite app_nil_r.
      exists dest, (vjump pos vs dest). repeat split; auto.
      unfold tgtv, vjump. pose proof (Hgap dest (label_pos_in _ _ _ El)) as Hg.
      destruct (dest <? pos) eqn:Elt.
      + apply Nat.ltb_lt in Elt.
        destruct (Z.of_nat dest - Z.of_nat pos <? 0)%Z eqn:Ez; [lia|apply Z.ltb_ge in Ez; lia].
      + apply Nat.ltb_ge in Elt.
        destruct (Z.of_nat dest - Z.of_nat (pos + 1 + vs) <? 0)%Z eqn:Ez;
          [apply Z.ltb_lt in Ez; lia|lia].
    - destruct (resolve2s v labs poss endpos (pos + 2 + 2 * List.length ks) ks) as [l|] eqn:E; try discriminate.
      inversion H; subst. destruct (resolve2s_target _ _ _ _ _ _ E) as [offs [O1 [O2 O3]]].
      exists offs. subst. split.
      + cbn [enc_imm]. unfold nlen. rewrite O2. reflexivity.
      + replace (pos + (2 + 2 * List.length ks)) with (pos + 2 + 2 * List.length ks) by lia. exact O3.
  Qed.

  Inductive targets_ok (poss : list nat) : nat -> list pinstr -> list nat -> list N -> Prop :=
  | targets_nil : forall pos, targets_ok poss pos [] [] []
  | targets_cons : forall pos pi vs ps vss a b,
      target_ok poss pos pi vs a -> List.length a = psize pi vs ->
      targets_ok poss (pos + psize pi vs) ps vss b ->
      targets_ok poss pos (pi :: ps) (vs :: vss) (a ++ b).

  Lemma resolve_one_length : forall v poss endpos pos pi vs bytes,
    (forall op k dest, pi = PBranchV op k -> label_pos labs poss k = Some dest -> dest <> pos ->
                       List.length (put_varint (vjump pos vs dest)) = vs) ->
    resolve_one v labs poss endpos pos pi vs = Some bytes -> List.length bytes = psize pi vs.
  Proof.
    intros v poss endpos pos pi vs bytes Hex H. destruct pi as [b|op k|op k|op ks];
      cbn [AvmCodec.resolve_one psize] in *.
    - inversion H; auto.
    - destruct (resolve2 v labs poss endpos (pos + 3) k) as [l|] eqn:E; try discriminate.
      inversion H; subst. destruct (resolve2_target _ _ _ _ _ _ E) as [dest [off [L1 [L2 L3]]]]. subst.
      reflexivity.
    - destruct (label_pos labs poss k) as [dest|] eqn:El; try discriminate.
      destruct ((v <=? 1)%N && (dest =? endpos)); try discriminate.
      destruct ((v <? back_ver)%N && (dest <? pos + 1 + vs)); try discriminate.
      destruct (dest =? pos) eqn:Ed; try discriminate. apply Nat.eqb_neq in Ed.
      match type of H with (if ?c then _ else _) = _ => destruct c end; try discriminate.
      inversion H; subst. pose proof (Hex op k dest eq_refl El Ed) as Hlen.
      unfold pad0. rewrite Hlen, Nat.sub_diag. cbn [repeat]. rewrite app_nil_r. cbn [List.length].
      rewrite Hlen. reflexivity.
    - destruct (resolve2s v labs poss endpos (pos + 2 + 2 * List.length ks) ks) as [l|] eqn:E; try discriminate.
      inversion H; subst. destruct (resolve2s_target _ _ _ _ _ _ E) as [offs [O1 [O2 O3]]]. subst.
      cbn [List.length].
      assert (Hl2 : forall l, List.length (flat_map enc_i16 l) = 2 * List.length l).
      { induction l as [|j l IHl]; [reflexivity|]. cbn [flat_map]. rewrite app_length, IHl.
        unfold enc_i16. cbn [List.length]. lia. }
      rewrite Hl2. lia.
  Qed.

  Lemma resolve_all_targets : forall v poss endpos ps pos vss bytes,
    gaps poss pos ps vss -> exact_sizes labs poss pos ps vss ->
    resolve_all v labs poss endpos pos ps vss = Some bytes ->
    targets_ok poss pos ps vss bytes.
  Proof.
    induction ps as [|pi ps IH]; intros pos vss bytes Hg Hex H.
    - inversion Hg; subst. cbn [AvmCodec.resolve_all] in H. inversion H; subst. constructor.
    - inversion Hg as [|? ? ? ? ? Hgap Hgrest]; subst. inversion Hex as [|? ? ? ? ? Hx Hxrest]; subst.
      cbn [AvmCodec.resolve_all] in H.
      destruct (resolve_one v labs poss endpos pos pi vs) as [a|] eqn:R1; try discriminate.
      destruct (resolve_all v labs poss endpos (pos + psize pi vs) ps vss0) as [b|] eqn:R2; try discriminate.
      inversion H; subst. constructor.
      + eapply resolve_one_target; eauto.
      + eapply resolve_one_length; eauto.
      + eapply IH; eauto.
  Qed.

  (* Label resolution is correct at the layout found by findBranchSizes: the bytes written for
     the i-th statement start at position pos_i of ops.pending (each chunk has exactly the size
     the layout assumed), and the offset written for every label reference makes the
     disassembler's target formula land exactly on the start of the labelled instruction. *)
  Theorem branch_targets_correct : forall v ps fuel vss bytes,
    find_sizes labs fuel ps (map (fun _ => 3) ps) = Some vss ->
    resolve_all v labs (positions 0 ps vss) (last (positions 0 ps vss) 0) 0 ps vss = Some bytes ->
    targets_ok (positions 0 ps vss) 0 ps vss bytes.
  Proof.
    intros v ps fuel vss bytes Hf Hr.
    pose proof (branch_sizes_exact labs back_ver v ps fuel vss bytes Hf Hr) as Hex.
    apply find_sizes_fix in Hf; [|rewrite map_length; reflexivity]. destruct Hf as [_ Hl].
    eapply resolve_all_targets; eauto. apply positions_gaps. exact Hl.
  Qed.
End Targets.
