(* C35 proofs, part 3: every access the transcription lets through touches only justified
   resources (soundness), every justified resource can be reached (completeness), boxes and the
   created-app quota, inner transactions. *)
From Coq Require Import List NArith Bool Lia ZifyN ZifyNat ZifyBool.
From Verif.lib Require Import Term.
From Verif.model Require Import AvmResources AvmResourcesSpec.
From Verif.proofs Require Import AvmResourcesFill AvmResourcesAvail.
Import ListNotations.
Open Scope N_scope.

Lemma first_err_zero : forall l, first_err l = 0 <-> forall e, In e l -> e = 0.
Proof.
  induction l as [|e l IH]; simpl.
  - split; auto. intros _ e [].
  - destruct (N.eqb_spec e 0).
    + rewrite IH. split; intros H x; [intros [<-|Hx]|intro Hx]; auto.
    + split. intro H. contradiction. intro H. exfalso. apply n. apply H. auto.
Qed.

Section Sound.
Variable appaddr : N -> addr.
Variable w : world.
Hypothesis Hpol : w_policy w = None.

Notation cx := (ctx_of appaddr w).
Notation J_acct := (J_acct appaddr).
Notation J_hold := (J_hold appaddr).
Notation J_loc := (J_loc appaddr).
Notation justified := (justified appaddr).
Notation L_acct := (L_acct appaddr w).
Notation L_asset := (L_asset w).
Notation L_app := (L_app w).
Notation here_acct := (here_acct w).

Lemma address_by_index_here : forall i a,
  address_by_index (w_cur w) (w_sender w) i = Ok a -> here_acct a.
Proof.
  intros i a H. unfold address_by_index in H. unfold AvmResourcesAvail.here_acct.
  destruct (N.eqb_spec i 0). inversion H; auto.
  destruct (ap_access (w_cur w)) as [l|] eqn:E.
  - destruct (nth1 l i) as [rr|] eqn:En; try discriminate.
    destruct (N.eqb_spec (rr_address rr) 0); try discriminate. inversion H; subst.
    right. left. exists rr. split; auto. unfold access_of. rewrite E. apply (nth1_In _ _ _ En).
  - destruct (nth1 (ap_accounts (w_cur w)) i) as [x|] eqn:En; try discriminate. inversion H; subst.
    right. right. apply (nth1_In _ _ _ En).
Qed.

Lemma here_L : forall a, here_acct a -> L_acct a.
Proof. intros a H. left. exact H. Qed.

Lemma account_reference_sound : forall r a i, account_reference appaddr cx r = Ok (a, i) -> L_acct a.
Proof.
  intros r a i H. unfold account_reference, resolve_account in H. cbn [cx_cur cx_sender ctx_of] in H.
  destruct r as [j|b].
  - destruct (address_by_index (w_cur w) (w_sender w) j) as [x|e] eqn:E; try discriminate.
    inversion H; subst. apply here_L. apply (address_by_index_here _ _ E).
  - destruct (index_by_address (w_cur w) (w_sender w) b) as [j|] eqn:E.
    + inversion H; subst. apply here_L. apply (index_by_address_iff w). rewrite E. reflexivity.
    + destruct (available_account appaddr cx b) eqn:Ea; try discriminate. inversion H; subst.
      apply (available_account_iff appaddr w Hpol). exact Ea.
Qed.

Lemma account_reference_complete : forall a, L_acct a -> exists i, account_reference appaddr cx (ByAddr a) = Ok (a, i).
Proof.
  intros a H. unfold account_reference, resolve_account. cbn [cx_cur cx_sender ctx_of].
  destruct (index_by_address (w_cur w) (w_sender w) a) as [j|] eqn:E.
  - exists j. reflexivity.
  - apply (available_account_iff appaddr w Hpol) in H. rewrite H. eexists. reflexivity.
Qed.

Definition low_fine (n : N) : Prop := w_forbid_low w = true -> lastForbiddenResource < n.

Lemma low_check_ok : forall x n, low_check cx x = Ok n -> x = Ok n /\ low_fine n.
Proof.
  intros x n H. unfold low_check in H. destruct x as [id|e]; try discriminate.
  cbn [cx_forbid_low ctx_of] in H. unfold low_fine.
  destruct (w_forbid_low w); simpl in H.
  - destruct (N.leb_spec id lastForbiddenResource); try discriminate. inversion H; subst. split; auto.
  - inversion H; subst. split; auto. discriminate.
Qed.

Lemma low_check_pass : forall n, low_fine n -> low_check cx (Ok n) = Ok n.
Proof.
  intros n H. unfold low_check, low_fine in *. cbn [cx_forbid_low ctx_of].
  destruct (w_forbid_low w); simpl; auto.
  destruct (N.leb_spec n lastForbiddenResource); auto. specialize (H eq_refl). lia.
Qed.

Lemma resolve_asset_sound : forall ref n, resolve_asset cx ref = Ok n -> L_asset n /\ low_fine n.
Proof.
  intros ref n H. unfold resolve_asset in H. apply low_check_ok in H. destruct H as [H Hl]. split; auto.
  destruct (available_asset cx ref) eqn:Ea.
  - inversion H; subst. apply (available_asset_iff appaddr w Hpol). exact Ea.
  - cbn [cx_cur ctx_of] in H.
    destruct (nth_error (ap_fassets (w_cur w)) (N.to_nat ref)) as [id|] eqn:En.
    + inversion H; subst. right. left. apply (nth_error_In _ _ En).
    + destruct (nth1 (access_of (w_cur w)) ref) as [rr|] eqn:Ea2; try discriminate.
      destruct (N.eqb_spec (rr_asset rr) 0); try discriminate. inversion H; subst.
      left. exists rr. split; auto. apply (nth1_In _ _ _ Ea2).
Qed.

Lemma resolve_asset_complete : forall n, L_asset n -> low_fine n -> resolve_asset cx n = Ok n.
Proof.
  intros n H Hl. unfold resolve_asset. apply (available_asset_iff appaddr w Hpol) in H. rewrite H.
  apply low_check_pass. exact Hl.
Qed.

Lemma resolve_app_sound : forall ref p, resolve_app cx ref = Ok p -> L_app p /\ low_fine p.
Proof.
  intros ref p H. unfold resolve_app in H. apply low_check_ok in H. destruct H as [H Hl]. split; auto.
  cbn [cx_cur cx_appid ctx_of] in H.
  destruct ((ref =? 0) || (ref =? w_appid w)).
  - inversion H; subst. right. right. right. left. reflexivity.
  - destruct (available_app cx ref) eqn:Ea.
    + inversion H; subst. apply (available_app_iff appaddr w Hpol). exact Ea.
    + destruct (nth1 (ap_fapps (w_cur w)) ref) as [id|] eqn:En.
      * inversion H; subst. right. left. apply (nth1_In _ _ _ En).
      * destruct (nth1 (access_of (w_cur w)) ref) as [rr|] eqn:Ea2; try discriminate.
        destruct (N.eqb_spec (rr_app rr) 0); try discriminate. inversion H; subst.
        left. exists rr. split; auto. apply (nth1_In _ _ _ Ea2).
Qed.

Lemma resolve_app_complete : forall p, p <> 0 -> L_app p -> low_fine p -> resolve_app cx p = Ok p.
Proof.
  intros p Hz H Hl. unfold resolve_app. cbn [cx_cur cx_appid ctx_of].
  destruct (N.eqb_spec p 0); try contradiction. simpl.
  destruct (N.eqb_spec p (w_appid w)).
  - subst. apply low_check_pass. exact Hl.
  - apply (available_app_iff appaddr w Hpol) in H. rewrite H. apply low_check_pass. exact Hl.
Qed.

Lemma resolve_account_addr : forall a, exists o, resolve_account cx (ByAddr a) = Ok (a, o).
Proof. intro a. eexists. reflexivity. Qed.

Lemma leb_shared : forall b, (sharedResourcesVersion <=? w_version w) = b ->
  (b = true -> sharedResourcesVersion <= w_version w) /\ (b = false -> w_version w < sharedResourcesVersion).
Proof.
  intros b H. split; intro E; subst b.
  - apply N.leb_le. exact E.
  - apply N.leb_gt. exact E.
Qed.

Lemma holding_reference_sound : forall r ref a n,
  holding_reference appaddr cx r ref = Ok (a, n) -> a <> 0 -> n <> 0 -> J_hold w a n /\ low_fine n.
Proof.
  intros r ref a n H Ha Hn. unfold holding_reference in H. cbn [cx_version ctx_of] in H.
  destruct (sharedResourcesVersion <=? w_version w) eqn:Ev.
  - destruct (resolve_account cx r) as [[a' o]|e]; try discriminate.
    destruct (resolve_asset cx ref) as [n'|e] eqn:Er.
    + destruct (allows_holding appaddr cx a' n') eqn:Eh.
      * inversion H; subst. split.
        -- apply (allows_holding_sound appaddr w Hpol); auto. apply N.leb_le. exact Ev.
        -- apply (resolve_asset_sound ref n Er).
      * destruct (available_account appaddr cx a'); discriminate.
    + destruct (available_account appaddr cx a'); discriminate.
  - destruct (account_reference appaddr cx r) as [[a' i]|e] eqn:Ea; try discriminate.
    destruct (resolve_asset cx ref) as [n'|e] eqn:Er; try discriminate. inversion H; subst.
    destruct (resolve_asset_sound ref n Er) as [H1 H2]. split; auto.
    unfold AvmResourcesSpec.J_hold. rewrite Ev. split.
    + apply (L_acct_J appaddr w); auto. apply (account_reference_sound r a i Ea).
    + apply (L_asset_J w); auto.
Qed.

Lemma locals_reference_sound : forall r ref a p,
  locals_reference appaddr cx r ref = Ok (a, p) -> a <> 0 -> p <> 0 -> J_loc w a p /\ low_fine p.
Proof.
  intros r ref a p H Ha Hn. unfold locals_reference in H. cbn [cx_version ctx_of] in H.
  destruct (sharedResourcesVersion <=? w_version w) eqn:Ev.
  - destruct (resolve_account cx r) as [[a' o]|e]; try discriminate.
    destruct (resolve_app cx ref) as [n'|e] eqn:Er.
    + destruct (allows_locals appaddr cx a' n') eqn:Eh.
      * inversion H; subst. split.
        -- apply (allows_locals_sound appaddr w Hpol); auto. apply N.leb_le. exact Ev.
        -- apply (resolve_app_sound ref p Er).
      * destruct (available_account appaddr cx a'); discriminate.
    + destruct (available_account appaddr cx a'); discriminate.
  - destruct (account_reference appaddr cx r) as [[a' i]|e] eqn:Ea; try discriminate.
    destruct (resolve_app cx ref) as [n'|e] eqn:Er; try discriminate. inversion H; subst.
    destruct (resolve_app_sound ref p Er) as [H1 H2]. split; auto.
    unfold AvmResourcesSpec.J_loc. rewrite Ev. split.
    + apply (L_acct_J appaddr w); auto. apply (account_reference_sound r a i Ea).
    + apply (L_app_J w); auto.
Qed.

Lemma locals_mutation_sound : forall r a p,
  locals_mutation appaddr cx r = Ok (a, p) -> a <> 0 -> p <> 0 -> J_loc w a p.
Proof.
  intros r a p H Ha Hn. unfold locals_mutation, mutable_account_reference in H.
  destruct (account_reference appaddr cx r) as [[a' i]|e] eqn:Ea; try discriminate.
  match type of H with context [if ?c then Err E_MUT else _] => destruct c; try discriminate end.
  cbn [cx_version cx_appid ctx_of] in H.
  destruct (sharedResourcesVersion <=? w_version w) eqn:Ev; simpl in H.
  - destruct (allows_locals appaddr cx a' (w_appid w)) eqn:Eh; simpl in H; try discriminate.
    inversion H; subst. apply (allows_locals_sound appaddr w Hpol); auto. apply N.leb_le. exact Ev.
  - inversion H; subst. unfold AvmResourcesSpec.J_loc. rewrite Ev. split.
    + apply (L_acct_J appaddr w); auto. apply (account_reference_sound r a i Ea).
    + unfold J_app. do 3 right. left. reflexivity.
Qed.

(* ---------------------------------------------------------------- inner transactions *)
Lemma check_needs_zero : forall l, check_needs appaddr cx l = 0 ->
  forall h a n, In (h, (a, n)) l ->
  (h = true -> allows_holding appaddr cx a n = true) /\ (h = false -> allows_locals appaddr cx a n = true).
Proof.
  induction l as [|[h' [a' n']] l IH]; simpl; intros H h a n Hin. contradiction.
  destruct h'.
  - destruct (allows_holding appaddr cx a' n') eqn:E; [|discriminate].
    destruct Hin as [Hx|Hin]. inversion Hx; subst. split; auto. discriminate. apply IH; auto.
  - destruct (allows_locals appaddr cx a' n') eqn:E; [|discriminate].
    destruct Hin as [Hx|Hin]. inversion Hx; subst. split; auto. discriminate. apply IH; auto.
Qed.

Lemma req_hold_In : forall a n x, In x (req_hold a n) -> x = (a, n) /\ a <> 0 /\ n <> 0.
Proof.
  intros a n x H. unfold req_hold in H.
  destruct (N.eqb_spec n 0); simpl in H. contradiction.
  destruct (N.eqb_spec a 0); simpl in H. contradiction.
  destruct H as [H|[]]. auto.
Qed.

Lemma assign_account_zero : forall a, ecode (assign_account appaddr cx a) = 0 -> L_acct a.
Proof.
  intros a H. unfold assign_account in H. destruct (available_account appaddr cx a) eqn:E.
  - apply (available_account_iff appaddr w Hpol). exact E.
  - simpl in H. discriminate.
Qed.
Lemma opt_acct_zero : forall a, opt_acct appaddr cx a = 0 -> a <> 0 -> L_acct a.
Proof.
  intros a H Hz. unfold opt_acct in H. destruct (N.eqb_spec a 0). contradiction. apply assign_account_zero. exact H.
Qed.
Lemma assign_asset_zero : forall n, ecode (assign_asset cx n) = 0 -> L_asset n.
Proof.
  intros n H. unfold assign_asset in H. destruct (available_asset cx n) eqn:E.
  - apply (available_asset_iff appaddr w Hpol). exact E.
  - simpl in H. discriminate.
Qed.

Lemma me_justified : J_acct w (appaddr (w_appid w)).
Proof. unfold AvmResourcesSpec.J_acct. do 6 right. reflexivity. Qed.

(* before sharing: the holdings an inner axfer / afrz needs consist of assigned (= available) parts *)
Lemma inner_old_sound : forall it cv h a n,
  w_version w < sharedResourcesVersion ->
  assign_fields appaddr cx it = 0 ->
  In (h, (a, n)) (inner_touches appaddr cx it cv) -> h = true /\ J_acct w a /\ J_asset w n.
Proof.
  intros it cv h a n Hv Hf Hin. unfold inner_touches in Hin. cbn [cx_version ctx_of] in Hin.
  apply N.ltb_lt in Hv.
  destruct it as [rcv cl|id rcv asnd cl|id|id acct|id accts fassets fapps]; simpl in Hin; try contradiction.
  - (* axfer *)
    unfold assign_fields in Hf. rewrite first_err_zero in Hf.
    assert (Hid : L_asset id). { apply assign_asset_zero. apply Hf. simpl. auto. }
    assert (Hrcv : L_acct rcv). { apply assign_account_zero. apply Hf. simpl. auto. }
    assert (Has : asnd <> 0 -> L_acct asnd). { apply opt_acct_zero. apply Hf. simpl. auto. }
    assert (Hcl : cl <> 0 -> L_acct cl). { apply opt_acct_zero. apply Hf. simpl. auto 6. }
    apply in_map_iff in Hin. destruct Hin as [[a' n'] [Hx Hin]]. inversion Hx; subst. split; auto.
    cbn [cx_appid ctx_of] in Hin. rewrite !in_app_iff in Hin.
    assert (Hgen : forall b, In (a, n) (req_hold b id) -> L_acct b -> J_acct w a /\ J_asset w n).
    { intros b Hb Lb. apply req_hold_In in Hb. destruct Hb as [E [Hb1 Hb2]]. inversion E; subst.
      split. apply (L_acct_J appaddr w); auto. apply (L_asset_J w); auto. }
    destruct Hin as [Hin|[Hin|[Hin|Hin]]].
    + destruct (N.eqb_spec asnd 0); simpl in Hin; try contradiction.
      apply req_hold_In in Hin. destruct Hin as [E [Hb1 Hb2]]. inversion E; subst.
      split. apply me_justified. apply (L_asset_J w); auto.
    + apply (Hgen rcv); auto.
    + apply (Hgen asnd); auto. apply Has. apply req_hold_In in Hin. tauto.
    + apply (Hgen cl); auto. apply Hcl. apply req_hold_In in Hin. tauto.
  - (* afrz *)
    unfold assign_fields in Hf. rewrite first_err_zero in Hf.
    assert (Hid : L_asset id). { apply assign_asset_zero. apply Hf. simpl. auto. }
    assert (Hac : L_acct acct). { apply assign_account_zero. apply Hf. simpl. auto. }
    apply in_map_iff in Hin. destruct Hin as [[a' n'] [Hx Hin]]. inversion Hx; subst. split; auto.
    apply req_hold_In in Hin. destruct Hin as [E [Hb1 Hb2]]. inversion E; subst.
    split. apply (L_acct_J appaddr w); auto. apply (L_asset_J w); auto.
  - (* appl: not examined before sharing *)
    rewrite Hv in Hin. contradiction.
Qed.

Lemma inner_touches_shared : forall it cv,
  sharedResourcesVersion <= w_version w -> inner_touches appaddr cx it cv = inner_needs appaddr cx it cv.
Proof.
  intros it cv Hv. unfold inner_touches. cbn [cx_version ctx_of].
  assert (E : (w_version w <? sharedResourcesVersion) = false) by (apply N.ltb_ge; exact Hv).
  rewrite E. destruct it; reflexivity.
Qed.

Lemma inner_needs_nonzero_hold : forall it cv a n, In (true, (a, n)) (inner_needs appaddr cx it cv) -> a <> 0 /\ n <> 0.
Proof.
  intros it cv a n Hin. unfold inner_needs in Hin.
  destruct it as [rcv cl|id rcv asnd cl|id|id acct|id accts fassets fapps]; try (simpl in Hin; contradiction).
  - apply in_map_iff in Hin. destruct Hin as [[a' n'] [Hx Hin]]. inversion Hx; subst.
    rewrite !in_app_iff in Hin.
    destruct Hin as [Hin|[Hin|[Hin|Hin]]];
      try (destruct (asnd =? 0); simpl in Hin; try contradiction);
      apply req_hold_In in Hin; destruct Hin as [E [H1 H2]]; inversion E; subst; auto.
  - apply in_map_iff in Hin. destruct Hin as [[a' n'] [Hx Hin]]. inversion Hx; subst.
    apply req_hold_In in Hin. destruct Hin as [E [H1 H2]]. inversion E; subst; auto.
  - destruct (sharedResourcesVersion <=? cv); [simpl in Hin; contradiction|]. cbv zeta in Hin.
    apply in_flat_map in Hin. destruct Hin as [b [_ Hin]]. apply in_app_or in Hin. destruct Hin as [Hin|Hin].
    + apply in_map_iff in Hin. destruct Hin as [[a' n'] [Hx Hin]]. inversion Hx; subst.
      apply in_flat_map in Hin. destruct Hin as [m [_ Hin]].
      apply req_hold_In in Hin. destruct Hin as [E [H1 H2]]. inversion E; subst; auto.
    + apply in_map_iff in Hin. destruct Hin as [p [Hx _]]. discriminate.
Qed.

(* ---------------------------------------------------------------- soundness of [resolve] *)
Theorem resolve_sound : forall acc rs,
  resolve appaddr cx acc = Ok rs -> forall r, In r rs -> nonzero r -> justified w r.
Proof.
  intros acc rs H r Hin Hnz. unfold resolve in H.
  destruct (negb (begin_check cx =? 0)); try discriminate.
  destruct acc as [ar|ref|ref|ar ref|ar ref|ar|a|n|n|it cv].
  - destruct (account_reference appaddr cx ar) as [[a i]|e] eqn:E; try discriminate. inversion H; subst.
    destruct Hin as [<-|[]]. simpl in *. apply (L_acct_J appaddr w); auto. apply (account_reference_sound ar a i E).
  - destruct (resolve_asset cx ref) as [n|e] eqn:E; try discriminate. inversion H; subst.
    destruct Hin as [<-|[]]. simpl in *. apply (L_asset_J w); auto. apply (resolve_asset_sound ref n E).
  - destruct (resolve_app cx ref) as [n|e] eqn:E; try discriminate. inversion H; subst.
    destruct Hin as [<-|[]]. simpl in *. apply (L_app_J w); auto. apply (resolve_app_sound ref n E).
  - destruct (holding_reference appaddr cx ar ref) as [[a n]|e] eqn:E; try discriminate. inversion H; subst.
    destruct Hin as [<-|[]]. simpl in *. destruct Hnz. apply (holding_reference_sound ar ref a n E); auto.
  - destruct (locals_reference appaddr cx ar ref) as [[a n]|e] eqn:E; try discriminate. inversion H; subst.
    destruct Hin as [<-|[]]. simpl in *. destruct Hnz. apply (locals_reference_sound ar ref a n E); auto.
  - destruct (locals_mutation appaddr cx ar) as [[a n]|e] eqn:E; try discriminate. inversion H; subst.
    destruct Hin as [<-|[]]. simpl in *. destruct Hnz. apply (locals_mutation_sound ar a n E); auto.
  - unfold assign_account in H. destruct (available_account appaddr cx a) eqn:E; try discriminate. inversion H; subst.
    destruct Hin as [<-|[]]. simpl in *. apply (available_account_sound appaddr w Hpol); auto.
  - unfold assign_asset in H. destruct (available_asset cx n) eqn:E; try discriminate. inversion H; subst.
    destruct Hin as [<-|[]]. simpl in *. apply (available_asset_sound appaddr w Hpol); auto.
  - unfold assign_app in H. destruct (available_app cx n) eqn:E; try discriminate. inversion H; subst.
    destruct Hin as [<-|[]]. simpl in *. apply (available_app_sound appaddr w Hpol); auto.
  - destruct (N.eqb_spec (assign_fields appaddr cx it) 0) as [Ef|Ef]; simpl in H; try discriminate.
    destruct (N.eqb_spec (allows appaddr cx it cv) 0) as [Ea|Ea]; simpl in H; try discriminate.
    inversion H; subst. unfold needs_res in Hin. apply in_map_iff in Hin.
    destruct Hin as [[h [a n]] [Hx Hin]].
    destruct (N.ltb_spec (w_version w) sharedResourcesVersion) as [Hv|Hv].
    + destruct (inner_old_sound it cv h a n Hv Ef Hin) as [Hh [H1 H2]]. subst h r. simpl.
      unfold AvmResourcesSpec.J_hold. apply N.leb_gt in Hv. rewrite Hv. auto.
    + rewrite (inner_touches_shared it cv Hv) in Hin.
      unfold allows in Ea. cbn [cx_version ctx_of] in Ea.
      assert (E : (w_version w <? sharedResourcesVersion) = false) by (apply N.ltb_ge; exact Hv).
      rewrite E in Ea. destruct (check_needs_zero _ Ea h a n Hin) as [Hh Hl].
      destruct h; subst r; simpl in *; destruct Hnz.
      * apply (allows_holding_sound appaddr w Hpol); auto.
      * apply (allows_locals_sound appaddr w Hpol); auto.
Qed.

(* lookups by opcode respect AppForbidLowResources *)
Theorem lookup_low : forall acc rs r,
  match acc with AAssetParams _ | AAppParams _ | AHold _ _ | ALoc _ _ => True | _ => False end ->
  resolve appaddr cx acc = Ok rs -> In r rs -> nonzero r -> low_ok w r.
Proof.
  intros acc rs r Hk H Hin Hnz. unfold resolve in H.
  destruct (negb (begin_check cx =? 0)); try discriminate.
  destruct acc as [ar|ref|ref|ar ref|ar ref|ar|a|n|n|it cv]; try contradiction.
  - destruct (resolve_asset cx ref) as [n|e] eqn:E; try discriminate. inversion H; subst.
    destruct Hin as [<-|[]]. unfold low_ok. apply (resolve_asset_sound ref n E).
  - destruct (resolve_app cx ref) as [n|e] eqn:E; try discriminate. inversion H; subst.
    destruct Hin as [<-|[]]. unfold low_ok. apply (resolve_app_sound ref n E).
  - destruct (holding_reference appaddr cx ar ref) as [[a n]|e] eqn:E; try discriminate. inversion H; subst.
    destruct Hin as [<-|[]]. simpl in Hnz. destruct Hnz. unfold low_ok. apply (holding_reference_sound ar ref a n E); auto.
  - destruct (locals_reference appaddr cx ar ref) as [[a n]|e] eqn:E; try discriminate. inversion H; subst.
    destruct Hin as [<-|[]]. simpl in Hnz. destruct Hnz. unfold low_ok. apply (locals_reference_sound ar ref a n E); auto.
Qed.

(* ---------------------------------------------------------------- completeness *)
Definition canonical_access (r : resource) : access :=
  match r with
  | ResAcct a => AAcct (ByAddr a)
  | ResAsset n => AAssetParams n
  | ResApp p => AAppParams p
  | ResHold a n => AHold (ByAddr a) n
  | ResLoc a p => ALoc (ByAddr a) p
  | ResBox _ _ => AAcct (ByIndex 0)
  end.
Definition app_nonzero (r : resource) : Prop :=
  match r with ResApp p | ResLoc _ p => p <> 0 | ResBox _ _ => False | _ => True end.

Lemma group_names_hold_asset : forall a n, group_names w (fun t => names_hold appaddr t a) n -> group_names w names_asset n.
Proof. intros a n [t [H1 H2]]. exists t. split; auto. apply (names_hold_asset appaddr t a n H2). Qed.
Lemma group_names_loc_app : forall a p, p <> 0 -> group_names w (fun t => names_loc appaddr t a) p -> group_names w names_app p.
Proof. intros a p Hz [t [H1 H2]]. exists t. split; auto. apply (names_loc_app appaddr t a p Hz H2). Qed.

Theorem resolve_complete : forall r,
  begin_check cx = 0 -> justified w r -> low_ok w r -> app_nonzero r ->
  resolve appaddr cx (canonical_access r) = Ok [r].
Proof.
  intros r Hb Hj Hl Hz. unfold resolve. rewrite Hb. simpl negb. cbv iota.
  destruct r as [a|n|p|a n|a p|app name]; simpl canonical_access; cbv iota; simpl in Hj, Hl, Hz.
  - destruct (account_reference_complete a (J_acct_L appaddr w a Hj)) as [i E]. rewrite E. reflexivity.
  - rewrite (resolve_asset_complete n (J_asset_L w n Hj) Hl). reflexivity.
  - rewrite (resolve_app_complete p Hz (J_app_L w p Hj) Hl). reflexivity.
  - unfold holding_reference. cbn [cx_version ctx_of].
    unfold AvmResourcesSpec.J_hold in Hj.
    destruct (sharedResourcesVersion <=? w_version w) eqn:Ev.
    + assert (Hv : sharedResourcesVersion <= w_version w) by (apply N.leb_le; exact Ev).
      destruct (resolve_account_addr a) as [o Eo]. rewrite Eo.
      assert (La : L_asset n).
      { destruct Hj as [H|[[H _]|[_ H]]].
        - do 3 right. split; auto. apply (group_names_hold_asset a n H).
        - right. right. left. split; auto. unfold createdResourcesVersion, sharedResourcesVersion in *. lia.
        - apply (J_asset_L w n H). }
      rewrite (resolve_asset_complete n La Hl).
      assert (Hh : allows_holding appaddr cx a n = true).
      { apply (allows_holding_complete appaddr w Hpol); auto. unfold AvmResourcesSpec.J_hold. rewrite Ev. exact Hj. }
      rewrite Hh. reflexivity.
    + destruct Hj as [H1 H2].
      destruct (account_reference_complete a (J_acct_L appaddr w a H1)) as [i E]. rewrite E.
      rewrite (resolve_asset_complete n (J_asset_L w n H2) Hl). reflexivity.
  - unfold locals_reference. cbn [cx_version ctx_of].
    unfold AvmResourcesSpec.J_loc in Hj.
    destruct (sharedResourcesVersion <=? w_version w) eqn:Ev.
    + assert (Hv : sharedResourcesVersion <= w_version w) by (apply N.leb_le; exact Ev).
      destruct (resolve_account_addr a) as [o Eo]. rewrite Eo.
      assert (La : L_app p).
      { destruct Hj as [H|[[H _]|[_ H]]].
        - do 4 right. split; auto. apply (group_names_loc_app a p Hz H).
        - right. right. left. split; auto. unfold createdResourcesVersion, sharedResourcesVersion in *. lia.
        - apply (J_app_L w p H). }
      rewrite (resolve_app_complete p Hz La Hl).
      assert (Hh : allows_locals appaddr cx a p = true).
      { apply (allows_locals_complete appaddr w Hpol); auto. unfold AvmResourcesSpec.J_loc. rewrite Ev. exact Hj. }
      rewrite Hh. reflexivity.
    + destruct Hj as [H1 H2].
      destruct (account_reference_complete a (J_acct_L appaddr w a H1)) as [i E]. rewrite E.
      rewrite (resolve_app_complete p Hz (J_app_L w p H2) Hl). reflexivity.
  - contradiction.
Qed.

End Sound.

(* ==================================================================== boxes *)
Lemma NoDup_app_intro : forall {A} (l1 l2 : list A),
  NoDup l1 -> NoDup l2 -> (forall x, In x l1 -> In x l2 -> False) -> NoDup (l1 ++ l2).
Proof.
  induction l1 as [|x l1 IH]; intros l2 H1 H2 Hd; simpl. exact H2.
  inversion H1; subst. constructor.
  - intro G. apply in_app_or in G. destruct G as [G|G]. contradiction. apply (Hd x); simpl; auto.
  - apply IH; auto. intros y Hy1 Hy2. apply (Hd y); simpl; auto.
Qed.

Section Boxes.
Variable appaddr : N -> addr.
Variable cx : ctx.
Hypothesis Hpol : cx_policy cx = None.
Variable io : N.

Definition box_key (op : bop) : N * bytes := (if bo_app op =? 0 then cx_appid cx else bo_app op, bo_name op).

Lemma pol_box_none : forall f, pol cx f = false.
Proof. intro f. unfold pol. rewrite Hpol. reflexivity. Qed.

(* one box operation: the box was available (named), or it belongs to an app created in this group
   and one unit of the unnamed-access quota was consumed; at most that box becomes available *)
Definition box_post (st : bstate) (op : bop) (res : bstate * N) : Prop :=
  let r := bs_res st in let r' := bs_res (fst res) in let e := snd res in
  cr_apps r' = cr_apps r /\
  ((bx_avail r' = bx_avail r /\ unnamed r' <= unnamed r /\ (e = 0 -> In (box_key op) (bx_avail r))) \/
   (bx_avail r' = box_key op :: bx_avail r /\ unnamed r' + 1 = unnamed r /\
    ~ In (box_key op) (bx_avail r) /\ In (fst (box_key op)) (cr_apps r))).

Ltac box_split :=
  repeat match goal with
         | |- context [match bo_kind ?op with BCreate => _ | BRead => _ | BDel => _ end] => destruct (bo_kind op)
         | |- context [match ?o with Some _ => _ | None => _ end] => destruct o eqn:?
         | |- context [if ?c then _ else _] => destruct c eqn:?
         end.

Lemma box_step_post : forall st op, box_post st op (box_step cx io st op).
Proof.
  intros st op. unfold box_post, box_step, box_key.
  set (app := if bo_app op =? 0 then cx_appid cx else bo_app op).
  set (k := (app, bo_name op)). cbv zeta. change (fst k) with app.
  destruct (ap_clear (cx_cur cx)).
  { simpl. split; [reflexivity|]. left. split; [reflexivity|]. split; [lia|]. intro X. vm_compute in X. discriminate X. }
  rewrite !pol_box_none, andb_false_r, orb_false_r.
  destruct (memB k (bx_avail (bs_res st))) eqn:En.
  - (* named *)
    assert (Hin : In k (bx_avail (bs_res st))) by (apply memB_In; exact En).
    cbn [negb andb orb]. box_split; simpl; rewrite ?En; simpl; try congruence;
      (split; [reflexivity|]); left; (split; [reflexivity|]); (split; [lia|]); intro X; exact Hin.
  - (* not named *)
    assert (Hnin : ~ In k (bx_avail (bs_res st))) by (intro G; apply memB_In in G; congruence).
    cbn [negb andb orb].
    destruct (memN app (cr_apps (bs_res st))) eqn:Ec; cbn [negb andb orb].
    + assert (Hc : In app (cr_apps (bs_res st))) by (apply memN_In; exact Ec).
      destruct (N.ltb_spec 0 (unnamed (bs_res st))) as [Hq|Hq]; cbn [negb andb orb].
      * (* through the quota *)
        destruct (negb (app =? cx_appid cx) && negb match bo_kind op with BRead => true | _ => false end).
        { simpl. split; [reflexivity|]. left. split; [reflexivity|]. split; [lia|].
          intro X. vm_compute in X. discriminate X. }
        destruct (bo_kind op); simpl; rewrite ?En; box_split; simpl; rewrite ?En; simpl; try congruence;
          (split; [reflexivity|]); right; (split; [reflexivity|]); (split; [lia|]); split; assumption.
      * simpl. split; [reflexivity|]. left. split; [reflexivity|]. split; [lia|].
        intro X. vm_compute in X. discriminate X.
    + simpl. split; [reflexivity|]. left. split; [reflexivity|]. split; [lia|].
      intro X. vm_compute in X. discriminate X.
Qed.

Lemma box_step_cases : forall st op st' e, box_step cx io st op = (st', e) ->
  let r := bs_res st in let r' := bs_res st' in
  cr_apps r' = cr_apps r /\
  ((bx_avail r' = bx_avail r /\ unnamed r' <= unnamed r /\ (e = 0 -> In (box_key op) (bx_avail r))) \/
   (bx_avail r' = box_key op :: bx_avail r /\ unnamed r' + 1 = unnamed r /\
    ~ In (box_key op) (bx_avail r) /\ In (fst (box_key op)) (cr_apps r))).
Proof.
  intros st op st' e H. pose proof (box_step_post st op) as P. rewrite H in P. exact P.
Qed.

(* over any sequence of box operations: the boxes that became available beyond the initial (named)
   ones belong to apps created in this group and number at most the quota consumed *)
Theorem box_quota_bound : forall ops st st' es, box_run cx io st ops = (st', es) ->
  exists new,
    bx_avail (bs_res st') = new ++ bx_avail (bs_res st) /\
    N.of_nat (length new) + unnamed (bs_res st') <= unnamed (bs_res st) /\
    cr_apps (bs_res st') = cr_apps (bs_res st) /\
    NoDup new /\
    forall k, In k new -> ~ In k (bx_avail (bs_res st)) /\ In (fst k) (cr_apps (bs_res st)).
Proof.
  induction ops as [|op ops IH]; intros st st' es H; simpl in H.
  - inversion H; subst. exists []. simpl.
    split; [reflexivity|]. split; [lia|]. split; [reflexivity|]. split; [constructor|]. intros k [].
  - destruct (box_step cx io st op) as [st1 e] eqn:Es.
    destruct (box_step_cases st op st1 e Es) as [Hc Hcase]. cbv zeta in Hc, Hcase.
    assert (Hrest : exists new1,
              bx_avail (bs_res st') = new1 ++ bx_avail (bs_res st1) /\
              N.of_nat (length new1) + unnamed (bs_res st') <= unnamed (bs_res st1) /\
              cr_apps (bs_res st') = cr_apps (bs_res st1) /\ NoDup new1 /\
              forall k, In k new1 -> ~ In k (bx_avail (bs_res st1)) /\ In (fst k) (cr_apps (bs_res st1))).
    { destruct (e =? 0).
      - destruct (box_run cx io st1 ops) as [st2 es2] eqn:Er. inversion H; subst. apply (IH st1 st' es2 Er).
      - inversion H; subst. exists []. simpl.
    split; [reflexivity|]. split; [lia|]. split; [reflexivity|]. split; [constructor|]. intros k []. }
    destruct Hrest as [new1 [A1 [A2 [A3 [A4 A5]]]]].
    destruct Hcase as [[B1 [B2 B3]]|[B1 [B2 [B3 B4]]]].
    + exists new1. rewrite A1, B1, A3, Hc.
      split; [reflexivity|]. split; [lia|]. split; [reflexivity|]. split; [exact A4|].
      intros k Hk. destruct (A5 k Hk) as [X Y]. rewrite B1 in X. rewrite Hc in Y. auto.
    + exists (new1 ++ [box_key op]). rewrite A1, B1, A3, Hc, <- app_assoc. simpl.
      split; [reflexivity|]. split; [rewrite app_length; simpl; lia|]. split; [reflexivity|]. split.
      * apply NoDup_app_intro; auto.
        -- constructor. intros []. constructor.
        -- intros k Hk [Hk2|[]]. subst k. destruct (A5 _ Hk) as [X _]. apply X. rewrite B1. left. reflexivity.
      * intros k Hk. apply in_app_or in Hk. destruct Hk as [Hk|[Hk|[]]].
        -- destruct (A5 k Hk) as [X Y]. split.
           ++ intro G. apply X. rewrite B1. right. exact G.
           ++ rewrite Hc in Y. exact Y.
        -- subst k. auto.
Qed.

End Boxes.
