(* C28: the verified-transaction cache only ever remembers groups that verified, for every
   sequence of TxnGroup / PaysetGroups / ProcessBatch calls and every completion pattern of an
   aborted PaysetGroups; hence a payset that block validation accepts consists of verified
   groups whatever was validated before. *)
From Coq Require Import String Ascii NArith ZArith List Bool Lia ZifyNat Arith.
Import ListNotations.
From Verif.lib Require Import Term.
From Verif.model Require Import Commitments TxnAuth TxnAuthSpec TxnAuthCheck.
From Verif.proofs Require Import TxnAuthProofs.

Lemma take_ws_app : forall l c f w rest, take_ws l c f = (w, rest) -> w ++ rest = l.
Proof.
  induction l as [|g r IH]; intros c f w rest E; cbn [take_ws] in E.
  - injection E as <- <-. reflexivity.
  - destruct (32 <? c + length g)%nat.
    + destruct f; injection E as <- <-; reflexivity.
    + destruct (take_ws r (c + length g) false) as [w' rest'] eqn:T. injection E as <- <-.
      cbn [app]. rewrite (IH _ _ _ _ T). reflexivity.
Qed.

Lemma take_ws_first_nonempty : forall g r w rest, take_ws (g :: r) 0 true = (w, rest) -> w <> [].
Proof.
  intros g r w rest E. cbn [take_ws] in E. destruct (32 <? 0 + length g)%nat.
  - injection E as <- _. discriminate.
  - destruct (take_ws r (0 + length g) false). injection E as <- _. discriminate.
Qed.

Lemma ws_split_concat : forall fuel l, (length l <= fuel)%nat -> concat (ws_split fuel l) = l.
Proof.
  induction fuel as [|f IH]; intros l L.
  - destruct l; [reflexivity | cbn in L; lia].
  - cbn [ws_split]. destruct l as [|g r]; [reflexivity|].
    destruct (take_ws (g :: r) 0 true) as [w rest] eqn:T.
    pose proof (take_ws_app _ _ _ _ _ T) as A. pose proof (take_ws_first_nonempty _ _ _ _ T) as N.
    cbn [concat]. rewrite IH.
    + exact A.
    + rewrite <- A in L. rewrite app_length in L. destruct w; [congruence|]. cbn [length] in L. lia.
Qed.

Lemma worksets_concat : forall l, concat (worksets l) = l.
Proof. intro l. apply ws_split_concat. apply le_n. Qed.

Section CacheSound.
  Variable sig_ok : bytes -> bytes -> bytes -> bool.
  Variable pq_ok : bytes -> bytes -> bytes -> bytes -> bool.
  Variable H : bytes -> bytes.
  Variable p : vparams.
  Notation gvalid := (gvalid sig_ok pq_ok H p).
  Notation cstep := (cstep sig_ok pq_ok H p).
  Definition all_valid (c : list group) : Prop := forall g, In g c -> gvalid g = true.

  Lemma ws_all_valid : forall ws, forallb (ws_ok sig_ok pq_ok H p) ws = true -> all_valid (concat ws).
  Proof.
    intros ws E g I. apply in_concat in I. destruct I as (w & Iw & Ig).
    rewrite forallb_forall in E. specialize (E w Iw). unfold ws_ok in E. rewrite forallb_forall in E. exact (E g Ig).
  Qed.

  Lemma cstep_sound : forall c o, all_valid c -> all_valid (cstep c o).
  Proof.
    intros c o V g I. destruct o as [g0 | unv ran | gs]; cbn [TxnAuth.cstep] in I.
    - destruct (gvalid g0) eqn:G; [|exact (V g I)]. destruct I as [<- | I]; [exact G | exact (V g I)].
    - destruct (forallb (ws_ok sig_ok pq_ok H p) (worksets unv)) eqn:A; apply in_app_or in I; destruct I as [I | I];
        try exact (V g I).
      + exact (ws_all_valid _ A g I).
      + apply in_concat in I. destruct I as (w & Iw & Ig). apply in_map_iff in Iw.
        destruct Iw as ([b w'] & Ew & If). cbn [snd] in Ew. subst w'.
        apply filter_In in If. destruct If as [_ F]. cbn [fst snd] in F. apply andb_true_iff in F. destruct F as [_ F].
        unfold ws_ok in F. rewrite forallb_forall in F. exact (F g Ig).
    - apply in_app_or in I. destruct I as [I | I]; [|exact (V g I)].
      apply filter_In in I. exact (proj2 I).
  Qed.

  (* cache ⊆ verified, for every operation sequence *)
  Theorem cache_sound : forall ops, all_valid (crun sig_ok pq_ok H p ops).
  Proof.
    intro ops. unfold crun.
    assert (G : forall c, all_valid c -> all_valid (fold_left cstep ops c)).
    { induction ops as [|o ops IH]; intros c V; cbn [fold_left]; [exact V|]. apply IH. apply cstep_sound. exact V. }
    apply G. intros g [].
  Qed.

  Lemma payset_ok_valid : forall unv, payset_ok sig_ok pq_ok H p unv = true -> all_valid unv.
  Proof. intros unv E. unfold payset_ok in E. rewrite <- (worksets_concat unv). exact (ws_all_valid _ E). Qed.

  (* a cache hit stands for a remembered group with the same verification outcome *)
  Variable remembered : list group -> group -> bool.
  Hypothesis remembered_sound : forall c g, remembered c g = true ->
    exists g', In g' c /\ (gvalid g' = true -> gvalid g = true).

  Theorem validate_sound : forall ops payset,
    validate sig_ok pq_ok H p remembered (crun sig_ok pq_ok H p ops) payset = true ->
    forall g, In g payset -> gvalid g = true.
  Proof.
    intros ops payset E g I. unfold validate in E.
    destruct (remembered (crun sig_ok pq_ok H p ops) g) eqn:R.
    - destruct (remembered_sound _ _ R) as (g' & Ig' & Imp). apply Imp. exact (cache_sound ops g' Ig').
    - apply (payset_ok_valid _ E). apply filter_In. split; [exact I | rewrite R; reflexivity].
  Qed.

  (* ... and every member of it is authorised (C28_accept_sound) *)
  Theorem validate_authorised : forall ops payset,
    validate sig_ok pq_ok H p remembered (crun sig_ok pq_ok H p ops) payset = true ->
    forall g s, In g payset -> In s g -> accept_ok sig_ok pq_ok H (authorizer s) s.
  Proof.
    intros ops payset E g s Ig Is. pose proof (validate_sound ops payset E g Ig) as V.
    unfold TxnAuth.gvalid in V. destruct (verify_group sig_ok pq_ok H p g) eqn:VG; [|discriminate].
    exact (accept_sound sig_ok pq_ok H p g VG s Is).
  Qed.
End CacheSound.

Lemma group_authorised_iff : forall sig_ok pq_ok H g,
  group_authorised sig_ok pq_ok H g = true <->
  g <> [] /\ forall s, In s g -> accept_ok sig_ok pq_ok H (authorizer s) s.
Proof.
  intros sig_ok pq_ok H g. unfold group_authorised. rewrite andb_true_iff, negb_true_iff, forallb_forall.
  assert (L : (length g =? 0)%nat = false <-> g <> []) by (destruct g; cbn; split; congruence).
  rewrite L. split; intros [A B]; (split; [exact A|]); intros s I; apply accept_ok_b_iff; exact (B s I).
Qed.
