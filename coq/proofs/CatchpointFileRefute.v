(* C16: "a file whose contents do not match its label is rejected" is FALSE of the faithful model.
   Two tampered files that VerifyCatchpoint accepts with the producer's label (both replayed on the
   real accessor by the harness):
     prefix   : a record with ExpectingMoreEntries = true and OTHER account data is put in front of
                an account's record -- the staged row keeps the first data, the hash is computed
                from the last;
     dangling : a record with ExpectingMoreEntries = true for a NEW address at the end of the last
                balances chunk -- a row without any hash, and nothing checks that the stream ended
                in the middle of an account.
   The decoders / builders of the witness are injective (no collision is involved) and H is the identity. *)
From Coq Require Import List NArith ZArith Bool.
From Verif.model Require Import MerkleTrie MerkleTrieSpec CatchpointHash CatchpointFile.
Import ListNotations.
Open Scope N_scope.

Definition xtot (e : bytes) : counts := (0, 0, 0, match e with _ :: n :: _ => n | _ => 0 end).   (* byte 1: number of assets held *)
Definition xflags (e : bytes) : bool * bool * bool * bool := (false, true, false, true).        (* every resource: an asset holding *)
Definition xlen (l : bytes) : bytes := l ++ repeat 0 (8 - length l).
Definition xleafA (a e : bytes) : bytes := 0 :: xlen a ++ xlen e.
Definition xleafR (a : bytes) (c : N) (e : bytes) : bytes := 1 :: xlen (c :: a) ++ xlen e.
Definition xleafK (k v : bytes) : bytes := 3 :: xlen k ++ xlen v.
Definition xH (x : bytes) : bytes := x.

Notation xrestore := (restore false xH xtot xflags xleafA xleafR xleafK).      (* the accessor as it was *)
Notation xrestore_fixed := (restore true xH xtot xflags xleafA xleafR xleafK). (* with fixes/C16.patch *)

(* the producer's state: two accounts, the second holds two assets; one box *)
Definition x_world : world :=
  mkWorld [([1], [5; 0], []); ([2], [7; 2], [(10, [4]); (11, [6])])] [([9], [8])] [] [] [128] [42].

(* its file as the writer makes it with a budget of one resource per chunk *)
Definition x_file : list section := write_file 130 512 1 6 8 x_world.

Definition x_label : bytes :=
  match process_all false xtot xflags xleafA xleafR xleafK x_file a_init with
  | Some a => match build_trie (a_hashes a) t_empty with
              | Some t => staged_label xH a t [77]
              | None => []
              end
  | None => []
  end.

Example x_file_shape :
  x_file = [SHdr 130 6 8 [42]; SSp [128] 1;
            SBal [mkRec [1] [5; 0] false []; mkRec [2] [7; 2] true [(10, [4])]] [] [] [];
            SBal [mkRec [2] [7; 2] false [(11, [6])]] [] [] [];
            SBal [] [([9], [8])] [] []].
Proof. vm_compute. reflexivity. Qed.

(* the honest file restores the producer's state *)
Lemma x_honest : exists t, xrestore x_file x_label 8 [77] = Accepted (x_world, t).
Proof. vm_compute. eexists. reflexivity. Qed.

(* prefix: account [1] gets the data [99; 0] (say: another balance and authorizer) *)
Definition x_prefix : list section :=
  [SHdr 130 6 8 [42]; SSp [128] 1;
   SBal [mkRec [1] [99; 0] true []; mkRec [1] [5; 0] false []; mkRec [2] [7; 2] true [(10, [4])]] [] [] [];
   SBal [mkRec [2] [7; 2] false [(11, [6])]] [] [] [];
   SBal [] [([9], [8])] [] []].

Lemma x_prefix_accepted :
  exists t, xrestore x_prefix x_label 8 [77] =
            Accepted (mkWorld [([1], [99; 0], []); ([2], [7; 2], [(10, [4]); (11, [6])])] [([9], [8])] [] [] [128] [42], t).
Proof. vm_compute. eexists. reflexivity. Qed.

(* dangling: a new account [3] with data [50; 0] appears *)
Definition x_dangling : list section :=
  [SHdr 130 6 8 [42]; SSp [128] 1;
   SBal [mkRec [1] [5; 0] false []; mkRec [2] [7; 2] true [(10, [4])]] [] [] [];
   SBal [mkRec [2] [7; 2] false [(11, [6])]; mkRec [3] [50; 0] true []] [] [] [];
   SBal [] [([9], [8])] [] []].

Lemma x_dangling_accepted :
  exists t, xrestore x_dangling x_label 8 [77] =
            Accepted (mkWorld [([1], [5; 0], []); ([2], [7; 2], [(10, [4]); (11, [6])]); ([3], [50; 0], [])]
                              [([9], [8])] [] [] [128] [42], t).
Proof. vm_compute. eexists. reflexivity. Qed.

(* ordinary tampering IS rejected in the same setting: another balance without the trick, a
   changed box, a dropped chunk, a duplicated record *)
Lemma x_plain_rejected :
  xrestore [SHdr 130 6 8 [42]; SSp [128] 1;
            SBal [mkRec [1] [99; 0] false []; mkRec [2] [7; 2] true [(10, [4])]] [] [] [];
            SBal [mkRec [2] [7; 2] false [(11, [6])]] [] [] []; SBal [] [([9], [8])] [] []] x_label 8 [77] = Rejected StVerify /\
  xrestore [SHdr 130 6 8 [42]; SSp [128] 1;
            SBal [mkRec [1] [5; 0] false []; mkRec [2] [7; 2] true [(10, [4])]] [] [] [];
            SBal [mkRec [2] [7; 2] false [(11, [6])]] [] [] []; SBal [] [([9], [7])] [] []] x_label 8 [77] = Rejected StVerify /\
  xrestore [SHdr 130 6 8 [42]; SSp [128] 1;
            SBal [mkRec [1] [5; 0] false []; mkRec [2] [7; 2] true [(10, [4])]] [] [] [];
            SBal [] [([9], [8])] [] []] x_label 8 [77] = Rejected StVerify /\
  xrestore [SHdr 130 6 8 [42]; SSp [128] 1;
            SBal [mkRec [1] [5; 0] false []; mkRec [1] [5; 0] false []; mkRec [2] [7; 2] true [(10, [4])]] [] [] [];
            SBal [mkRec [2] [7; 2] false [(11, [6])]] [] [] []; SBal [] [([9], [8])] [] []] x_label 8 [77] = Rejected StTrie.
Proof. vm_compute. repeat split; reflexivity. Qed.

(* the repaired accessor accepts the honest file and refuses both *)
Lemma x_fixed :
  (exists t, xrestore_fixed x_file x_label 8 [77] = Accepted (x_world, t)) /\
  xrestore_fixed x_prefix x_label 8 [77] = Rejected StProcess /\
  xrestore_fixed x_dangling x_label 8 [77] = Rejected StTrie.
Proof. vm_compute. split; [eexists; reflexivity | split; reflexivity]. Qed.

Lemma x_fix_rejects_witnesses :
  (exists t, xrestore x_prefix x_label 8 [77] =
             Accepted (mkWorld [([1], [99; 0], []); ([2], [7; 2], [(10, [4]); (11, [6])])] [([9], [8])] [] [] [128] [42], t)) /\
  (exists t, xrestore x_dangling x_label 8 [77] =
             Accepted (mkWorld [([1], [5; 0], []); ([2], [7; 2], [(10, [4]); (11, [6])]); ([3], [50; 0], [])]
                               [([9], [8])] [] [] [128] [42], t)) /\
  (exists t, xrestore_fixed x_file x_label 8 [77] = Accepted (x_world, t)) /\
  xrestore_fixed x_prefix x_label 8 [77] = Rejected StProcess /\
  xrestore_fixed x_dangling x_label 8 [77] = Rejected StTrie.
Proof. exact (conj x_prefix_accepted (conj x_dangling_accepted x_fixed)). Qed.

Lemma tamper_rejected_refuted :
  exists (f0 f : list section) (label digest : bytes) (rnd : N) (w0 w : world) t0 t,
    f <> f0 /\
    xrestore f0 label rnd digest = Accepted (w0, t0) /\        (* the producer's file and label *)
    xrestore f label rnd digest = Accepted (w, t) /\           (* the tampered file is accepted under the same label *)
    w_kvs w = w_kvs w0 /\ w_accts w <> w_accts w0 /\           (* and restores other ACCOUNT data (no KV ambiguity) *)
    t_root t = t_root t0.                                       (* with the very same trie *)
Proof.
  destruct x_honest as (t0 & E0). destruct x_prefix_accepted as (t & E).
  exists x_file, x_prefix, x_label, [77], 8, x_world,
    (mkWorld [([1], [99; 0], []); ([2], [7; 2], [(10, [4]); (11, [6])])] [([9], [8])] [] [] [128] [42]), t0, t.
  split; [rewrite x_file_shape; intros X; inversion X|].
  split; [exact E0|]. split; [exact E|]. split; [reflexivity|]. split; [intros X; inversion X|].
  revert E0 E. vm_compute. intros E0 E. inversion E0. inversion E. reflexivity.
Qed.
