(* C30: proofs about the catchup model (coq/model/Catchup.v) for ALL adversaries and interleavings:
   every label sequence accepted by [step] from [init]. *)
From Coq Require Import NArith List Bool Lia ZifyN ZifyNat ZifyBool.
From Verif.model Require Import Catchup CatchupSpec.
Import ListNotations.
Open Scope N_scope.

(* ------------------------------------------------------------------ the executable spec, soundly *)
Lemma Nseq_app : forall n s, Nseq s (S n) = Nseq s n ++ [s + N.of_nat n].
Proof.
  induction n as [|n IH]; intros s.
  - cbn. f_equal. lia.
  - change (Nseq s (S (S n))) with (s :: Nseq (s + 1) (S n)). rewrite IH.
    cbn [Nseq app]. do 2 f_equal. f_equal. lia.
Qed.

Lemma spec_walk_sound : forall vp vc log cur l,
  spec_walk vp vc cur log = Some l ->
  map wl_round (filter wl_ok log) = Nseq (cur + 1) (length (filter wl_ok log)) /\
  calls_checked_P vp vc log /\
  l = cur + N.of_nat (length (filter wl_ok log)).
Proof.
  induction log as [|e t IH]; intros cur l H; cbn [spec_walk] in H.
  - inversion H. cbn. repeat split; [constructor | lia].
  - destruct (entry_ok vp vc cur e) eqn:E; [|discriminate].
    apply IH in H. destruct H as (H1 & H2 & H3).
    unfold entry_ok in E. apply andb_prop in E. destruct E as [E E3].
    apply andb_prop in E. destruct E as [E1 E2].
    cbn [filter]. destruct (wl_ok e) eqn:Ok.
    + cbn [map length Nseq]. apply N.eqb_eq in E2. repeat split.
      * rewrite H1. now rewrite E2.
      * constructor; [|exact H2]. intros Hs. rewrite Hs in E3.
        apply andb_prop in E3. destruct E3 as [E3 E5]. apply andb_prop in E3. destruct E3 as [E3 E4].
        apply N.leb_le in E3. repeat split; [exact E3 | |].
        -- intros ->. exact E4.
        -- intros ->. exact E5.
      * lia.
    + repeat split; [exact H1 | | exact H3].
      constructor; [|exact H2]. intros Hs. rewrite Hs in E3.
      apply andb_prop in E3. destruct E3 as [E3 E5]. apply andb_prop in E3. destruct E3 as [E3 E4].
      apply N.leb_le in E3. repeat split; [exact E3 | |].
      * intros ->. exact E4.
      * intros ->. exact E5.
Qed.

Lemma spec_ok_sound : forall vp vc lat0 log flat fids,
  spec_ok vp vc lat0 log flat fids = true ->
  writes_in_order_P lat0 log /\ calls_checked_P vp vc log /\
  flat = lat0 + N.of_nat (length (filter wl_ok log)).
Proof.
  intros vp vc lat0 log flat fids H. unfold spec_ok in H.
  destruct (spec_walk vp vc lat0 log) as [l|] eqn:E; [|discriminate].
  apply andb_prop in H. destruct H as [H _]. apply N.eqb_eq in H. subst l.
  apply spec_walk_sound in E. unfold writes_in_order_P. tauto.
Qed.

Lemma spec_walk_app : forall vp vc l1 l2 cur,
  spec_walk vp vc cur (l1 ++ l2) =
  match spec_walk vp vc cur l1 with Some c => spec_walk vp vc c l2 | None => None end.
Proof.
  induction l1 as [|e t IH]; intros l2 cur; cbn [app spec_walk]; [reflexivity|].
  destruct (entry_ok vp vc cur e); [apply IH | reflexivity].
Qed.

(* ------------------------------------------------------------------ the model *)
Section Proofs.
Variables Block Cert : Type.
Variable blk_round : Block -> N.
Variable cert_round : Cert -> N.
Variable contents_ok : Block -> bool.
Variable proto_supported : Block -> bool.
Variable authenticate : Block -> Cert -> bool.
Variable cfg : config.
Variable lat0 : N.

Notation event := (@event Block Cert).
Notation worker := (@worker Block Cert).
Notation state := (@state Block Cert).
Notation label := (@label Block Cert).
Notation winput := (@winput Block Cert).
Notation wout := (@wout Block Cert).
Notation Wstep := (wstep blk_round cert_round contents_ok proto_supported authenticate cfg).
Notation Step := (step blk_round cert_round contents_ok proto_supported authenticate cfg).
Notation Run := (run blk_round cert_round contents_ok proto_supported authenticate cfg).
Notation vp := (c_verify_payset cfg).
Notation vc := (c_verify_cert cfg).

Definition is_write (e : event) : bool :=
  match e with
  | EAdd _ _ _ _ AddOk _ => true
  | EExt _ _ _ => true
  | _ => false
  end.
Definition lat_of (tr : list event) : N := lat0 + N.of_nat (length (filter is_write tr)).

(* what must hold of an event given everything that happened before it ([tl], newest first) *)
Definition ev_ok (e : event) (tl : list event) : Prop :=
  match e with
  | EAdd r b c lat res v =>
      lat = lat_of tl /\ blk_round b = r /\ r <= lat + 1 /\ (res = AddOk -> r = lat + 1) /\
      (vp = true -> In (EContents r b true) tl) /\
      (vc = true -> In (EAuth r b c true) tl)
  | EExt b c lat => lat = lat_of tl /\ blk_round b = lat + 1
  | EContents r b ok => ok = contents_ok b
  | EAuth r b c ok => ok = authenticate b c
  | _ => True
  end.
Fixpoint trace_ok (tr : list event) : Prop :=
  match tr with
  | [] => True
  | e :: tl => ev_ok e tl /\ trace_ok tl
  end.

Definition held_ok (tr : list event) (r : N) (b : Block) : Prop :=
  blk_round b = r /\ (vp = true -> In (EContents r b true) tr).
Definition authed_ok (tr : list event) (r : N) (b : Block) (c : Cert) : Prop :=
  held_ok tr r b /\ (vc = true -> In (EAuth r b c true) tr).

Definition winv (tr : list event) (latest r : N) (w : worker) : Prop :=
  match w_pc w with
  | PCheck _ b c => blk_round b = r
  | PLookback _ b c => held_ok tr r b
  | PWaitPrev b c => authed_ok tr r b c
  | PBacklog b c => authed_ok tr r b c /\ r <= latest + 1
  | PValidated b c => authed_ok tr r b c /\ r <= latest + 1
  | _ => True
  end.

Definition inv (st : state) : Prop :=
  trace_ok (s_trace st) /\ s_latest st = lat_of (s_trace st) /\
  Forall (fun rw => winv (s_trace st) (s_latest st) (fst rw) (snd rw)) (s_workers st).

Lemma lat_of_cons : forall e tr, lat_of (e :: tr) = if is_write e then lat_of tr + 1 else lat_of tr.
Proof. intros e tr. unfold lat_of. cbn [filter]. destruct (is_write e); cbn [length]; lia. Qed.

Lemma held_mono : forall tr evs r b, held_ok tr r b -> held_ok (evs ++ tr) r b.
Proof. intros tr evs r b [H1 H2]. split; [exact H1|]. intros H. apply in_or_app. right. auto. Qed.
Lemma authed_mono : forall tr evs r b c, authed_ok tr r b c -> authed_ok (evs ++ tr) r b c.
Proof.
  intros tr evs r b c [H1 H2]. split; [now apply held_mono|]. intros H. apply in_or_app. right. auto.
Qed.

Lemma winv_mono : forall tr evs latest latest' r w,
  latest <= latest' -> winv tr latest r w -> winv (evs ++ tr) latest' r w.
Proof.
  intros tr evs latest latest' r w Hle. unfold winv. destruct (w_pc w); try tauto.
  - apply held_mono.
  - apply authed_mono.
  - intros [H1 H2]. split; [now apply authed_mono | lia].
  - intros [H1 H2]. split; [now apply authed_mono | lia].
Qed.

Lemma finish_add_inv : forall tr latest r (w : worker) b c v ar o,
  trace_ok tr -> latest = lat_of tr ->
  authed_ok tr r b c -> r <= latest + 1 ->
  (ar = AddOk -> r = latest + 1) ->
  finish_add w (EAdd r b c latest ar v) ar = Some o ->
  trace_ok (o_ev o ++ tr) /\
  (if o_write o then latest + 1 else latest) = lat_of (o_ev o ++ tr) /\
  winv (o_ev o ++ tr) (if o_write o then latest + 1 else latest) r (o_w o).
Proof.
  intros tr latest r w b c v ar o Htr Hlat [[Hb Hc] Ha] Hle Hok H.
  assert (Hev : ev_ok (EAdd r b c latest ar v) tr).
  { cbn. repeat split; auto. }
  unfold finish_add, out in H.
  destruct ar; inversion H; subst o; cbn [o_ev o_write o_w app];
    (split; [cbn [trace_ok]; split; [exact Hev | exact Htr] |]);
    rewrite lat_of_cons; cbn [is_write]; (split; [congruence|]);
    unfold winv, fin, goto; cbn [w_pc]; exact I.
Qed.

(* one worker step preserves the invariants of the trace, of the ledger and of that worker *)
Lemma wstep_inv : forall tr latest ctxd svcd r w i o,
  trace_ok tr -> latest = lat_of tr -> winv tr latest r w ->
  Wstep latest ctxd svcd r w i = Some o ->
  trace_ok (o_ev o ++ tr) /\
  (if o_write o then latest + 1 else latest) = lat_of (o_ev o ++ tr) /\
  winv (o_ev o ++ tr) (if o_write o then latest + 1 else latest) r (o_w o).
Proof.
  intros tr latest ctxd svcd r w i o Htr Hlat Hw H.
  unfold wstep in H. unfold winv in Hw.
  destruct (w_pc w) as [| |p| |p b c|p b c|b c|b c|b c|res] eqn:Hpc; cbv beta iota in H.
  - (* PStart *)
    unfold out in H.
    destruct (negb (in_disable i =? 0) && (in_disable i <=? r)); inversion H; subst o; cbn;
      repeat split; auto.
  - (* PTop *)
    unfold out in H.
    destruct (in_cancel i).
    { destruct ctxd; [|discriminate]. inversion H; subst o; cbn; repeat split; auto. }
    destruct (c_retry_limit cfg <? _).
    { inversion H; subst o; cbn; repeat split; auto. }
    destruct (in_peer i); inversion H; subst o; cbn; repeat split; auto.
  - (* PFetch *)
    unfold out in H.
    destruct (in_pre_has i).
    { destruct (r <=? latest); [|discriminate]. inversion H; subst o; cbn; repeat split; auto. }
    unfold process in H.
    destruct (in_resp i) as [| |b c|].
    + destruct (in_post_has i).
      { destruct (r <=? latest); [|discriminate]. inversion H; subst o; cbn. rewrite lat_of_cons. cbn. repeat split; auto. }
      inversion H; subst o; cbn. rewrite lat_of_cons. cbn. repeat split; auto.
    + destruct (in_post_has i).
      { destruct (r <=? latest); [|discriminate]. inversion H; subst o; cbn. rewrite lat_of_cons. cbn. repeat split; auto. }
      destruct (c_follow cfg).
      { inversion H; subst o; cbn. rewrite lat_of_cons. cbn. repeat split; auto. }
      destruct (c_noblock_thr cfg <? _); inversion H; subst o; cbn; rewrite lat_of_cons; cbn; repeat split; auto.
    + destruct (negb (blk_round b =? r)) eqn:Eb.
      { destruct (in_post_has i).
        { destruct (r <=? latest); [|discriminate]. inversion H; subst o; cbn. rewrite lat_of_cons. cbn. repeat split; auto. }
        inversion H; subst o; cbn. rewrite lat_of_cons. cbn. repeat split; auto. }
      destruct (negb (cert_round c =? r)) eqn:Ec.
      { destruct (in_post_has i).
        { destruct (r <=? latest); [|discriminate]. inversion H; subst o; cbn. rewrite lat_of_cons. cbn. repeat split; auto. }
        inversion H; subst o; cbn. rewrite lat_of_cons. cbn. repeat split; auto. }
      inversion H; subst o; cbn. rewrite lat_of_cons. cbn. repeat split; auto.
      apply negb_false_iff in Eb. now apply N.eqb_eq in Eb.
    + inversion H; subst o; cbn. rewrite lat_of_cons. cbn. repeat split; auto.
  - (* PErrWait *)
    unfold out in H.
    destruct (in_cancel i).
    { destruct ctxd; [|discriminate]. inversion H; subst o; cbn; repeat split; auto. }
    destruct (lookback_done cfg latest r); [|discriminate].
    inversion H; subst o; cbn; repeat split; auto.
  - (* PCheck *)
    unfold out in H.
    destruct (c_verify_payset cfg) eqn:Evp.
    + destruct (contents_ok b) eqn:Ecb.
      * inversion H; subst o; cbn. rewrite lat_of_cons. cbn. repeat split; auto.
        intros _. left. reflexivity.
      * destruct (proto_supported b); inversion H; subst o; cbn; rewrite lat_of_cons; cbn; repeat split; auto.
    + inversion H; subst o; cbn. repeat split; auto. congruence.
  - (* PLookback *)
    unfold out in H.
    destruct (in_cancel i).
    { destruct ctxd; [|discriminate]. inversion H; subst o; cbn; repeat split; auto. }
    destruct (lookback_done cfg latest r); [|discriminate].
    destruct Hw as [Hb Hc].
    destruct (c_verify_cert cfg) eqn:Evc.
    + destruct (authenticate b c) eqn:Eau.
      * inversion H; subst o; cbn. rewrite lat_of_cons. cbn. repeat split; auto.
        -- intros Hv. right. auto.
        -- intros _. left. reflexivity.
      * inversion H; subst o; cbn. rewrite lat_of_cons. cbn. repeat split; auto.
    + inversion H; subst o; cbn. repeat split; auto. congruence.
  - (* PWaitPrev *)
    unfold out in H.
    destruct (in_cancel i).
    { destruct ctxd; [|discriminate]. inversion H; subst o; cbn; repeat split; auto. }
    destruct (prev_done latest r) eqn:Epd; [|discriminate].
    destruct (in_params_ok i); inversion H; subst o; cbn; repeat split; auto; try apply Hw.
    unfold prev_done in Epd. apply N.leb_le in Epd. lia.
  - (* PBacklog *)
    destruct Hw as [Ha Hle].
    destruct (in_cancel i).
    { unfold out in H. destruct svcd; [|discriminate]. inversion H; subst o; cbn; repeat split; auto. }
    destruct (c_validate cfg).
    + unfold out in H.
      destruct (ledger_validate latest (blk_round b) (in_eval i));
        inversion H; subst o; cbn; rewrite lat_of_cons; cbn; repeat split; auto; try apply Ha;
        destruct Ha as [[Hb Hc] Ha]; intros Hv; right; auto.
    + eapply finish_add_inv; eauto.
      destruct Ha as [[Hb _] _]. rewrite Hb. unfold ledger_add.
      destruct (r =? latest + 1) eqn:E; [intros _; now apply N.eqb_eq in E|].
      destruct (r <=? latest); discriminate.
  - (* PValidated *)
    destruct Hw as [Ha Hle].
    eapply finish_add_inv; eauto.
    destruct Ha as [[Hb _] _]. rewrite Hb. unfold ledger_add_validated.
    destruct (r =? latest + 1) eqn:E; [intros _; now apply N.eqb_eq in E | discriminate].
  - discriminate.
Qed.


Lemma find_worker_In : forall r ws (w : worker), find_worker r ws = Some w -> exists q, q = r /\ In (q, w) ws.
Proof.
  induction ws as [|[q w'] t IH]; intros w H; cbn in H; [discriminate|].
  destruct (q =? r) eqn:E.
  - inversion H; subst. apply N.eqb_eq in E. exists q. split; [exact E | now left].
  - destruct (IH _ H) as (q' & Hq & Hin). exists q'. split; [exact Hq | now right].
Qed.

Lemma Forall_set_worker : forall (P : N * worker -> Prop) r w' ws,
  Forall P ws -> P (r, w') -> Forall P (set_worker r w' ws).
Proof.
  induction ws as [|[q w] t IH]; intros HF HP; cbn; [constructor|].
  inversion HF; subst. destruct (q =? r) eqn:E.
  - apply N.eqb_eq in E. subst q. constructor; assumption.
  - constructor; auto.
Qed.

Lemma Forall_del_worker : forall (P : N * worker -> Prop) r ws,
  Forall P ws -> Forall P (del_worker r ws).
Proof.
  induction ws as [|[q w] t IH]; intros HF; cbn; [constructor|].
  inversion HF; subst. destruct (q =? r); [assumption | constructor; auto].
Qed.

Lemma inv_init : inv (init lat0).
Proof.
  unfold inv, init; cbn. repeat split; [unfold lat_of; cbn; lia | constructor].
Qed.

Theorem step_inv : forall st l st', inv st -> Step st l = Some st' -> inv st'.
Proof.
  intros st l st' (Htr & Hlat & Hws) H. unfold step in H.
  destruct l as [|busy| | |b c|r i].
  - (* spawn *)
    destruct (running st && (s_next st <? s_first st + par_limit cfg)); [|discriminate].
    inversion H; subst st'; unfold inv; cbn. repeat split; auto.
    apply Forall_app. split; [exact Hws|]. constructor; [exact I | constructor].
  - (* collect *)
    destruct (running st); [|discriminate].
    destruct (find_worker (s_first st) (s_workers st)) as [w|]; [|discriminate].
    destruct (w_pc w); try discriminate.
    inversion H; subst st'; unfold inv; cbn. repeat split; auto.
    now apply Forall_del_worker.
  - destruct (running st && s_svc st); [|discriminate].
    inversion H; subst st'; unfold inv; cbn. repeat split; auto.
  - inversion H; subst st'; unfold inv; cbn. repeat split; auto.
  - (* somebody else writes *)
    destruct (blk_round b =? s_latest st + 1) eqn:E; [|discriminate].
    apply N.eqb_eq in E.
    inversion H; subst st'; unfold inv; cbn [s_trace s_latest s_workers trace_ok ev_ok].
    repeat split; auto.
    + rewrite lat_of_cons. cbn. congruence.
    + eapply Forall_impl; [|exact Hws]. intros [q w] Hq.
      change (EExt b c (s_latest st) :: s_trace st) with ([EExt b c (s_latest st)] ++ s_trace st).
      eapply winv_mono; [|exact Hq]. lia.
  - (* a worker moves *)
    destruct (find_worker r (s_workers st)) as [w|] eqn:Ef; [|discriminate].
    destruct (Wstep (s_latest st) (ctx_done st) (s_svc st) r w i) as [o|] eqn:Ew; [|discriminate].
    apply find_worker_In in Ef. destruct Ef as (q & -> & Hin).
    assert (Hw : winv (s_trace st) (s_latest st) r w).
    { rewrite Forall_forall in Hws. exact (Hws _ Hin). }
    destruct (wstep_inv _ _ _ _ _ _ _ _ Htr Hlat Hw Ew) as (T1 & T2 & T3).
    inversion H; subst st'; unfold inv; cbn [s_trace s_latest s_workers].
    repeat split; auto.
    apply Forall_set_worker; [|exact T3].
    eapply Forall_impl; [|exact Hws]. intros [q w0] Hq.
    eapply winv_mono; [|exact Hq]. destruct (o_write o); lia.
Qed.

Theorem run_inv : forall ls st st', inv st -> Run st ls = Some st' -> inv st'.
Proof.
  induction ls as [|l t IH]; intros st st' Hi H; cbn in H.
  - inversion H; subst; exact Hi.
  - destruct (Step st l) as [st1|] eqn:E; [|discriminate].
    eapply IH; [|exact H]. eapply step_inv; eauto.
Qed.

Corollary reachable_inv : forall ls st, Run (init lat0) ls = Some st -> inv st.
Proof. intros ls st H. eapply run_inv; [apply inv_init | exact H]. Qed.

(* ------------------------------------------------------------------ consequences of trace_ok *)
Lemma trace_ok_suffix : forall l2 l1, trace_ok (l2 ++ l1) -> trace_ok l1.
Proof. induction l2 as [|e t IH]; intros l1 H; [exact H|]. destruct H as [_ H]. now apply IH. Qed.

Lemma trace_ok_mid : forall l2 e l1, trace_ok (l2 ++ e :: l1) -> ev_ok e l1 /\ trace_ok l1.
Proof. intros l2 e l1 H. apply trace_ok_suffix in H. exact H. Qed.

Lemma trace_ok_In : forall tr e, trace_ok tr -> In e tr -> exists tl, ev_ok e tl.
Proof.
  induction tr as [|x t IH]; intros e Ht Hin; [destruct Hin|].
  destruct Ht as [Hx Ht]. destruct Hin as [->|Hin]; [now exists t | now apply IH].
Qed.

(* every AddBlock / AddValidatedBlock call: the pair offered is for the worker's round and, as far as
   the configuration asks, was PRECEDED by ContentsMatchHeader = true on that block and by a
   successful Authenticate of that same (block, cert) pair -- and those results are genuine *)
Theorem trace_written_implies_checked : forall tr l2 l1 r b c lat res v,
  trace_ok tr -> tr = l2 ++ EAdd r b c lat res v :: l1 ->
  blk_round b = r /\
  (vp = true -> In (EContents r b true) l1 /\ contents_ok b = true) /\
  (vc = true -> In (EAuth r b c true) l1 /\ authenticate b c = true).
Proof.
  intros tr l2 l1 r b c lat res v Ht ->. apply trace_ok_mid in Ht. destruct Ht as [He Ht].
  cbn in He. destruct He as (_ & Hb & _ & _ & Hc & Ha). split; [exact Hb|]. split.
  - intros Hv. specialize (Hc Hv). split; [exact Hc|].
    destruct (trace_ok_In _ _ Ht Hc) as [tl Hx]. cbn in Hx. now symmetry.
  - intros Hv. specialize (Ha Hv). split; [exact Ha|].
    destruct (trace_ok_In _ _ Ht Ha) as [tl Hx]. cbn in Hx. now symmetry.
Qed.

(* ------------------------------------------------------------------ the theorems about runs *)
Theorem written_implies_checked : forall ls st l2 l1 r b c lat res v,
  Run (init lat0) ls = Some st ->
  s_trace st = l2 ++ EAdd r b c lat res v :: l1 ->
  blk_round b = r /\
  (vp = true -> In (EContents r b true) l1 /\ contents_ok b = true) /\
  (vc = true -> In (EAuth r b c true) l1 /\ authenticate b c = true).
Proof.
  intros ls st l2 l1 r b c lat res v H Hs.
  destruct (reachable_inv _ _ H) as (Ht & _ & _).
  eapply trace_written_implies_checked; eauto.
Qed.

(* the default configuration (both switches on): unconditional *)
Theorem written_implies_checked_default : forall ls st l2 l1 r b c lat res v,
  vp = true -> vc = true ->
  Run (init lat0) ls = Some st ->
  s_trace st = l2 ++ EAdd r b c lat res v :: l1 ->
  blk_round b = r /\
  In (EContents r b true) l1 /\ contents_ok b = true /\
  In (EAuth r b c true) l1 /\ authenticate b c = true.
Proof.
  intros ls st l2 l1 r b c lat res v Hp Hc H Hs.
  destruct (written_implies_checked _ _ _ _ _ _ _ _ _ _ H Hs) as (H1 & H2 & H3).
  destruct (H2 Hp). destruct (H3 Hc). tauto.
Qed.

Variable blk_id : Block -> N.

(* the ledger's call log as the monitor of the harness would record it *)
Definition log_of_event (e : event) : list wlog :=
  match e with
  | EAdd r b c lat res v =>
      [mkW true (blk_round b) lat (match res with AddOk => true | _ => false end)
           (contents_ok b) (authenticate b c) (blk_id b)]
  | EExt b c lat => [mkW false (blk_round b) lat true (contents_ok b) (authenticate b c) (blk_id b)]
  | _ => []
  end.
Definition chron_log (tr : list event) : list wlog := flat_map log_of_event (rev tr).

Lemma chron_log_cons : forall e tr, chron_log (e :: tr) = chron_log tr ++ log_of_event e.
Proof.
  intros e tr. unfold chron_log. cbn [rev]. rewrite flat_map_app. cbn [flat_map]. now rewrite app_nil_r.
Qed.

Theorem trace_spec_walk : forall tr,
  trace_ok tr -> spec_walk vp vc lat0 (chron_log tr) = Some (lat_of tr).
Proof.
  induction tr as [|e t IH]; intros Ht.
  - cbn. unfold lat_of. cbn. f_equal. lia.
  - destruct Ht as [He Ht]. rewrite chron_log_cons, spec_walk_app, (IH Ht), lat_of_cons.
    destruct e as [r p rs|r b ok|r b c ok|r b lat res|r b c lat res v|b c lat]; cbn [log_of_event is_write spec_walk]; try reflexivity.
    + cbn in He. destruct He as (Hl & Hb & Hle & Hok & Hc & Ha).
      assert (Hcm : vp = true -> contents_ok b = true).
      { intros Hv. destruct (trace_ok_In _ _ Ht (Hc Hv)) as [tl Hx]. cbn in Hx. now symmetry. }
      assert (Hau : vc = true -> authenticate b c = true).
      { intros Hv. destruct (trace_ok_In _ _ Ht (Ha Hv)) as [tl Hx]. cbn in Hx. now symmetry. }
      unfold entry_ok. cbn [wl_lat wl_ok wl_round wl_src wl_cm wl_au].
      assert (E1 : (lat =? lat_of t) = true) by (apply N.eqb_eq; exact Hl).
      assert (E3 : (blk_round b <=? lat + 1) = true) by (apply N.leb_le; lia).
      assert (E4 : implb vp (contents_ok b) = true).
      { destruct vp; [now rewrite Hcm | reflexivity]. }
      assert (E5 : implb vc (authenticate b c) = true).
      { destruct vc; [now rewrite Hau | reflexivity]. }
      rewrite E1, E3, E4, E5.
      destruct res; cbn; try reflexivity.
      assert (E2 : (blk_round b =? lat_of t + 1) = true) by (apply N.eqb_eq; rewrite Hb, (Hok eq_refl); lia).
      now rewrite E2.
    + cbn in He. destruct He as (Hl & Hb).
      unfold entry_ok. cbn [wl_lat wl_ok wl_round wl_src].
      assert (E1 : (lat =? lat_of t) = true) by (apply N.eqb_eq; exact Hl).
      assert (E2 : (blk_round b =? lat_of t + 1) = true) by (apply N.eqb_eq; lia).
      now rewrite E1, E2.
Qed.


Theorem model_spec_walk : forall ls st,
  Run (init lat0) ls = Some st ->
  spec_walk vp vc lat0 (chron_log (s_trace st)) = Some (s_latest st).
Proof.
  intros ls st H. destruct (reachable_inv _ _ H) as (Ht & Hl & _).
  rewrite Hl. now apply trace_spec_walk.
Qed.

Theorem writes_in_order : forall ls st,
  Run (init lat0) ls = Some st ->
  let log := chron_log (s_trace st) in
  writes_in_order_P lat0 log /\
  s_latest st = lat0 + N.of_nat (length (filter wl_ok log)) /\
  Forall (fun e => wl_round e <= wl_lat e + 1) log.
Proof.
  intros ls st H log. pose proof (model_spec_walk _ _ H) as Hs. fold log in Hs.
  apply spec_walk_sound in Hs. destruct Hs as (H1 & H2 & H3).
  split; [exact H1|]. split; [exact H3|].
  (* calls never ahead: for catchup's calls from calls_checked, for others because they are writes *)
  destruct (reachable_inv _ _ H) as (Ht & _ & _).
  subst log. clear - Ht. induction (s_trace st) as [|e t IH]; [constructor|].
  destruct Ht as [He Ht]. rewrite chron_log_cons. apply Forall_app. split; [now apply IH|].
  destruct e; cbn [log_of_event]; try constructor; try constructor; cbn.
  - cbn in He. destruct He as (_ & Hb & Hle & _). lia.
  - cbn in He. destruct He as (_ & Hb). lia.
Qed.


(* if certificates cannot be forged (a certificate authenticates at most the agreed block of its
   round -- agreement safety + signature unforgeability, C01/C02), catchup writes exactly the
   agreed block *)
Theorem written_is_agreed : forall (agreed : N -> N) ls st l2 l1 r b c lat res v,
  (forall b c, authenticate b c = true -> blk_id b = agreed (blk_round b)) ->
  vc = true ->
  Run (init lat0) ls = Some st ->
  s_trace st = l2 ++ EAdd r b c lat res v :: l1 ->
  blk_id b = agreed r.
Proof.
  intros agreed ls st l2 l1 r b c lat res v Hun Hc H Hs.
  destruct (written_implies_checked _ _ _ _ _ _ _ _ _ _ H Hs) as (H1 & _ & H3).
  destruct (H3 Hc) as [_ Ha]. rewrite <- H1. exact (Hun b c Ha).
Qed.

Lemma ids_eqb_refl : forall l, ids_eqb l l = true.
Proof. induction l as [|x t IH]; cbn; [reflexivity|]. now rewrite N.eqb_refl, IH. Qed.

(* the executable monitor predicate accepts the call log of every run of the model *)
Theorem model_spec_ok : forall ls st,
  Run (init lat0) ls = Some st ->
  spec_ok vp vc lat0 (chron_log (s_trace st)) (s_latest st)
          (map wl_id (filter wl_ok (chron_log (s_trace st)))) = true.
Proof.
  intros ls st H. unfold spec_ok. rewrite (model_spec_walk _ _ H).
  now rewrite N.eqb_refl, ids_eqb_refl.
Qed.

End Proofs.

(* ------------------------------------------------------------------ fetchRound / EnsureBlock *)
Section FetchRound.
Variables Block Cert : Type.
Variable blk_round : Block -> N.
Variable cert_round : Cert -> N.
Variable contents_ok : Block -> bool.
Variable blk_digest : Block -> N.
Variables cround cdigest : N.

Notation fr_event := (@fr_event Block Cert).
Notation fr_state := (@fr_state Block Cert).
Notation FrStep := (fr_step blk_round cert_round contents_ok blk_digest cround cdigest).
Notation FrRun := (fr_run blk_round cert_round contents_ok blk_digest cround cdigest).

Definition fr_ev_ok (e : fr_event) : Prop :=
  match e with
  | FREnsure b => blk_round b = cround /\ blk_digest b = cdigest /\ contents_ok b = true
  | _ => True
  end.
Fixpoint n_ensure (tr : list fr_event) : nat :=
  match tr with
  | [] => O
  | FREnsure _ :: t => S (n_ensure t)
  | _ :: t => n_ensure t
  end.
Definition fr_inv (st : fr_state) : Prop :=
  Forall fr_ev_ok (fr_trace st) /\ (n_ensure (fr_trace st) <= 1)%nat /\
  (n_ensure (fr_trace st) = 1%nat -> fr_p st = FRDone).

Lemma process_pair : forall r rs b c,
  process blk_round cert_round r rs = FPair b c -> blk_round b = r /\ cert_round c = r.
Proof.
  intros r rs b c H. unfold process in H. destruct rs as [| |b' c'|]; try discriminate.
  destruct (negb (blk_round b' =? r)) eqn:E1; [discriminate|].
  destruct (negb (cert_round c' =? r)) eqn:E2; [discriminate|].
  inversion H; subst. apply negb_false_iff in E1, E2. apply N.eqb_eq in E1, E2. now split.
Qed.

Lemma fr_step_inv : forall st l st', fr_inv st -> FrStep st l = Some st' -> fr_inv st'.
Proof.
  intros st l st' (H1 & H2 & H3) H. unfold fr_step in H. destruct l as [i|].
  - destruct (fr_p st) eqn:Hp; try discriminate.
    + assert (H0 : n_ensure (fr_trace st) = 0%nat).
      { destruct (n_ensure (fr_trace st)) as [|[|n]] eqn:E; [reflexivity | | lia]. specialize (H3 eq_refl). congruence. }
      destruct (cround <=? fr_latest st).
      { inversion H; subst st'; unfold fr_inv; cbn. repeat split; auto; try lia; try congruence. }
      destruct (fri_peer i).
      { inversion H; subst st'; unfold fr_inv; cbn. repeat split; auto; try lia; try congruence. }
      destruct (fri_cancel i); inversion H; subst; unfold fr_inv; cbn; repeat split; auto; try lia; try congruence.
    + assert (H0 : n_ensure (fr_trace st) = 0%nat).
      { destruct (n_ensure (fr_trace st)) as [|[|n]] eqn:E; [reflexivity | | lia]. specialize (H3 eq_refl). congruence. }
      destruct (fri_pre_has i).
      { destruct (cround <=? fr_latest st); [|discriminate].
        inversion H; subst st'; unfold fr_inv; cbn. repeat split; auto; try lia; try congruence. }
      destruct (process blk_round cert_round cround (fri_resp i)) as [nb|b c|] eqn:Epr.
      * inversion H; subst st'; unfold fr_inv; cbn. repeat split; auto; try lia; try congruence. constructor; [exact I | exact H1].
      * destruct ((blk_digest b =? cdigest) && contents_ok b) eqn:Eok.
        -- apply andb_prop in Eok. destruct Eok as [Ed Ec]. apply N.eqb_eq in Ed.
           apply process_pair in Epr. destruct Epr as [Hr _].
           inversion H; subst st'; unfold fr_inv; cbn. rewrite H0. repeat split; auto; try lia; try congruence.
           constructor; [cbn; auto|]. constructor; [exact I | exact H1].
        -- inversion H; subst st'; unfold fr_inv; cbn. repeat split; auto; try lia; try congruence. constructor; [exact I | exact H1].
      * inversion H; subst st'; unfold fr_inv; cbn. repeat split; auto; try lia; try congruence. constructor; [exact I | exact H1].
  - inversion H; subst st'; unfold fr_inv; cbn. repeat split; auto; try lia; try congruence.
Qed.

Lemma fr_run_inv : forall ls st st', fr_inv st -> FrRun st ls = Some st' -> fr_inv st'.
Proof.
  induction ls as [|l t IH]; intros st st' Hi H; cbn in H.
  - inversion H; subst; exact Hi.
  - destruct (FrStep st l) as [s1|] eqn:E; [|discriminate].
    eapply IH; [|exact H]. eapply fr_step_inv; eauto.
Qed.

(* every block handed to EnsureBlock is for the certificate's round, has the digest the certificate
   commits to and matches its own header; and there is at most one such call -- whatever peers answer *)
Theorem fetch_round_ensures_matching : forall lat0 ls st,
  FrRun (fr_init lat0) ls = Some st ->
  (forall b, In (FREnsure b) (fr_trace st) ->
             blk_round b = cround /\ blk_digest b = cdigest /\ contents_ok b = true) /\
  (n_ensure (fr_trace st) <= 1)%nat.
Proof.
  intros lat0 ls st H.
  assert (Hi : fr_inv st).
  { eapply fr_run_inv; [|exact H]. unfold fr_inv; cbn. repeat split; auto; lia. }
  destruct Hi as (H1 & H2 & _). split; [|exact H2].
  intros b Hin. rewrite Forall_forall in H1. exact (H1 _ Hin).
Qed.

End FetchRound.

Arguments chron_log {Block Cert}.
Arguments log_of_event {Block Cert}.
Arguments n_ensure {Block Cert}.
