(* Concrete runs of the tracker model: non-vacuity of the C08 theorems, and witnesses that the
   two evaluator guarantees in [wf_hist] (honest KV OldData; a resource half may only be "nil and
   not deleted" when it was absent) are necessary. *)
From Coq Require Import NArith List Bool Arith.
From Verif.model Require Import LedgerSpec Tracker.
From Verif.proofs Require Import TrackerProofs.
Import ListNotations.
Local Open Scope N_scope.

Definition ex_cfg := mkCfg 1 true 8 8 8 false.
Definition ex_gen : list (addr * acct) := [(1, mkAcct 100 0 0); (2, mkAcct 50 0 0)].
Definition ex_d1 := mkDelta 0 [(1, mkAcct 101 0 0)] [((1, 10), (HSet 7, HSet 3))]
                            [([107; 1], (Some [170], None))] [(10, mkCreat true 1 0)].
Definition ex_d2 := mkDelta 0 [(2, mkAcct 0 0 0); (1, mkAcct 102 0 3)] [((1, 10), (HSet 7, HDel))]
                            [([107; 1], (None, Some [170]))] [].
Definition ex_d3 := mkDelta 0 [(3, mkAcct 9 0 0)] [] [([113], (Some [], None))] [].
(* two blocks, a lookup that fills the base cache, a third block, a commit of rounds 1-2 taken
   apart: lookups between the SQL transaction and postCommit, after it, and after a reload *)
Definition ex_ops : list op :=
  [ONewBlock ex_d1; ONewBlock ex_d2; OQAcct 0 2; OQAcct 2 2; ONewBlock ex_d3;
   OSchedule 3; OBegin; OQAcct 1 1; OCommitDB;
   OQAcct 0 2; OQRes 0 1 10; OQAcct 3 3; OQKv 1 [107; 1]; OQCre 1 10 0; OQCre 1 10 1;
   OPostCommit; OQAcct 2 2; OQAcct 2 1; OQRes 2 1 10; OQKv 2 [107; 1]; OQKv 3 [113]; OQCre 3 10 0;
   OQAcct 1 1; OReload; OQAcct 3 1].

Lemma ex_wf : wf_hist (genesis_world ex_gen) (history_of ex_ops).
Proof. vm_compute. reflexivity. Qed.

Lemma ex_lands : lands_ok (init ex_cfg ex_gen) ex_ops = true.
Proof. vm_compute. reflexivity. Qed.

Lemma ex_enabled : enabled_run (init ex_cfg ex_gen) ex_ops.
Proof. vm_compute. repeat split; repeat constructor. Qed.

Lemma ex_outputs :
  snd (run (init ex_cfg ex_gen) ex_ops) =
  [RDone; RDone;
   RAcct (LOk (mkAcct 50 0 0));          (* round 0 from the DB; goes to the pending buffer *)
   RAcct (LOk (mkAcct 0 0 0));           (* closed in round 2: from the in-memory delta *)
   RDone; RDone; RDone;
   RAcct (LOk (mkAcct 101 0 0)); RDone;
   RAcct (LOk (mkAcct 50 0 0));          (* DB already at round 2, memory at 0: served by the base cache *)
   RRes LRetry;                          (* not cached: the Go code waits for postCommit *)
   RAcct (LOk (mkAcct 9 0 0)); RKv (LOk (Some [170])); RCre (LOk (Some 1)); RCre (LOk None);
   RDone;
   RAcct (LOk (mkAcct 0 0 0)); RAcct (LOk (mkAcct 102 0 3)); RRes (LOk (Some 7, None));
   RKv (LOk None); RKv (LOk (Some [])); RCre (LOk (Some 1));
   RAcct (LErr 1);                       (* round 1 is no longer served *)
   RDone; RAcct (LOk (mkAcct 102 0 3))].
Proof. vm_compute. reflexivity. Qed.

Lemma ex_committed_phase :
  t_phase (fst (run (init ex_cfg ex_gen) (firstn 9 ex_ops))) = PCommitted 2 /\
  t_dbr (fst (run (init ex_cfg ex_gen) (firstn 9 ex_ops))) = 2%nat /\
  t_dbRound (fst (run (init ex_cfg ex_gen) (firstn 9 ex_ops))) = 0%nat.
Proof. vm_compute. repeat split. Qed.

(* ---------- the hypotheses on the history are needed ---------- *)
Definition cfg0 := mkCfg 0 true 8 8 8 false.

(* a KV record whose OldData lies ("the key already had this value") is skipped by
   accountsNewRoundImpl: the answer then depends on whether the round has been flushed *)
Definition bad_kv := mkDelta 0 [] [] [([107], (Some [1], Some [1]))] [].
Lemma kv_olddata_needed_lemma :
  exists d ops1 ops2 v1 v2,
    history_of ops1 = [d] /\ history_of ops2 = [d] /\
    wf_histb (genesis_world []) [d] = false /\
    snd (step (fst (run (init cfg0 []) ops1)) (OQKv 1 [107])) = RKv (LOk v1) /\
    snd (step (fst (run (init cfg0 []) ops2)) (OQKv 1 [107])) = RKv (LOk v2) /\
    v1 <> v2.
Proof.
  exists bad_kv, [ONewBlock bad_kv], [ONewBlock bad_kv; OSchedule 1; OBegin; OCommitDB; OPostCommit],
         (Some [1]), None.
  vm_compute. repeat split; discriminate.
Qed.

(* a resource record with a half "nil and not deleted" over a present half: memory drops the
   half (newBlockImpl), the DB keeps it (SetAssetData) *)
Definition keep_r1 := mkDelta 0 [(1, mkAcct 5 0 0)] [((1, 10), (HSet 7, HSet 3))] [] [].
Definition keep_r2 := mkDelta 0 [] [((1, 10), (HSet 7, HKeep))] [] [].
Lemma res_keep_needed_lemma :
  exists h ops1 ops2 v1 v2,
    history_of ops1 = h /\ history_of ops2 = h /\
    wf_histb (genesis_world []) h = false /\
    snd (step (fst (run (init cfg0 []) ops1)) (OQRes 2 1 10)) = RRes (LOk v1) /\
    snd (step (fst (run (init cfg0 []) ops2)) (OQRes 2 1 10)) = RRes (LOk v2) /\
    v1 <> v2.
Proof.
  exists [keep_r1; keep_r2], [ONewBlock keep_r1; ONewBlock keep_r2],
         [ONewBlock keep_r1; ONewBlock keep_r2; OSchedule 2; OBegin; OCommitDB; OPostCommit],
         (Some 7, None), (Some 7, Some 3).
  vm_compute. repeat split; discriminate.
Qed.

(* ---------- the original flushPendingWrites: a late cache write plants a stale entry ---------- *)
(* A reader looks account 1 up (100, read from the DB at round 0) and stalls before queueing what
   it read for the base cache.  The account changes to 200, the round is committed, the cache
   turns over (OPrune stands for the eviction by a large working set), the reader's write lands,
   the next block flushes it into the cache: from then on lookups answer 100. *)
Definition late_cfg (fixed : bool) := mkCfg 0 true 4 4 4 fixed.
Definition late_gen : list (addr * acct) := [(1, mkAcct 100 0 0)].
Definition late_ops : list op :=
  [OSAcct 0 1;
   ONewBlock (mkDelta 0 [(1, mkAcct 200 0 0)] [] [] []);
   OSchedule 1; OBegin; OCommitDB; OPostCommit;
   OPrune 0 0 0;
   OLand 0 0;
   ONewBlock (mkDelta 0 [] [] [] [])].

(* the landing in late_ops is exactly what the hypothesis of the main theorems excludes *)
Lemma late_ops_not_tolerated : lands_ok (init (late_cfg false) late_gen) late_ops = false.
Proof. vm_compute. reflexivity. Qed.

Lemma late_pending_refuted_lemma :
  exists c gen ops rnd a v,
    cf_fix c = false /\
    wf_hist (genesis_world gen) (history_of ops) /\
    snd (step (reach c gen ops) (OQAcct rnd a)) = RAcct (LOk v) /\
    v <> ans_acct (state_at (genesis_world gen) (history_of ops) rnd) a.
Proof.
  exists (late_cfg false), late_gen, late_ops, 2%nat, 1, (mkAcct 100 0 0).
  vm_compute. repeat split; discriminate.
Qed.

(* the same schedule against flushPendingWritesSince *)
Lemma late_pending_repaired_lemma :
  snd (step (reach (late_cfg true) late_gen late_ops) (OQAcct 2 1)) = RAcct (LOk (mkAcct 200 0 0)).
Proof. vm_compute. reflexivity. Qed.
