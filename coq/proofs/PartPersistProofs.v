(* C36, persistence layer (model/PartPersist.v): forward security of the PERSISTED keys, restarts,
   the round -> identifier mapping.  Built on the key-level lemmas of OneTimeSigProofs.v. *)
From Coq Require Import NArith ZArith List Bool Lia ZifyN ZifyNat ZifyBool.
From Verif.model Require Import OneTimeSig PartPersist.
From Verif.proofs Require Import OneTimeSigProofs.
Import ListNotations.
Open Scope N_scope.

(* ---------- basics.OneTimeIDForRound ---------- *)
Lemma div_le_self r K : K <> 0 -> r / K <= r.
Proof. intros HK. apply N.div_le_upper_bound; [exact HK|nia]. Qed.

Lemma id_of_round_wf r K : K <> 0 -> r < W -> K < W ->
  wf_id (id_of_round r K) /\ ioff (id_of_round r K) < K.
Proof.
  intros HK Hr HKW. unfold wf_id, id_of_round. cbn [ibatch ioff].
  pose proof (N.mod_lt r K HK). pose proof (div_le_self r K HK). lia.
Qed.

Lemma id_of_round_lt r1 r2 K : K <> 0 -> r1 < r2 -> id_lt (id_of_round r1 K) (id_of_round r2 K).
Proof.
  intros HK H. unfold id_lt, id_of_round. cbn [ibatch ioff].
  pose proof (N.div_mod r1 K HK) as E1. pose proof (N.div_mod r2 K HK) as E2.
  pose proof (N.mod_lt r1 K HK). pose proof (N.mod_lt r2 K HK).
  assert (Hle : r1 / K <= r2 / K) by (apply N.div_le_mono; [exact HK|lia]).
  destruct (N.eq_dec (r1 / K) (r2 / K)) as [E|E]; [right|left; lia].
  split; [exact E|]. rewrite E in E1. lia.
Qed.

Lemma id_of_round_le r1 r2 K : K <> 0 -> r1 <= r2 -> id_le (id_of_round r1 K) (id_of_round r2 K).
Proof.
  intros HK H Hlt. destruct (N.eq_dec r1 r2) as [->|E].
  - unfold id_lt in Hlt. lia.
  - pose proof (id_of_round_lt r1 r2 K HK ltac:(lia)) as H2. unfold id_lt in *. lia.
Qed.

(* the mapping is strictly monotone, hence order-reflecting and injective *)
Lemma id_of_round_lt_iff r1 r2 K : K <> 0 ->
  (id_lt (id_of_round r1 K) (id_of_round r2 K) <-> r1 < r2).
Proof.
  intros HK. split; [|apply id_of_round_lt; exact HK].
  intros H. destruct (N.lt_ge_cases r1 r2) as [L|L]; [exact L|].
  exfalso. exact (id_of_round_le r2 r1 K HK L H).
Qed.

Lemma id_of_round_inj r1 r2 K : K <> 0 -> id_of_round r1 K = id_of_round r2 K -> r1 = r2.
Proof.
  intros HK E. unfold id_of_round in E. injection E as E1 E2.
  rewrite (N.div_mod r1 K HK), (N.div_mod r2 K HK), E1, E2. reflexivity.
Qed.

(* ---------- state invariant ---------- *)
Definition pInv (p : pstate) : Prop :=
  Inv (mem p) /\ Inv (disk p) /\ mkd p = dkd p /\ mkd p < W.

(* the key-level operation an operation of the layer performs on the memory state *)
Definition tr (kd : N) (o : pop) : option op :=
  match o with
  | PDel r D _ => let K := eff_kd kd D in
                  if K =? 0 then None else Some (Del (id_of_round r K) K)
  | PRestart => Some Reload
  end.

Lemma eff_kd_lt kd D : kd < W -> D < W -> eff_kd kd D < W.
Proof. unfold eff_kd. destruct (kd =? 0); tauto. Qed.

Lemma tr_wf kd o x : kd < W -> wf_pop o -> tr kd o = Some x -> wf_op x.
Proof.
  intros Hkd Hw E. destruct o as [r D ok|]; cbn [tr] in E.
  - destruct (N.eqb_spec (eff_kd kd D) 0) as [E0|E0]; [discriminate|]. injection E as <-.
    destruct Hw as [Hr HD]. pose proof (eff_kd_lt kd D Hkd HD) as HK.
    cbn [wf_op]. split; [apply id_of_round_wf; assumption|exact HK].
  - injection E as <-. exact I.
Qed.

(* [x] is obtained from [s] by key-level operations that all satisfy P *)
Definition from (s : secrets) (P : op -> Prop) (x : secrets) : Prop :=
  exists xs, Forall P xs /\ x = run s xs.

Lemma from_refl s P : from s P s.
Proof. exists []. split; [constructor|reflexivity]. Qed.

Lemma from_step s P x o : from s P x -> P o -> from s P (step x o).
Proof.
  intros (xs & HP & ->) Ho. exists (xs ++ [o]). split.
  - apply Forall_app. split; [exact HP|repeat constructor; exact Ho].
  - rewrite run_app. reflexivity.
Qed.

Lemma pstep_kd p o : mkd p = dkd p ->
  mkd (fst (pstep p o)) = mkd p /\ dkd (fst (pstep p o)) = dkd p.
Proof.
  intros E. destruct o as [r D ok|]; cbn [pstep].
  - destruct (eff_kd (mkd p) D =? 0); [split; reflexivity|]. destruct ok; split; reflexivity.
  - cbn. split; [symmetry; exact E|reflexivity].
Qed.

Lemma pstep_from s P p o : mkd p = dkd p ->
  from s P (mem p) -> from s P (disk p) ->
  (forall x, tr (mkd p) o = Some x -> P x) ->
  from s P (mem (fst (pstep p o))) /\ from s P (disk (fst (pstep p o))).
Proof.
  intros Ekd Hm Hd HP. destruct o as [r D ok|]; cbn [pstep tr] in *.
  - destruct (eff_kd (mkd p) D =? 0); [split; assumption|].
    assert (Hm' : from s P (delete (mem p) (id_of_round r (eff_kd (mkd p) D)) (eff_kd (mkd p) D))).
    { apply (from_step s P (mem p) (Del _ _)); [exact Hm|]. apply HP. reflexivity. }
    destruct ok; cbn [fst mem disk]; split; assumption.
  - cbn [fst mem disk]. split; [|exact Hd].
    apply (from_step s P (disk p) Reload); [exact Hd|]. apply HP. reflexivity.
Qed.

Lemma prun_cons p o ops : prun p (o :: ops) = prun (fst (pstep p o)) ops.
Proof. reflexivity. Qed.

Lemma prun_app p ops ops' : prun p (ops ++ ops') = prun (prun p ops) ops'.
Proof. unfold prun. apply fold_left_app. Qed.

Lemma prun_kd ops : forall p, mkd p = dkd p ->
  mkd (prun p ops) = mkd p /\ dkd (prun p ops) = dkd p.
Proof.
  induction ops as [|o ops IH]; intros p E; [split; reflexivity|].
  rewrite prun_cons. destruct (pstep_kd p o E) as [E1 E2].
  destruct (IH (fst (pstep p o)) ltac:(congruence)) as [E3 E4]. split; congruence.
Qed.

Lemma prun_from s P ops : forall p, mkd p = dkd p ->
  from s P (mem p) -> from s P (disk p) ->
  (forall o x, In o ops -> tr (mkd p) o = Some x -> P x) ->
  from s P (mem (prun p ops)) /\ from s P (disk (prun p ops)).
Proof.
  induction ops as [|o ops IH]; intros p E Hm Hd HP; [split; assumption|].
  rewrite prun_cons.
  destruct (pstep_from s P p o E Hm Hd) as [Hm' Hd']; [intros x; apply HP; left; reflexivity|].
  destruct (pstep_kd p o E) as [E1 E2].
  apply IH; [congruence|exact Hm'|exact Hd'|].
  intros o' x Hin. rewrite E1. apply HP. right. exact Hin.
Qed.

Lemma from_inv s x : Inv s -> from s wf_op x -> Inv x.
Proof. intros HI (xs & Hw & ->). apply run_inv; assumption. Qed.

Lemma pstep_pInv p o : pInv p -> wf_pop o -> pInv (fst (pstep p o)).
Proof.
  intros (Hm & Hd & E & Hk) Hw. destruct (pstep_kd p o E) as [E1 E2].
  assert (HP : forall x, tr (mkd p) o = Some x -> wf_op x) by (intros x; apply tr_wf; assumption).
  unfold pInv. rewrite E1, E2. split; [|split; [|split; assumption]].
  - destruct o as [r D ok|]; cbn [pstep tr] in *.
    + destruct (eff_kd (mkd p) D =? 0); [exact Hm|]. cbn [fst].
      assert (Inv (delete (mem p) (id_of_round r (eff_kd (mkd p) D)) (eff_kd (mkd p) D))).
      { specialize (HP _ eq_refl). cbn [wf_op] in HP. apply delete_inv; tauto. }
      destruct ok; assumption.
    + cbn. apply reload_inv. exact Hd.
  - destruct o as [r D ok|]; cbn [pstep tr] in *.
    + destruct (eff_kd (mkd p) D =? 0); [exact Hd|]. cbn [fst].
      assert (Inv (delete (mem p) (id_of_round r (eff_kd (mkd p) D)) (eff_kd (mkd p) D))).
      { specialize (HP _ eq_refl). cbn [wf_op] in HP. apply delete_inv; tauto. }
      destruct ok; assumption.
    + cbn. exact Hd.
Qed.

Lemma prun_pInv ops : forall p, pInv p -> Forall wf_pop ops -> pInv (prun p ops).
Proof.
  induction ops as [|o ops IH]; intros p HI Hw; [exact HI|].
  inversion Hw; subst. rewrite prun_cons. apply IH; [apply pstep_pInv|]; assumption.
Qed.

Lemma restored_inv p : pInv p -> Inv (restored p).
Proof. intros (_ & Hd & _). apply reload_inv. exact Hd. Qed.

(* ---------- FillDBWithParticipationKeys ---------- *)
Lemma fill_secrets_shape fv lv K : K <> 0 -> fv <= lv -> lv + 1 < W ->
  fill_secrets fv lv K = generate (fv / K) (lv / K - fv / K + 1) /\
  fv / K < W /\ fv / K + (lv / K - fv / K + 1) <= W.
Proof.
  intros HK Hle Hlv. unfold fill_secrets.
  assert (H1 : fv / K <= lv / K) by (apply N.div_le_mono; assumption).
  pose proof (div_le_self lv K HK) as H2.
  set (a := fv / K) in *. set (b := lv / K) in *. clearbody a b.
  rewrite wsub_small by lia. rewrite wadd_small by lia. repeat split; lia.
Qed.

Lemma init_pInv fv lv K kd : K <> 0 -> fv <= lv -> lv + 1 < W -> kd < W ->
  pInv (mkP (fill_secrets fv lv K) kd (fill_secrets fv lv K) kd).
Proof.
  intros HK Hle Hlv Hkd. destruct (fill_secrets_shape fv lv K HK Hle Hlv) as (E & H1 & H2).
  unfold pInv. cbn [mem disk mkd dkd]. rewrite E.
  repeat split; try assumption; try reflexivity; apply generate_inv; assumption.
Qed.

Lemma fill_ok fv lv K maxp p : fill fv lv K maxp = FillOk p ->
  K <> 0 /\ fv <= lv /\ p = mkP (fill_secrets fv lv K) K (fill_secrets fv lv K) K.
Proof.
  unfold fill. destruct (N.ltb_spec lv fv); [discriminate|].
  destruct (negb (maxp =? 0) && (maxp <? lv - fv)); [discriminate|].
  destruct (N.eqb_spec K 0); [discriminate|]. intros E. injection E as <-. repeat split; assumption.
Qed.

Lemma fill_establishes_inv fv lv K maxp p :
  fill fv lv K maxp = FillOk p -> lv + 1 < W -> K < W -> pInv p /\ disk p = mem p.
Proof.
  intros H Hlv HK. destruct (fill_ok _ _ _ _ _ H) as (H1 & H2 & ->).
  split; [exact (init_pInv fv lv K K H1 H2 Hlv HK)|reflexivity].
Qed.

(* ---------- forward security of memory AND of the persisted state ---------- *)
Lemma persisted_forward_secure p r D dbok p1 ops' r' m :
  pInv p -> r < W -> D < W -> Forall wf_pop ops' ->
  pstep p (PDel r D dbok) = (p1, ROk) ->
  r / eff_kd (mkd p) D + 1 < W -> r' < r ->
  let id := id_of_round r' (eff_kd (mkd p) D) in
  let p' := prun p1 ops' in
  ~ derivable (mem p') id /\ ~ derivable (disk p') id /\ ~ derivable (restored p') id /\
  sign (mem p') id m = SigEmpty /\ sign (restored p') id m = SigEmpty.
Proof.
  intros HI Hr HD Hw Hst Hnw Hlt id p'.
  destruct HI as (Hm & Hd & E & Hk).
  pose proof (eff_kd_lt _ _ Hk HD) as HKW.
  cbn [pstep] in Hst. set (K := eff_kd (mkd p) D) in *.
  destruct (N.eqb_spec K 0) as [E0|E0]; [discriminate|].
  destruct dbok; [|discriminate]. injection Hst as <-.
  set (c := id_of_round r K). set (s1 := delete (mem p) c K).
  destruct (id_of_round_wf r K E0 Hr HKW) as [Hc _].
  assert (HI1 : Inv s1) by (apply delete_inv; assumption).
  assert (Hidlt : id_lt id c) by (apply id_of_round_lt; assumption).
  assert (Hnd : ~ derivable s1 id).
  { intros Hdv. apply (derivable_cond _ _ HI1) in Hdv.
    exact (delete_forward _ _ _ _ Hm Hc Hnw Hidlt Hdv). }
  assert (Hid : wf_id id) by (apply id_of_round_wf; [exact E0|lia|exact HKW]).
  destruct (prun_from s1 wf_op ops' (mkP s1 (mkd p) s1 (dkd p)) E (from_refl _ _) (from_refl _ _))
    as [Fm Fd].
  { intros o x Hin. cbn [mkd]. apply tr_wf; [exact Hk|]. rewrite Forall_forall in Hw. apply Hw. exact Hin. }
  fold p' in Fm, Fd.
  assert (Fr : from s1 wf_op (restored p')) by (apply (from_step s1 wf_op (disk p') Reload); [exact Fd|exact I]).
  assert (G : forall x, from s1 wf_op x -> ~ derivable x id /\ sign x id m = SigEmpty).
  { intros x Fx. pose proof (from_inv s1 x HI1 Fx) as HIx. destruct Fx as (xs & _ & ->).
    assert (Hn : ~ derivable (run s1 xs) id) by (intros Hdv; apply run_monotone in Hdv; exact (Hnd Hdv)).
    split; [exact Hn|]. apply sign_not_cond; [exact HIx|exact Hid|].
    intros Hc'. apply (derivable_cond _ _ HIx) in Hc'. exact (Hn Hc'). }
  destruct (G _ Fm) as [G1 G2]. destruct (G _ Fd) as [G3 _]. destruct (G _ Fr) as [G4 G5].
  repeat split; assumption.
Qed.

(* a success report is only given for a write that happened *)
Lemma report_ok p o p1 : pstep p o = (p1, ROk) ->
  exists r D, o = PDel r D true /\ eff_kd (mkd p) D <> 0 /\ disk p1 = mem p1.
Proof.
  destruct o as [r D ok|]; cbn [pstep]; [|discriminate].
  destruct (N.eqb_spec (eff_kd (mkd p) D) 0); [discriminate|].
  destruct ok; [|discriminate]. intros E. injection E as <-. exists r, D. repeat split; assumption.
Qed.

(* ---------- still signs: memory and restart, any mix of failed writes and restarts ---------- *)
Definition uses_kd (kd K : N) (o : pop) : Prop :=
  match o with PDel _ D _ => eff_kd kd D = K | PRestart => True end.

Lemma persisted_still_signs fv lv K kd ops r' m :
  K <> 0 -> K < W -> kd < W -> fv <= lv -> lv + 1 < W -> Forall wf_pop ops ->
  Forall (uses_kd kd K) ops ->
  fv <= r' -> r' <= lv -> (forall r, In r (del_rounds ops) -> r <= r') ->
  let s := fill_secrets fv lv K in
  let p := prun (mkP s kd s kd) ops in
  let id := id_of_round r' K in
  verify id m (sign (mem p) id m) = true /\ verify id m (sign (restored p) id m) = true.
Proof.
  intros HK HKW Hkd Hle Hlv Hw Hu Hlo Hhi Hall s p id.
  destruct (fill_secrets_shape fv lv K HK Hle Hlv) as (E & H1 & H2). fold s in E.
  assert (HIs : Inv s) by (rewrite E; apply generate_inv; assumption).
  destruct (id_of_round_wf r' K HK ltac:(lia) HKW) as [Hid Hoff]. fold id in Hid, Hoff.
  set (P := fun x => wf_op x /\ op_keeps id x).
  destruct (prun_from s P ops (mkP s kd s kd) eq_refl (from_refl _ _) (from_refl _ _)) as [Fm Fd].
  { intros o x Hin Htr. cbn [mkd] in Htr. split.
    - apply (tr_wf kd o x Hkd); [|exact Htr]. rewrite Forall_forall in Hw. apply Hw. exact Hin.
    - destruct o as [r D ok|]; cbn [tr] in Htr.
      + assert (EK : eff_kd kd D = K) by (rewrite Forall_forall in Hu; exact (Hu _ Hin)).
        rewrite EK in Htr. destruct (K =? 0); [discriminate|]. injection Htr as <-.
        cbn [op_keeps]. split; [|exact Hoff]. apply id_of_round_le; [exact HK|].
        apply Hall. unfold del_rounds. apply in_flat_map. exists (PDel r D ok). split; [exact Hin|left; reflexivity].
      + injection Htr as <-. exact I. }
  fold p in Fm, Fd.
  assert (Fr : from s P (restored p)) by (apply (from_step s P (disk p) Reload); [exact Fd|split; exact I]).
  assert (Hc0 : cond s id).
  { rewrite E. apply generate_cond. unfold id, id_of_round. cbn [ibatch].
    assert (fv / K <= r' / K) by (apply N.div_le_mono; assumption).
    assert (r' / K <= lv / K) by (apply N.div_le_mono; assumption). lia. }
  assert (G : forall x, from s P x -> verify id m (sign x id m) = true).
  { intros x (xs & HP & ->).
    assert (Hw' : Forall wf_op xs) by (eapply Forall_impl; [|exact HP]; intros a [Ha _]; exact Ha).
    assert (Hk' : Forall (op_keeps id) xs) by (eapply Forall_impl; [|exact HP]; intros a [_ Ha]; exact Ha).
    apply verify_sign; [apply run_inv; assumption|exact Hid|].
    apply run_still; assumption. }
  split; apply G; assumption.
Qed.

(* ---------- a restart is transparent ---------- *)
(* states that differ only in nil-vs-empty Batches (what the msgpack round trip changes), or
   that both hold no key at all (then FirstBatch may differ: DeleteBeforeFineGrained treats a
   nil Batches differently in its "ran out of batches" branch) *)
Definition nilok (s : secrets) : Prop := bnil s = true -> batches s = [].
Definition dead (s : secrets) : Prop := batches s = [] /\ offs s = [].
Definition sim (s t : secrets) : Prop :=
  nilok s /\ nilok t /\ batches s = batches t /\ offs s = offs t /\ pk2 s = pk2 t /\
  ((fb s = fb t /\ fo s = fo t) \/ dead s).

Lemma skipn_nil' {A} n : skipn n (@nil A) = [].
Proof. destruct n; reflexivity. Qed.

Lemma dead_delete s c K : nilok s -> dead s ->
  dead (delete s c K) /\ pk2 (delete s c K) = pk2 s /\ nilok (delete s c K).
Proof.
  intros Hn [Hb Ho]. destruct s as [fb0 bn bs fo0 os p2]. cbn [batches offs bnil] in *. subst bs os.
  unfold delete, dead, nilok. cbn [fb fo batches offs bnil pk2].
  rewrite !skipn_nil'.
  repeat match goal with |- context [if ?b then _ else _] => destruct b end;
    cbn [fb fo batches offs bnil pk2]; repeat split; reflexivity.
Qed.

Lemma sim_dead s t : sim s t -> dead s -> dead t.
Proof. intros (_ & _ & Eb & Eo & _) [H1 H2]. split; congruence. Qed.

Lemma delete_sim s t c K : sim s t -> sim (delete s c K) (delete t c K).
Proof.
  intros H. pose proof H as (Hs & Ht & Eb & Eo & Ep & [[Efb Efo]|Hd]).
  - destruct s as [fb0 bn bs fo0 os p2], t as [fb1 bn1 bs1 fo1 os1 p21].
    cbn [fb fo batches offs bnil pk2] in *. subst fb1 fo1 bs1 os1 p21.
    unfold nilok in Hs, Ht. cbn [bnil batches] in Hs, Ht.
    unfold delete, sim, nilok, dead. cbn [fb fo batches offs bnil pk2].
    destruct (wadd (ibatch c) 1 =? fb0).
    + destruct (fo0 <? ioff c); cbn [fb fo batches offs bnil pk2]; repeat split; auto.
    + destruct (wadd (ibatch c) 1 <? fb0); cbn [fb fo batches offs bnil pk2]; [repeat split; auto|].
      destruct (lenN bs <? wsub (ibatch c) fb0).
      * destruct bn, bn1; cbn [fb fo batches offs bnil pk2];
          try rewrite (Hs eq_refl) in *; try rewrite (Ht eq_refl) in *;
          repeat split; auto.
      * destruct (skipn (N.to_nat (wsub (ibatch c) fb0)) bs); cbn [fb fo batches offs bnil pk2];
          repeat split; auto; discriminate.
  - pose proof (sim_dead _ _ H Hd) as Hd'.
    destruct (dead_delete s c K Hs Hd) as ([B1 O1] & P1 & N1).
    destruct (dead_delete t c K Ht Hd') as ([B2 O2] & P2 & N2).
    unfold sim. repeat split; try assumption; try congruence. right. split; assumption.
Qed.

Lemma reload_sim s t : sim s t -> sim (reload s) t.
Proof.
  intros (Hs & Ht & Eb & Eo & Ep & Hd). unfold sim, reload, nilok, dead in *.
  cbn [fb fo batches offs bnil pk2] in *. repeat split; try assumption.
  destruct (batches s); [reflexivity|discriminate].
Qed.

Lemma sim_refl s : nilok s -> sim s s.
Proof. intros H. unfold sim. repeat split; try assumption; try reflexivity. left. split; reflexivity. Qed.

Lemma ltb_zero x : (x <? 0) = false.
Proof. apply N.ltb_ge. lia. Qed.

Lemma sim_sign s t id m : sim s t -> sign s id m = sign t id m.
Proof.
  intros H. pose proof H as (Hs & Ht & Eb & Eo & Ep & [[Efb Efo]|Hd]).
  - unfold sign. rewrite Eb, Eo, Ep, Efb, Efo. reflexivity.
  - pose proof (sim_dead _ _ H Hd) as [B2 O2]. destruct Hd as [B1 O1].
    unfold sign. rewrite B1, O1, B2, O2. unfold lenN. cbn [length N.of_nat].
    rewrite !ltb_zero, !andb_false_r. reflexivity.
Qed.

Lemma Inv_nilok s : Inv s -> nilok s.
Proof. intros (_ & _ & _ & _ & _ & H). exact H. Qed.

Lemma restart_transparent_gen ops : forall p q,
  all_dbok ops -> mkd p = dkd p -> mkd q = mkd p -> dkd q = mkd q ->
  sim (mem p) (mem q) -> sim (disk p) (mem q) ->
  sim (mem (prun p ops)) (mem (prun q (no_restarts ops))) /\
  sim (disk (prun p ops)) (mem (prun q (no_restarts ops))).
Proof.
  induction ops as [|o ops IH]; intros p q Hok Ep Eq Eq' Sm Sd; [split; assumption|].
  inversion Hok as [|? ? Ho Hok']; subst.
  destruct o as [r D ok|].
  - subst ok. cbn [no_restarts filter]. fold (no_restarts ops). rewrite !prun_cons.
    cbn [pstep]. rewrite Eq.
    destruct (eff_kd (mkd p) D =? 0); cbn [fst]; [apply IH; assumption|].
    apply IH; cbn [mem disk mkd dkd]; try assumption; try congruence; apply delete_sim; exact Sm.
  - cbn [no_restarts filter]. fold (no_restarts ops). rewrite prun_cons. cbn [pstep fst].
    apply IH; cbn [mem disk mkd dkd]; try assumption; try congruence.
    apply reload_sim. exact Sd.
Qed.

(* with successful writes, a node that restarts (anywhere, any number of times) signs exactly
   what the node that never restarts signs; so does a node restarted at the end *)
Lemma restart_transparent p ops id m :
  pInv p -> disk p = mem p -> all_dbok ops ->
  sign (mem (prun p ops)) id m = sign (mem (prun p (no_restarts ops))) id m /\
  sign (restored (prun p ops)) id m = sign (mem (prun p (no_restarts ops))) id m.
Proof.
  intros (Hm & Hd & E & Hk) Edm Hok.
  pose proof (sim_refl _ (Inv_nilok _ Hm)) as S.
  destruct (restart_transparent_gen ops p p Hok E eq_refl (eq_sym E) S ltac:(rewrite Edm; exact S)) as [S1 S2].
  split; [apply sim_sign; exact S1|]. apply sim_sign. apply reload_sim. exact S2.
Qed.

(* ---------- monotone: no operation of the layer creates key material ---------- *)
Lemma pstep_monotone p o id :
  (derivable (mem (fst (pstep p o))) id \/ derivable (restored (fst (pstep p o))) id) ->
  derivable (mem p) id \/ derivable (restored p) id.
Proof.
  assert (R : forall x, derivable (reload x) id <-> derivable x id)
    by (intros x; unfold derivable, reload; cbn [batches offs]; tauto).
  unfold restored. destruct o as [r D ok|]; cbn [pstep].
  - destruct (eff_kd (mkd p) D =? 0); [tauto|].
    destruct ok; cbn [fst mem disk]; rewrite !R; intros [H|H]; try (left; exact (delete_monotone _ _ _ _ H)).
    right. apply R. exact H.
  - cbn [fst mem disk]. tauto.
Qed.

(* ---------- OverlapsInterval ---------- *)
Lemma overlaps_spec fv lv first last :
  (overlaps fv lv first last = None <-> last < first) /\
  (first <= last -> fv <= lv ->
   (overlaps fv lv first last = Some true <-> exists r, first <= r <= last /\ fv <= r <= lv)).
Proof.
  unfold overlaps. destruct (N.ltb_spec last first) as [H|H].
  - split; [tauto|]. intros; lia.
  - destruct (N.ltb_spec last fv) as [A|A]; destruct (N.ltb_spec lv first) as [B|B]; cbn [orb];
      (split; [split; [discriminate|lia]|]); intros _ Hle.
    + split; [discriminate|intros (r & ? & ?); lia].
    + split; [discriminate|intros (r & ? & ?); lia].
    + split; [discriminate|intros (r & ? & ?); lia].
    + split; [intros _; exists (N.max fv first); lia|intros _; reflexivity].
Qed.
