(* C28 lemmas: soundness of verify.TxnGroup's acceptance w.r.t. the declarative
   [accept_ok] / [authorised_by], every present signature is checked, the evaluator's
   authorizer chain, and reflection of the executable oracle. *)
From Coq Require Import String Ascii NArith ZArith List Bool Lia ZifyN ZifyNat ZifyBool.
Import ListNotations.
From Verif.lib Require Import Term.
From Verif.model Require Import Commitments TxnAuth TxnAuthSpec TxnAuthCheck.
Open Scope N_scope.

(* ---- byte strings ---- *)
Lemma list_eqb_N_eq : forall a b : list N, list_eqb N.eqb a b = true <-> a = b.
Proof.
  induction a as [|x a IH]; destruct b as [|y b]; cbn [list_eqb]; split; intro E;
    try discriminate; try reflexivity.
  - apply andb_true_iff in E. destruct E as [E1 E2]. apply N.eqb_eq in E1. apply IH in E2. congruence.
  - injection E as -> ->. apply andb_true_iff. split; [apply N.eqb_refl | apply IH; reflexivity].
Qed.

Lemma beqb_eq : forall a b, beqb a b = true <-> a = b.
Proof. exact list_eqb_N_eq. Qed.

Lemma beqb_refl : forall a, beqb a a = true.
Proof. intro a. apply beqb_eq. reflexivity. Qed.

Lemma beqb_false : forall a b, beqb a b = false -> a <> b.
Proof. intros a b E Eq. subst. rewrite beqb_refl in E. discriminate. Qed.

Lemma bytes_eq_dec : forall a b : bytes, {a = b} + {a <> b}.
Proof. intros a b. destruct (beqb a b) eqn:E; [left; apply beqb_eq; exact E | right; apply beqb_false; exact E]. Qed.

Lemma length_zero_iff : forall (b : bytes), (length b =? 0)%nat = true <-> b = [].
Proof. intros [|x b]; cbn; split; intro E; try discriminate; reflexivity. Qed.

Section Sound.
  Variable sig_ok : bytes -> bytes -> bytes -> bool.
  Variable pq_ok : bytes -> bytes -> bytes -> bytes -> bool.
  Variable H : bytes -> bytes.
  Variable p : vparams.

  Notation batch_ok := (batch_ok sig_ok).
  Notation accept_ok := (accept_ok sig_ok pq_ok H).
  Notation authorised_by := (authorised_by sig_ok pq_ok H).

  Definition item_ok (it : item) : bool := let '(pk, m, sg) := it in sig_ok pk m sg.

  Lemma batch_ok_forall : forall q, batch_ok q = true <-> forall it, In it q -> item_ok it = true.
  Proof. intro q. unfold TxnAuth.batch_ok. rewrite forallb_forall. reflexivity. Qed.

  Lemma batch_ok_app : forall a b, batch_ok (a ++ b) = true -> batch_ok a = true /\ batch_ok b = true.
  Proof.
    intros a b E. rewrite batch_ok_forall in E. split; apply batch_ok_forall; intros it I;
      apply E; apply in_or_app; [left | right]; exact I.
  Qed.

  (* ---- multisig ---- *)
  Lemma filter_ext_in' : forall {A} (f g : A -> bool) l,
    (forall x, In x l -> f x = g x) -> filter f l = filter g l.
  Proof.
    intros A f g l. induction l as [|x l IH]; intro E; cbn; [reflexivity|].
    rewrite (E x (or_introl eq_refl)). rewrite IH; [reflexivity|].
    intros y I. apply E. right. exact I.
  Qed.

  Lemma msig_prep_sound : forall msg a m q,
    msig_prep H msg a m = inl q -> batch_ok q = true ->
    msig_authorises sig_ok H a msg m /\ msig_blank m = false /\
    q = map (fun s => (ss_key s, msg, ss_sig s)) (filter (fun s => negb (all_zero (ss_sig s))) (ms_subs m)).
  Proof.
    intros msg a m q E B. unfold msig_prep in E.
    destruct (ms_subs m) as [|s0 subs] eqn:Es; [discriminate|].
    destruct (sub_zero s0) eqn:Z; [discriminate|].
    remember (s0 :: subs) as ss eqn:Ess.
    unfold msig_addr in E.
    destruct (negb (ms_v m =? 1)) eqn:V; [discriminate|].
    destruct ((ms_thr m =? 0) || (length ss =? 0)%nat || (blen ss <? ms_thr m)) eqn:T; [discriminate|].
    destruct (negb (beqb a (H (str "MultisigAddr" ++ [ms_v m; ms_thr m] ++ flat_map ss_key ss)))) eqn:A; [discriminate|].
    destruct (255 <? blen ss) eqn:L; [discriminate|].
    destruct (msig_signatures ss <? ms_thr m) eqn:S; [discriminate|].
    injection E as <-.
    apply negb_false_iff in V. apply N.eqb_eq in V.
    apply negb_false_iff in A. apply beqb_eq in A.
    apply orb_false_iff in T. destruct T as [T _]. apply orb_false_iff in T. destruct T as [T _].
    apply N.eqb_neq in T. apply N.ltb_ge in S.
    split; [|split].
    - unfold msig_authorises. rewrite Es. repeat split; [exact V | lia | symmetry; exact A |].
      unfold valid_subsigs.
      assert (F : filter (fun s => negb (all_zero (ss_sig s)) && sig_ok (ss_key s) msg (ss_sig s)) ss
                  = filter sub_signed ss).
      { apply filter_ext_in'. intros x I. unfold sub_signed.
        destruct (negb (all_zero (ss_sig x))) eqn:Nz; [|reflexivity]. cbn [andb].
        rewrite batch_ok_forall in B.
        apply (B (ss_key x, msg, ss_sig x)).
        apply in_map_iff. exists x. split; [reflexivity|].
        apply filter_In. split; [exact I | exact Nz]. }
      rewrite F. unfold msig_signatures in S. exact S.
    - unfold msig_blank. rewrite V. reflexivity.
    - reflexivity.
  Qed.

  (* ---- PQ ---- *)
  Lemma pq_verify_sound : forall q msg a,
    pq_verify pq_ok H p q msg a = None -> pq_authorises pq_ok H a msg q.
  Proof.
    intros q msg a E. unfold pq_verify in E.
    destruct (pq_blank q); [discriminate|].
    destruct (negb (beqb (pq_scheme q) scheme_f1)) eqn:S; [discriminate|].
    destruct (negb (p_pq p)); [discriminate|].
    destruct (negb (beqb (pq_address H q) a)) eqn:A; [discriminate|].
    destruct (length (pq_sg q) =? 0)%nat eqn:L; [discriminate|].
    destruct (pq_ok (pq_scheme q) (pq_pk q) msg (pq_sg q)) eqn:O; [|discriminate].
    apply negb_false_iff in S. apply beqb_eq in S.
    apply negb_false_iff in A. apply beqb_eq in A.
    unfold pq_authorises. repeat split; [exact S | exact A | | exact O].
    intro N0. rewrite N0 in L. discriminate.
  Qed.

  (* ---- LogicSig ---- *)
  Lemma msig_items_blank : forall msg m, msig_blank m = true -> msig_items msg m = [].
  Proof. intros msg m B. unfold msig_items. rewrite B. reflexivity. Qed.

  Lemma b2n_sum : forall a b c d,
    (b2n (negb a) + b2n (negb b) + b2n (negb c) + b2n (negb d) =? 0) = false ->
    (1 <? b2n (negb a) + b2n (negb b) + b2n (negb c) + b2n (negb d)) = false ->
    (a = false /\ b = true /\ c = true /\ d = true) \/ (a = true /\ b = false /\ c = true /\ d = true) \/
    (a = true /\ b = true /\ c = false /\ d = true) \/ (a = true /\ b = true /\ c = true /\ d = false).
  Proof. intros [] [] [] []; cbn; intros; try discriminate; tauto. Qed.

  Lemma lsig_sanity_sound : forall s,
    lsig_sanity sig_ok pq_ok H p s = None ->
    has_program (t_lsig s) = true /\
    (H (program_msg (l_logic (t_lsig s))) = authorizer s \/
     (all_zero (l_sig (t_lsig s)) = false /\
      sig_ok (authorizer s) (program_msg (l_logic (t_lsig s))) (l_sig (t_lsig s)) = true) \/
     msig_authorises sig_ok H (authorizer s) (program_msg (l_logic (t_lsig s))) (l_msig (t_lsig s)) \/
     msig_authorises sig_ok H (authorizer s) (msig_program_msg (authorizer s) (l_logic (t_lsig s))) (l_lmsig (t_lsig s)) \/
     pq_authorises pq_ok H (authorizer s) (pq_program_msg (authorizer s) (l_logic (t_lsig s))) (l_pq (t_lsig s))) /\
    (forall it, In it (lsig_items (authorizer s) (t_lsig s)) -> item_ok it = true).
  Proof.
    intros s E. unfold lsig_sanity in E. cbv zeta in E.
    set (l := t_lsig s) in *. set (a := authorizer s) in *.
    destruct (p_lsigver p =? 0); [discriminate|].
    destruct (negb (has_program l)) eqn:HP; [discriminate|].
    destruct (p_maxabs p <? blen (l_logic l)); [discriminate|].
    destruct (uvarint (l_logic l)) as [ver vlen].
    destruct (vlen <=? 0)%Z; [discriminate|].
    destruct (p_lsigver p <? ver); [discriminate|].
    destruct (negb (l_check_ok l)); [discriminate|].
    apply negb_false_iff in HP. split; [exact HP|].
    destruct (b2n (negb (all_zero (l_sig l))) + b2n (negb (msig_blank (l_msig l))) +
              b2n (negb (msig_blank (l_lmsig l))) + b2n (negb (pq_blank (l_pq l))) =? 0) eqn:Z.
    - (* contract account *)
      destruct (beqb a (H (program_msg (l_logic l)))) eqn:A; [|discriminate].
      apply beqb_eq in A. split; [left; symmetry; exact A|].
      assert (S0 : all_zero (l_sig l) = true /\ msig_blank (l_msig l) = true /\ msig_blank (l_lmsig l) = true).
      { destruct (all_zero (l_sig l)), (msig_blank (l_msig l)), (msig_blank (l_lmsig l)), (pq_blank (l_pq l));
          cbn in Z; try discriminate; auto. }
      destruct S0 as (S1 & S2 & S3). intros it I. unfold lsig_items in I.
      rewrite S1, (msig_items_blank _ _ S2), (msig_items_blank _ _ S3) in I. destruct I.
    - destruct (1 <? b2n (negb (all_zero (l_sig l))) + b2n (negb (msig_blank (l_msig l))) +
                     b2n (negb (msig_blank (l_lmsig l))) + b2n (negb (pq_blank (l_pq l)))) eqn:O; [discriminate|].
      destruct (b2n_sum _ _ _ _ Z O) as [(B1 & B2 & B3 & B4) | [(B1 & B2 & B3 & B4) | [(B1 & B2 & B3 & B4) | (B1 & B2 & B3 & B4)]]];
        rewrite ?B1, ?B2, ?B3, ?B4 in E; cbn [negb andb orb] in E.
      + (* delegated by a plain signature *)
        destruct (TxnAuth.batch_ok sig_ok [(a, program_msg (l_logic l), l_sig l)]) eqn:B; [|discriminate].
        unfold TxnAuth.batch_ok in B. cbn [forallb] in B. rewrite andb_true_r in B.
        split; [right; left; split; [exact B1 | exact B]|].
        intros it I. unfold lsig_items in I. rewrite B1, (msig_items_blank _ _ B2), (msig_items_blank _ _ B3) in I.
        cbn in I. destruct I as [<- | []]. exact B.
      + (* Msig *)
        destruct (negb (p_lsig_msig p)); [discriminate|].
        destruct (msig_prep H (program_msg (l_logic l)) a (l_msig l)) as [q|e] eqn:MP; [|discriminate].
        destruct (TxnAuth.batch_ok sig_ok q) eqn:B; [|discriminate].
        destruct (msig_prep_sound _ _ _ _ MP B) as (MA & _ & Q).
        split; [right; right; left; exact MA|].
        intros it I. unfold lsig_items in I. rewrite B1, (msig_items_blank _ _ B3) in I.
        rewrite app_nil_r in I. cbn [app] in I. unfold msig_items in I. rewrite B2 in I.
        rewrite <- Q in I. rewrite batch_ok_forall in B. apply B. exact I.
      + (* LMsig *)
        destruct (negb (p_lsig_lmsig p)); [discriminate|].
        destruct (msig_prep H (msig_program_msg a (l_logic l)) a (l_lmsig l)) as [q|e] eqn:MP; [|discriminate].
        destruct (TxnAuth.batch_ok sig_ok q) eqn:B; [|discriminate].
        destruct (msig_prep_sound _ _ _ _ MP B) as (MA & _ & Q).
        split; [right; right; right; left; exact MA|].
        intros it I. unfold lsig_items in I. rewrite B1, (msig_items_blank _ _ B2) in I.
        cbn [app] in I. unfold msig_items in I. rewrite B3 in I.
        rewrite <- Q in I. rewrite batch_ok_forall in B. apply B. exact I.
      + (* PQ *)
        apply pq_verify_sound in E.
        split; [right; right; right; right; exact E|].
        intros it I. unfold lsig_items in I. rewrite B1, (msig_items_blank _ _ B2), (msig_items_blank _ _ B3) in I.
        destruct I.
  Qed.

  (* ---- categories ---- *)
  Lemma num_categories_count : forall s,
    num_categories s = N.of_nat (count_true (categories s)).
  Proof.
    intro s. unfold num_categories, categories, count_true, sig_present, msig_present, lsig_present, pq_present.
    destruct (negb (all_zero (t_sig s))), (negb (msig_blank (t_msig s))), (has_program (t_lsig s)),
      (negb (pq_blank (t_pq s))); reflexivity.
  Qed.

  (* ---- one transaction ---- *)
  Lemma txn_prep_sound : forall s q,
    txn_prep sig_ok pq_ok H p s = inl q -> batch_ok q = true ->
    accept_ok (authorizer s) s /\ (forall it, In it (present_sigs s) -> item_ok it = true).
  Proof.
    intros s q E B. unfold txn_prep in E.
    destruct (negb (p_rekey p) && negb (all_zero (t_auth s))); [discriminate|].
    destruct (p_authdiff p && negb (all_zero (t_auth s)) && beqb (t_auth s) (t_sender s)); [discriminate|].
    destruct (negb (p_pq p) && (negb (pq_blank (t_pq s)) || negb (pq_blank (l_pq (t_lsig s))))); [discriminate|].
    destruct (sig_type s) as [ty|e] eqn:ST; [|discriminate].
    unfold sig_type in ST. pose proof (num_categories_count s) as NC.
    unfold accept_ok, sp_exempt, exactly_one_category, authorised_by, present_sigs.
    unfold categories, count_true, sig_present, msig_present, lsig_present, pq_present in *.
    destruct (num_categories s =? 0) eqn:N0.
    { (* state proof transaction *)
      destruct (t_is_sp s) eqn:SP; [|discriminate]. injection ST as <-. cbn in E. injection E as <-.
      apply N.eqb_eq in N0. rewrite N0 in NC.
      destruct (negb (all_zero (t_sig s))) eqn:C1, (negb (msig_blank (t_msig s))) eqn:C2,
        (has_program (t_lsig s)) eqn:C3, (negb (pq_blank (t_pq s))) eqn:C4; cbn in NC; try discriminate.
      split; [left; split; reflexivity|].
      apply negb_false_iff in C2. rewrite (msig_items_blank _ _ C2), !app_nil_r.
      rewrite batch_ok_forall in B. exact B. }
    destruct (1 <? num_categories s) eqn:N1; [discriminate|].
    assert (C : count_true (categories s) = 1%nat).
    { apply N.eqb_neq in N0. apply N.ltb_ge in N1. unfold categories, count_true, sig_present, msig_present, lsig_present, pq_present. lia. }
    unfold categories, count_true, sig_present, msig_present, lsig_present, pq_present in C.
    destruct (negb (all_zero (t_sig s))) eqn:C1, (negb (msig_blank (t_msig s))) eqn:C2,
      (has_program (t_lsig s)) eqn:C3, (negb (pq_blank (t_pq s))) eqn:C4; cbn in C; try discriminate;
      cbn [negb] in ST; injection ST as <-; cbn [N.eqb Pos.eqb] in E.
    - (* plain signature *)
      injection E as <-. apply batch_ok_app in B. destruct B as [B1 B2].
      cbn in B2. rewrite andb_true_r in B2.
      split; [right; split; [reflexivity | left; split; [reflexivity | exact B2]]|].
      apply negb_false_iff in C2. rewrite (msig_items_blank _ _ C2), !app_nil_r.
      intros it I. apply in_app_or in I. destruct I as [I | [<- | []]]; [|exact B2].
      rewrite batch_ok_forall in B1. apply B1. exact I.
    - (* multisig *)
      destruct (msig_prep H (txn_msg s) (authorizer s) (t_msig s)) as [q'|e] eqn:MP; [|discriminate].
      injection E as <-. apply batch_ok_app in B. destruct B as [B1 B2].
      destruct (msig_prep_sound _ _ _ _ MP B2) as (MA & NB & Q).
      split; [right; split; [reflexivity | right; left; split; [reflexivity | exact MA]]|].
      rewrite !app_nil_r. cbn [app]. unfold msig_items. rewrite NB, <- Q.
      intros it I. apply in_app_or in I. rewrite batch_ok_forall in B1, B2.
      destruct I as [I | I]; [apply B1 | apply B2]; exact I.
    - (* logic signature *)
      destruct (lsig_verify sig_ok pq_ok H p s) eqn:LV; [discriminate|].
      injection E as <-. unfold lsig_verify in LV.
      destruct (lsig_sanity sig_ok pq_ok H p s) eqn:LS; [discriminate|].
      destruct (l_eval (t_lsig s) =? 0) eqn:EV; [|destruct (l_eval (t_lsig s) =? 1); discriminate].
      apply N.eqb_eq in EV.
      destruct (lsig_sanity_sound _ LS) as (_ & A & I).
      split; [right; split; [reflexivity | right; right; left; split; [reflexivity | split; [exact EV | exact A]]]|].
      apply negb_false_iff in C2. rewrite (msig_items_blank _ _ C2). cbn [app].
      intros it J. apply in_app_or in J. rewrite batch_ok_forall in B.
      destruct J as [J | J]; [apply B; exact J | apply I; exact J].
    - (* PQ signature *)
      destruct (pq_verify pq_ok H p (t_pq s) (txn_msg s) (authorizer s)) eqn:PV; [discriminate|].
      injection E as <-. apply pq_verify_sound in PV.
      split; [right; split; [reflexivity | right; right; right; split; [reflexivity | exact PV]]|].
      apply negb_false_iff in C2. rewrite (msig_items_blank _ _ C2), !app_nil_r.
      rewrite batch_ok_forall in B. exact B.
  Qed.

  (* ---- the group ---- *)
  Lemma prep_loop_spec : forall l i q0 q,
    prep_loop sig_ok pq_ok H p l i q0 = inl q ->
    (forall it, In it q0 -> In it q) /\
    (forall s, In s l -> exists qs, txn_prep sig_ok pq_ok H p s = inl qs /\ (forall it, In it qs -> In it q)).
  Proof.
    induction l as [|s l IH]; intros i q0 q E; cbn [prep_loop] in E.
    - injection E as <-. split; [auto | intros s []].
    - destruct (txn_prep sig_ok pq_ok H p s) as [qs|[r sub]] eqn:TP; [|discriminate].
      destruct (IH _ _ _ E) as [I1 I2]. split.
      + intros it I. apply I1. apply in_or_app. left. exact I.
      + intros s' [<- | I].
        * exists qs. split; [exact TP|]. intros it J. apply I1. apply in_or_app. right. exact J.
        * apply I2. exact I.
  Qed.

  Lemma prep_loop_err : forall l i q0 e,
    prep_loop sig_ok pq_ok H p l i q0 = inr e -> e <> VOk.
  Proof.
    induction l as [|s l IH]; intros i q0 e E; cbn [prep_loop] in E; [discriminate|].
    destruct (txn_prep sig_ok pq_ok H p s) as [qs|[r sub]]; [exact (IH _ _ _ E)|].
    injection E as <-. discriminate.
  Qed.

  Lemma verify_group_ok : forall l,
    verify_group sig_ok pq_ok H p l = VOk ->
    exists q, prep_loop sig_ok pq_ok H p l 0%Z [] = inl q /\ batch_ok q = true /\
              check_group_id (fun _ : N => H) (map t_gtx l) = GOk.
  Proof.
    intros l E. unfold verify_group, group_items in E.
    destruct l as [|s l]; [discriminate|].
    destruct (first_index (fun s0 => negb (t_wf s0)) (s :: l) 0); [discriminate|].
    destruct (check_group_id (fun _ : N => H) (map t_gtx (s :: l))) eqn:G; cbn [map_gres] in E; try discriminate.
    destruct (lsig_size_check p (s :: l)); [|discriminate].
    destruct (prep_loop sig_ok pq_ok H p (s :: l) 0%Z []) as [q|e] eqn:PL; [|exfalso; exact (prep_loop_err _ _ _ _ PL E)].
    destruct (TxnAuth.batch_ok sig_ok q) eqn:B; [|discriminate].
    exists q. auto.
  Qed.

  Theorem accept_sound : forall l,
    verify_group sig_ok pq_ok H p l = VOk ->
    forall s, In s l -> accept_ok (authorizer s) s.
  Proof.
    intros l E s I. destruct (verify_group_ok _ E) as (q & PL & B & _).
    destruct (prep_loop_spec _ _ _ _ PL) as [_ I2]. destruct (I2 s I) as (qs & TP & Sub).
    apply (txn_prep_sound s qs TP).
    apply batch_ok_forall. intros it J. rewrite batch_ok_forall in B. apply B. apply Sub. exact J.
  Qed.

  Theorem batch_all_checked : forall l,
    verify_group sig_ok pq_ok H p l = VOk ->
    forall s, In s l -> forall pk m sg, In (pk, m, sg) (present_sigs s) -> sig_ok pk m sg = true.
  Proof.
    intros l E s I pk m sg J. destruct (verify_group_ok _ E) as (q & PL & B & _).
    destruct (prep_loop_spec _ _ _ _ PL) as [_ I2]. destruct (I2 s I) as (qs & TP & Sub).
    assert (Bq : batch_ok qs = true).
    { apply batch_ok_forall. intros it K. rewrite batch_ok_forall in B. apply B. apply Sub. exact K. }
    destruct (txn_prep_sound s qs TP Bq) as [_ All]. exact (All (pk, m, sg) J).
  Qed.

  Theorem zero_or_two_categories_rejected : forall l s,
    In s l -> count_true (categories s) <> 1%nat -> ~ sp_exempt s ->
    verify_group sig_ok pq_ok H p l <> VOk.
  Proof.
    intros l s I C NS E. destruct (accept_sound l E s I) as [SP | [EO _]]; [exact (NS SP) | exact (C EO)].
  Qed.

  (* the group id rule is part of the verifier's acceptance as well *)
  Theorem verify_group_checks_group_id : forall l,
    verify_group sig_ok pq_ok H p l = VOk -> check_group_id (fun _ : N => H) (map t_gtx l) = GOk.
  Proof. intros l E. destruct (verify_group_ok _ E) as (q & _ & _ & G). exact G. Qed.

  (* "any change after signing": a plain-signature transaction is accepted only if the key of
     the authorizer it names validates a signature over the WHOLE canonical encoding; with an
     unforgeability premise (only what the holder signed verifies) content that was never
     signed is rejected *)
  Theorem unsigned_content_rejected : forall (Signed : bytes -> bytes -> Prop) l s,
    (forall pk m sg, sig_ok pk m sg = true -> Signed pk m) ->
    In s l -> sig_present s = true ->
    ~ Signed (authorizer s) (str "TX" ++ t_enc s) ->
    verify_group sig_ok pq_ok H p l <> VOk.
  Proof.
    intros Signed l s EUF I SP NS E.
    pose proof (batch_all_checked l E s I (authorizer s) (txn_msg s) (t_sig s)) as B.
    apply NS. apply (EUF _ _ (t_sig s)). apply B.
    unfold present_sigs. rewrite SP. apply in_or_app. right. left. reflexivity.
  Qed.
End Sound.

(* ---- reflection of the executable oracle ---- *)
Section Reflect.
  Variable sig_ok : bytes -> bytes -> bytes -> bool.
  Variable pq_ok : bytes -> bytes -> bytes -> bytes -> bool.
  Variable H : bytes -> bytes.

  Lemma msig_authorises_b_iff : forall a msg m,
    msig_authorises_b sig_ok H a msg m = true <-> msig_authorises sig_ok H a msg m.
  Proof.
    intros a msg m. unfold msig_authorises_b, msig_authorises.
    rewrite !andb_true_iff, N.eqb_eq, N.leb_le, N.leb_le, beqb_eq. tauto.
  Qed.

  Lemma pq_authorises_b_iff : forall a msg q,
    pq_authorises_b pq_ok H a msg q = true <-> pq_authorises pq_ok H a msg q.
  Proof.
    intros a msg q. unfold pq_authorises_b, pq_authorises.
    rewrite !andb_true_iff, !beqb_eq, negb_true_iff.
    assert (L : (length (pq_sg q) =? 0)%nat = false <-> pq_sg q <> []).
    { destruct (pq_sg q); cbn; split; intro E; congruence. }
    rewrite L. tauto.
  Qed.

  Lemma lsig_authorises_b_iff : forall a l,
    lsig_authorises_b sig_ok pq_ok H a l = true <-> lsig_authorises sig_ok pq_ok H a l.
  Proof.
    intros a l. unfold lsig_authorises_b, lsig_authorises.
    rewrite andb_true_iff, !orb_true_iff, andb_true_iff, negb_true_iff, N.eqb_eq, beqb_eq,
      !msig_authorises_b_iff, pq_authorises_b_iff. tauto.
  Qed.

  Lemma authorised_b_iff : forall a s,
    authorised_b sig_ok pq_ok H a s = true <-> authorised_by sig_ok pq_ok H a s.
  Proof.
    intros a s. unfold authorised_b, authorised_by.
    rewrite !orb_true_iff, !andb_true_iff, msig_authorises_b_iff, lsig_authorises_b_iff, pq_authorises_b_iff.
    tauto.
  Qed.

  Theorem accept_ok_b_iff : forall a s,
    accept_ok_b sig_ok pq_ok H a s = true <-> accept_ok sig_ok pq_ok H a s.
  Proof.
    intros a s. unfold accept_ok_b, accept_ok, sp_exempt_b, sp_exempt, exactly_one_b, exactly_one_category.
    rewrite orb_true_iff, !andb_true_iff, !Nat.eqb_eq, authorised_b_iff. tauto.
  Qed.
End Reflect.

(* ---- evaluator: the authorizer chain ---- *)
Section EvalAuth.
  Variable H : N -> bytes -> bytes.
  Variable maxgroup : N.

  Definition state_before (st : astate) (g : list etx) (i : nat) : astate :=
    fold_left apply_rekey (firstn i g) st.

  Lemma eval_loop_auth : forall l n g0 st i acc st' acc',
    eval_loop H true n g0 st i acc l = inl (st', acc') ->
    st' = fold_left apply_rekey l st /\
    forall j t, nth_error l j = Some t ->
      e_pre_ok t = true /\ e_apply_ok t = true /\
      e_authorizer t = current_authorizer (fold_left apply_rekey (firstn j l) st) (e_sender t).
  Proof.
    induction l as [|t l IH]; intros n g0 st i acc st' acc' E; cbn [eval_loop] in E.
    - injection E as <- <-. split; [reflexivity|]. intros [|j] t; discriminate.
    - cbn [andb] in E.
      destruct (negb (e_pre_ok t)) eqn:P; [discriminate|].
      destruct (negb (beqb (e_authorizer t) (current_authorizer st (e_sender t)))) eqn:A; [discriminate|].
      destruct (negb (e_apply_ok t)) eqn:Ap; [discriminate|].
      destruct (group_member_step H n g0 i acc (e_gtx t)) as [acc1|e]; [|discriminate].
      destruct (IH _ _ _ _ _ _ _ E) as [S1 S2]. split; [exact S1|].
      intros [|j] t' Nt.
      + injection Nt as <-. apply negb_false_iff in P, A, Ap. apply beqb_eq in A. auto.
      + cbn [firstn fold_left]. apply S2. exact Nt.
  Qed.

  Lemma eval_loop_err : forall v l n g0 st i acc e,
    eval_loop H v n g0 st i acc l = inr e -> e <> EOk.
  Proof.
    induction l as [|t l IH]; intros n g0 st i acc e E; cbn [eval_loop] in E; [discriminate|].
    destruct (v && negb (e_pre_ok t)); [injection E as <-; discriminate|].
    destruct (v && negb (beqb (e_authorizer t) (current_authorizer st (e_sender t)))); [injection E as <-; discriminate|].
    destruct (negb (e_apply_ok t)); [injection E as <-; discriminate|].
    destruct (group_member_step H n g0 i acc (e_gtx t)) as [acc1|e1]; [exact (IH _ _ _ _ _ _ E)|].
    injection E as <-. discriminate.
  Qed.

  Theorem eval_auth_sound : forall st fees g st',
    eval_txgroup H true maxgroup st fees g = (EOk, st') ->
    st' = fold_left apply_rekey g st /\
    forall j t, nth_error g j = Some t ->
      e_authorizer t = current_authorizer (state_before st g j) (e_sender t).
  Proof.
    intros st fees g st' E. unfold eval_txgroup in E.
    destruct g as [|t0 g]; [injection E as <-; split; [reflexivity | intros [|j] t; discriminate]|].
    destruct (maxgroup <? blen (t0 :: g)); [discriminate|].
    destruct (eval_loop H true (length (t0 :: g)) (g_grp (e_gtx t0)) st 0 [] (t0 :: g)) as [[st1 acc]|e] eqn:L;
      [|injection E as E1 _; exfalso; exact (eval_loop_err _ _ _ _ _ _ _ _ L E1)].
    destruct (group_final H (g_grp (e_gtx t0)) acc); try discriminate.
    destruct fees; [|discriminate]. injection E as <-.
    destruct (eval_loop_auth _ _ _ _ _ _ _ _ L) as [S1 S2]. split; [exact S1|].
    intros j t Nt. apply (S2 j t Nt).
  Qed.

  (* executable oracle of the evaluator cases = the chain statement *)
  Lemma auth_chain_ok_iff : forall g st,
    auth_chain_ok st g = true <->
    forall j t, nth_error g j = Some t ->
      e_authorizer t = current_authorizer (state_before st g j) (e_sender t).
  Proof.
    induction g as [|t g IH]; intro st; cbn [auth_chain_ok].
    - split; [intros _ [|j] t; discriminate | reflexivity].
    - rewrite andb_true_iff, beqb_eq, IH. split.
      + intros [A R] [|j] t' Nt; [injection Nt as <-; exact A | exact (R j t' Nt)].
      + intro R. split; [exact (R 0%nat t eq_refl) | intros j t' Nt; exact (R (S j) t' Nt)].
  Qed.
End EvalAuth.

(* the oracle evaluated on composed cases is the conclusion of [only_current_authorizer] *)
Lemma compose_ok_iff : forall sig_ok pq_ok H l g st, length l = length g ->
  (compose_ok sig_ok pq_ok H st l g = true <->
   forall j s, nth_error l j = Some s ->
     accept_ok sig_ok pq_ok H (current_authorizer (state_before st g j) (t_sender s)) s).
Proof.
  intros sig_ok pq_ok H. induction l as [|s l IH]; intros [|t g] st L; try discriminate; cbn [compose_ok].
  - split; [intros _ [|j] s; discriminate | reflexivity].
  - injection L as L. rewrite andb_true_iff, accept_ok_b_iff, (IH g (apply_rekey st t) L). split.
    + intros [A R] [|j] s' Ns; [injection Ns as <-; exact A | exact (R j s' Ns)].
    + intro R. split; [exact (R 0%nat s eq_refl) | intros j s' Ns; exact (R (S j) s' Ns)].
Qed.

(* ---- both halves together ---- *)
Theorem only_current_authorizer :
  forall sig_ok pq_ok (H : bytes -> bytes) (Hk : N -> bytes -> bytes) p maxgroup st fees l g st',
    map t_sender l = map e_sender g -> map t_auth l = map e_auth g ->
    verify_group sig_ok pq_ok H p l = VOk ->
    eval_txgroup Hk true maxgroup st fees g = (EOk, st') ->
    forall j s, nth_error l j = Some s ->
      accept_ok sig_ok pq_ok H (current_authorizer (state_before st g j) (t_sender s)) s.
Proof.
  intros sig_ok pq_ok H Hk p maxgroup st fees l g st' Es Ea V E j s Ns.
  destruct (eval_auth_sound Hk maxgroup st fees g st' E) as [_ Ch].
  assert (exists t, nth_error g j = Some t /\ e_sender t = t_sender s /\ e_auth t = t_auth s) as (t & Nt & S1 & S2).
  { pose proof (map_nth_error t_sender j l Ns) as M1. rewrite Es in M1.
    pose proof (map_nth_error t_auth j l Ns) as M2. rewrite Ea in M2.
    destruct (nth_error g j) as [t|] eqn:Nt.
    - exists t. rewrite (map_nth_error e_sender j g Nt) in M1. rewrite (map_nth_error e_auth j g Nt) in M2.
      injection M1 as M1. injection M2 as M2. auto.
    - apply nth_error_None in Nt. rewrite <- (map_length e_sender) in Nt.
      apply nth_error_None in Nt. rewrite Nt in M1. discriminate. }
  rewrite <- S1, <- (Ch j t Nt).
  replace (e_authorizer t) with (authorizer s) by (unfold e_authorizer, authorizer; rewrite S1, S2; reflexivity).
  apply (accept_sound sig_ok pq_ok H p l V). apply (nth_error_In l j Ns).
Qed.
