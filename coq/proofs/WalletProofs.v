(* C46: lemmas about model/Wallet.v.  Everything is proved for arbitrary carrier types and
   arbitrary derive/addr/kdf/kdff; the only hypotheses are that the equality tests decide
   equality, injectivity of (addr o derive m)  ("no two derivation indices give the same
   address") and injectivity of the fast password hash kdff (salted SHA-512/256).  Nothing is
   assumed about the slow KDF [kdf] (it is in fact not injective: trailing NUL bytes). *)
From Coq Require Import NArith List Bool Lia ZifyN ZifyNat ZifyBool Sorted.
From Verif.model Require Import Wallet.
Import ListNotations.
Open Scope N_scope.

Lemma seqN_In : forall len a j, In j (seqN a len) <-> a <= j < a + N.of_nat len.
Proof.
  induction len as [|len IH]; intros a j; cbn [seqN In].
  - lia.
  - rewrite IH. lia.
Qed.

Lemma seqN_length : forall len a, length (seqN a len) = len.
Proof. induction len; intros; cbn [seqN length]; auto. Qed.

Lemma seqN_NoDup : forall len a, NoDup (seqN a len).
Proof.
  induction len as [|len IH]; intros a; cbn [seqN]; constructor; auto.
  rewrite seqN_In. lia.
Qed.

Lemma seqN_app : forall l1 l2 a, seqN a (l1 + l2) = seqN a l1 ++ seqN (a + N.of_nat l1) l2.
Proof.
  induction l1 as [|l1 IH]; intros l2 a; cbn [seqN plus app].
  - f_equal. lia.
  - rewrite IH. do 3 f_equal. lia.
Qed.

Lemma seqN_nth : forall len a i, (i < len)%nat -> nth_error (seqN a len) i = Some (a + N.of_nat i).
Proof.
  induction len as [|len IH]; intros a i Hi; [lia|].
  destruct i as [|i]; cbn [seqN nth_error].
  - f_equal. lia.
  - rewrite IH by lia. f_equal. lia.
Qed.

Lemma w64add_small : forall n, n < sqliteIntOverflow -> w64add n 1 = n + 1.
Proof.
  intros n Hn. unfold w64add, sqliteIntOverflow, W64 in *. apply N.mod_small. lia.
Qed.

Section WalletProofs.
  Variables A K M P H F Nm PW : Type.
  Variable A_eqb : A -> A -> bool.
  Variable H_eqb : H -> H -> bool.
  Variable F_eqb : F -> F -> bool.
  Variable Nm_eqb : Nm -> Nm -> bool.
  Variable derive : M -> N -> K.
  Variable addr : K -> A.
  Variable maddr : P -> option A.
  Variable kdf : PW -> H.
  Variable kdff : PW -> F.
  Variable mdk0 : M.

  Hypothesis A_eqb_spec : forall a b, A_eqb a b = true <-> a = b.
  Hypothesis H_eqb_spec : forall a b, H_eqb a b = true <-> a = b.
  Hypothesis F_eqb_spec : forall a b, F_eqb a b = true <-> a = b.
  Hypothesis kdff_inj : forall a b, kdff a = kdff b -> a = b.
  Hypothesis derive_inj : forall m i j, addr (derive m i) = addr (derive m j) -> i = j.

  Local Notation state := (Wallet.state A K M P H F Nm).
  Local Notation op := (Wallet.op A K P Nm PW).
  Local Notation res := (Wallet.res A K M).
  Local Notation step := (Wallet.step A_eqb H_eqb F_eqb Nm_eqb derive addr maddr kdf kdff mdk0).
  Local Notation run := (Wallet.run A_eqb H_eqb F_eqb Nm_eqb derive addr maddr kdf kdff mdk0).
  Local Notation gen_trace := (Wallet.gen_trace A_eqb H_eqb F_eqb Nm_eqb derive addr maddr kdf kdff mdk0).
  Local Notation gen_search := (Wallet.gen_search A_eqb derive addr).
  Local Notation pw_ok := (Wallet.pw_ok H_eqb F_eqb kdf kdff).
  Local Notation slow_ok := (Wallet.slow_ok H_eqb kdf).
  Local Notation create := (@Wallet.create A K M P H F Nm PW kdf).
  Local Notation memA := (Wallet.memA A_eqb).
  Local Notation AD m := (fun i : N => addr (derive m i)).
  Local Notation gen_chain := (Wallet.gen_chain derive addr).

  Lemma memA_In : forall a l, memA a l = true <-> In a l.
  Proof.
    intros a l. unfold Wallet.memA. rewrite existsb_exists. split.
    - intros [x [Hx He]]. apply A_eqb_spec in He. subst. exact Hx.
    - intros Hin. exists a. split; [exact Hin|]. apply A_eqb_spec. reflexivity.
  Qed.

  Lemma memA_false : forall a l, memA a l = false <-> ~ In a l.
  Proof.
    intros a l. rewrite <- memA_In. destruct (memA a l); split; intros; congruence.
  Qed.

  Lemma A_eqb_refl : forall a, A_eqb a a = true.
  Proof. intros a. apply A_eqb_spec. reflexivity. Qed.

  (* ---- the skip loop ---------------------------------------------------------------- *)
  Lemma gen_search_found : forall fuel m present n0 n,
    n0 <= sqliteIntOverflow ->
    gen_search fuel m present n0 = GFound n ->
    n0 <= n /\ n < sqliteIntOverflow /\ ~ In (addr (derive m n)) present /\
    (forall j, n0 <= j < n -> In (addr (derive m j)) present).
  Proof.
    induction fuel as [|fuel IH]; intros m present n0 n Hn0 Hs; cbn [Wallet.gen_search] in Hs.
    - discriminate.
    - destruct (n0 =? sqliteIntOverflow) eqn:Hov; [discriminate|].
      apply N.eqb_neq in Hov.
      destruct (memA (addr (derive m n0)) present) eqn:Hmem.
      + rewrite w64add_small in Hs by lia.
        apply IH in Hs; [|lia]. destruct Hs as [H1 [H2 [H3 H4]]].
        repeat split; try lia; auto.
        intros j Hj. destruct (N.eq_dec j n0) as [->|Hne].
        * apply memA_In. exact Hmem.
        * apply H4. lia.
      + inversion Hs; subst n. repeat split; try lia.
        * apply memA_false. exact Hmem.
    Qed.

  Lemma gen_search_outoffuel : forall fuel m present n0,
    n0 <= sqliteIntOverflow ->
    gen_search fuel m present n0 = GOutOfFuel ->
    forall j, In j (seqN n0 fuel) -> In (addr (derive m j)) present.
  Proof.
    induction fuel as [|fuel IH]; intros m present n0 Hn0 Hs j Hj; cbn [seqN In] in Hj.
    - contradiction.
    - cbn [Wallet.gen_search] in Hs.
      destruct (n0 =? sqliteIntOverflow) eqn:Hov; [discriminate|].
      apply N.eqb_neq in Hov.
      destruct (memA (addr (derive m n0)) present) eqn:Hmem; [|discriminate].
      rewrite w64add_small in Hs by lia.
      destruct Hj as [<-|Hj].
      + apply memA_In. exact Hmem.
      + eapply IH; [|exact Hs|exact Hj]. lia.
  Qed.

  Lemma AD_NoDup : forall m l, NoDup l -> NoDup (map (AD m) l).
  Proof.
    intros m l Hnd. induction Hnd as [|x l Hx Hnd IH]; cbn [map]; constructor; auto.
    rewrite in_map_iff. intros [y [Hy Hin]]. apply derive_inj in Hy. subst. contradiction.
  Qed.

  (* the fuel the model gives the loop is always enough *)
  Lemma gen_search_fuel_enough : forall m present n0,
    n0 <= sqliteIntOverflow ->
    gen_search (S (length present)) m present n0 <> GOutOfFuel.
  Proof.
    intros m present n0 Hn0 Hs.
    pose proof (gen_search_outoffuel _ _ _ _ Hn0 Hs) as Hall.
    assert (Hincl : incl (map (AD m) (seqN n0 (S (length present)))) present).
    { intros a Ha. apply in_map_iff in Ha. destruct Ha as [j [<- Hj]]. apply Hall. exact Hj. }
    apply NoDup_incl_length in Hincl.
    - rewrite map_length, seqN_length in Hincl. lia.
    - apply AD_NoDup. apply seqN_NoDup.
  Qed.

  (* ---- invariant ---------------------------------------------------------------------- *)
  Record Inv (s : state) : Prop := mkInv {
    inv_nodup : NoDup (addrs s);
    inv_mnodup : NoDup (maddrs s);
    inv_max : maxidx s < sqliteIntOverflow;
    inv_addr : forall r, In r (keys s) -> key_addr r = addr (key_sk r);
    inv_idx : forall r i, In r (keys s) -> key_idx r = Some i ->
                key_sk r = derive (mdk s) i /\ 1 <= i <= maxidx s;
    (* the handle's password hash is that of a password the slow path accepted *)
    inv_hpw : forall h, hpw s = Some h -> exists pw', h = kdff pw' /\ kdf pw' = pwh s }.

  Ltac simp_st :=
    unfold Wallet.addrs, Wallet.maddrs, Wallet.set_keys, Wallet.set_msigs, Wallet.set_hpw,
           Wallet.set_name in *;
    cbn [keys msigs maxidx mdk pwh name hpw] in *.

  Lemma create_inv : forall m pw nm, Inv (create m pw nm).
  Proof.
    intros. constructor; cbn; try (constructor; fail); try contradiction; try reflexivity.
    intros h Hh. discriminate.
  Qed.

  Lemma filter_map_NoDup : forall {X Y} (f : X -> Y) (p : X -> bool) l,
    NoDup (map f l) -> NoDup (map f (filter p l)).
  Proof.
    intros X Y f p l. induction l as [|x l IH]; cbn [map filter]; intros Hnd; [constructor|].
    inversion Hnd as [|? ? Hx Hnd']; subst.
    destruct (p x); cbn [map]; auto. constructor; auto.
    intros Hin. apply Hx. apply in_map_iff in Hin. destruct Hin as [y [Hy Hin]].
    apply filter_In in Hin. apply in_map_iff. exists y. tauto.
  Qed.

  Lemma NoDup_snoc : forall {X} (l : list X) x, NoDup l -> ~ In x l -> NoDup (l ++ [x]).
  Proof.
    intros X l x Hnd Hx. induction Hnd as [|y l Hy Hnd IH]; cbn [app].
    - constructor; [intros []|constructor].
    - constructor.
      + rewrite in_app_iff. cbn [In]. intros [Hin|[->|[]]]; [contradiction|]. apply Hx. left. reflexivity.
      + apply IH. intros Hin. apply Hx. right. exact Hin.
  Qed.

  (* what a successful GenerateKey does, in a state satisfying the invariant *)
  Lemma generate_spec : forall s dm s' a,
    Inv s -> step s (OGenerate dm) = (s', RAddr a) ->
    exists n,
    inited s = true /\ maxidx s < n /\ n < sqliteIntOverflow /\
    a = addr (derive (mdk s) n) /\ ~ In a (addrs s) /\
    (forall j, maxidx s < j < n -> In (addr (derive (mdk s) j)) (imported s)) /\
    s' = set_keys s (keys s ++ [(a, derive (mdk s) n, Some n)]) n.
  Proof.
    intros s dm s' a HI Hs. cbn [Wallet.step] in Hs.
    destruct dm; [discriminate|].
    destruct (inited s) eqn:Hin; cbn [negb] in Hs; [|discriminate].
    destruct (gen_search _ _ _ _) as [n| |] eqn:Hg; try discriminate.
    inversion Hs; subst s' a; clear Hs. exists n.
    pose proof (inv_max _ HI) as Hmax.
    rewrite w64add_small in Hg by exact Hmax.
    apply gen_search_found in Hg; [|lia].
    destruct Hg as [H1 [H2 [H3 H4]]].
    repeat split; auto; try lia.
    intros j Hj. assert (Hp : In (addr (derive (mdk s) j)) (addrs s)) by (apply H4; lia).
    unfold Wallet.addrs in Hp. apply in_map_iff in Hp. destruct Hp as [r [Hr Hinr]].
    unfold Wallet.imported. apply in_map_iff. exists r. split; [exact Hr|].
    apply filter_In. split; [exact Hinr|].
    destruct (key_idx r) as [i|] eqn:Hi; [|reflexivity].
    exfalso. destruct (inv_idx _ HI r i Hinr Hi) as [Hsk Hrange].
    rewrite (inv_addr _ HI r Hinr), Hsk in Hr. apply derive_inj in Hr. lia.
  Qed.

  Lemma step_inv : forall s o, Inv s -> Inv (fst (step s o)).
  Proof.
    intros s o HI.
    destruct (step s o) as [s' r] eqn:Hs. cbn [fst].
    destruct o; cbn [Wallet.step] in Hs.
    - (* reopen *) inversion Hs; subst. destruct HI; constructor; simp_st; auto. discriminate.
    - (* init *)
      destruct (slow_ok s pw) eqn:Hok; inversion Hs; subst; auto.
      destruct HI; constructor; simp_st; auto.
      intros h Hh. inversion Hh; subst. exists pw. split; [reflexivity|].
      apply H_eqb_spec. exact Hok.
    - destruct (pw_ok s pw); inversion Hs; subst; auto.
    - (* generate *)
      destruct r as [|a| | |e].
      2:{ destruct (generate_spec _ _ _ _ HI Hs) as [n [_ [Hlt [Hov [Ha [Hnin [_ ->]]]]]]].
          destruct HI as [Hnd Hmnd Hmax Haddr Hidx].
          constructor; simp_st; auto.
          - rewrite map_app. cbn [map Wallet.key_addr fst]. apply NoDup_snoc; auto.
          - intros r Hr. apply in_app_iff in Hr. destruct Hr as [Hr|[<-|[]]]; auto.
          - intros r i Hr Hi. apply in_app_iff in Hr. destruct Hr as [Hr|[<-|[]]].
            + destruct (Hidx r i Hr Hi) as [E1 E2]. split; [exact E1|lia].
            + cbn in Hi. inversion Hi; subst i. cbn. split; [reflexivity|lia]. }
      all: destruct displayMnemonic; [inversion Hs; subst; auto|];
           destruct (inited s); cbn [negb] in Hs; [|inversion Hs; subst; auto];
           destruct (gen_search _ _ _ _); inversion Hs; subst; auto.
    - (* import *)
      destruct (inited s); cbn [negb] in Hs; [|inversion Hs; subst; auto].
      destruct (memA (addr k) (addrs s)) eqn:Hm; inversion Hs; subst; auto.
      apply memA_false in Hm. destruct HI as [Hnd Hmnd Hmax Haddr Hidx].
      constructor; simp_st; auto.
      + rewrite map_app. cbn [map Wallet.key_addr fst]. apply NoDup_snoc; auto.
      + intros r Hr. apply in_app_iff in Hr. destruct Hr as [Hr|[<-|[]]]; auto.
      + intros r i Hr Hi. apply in_app_iff in Hr. destruct Hr as [Hr|[<-|[]]]; auto.
        cbn in Hi. discriminate.
    - (* export *)
      destruct (pw_ok s pw); cbn [negb] in Hs; [|inversion Hs; subst; auto].
      destruct (Wallet.fetch A_eqb s a); inversion Hs; subst; auto.
    - (* delete *)
      destruct (pw_ok s pw); cbn [negb] in Hs; inversion Hs; subst; auto.
      destruct HI as [Hnd Hmnd Hmax Haddr Hidx].
      constructor; simp_st; auto.
      + apply filter_map_NoDup. exact Hnd.
      + intros r Hr. apply filter_In in Hr. apply Haddr. tauto.
      + intros r i Hr Hi. apply filter_In in Hr. apply Hidx; tauto.
    - destruct (pw_ok s pw); cbn [negb] in Hs; inversion Hs; subst; auto.
    - destruct (pw_ok s pw); cbn [negb] in Hs; [|inversion Hs; subst; auto].
      destruct (Wallet.fetch A_eqb s a); inversion Hs; subst; auto.
    - (* rename *)
      destruct (Nm_eqb nm (name s)); [inversion Hs; subst; auto|].
      destruct (slow_ok s pw); cbn [negb] in Hs; inversion Hs; subst; auto.
      destruct HI; constructor; auto.
    - (* import msig *)
      destruct (maddr p) as [a|]; [|inversion Hs; subst; auto].
      destruct (memA a (maddrs s)) eqn:Hm; inversion Hs; subst; auto.
      apply memA_false in Hm. destruct HI as [Hnd Hmnd Hmax Haddr Hidx].
      constructor; simp_st; auto.
      rewrite map_app. cbn [map fst]. apply NoDup_snoc; auto.
    - (* delete msig *)
      destruct (pw_ok s pw); cbn [negb] in Hs; inversion Hs; subst; auto.
      destruct HI as [Hnd Hmnd Hmax Haddr Hidx].
      constructor; simp_st; auto.
      apply filter_map_NoDup. exact Hmnd.
  Qed.

  Lemma run_inv : forall ops s, Inv s -> Inv (run s ops).
  Proof.
    induction ops as [|o ops IH]; intros s HI; cbn [Wallet.run]; auto.
    apply IH. apply step_inv. exact HI.
  Qed.

  (* fields no operation changes; maxidx only moves in a successful generate *)
  Lemma step_frame : forall s o,
    let s' := fst (step s o) in
    mdk s' = mdk s /\ pwh s' = pwh s /\
    ((exists dm a, o = OGenerate dm /\ snd (step s o) = RAddr a) \/ maxidx s' = maxidx s).
  Proof.
    intros s o. cbn zeta.
    destruct o; cbn [Wallet.step];
      repeat match goal with
             | |- context [if ?c then _ else _] => destruct c
             | |- context [match ?c with GFound _ => _ | _ => _ end] => destruct c
             | |- context [match ?c with inl _ => _ | inr _ => _ end] => destruct c
             | |- context [match ?c with Some _ => _ | None => _ end] => destruct c
             end; cbn; repeat split; eauto.
  Qed.

  Lemma run_frame : forall ops s, mdk (run s ops) = mdk s /\ pwh (run s ops) = pwh s.
  Proof.
    induction ops as [|o ops IH]; intros s; cbn [Wallet.run]; auto.
    destruct (IH (fst (step s o))) as [E1 E2]. destruct (step_frame s o) as [F1 [F2 _]].
    cbn zeta in *. split; congruence.
  Qed.

  (* ---- the generated keys along any run ------------------------------------------------ *)
  Lemma gen_trace_chain : forall ops s,
    Inv s -> gen_chain (mdk s) (maxidx s) (gen_trace s ops) (maxidx (run s ops)).
  Proof.
    induction ops as [|o ops IH]; intros s HI; cbn [Wallet.gen_trace Wallet.run Wallet.gen_chain]; auto.
    pose proof (step_inv s o HI) as HI'. pose proof (step_frame s o) as HF. cbn zeta in HF.
    destruct (step s o) as [s' r] eqn:Hs. cbn [fst snd] in *.
    destruct HF as [Hm [_ Hmax]].
    specialize (IH s' HI'). rewrite Hm in IH.
    assert (Hsame : (forall dm a, o = OGenerate dm -> r = RAddr a -> False) ->
                    gen_chain (mdk s) (maxidx s) (gen_trace s' ops) (maxidx (run s' ops))).
    { intros Hno. destruct Hmax as [[dm [a [-> ->]]]|Hmax]; [exfalso; eapply Hno; eauto|].
      rewrite <- Hmax. exact IH. }
    destruct o; try (apply Hsame; intros; discriminate).
    destruct r as [|a| | |e]; try (apply Hsame; intros; discriminate).
    destruct (generate_spec _ _ _ _ HI Hs) as [n [_ [Hlt [_ [Ha [Hnin [Hskip Hs']]]]]]].
    assert (Hn : maxidx s' = n) by (rewrite Hs'; reflexivity). rewrite Hn in *.
    cbn [Wallet.gen_chain g_pre g_idx g_addr]. repeat split; auto.
  Qed.

  Lemma gen_chain_bounds : forall m (l : list (gen_event A K M P H F Nm)) lo hi,
    gen_chain m lo l hi -> lo <= hi /\
    Forall (fun e => lo < g_idx e <= hi /\ g_addr e = addr (derive m (g_idx e))) l.
  Proof.
    intros m l. induction l as [|e t IH]; intros lo hi Hc; cbn [Wallet.gen_chain] in Hc.
    - subst. split; [lia|constructor].
    - destruct Hc as [_ [Hlt [Ha [_ [_ Hc]]]]]. apply IH in Hc. destruct Hc as [Hle Hall].
      split; [lia|]. constructor; [split; [lia|exact Ha]|].
      eapply Forall_impl; [|exact Hall]. cbn. intros e' [H1 H2]. split; [lia|exact H2].
  Qed.

  Lemma gen_chain_sorted : forall m (l : list (gen_event A K M P H F Nm)) lo hi,
    gen_chain m lo l hi -> StronglySorted (fun e1 e2 => g_idx e1 < g_idx e2) l.
  Proof.
    intros m l. induction l as [|e t IH]; intros lo hi Hc; cbn [Wallet.gen_chain] in Hc; constructor.
    - destruct Hc as [_ [_ [_ [_ [_ Hc]]]]]. eapply IH; exact Hc.
    - destruct Hc as [_ [_ [_ [_ [_ Hc]]]]]. apply gen_chain_bounds in Hc.
      destruct Hc as [_ Hall]. eapply Forall_impl; [|exact Hall]. cbn. intros e' [H1 _]. lia.
  Qed.

  (* ---- a wallet that only generates: indices 1, 2, 3, ... ------------------------------- *)
  Lemma generate_dense : forall n s (k : nat),
    inited s = true -> maxidx s = N.of_nat k ->
    addrs s = map (AD (mdk s)) (seqN 1 k) ->
    N.of_nat (k + n) < sqliteIntOverflow ->
    map (fun e => (g_idx e, g_addr e)) (gen_trace s (repeat (OGenerate false) n)) =
    map (fun i => (i, addr (derive (mdk s) i))) (seqN (N.of_nat k + 1) n).
  Proof.
    induction n as [|n IH]; intros s k Hin Hmax Haddrs Hbound; cbn [repeat Wallet.gen_trace seqN map]; auto.
    cbn [Wallet.step]. rewrite Hin. cbn [negb].
    rewrite w64add_small by lia.
    assert (Hnotin : memA (addr (derive (mdk s) (maxidx s + 1))) (addrs s) = false).
    { apply memA_false. rewrite Haddrs. intros Hin'. apply in_map_iff in Hin'.
      destruct Hin' as [j [Hj Hjin]]. apply derive_inj in Hj. apply seqN_In in Hjin. lia. }
    cbn [Wallet.gen_search].
    replace (maxidx s + 1 =? sqliteIntOverflow) with false by (symmetry; apply N.eqb_neq; lia).
    rewrite Hnotin. cbn [map g_idx g_addr maxidx Wallet.set_keys]. rewrite Hmax. f_equal.
    set (s' := set_keys s _ _).
    specialize (IH s' (S k)).
    replace (N.of_nat (S k) + 1) with (N.of_nat k + 1 + 1) in IH by lia.
    apply IH; subst s'; unfold Wallet.addrs in *; unfold Wallet.set_keys; cbn [inited maxidx mdk keys]; auto; try lia.
    rewrite map_app. cbn [map Wallet.key_addr fst]. rewrite Haddrs.
    replace (S k) with (k + 1)%nat by lia. rewrite seqN_app, map_app. cbn [seqN map].
    replace (1 + N.of_nat k) with (N.of_nat k + 1) by lia. reflexivity.
  Qed.

  (* ---- password ------------------------------------------------------------------------ *)
  Lemma bool_false_iff : forall b, b = false <-> b <> true.
  Proof. intros []; split; congruence. Qed.

  (* a password whose slow KDF differs from the creation password's is rejected on both paths *)
  Lemma wrong_kdf_rejected : forall (s : state) pw,
    Inv s -> kdf pw <> pwh s -> slow_ok s pw = false /\ pw_ok s pw = false.
  Proof.
    intros s pw HI Hne.
    assert (Hslow : slow_ok s pw = false).
    { apply bool_false_iff. unfold Wallet.slow_ok. rewrite H_eqb_spec. exact Hne. }
    split; [exact Hslow|]. unfold Wallet.pw_ok.
    destruct (hpw s) as [h|] eqn:Hh; [|exact Hslow].
    destruct (inv_hpw _ HI h Hh) as [pw' [-> Hk]].
    apply bool_false_iff. rewrite F_eqb_spec. intros He. apply kdff_inj in He. subst pw'.
    contradiction.
  Qed.

  Lemma wrong_password_step : forall s o pw,
    Inv s -> op_pw o = Some pw -> kdf pw <> pwh s ->
    fst (step s o) = s /\ is_err (snd (step s o)) = true.
  Proof.
    intros s o pw HI Hop Hne.
    destruct (wrong_kdf_rejected s pw HI Hne) as [Hslow Hpw].
    destruct o; cbn [Wallet.op_pw] in Hop; inversion Hop; subst; cbn [Wallet.step];
      rewrite ?Hpw, ?Hslow; cbn [negb fst snd Wallet.is_err]; auto.
    destruct (Nm_eqb nm (name s)); cbn [negb fst snd Wallet.is_err]; rewrite ?Hslow; cbn; auto.
  Qed.

  (* ---- export under the right password ------------------------------------------------- *)
  Lemma find_key_some : forall a (l : list (A * K * option N)),
    In a (map key_addr l) -> exists r, find_key A_eqb a l = Some r /\ In r l /\ key_addr r = a.
  Proof.
    intros a l. induction l as [|r l IH]; cbn [map In Wallet.find_key find]; intros Hin; [contradiction|].
    destruct (A_eqb a (key_addr r)) eqn:He.
    - apply A_eqb_spec in He. exists r. auto.
    - destruct Hin as [Hr|Hin].
      + subst a. rewrite A_eqb_refl in He. discriminate.
      + destruct (IH Hin) as [r' [H1 [H2 H3]]]. exists r'. auto.
  Qed.

  Lemma export_right_password : forall s a pw,
    Inv s -> inited s = true -> In a (addrs s) -> pw_ok s pw = true ->
    exists k, step s (OExport a pw) = (s, RKey k) /\ addr k = a.
  Proof.
    intros s a pw HI Hin Ha Hpw. cbn [Wallet.step]. rewrite Hpw. cbn [negb].
    unfold Wallet.fetch. destruct (find_key_some a (keys s) Ha) as [r [Hf [Hr Hra]]].
    rewrite Hf, Hin. exists (key_sk r). split; [reflexivity|].
    rewrite <- (inv_addr _ HI r Hr). exact Hra.
  Qed.

  Lemma never_out_of_fuel : forall s o, Inv s -> snd (step s o) <> RErr EOutOfFuel.
  Proof.
    intros s o HI.
    destruct o; cbn [Wallet.step];
      repeat match goal with
             | |- context [if ?c then _ else _] => destruct c
             | |- context [match ?c with inl _ => _ | inr _ => _ end] => destruct c eqn:?
             | |- context [match maddr ?c with Some _ => _ | None => _ end] => destruct (maddr c)
             end; cbn [snd]; try discriminate.
    - destruct (gen_search _ _ _ _) eqn:Hg; cbn [snd]; try discriminate.
      exfalso. unfold Wallet.addrs in Hg.
      rewrite <- (map_length key_addr (keys s)) in Hg.
      apply gen_search_fuel_enough in Hg; auto.
      pose proof (inv_max _ HI). rewrite w64add_small; lia.
    - unfold Wallet.fetch in *. destruct (find_key A_eqb a (keys s)); [destruct (inited s)|]; congruence.
    - unfold Wallet.fetch in *. destruct (find_key A_eqb a (keys s)); [destruct (inited s)|]; congruence.
  Qed.

  (* ==== the statements used by props/C46.v ================================================ *)
  Theorem no_duplicate_address : forall m pw nm ops,
    NoDup (addrs (run (create m pw nm) ops)) /\ NoDup (maddrs (run (create m pw nm) ops)).
  Proof.
    intros. pose proof (run_inv ops _ (create_inv m pw nm)) as HI.
    split; [apply (inv_nodup _ HI)|apply (inv_mnodup _ HI)].
  Qed.

  Theorem generated_are_derived : forall m pw nm ops,
    gen_chain m 0 (gen_trace (create m pw nm) ops) (maxidx (run (create m pw nm) ops)).
  Proof. intros. apply (gen_trace_chain ops _ (create_inv m pw nm)). Qed.

  Theorem generated_strictly_increasing : forall m pw nm ops,
    StronglySorted (fun e1 e2 => g_idx e1 < g_idx e2) (gen_trace (create m pw nm) ops) /\
    Forall (fun e => 1 <= g_idx e <= maxidx (run (create m pw nm) ops) /\
                     g_addr e = addr (derive m (g_idx e))) (gen_trace (create m pw nm) ops).
  Proof.
    clear kdff_inj F_eqb_spec.
    intros. pose proof (generated_are_derived m pw nm ops) as Hc. split.
    - eapply gen_chain_sorted. exact Hc.
    - apply gen_chain_bounds in Hc. destruct Hc as [_ Hall].
      eapply Forall_impl; [|exact Hall]. cbn. intros e [H1 H2]. split; [lia|exact H2].
  Qed.

  (* a wallet created from the same MDK that only generates: indices 1..n in order *)
  Definition restore_ops (pw : PW) (n : nat) : list op := OInit pw :: repeat (OGenerate false) n.

  Theorem restore_fresh : forall m pw nm n,
    N.of_nat n < sqliteIntOverflow ->
    map (fun e => (g_idx e, g_addr e)) (gen_trace (create m pw nm) (restore_ops pw n)) =
    map (fun i => (i, addr (derive m i))) (seqN 1 n).
  Proof.
    intros m pw nm n Hn. unfold restore_ops. cbn [Wallet.gen_trace Wallet.step].
    assert (Hok : slow_ok (create m pw nm) pw = true).
    { unfold Wallet.slow_ok, Wallet.create. cbn [pwh]. apply H_eqb_spec. reflexivity. }
    rewrite Hok.
    apply (generate_dense n (set_hpw (create m pw nm) (Some (kdff pw))) 0); auto.
  Qed.

  Theorem restore_regenerates : forall m pw nm ops e pw' nm' n,
    In e (gen_trace (create m pw nm) ops) ->
    g_idx e <= N.of_nat n -> N.of_nat n < sqliteIntOverflow ->
    1 <= g_idx e <= maxidx (run (create m pw nm) ops) /\
    nth_error (map g_addr (gen_trace (create m pw' nm') (restore_ops pw' n)))
              (N.to_nat (g_idx e) - 1) = Some (g_addr e).
  Proof.
    clear kdff_inj F_eqb_spec.
    intros m pw nm ops e pw' nm' n Hin Hle Hn.
    destruct (generated_strictly_increasing m pw nm ops) as [_ Hall].
    rewrite Forall_forall in Hall. destruct (Hall e Hin) as [Hrange Ha].
    split; [exact Hrange|].
    pose proof (restore_fresh m pw' nm' n Hn) as Hf.
    apply (f_equal (map snd)) in Hf. rewrite !map_map in Hf. cbn [snd] in Hf.
    change (map g_addr (gen_trace (create m pw' nm') (restore_ops pw' n)))
      with (map (fun x => g_addr x) (gen_trace (create m pw' nm') (restore_ops pw' n))).
    rewrite Hf, Ha.
    rewrite nth_error_map, seqN_nth by lia.
    cbn [option_map]. do 3 f_equal. lia.
  Qed.

  Theorem wrong_password_fails : forall m pw0 nm ops o pw,
    op_pw o = Some pw -> kdf pw <> kdf pw0 ->
    fst (step (run (create m pw0 nm) ops) o) = run (create m pw0 nm) ops /\
    is_err (snd (step (run (create m pw0 nm) ops) o)) = true.
  Proof.
    intros m pw0 nm ops o pw Hop Hne.
    apply (wrong_password_step _ o pw); auto.
    - apply run_inv. apply create_inv.
    - destruct (run_frame ops (create m pw0 nm)) as [_ ->]. exact Hne.
  Qed.

  Theorem export_right_password_reachable : forall m pw0 nm ops a pw,
    let s := run (create m pw0 nm) ops in
    inited s = true -> In a (addrs s) -> pw_ok s pw = true ->
    exists k, step s (OExport a pw) = (s, RKey k) /\ addr k = a.
  Proof.
    intros m pw0 nm ops a pw s. apply export_right_password.
    apply run_inv. apply create_inv.
  Qed.

  Theorem fuel_is_enough : forall m pw0 nm ops o,
    snd (step (run (create m pw0 nm) ops) o) <> RErr EOutOfFuel.
  Proof. intros. apply never_out_of_fuel. apply run_inv. apply create_inv. Qed.
End WalletProofs.
