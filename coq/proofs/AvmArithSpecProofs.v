(* C32 proofs, part 3: the model meets the specification table of model/AvmArithSpec.v for
   every opcode and all operands; [meets] decides [sat]; soundness of [check]. *)
From Coq Require Import NArith ZArith List Bool Lia ZifyN ZifyNat ZifyBool.
From Verif.lib Require Import Term.
From Verif.model Require Import AvmArith AvmArithSpec.
From Verif.proofs Require Import AvmArithUint AvmArithBytes.
Import ListNotations.
Open Scope N_scope.

(* ---- the executable bounded power of the specification is the real power ---- *)
Lemma pow_below_spec : forall fuel a acc cap, 2 <= a -> 1 <= acc -> acc < cap ->
  pow_below fuel a acc cap =
  if acc * a ^ N.of_nat fuel <? cap then Some (acc * a ^ N.of_nat fuel) else None.
Proof.
  induction fuel as [|f IH]; intros a acc cap Ha Hacc Hcap.
  - cbn [pow_below]. change (N.of_nat 0) with 0. rewrite N.pow_0_r, N.mul_1_r.
    destruct (N.ltb_spec acc cap); [reflexivity | lia].
  - cbn [pow_below]. rewrite Nat2N.inj_succ, N.pow_succ_r'.
    pose proof (pow_ge_1 a (N.of_nat f)) as Hp.
    destruct (N.leb_spec cap (acc * a)) as [H|H].
    + destruct (N.ltb_spec (acc * (a * a ^ N.of_nat f)) cap); [nia | reflexivity].
    + rewrite IH by nia. rewrite !N.mul_assoc. reflexivity.
Qed.

Lemma pow_capped_spec : forall bits a e, 0 < bits ->
  pow_capped bits a e = if a ^ e <? 2 ^ bits then Some (a ^ e) else None.
Proof.
  intros bits a e Hb. unfold pow_capped.
  assert (H2 : 2 <= 2 ^ bits).
  { change 2 with (2 ^ 1) at 1. apply N.pow_le_mono_r; lia. }
  destruct (N.eqb_spec a 0) as [->|Ha0].
  - destruct (N.eqb_spec e 0) as [->|He0].
    + rewrite N.pow_0_r. destruct (N.ltb_spec 1 (2 ^ bits)); [reflexivity | lia].
    + rewrite N.pow_0_l by assumption. destruct (N.ltb_spec 0 (2 ^ bits)); [reflexivity | lia].
  - destruct (N.eqb_spec a 1) as [->|Ha1].
    + rewrite N.pow_1_l. destruct (N.ltb_spec 1 (2 ^ bits)); [reflexivity | lia].
    + destruct (N.leb_spec bits e) as [H|H].
      * assert (2 ^ bits <= a ^ e).
        { transitivity (2 ^ e); [apply N.pow_le_mono_r; lia | apply N.pow_le_mono_l; lia]. }
        destruct (N.ltb_spec (a ^ e) (2 ^ bits)); [lia | reflexivity].
      * rewrite pow_below_spec by lia. rewrite N2Nat.id, N.mul_1_l. reflexivity.
Qed.

(* ---- meets decides sat ---- *)
Lemma ints_match_iff : forall st l, ints_match st l = true <-> st = map U l.
Proof.
  induction st as [|v st IH]; intros [|b l]; cbn [ints_match map]; split; intros H;
    try discriminate; try reflexivity.
  - destruct v; discriminate.
  - destruct v as [a|a]; [|discriminate].
    apply andb_true_iff in H as [H1 H2]. apply N.eqb_eq in H1. apply IH in H2. subst. reflexivity.
  - injection H as -> ->. rewrite N.eqb_refl. cbn [andb]. apply IH. reflexivity.
Qed.

Theorem meets_sat : forall e r, meets e r = true <-> sat e r.
Proof.
  intros e r. destruct e as [|l|n|k n|l']; cbn [sat].
  - destruct r; cbn [meets]; split; intros H; try discriminate; reflexivity.
  - destruct r as [st|]; cbn [meets].
    + rewrite ints_match_iff. split; [intros ->; reflexivity | intros H; injection H as ->; reflexivity].
    + split; intros H; discriminate.
  - split.
    + intros H. destruct r as [[|[a|l] [|? ?]]|]; cbn [meets] in H; try discriminate.
      apply andb_true_iff in H as [H H3]. apply andb_true_iff in H as [H1 H2].
      exists l. split; [reflexivity|]. split; [apply N.eqb_eq; assumption|].
      split; [apply bytes_ok_wf; assumption|].
      apply negb_true_iff, N.eqb_neq in H3. assumption.
    + intros (l & -> & Hv & Hw & Hh). cbn [meets].
      apply N.eqb_eq in Hv. apply bytes_ok_wf in Hw. apply N.eqb_neq in Hh.
      rewrite Hv, Hw, Hh. reflexivity.
  - split.
    + intros H. destruct r as [[|[a|l] [|? ?]]|]; cbn [meets] in H; try discriminate.
      apply andb_true_iff in H as [H H3]. apply andb_true_iff in H as [H1 H2].
      exists l. split; [reflexivity|]. split; [apply N.eqb_eq; assumption|].
      split; [apply bytes_ok_wf; assumption|]. apply Nat.eqb_eq. assumption.
    + intros (l & -> & Hv & Hw & Hh). cbn [meets].
      apply N.eqb_eq in Hv. apply bytes_ok_wf in Hw. apply Nat.eqb_eq in Hh.
      rewrite Hv, Hw, Hh. reflexivity.
  - split.
    + intros H. destruct r as [[|[a|l] [|? ?]]|]; cbn [meets] in H; try discriminate.
      apply list_N_eqb_iff in H. subst. reflexivity.
    + intros ->. cbn [meets]. apply list_N_eqb_iff. reflexivity.
Qed.

(* ---- operand well-formedness ---- *)
Definition wf_arg (v : sv) : Prop :=
  match v with U n => n < W | B l => bytes_wf l /\ blen l <= 4096 end.

Lemma wf_sv_arg : forall v, wf_sv v = true <-> wf_arg v.
Proof.
  intros [n|l]; cbn [wf_sv wf_arg].
  - apply N.ltb_lt.
  - rewrite andb_true_iff, bytes_ok_wf, N.leb_le. reflexivity.
Qed.

(* ---- byte-result helpers ---- *)
Lemma sat_min : forall v, sat (XBmin v) (Ok [B (bigbytes v)]).
Proof.
  intros v. destruct (bigbytes_min v) as (Hv & Hw & Hh).
  exists (bigbytes v). repeat split; assumption.
Qed.

Lemma sat_guard : forall a b e r, sat e r -> sat (bm_guard a b e) (guard64 a b r).
Proof.
  intros a b e r H. unfold bm_guard, guard64.
  destruct ((64 <? blen a) || (64 <? blen b)); [reflexivity | assumption].
Qed.

Lemma not_v_b2u : forall c, not_v (b2u c) = b2u (negb c).
Proof. intros []; reflexivity. Qed.

Lemma Some_inj : forall (A : Type) (x y : A), Some x = Some y -> x = y.
Proof. intros A x y H. injection H as ->. reflexivity. Qed.

(* ---- the model meets the specification, opcode by opcode ---- *)
Theorem run_sat_spec : forall o args m e,
  Forall wf_arg args -> run o args = Some m -> spec o args = Some e -> sat e m.
Proof.
  intros o args m e Hwf Hrun Hspec.
  destruct o;
    destruct args as [|[a|a] [|[b|b] [|[c|c] [|[d|d] [|? ?]]]]];
    cbv beta iota delta [run spec] in Hrun, Hspec; try discriminate;
    apply Some_inj in Hrun; apply Some_inj in Hspec; subst m e;
    repeat match goal with
           | H : Forall wf_arg (_ :: _) |- _ => inversion H; subst; clear H
           | H : Forall wf_arg [] |- _ => clear H
           | H : wf_arg (U _) |- _ => cbn [wf_arg] in H
           | H : wf_arg (B _) |- _ => cbn [wf_arg] in H; destruct H
           end.
  (* OPlus *)
  - rewrite plus_spec by assumption. destruct (a + b <? W); reflexivity.
  (* OMinus *)
  - rewrite minus_spec by assumption. destruct (b <=? a); reflexivity.
  (* OMul *)
  - rewrite mul_spec by assumption. destruct (a * b <? W); reflexivity.
  (* ODiv, OMod *)
  - rewrite div_spec. destruct (b =? 0); reflexivity.
  - rewrite mod_spec. destruct (b =? 0); reflexivity.
  (* OAddw, OMulw *)
  - rewrite addw_spec. reflexivity.
  - rewrite mulw_spec. reflexivity.
  (* ODivw *)
  - rewrite divw_spec by assumption. destruct (c =? 0); [reflexivity|].
    cbv zeta. destruct ((a * W + b) / c <? W); reflexivity.
  (* ODivModw *)
  - rewrite divmodw_spec by assumption. cbv zeta. destruct (c * W + d =? 0); reflexivity.
  (* OExp *)
  - rewrite exp_spec by assumption. destruct ((a =? 0) && (b =? 0)); [reflexivity|].
    rewrite pow_capped_spec by lia. rewrite <- W_pow. destruct (a ^ b <? W); reflexivity.
  (* OExpw *)
  - rewrite expw_spec by assumption. destruct ((a =? 0) && (b =? 0)); [reflexivity|].
    rewrite pow_capped_spec by lia. destruct (a ^ b <? 2 ^ 128); reflexivity.
  (* OSqrt *)
  - rewrite sqrt_spec by assumption. reflexivity.
  (* OShl, OShr *)
  - rewrite shl_spec. destruct (63 <? b); reflexivity.
  - rewrite shr_spec. destruct (63 <? b); reflexivity.
  (* OBitLen *)
  - rewrite bitlen_u_spec. reflexivity.
  - cbn [opBitLen]. rewrite bitlen_bytes_spec by assumption. reflexivity.
  (* OLt OGt OLe OGe *)
  - destruct (cmp_spec a b) as (-> & _). reflexivity.
  - destruct (cmp_spec a b) as (_ & -> & _). reflexivity.
  - destruct (cmp_spec a b) as (_ & _ & -> & _). reflexivity.
  - destruct (cmp_spec a b) as (_ & _ & _ & ->). reflexivity.
  (* OAnd OOr *)
  - destruct (logic_spec a b) as (-> & _). reflexivity.
  - destruct (logic_spec a b) as (_ & -> & _). reflexivity.
  (* OEq: UU UB BU BB *)
  - reflexivity.
  - reflexivity.
  - reflexivity.
  - reflexivity.
  (* ONeq *)
  - cbn [opNeq opEq]. rewrite not_v_b2u. reflexivity.
  - reflexivity.
  - reflexivity.
  - cbn [opNeq opEq]. rewrite not_v_b2u. reflexivity.
  (* ONot *)
  - reflexivity.
  (* OBitOr OBitAnd OBitXor OBitNot *)
  - reflexivity.
  - reflexivity.
  - reflexivity.
  - rewrite bitnot_spec by assumption. reflexivity.
  (* OItob *)
  - destruct (itob_spec a ltac:(assumption)) as (l & -> & Hv & Hw & Hl).
    exists l. repeat split; assumption.
  (* OBtoi *)
  - rewrite btoi_spec by assumption. destruct (8 <? blen a); reflexivity.
  (* OBPlus OBMinus OBMul OBDiv OBMod *)
  - rewrite bplus_spec. apply sat_guard, sat_min.
  - rewrite bminus_spec. apply sat_guard. destruct (be_val a <? be_val b); [reflexivity | apply sat_min].
  - rewrite bmul_spec. apply sat_guard, sat_min.
  - rewrite bdiv_spec. apply sat_guard. destruct (be_val b =? 0); [reflexivity | apply sat_min].
  - rewrite bmod_spec. apply sat_guard. destruct (be_val b =? 0); [reflexivity | apply sat_min].
  (* OBSqrt *)
  - rewrite bsqrt_spec. destruct (64 <? blen a); [reflexivity | apply sat_min].
  (* OBLt OBGt OBLe OBGe OBEq OBNeq *)
  - destruct (bcmp_spec a b ltac:(assumption) ltac:(assumption)) as (-> & _). apply sat_guard. reflexivity.
  - destruct (bcmp_spec a b ltac:(assumption) ltac:(assumption)) as (_ & -> & _). apply sat_guard. reflexivity.
  - destruct (bcmp_spec a b ltac:(assumption) ltac:(assumption)) as (_ & _ & -> & _). apply sat_guard. reflexivity.
  - destruct (bcmp_spec a b ltac:(assumption) ltac:(assumption)) as (_ & _ & _ & -> & _). apply sat_guard. reflexivity.
  - destruct (bcmp_spec a b ltac:(assumption) ltac:(assumption)) as (_ & _ & _ & _ & -> & _). apply sat_guard. reflexivity.
  - destruct (bcmp_spec a b ltac:(assumption) ltac:(assumption)) as (_ & _ & _ & _ & _ & ->). apply sat_guard. reflexivity.
  (* OBOr OBAnd OBXor *)
  - destruct (bor_spec a b ltac:(assumption) ltac:(assumption)) as (l & -> & Hv & Hw & Hl).
    exists l. repeat split; assumption.
  - destruct (band_spec a b ltac:(assumption) ltac:(assumption)) as (l & -> & Hv & Hw & Hl).
    exists l. repeat split; assumption.
  - destruct (bxor_spec a b ltac:(assumption) ltac:(assumption)) as (l & -> & Hv & Hw & Hl).
    exists l. repeat split; assumption.
  (* OBNot *)
  - destruct (bnot_spec a ltac:(assumption)) as (l & -> & Hv & Hw & Hl).
    exists l. repeat split; assumption.
  (* OGetBit: U, B *)
  - change (sat (if 63 <? b then XErr else XInts [b2u (N.testbit a b)]) (opGetBit (U a) b)). rewrite getbit_u_spec. destruct (63 <? b); reflexivity.
  - match goal with |- sat ?e _ => change (sat e (opGetBit (B a) b)) end. rewrite getbit_b_spec by assumption. destruct (8 * blen a <=? b); reflexivity.
  (* OSetBit: U, B *)
  - match goal with |- sat ?e _ => change (sat e (opSetBit (U a) b c)) end. rewrite setbit_u_spec. destruct (1 <? c); [reflexivity|]. destruct (63 <? b); reflexivity.
  - destruct (N.ltb_spec 1 c) as [G1|G1].
    + rewrite setbit_b_err; [reflexivity|]. apply orb_true_iff. left. apply N.ltb_lt. assumption.
    + destruct (N.leb_spec (8 * blen a) b) as [G2|G2].
      * rewrite setbit_b_err; [reflexivity|]. apply orb_true_iff. right. apply N.leb_le. assumption.
      * destruct (setbit_b_spec a b c ltac:(assumption) G1 G2) as (l & -> & Hv & Hw & Hl).
        exists l. repeat split; assumption.
  (* OGetByte OSetByte *)
  - rewrite getbyte_spec. destruct (blen a <=? b); reflexivity.
  - rewrite setbyte_spec. destruct (255 <? c); [reflexivity|]. destruct (blen a <=? b); reflexivity.
  (* OExt16 OExt32 OExt64 *)
  - assert (E : opExtractNBytes 2 a b = _)
      by (apply (extract_uint_spec 2 a b); try assumption; rewrite ?W_val; lia).
    rewrite E. unfold ext_spec. change (N.of_nat 2) with 2. destruct (blen a <? b + 2); reflexivity.
  - assert (E : opExtractNBytes 4 a b = _)
      by (apply (extract_uint_spec 4 a b); try assumption; rewrite ?W_val; lia).
    rewrite E. unfold ext_spec. change (N.of_nat 4) with 4. destruct (blen a <? b + 4); reflexivity.
  - assert (E : opExtractNBytes 8 a b = _)
      by (apply (extract_uint_spec 8 a b); try assumption; rewrite ?W_val; lia).
    rewrite E. unfold ext_spec. change (N.of_nat 8) with 8. destruct (blen a <? b + 8); reflexivity.
Qed.

Theorem run_spec_defined : forall o args m, run o args = Some m -> exists e, spec o args = Some e.
Proof.
  intros o args m H.
  destruct o; destruct args as [|[a|a] [|[b|b] [|[c|c] [|[d|d] [|? ?]]]]];
    cbv beta iota delta [run] in H; try discriminate; eexists; reflexivity.
Qed.

(* ---- soundness of the executable checker ---- *)
Lemma sv_eqb_eq : forall x y, sv_eqb x y = true <-> x = y.
Proof.
  intros [a|a] [b|b]; cbn [sv_eqb]; split; intros H; try discriminate.
  - apply N.eqb_eq in H. subst. reflexivity.
  - injection H as ->. apply N.eqb_refl.
  - apply list_N_eqb_iff in H. subst. reflexivity.
  - injection H as ->. apply list_N_eqb_iff. reflexivity.
Qed.

Lemma sv_list_eqb_eq : forall x y, list_eqb sv_eqb x y = true <-> x = y.
Proof.
  induction x as [|v x IH]; intros [|w y]; cbn [list_eqb]; split; intros H; try discriminate; try reflexivity.
  - apply andb_true_iff in H as [H1 H2]. apply sv_eqb_eq in H1. apply IH in H2. subst. reflexivity.
  - injection H as -> ->. apply andb_true_iff. split; [apply sv_eqb_eq | apply IH]; reflexivity.
Qed.

Lemma res_eqb_eq : forall x y, res_eqb x y = true <-> x = y.
Proof.
  intros [a|] [b|]; cbn [res_eqb]; split; intros H; try discriminate; try reflexivity.
  - apply sv_list_eqb_eq in H. subst. reflexivity.
  - injection H as ->. apply sv_list_eqb_eq. reflexivity.
Qed.

Lemma forallb_wf : forall args, forallb wf_sv args = true <-> Forall wf_arg args.
Proof.
  intros args. rewrite forallb_forall, Forall_forall.
  split; intros H x Hx; apply wf_sv_arg, H, Hx.
Qed.

(* a verdict "ok" (trivial or not) on a case means: the implementation's observation satisfies
   the specification of that opcode on those operands, and coincides with the model *)
Theorem check_sound : forall name ver mode targs tobs,
  check (TL [TS name; TZ ver; TS mode; TL targs; tobs]) = v_ok \/
  check (TL [TS name; TZ ver; TS mode; TL targs; tobs]) = v_triv ->
  exists o args r e,
    lookup_op name op_table = Some o /\ map_opt sv_of_term targs = Some args /\
    obs_of_term tobs = Some (ORes r) /\ Forall wf_arg args /\
    spec o args = Some e /\ sat e r /\ run o args = Some r.
Proof.
  intros name ver mode targs tobs H. cbv beta iota delta [check] in H.
  destruct (lookup_op name op_table) as [o|]; [|destruct H; discriminate].
  destruct (map_opt sv_of_term targs) as [args|]; [|destruct H; discriminate].
  destruct (obs_of_term tobs) as [ob|]; [|destruct H; discriminate].
  destruct (forallb wf_sv args) eqn:Hwf; cbn [negb] in H; [|destruct H; discriminate].
  destruct (run o args) as [m|] eqn:Hrun; [|destruct H; discriminate].
  destruct (spec o args) as [e|] eqn:Hspec; [|destruct H; discriminate].
  destruct ob as [r|]; [|destruct H; discriminate].
  unfold verdict in H.
  destruct (meets e r) eqn:Hm; cbn [negb] in H; [|destruct H; discriminate].
  destruct (res_eqb r m) eqn:Hr; cbn [negb] in H; [|destruct H; discriminate].
  apply res_eqb_eq in Hr. subst m.
  exists o, args, r, e. repeat split; try reflexivity; try assumption.
  - apply forallb_wf. assumption.
  - apply meets_sat. assumption.
Qed.

(* conversely: an implementation that behaves like the model is never reported *)
Lemma sv_term_roundtrip : forall args, map_opt sv_of_term (map term_of_sv args) = Some args.
Proof.
  induction args as [|v args IH]; [reflexivity|]. cbn [map map_opt]. rewrite IH.
  destruct v as [n|l]; cbn [term_of_sv sv_of_term]; [|reflexivity].
  unfold tn. cbn [sv_of_term]. rewrite of_N_not_neg, N2Z.id. reflexivity.
Qed.

Lemma obs_term_roundtrip : forall m, obs_of_term (term_of_res m) = Some (ORes m).
Proof.
  intros [st|]; [|reflexivity]. cbn [term_of_res obs_of_term].
  rewrite String.eqb_refl. rewrite sv_term_roundtrip. reflexivity.
Qed.

Theorem check_no_false_alarm : forall name o ver mode args m,
  lookup_op name op_table = Some o -> Forall wf_arg args -> run o args = Some m ->
  check (TL [TS name; TZ ver; TS mode; TL (map term_of_sv args); term_of_res m]) = v_ok \/
  check (TL [TS name; TZ ver; TS mode; TL (map term_of_sv args); term_of_res m]) = v_triv.
Proof.
  intros name o ver mode args m Hl Hwf Hrun.
  destruct (run_spec_defined o args m Hrun) as [e Hspec].
  cbv beta iota delta [check]. rewrite Hl, sv_term_roundtrip, obs_term_roundtrip.
  apply forallb_wf in Hwf. rewrite Hwf. cbn [negb]. rewrite Hrun, Hspec.
  pose proof (run_sat_spec o args m e ltac:(apply forallb_wf; assumption) Hrun Hspec) as Hs.
  apply meets_sat in Hs. unfold verdict. rewrite Hs.
  assert (res_eqb m m = true) as -> by (apply res_eqb_eq; reflexivity).
  cbn [negb]. destruct (existsb nontrivial_arg args); [left | right]; reflexivity.
Qed.
