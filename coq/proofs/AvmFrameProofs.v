(* C31: generic theorems about the AVM evaluation frame (coq/model/AvmFrame.v), for EVERY
   dispatch table, program (byte string), version, mode, initial state, and EVERY op-function
   family [opf] that respects the stated budget / stack-effect contracts. *)
From Coq Require Import List NArith ZArith Bool Arith Lia ZifyBool ZifyNat ZifyN.
From Verif.model Require Import AvmTypes AvmFrame.
Import ListNotations.

Ltac dif H :=
  match type of H with
  | (if ?b then _ else _) = _ => let E := fresh "E" in destruct b eqn:E; try discriminate
  | (match ?b with _ => _ end) = _ => let E := fresh "E" in destruct b eqn:E; try discriminate
  end.

Section FrameProofs.
  Variable tbl : N -> N -> opspec * list opspec.
  Variable lsv : N.
  Variable max_depth : nat.
  Variable max_bytes : N.
  Variable W : Type.
  Variable bmax : Z.
  Variable isolate : bool.
  Variable opf : opspec -> list N -> state W -> outcome W.
  Variable v mode : N.
  Variable prog : list N.

  Notation spec_at := (get_op_spec tbl v prog).
  Notation stepf := (step tbl max_depth max_bytes W bmax isolate opf v mode prog).
  Notation rem := (remaining W bmax isolate).

  (* the state handed to the op function: cost already charged *)
  Definition charged (st : state W) (c : Z) : state W :=
    mkSt W (st_pc W st) (st_stack W st) (st_calls W st) (st_cost W st + c)%Z
         (match st_pool W st with Some p => Some (p - c)%Z | None => None end) (st_w W st).

  (* ---- inversion of a successful step *)
  Lemma step_ok_inv : forall st st',
      stepf st = Ok st' ->
      let s := spec_at (st_pc W st) in
      os_hasop s = true /\
      N.land mode (os_modes s) <> 0%N /\
      length (os_args s) <= length (st_stack W st) /\
      exists c stack' n calls' pool' w',
        step_cost s prog (st_pc W st) (st_stack W st) = Some c /\
        (1 <= c)%Z /\ (c <= rem st)%Z /\
        opf s prog (charged st c) = OOk W stack' n calls' pool' w' /\
        length stack' <= max_depth /\
        st' = mkSt W (if Nat.eqb n 0 then st_pc W st + N.to_nat (os_size s) else n)
                   stack' calls' (st_cost W st + c)%Z pool' w' /\
        (os_trusted s = false ->
           (always_exits s = false ->
              Z.of_nat (length stack') - Z.of_nat (length (st_stack W st))
              = Z.of_nat (length (os_rets s)) - Z.of_nat (length (os_args s)))%Z /\
           length (os_rets s) <= length stack' /\
           ret_check max_bytes (always_exits s) (os_rets s)
                     (skipn (length stack' - length (os_rets s)) stack') = Ok tt).
  Proof.
    intros st st' H s. unfold step in H. fold s in H.
    dif H. dif H. dif H. dif H. dif H. dif H. dif H. dif H.
    destruct (opf s prog _) as [|stack' n calls' pool' w'] eqn:Eop; [discriminate|].
    match type of H with (match ?p with Ok _ => _ | Err _ => _ end) = _ => destruct p as [u|e] eqn:Epost; [|discriminate] end.
    dif H. inversion H; subst st'. clear H.
    apply negb_false_iff in E. apply N.eqb_neq in E0. apply Nat.ltb_ge in E1.
    split; [exact E|]. split; [exact E0|]. split; [exact E1|].
    exists z, stack', n, calls', pool', w'.
    split; [reflexivity|]. split; [lia|]. split; [lia|].
    split; [exact Eop|]. split; [apply Nat.ltb_ge in E7; exact E7|]. split; [reflexivity|].
    intro Htr. rewrite Htr in Epost.
    destruct (always_exits s) eqn:Eex.
    - rewrite andb_false_r in Epost.
      destruct (Nat.ltb (length stack') (length (os_rets s))) eqn:El.
      + exfalso. destruct (os_rets s) as [|t r]; [simpl in El; discriminate | discriminate].
      + apply Nat.ltb_ge in El. split; [discriminate|]. split; [exact El|].
        destruct u. exact Epost.
    - rewrite andb_true_r in Epost.
      destruct (negb (Z.of_nat (length stack') - Z.of_nat (length (st_stack W st)) =?
                      Z.of_nat (length (os_rets s)) - Z.of_nat (length (os_args s)))%Z) eqn:Eh; [discriminate|].
      apply negb_false_iff in Eh. apply Z.eqb_eq in Eh.
      destruct (Nat.ltb (length stack') (length (os_rets s))) eqn:El.
      + exfalso. apply Nat.ltb_lt in El. lia.
      + apply Nat.ltb_ge in El. split; [intros _; exact Eh|]. split; [exact El|].
        destruct u. exact Epost.
  Qed.

  (* ---- C34: the frame gates (unknown opcode, mode) *)
  Lemma step_rejects_unknown : forall st,
      os_hasop (spec_at (st_pc W st)) = false -> stepf st = Err EIllegal.
  Proof. intros st H. unfold step. now rewrite H. Qed.

  Lemma step_rejects_mode : forall st,
      os_hasop (spec_at (st_pc W st)) = true ->
      N.land mode (os_modes (spec_at (st_pc W st))) = 0%N -> stepf st = Err EMode.
  Proof. intros st H1 H2. unfold step. rewrite H1, H2. reflexivity. Qed.

  (* ---- C31: budget *)
  (* [grant w]: budget the rest of the world may still add to the pool (inner application
     calls add MaxAppProgramCost each and are limited in number); 0 for LogicSigs *)
  Variable grant : W -> Z.
  Definition mu (st : state W) : Z := (rem st + grant (st_w W st))%Z.

  (* contract of the op functions w.r.t. the budget: whatever an op does to the pooled budget
     (inner evaluations spend from it, inner app calls add to it) keeps it non-negative and is
     paid for by [grant] *)
  Definition op_budget_ok : Prop :=
    forall s st stack' n calls' pool' w',
      opf s prog st = OOk W stack' n calls' pool' w' ->
      (0 <= rem st)%Z ->
      let st' := mkSt W (st_pc W st) stack' calls' (st_cost W st) pool' w' in
      (0 <= rem st')%Z /\ (mu st' <= mu st)%Z /\ (0 <= grant w')%Z.

  Lemma rem_charged : forall st c, rem (charged st c) = (rem st - c)%Z.
  Proof.
    intros st c. unfold remaining, charged. simpl.
    destruct (st_pool W st); [destruct isolate|]; lia.
  Qed.

  Lemma rem_eq : forall a b : state W,
      st_cost W a = st_cost W b -> st_pool W a = st_pool W b -> rem a = rem b.
  Proof. intros a b H1 H2. unfold remaining. now rewrite H1, H2. Qed.

  (* one successful step: the charged cost c >= 1 is added to cx.cost and taken from the
     potential mu, and the remaining budget stays non-negative *)
  Lemma step_mu : forall st st',
      op_budget_ok -> (0 <= rem st)%Z -> stepf st = Ok st' ->
      exists c, (1 <= c)%Z /\ st_cost W st' = (st_cost W st + c)%Z /\ (mu st' <= mu st - c)%Z /\
                (0 <= rem st')%Z /\ (0 <= grant (st_w W st'))%Z.
  Proof.
    intros st st' Hob Hrem H.
    destruct (step_ok_inv _ _ H) as (_ & _ & _ & c & stack' & n & calls' & pool' & w' & _ & Hc1 & Hc2 & Hop & _ & Hst & _).
    pose proof (Hob _ _ _ _ _ _ _ Hop) as Hb.
    pose proof (rem_charged st c) as Hq.
    specialize (Hb ltac:(lia)). cbv zeta in Hb. destruct Hb as (Hr & Hm & Hg).
    exists c. split; [exact Hc1|]. subst st'. simpl. split; [reflexivity|].
    set (sa := mkSt W (st_pc W (charged st c)) stack' calls' (st_cost W (charged st c)) pool' w') in *.
    set (sb := mkSt W (if Nat.eqb n 0 then st_pc W st + N.to_nat (os_size (spec_at (st_pc W st))) else n)
                    stack' calls' (st_cost W st + c)%Z pool' w').
    assert (rem sb = rem sa) as Hab by (apply rem_eq; reflexivity).
    assert (mu sb = mu sa) as Hmab by (unfold mu; rewrite Hab; reflexivity).
    assert (mu (charged st c) = mu st - c)%Z as Hmc by (unfold mu; rewrite Hq; unfold charged; simpl; lia).
    repeat split; [lia | lia | exact Hg].
  Qed.

  Theorem step_progress : forall st st',
      op_budget_ok -> (0 <= rem st)%Z ->
      stepf st = Ok st' ->
      (0 <= rem st')%Z /\ (mu st' <= mu st - 1)%Z /\ (st_cost W st + 1 <= st_cost W st')%Z /\
      (0 <= grant (st_w W st'))%Z.
  Proof.
    intros st st' Hob Hrem H.
    destruct (step_mu _ _ Hob Hrem H) as (c & H1 & H2 & H3 & H4 & H5).
    repeat split; lia.
  Qed.

  (* reachable states of the evaluation loop *)
  Inductive reach : state W -> state W -> Prop :=
  | reach_refl : forall st, reach st st
  | reach_step : forall st st1 st2, st_pc W st < length prog -> stepf st = Ok st1 -> reach st1 st2 -> reach st st2.

  (* never exceeds the budget: the remaining budget stays non-negative in every reachable state;
     without pooling this is cost <= LogicSigMaxCost / MaxAppProgramCost *)
  Theorem cost_never_exceeds_budget : forall st st',
      op_budget_ok -> (0 <= rem st)%Z -> reach st st' ->
      (0 <= rem st')%Z /\ (st_cost W st <= st_cost W st')%Z.
  Proof.
    intros st st' Hob Hrem Hr. induction Hr as [st|st st1 st2 Hpc Hs Hr IH].
    - split; [exact Hrem | lia].
    - destruct (step_progress _ _ Hob Hrem Hs) as (H1 & _ & H3 & _).
      destruct (IH H1) as [H4 H5]. split; [exact H4 | lia].
  Qed.

  Corollary cost_le_max_unpooled : forall st st',
      op_budget_ok -> st_pool W st = None -> (st_cost W st <= bmax)%Z -> reach st st' ->
      st_pool W st' = None \/ True -> (0 <= rem st')%Z.
  Proof.
    intros st st' Hob Hp Hc Hr _.
    apply (cost_never_exceeds_budget st st' Hob); [|exact Hr].
    unfold remaining. rewrite Hp. lia.
  Qed.

  (* termination within the budget: the loop never runs out of fuel when fuel > mu *)
  Theorem eval_terminates : forall fuel st,
      op_budget_ok -> (0 <= rem st)%Z -> (0 <= grant (st_w W st))%Z ->
      (mu st < Z.of_nat fuel)%Z ->
      fst (eval_loop tbl max_depth max_bytes W bmax isolate opf fuel v mode prog st) <> VOutOfFuel.
  Proof.
    induction fuel as [|fuel IH]; intros st Hob Hrem Hg Hf.
    - unfold mu in Hf. lia.
    - simpl. destruct (Nat.leb (length prog) (st_pc W st)).
      + destruct (st_stack W st) as [|[u|l] [|y r]]; simpl; try discriminate.
        destruct (N.eqb u 0); discriminate.
      + destruct (stepf st) as [st'|e] eqn:Hs; [|simpl; discriminate].
        destruct (step_progress _ _ Hob Hrem Hs) as (H1 & H2 & _ & H4).
        apply IH; auto. lia.
  Qed.

  (* the cost accumulated over any run is bounded by the potential consumed, so the number of
     executed instructions (each costs >= 1) is bounded by the budget *)
  Theorem steps_bounded : forall st st',
      op_budget_ok -> (0 <= rem st)%Z -> (0 <= grant (st_w W st))%Z -> reach st st' ->
      (st_cost W st' - st_cost W st <= mu st - mu st')%Z /\ (0 <= mu st')%Z.
  Proof.
    intros st st' Hob Hrem Hg Hr. induction Hr as [st|st st1 st2 Hpc Hs Hr IH].
    - unfold mu. split; lia.
    - destruct (step_mu _ _ Hob Hrem Hs) as (c & H1 & H2 & H3 & H4 & H5).
      destruct (IH H4 H5) as [H6 H7]. split; [lia | exact H7].
  Qed.

  (* ---- C31: stack depth *)
  Theorem stack_bounded : forall st st', stepf st = Ok st' -> length (st_stack W st') <= max_depth.
  Proof.
    intros st st' H.
    destruct (step_ok_inv _ _ H) as (_ & _ & _ & c & stack' & n & calls' & pool' & w' & _ & _ & _ & _ & Hd & Hst & _).
    subst st'. exact Hd.
  Qed.

  Theorem stack_bounded_reach : forall st st',
      length (st_stack W st) <= max_depth -> reach st st' -> length (st_stack W st') <= max_depth.
  Proof.
    intros st st' H0 Hr. induction Hr as [st|st st1 st2 Hpc Hs Hr IH]; [exact H0|].
    apply IH. eapply stack_bounded; eauto.
  Qed.

  (* ---- C31: byte-string length *)
  Definition sv_ok (x : sval) : Prop := match x with SU _ => True | SB l => (l <= max_bytes)%N end.

  Lemma ret_check_ok : forall rets xs,
      length rets = length xs ->
      ret_check max_bytes false rets xs = Ok tt -> Forall sv_ok xs.
  Proof.
    induction rets as [|t rets IH]; intros xs Hl H.
    - destruct xs; [constructor | discriminate].
    - destruct xs as [|x xs]; [discriminate|]. simpl in H.
      destruct (negb (op_compat t (sv_type x))); [discriminate|].
      destruct (N.eqb (sv_type x) avmBytes && (Z.of_N max_bytes <? sv_blen x)%Z) eqn:E; [discriminate|].
      constructor.
      + destruct x as [u|l]; simpl; [exact I|]. simpl in E. unfold avmBytes in E. simpl in E. lia.
      + apply IH; [simpl in Hl; lia | exact H].
  Qed.

  (* stack-effect contract of the op functions: an op that is not `trusted` may only leave below
     its declared return values items that were on the stack before (ops that always exit declare
     no checked return values); a `trusted` op (its stack effect is not checked by step) must not
     create over-long values itself *)
  Definition op_effect_ok : Prop :=
    forall s st stack' n calls' pool' w',
      opf s prog st = OOk W stack' n calls' pool' w' ->
      if os_trusted s then Forall sv_ok (st_stack W st) -> Forall sv_ok stack'
      else forall x,
          In x (firstn (length stack' - (if always_exits s then 0 else length (os_rets s))) stack') ->
          In x (st_stack W st).

  Theorem bytes_bounded : forall st st',
      op_effect_ok -> Forall sv_ok (st_stack W st) -> stepf st = Ok st' -> Forall sv_ok (st_stack W st').
  Proof.
    clear grant. intros st st' He H0 H.
    destruct (step_ok_inv _ _ H) as (_ & _ & _ & c & stack' & n & calls' & pool' & w' & _ & _ & _ & Hop & _ & Hst & Hpost).
    subst st'. simpl. specialize (He _ _ _ _ _ _ _ Hop).
    destruct (os_trusted (spec_at (st_pc W st))) eqn:Etr.
    - apply He. exact H0.
    - destruct (Hpost eq_refl) as (Hh & Hl & Hrc).
      destruct (always_exits (spec_at (st_pc W st))) eqn:Eex.
      + rewrite Nat.sub_0_r, firstn_all in He.
        apply Forall_forall. intros x Hx. rewrite Forall_forall in H0. apply H0. now apply He.
      + rewrite <- (firstn_skipn (length stack' - length (os_rets (spec_at (st_pc W st)))) stack').
        apply Forall_app. split.
        * apply Forall_forall. intros x Hx. rewrite Forall_forall in H0. apply H0. now apply He.
        * apply ret_check_ok with (rets := os_rets (spec_at (st_pc W st))); [|exact Hrc].
          rewrite skipn_length. lia.
  Qed.

  Theorem bytes_bounded_reach : forall st st',
      op_effect_ok -> Forall sv_ok (st_stack W st) -> reach st st' -> Forall sv_ok (st_stack W st').
  Proof.
    clear grant. intros st st' He H0 Hr. induction Hr as [st|st st1 st2 Hpc Hs Hr IH]; [exact H0|].
    apply IH. eapply bytes_bounded; eauto.
  Qed.

  (* ---- C31: result trichotomy / totality of the loop *)
  Theorem result_trichotomy : forall fuel st,
      op_budget_ok -> (0 <= rem st)%Z -> (0 <= grant (st_w W st))%Z -> (mu st < Z.of_nat fuel)%Z ->
      let r := fst (eval_loop tbl max_depth max_bytes W bmax isolate opf fuel v mode prog st) in
      r = VAccept \/ r = VReject \/ exists e, r = VError e.
  Proof.
    intros fuel st Hob Hrem Hg Hf r.
    pose proof (eval_terminates fuel st Hob Hrem Hg Hf) as Hne. fold r in Hne.
    destruct r; [now left | right; now left | right; right; eauto | congruence].
  Qed.

  (* the loop's final state is reachable, so all of the above hold of it *)
  Lemma eval_loop_reach : forall fuel st,
      reach st (snd (eval_loop tbl max_depth max_bytes W bmax isolate opf fuel v mode prog st)).
  Proof.
    induction fuel as [|fuel IH]; intro st; simpl.
    - destruct (Nat.leb (length prog) (st_pc W st)).
      + destruct (st_stack W st) as [|[u|l] [|y r]]; simpl; constructor.
      + simpl. constructor.
    - destruct (Nat.leb (length prog) (st_pc W st)) eqn:E.
      + destruct (st_stack W st) as [|[u|l] [|y r]]; simpl; constructor.
      + destruct (stepf st) as [st'|e] eqn:Hs; [|simpl; constructor].
        apply Nat.leb_gt in E. eapply reach_step; eauto.
  Qed.

End FrameProofs.
