(* C34 / C31: (a) a theorem about the model of opcodes.go:init() for EVERY OpSpecs list,
   (b) the finite obligations on the regenerated tables, decided by vm_compute and lifted to
   statements about every program with forallb_forall. *)
From Coq Require Import List NArith ZArith String Bool Arith Lia.
From Verif.model Require Import AvmTypes AvmFrame AvmTable.
From Verif.gen Require Import AvmTables.
From Verif.proofs Require Import AvmFrameProofs AvmAgreeProofs.
Import ListNotations.

(* ------------------------------------------------------------------ (a) init() for every OpSpecs list *)
Section Init.
  Variable specs : list opspec.

  (* where a table entry of version v comes from *)
  Definition origin (v : N) (s : opspec) : Prop :=
    s = zero_spec \/
    (os_version s <= v)%N /\
    (if N.eqb v 0 then exists s1, In s1 specs /\ os_version s1 = 1%N /\ s = with_version s1 0
     else In s specs).

  Definition tabQ (Q : opspec -> Prop) (t : tab) : Prop :=
    forall op e subs, In (op, (e, subs)) t -> Q e /\ Forall Q subs.

  Lemma tab_get_Q : forall (Q : opspec -> Prop) t op, Q zero_spec -> tabQ Q t ->
      Q (fst (tab_get t op)) /\ Forall Q (snd (tab_get t op)).
  Proof.
    intros Q t op Hz Ht. unfold tab_get.
    destruct (find (fun e : N * (opspec * list opspec) => N.eqb (fst e) op) t) as [[o [e subs]]|] eqn:E.
    - apply find_some in E. destruct E as [Hin _]. exact (Ht _ _ _ Hin).
    - simpl. split; [exact Hz | constructor].
  Qed.

  Lemma set_sub_Q : forall (Q : opspec -> Prop) x, Q zero_spec -> Q x ->
      forall n subs, Forall Q subs -> Forall Q (set_sub subs n x).
  Proof.
    intros Q x Hz Hx. induction n as [|n IH]; intros subs Hs; destruct subs as [|y r]; simpl.
    - constructor; [exact Hx | constructor].
    - inversion Hs; subst. constructor; assumption.
    - constructor; [exact Hz | apply IH; constructor].
    - inversion Hs; subst. constructor; [assumption | apply IH; assumption].
  Qed.

  Lemma add_spec_Q : forall (Q : opspec -> Prop) t oi, Q zero_spec -> Q oi -> tabQ Q t -> tabQ Q (add_spec t oi).
  Proof.
    intros Q t oi Hz Hoi Ht. unfold add_spec.
    destruct (N.eqb (os_sub oi) 0).
    - intros op e subs [Hin|Hin]; [inversion Hin; subst; split; [exact Hoi | constructor] | exact (Ht _ _ _ Hin)].
    - destruct (tab_get t (os_opcode oi)) as [p subs0] eqn:Eg.
      pose proof (tab_get_Q Q t (os_opcode oi) Hz Ht) as [Hp Hs]. rewrite Eg in Hp, Hs. simpl in Hp, Hs.
      intros op e subs [Hin|Hin]; [|exact (Ht _ _ _ Hin)].
      inversion Hin; subst. split; [exact Hp | apply set_sub_Q; assumption].
  Qed.

  Lemma fold_Q : forall (Q : opspec -> Prop) (sel : opspec -> bool) (f : opspec -> opspec) l t,
      Q zero_spec -> (forall oi, In oi l -> sel oi = true -> Q (f oi)) -> tabQ Q t ->
      tabQ Q (fold_left (fun t oi => if sel oi then add_spec t (f oi) else t) l t).
  Proof.
    intros Q sel f. induction l as [|oi l IH]; intros t Hz Hl Ht; simpl; [exact Ht|].
    apply IH; [exact Hz | intros; apply Hl; [now right | assumption] |].
    destruct (sel oi) eqn:E; [|exact Ht].
    apply add_spec_Q; [exact Hz | apply Hl; [now left | exact E] | exact Ht].
  Qed.

  Lemma tabQ_impl : forall (P Q : opspec -> Prop) t, (forall s, P s -> Q s) -> tabQ P t -> tabQ Q t.
  Proof.
    intros P Q t H Ht op e subs Hin. destruct (Ht _ _ _ Hin) as [H1 H2].
    split; [now apply H | eapply Forall_impl; eauto].
  Qed.

  Definition orig1 (k : N) (s : opspec) : Prop :=
    s = zero_spec \/ (In s specs /\ (os_version s <= k)%N).

  Lemma upto_Q : forall k, tabQ (orig1 (N.of_nat k)) (upto specs k).
  Proof.
    induction k as [|k IH].
    - intros op e subs [].
    - simpl upto. unfold pass.
      apply (fold_Q (orig1 (N.of_nat (S k))) (fun oi => N.eqb (os_version oi) (N.of_nat (S k))) (fun oi => oi)).
      + now left.
      + intros oi Hin Hsel. apply N.eqb_eq in Hsel. right. split; [exact Hin | lia].
      + eapply tabQ_impl; [|exact IH].
        intros s [Hs|[Hs Hv]]; [now left|]. right. split; [exact Hs | lia].
  Qed.

  Definition orig0 (s : opspec) : Prop :=
    s = zero_spec \/ exists s1, In s1 specs /\ os_version s1 = 1%N /\ s = with_version s1 0.

  Lemma pass0_Q : tabQ orig0 (pass0 specs).
  Proof.
    unfold pass0.
    apply (fold_Q orig0 (fun oi => N.eqb (os_version oi) 1) (fun oi => with_version oi 0)).
    - now left.
    - intros oi Hin Hsel. apply N.eqb_eq in Hsel. right. exists oi. auto.
    - intros op e subs [].
  Qed.

  (* Every entry of the table init() builds for version v -- the spec stored at an opcode byte
     and each of its sub-opcode specs -- is the zero OpSpec or an OpSpecs entry introduced at or
     before v (for v = 0: a version-1 entry relabelled 0).  For every OpSpecs list. *)
  Theorem init_respects_version : forall v op,
      origin v (fst (tab_get (init_table specs v) op)) /\
      Forall (origin v) (snd (tab_get (init_table specs v) op)).
  Proof.
    intros v op. unfold init_table. destruct (N.eqb v 0) eqn:E0.
    - assert (forall s, orig0 s -> origin v s) as Himp.
      { intros s [Hs|(s1 & H1 & H2 & H3)]; [now left|]. right. rewrite E0. split.
        - subst s. simpl. lia.
        - exists s1. auto. }
      destruct (tab_get_Q orig0 (pass0 specs) op (or_introl eq_refl) pass0_Q) as [H1 H2].
      split; [now apply Himp | eapply Forall_impl; eauto].
    - assert (forall s, orig1 (N.of_nat (N.to_nat v)) s -> origin v s) as Himp.
      { intros s [Hs|[Hs Hv]]; [now left|]. right. rewrite E0. split; [lia | exact Hs]. }
      destruct (tab_get_Q _ (upto specs (N.to_nat v)) op (or_introl eq_refl) (upto_Q (N.to_nat v))) as [H1 H2].
      split; [now apply Himp | eapply Forall_impl; eauto].
  Qed.
End Init.

(* ------------------------------------------------------------------ (b) the regenerated tables *)
Lemma list_eqb_eq : forall A (eqb : A -> A -> bool), (forall x y, eqb x y = true -> x = y) ->
    forall l1 l2, list_eqb eqb l1 l2 = true -> l1 = l2.
Proof.
  intros A eqb H. induction l1 as [|x l1 IH]; destruct l2 as [|y l2]; simpl; intro E; try discriminate; auto.
  apply andb_true_iff in E. destruct E as [E1 E2]. f_equal; auto.
Qed.

Lemma lc_eqb_eq : forall a b, lc_eqb a b = true -> a = b.
Proof.
  intros [a1 a2 a3 a4] [b1 b2 b3 b4] H. unfold lc_eqb in H. simpl in H.
  repeat (apply andb_true_iff in H; destruct H as [H ?]).
  apply Z.eqb_eq in H, H0, H1, H2. now subst.
Qed.

Lemma imm_eqb_eq : forall a b, imm_eqb a b = true -> a = b.
Proof.
  intros [a1 a2 a3] [b1 b2 b3] H. unfold imm_eqb in H. simpl in H.
  repeat (apply andb_true_iff in H; destruct H as [H ?]).
  apply N.eqb_eq in H, H1. apply (list_eqb_eq _ _ lc_eqb_eq) in H0. now subst.
Qed.

Lemma ck_N_inj : forall a b, ck_N a = ck_N b -> a = b.
Proof. intros a b H; destruct a; destruct b; simpl in H; try reflexivity; discriminate. Qed.
Lemma ok_N_inj : forall a b, ok_N a = ok_N b -> a = b.
Proof. intros a b H; destruct a; destruct b; simpl in H; try reflexivity; discriminate. Qed.

Lemma spec_eqb_eq : forall a b, spec_eqb a b = true -> a = b.
Proof.
  intros [a1 a2 a3 a4 a5 a6 a7 a8 a9 a10 a11 a12 a13 a14] [b1 b2 b3 b4 b5 b6 b7 b8 b9 b10 b11 b12 b13 b14] H.
  unfold spec_eqb in H. simpl in H.
  repeat (apply andb_true_iff in H; destruct H as [H ?]).
  apply N.eqb_eq in H, H12, H10, H9, H8.
  apply String.eqb_eq in H11.
  apply (list_eqb_eq _ _ (fun x y => proj1 (N.eqb_eq x y))) in H7, H6.
  apply Bool.eqb_prop in H5, H0.
  apply lc_eqb_eq in H4. apply (list_eqb_eq _ _ imm_eqb_eq) in H3.
  apply N.eqb_eq in H2, H1. apply ck_N_inj in H2. apply ok_N_inj in H1.
  now subst.
Qed.

Lemma entry_eqb_eq : forall a b, entry_eqb a b = true -> a = b.
Proof.
  intros [a1 a2] [b1 b2] H. unfold entry_eqb in H. simpl in H.
  apply andb_true_iff in H. destruct H as [H1 H2].
  apply spec_eqb_eq in H1. apply (list_eqb_eq _ _ spec_eqb_eq) in H2. now subst.
Qed.

Lemma tables_match_init_true :
  forallb (fun v => forallb (tables_match_at v) all_bytes) all_versions = true.
Proof. vm_compute. reflexivity. Qed.

Lemma in_all_bytes : forall b, (b < 256)%N -> In b all_bytes.
Proof.
  intros b H. unfold all_bytes. rewrite <- (N2Nat.id b). apply in_map. apply in_seq. lia.
Qed.
Lemma in_all_versions : forall v, (v <= logic_version)%N -> In v all_versions.
Proof.
  intros v H. unfold all_versions. rewrite <- (N2Nat.id v). apply in_map. apply in_seq. lia.
Qed.

(* the dispatch table of the running code is the one the model of init() builds from OpSpecs *)
Lemma gen_tbl_is_init : forall v op, (v <= logic_version)%N -> (op < 256)%N ->
    gen_tbl v op = tab_get (init_table src_specs v) op.
Proof.
  intros v op Hv Hop.
  pose proof (proj1 (forallb_forall _ _) tables_match_init_true v (in_all_versions v Hv)) as H1.
  pose proof (proj1 (forallb_forall _ _) H1 op (in_all_bytes op Hop)) as H2.
  apply entry_eqb_eq. exact H2.
Qed.

Lemma get_op_spec_cases : forall tbl v prog pc,
    get_op_spec tbl v prog pc = fst (tbl v (byte_at prog pc)) \/
    (In (get_op_spec tbl v prog pc) (snd (tbl v (byte_at prog pc))) /\ os_hasop (get_op_spec tbl v prog pc) = true).
Proof.
  intros tbl v prog pc. unfold get_op_spec.
  destruct (tbl v (byte_at prog pc)) as [spec subs]. simpl.
  destruct subs as [|s0 r]; [now left|].
  destruct (Nat.ltb (S pc) (List.length prog)); [|now left].
  destruct (nth_error (s0 :: r) (N.to_nat (byte_at prog (S pc)))) as [s|] eqn:E; [|now left].
  destruct (os_hasop s) eqn:Eh; [|now left].
  right. split; [eapply nth_error_In; eauto | exact Eh].
Qed.

(* C34: whatever GetOpSpec returns for a version-v program -- an opcode or a sub-opcode -- was
   introduced at or before v and is an entry of OpSpecs *)
Theorem dispatch_respects_version_gen : forall v prog pc,
    (v <= logic_version)%N -> (byte_at prog pc < 256)%N ->
    let s := get_op_spec gen_tbl v prog pc in
    os_hasop s = true ->
    (os_version s <= v)%N /\
    (if N.eqb v 0 then exists s1, In s1 src_specs /\ os_version s1 = 1%N /\ s = with_version s1 0
     else In s src_specs).
Proof.
  intros v prog pc Hv Hb s Hop.
  destruct (init_respects_version src_specs v (byte_at prog pc)) as [H1 H2].
  rewrite <- (gen_tbl_is_init v _ Hv Hb) in H1, H2.
  assert (origin src_specs v s) as Ho.
  { destruct (get_op_spec_cases gen_tbl v prog pc) as [Hc|[Hc _]]; fold s in Hc.
    - now rewrite Hc.
    - rewrite Forall_forall in H2. now apply H2. }
  destruct Ho as [Hz|Ho]; [rewrite Hz in Hop; discriminate | exact Ho].
Qed.

(* ---- everything GetOpSpec can return is a pool element *)
Lemma pool_get_in : forall i, pool_get i = zero_spec \/ In (pool_get i) spec_pool.
Proof.
  intro i. unfold pool_get. destruct (nth_in_or_default (N.to_nat i) spec_pool zero_spec); auto.
Qed.

Lemma gen_spec_in_pool : forall v prog pc,
    get_op_spec gen_tbl v prog pc = zero_spec \/ In (get_op_spec gen_tbl v prog pc) spec_pool.
Proof.
  intros v prog pc.
  destruct (get_op_spec_cases gen_tbl v prog pc) as [Hc|[Hc _]]; rewrite Hc || idtac.
  - unfold gen_tbl. destruct (find _ (version_table v)) as [[o [i subs]]|]; simpl; [apply pool_get_in | now left].
  - revert Hc. unfold gen_tbl. destruct (find _ (version_table v)) as [[o [i subs]]|]; simpl; [|intros []].
    intro Hin. apply in_map_iff in Hin. destruct Hin as (j & Hj & _). rewrite <- Hj. apply pool_get_in.
Qed.

Lemma pool_forall : forall (p : opspec -> bool),
    forallb (fun s => implb (os_hasop s) (p s)) spec_pool = true ->
    forall v prog pc, os_hasop (get_op_spec gen_tbl v prog pc) = true -> p (get_op_spec gen_tbl v prog pc) = true.
Proof.
  intros p H v prog pc Hop. rewrite forallb_forall in H.
  destruct (gen_spec_in_pool v prog pc) as [Hz|Hin]; [rewrite Hz in Hop; discriminate|].
  specialize (H _ Hin). rewrite Hop in H. exact H.
Qed.

(* the op-function / check-function pairing the agreement proof needs *)
Lemma kinds_ok_pool : forallb (fun s => implb (os_hasop s) (kinds_ok s)) spec_pool = true.
Proof. vm_compute. reflexivity. Qed.

Lemma gen_kinds_ok : forall v prog pc,
    os_hasop (get_op_spec gen_tbl v prog pc) = true -> kinds_ok (get_op_spec gen_tbl v prog pc) = true.
Proof. exact (pool_forall kinds_ok kinds_ok_pool). Qed.

(* ---- signature mode cannot reach ledger-touching opcodes *)
Lemma sig_excludes_state_true : sig_excludes_state = true.
Proof. vm_compute. reflexivity. Qed.

Lemma gen_sig_excludes : forall v prog pc,
    os_hasop (get_op_spec gen_tbl v prog pc) = true ->
    touches_ledger (os_name (get_op_spec gen_tbl v prog pc)) = true ->
    N.land mode_sig (os_modes (get_op_spec gen_tbl v prog pc)) = 0%N.
Proof.
  intros v prog pc Hop Ht.
  pose proof sig_excludes_state_true as H. unfold sig_excludes_state in H.
  apply andb_true_iff in H. destruct H as [H _]. apply andb_true_iff in H. destruct H as [H _].
  rewrite forallb_forall in H.
  destruct (gen_spec_in_pool v prog pc) as [Hz|Hin]; [rewrite Hz in Hop; discriminate|].
  specialize (H _ Hin). rewrite Hop, Ht in H. simpl in H. apply N.eqb_eq in H.
  rewrite N.land_comm. exact H.
Qed.

(* ---- costs, fields, constants *)
Lemma costs_ok_true : costs_ok = true.
Proof. vm_compute. reflexivity. Qed.
Lemma fields_wf_true : fields_wf = true.
Proof. vm_compute. reflexivity. Qed.
Lemma consts_ok_true : consts_ok = true.
Proof. vm_compute. reflexivity. Qed.

Lemma gen_min_cost : forall v prog pc,
    os_hasop (get_op_spec gen_tbl v prog pc) = true ->
    min_cost_ok (get_op_spec gen_tbl v prog pc) = true /\ cost_safe (get_op_spec gen_tbl v prog pc) = true.
Proof.
  intros v prog pc Hop.
  pose proof (pool_forall (fun s => min_cost_ok s && cost_safe s) costs_ok_true v prog pc Hop) as H.
  now apply andb_true_iff in H.
Qed.

(* ---- independent specifications of the field / opcode tables *)
Lemma field_spec_agrees_true : field_spec_agrees = true.
Proof. vm_compute. reflexivity. Qed.
Lemma langspec_ops_agree_true : langspec_ops_agree = true.
Proof. vm_compute. reflexivity. Qed.
Lemma langspec_fields_agree_true : langspec_fields_agree = true.
Proof. vm_compute. reflexivity. Qed.

Definition field_row_ok (g : fgroup) (fs : fspec) : bool :=
  match spec_lookup (fg_name g) (fs_name fs) with
  | Some (_, _, enc, ver, app_only) =>
      N.eqb enc (fs_field fs) && N.eqb ver (fs_version fs) && N.eqb (fs_modes fs) (if app_only then ModeApp else 3)
  | None => false
  end.

Lemma field_rows_ok : forallb (fun g => forallb (field_row_ok g) (fg_fields g)) field_groups = true.
Proof. vm_compute. reflexivity. Qed.

(* every field of every run-time field group is listed in the frozen specification with the same
   byte encoding and version, and is usable in signature mode iff the specification says so *)
Theorem field_modes_follow_spec : forall g fs,
    In g field_groups -> In fs (fg_fields g) ->
    exists gg nn app_only,
      spec_lookup (fg_name g) (fs_name fs) = Some (gg, nn, fs_field fs, fs_version fs, app_only) /\
      fs_modes fs = (if app_only then ModeApp else 3%N).
Proof.
  intros g fs Hg Hfs.
  pose proof (proj1 (forallb_forall _ _) field_rows_ok g Hg) as H1.
  pose proof (proj1 (forallb_forall _ _) H1 fs Hfs) as H2.
  unfold field_row_ok in H2.
  destruct (spec_lookup (fg_name g) (fs_name fs)) as [[[[[gg nn] enc] ver] ao]|]; [|discriminate].
  apply andb_true_iff in H2. destruct H2 as [H2 H3]. apply andb_true_iff in H2. destruct H2 as [H2 H4].
  apply N.eqb_eq in H2, H3, H4. subst enc ver. exists gg, nn, ao. split; [reflexivity | exact H3].
Qed.
