(* C34 / C31: (a) a theorem about the model of opcodes.go:init() for EVERY OpSpecs list,
   (b) the finite obligations on the regenerated tables, decided by vm_compute and lifted to
   statements about every program with forallb_forall. *)
From Coq Require Import List NArith ZArith String Bool Arith Lia.
From Verif.model Require Import AvmTypes AvmFrame AvmTable.
From Verif.gen Require Import AvmTables.
From Verif.proofs Require Import AvmFrameProofs AvmAgreeProofs.
Import ListNotations.

(* ------------------------------------------------------------------ (a) init() for every OpSpecs list *)
Section Init.
  Variable specs : list opspec.

  (* where a table entry of version v comes from *)
  Definition origin (v : N) (s : opspec) : Prop :=
    s = zero_spec \/
    (os_version s <= v)%N /\
    (if N.eqb v 0 then exists s1, In s1 specs /\ os_version s1 = 1%N /\ s = with_version s1 0
     else In s specs).

  Definition tabQ (Q : opspec -> Prop) (t : tab) : Prop :=
    forall op e subs, In (op, (e, subs)) t -> Q e /\ Forall Q subs.

  Lemma tab_get_Q : forall (Q : opspec -> Prop) t op, Q zero_spec -> tabQ Q t ->
      Q (fst (tab_get t op)) /\ Forall Q (snd (tab_get t op)).
  Proof.
    intros Q t op Hz Ht. unfold tab_get.
    destruct (find (fun e : N * (opspec * list opspec) => N.eqb (fst e) op) t) as [[o [e subs]]|] eqn:E.
    - apply find_some in E. destruct E as [Hin _]. exact (Ht _ _ _ Hin).
    - simpl. split; [exact Hz | constructor].
  Qed.

  Lemma set_sub_Q : forall (Q : opspec -> Prop) x, Q zero_spec -> Q x ->
      forall n subs, Forall Q subs -> Forall Q (set_sub subs n x).
  Proof.
    intros Q x Hz Hx. induction n as [|n IH]; intros subs Hs; destruct subs as [|y r]; simpl.
    - constructor; [exact Hx | constructor].
    - inversion Hs; subst. constructor; assumption.
    - constructor; [exact Hz | apply IH; constructor].
    - inversion Hs; subst. constructor; [assumption | apply IH; assumption].
  Qed.

  Lemma add_spec_Q : forall (Q : opspec -> Prop) t oi, Q zero_spec -> Q oi -> tabQ Q t -> tabQ Q (add_spec t oi).
  Proof.
    intros Q t oi Hz Hoi Ht. unfold add_spec.
    destruct (N.eqb (os_sub oi) 0).
    - intros op e subs [Hin|Hin]; [inversion Hin; subst; split; [exact Hoi | constructor] | exact (Ht _ _ _ Hin)].
    - destruct (tab_get t (os_opcode oi)) as [p subs0] eqn:Eg.
      pose proof (tab_get_Q Q t (os_opcode oi) Hz Ht) as [Hp Hs]. rewrite Eg in Hp, Hs. simpl in Hp, Hs.
      intros op e subs [Hin|Hin]; [|exact (Ht _ _ _ Hin)].
      inversion Hin; subst. split; [exact Hp | apply set_sub_Q; assumption].
  Qed.

  Lemma fold_Q : forall (Q : opspec -> Prop) (sel : opspec -> bool) (f : opspec -> opspec) l t,
      Q zero_spec -> (forall oi, In oi l -> sel oi = true -> Q (f oi)) -> tabQ Q t ->
      tabQ Q (fold_left (fun t oi => if sel oi then add_spec t (f oi) else t) l t).
  Proof.
    intros Q sel f. induction l as [|oi l IH]; intros t Hz Hl Ht; simpl; [exact Ht|].
    apply IH; [exact Hz | intros; apply Hl; [now right | assumption] |].
    destruct (sel oi) eqn:E; [|exact Ht].
    apply add_spec_Q; [exact Hz | apply Hl; [now left | exact E] | exact Ht].
  Qed.

  Lemma tabQ_impl : forall (P Q : opspec -> Prop) t, (forall s, P s -> Q s) -> tabQ P t -> tabQ Q t.
  Proof.
    intros P Q t H Ht op e subs Hin. destruct (Ht _ _ _ Hin) as [H1 H2].
    split; [now apply H | eapply Forall_impl; eauto].
  Qed.

  Definition orig1 (k : N) (s : opspec) : Prop :=
    s = zero_spec \/ (In s specs /\ (os_version s <= k)%N).

  Lemma upto_Q : forall k, tabQ (orig1 (N.of_nat k)) (upto specs k).
  Proof.
    induction k as [|k IH].
    - intros op e subs [].
    - simpl upto. unfold pass.
      apply (fold_Q (orig1 (N.of_nat (S k))) (fun oi => N.eqb (os_version oi) (N.of_nat (S k))) (fun oi => oi)).
      + now left.
      + intros oi Hin Hsel. apply N.eqb_eq in Hsel. right. split; [exact Hin | lia].
      + eapply tabQ_impl; [|exact IH].
        intros s [Hs|[Hs Hv]]; [now left|]. right. split; [exact Hs | lia].
  Qed.

  Definition orig0 (s : opspec) : Prop :=
    s = zero_spec \/ exists s1, In s1 specs /\ os_version s1 = 1%N /\ s = with_version s1 0.

  Lemma pass0_Q : tabQ orig0 (pass0 specs).
  Proof.
    unfold pass0.
    apply (fold_Q orig0 (fun oi => N.eqb (os_version oi) 1) (fun oi => with_version oi 0)).
    - now left.
    - intros oi Hin Hsel. apply N.eqb_eq in Hsel. right. exists oi. auto.
    - intros op e subs [].
  Qed.

  (* Every entry of the table init() builds for version v -- the spec stored at an opcode byte
     and each of its sub-opcode specs -- is the zero OpSpec or an OpSpecs entry introduced at or
     before v (for v = 0: a version-1 entry relabelled 0).  For every OpSpecs list. *)
  Theorem init_respects_version : forall v op,
      origin v (fst (tab_get (init_table specs v) op)) /\
      Forall (origin v) (snd (tab_get (init_table specs v) op)).
  Proof.
    intros v op. unfold init_table. destruct (N.eqb v 0) eqn:E0.
    - assert (forall s, orig0 s -> origin v s) as Himp.
      { intros s [Hs|(s1 & H1 & H2 & H3)]; [now left|]. right. rewrite E0. split.
        - subst s. simpl. lia.
        - exists s1. auto. }
      destruct (tab_get_Q orig0 (pass0 specs) op (or_introl eq_refl) pass0_Q) as [H1 H2].
      split; [now apply Himp | eapply Forall_impl; eauto].
    - assert (forall s, orig1 (N.of_nat (N.to_nat v)) s -> origin v s) as Himp.
      { intros s [Hs|[Hs Hv]]; [now left|]. right. rewrite E0. split; [lia | exact Hs]. }
      destruct (tab_get_Q _ (upto specs (N.to_nat v)) op (or_introl eq_refl) (upto_Q (N.to_nat v))) as [H1 H2].
      split; [now apply Himp | eapply Forall_impl; eauto].
  Qed.
End Init.
