(* C01 layer 1: safety of the abstract BA protocol (model/AbstractBA.v), for every trace:
   any number of nodes, periods, steps, any interleaving, arbitrary Byzantine votes. *)
From Coq Require Import List Arith Bool Lia.
From Verif.model Require Import AbstractBA.
Import ListNotations.

Section Proofs.

Variables node value : Type.
Variable node_eq_dec : forall a b : node, {a = b} + {a <> b}.
Variable value_eq_dec : forall a b : value, {a = b} + {a <> b}.
Variable honest : node -> Prop.
Variable quorum : nat -> nat -> (node -> Prop) -> Prop.

(* Quorum intersection: the sortition facts the safety argument uses (hypotheses, true with
   overwhelming probability when the Byzantine stake is below the bound). *)
Hypothesis QI_same : forall p s Q1 Q2,
  quorum p s Q1 -> quorum p s Q2 -> exists n, honest n /\ Q1 n /\ Q2 n.
Hypothesis QI_cross : forall p p' s Qc Qn,
  p <= p' -> 3 <= s -> quorum p 2 Qc -> quorum p' s Qn -> exists n, honest n /\ Qc n /\ Qn n.

Local Notation vote := (AbstractBA.vote node value).
Local Notation event := (AbstractBA.event node value).
Local Notation trace := (AbstractBA.trace node value).
Local Notation mkVote := (AbstractBA.mkVote node value).
Local Notation Vote := (AbstractBA.Vote node value).
Local Notation Enter := (AbstractBA.Enter node value).
Local Notation voted := (AbstractBA.voted node value).
Local Notation has_q := (AbstractBA.has_q node value quorum).
Local Notation nextq := (AbstractBA.nextq node value quorum).
Local Notation cur := (AbstractBA.cur node value node_eq_dec).
Local Notation last_via := (AbstractBA.last_via node value node_eq_dec).
Local Notation lock := (AbstractBA.lock node value node_eq_dec value_eq_dec).
Local Notation ok := (AbstractBA.ok node value node_eq_dec value_eq_dec honest quorum).
Local Notation reachable := (AbstractBA.reachable node value node_eq_dec value_eq_dec honest quorum).
Local Notation step_rule := (AbstractBA.step_rule node value node_eq_dec value_eq_dec quorum).
Local Notation enter_rule := (AbstractBA.enter_rule node value node_eq_dec quorum).

(* ---------- suffixes (earlier points in time) ---------- *)
Definition suffix (t1 t : trace) : Prop := exists t2, t = t2 ++ t1.

Lemma suffix_refl t : suffix t t.
Proof. exists []. reflexivity. Qed.

Lemma suffix_cons e t1 t : suffix t1 t -> suffix t1 (e :: t).
Proof. intros [t2 ->]. exists (e :: t2). reflexivity. Qed.

Lemma suffix_trans t1 t2 t3 : suffix t1 t2 -> suffix t2 t3 -> suffix t1 t3.
Proof. intros [a ->] [b ->]. exists (b ++ a). rewrite app_assoc. reflexivity. Qed.

Lemma suffix_tail e t1 t : suffix (e :: t1) t -> suffix t1 t.
Proof. intros [t2 ->]. exists (t2 ++ [e]). rewrite <- app_assoc. reflexivity. Qed.

Lemma suffix_cons_inv t1 e t : suffix t1 (e :: t) -> t1 = e :: t \/ suffix t1 t.
Proof.
  intros [t2 H]. destruct t2 as [|e' t2]; cbn in H.
  - left. symmetry. exact H.
  - right. injection H as _ H. exists t2. exact H.
Qed.

Lemma suffix_total (A B T0 : trace) : suffix A T0 -> suffix B T0 -> suffix A B \/ suffix B A.
Proof.
  intros [a Ea] [b Eb]. revert b T0 Ea Eb. induction a as [|ea a IH]; intros b T0 Ea Eb.
  - cbn in Ea. right. exists b. congruence.
  - destruct b as [|eb b].
    + cbn in Eb. left. exists (ea :: a). congruence.
    + cbn in Ea, Eb. rewrite Ea in Eb. injection Eb as _ Eb.
      apply (IH b (a ++ A)); [reflexivity|exact Eb].
Qed.

Lemma voted_suffix t1 t v : suffix t1 t -> voted t1 v -> voted t v.
Proof. intros [t2 ->] H. unfold AbstractBA.voted in *. apply in_or_app. right. exact H. Qed.

Lemma has_q_suffix t1 t p s x : suffix t1 t -> has_q t1 p s x -> has_q t p s x.
Proof.
  intros Hs [Q [HQ Hall]]. exists Q. split; [exact HQ|].
  intros n Hn. eapply voted_suffix; [exact Hs|]. apply Hall. exact Hn.
Qed.

Lemma nextq_suffix t1 t p x : suffix t1 t -> nextq t1 p x -> nextq t p x.
Proof. intros Hs [s [Hs3 H]]. exists s. split; [exact Hs3|]. eapply has_q_suffix; eassumption. Qed.

Lemma reachable_suffix t1 t : suffix t1 t -> reachable t -> reachable t1.
Proof.
  intros [t2 ->]. induction t2 as [|e t2 IH]; cbn; intros H; [exact H|].
  inversion H; subst. apply IH. assumption.
Qed.

Lemma reachable_ok e t : reachable (e :: t) -> ok t e.
Proof. intros H. inversion H; subst. assumption. Qed.

(* every event in a reachable trace was ok when it was added *)
Lemma in_split_ok t e : reachable t -> In e t ->
  exists t1, suffix (e :: t1) t /\ reachable t1 /\ ok t1 e.
Proof.
  intros Hr Hin. apply in_split in Hin. destruct Hin as [l1 [l2 ->]].
  exists l2. assert (Hs : suffix (e :: l2) (l1 ++ e :: l2)) by (exists l1; reflexivity).
  split; [exact Hs|].
  pose proof (reachable_suffix _ _ Hs Hr) as Hr'.
  split; [inversion Hr'; subst; assumption|apply reachable_ok; exact Hr'].
Qed.

(* ---------- current period is monotone for honest nodes ---------- *)
Lemma cur_mono h t1 t : honest h -> reachable t -> suffix t1 t -> cur h t1 <= cur h t.
Proof.
  intros Hh Hr [t2 ->]. induction t2 as [|e t2 IH]; cbn [app]; [lia|].
  inversion Hr; subst. specialize (IH H1).
  destruct e as [v|n q w]; cbn [AbstractBA.cur]; [exact IH|].
  destruct (node_eq_dec n h) as [->|Hne]; [|exact IH].
  cbn in H2. destruct (H2 Hh) as [Hlt _]. lia.
Qed.

(* ---------- honest nodes vote once per (period, step) ---------- *)
Lemma honest_once t v1 v2 : reachable t -> voted t v1 -> voted t v2 ->
  honest (sender node value v1) -> sender node value v1 = sender node value v2 ->
  per node value v1 = per node value v2 -> stp node value v1 = stp node value v2 ->
  val node value v1 = val node value v2.
Proof.
  intros Hr. induction Hr as [|t e Hr IH Hok]; intros H1 H2 Hh Hs Hp Hst.
  - destruct H1.
  - destruct H1 as [H1|H1], H2 as [H2|H2].
    + congruence.
    + subst e. cbn in Hok. destruct (Hok Hh) as [_ [Honce _]].
      symmetry. apply Honce; auto.
    + subst e. cbn in Hok. rewrite <- Hs in Hok. destruct (Hok Hh) as [_ [Honce _]].
      apply Honce; auto.
    + apply IH; assumption.
Qed.

(* ---------- soft quorums are unique per period; cert quorums imply soft quorums ---------- *)
Lemma soft_unique t p x y : reachable t ->
  has_q t p 1 (Some x) -> has_q t p 1 (Some y) -> x = y.
Proof.
  intros Hr [Q1 [HQ1 H1]] [Q2 [HQ2 H2]].
  destruct (QI_same p 1 Q1 Q2 HQ1 HQ2) as [n [Hn [Hn1 Hn2]]].
  pose proof (honest_once t _ _ Hr (H1 n Hn1) (H2 n Hn2) Hn eq_refl eq_refl eq_refl) as E.
  cbn in E. congruence.
Qed.

Lemma cert_implies_soft t p x : reachable t -> has_q t p 2 (Some x) -> has_q t p 1 (Some x).
Proof.
  intros Hr [Q [HQ Hall]].
  destruct (QI_same p 2 Q Q HQ HQ) as [n [Hn [Hn1 _]]].
  destruct (in_split_ok t _ Hr (Hall n Hn1)) as [t1 [Hs [Hr1 Hok]]].
  cbn in Hok. destruct (Hok Hn) as [_ [_ Hrule]]. cbn in Hrule.
  destruct Hrule as [x' [Hx' [Hq _]]]. cbn in Hx'. injection Hx' as <-.
  eapply has_q_suffix; [|exact Hq]. eapply suffix_tail. exact Hs.
Qed.

Lemma no_bottom_cert t p : reachable t -> ~ has_q t p 2 None.
Proof.
  intros Hr [Q [HQ Hall]].
  destruct (QI_same p 2 Q Q HQ HQ) as [n [Hn [Hn1 _]]].
  destruct (in_split_ok t _ Hr (Hall n Hn1)) as [t1 [Hs [Hr1 Hok]]].
  cbn in Hok. destruct (Hok Hn) as [_ [_ Hrule]]. cbn in Hrule.
  destruct Hrule as [x' [Hx' _]]. cbn in Hx'. discriminate.
Qed.

(* ---------- the safety argument ---------- *)
Section Safety.

Variable T : trace.
Hypothesis HrT : reachable T.
Variables (p : nat) (v : value).
Hypothesis Hcert : has_q T p 2 (Some v).

(* per-period facts about the whole trace T *)
Definition Nfact (q : nat) : Prop := forall x, nextq T q x -> x = Some v.
Definition Sfact (q : nat) : Prop := forall y, has_q T q 1 (Some y) -> y = v.

Lemma Sfact_p : Sfact p.
Proof.
  intros y Hy. symmetry. eapply soft_unique; [exact HrT| |exact Hy].
  apply cert_implies_soft; assumption.
Qed.

(* soft quorums of a later period q are for v, provided all next-type quorums of q-1 are *)
Lemma Sfact_step q : p < q -> Nfact (q - 1) -> Sfact q.
Proof.
  intros Hpq HN.
  assert (Hall : forall t, reachable t -> suffix t T ->
                 forall t1, suffix t1 t -> forall y, has_q t1 q 1 (Some y) -> y = v).
  { intros t Hr. induction Hr as [|t e Hr IH Hok]; intros HsT t1 Hs1 y Hy.
    - destruct Hs1 as [t2 E]. symmetry in E. apply app_eq_nil in E. destruct E as [_ ->].
      destruct Hy as [Q [HQ Hall]].
      destruct (QI_same q 1 Q Q HQ HQ) as [n [_ [Hn1 _]]]. destruct (Hall n Hn1).
    - apply suffix_cons_inv in Hs1. destruct Hs1 as [->|Hs1].
      2:{ eapply IH; [eapply suffix_tail; exact HsT|exact Hs1|exact Hy]. }
      assert (Hr' : reachable (e :: t)) by (constructor; assumption).
      destruct Hy as [Q [HQ HallQ]].
      destruct (QI_same q 1 Q Q HQ HQ) as [n [Hn [Hn1 _]]].
      destruct (in_split_ok (e :: t) _ Hr' (HallQ n Hn1)) as [t0 [Hs0 [Hr0 Hok0]]].
      cbn in Hok0. destruct (Hok0 Hn) as [_ [_ Hrule]]. cbn in Hrule.
      destruct Hrule as [x' [Hx' Hj]]. cbn in Hx', Hj. injection Hx' as <-.
      (* t0 is a strict suffix of e :: t, hence a suffix of t *)
      assert (Hs0t : suffix t0 t).
      { apply suffix_tail in Hs0 as Hs0'. destruct Hs0 as [t2 E].
        destruct t2 as [|e2 t2]; cbn in E.
        - injection E as _ ->. apply suffix_refl.
        - injection E as _ ->. exists (t2 ++ [Vote (mkVote n q 1 (Some y))]).
          rewrite <- app_assoc. reflexivity. }
      assert (Hs0T : suffix t0 T) by (eapply suffix_trans; [exact Hs0t|eapply suffix_tail; exact HsT]).
      destruct Hj as [H0|[Hn1'|[Hn2|[[y' Hy']|[y' Hy']]]]].
      + lia.
      + apply (nextq_suffix _ _ _ _ Hs0T) in Hn1'. apply HN in Hn1'. congruence.
      + apply (nextq_suffix _ _ _ _ Hs0T) in Hn2. apply HN in Hn2. discriminate.
      + (* a soft quorum already existed at t0: induction hypothesis, then uniqueness *)
        assert (y' = v) by (eapply IH; [eapply suffix_tail; exact HsT|exact Hs0t|exact Hy']).
        subst y'. apply (soft_unique (e :: t) q y v); [exact Hr'| |].
        * exists Q. split; assumption.
        * eapply has_q_suffix; [|exact Hy']. apply suffix_cons. exact Hs0t.
      + apply cert_implies_soft in Hy'; [|exact Hr0].
        assert (y' = v) by (eapply IH; [eapply suffix_tail; exact HsT|exact Hs0t|exact Hy']).
        subst y'. apply (soft_unique (e :: t) q y v); [exact Hr'| |].
        * exists Q. split; assumption.
        * eapply has_q_suffix; [|exact Hy']. apply suffix_cons. exact Hs0t. }
  intros y Hy. eapply (Hall T HrT (suffix_refl T) T (suffix_refl T)). exact Hy.
Qed.

(* facts assumed up to period q (strong induction hypothesis) *)
Definition Upto (q : nat) : Prop :=
  (forall q', p <= q' -> q' < q -> Nfact q') /\ (forall q', p <= q' -> q' <= q -> Sfact q').

(* an honest cert-voter of (p, v) stays locked on v while its period is <= q *)
Lemma lock_invariant q h : Upto q -> honest h ->
  forall t, reachable t -> suffix t T ->
  voted t (mkVote h p 2 (Some v)) -> cur h t <= q ->
  p <= cur h t /\ lock h t = Some v.
Proof.
  intros [HN HS] Hh t Hr. induction Hr as [|t e Hr IH Hok]; intros HsT Hv Hcur.
  - destruct Hv.
  - assert (HsT' : suffix t T) by (eapply suffix_tail; exact HsT).
    destruct e as [v0|n q1 w].
    + cbn [AbstractBA.cur] in *. cbn [AbstractBA.lock].
      destruct (node_eq_dec (sender node value v0) h) as [Es|Es].
      * destruct (Nat.eqb_spec (stp node value v0) cert) as [Ec|Ec].
        -- (* a cert vote of h *)
           cbn in Hok. rewrite Es in Hok. destruct (Hok Hh) as [Hper [_ Hrule]].
           unfold AbstractBA.step_rule in Hrule. rewrite Ec in Hrule. cbn in Hrule.
           destruct Hrule as [x [Hx [Hq _]]].
           destruct Hv as [Hv|Hv].
           ++ injection Hv as ->. cbn in *. split; [lia|reflexivity].
           ++ destruct (IH HsT' Hv Hcur) as [Hp Hl]. split; [exact Hp|].
              rewrite Hx. f_equal.
              apply (has_q_suffix _ _ _ _ _ HsT') in Hq.
              apply (HS (per node value v0)); [lia|lia|exact Hq].
        -- destruct Hv as [Hv|Hv].
           ++ injection Hv as ->. cbn in Ec. unfold cert in Ec. congruence.
           ++ apply IH; assumption.
      * destruct Hv as [Hv|Hv].
        -- injection Hv as ->. cbn in Es. congruence.
        -- apply IH; assumption.
    + destruct Hv as [Hv|Hv]; [discriminate|].
      cbn [AbstractBA.cur] in *. cbn [AbstractBA.lock].
      destruct (node_eq_dec n h) as [->|Hne]; [|apply IH; assumption].
      cbn in Hok. destruct (Hok Hh) as [Hlt Hw].
      destruct (IH HsT' Hv ltac:(lia)) as [Hp Hl]. split; [lia|].
      rewrite Hl.
      assert (Hval : via_val value w = Some v).
      { destruct w as [x|y|y]; cbn.
        - destruct Hw as [_ Hw]. apply (nextq_suffix _ _ _ _ HsT') in Hw.
          apply (HN (q1 - 1)); [lia|lia|exact Hw].
        - apply (has_q_suffix _ _ _ _ _ HsT') in Hw. f_equal. apply (HS q1); [lia|lia|exact Hw].
        - apply cert_implies_soft in Hw; [|exact Hr].
          apply (has_q_suffix _ _ _ _ _ HsT') in Hw. f_equal. apply (HS q1); [lia|lia|exact Hw]. }
      rewrite Hval. cbn. destruct (value_eq_dec v v); [reflexivity|congruence].
Qed.

Lemma last_via_ok h t w : reachable t -> honest h -> last_via h t = Some w ->
  exists t0, suffix t0 t /\ enter_rule t0 h (cur h t) w.
Proof.
  intros Hr Hh. induction Hr as [|t e Hr IH Hok]; cbn; [discriminate|].
  destruct e as [v0|n q1 w1]; cbn.
  - intros H. destruct (IH H) as [t0 [Hs He]]. exists t0. split; [apply suffix_cons; exact Hs|exact He].
  - destruct (node_eq_dec n h) as [->|Hne].
    + intros [= ->]. exists t. split; [apply suffix_cons; apply suffix_refl|]. apply Hok. exact Hh.
    + intros H. destruct (IH H) as [t0 [Hs He]]. exists t0. split; [apply suffix_cons; exact Hs|exact He].
Qed.

(* next-type quorums of period q >= p are for v *)
Lemma Nfact_step q : p <= q -> Upto q -> Nfact q.
Proof.
  intros Hpq HU x [s [Hs3 [Qn [HQn HallN]]]].
  destruct Hcert as [Qc [HQc HallC]].
  destruct (QI_cross p q s Qc Qn Hpq Hs3 HQc HQn) as [h [Hh [HhC HhN]]].
  set (vc := mkVote h p 2 (Some v)). set (vn := mkVote h q s x).
  assert (HvcT : voted T vc) by (apply HallC; exact HhC).
  assert (HvnT : voted T vn) by (apply HallN; exact HhN).
  (* find an occurrence of vn that comes after an occurrence of vc *)
  assert (Hord : exists t1, suffix (Vote vn :: t1) T /\ reachable t1 /\ ok t1 (Vote vn) /\ voted t1 vc).
  { destruct (in_split_ok T _ HrT HvcT) as [tc [Hsc [Hrc Hokc]]].
    destruct (in_split_ok T _ HrT HvnT) as [tn [Hsn [Hrn Hokn]]].
    (* both are suffixes of T: compare them *)
    assert (Hcmp : suffix (Vote vc :: tc) tn \/ suffix (Vote vn :: tn) tc).
    { destruct (suffix_total _ _ _ Hsc Hsn) as [H|H].
      - apply suffix_cons_inv in H. destruct H as [H|H]; [|left; exact H].
        exfalso. unfold vc, vn in H. assert (E : 2 = s) by congruence. lia.
      - apply suffix_cons_inv in H. destruct H as [H|H]; [|right; exact H].
        exfalso. unfold vc, vn in H. assert (E : 2 = s) by congruence. lia. }
    destruct Hsn as [b Eb].
    destruct Hcmp as [Hc|Hc].
    - exists tn. split; [exists b; exact Eb|]. split; [exact Hrn|]. split; [exact Hokn|].
      eapply voted_suffix; [exact Hc|]. left. reflexivity.
    - (* vn was cast before vc: impossible *)
      exfalso. cbn in Hokc. destruct (Hokc Hh) as [Hperc [_ Hrulec]]. cbn in Hperc, Hrulec.
      destruct Hrulec as [_ [_ [_ Hnon]]].
      assert (Hvn_tc : voted tc vn) by (eapply voted_suffix; [exact Hc|left; reflexivity]).
      destruct (Nat.eq_dec q p) as [->|Hne].
      + specialize (Hnon vn Hvn_tc eq_refl eq_refl). cbn in Hnon. lia.
      + cbn in Hokn. destruct (Hokn Hh) as [Hpern _]. cbn in Hpern.
        assert (cur h tn <= cur h tc).
        { apply cur_mono; [exact Hh|exact Hrc|]. eapply suffix_tail. exact Hc. }
        lia. }
  destruct Hord as [t1 [Hs1 [Hr1 [Hok1 Hvc1]]]].
  cbn in Hok1. destruct (Hok1 Hh) as [Hper [_ Hrule]]. cbn in Hper.
  unfold AbstractBA.step_rule in Hrule. cbn [stp] in Hrule.
  destruct s as [|[|[|s']]]; try lia. cbn in Hrule.
  destruct Hrule as [Hsame Hdisj].
  unfold vn in *. cbn [AbstractBA.val AbstractBA.sender AbstractBA.per AbstractBA.stp] in *.
  assert (Hs1T : suffix t1 T) by (eapply suffix_tail; exact Hs1).
  destruct (Nat.eq_dec q p) as [->|Hne].
  { apply Hsame. exact Hvc1. }
  destruct (lock_invariant q h HU Hh t1 Hr1 Hs1T Hvc1 ltac:(lia)) as [_ Hlock].
  destruct HU as [HN HS].
  destruct Hdisj as [[y [Hy [Hq|Hq]]]|[[Hq0 Hnq]|[[_ Hq0]|[Hnone [y [Hvia Hnl]]]]]].
  - rewrite Hy. f_equal. apply (has_q_suffix _ _ _ _ _ Hs1T) in Hq. apply (HS q); [lia|lia|exact Hq].
  - rewrite Hy. f_equal. apply cert_implies_soft in Hq; [|exact Hr1].
    apply (has_q_suffix _ _ _ _ _ Hs1T) in Hq. apply (HS q); [lia|lia|exact Hq].
  - apply (nextq_suffix _ _ _ _ Hs1T) in Hnq. apply (HN (q - 1)); [lia|lia|exact Hnq].
  - lia.
  - exfalso. apply Hnl. rewrite Hlock. f_equal.
    assert (Hyv : forall w, last_via h t1 = Some w -> via_val value w = Some y -> (w = ViaSoft value y \/ w = ViaCert value y) -> y = v).
    { intros w Hw _ Hkind. destruct (last_via_ok h t1 w Hr1 Hh Hw) as [t0 [Hs0 [_ Hj]]].
      rewrite <- Hper in Hj.
      assert (Hs0T : suffix t0 T) by (eapply suffix_trans; eassumption).
      destruct Hkind as [->| ->]; cbn in Hj.
      - apply (has_q_suffix _ _ _ _ _ Hs0T) in Hj. apply (HS q); [lia|lia|exact Hj].
      - apply cert_implies_soft in Hj; [|eapply reachable_suffix; [exact Hs0|exact Hr1]].
        apply (has_q_suffix _ _ _ _ _ Hs0T) in Hj. apply (HS q); [lia|lia|exact Hj]. }
    symmetry. destruct Hvia as [Hw|Hw]; eapply Hyv; try exact Hw; cbn; auto.
Qed.

Lemma upto_all : forall q, p <= q -> Upto q /\ Nfact q.
Proof.
  intros q. induction q as [q IH] using lt_wf_ind. intros Hpq.
  assert (HU : Upto q).
  { split.
    - intros q' H1 H2. apply IH; assumption.
    - intros q' H1 H2. destruct (Nat.eq_dec q' p) as [->|Hne]; [apply Sfact_p|].
      apply Sfact_step; [lia|]. apply IH; lia. }
  split; [exact HU|]. apply Nfact_step; assumption.
Qed.

Lemma later_cert_same p' v' : p <= p' -> has_q T p' 2 (Some v') -> v' = v.
Proof.
  intros Hpp Hc. destruct (upto_all p' Hpp) as [[_ HS] _].
  apply (HS p'); [lia|lia|]. apply cert_implies_soft; assumption.
Qed.

End Safety.

Theorem ba_safety : forall t, reachable t -> forall p v p' v',
  has_q t p 2 (Some v) -> has_q t p' 2 (Some v') -> v = v'.
Proof.
  intros t Hr p v p' v' H1 H2.
  destruct (Nat.le_ge_cases p p') as [Hle|Hle].
  - symmetry. eapply (later_cert_same t Hr p v H1 p' v' Hle H2).
  - eapply (later_cert_same t Hr p' v' H2 p v Hle H1).
Qed.

Corollary one_block_per_round : forall t, reachable t -> forall v v',
  committable_value node value quorum t v -> committable_value node value quorum t v' -> v = v'.
Proof. intros t Hr v v' [p H1] [p' H2]. eapply ba_safety; eassumption. Qed.

(* once a cert quorum for v exists, no later-or-equal period has a next-type quorum for
   anything else (in particular not for bottom): the round cannot be "skipped" *)
Corollary no_conflicting_next : forall t, reachable t -> forall p v q x,
  has_q t p 2 (Some v) -> p <= q -> nextq t q x -> x = Some v.
Proof.
  intros t Hr p v q x Hc Hpq Hn. destruct (upto_all t Hr p v Hc q Hpq) as [_ HN]. apply HN. exact Hn.
Qed.

End Proofs.
