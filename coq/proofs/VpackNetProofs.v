(* C42: the sender / receiver wrapper (model/VpackNet.v).  Under the abort rule of the code
   (a failed Compress clears the sender's flag for good) the encoder state and the decoder state
   are equal whenever the sender's flag is set, for every history of payloads, and whatever
   reaches the handlers through the stateful stream is what the plain AV path would deliver. *)
From Coq Require Import NArith List Bool String Ascii Lia ZifyN ZifyNat ZifyBool Arith.
From Verif.lib Require Import Term.
From Verif.model Require Import Vpack VpackSpec VpackNet.
From Verif.proofs Require Import VpackBase VpackStateful VpackParse VpackStateless VpackStream.
Import ListNotations.
Open Scope N_scope.

(* the lockstep invariant of one direction of a connection *)
Definition ninv (s : nstate) : Prop :=
  n_son s = true -> n_ron s = true /\ n_enc s = n_dec s /\ wf_state (n_enc s).

(* a delivery is either a control outcome or exactly what plain AV delivers for the payload *)
Definition transparent (data : bytes) (d : deliv) : Prop :=
  match d with DBytes b => b = av_deliver data | DNone => True | DErr => True end.

Lemma decompress_vote_norm : forall x, decompress_vote (norm_frame x) = decompress_vote x.
Proof. intros [|a [|b r]]; reflexivity. Qed.

Lemma decompress_some_len : forall st f r, decompress st f = Some r -> bytes_eqb f abort_payload = false.
Proof.
  intros st f r H. unfold decompress in H. apply bind_some in H as ([hdr l] & Hh & _).
  apply take_n_inv in Hh as [-> Hl]. apply bytes_eqb_neq. intro E.
  apply (f_equal (@List.length N)) in E. rewrite app_length, Hl in E. simpl in E. lia.
Qed.

Lemma net_step_inv : forall s data,
  ninv s -> bytes_ok data ->
  ninv (snd (net_step s data)) /\ Forall (transparent data) (snd (fst (net_step s data))).
Proof.
  intros s data Hinv Hok. unfold net_step, sender_step.
  destruct (n_son s) eqn:Eson.
  - destruct (Hinv Eson) as (Hron & Heq & Hwf).
    destruct (compress true (n_enc s) data) as [[f e']|] eqn:Ec.
    + destruct (lockstep (n_enc s) data f e' Hwf Hok Ec) as [Hd Hwf'].
      cbn [recv_all recv_wire n_ron n_dec n_son n_enc].
      rewrite (decompress_some_len _ _ _ Hd). rewrite Hron. cbn [negb].
      rewrite <- Heq, Hd. rewrite decompress_vote_norm.
      destruct (decompress_vote data) as [m|] eqn:Edv; cbn [snd fst].
      * split; [intros _; cbn; auto | constructor; [|constructor]]. cbn. unfold av_deliver. rewrite Edv. reflexivity.
      * split; [intro H; discriminate | constructor; [exact I | constructor]].
    + cbn [recv_all recv_wire n_ron n_dec n_son n_enc].
      replace (bytes_eqb abort_payload abort_payload) with true by (symmetry; apply bytes_eqb_refl).
      cbn [snd fst]. split; [intro H; discriminate|].
      constructor; [exact I|]. constructor; [reflexivity | constructor].
  - cbn [recv_all recv_wire snd fst]. split; [intro H; congruence|].
    constructor; [reflexivity | constructor].
Qed.

(* every history *)
Theorem net_sync_lemma : forall l s,
  ninv s -> Forall bytes_ok l ->
  ninv (snd (net_run s l)) /\
  Forall2 (fun data ds => Forall (transparent data) ds) l (fst (net_run s l)).
Proof.
  induction l as [|d l IH]; intros s Hinv HF; [simpl; auto|].
  inversion HF as [|? ? Hd HF']; subst.
  destruct (net_step_inv s d Hinv Hd) as [Hi Ht].
  simpl net_run. destruct (net_step s d) as [[ws ds] s1] eqn:E1. simpl in Hi, Ht.
  destruct (IH s1 Hi HF') as [Hi2 Ht2].
  destruct (net_run s1 l) as [o s2] eqn:E2. simpl in *. split; [assumption|]. constructor; assumption.
Qed.

Lemma ninv_init : forall n s0, net_init n = Some s0 -> n <= 65536 -> ninv s0.
Proof.
  unfold net_init. intros n s0 H Hn. apply bind_some in H as (st & Hst & H). inversion H; subst.
  intros _. simpl. split; [reflexivity|]. split; [reflexivity|]. eapply wf_new_state; eassumption.
Qed.

(* a vote the stateless encoder accepts arrives exactly once, exactly, whatever the flags are *)
Theorem net_lossless_lemma : forall s m x,
  ninv s -> bytes_ok m -> compress_vote true m = Some x ->
  broadcast_data m = x /\ snd (fst (net_step s x)) = [DBytes m].
Proof.
  intros s m x Hinv Hok Hc. split; [unfold broadcast_data; rewrite Hc; reflexivity|].
  unfold net_step, sender_step. destruct (n_son s) eqn:Eson.
  - destruct (Hinv Eson) as (Hron & Heq & Hwf).
    destruct (send_recv_step (n_enc s) m x Hwf Hok Hc) as (f & st' & Hcs & Hr & _).
    rewrite Hcs. cbn [recv_all recv_wire n_ron n_dec n_son n_enc].
    unfold recv in Hr. apply bind_some in Hr as ([y d'] & Hd & Hr).
    rewrite (decompress_some_len _ _ _ Hd). rewrite Hron. cbn [negb]. rewrite <- Heq, Hd.
    apply bind_some in Hr as (m' & Hm' & Hr). inversion Hr; subst. rewrite Hm'. reflexivity.
  - cbn [recv_all recv_wire snd fst]. unfold av_deliver.
    rewrite (stateless_roundtrip_lemma m x Hc). reflexivity.
Qed.

(* ---- the msgpack fallback: a raw msgpack vote is never mistaken for a frame ----
   A msgpack vote starts with fixmap(3) = 0x83 = 131.  Read as a header byte, 131 announces per
   and dig only, so both Compress and DecompressVote consume at most 420 bytes and then reject
   the trailing data; every msgpack vote is longer (>= 493 bytes). *)
Lemma is_varuint_len : forall d, is_varuint d = true -> (List.length d <= 9)%nat.
Proof.
  intros d H. apply is_varuint_cons in H as (b & r & k & -> & Hk & Hlen).
  apply varuint_more_cases in Hk. simpl. lia.
Qed.

Lemma fld_len_u : forall c d, fld c is_varuint d -> (List.length d <= 9)%nat.
Proof. intros [|] d H; simpl in H; [apply is_varuint_len; assumption | subst; simpl; lia]. Qed.

Lemma fld_len_b : forall c n d, fld c (is_bin n) d -> (List.length d <= n)%nat.
Proof.
  intros [|] n d H; simpl in H; [apply Nat.eqb_eq in H; lia | subst; simpl; lia].
Qed.

Lemma fld_false_nil : forall ok d, fld false ok d -> d = [].
Proof. intros ok d H. exact H. Qed.

Lemma compress_raw_msgpack_fails : forall canon st b l,
  (418 < List.length l)%nat -> compress canon st (131 :: b :: l) = None.
Proof.
  intros canon st b l Hlen. destruct (compress canon st (131 :: b :: l)) as [[f st']|] eqn:H; [|reflexivity].
  exfalso. unfold compress in H.
  apply bind_some in H as ([hdr l0] & Hhdr & H). apply take_n_inv in Hhdr as [Hx Hhl].
  destruct hdr as [|h0 [|h1 [|? ?]]]; try (simpl in Hhl; discriminate). simpl in Hx.
  inversion Hx; subst h0 h1 l0; clear Hx Hhl. cbn [nth] in H.
  apply bind_some in H as ([pf l1] & H1 & H). apply take_n_inv in H1 as [-> Lpf].
  apply bind_some in H as ([per l2] & H2 & H). apply opt_read_varuint_inv in H2 as [-> Fper].
  apply bind_some in H as ([prop l3] & H3 & H).
  apply read_prop_inv in H3 as (dig & encdig & oper & oprop & -> & _ & Fdig & Fenc & Foper & Foprop).
  apply bind_some in H as ([rndData l4] & H4 & H). apply read_varuint_bytes_inv in H4 as [-> Vrnd].
  apply bind_some in H as (rnd & _ & H).
  destruct (enc_rnd canon (last_rnd st) rndData rnd) as [rc rndout].
  apply bind_some in H as ([snd l5] & H5 & H). apply take_n_inv in H5 as [-> Lsnd].
  destruct (enc_ref snd_hash (snd_t st) snd) as [[sref sout] st1].
  apply bind_some in H as ([step l6] & H6 & H). apply opt_read_varuint_inv in H6 as [-> Fstep].
  apply bind_some in H as ([pk l7] & H7 & H). apply take_n_inv in H7 as [-> Lpk].
  destruct (enc_ref pk_hash (pk_t st) pk) as [[pref pout] pt1].
  apply bind_some in H as ([pk2 l8] & H8 & H). apply take_n_inv in H8 as [-> Lpk2].
  destruct (enc_ref pk_hash (pk2_t st) pk2) as [[p2ref p2out] p2t1].
  apply bind_some in H as ([sigs l9] & H9 & H). apply take_n_inv in H9 as [-> Lsigs].
  destruct (is_nil l9) eqn:Enil; [|discriminate]. apply is_nil_true in Enil. subst l9.
  change (bit 131 2) with false in Fenc. change (bit 131 3) with false in Foper.
  change (bit 131 4) with false in Foprop. change (bit 131 5) with false in Fstep.
  apply fld_false_nil in Fenc, Foper, Foprop, Fstep. subst encdig oper oprop step.
  apply fld_len_u in Fper. apply fld_len_b in Fdig. apply is_varuint_len in Vrnd.
  rewrite !app_length in Hlen. simpl in Hlen. lia.
Qed.

Lemma d_bin_len : forall c key n l o l', d_bin c key n l = Some (o, l') ->
  exists d, l = d ++ l' /\ (List.length d <= n)%nat.
Proof.
  intros [|] key n l o l' H; simpl in H.
  - apply bind_some in H as ([d r] & Ht & H). apply take_n_inv in Ht as [-> Hl]. inversion H; subst.
    exists d. split; [reflexivity | lia].
  - inversion H; subst. exists []. split; [reflexivity | simpl; lia].
Qed.

Lemma d_varuint_len : forall c key l o l', d_varuint c key l = Some (o, l') ->
  exists d, l = d ++ l' /\ (List.length d <= 9)%nat.
Proof.
  intros [|] key l o l' H; simpl in H.
  - apply bind_some in H as ([d r] & Ht & H). apply read_varuint_bytes_inv in Ht as [-> Hv].
    inversion H; subst. exists d. split; [reflexivity | apply is_varuint_len; assumption].
  - inversion H; subst. exists []. split; [reflexivity | simpl; lia].
Qed.

Lemma decompress_raw_msgpack_fails : forall b l,
  (418 < List.length l)%nat -> decompress_vote (131 :: b :: l) = None.
Proof.
  intros b l Hlen. destruct (decompress_vote (131 :: b :: l)) as [out|] eqn:H; [|reflexivity].
  exfalso. unfold decompress_vote in H.
  change (bit 131 0) with true in H. change (bit 131 1) with true in H.
  change (bit 131 2) with false in H. change (bit 131 3) with false in H.
  change (bit 131 4) with false in H. change (bit 131 5) with false in H.
  change (negb (N.land 131 30 =? 0)) with true in H. cbn [andb] in H.
  apply bind_some in H as ([o1 l1] & H1 & H). apply d_bin_len in H1 as (d1 & -> & L1).
  apply bind_some in H as ([o2 l2] & H2 & H). apply d_varuint_len in H2 as (d2 & -> & L2).
  apply bind_some in H as ([o3 l3] & H3 & H). apply d_bin_len in H3 as (d3 & -> & L3).
  apply bind_some in H as ([o4 l4] & H4 & H). simpl in H4. inversion H4; subst o4 l4; clear H4.
  apply bind_some in H as ([o5 l5] & H5 & H). simpl in H5. inversion H5; subst o5 l5; clear H5.
  apply bind_some in H as ([o6 l6] & H6 & H). simpl in H6. inversion H6; subst o6 l6; clear H6.
  apply bind_some in H as ([o7 l7] & H7 & H). apply d_varuint_len in H7 as (d7 & -> & L7).
  apply bind_some in H as ([o8 l8] & H8 & H). apply d_bin_len in H8 as (d8 & -> & L8).
  apply bind_some in H as ([o9 l9] & H9 & H). simpl in H9. inversion H9; subst o9 l9; clear H9.
  apply bind_some in H as ([oa la] & Ha & H). apply d_bin_len in Ha as (da & -> & La).
  apply bind_some in H as ([ob lb] & Hb & H). apply d_bin_len in Hb as (db & -> & Lb).
  apply bind_some in H as ([oc lc] & Hc & H). apply d_bin_len in Hc as (dc & -> & Lc).
  apply bind_some in H as ([od ld] & Hd & H). apply d_bin_len in Hd as (dd & -> & Ld).
  apply bind_some in H as ([oe le] & He & H). apply d_bin_len in He as (de & -> & Le).
  destruct (is_nil le) eqn:Enil; [|discriminate]. apply is_nil_true in Enil. subst le.
  rewrite !app_length in Hlen. simpl in Hlen. lia.
Qed.

(* a vote the stateless encoder refuses is sent whole (fix 8ff1e5c455) and arrives whole: if the
   stateful stream is on, Compress fails on it, the stream is aborted and the vote follows as
   plain AV; the receiver's stateless decoder rejects it too and hands the original bytes on *)
Theorem net_fallback_lossless_lemma : forall s m b l,
  m = 131 :: b :: l -> (418 < List.length l)%nat -> compress_vote true m = None ->
  broadcast_data m = m /\
  snd (fst (net_step s m)) = if n_son s then [DNone; DBytes m] else [DBytes m].
Proof.
  intros s m b l -> Hlen Hc. split; [unfold broadcast_data; rewrite Hc; reflexivity|].
  unfold net_step, sender_step. destruct (n_son s).
  - rewrite compress_raw_msgpack_fails by assumption.
    cbn [recv_all recv_wire n_ron n_dec n_son n_enc].
    replace (bytes_eqb abort_payload abort_payload) with true by (symmetry; apply bytes_eqb_refl).
    cbn [snd fst]. unfold av_deliver. rewrite decompress_raw_msgpack_fails by assumption. reflexivity.
  - cbn [recv_all recv_wire snd fst]. unfold av_deliver.
    rewrite decompress_raw_msgpack_fails by assumption. reflexivity.
Qed.

(* the fallback BEFORE the fix ([broadcast_data_unfixed]): a well-formed 603-byte vote with
   sig.ps != 0 reached the receiver cut to 502 bytes; with the fix it arrives whole *)
Definition long_uncompressible_vote : bytes :=
  let m0 := encode_msgp witness_vote2 in
  let k := (List.length m0 - 132)%nat in firstn k m0 ++ [1] ++ skipn (S k) m0.

Lemma fallback_unfixed_truncated :
  let m := long_uncompressible_vote in
  all_bytes m = true /\ List.length m = 603%nat /\ compress_vote true m = None /\
  (exists s0, net_init 16 = Some s0 /\
     snd (fst (net_step s0 (broadcast_data_unfixed m))) = [DNone; DBytes (firstn 502 m)] /\
     snd (fst (net_step s0 (broadcast_data m))) = [DNone; DBytes m]) /\
  firstn 502 m <> m.
Proof.
  cbv zeta. split; [vm_compute; reflexivity|]. split; [vm_compute; reflexivity|].
  split; [vm_compute; reflexivity|]. split.
  - destruct (net_init 16) as [s0|] eqn:E; [|vm_compute in E; discriminate].
    exists s0. split; [reflexivity|].
    assert (Es : Some s0 = net_init 16) by (symmetry; exact E).
    vm_compute in Es. inversion Es; subst s0. split; vm_compute; reflexivity.
  - intro E. apply (f_equal (@List.length N)) in E. vm_compute in E. discriminate.
Qed.
