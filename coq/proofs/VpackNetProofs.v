(* C42: the sender / receiver wrapper (model/VpackNet.v).  Under the abort rule of the code
   (a failed Compress clears the sender's flag for good) the encoder state and the decoder state
   are equal whenever the sender's flag is set, for every history of payloads, and whatever
   reaches the handlers through the stateful stream is what the plain AV path would deliver. *)
From Coq Require Import NArith List Bool String Ascii Lia ZifyN ZifyNat ZifyBool Arith.
From Verif.lib Require Import Term.
From Verif.model Require Import Vpack VpackSpec VpackNet.
From Verif.proofs Require Import VpackBase VpackStateful VpackParse VpackStateless VpackStream.
Import ListNotations.
Open Scope N_scope.

(* the lockstep invariant of one direction of a connection *)
Definition ninv (s : nstate) : Prop :=
  n_son s = true -> n_ron s = true /\ n_enc s = n_dec s /\ wf_state (n_enc s).

(* a delivery is either a control outcome or exactly what plain AV delivers for the payload *)
Definition transparent (data : bytes) (d : deliv) : Prop :=
  match d with DBytes b => b = av_deliver data | DNone => True | DErr => True end.

Lemma decompress_vote_norm : forall x, decompress_vote (norm_frame x) = decompress_vote x.
Proof. intros [|a [|b r]]; reflexivity. Qed.

Lemma decompress_some_len : forall st f r, decompress st f = Some r -> bytes_eqb f abort_payload = false.
Proof.
  intros st f r H. unfold decompress in H. apply bind_some in H as ([hdr l] & Hh & _).
  apply take_n_inv in Hh as [-> Hl]. apply bytes_eqb_neq. intro E.
  apply (f_equal (@List.length N)) in E. rewrite app_length, Hl in E. simpl in E. lia.
Qed.

Lemma net_step_inv : forall s data,
  ninv s -> bytes_ok data ->
  ninv (snd (net_step s data)) /\ Forall (transparent data) (snd (fst (net_step s data))).
Proof.
  intros s data Hinv Hok. unfold net_step, sender_step.
  destruct (n_son s) eqn:Eson.
  - destruct (Hinv Eson) as (Hron & Heq & Hwf).
    destruct (compress true (n_enc s) data) as [[f e']|] eqn:Ec.
    + destruct (lockstep (n_enc s) data f e' Hwf Hok Ec) as [Hd Hwf'].
      cbn [recv_all recv_wire n_ron n_dec n_son n_enc].
      rewrite (decompress_some_len _ _ _ Hd). rewrite Hron. cbn [negb].
      rewrite <- Heq, Hd. rewrite decompress_vote_norm.
      destruct (decompress_vote data) as [m|] eqn:Edv; cbn [snd fst].
      * split; [intros _; cbn; auto | constructor; [|constructor]]. cbn. unfold av_deliver. rewrite Edv. reflexivity.
      * split; [intro H; discriminate | constructor; [exact I | constructor]].
    + cbn [recv_all recv_wire n_ron n_dec n_son n_enc].
      replace (bytes_eqb abort_payload abort_payload) with true by (symmetry; apply bytes_eqb_refl).
      cbn [snd fst]. split; [intro H; discriminate|].
      constructor; [exact I|]. constructor; [reflexivity | constructor].
  - cbn [recv_all recv_wire snd fst]. split; [intro H; congruence|].
    constructor; [reflexivity | constructor].
Qed.

(* every history *)
Theorem net_sync_lemma : forall l s,
  ninv s -> Forall bytes_ok l ->
  ninv (snd (net_run s l)) /\
  Forall2 (fun data ds => Forall (transparent data) ds) l (fst (net_run s l)).
Proof.
  induction l as [|d l IH]; intros s Hinv HF; [simpl; auto|].
  inversion HF as [|? ? Hd HF']; subst.
  destruct (net_step_inv s d Hinv Hd) as [Hi Ht].
  simpl net_run. destruct (net_step s d) as [[ws ds] s1] eqn:E1. simpl in Hi, Ht.
  destruct (IH s1 Hi HF') as [Hi2 Ht2].
  destruct (net_run s1 l) as [o s2] eqn:E2. simpl in *. split; [assumption|]. constructor; assumption.
Qed.

Lemma ninv_init : forall n s0, net_init n = Some s0 -> n <= 65536 -> ninv s0.
Proof.
  unfold net_init. intros n s0 H Hn. apply bind_some in H as (st & Hst & H). inversion H; subst.
  intros _. simpl. split; [reflexivity|]. split; [reflexivity|]. eapply wf_new_state; eassumption.
Qed.

(* a vote the stateless encoder accepts arrives exactly once, exactly, whatever the flags are *)
Theorem net_lossless_lemma : forall s m x,
  ninv s -> bytes_ok m -> compress_vote true m = Some x ->
  broadcast_data m = x /\ snd (fst (net_step s x)) = [DBytes m].
Proof.
  intros s m x Hinv Hok Hc. split; [unfold broadcast_data; rewrite Hc; reflexivity|].
  unfold net_step, sender_step. destruct (n_son s) eqn:Eson.
  - destruct (Hinv Eson) as (Hron & Heq & Hwf).
    destruct (send_recv_step (n_enc s) m x Hwf Hok Hc) as (f & st' & Hcs & Hr & _).
    rewrite Hcs. cbn [recv_all recv_wire n_ron n_dec n_son n_enc].
    unfold recv in Hr. apply bind_some in Hr as ([y d'] & Hd & Hr).
    rewrite (decompress_some_len _ _ _ Hd). rewrite Hron. cbn [negb]. rewrite <- Heq, Hd.
    apply bind_some in Hr as (m' & Hm' & Hr). inversion Hr; subst. rewrite Hm'. reflexivity.
  - cbn [recv_all recv_wire snd fst]. unfold av_deliver.
    rewrite (stateless_roundtrip_lemma m x Hc). reflexivity.
Qed.

(* the broadcaster's fallback on the unchanged tree: a well-formed vote with sig.ps != 0 that is
   longer than MaxCompressedVoteSize reaches the receiver cut to 502 bytes *)
Definition long_uncompressible_vote : bytes :=
  let m0 := encode_msgp witness_vote2 in
  let k := (List.length m0 - 132)%nat in firstn k m0 ++ [1] ++ skipn (S k) m0.

Lemma fallback_truncates_witness :
  let m := long_uncompressible_vote in
  all_bytes m = true /\ List.length m = 603%nat /\ compress_vote true m = None /\
  (exists s0, net_init 16 = Some s0 /\
     snd (fst (net_step s0 (broadcast_data m))) = [DNone; DBytes (firstn 502 m)]) /\
  firstn 502 m <> m.
Proof.
  cbv zeta. split; [vm_compute; reflexivity|]. split; [vm_compute; reflexivity|].
  split; [vm_compute; reflexivity|]. split.
  - destruct (net_init 16) as [s0|] eqn:E; [|vm_compute in E; discriminate].
    exists s0. split; [reflexivity|].
    assert (Es : Some s0 = net_init 16) by (symmetry; exact E).
    vm_compute in Es. inversion Es; subst s0. vm_compute. reflexivity.
  - intro E. apply (f_equal (@List.length N)) in E. vm_compute in E. discriminate.
Qed.
