(* C02: soundness of the executable oracle of model/C02Check.v w.r.t. the Prop-level statement
   "no two released votes with equal (sender, round, period, step) carry different values", and the
   fact that the oracle's list of released votes is exactly what the do-operations of the case
   released. *)
From Coq Require Import NArith List Bool Lia ZifyN ZifyBool.
Import ListNotations.
From Verif.lib Require Import Term.
From Verif.model Require Import AgreementTypes C02Check.
From Verif.proofs Require Import AgreementLemmas.
Open Scope N_scope.

Definition cv_key (v : cvote) : N * N * N * N := (cv_snd v, cv_rnd v, cv_per v, cv_step v).

Lemma cv_same_key_iff a b : cv_same_key a b = true <-> cv_key a = cv_key b.
Proof.
  unfold cv_same_key, cv_key. rewrite !andb_true_iff, !N.eqb_eq. split.
  - intros [[[-> ->] ->] ->]. reflexivity.
  - intros H. injection H as -> -> -> ->. auto.
Qed.

Lemma cv_conflict_false a b :
  cv_conflict a b = false <-> (cv_key a = cv_key b -> cv_val a = cv_val b).
Proof.
  unfold cv_conflict. split.
  - intros H K. apply cv_same_key_iff in K. rewrite K in H. cbn in H.
    apply negb_false_iff in H. apply value_eqb_eq. exact H.
  - intros H. destruct (cv_same_key a b) eqn:K; [|reflexivity]. cbn.
    apply negb_false_iff. apply value_eqb_eq. apply H. apply cv_same_key_iff. exact K.
Qed.

Definition no_conflict (l : list cvote) : Prop :=
  forall v1 v2, In v1 l -> In v2 l -> cv_key v1 = cv_key v2 -> cv_val v1 = cv_val v2.

Lemma existsb_conflict_false v t :
  existsb (cv_conflict v) t = false <-> forall w, In w t -> cv_key v = cv_key w -> cv_val v = cv_val w.
Proof.
  induction t as [|w t IH]; cbn.
  - split; [intros _ w []|reflexivity].
  - rewrite orb_false_iff, IH, cv_conflict_false. split.
    + intros [H1 H2] w' [<-|Hin]; auto.
    + intros H. split; [apply H; left; reflexivity|]. intros w' Hin. apply H. right. exact Hin.
Qed.

Theorem no_conflict_b_sound l : no_conflict_b l = true <-> no_conflict l.
Proof.
  induction l as [|v t IH]; cbn.
  - split; [intros _ v1 v2 []|reflexivity].
  - rewrite andb_true_iff, negb_true_iff, existsb_conflict_false, IH. split.
    + intros [H1 H2] v1 v2 [<-|I1] [<-|I2] K; auto.
      symmetry. apply H1; auto.
    + intros H. split.
      * intros w Hin K. apply H; cbn; auto.
      * intros v1 v2 I1 I2 K. apply H; cbn; auto.
Qed.

(* the votes that the do-operations of a case released *)
Definition released_obs (ops : list cop) : list cvote :=
  flat_map (fun o => match o with
                     | ODo rel => match map_opt p_cvote rel with Some l => l | None => [] end
                     | _ => []
                     end) ops.

Lemma rel_add_fst D old new : fst (rel_add D old new) = old ++ new.
Proof.
  revert old. induction new as [|v t IH]; intros old; cbn.
  - rewrite app_nil_r. reflexivity.
  - specialize (IH (old ++ [v])). destruct (rel_add D (old ++ [v]) t) as [o' k']. cbn in *.
    rewrite IH, <- app_assoc. reflexivity.
Qed.

Lemma obad_rel o b w : o_rel (obad o b w) = o_rel o.
Proof. unfold obad. destruct (o_ok o && negb b); reflexivity. Qed.

Lemma spec_op_rel own D o op :
  o_rel (spec_op own D o op) = o_rel o ++ released_obs [op].
Proof.
  destruct op as [restored acts|k e acts|rel|ok disk|]; cbn [released_obs flat_map]; rewrite ?app_nil_r.
  - cbn [spec_op]. destruct (lin_add _ _) as [l k]. rewrite !obad_rel. reflexivity.
  - cbn [spec_op]. destruct (lin_add _ _) as [l k']. rewrite !obad_rel. reflexivity.
  - cbn [spec_op]. destruct (map_opt p_cvote rel) as [relv|]; [|rewrite obad_rel, app_nil_r; reflexivity].
    destruct (if o_curk o then _ else _) as [exp aw].
    pose proof (rel_add_fst D (o_rel o) relv) as H. destruct (rel_add D (o_rel o) relv) as [r' k1]. cbn in H.
    rewrite !obad_rel. cbn. exact H.
  - cbn [spec_op]. destruct (o_reqs o) as [|q qs]; [rewrite obad_rel; reflexivity|].
    destruct ok; [|reflexivity].
    destruct disk as [z|b|s|l]; try (rewrite obad_rel; reflexivity).
    destruct l as [|rps [|dacts [|dg [|x l]]]]; try (rewrite obad_rel; reflexivity).
  - reflexivity.
Qed.

Lemma spec_fold_rel own D ops : forall o,
  o_rel (fold_left (spec_op own D) ops o) = o_rel o ++ released_obs ops.
Proof.
  induction ops as [|op ops IH]; intros o; cbn [fold_left].
  - cbn. rewrite app_nil_r. reflexivity.
  - rewrite IH, spec_op_rel. unfold released_obs. cbn [flat_map]. rewrite app_nil_r, <- app_assoc. reflexivity.
Qed.

Theorem spec_run_rel own ops : o_rel (spec_run own ops) = released_obs ops.
Proof. unfold spec_run. rewrite spec_fold_rel. reflexivity. Qed.

(* what a passing verdict of [check] says about the released votes observed in the case *)
Theorem spec_ok_no_equivocation own ops :
  no_conflict_b (o_rel (spec_run own ops)) = true -> no_conflict (released_obs ops).
Proof. rewrite spec_run_rel. apply no_conflict_b_sound. Qed.
