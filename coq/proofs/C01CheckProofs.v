(* C01 layer 2: soundness of the executable parts of model/C01Check.v.
   - qi_b_sound: the enumeration over the splits of the honest set decides the quorum-intersection
     hypotheses QI_same / QI_cross of the abstract protocol for the stake-weight quorum predicate;
   - certs_agree_b_iff: the executable safety monitor means "all cert quorums of the trace agree";
   - checked_trace_safe / checked_trace_certs_agree: a trace accepted by the rule checker, with
     weights satisfying qi_b, has no conflicting cert quorums (reachable_b_sound + ba_safety). *)
From Coq Require Import List Arith NArith Bool Lia ZifyN ZifyNat ZifyBool.
From Verif.lib Require Import Term.
From Verif.model Require Import AbstractBA ConcreteBA C01Check.
From Verif.proofs Require Import AbstractBAProofs ConcreteBAProofs.
Import ListNotations.
Local Open Scope N_scope.

(* ---------- lists of N ---------- *)
Lemma memN_In n l : memN n l = true <-> In n l.
Proof.
  unfold memN. rewrite existsb_exists. split.
  - intros [x [Hx E]]. apply N.eqb_eq in E. subst. exact Hx.
  - intros H. exists n. split; [exact H|apply N.eqb_refl].
Qed.

Lemma memN_false n l : memN n l = false <-> ~ In n l.
Proof.
  split.
  - intros H Hin. apply memN_In in Hin. congruence.
  - intros H. destruct (memN n l) eqn:E; [|reflexivity]. apply memN_In in E. contradiction.
Qed.

Lemma nodup_b_NoDup l : nodup_b l = true -> NoDup l.
Proof.
  induction l as [|x r IH]; cbn; intros H; [constructor|].
  apply andb_true_iff in H. destruct H as [H1 H2]. constructor.
  - apply negb_true_iff in H1. apply memN_false in H1. exact H1.
  - apply IH. exact H2.
Qed.

Lemma sumw_cons w x l : sumw w (x :: l) = w x + sumw w l.
Proof. reflexivity. Qed.

Lemma sumw_nil w : sumw w [] = 0.
Proof. reflexivity. Qed.

Lemma sumw_app w l1 l2 : sumw w (l1 ++ l2) = sumw w l1 + sumw w l2.
Proof.
  induction l1 as [|x r IH]; [rewrite sumw_nil; reflexivity|].
  rewrite <- app_comm_cons, !sumw_cons, IH. lia.
Qed.

Lemma sumw_zero w l : (forall n, In n l -> w n = 0) -> sumw w l = 0.
Proof.
  induction l as [|x r IH]; intros H; [reflexivity|].
  rewrite sumw_cons, (H x (or_introl eq_refl)), IH; [reflexivity|].
  intros n Hn. apply H. right. exact Hn.
Qed.

Lemma sumw_filter_le w f l : sumw w (filter f l) <= sumw w l.
Proof.
  induction l as [|x r IH]; cbn [filter]; [lia|].
  destruct (f x); rewrite ?sumw_cons; lia.
Qed.

Lemma sumw_filter_mono w (f g : N -> bool) l :
  (forall h, In h l -> f h = true -> g h = true) -> sumw w (filter f l) <= sumw w (filter g l).
Proof.
  induction l as [|x r IH]; intros H; cbn [filter]; [lia|].
  assert (IH' : sumw w (filter f r) <= sumw w (filter g r)).
  { apply IH. intros h Hh. apply H. right. exact Hh. }
  destruct (f x) eqn:Ef.
  - rewrite (H x (or_introl eq_refl) Ef). rewrite !sumw_cons. lia.
  - destruct (g x); rewrite ?sumw_cons; lia.
Qed.

(* the weight of a duplicate-free list is bounded by the weight of the part of the universe it covers *)
Lemma sumw_le_cover w u : NoDup u -> forall l, NoDup l ->
  (forall n, In n l -> ~ In n u -> w n = 0) ->
  sumw w l <= sumw w (filter (fun n => memN n l) u).
Proof.
  induction u as [|x u' IH]; intros Hu l Hl Hz.
  - cbn [filter]. rewrite sumw_zero; [lia|]. intros n Hn. apply Hz; [exact Hn|]. intros [].
  - inversion Hu as [|x0 u0 Hx Hu']; subst. cbn [filter].
    destruct (memN x l) eqn:Ex.
    + apply memN_In in Ex. destruct (in_split _ _ Ex) as [la [lb El]]. subst l.
      assert (Hl' : NoDup (la ++ lb)) by (eapply NoDup_remove_1; exact Hl).
      assert (Hx' : ~ In x (la ++ lb)) by (eapply NoDup_remove_2; exact Hl).
      rewrite sumw_app, sumw_cons.
      assert (Hrec : sumw w (la ++ lb) <= sumw w (filter (fun n => memN n (la ++ lb)) u')).
      { apply IH; [exact Hu'|exact Hl'|].
        intros n Hn Hnu. apply Hz.
        - apply in_app_iff in Hn. apply in_app_iff. destruct Hn as [Hn|Hn]; [left; exact Hn|right; right; exact Hn].
        - intros [E|Hin]; [subst; contradiction|contradiction]. }
      rewrite sumw_app in Hrec.
      assert (Ef : filter (fun n => memN n (la ++ x :: lb)) u' = filter (fun n => memN n (la ++ lb)) u').
      { apply filter_ext_in. intros n Hn.
        destruct (memN n (la ++ lb)) eqn:E1.
        - apply memN_In in E1. apply memN_In. apply in_app_iff in E1. apply in_app_iff.
          destruct E1 as [E1|E1]; [left; exact E1|right; right; exact E1].
        - apply memN_false in E1. apply memN_false. intros Hin. apply E1.
          apply in_app_iff in Hin. apply in_app_iff. destruct Hin as [Hin|[E|Hin]].
          + left. exact Hin.
          + subst. contradiction.
          + right. exact Hin. }
      rewrite Ef, sumw_cons. lia.
    + apply memN_false in Ex. apply IH; [exact Hu'|exact Hl|].
      intros n Hn Hnu. apply Hz; [exact Hn|]. intros [E|Hin]; [subst; contradiction|contradiction].
Qed.

Lemma splits_filter (f : N -> bool) l :
  In (filter f l, filter (fun x => negb (f x)) l) (splits l).
Proof.
  induction l as [|x r IH]; cbn; [left; reflexivity|].
  apply in_flat_map. exists (filter f r, filter (fun y => negb (f y)) r). split; [exact IH|].
  cbn. destruct (f x); cbn; [left|right; left]; reflexivity.
Qed.

(* ---------- the intersection test ---------- *)
Lemma inter_ok_sound honest byz w1 w2 t1 t2 :
  NoDup (honest ++ byz) ->
  (forall n, ~ In n (honest ++ byz) -> w1 n = 0) ->
  (forall n, ~ In n (honest ++ byz) -> w2 n = 0) ->
  inter_ok honest byz w1 w2 t1 t2 = true ->
  forall l1 l2, NoDup l1 -> NoDup l2 -> t1 <= sumw w1 l1 -> t2 <= sumw w2 l2 ->
  exists n, In n honest /\ In n l1 /\ In n l2.
Proof.
  intros Hu Hz1 Hz2 Hok l1 l2 Hl1 Hl2 Hq1 Hq2.
  destruct (existsb (fun h => memN h l1 && memN h l2) honest) eqn:Ex.
  - apply existsb_exists in Ex. destruct Ex as [h [Hh E]]. apply andb_true_iff in E. destruct E as [E1 E2].
    exists h. split; [exact Hh|]. split; apply memN_In; assumption.
  - exfalso.
    assert (Hno : forall h, In h honest -> memN h l2 = true -> negb (memN h l1) = true).
    { intros h Hh E2. destruct (memN h l1) eqn:E1; [|reflexivity].
      assert (existsb (fun h => memN h l1 && memN h l2) honest = true).
      { apply existsb_exists. exists h. split; [exact Hh|]. rewrite E1, E2. reflexivity. }
      congruence. }
    unfold inter_ok in Hok. rewrite forallb_forall in Hok.
    specialize (Hok _ (splits_filter (fun h => memN h l1) honest)). cbn [fst snd] in Hok.
    apply negb_true_iff in Hok. apply andb_false_iff in Hok.
    assert (B1 : sumw w1 l1 <= sumw w1 (filter (fun h => memN h l1) honest) + sumw w1 byz).
    { pose proof (sumw_le_cover w1 (honest ++ byz) Hu l1 Hl1 (fun n _ Hn => Hz1 n Hn)) as H.
      rewrite filter_app, sumw_app in H. pose proof (sumw_filter_le w1 (fun n => memN n l1) byz). lia. }
    assert (B2 : sumw w2 l2 <= sumw w2 (filter (fun h => negb (memN h l1)) honest) + sumw w2 byz).
    { pose proof (sumw_le_cover w2 (honest ++ byz) Hu l2 Hl2 (fun n _ Hn => Hz2 n Hn)) as H.
      rewrite filter_app, sumw_app in H. pose proof (sumw_filter_le w2 (fun n => memN n l2) byz).
      pose proof (sumw_filter_mono w2 (fun h => memN h l2) (fun h => negb (memN h l1)) honest Hno). lia. }
    destruct Hok as [H|H]; apply N.leb_gt in H; lia.
Qed.

Lemma weight_of_outside univ tbl p s n : ~ In n univ -> weight_of univ tbl p s n = 0.
Proof. intros H. unfold weight_of. apply memN_false in H. rewrite H. reflexivity. Qed.

Lemma find_ps_absent univ tbl p s :
  find (fun e => Nat.eqb (fst (fst e)) p && Nat.eqb (snd (fst e)) s) tbl = None ->
  forall l, sumw (weight_of univ tbl p s) l = 0.
Proof.
  intros H l. apply sumw_zero. intros n _. unfold weight_of, find_ps. rewrite H.
  destruct (memN n univ); reflexivity.
Qed.

Lemma step_threshold_pos ths s :
  forallb (fun t => N.ltb 0 t) [nth 0 ths 0; nth 1 ths 0; nth 2 ths 0; nth 3 ths 0; nth 4 ths 0; nth 5 ths 0] = true ->
  0 < step_threshold ths s.
Proof.
  cbn [forallb]. intros H. repeat (apply andb_true_iff in H; destruct H as [?H H]).
  unfold step_threshold.
  repeat match goal with |- context [if ?c then _ else _] => destruct c end;
    apply N.ltb_lt; assumption.
Qed.

Section QI.
Variables ths honest byz : list N.
Variable tbl : wtable.
Hypothesis Hqi : qi_b ths honest byz tbl = true.

Local Notation W := (weight_of (honest ++ byz) tbl).
Local Notation TH := (step_threshold ths).
Local Notation quorum := (quorum_weights W TH).
Definition honestP (n : N) : Prop := honest_b honest n = true.

Lemma qi_parts :
  NoDup (honest ++ byz) /\ (forall s, 0 < TH s) /\
  (forall e, In e tbl -> inter_ok honest byz (W (fst (fst e)) (snd (fst e))) (W (fst (fst e)) (snd (fst e)))
                                  (TH (snd (fst e))) (TH (snd (fst e))) = true) /\
  (forall ec en, In ec tbl -> In en tbl -> snd (fst ec) = 2%nat -> (fst (fst ec) <= fst (fst en))%nat ->
                 (3 <= snd (fst en))%nat ->
                 inter_ok honest byz (W (fst (fst ec)) 2%nat) (W (fst (fst en)) (snd (fst en))) (TH 2%nat) (TH (snd (fst en))) = true).
Proof.
  pose proof Hqi as Hq. unfold qi_b in Hq.
  apply andb_true_iff in Hq. destruct Hq as [Hq Hcross].
  apply andb_true_iff in Hq. destruct Hq as [Hq Hsame].
  apply andb_true_iff in Hq. destruct Hq as [Hnd Hpos].
  split; [apply nodup_b_NoDup; exact Hnd|].
  split; [intros s; apply step_threshold_pos; exact Hpos|].
  split.
  - intros e He. rewrite forallb_forall in Hsame. exact (Hsame e He).
  - intros ec en Hec Hen Hs Hp H3. rewrite forallb_forall in Hcross. specialize (Hcross ec Hec). cbn beta in Hcross.
    rewrite Hs in Hcross. cbn [Nat.eqb negb orb] in Hcross. rewrite forallb_forall in Hcross.
    specialize (Hcross en Hen). cbn beta in Hcross.
    apply Nat.leb_le in Hp, H3. rewrite Hp, H3 in Hcross. cbn [andb negb orb] in Hcross. exact Hcross.
Qed.

Lemma quorum_entry p s Q : quorum p s Q ->
  exists e, In e tbl /\ fst (fst e) = p /\ snd (fst e) = s.
Proof.
  intros [l [_ [_ Hs]]]. destruct qi_parts as [_ [Hpos _]].
  destruct (find (fun e => Nat.eqb (fst (fst e)) p && Nat.eqb (snd (fst e)) s) tbl) as [e|] eqn:Ef.
  - apply find_some in Ef. destruct Ef as [Hin E]. apply andb_true_iff in E. destruct E as [E1 E2].
    apply Nat.eqb_eq in E1, E2. exists e. auto.
  - rewrite (find_ps_absent (honest ++ byz) tbl p s Ef l) in Hs. specialize (Hpos s). lia.
Qed.

Theorem qi_same_holds : forall p s Q1 Q2, quorum p s Q1 -> quorum p s Q2 ->
  exists n, honestP n /\ Q1 n /\ Q2 n.
Proof.
  intros p s Q1 Q2 H1 H2. destruct (quorum_entry p s Q1 H1) as [e [He [Ep Es]]].
  destruct qi_parts as [Hu [_ [Hsame _]]]. specialize (Hsame e He). rewrite Ep, Es in Hsame.
  destruct H1 as [l1 [N1 [I1 S1]]], H2 as [l2 [N2 [I2 S2]]].
  destruct (inter_ok_sound honest byz (W p s) (W p s) (TH s) (TH s) Hu
              (fun n => weight_of_outside _ tbl p s n) (fun n => weight_of_outside _ tbl p s n) Hsame l1 l2 N1 N2 S1 S2)
    as [n [Hh [Hn1 Hn2]]].
  exists n. split; [apply memN_In; exact Hh|]. split; [apply I1|apply I2]; assumption.
Qed.

Theorem qi_cross_holds : forall (p p' s : nat) Qc Qn, (p <= p')%nat -> (3 <= s)%nat ->
  quorum p 2%nat Qc -> quorum p' s Qn -> exists n, honestP n /\ Qc n /\ Qn n.
Proof.
  intros p p' s Qc Qn Hp Hs H1 H2.
  destruct (quorum_entry p 2%nat Qc H1) as [ec [Hec [Ecp Ecs]]].
  destruct (quorum_entry p' s Qn H2) as [en [Hen [Enp Ens]]].
  destruct qi_parts as [Hu [_ [_ Hcross]]].
  assert (Hc := Hcross ec en Hec Hen Ecs). rewrite Ecp, Enp, Ens in Hc. specialize (Hc Hp Hs).
  destruct H1 as [l1 [N1 [I1 S1]]], H2 as [l2 [N2 [I2 S2]]].
  destruct (inter_ok_sound honest byz (W p 2%nat) (W p' s) (TH 2%nat) (TH s) Hu
              (fun n => weight_of_outside _ tbl p 2%nat n) (fun n => weight_of_outside _ tbl p' s n) Hc l1 l2 N1 N2 S1 S2)
    as [n [Hh [Hn1 Hn2]]].
  exists n. split; [apply memN_In; exact Hh|]. split; [apply I1|apply I2]; assumption.
Qed.

Local Notation QD := (qdec ths honest byz tbl).

Lemma qdec_sound p s l : QD p s l = true -> quorum p s (fun n => In n l).
Proof. apply qdec_weights_sound. Qed.

Lemma qdec_nil p s : QD p s [] = false.
Proof.
  unfold qdec, qdec_weights. cbn. destruct qi_parts as [_ [Hpos _]]. specialize (Hpos s).
  apply N.leb_gt. exact Hpos.
Qed.

(* a trace accepted by the executable rule checker is a reachable trace of the abstract protocol, and
   under the decided intersection hypotheses all its cert quorums agree *)
Theorem checked_trace_safe : forall t,
  first_bad (honest_b honest) QD t = None ->
  reachable N N N.eq_dec N.eq_dec honestP quorum t /\
  forall p v p' v', has_q N N quorum t p 2 (Some v) -> has_q N N quorum t p' 2 (Some v') -> v = v'.
Proof.
  intros t Hfb.
  assert (Hr : reachable N N N.eq_dec N.eq_dec honestP quorum t).
  { apply (reachable_b_sound (honest_b honest) QD quorum qdec_sound). apply first_bad_none. exact Hfb. }
  split; [exact Hr|].
  intros p v p' v'. apply (ba_safety N N N.eq_dec N.eq_dec honestP quorum qi_same_holds qi_cross_holds t Hr).
Qed.

(* ---------- the executable safety monitor ---------- *)
Lemma all_same_spec l : all_same l = true <-> forall x y, In x l -> In y l -> x = y.
Proof.
  destruct l as [|a r]; cbn.
  - split; [intros _ x y []|reflexivity].
  - rewrite forallb_forall. split.
    + intros H x y Hx Hy.
      assert (Ha : forall z, In z (a :: r) -> a = z).
      { intros z [E|Hz]; [exact E|]. apply N.eqb_eq. apply H. exact Hz. }
      rewrite <- (Ha x Hx), <- (Ha y Hy). reflexivity.
    + intros H z Hz. apply N.eqb_eq. apply H; [left; reflexivity|right; exact Hz].
Qed.

Lemma voters_in_trace (t : list (AbstractBA.event N N)) p s x n : In n (voters t p s x) ->
  exists v, In (Vote N N v) t /\ per N N v = p /\ stp N N v = s /\ val N N v = x.
Proof.
  induction t as [|e t IH]; cbn; [intros []|].
  destruct e as [v|h q w].
  - destruct (Nat.eqb (per N N v) p && Nat.eqb (stp N N v) s && opt_eqb (val N N v) x) eqn:E.
    + intros [_|H].
      * apply andb_true_iff in E. destruct E as [E E3]. apply andb_true_iff in E. destruct E as [E1 E2].
        apply Nat.eqb_eq in E1, E2. apply opt_eqb_eq in E3. exists v. auto.
      * destruct (IH H) as [v' [Hv' R]]. exists v'. split; [right; exact Hv'|exact R].
    + intros H. destruct (IH H) as [v' [Hv' R]]. exists v'. split; [right; exact Hv'|exact R].
  - intros H. destruct (IH H) as [v' [Hv' R]]. exists v'. split; [right; exact Hv'|exact R].
Qed.

Lemma cert_vals_complete t p y :
  has_q_b QD t p 2 (Some y) = true -> In y (cert_vals ths honest byz tbl t).
Proof.
  intros H. unfold cert_vals. apply in_flat_map.
  assert (Hne : voters t p 2 (Some y) <> []).
  { intros E. unfold has_q_b in H. rewrite E, qdec_nil in H. discriminate. }
  destruct (voters t p 2 (Some y)) as [|n r] eqn:Ev; [contradiction|].
  destruct (voters_in_trace t p 2%nat (Some y) n) as [v [Hv [Ep [Es Ex]]]]; [rewrite Ev; left; reflexivity|].
  exists p. split.
  - unfold periods_of. apply nodup_In. apply in_map_iff. exists (Vote N N v). split; [exact Ep|exact Hv].
  - unfold cert_vals_at. apply filter_In. split; [|exact H].
    apply nodup_In. apply in_flat_map. exists (Vote N N v). split; [exact Hv|].
    rewrite Ep, Es, Ex, !Nat.eqb_refl. cbn. left. reflexivity.
Qed.

Lemma cert_vals_sound t y : In y (cert_vals ths honest byz tbl t) -> exists p, has_q_b QD t p 2 (Some y) = true.
Proof.
  unfold cert_vals. intros H. apply in_flat_map in H. destruct H as [p [_ H]].
  unfold cert_vals_at in H. apply filter_In in H. exists p. apply H.
Qed.

Theorem certs_agree_b_iff t :
  certs_agree_b ths honest byz tbl t = true <->
  forall p x p' y, has_q_b QD t p 2 (Some x) = true -> has_q_b QD t p' 2 (Some y) = true -> x = y.
Proof.
  unfold certs_agree_b. rewrite all_same_spec. split.
  - intros H p x p' y Hx Hy. apply H; eapply cert_vals_complete; eassumption.
  - intros H x y Hx Hy. destruct (cert_vals_sound t x Hx) as [p Hp], (cert_vals_sound t y Hy) as [p' Hp'].
    eapply H; eassumption.
Qed.

Theorem checked_trace_certs_agree t :
  first_bad (honest_b honest) QD t = None -> certs_agree_b ths honest byz tbl t = true.
Proof.
  intros Hfb. apply certs_agree_b_iff. intros p x p' y Hx Hy.
  destruct (checked_trace_safe t Hfb) as [_ Hs].
  apply (Hs p x p' y); apply (has_q_b_sound (honest_b honest) QD quorum qdec_sound); assumption.
Qed.

End QI.

(* ---------- anti-vacuity: concrete committees ---------- *)
Definition ex_ths : list N := [2267; 1112; 3838; 320; 1768; 4560].
(* five senders with 20 % of the stake each (weights as the simulator computes them); sender 5 Byzantine *)
Definition ex_tbl : wtable :=
  [ (0%nat, 1%nat, combine [1;2;3;4;5] [598;599;600;601;602]);
    (0%nat, 2%nat, combine [1;2;3;4;5] [301;302;303;304;300]);
    (0%nat, 3%nat, combine [1;2;3;4;5] [1000;1001;1002;1003;1004]);
    (0%nat, 253%nat, combine [1;2;3;4;5] [100;101;102;103;104]);
    (1%nat, 1%nat, combine [1;2;3;4;5] [601;602;598;599;600]);
    (1%nat, 2%nat, combine [1;2;3;4;5] [304;300;301;302;303]);
    (1%nat, 255%nat, combine [1;2;3;4;5] [1200;1201;1202;1203;1204]) ].
(* the same committees when senders 3, 4 and 5 (60 %) are Byzantine *)
Lemma ex_qi_holds : qi_b ex_ths [1;2;3;4] [5] ex_tbl = true.
Proof. vm_compute. reflexivity. Qed.
Lemma ex_qi_fails_over_bound : qi_b ex_ths [1;2] [3;4;5] ex_tbl = false.
Proof. vm_compute. reflexivity. Qed.

Local Notation V := (AbstractBA.Vote N N).
Local Notation mk := (AbstractBA.mkVote N N).
Local Notation E := (AbstractBA.Enter N N).
(* newest first: period 0 fails (next quorum for bottom with the Byzantine sender's help: 1,2,3,5 next-vote
   bottom -- sender 4 does not), period 1 certifies value 7 *)
Definition ex_run : list (AbstractBA.event N N) :=
  [ V (mk 4 1%nat 2%nat (Some 7)); V (mk 3 1%nat 2%nat (Some 7)); V (mk 2 1%nat 2%nat (Some 7)); V (mk 1 1%nat 2%nat (Some 7));
    V (mk 4 1%nat 1%nat (Some 7)); V (mk 3 1%nat 1%nat (Some 7)); V (mk 2 1%nat 1%nat (Some 7)); V (mk 1 1%nat 1%nat (Some 7));
    E 4 1%nat (ViaNext N None); E 3 1%nat (ViaNext N None); E 2 1%nat (ViaNext N None); E 1 1%nat (ViaNext N None);
    V (mk 5 0%nat 3%nat None); V (mk 3 0%nat 3%nat None); V (mk 2 0%nat 3%nat None); V (mk 1 0%nat 3%nat None);
    V (mk 5 0%nat 1%nat (Some 9)); V (mk 2 0%nat 1%nat (Some 8)); V (mk 1 0%nat 1%nat (Some 7)) ].

Lemma ex_run_accepted :
  first_bad (honest_b [1;2;3;4]) (qdec ex_ths [1;2;3;4] [5] ex_tbl) ex_run = None /\
  has_q_b (qdec ex_ths [1;2;3;4] [5] ex_tbl) ex_run 1 2 (Some 7) = true /\
  certs_agree_b ex_ths [1;2;3;4] [5] ex_tbl ex_run = true.
Proof. vm_compute. repeat split; reflexivity. Qed.

(* the rule the real code was seen to break only when the intersection hypotheses are already false
   (Staging overwritten by a cert threshold for another value): a cert-voter next-votes bottom *)
Definition ex_run_bad : list (AbstractBA.event N N) :=
  [ V (mk 1 0%nat 3%nat None);
    V (mk 1 0%nat 2%nat (Some 7));
    V (mk 5 0%nat 1%nat (Some 7)); V (mk 4 0%nat 1%nat (Some 7)); V (mk 3 0%nat 1%nat (Some 7));
    V (mk 2 0%nat 1%nat (Some 7)); V (mk 1 0%nat 1%nat (Some 7)) ].
Lemma ex_run_bad_flagged :
  first_bad (honest_b [1;2;3;4]) (qdec ex_ths [1;2;3;4] [5] ex_tbl) ex_run_bad = Some 6%nat.
Proof. vm_compute. reflexivity. Qed.
