(* C37: vector commitments (BuildVectorCommitmentTree / VerifyVectorCommitment). *)
From Coq Require Import NArith List Bool Arith Lia ZifyN ZifyNat ZifyBool Sorted Permutation.
From Verif.model Require Import MerkleArray.
From Verif.proofs Require Import MerkleArrayBasics MerkleArrayStruct MerkleArraySound MerkleArrayTop.
Import ListNotations.

Section VC.
  Variable E : Type.
  Variable s : nat.
  Variable hleaf : E -> digest.
  Variable hbottom : digest.
  Variable hnode : list N -> digest.
  Hypothesis Hlen_leaf : forall e, length (hleaf e) = s.
  Hypothesis Hlen_bottom : length hbottom = s.
  Hypothesis Hlen_node : forall b, length (hnode b) = s.
  #[local] Set Default Proof Using "Hlen_leaf Hlen_bottom Hlen_node".

  Notation nextLayer := (nextLayer s hnode).
  Notation levelsOf := (levelsOf s hnode).
  Notation vloop := (vloop s hnode).
  Notation chain := (chain s hnode).
  Notation buildVC := (buildVC E s hleaf hbottom hnode).
  Notation vcLeaves := (vcLeaves E hleaf hbottom).
  Notation vcLeaf := (vcLeaf E hleaf hbottom).
  Notation verify_gen := (verify_gen E s hleaf hnode).
  Notation verifyVC_gen := (verifyVC_gen E s hleaf hnode).
  Notation verifyVC := (verifyVC E s hleaf hnode).
  Notation claimpl := (claimpl E hleaf).
  Notation nextLayer_length := (nextLayer_length s hnode Hlen_node).
  Notation levelsOf_chain := (levelsOf_chain s hnode Hlen_node).
  Notation chain_nonempty := (chain_nonempty s hnode Hlen_node).
  Notation claimpl_in := (claimpl_in E s hleaf hbottom hnode Hlen_leaf Hlen_bottom Hlen_node).
  Notation claimpl_nonempty := (claimpl_nonempty E s hleaf hbottom hnode Hlen_leaf Hlen_bottom Hlen_node).
  Notation hints_ok_of_forallb := (hints_ok_of_forallb E s hleaf hbottom hnode Hlen_leaf Hlen_bottom Hlen_node).
  Notation verify_gen_nonempty := (verify_gen_nonempty E s hleaf hbottom hnode Hlen_leaf Hlen_bottom Hlen_node).
  Notation rootOf_levels := (rootOf_levels E s hleaf hbottom hnode Hlen_leaf Hlen_bottom Hlen_node).
  Notation verify_complete_core := (verify_complete_core E s hleaf hbottom hnode Hlen_leaf Hlen_bottom Hlen_node).
  Notation prove_nonempty := (prove_nonempty E s hleaf hbottom hnode Hlen_leaf Hlen_bottom Hlen_node).
  Notation verify_depth_irrelevant := (verify_depth_irrelevant E s hleaf hbottom hnode Hlen_leaf Hlen_bottom Hlen_node).

  (* ---- shape ---- *)
  Definition nOf (arr : list E) : N := N.of_nat (length arr).
  Definition pathOf (arr : list E) : N := fst (vcShape (nOf arr)).
  Definition paddedOf (arr : list E) : N := snd (vcShape (nOf arr)).
  (* exponent m with paddedLen = 2^m *)
  Definition expOf (arr : list E) : nat := if (nOf arr <=? 1)%N then 0%nat else N.to_nat (pathOf arr).

  Lemma size_facts : forall n : N, (2 <= n)%N ->
    (n <= 2 ^ N.size (n - 1))%N /\ (1 <= N.size (n - 1))%N /\ ((n <= 2 ^ 63)%N -> (N.size (n - 1) <= 63)%N).
  Proof.
    intros n Hn. pose proof (N.size_gt (n - 1)) as Hgt. pose proof (N.size_le (n - 1)) as Hle.
    rewrite N.succ_double_spec in Hle.
    split; [lia|]. split.
    - destruct (N.eq_dec (N.size (n - 1)) 0) as [E0|]; [|lia]. rewrite E0 in Hgt. cbn in Hgt. lia.
    - intros Hbig. assert (H64 : (2 ^ N.size (n - 1) < 2 ^ 64)%N).
      { change (2 ^ 64)%N with (2 * 2 ^ 63)%N. lia. }
      apply N.pow_lt_mono_r_iff in H64; lia.
  Qed.

  Lemma padded_pow : forall arr, N.to_nat (paddedOf arr) = (2 ^ expOf arr)%nat.
  Proof.
    intros arr. unfold paddedOf, expOf, pathOf, vcShape.
    destruct (N.leb_spec (nOf arr) 1); cbn [fst snd]; [reflexivity|].
    rewrite N2Nat.inj_pow. reflexivity.
  Qed.

  Lemma vcLeaves_length : forall arr, length (vcLeaves arr) = N.to_nat (paddedOf arr).
  Proof.
    intros arr. unfold MerkleArray.vcLeaves, paddedOf. fold (nOf arr).
    destruct (vcShape (nOf arr)) as [pl pd]. cbn [snd]. rewrite map_length, seq_length. reflexivity.
  Qed.

  Lemma vcLeaves_nth : forall arr k, (k < length (vcLeaves arr))%nat ->
    nth k (vcLeaves arr) [] = vcLeaf arr (pathOf arr) (N.of_nat k).
  Proof.
    intros arr k Hk. rewrite vcLeaves_length in Hk.
    unfold MerkleArray.vcLeaves, pathOf, paddedOf in *. fold (nOf arr) in *.
    destruct (vcShape (nOf arr)) as [pl pd]. cbn [fst snd] in *.
    rewrite (nth_indep _ [] (vcLeaf arr pl (N.of_nat 0))) by (rewrite map_length, seq_length; assumption).
    rewrite (map_nth (fun k => vcLeaf arr pl (N.of_nat k))). rewrite seq_nth by assumption. reflexivity.
  Qed.

  Lemma vcLeaves_nonempty : forall arr, vcLeaves arr <> [].
  Proof.
    intros arr H. apply (f_equal (@length _)) in H. rewrite vcLeaves_length, padded_pow in H. cbn in H.
    pose proof (Nat.pow_nonzero 2 (expOf arr)). lia.
  Qed.

  (* ---- a chain over 2^m leaves has m+1 levels and is full ---- *)
  Lemma chain_pow2 : forall lv, chain lv -> forall m, length (hd [] lv) = (2 ^ m)%nat ->
    length lv = S m /\ full lv.
  Proof.
    induction 1 as [top Ht | l rest Hl Hc IH]; intros m Hm; cbn [hd] in *.
    - assert (m = 0)%nat.
      { destruct m; [reflexivity|]. exfalso. rewrite Ht in Hm.
        assert (Hp : (2 ^ S m = 2 * 2 ^ m)%nat) by reflexivity. rewrite Hp in Hm.
        assert (0 < 2 ^ m)%nat by (apply Nat.neq_0_lt_0, Nat.pow_nonzero; discriminate). lia. }
      subst m. split; [reflexivity|]. intros k Hk. cbn in Hk. lia.
    - destruct m as [|m]; [cbn in Hm; lia|].
      assert (Hnl : length (nextLayer l) = (2 ^ m)%nat).
      { rewrite nextLayer_length, Hm. cbn [Nat.pow]. rewrite Nat.div2_div.
        replace (2 * 2 ^ m + 1)%nat with (1 + 2 ^ m * 2)%nat by lia. rewrite Nat.div_add by lia. reflexivity. }
      destruct (IH m Hnl) as [IH1 IH2]. cbn [length] in *. split; [lia|].
      intros k Hk. unfold L. destruct k as [|k].
      + cbn [nth]. rewrite Hm, Hnl. cbn [Nat.pow]. reflexivity.
      + change (nth (S k) (l :: nextLayer l :: rest) []) with (nth k (nextLayer l :: rest) []).
        change (nth (S (S k)) (l :: nextLayer l :: rest) []) with (nth (S k) (nextLayer l :: rest) []).
        apply (IH2 k). cbn [length] in Hk |- *. lia.
  Qed.

  Lemma depthOf_vc : forall arr, depthOf (buildVC arr) = N.of_nat (expOf arr).
  Proof.
    intros arr. unfold depthOf, MerkleArray.buildVC. cbn [t_levels].
    destruct (levelsOf_chain _ (vcLeaves_nonempty arr)) as [Hc Hhd].
    destruct (chain_pow2 _ Hc (expOf arr)) as [Hl _]; [rewrite Hhd, vcLeaves_length; apply padded_pow|].
    rewrite Hl. f_equal. lia.
  Qed.

  (* ---- index conversion between the claimed depth and the tree ---- *)
  Lemma vcIndex_some : forall i d p, vcIndex i d = Some p ->
    (i < shl1 d)%N /\ p = rev_bits (N.to_nat d) i.
  Proof.
    intros i d p H. unfold vcIndex in H. destruct (N.ltb_spec i (shl1 d)); [|discriminate].
    inversion H. auto.
  Qed.

  Lemma shl1_lt64 : forall d, (d < 64)%N -> shl1 d = (2 ^ d)%N.
  Proof. intros d H. unfold shl1. destruct (N.ltb_spec d 64); [reflexivity | lia]. Qed.

  Lemma shl1_pos : forall i d, (i < shl1 d)%N -> (d < 64)%N.
  Proof. intros i d H. unfold shl1 in H. destruct (N.ltb_spec d 64); [assumption | lia]. Qed.

  (* the tree's own index map: leaf position p of the padded array holds element rev(p) *)
  Lemma tree_index : forall arr i p,
    vcIndex i (depthOf (buildVC arr)) = Some p ->
    (N.to_nat p < length (vcLeaves arr))%nat /\
    forall lsb, vcIndex p (pathOf arr) = Some lsb -> lsb = i.
  Proof.
    intros arr i p H. rewrite depthOf_vc in H. apply vcIndex_some in H. destruct H as [Hi ->].
    pose proof (shl1_pos _ _ Hi) as Hd. rewrite (shl1_lt64 _ Hd) in Hi.
    rewrite Nat2N.id. rewrite vcLeaves_length, padded_pow.
    pose proof (rev_bits_lt (expOf arr) i) as Hr.
    split.
    - assert (Hlt : (N.to_nat (rev_bits (expOf arr) i) < N.to_nat (2 ^ N.of_nat (expOf arr)))%nat) by lia.
      rewrite N2Nat.inj_pow, Nat2N.id in Hlt. exact Hlt.
    - intros lsb Hl. apply vcIndex_some in Hl. destruct Hl as [_ ->].
      unfold expOf, pathOf, vcShape in *. destruct (N.leb_spec (nOf arr) 1); cbn [fst] in *.
      + cbn in Hi. assert (i = 0)%N by lia. subst i. reflexivity.
      + rewrite N2Nat.id in *. apply rev_bits_involutive. rewrite N2Nat.id. exact Hi.
  Qed.

  Lemma elem_index : forall arr i, (N.to_nat i < length arr)%nat -> (nOf arr <= 2 ^ 63)%N ->
    exists p, vcIndex i (depthOf (buildVC arr)) = Some p /\
              (N.to_nat p < length (vcLeaves arr))%nat /\
              vcIndex p (pathOf arr) = Some i /\ (p < shl1 (depthOf (buildVC arr)))%N.
  Proof.
    intros arr i Hi Hbig. rewrite depthOf_vc.
    assert (Hcase : (nOf arr <= 1 /\ i = 0 /\ expOf arr = 0%nat /\ pathOf arr = 1)%N \/
                    (2 <= nOf arr /\ N.of_nat (expOf arr) = pathOf arr /\ pathOf arr <= 63 /\ i < 2 ^ pathOf arr)%N).
    { unfold expOf, pathOf, vcShape, nOf in *. destruct (N.leb_spec (N.of_nat (length arr)) 1); cbn [fst].
      - left. repeat split; try reflexivity; lia.
      - right. destruct (size_facts (N.of_nat (length arr)) ltac:(lia)) as (S1 & S2 & S3).
        rewrite N2Nat.id. specialize (S3 Hbig). repeat split; lia. }
    destruct Hcase as [(Hn & -> & He & Hp)|(Hn & He & Hp & Hip)].
    - rewrite He, Hp. exists 0%N. cbn. rewrite vcLeaves_length, padded_pow, He. cbn. repeat split; lia.
    - rewrite He. unfold vcIndex at 1. rewrite (shl1_lt64 (pathOf arr)) by lia.
      destruct (N.ltb_spec i (2 ^ pathOf arr)); [|lia].
      eexists. split; [reflexivity|].
      pose proof (rev_bits_lt (N.to_nat (pathOf arr)) i) as Hr. rewrite N2Nat.id in Hr.
      split; [|split].
      + rewrite vcLeaves_length, padded_pow. rewrite <- He in Hr at 2.
        assert (Hlt : (N.to_nat (rev_bits (N.to_nat (pathOf arr)) i) < N.to_nat (2 ^ N.of_nat (expOf arr)))%nat) by lia.
        rewrite N2Nat.inj_pow, Nat2N.id in Hlt. exact Hlt.
      + unfold vcIndex. rewrite (shl1_lt64 (pathOf arr)) by lia.
        destruct (N.ltb_spec (rev_bits (N.to_nat (pathOf arr)) i) (2 ^ pathOf arr)); [|lia].
        f_equal. apply rev_bits_involutive. rewrite N2Nat.id. assumption.
      + exact Hr.
  Qed.

  Lemma convertIndexes_spec : forall elems d el, convertIndexes E elems d = Some el ->
    (forall i e, In (i, e) elems -> exists p, vcIndex i d = Some p /\ In (p, e) el) /\
    (forall p e, In (p, e) el -> exists i, vcIndex i d = Some p /\ In (i, e) elems) /\
    length el = length elems.
  Proof.
    induction elems as [|[i0 e0] elems IH]; intros d el H.
    - cbn in H. inversion H. repeat split; intros; try contradiction.
    - unfold convertIndexes in H. cbn [map_opt' fst snd] in H.
      destruct (vcIndex i0 d) as [p0|] eqn:E0; [|discriminate].
      fold (convertIndexes E elems d) in H.
      destruct (convertIndexes E elems d) as [el'|] eqn:E1; [|discriminate]. inversion H as [Hel]. clear H. subst el.
      destruct (IH d el' E1) as (I1 & I2 & I3). repeat split.
      + intros i e [Heq|Hin]; [inversion Heq; subst i e; exists p0; split; [assumption | left; reflexivity]|].
        destruct (I1 i e Hin) as (p & ? & ?). exists p. split; [assumption | right; assumption].
      + intros p e [Heq|Hin]; [inversion Heq; subst p e; exists i0; split; [assumption | left; reflexivity]|].
        destruct (I2 p e Hin) as (i & ? & ?). exists i. split; [assumption | right; assumption].
      + cbn. rewrite I3. reflexivity.
  Qed.

  (* ================= soundness ================= *)
  Section SoundVC.
    Hypothesis Hinj_node : forall b1 b2, length b1 = (2 * s)%nat -> length b2 = (2 * s)%nat ->
                                         hnode b1 = hnode b2 -> b1 = b2.
    Hypothesis Hinj_leaf : forall e1 e2, hleaf e1 = hleaf e2 -> e1 = e2.
    Hypothesis Hsep_leaf : forall e b, hleaf e <> hnode b.
    Hypothesis Hsep_bottom : forall b, hbottom <> hnode b.
    Hypothesis Hsep_leaf_bottom : forall e, hleaf e <> hbottom.
    Hypothesis Hnz_leaf : forall e, hleaf e <> zeros s.
    Hypothesis Hnz_bottom : hbottom <> zeros s.
    Hypothesis Hnz_node : forall b, hnode b <> zeros s.
    #[local] Set Default Proof Using "All".

    Definition isleafV (h : digest) : Prop := (exists e, h = hleaf e) \/ h = hbottom.

    Lemma vcLeaf_isleaf : forall arr pl p, isleafV (vcLeaf arr pl p).
    Proof.
      intros. unfold MerkleArray.vcLeaf, isleafV. destruct (vcIndex p pl); [|tauto].
      destruct (nth_error arr _); [left; eauto | tauto].
    Qed.

    (* every accepted (index, element) sits, under the index map of the CLAIMED depth, on a
       leaf of the padded array holding exactly that element *)
    Theorem sound_vc_leaf : forall arr elems pf,
      verifyVC (rootOf (buildVC arr)) elems pf = VOk ->
      forall i e, In (i, e) elems ->
        exists p, vcIndex i (p_depth pf) = Some p /\
                  (N.to_nat p < length (vcLeaves arr))%nat /\
                  exists lsb, vcIndex p (pathOf arr) = Some lsb /\ nth_error arr (N.to_nat lsb) = Some e.
    Proof.
      intros arr elems pf Hv i e Hin.
      unfold MerkleArray.verifyVC, MerkleArray.verifyVC_gen in Hv.
      destruct (convertIndexes E elems (p_depth pf)) as [el|] eqn:Ec; [|discriminate].
      destruct (convertIndexes_spec _ _ _ Ec) as (C1 & C2 & C3).
      destruct (C1 i e Hin) as (p & Hp & Hpin). exists p. split; [assumption|].
      assert (Hne : el <> []) by (intros ->; destruct Hpin).
      rewrite verify_gen_nonempty in Hv by assumption.
      destruct (existsb _ el); [discriminate|].
      destruct (forallb (hint_len_ok s) (p_path pf)) eqn:Hf; [|discriminate]. cbn [andb negb] in Hv.
      apply hints_ok_of_forallb in Hf.
      destruct (levelsOf_chain _ (vcLeaves_nonempty arr)) as [Hc Hhd].
      unfold MerkleArray.buildVC in Hv. rewrite rootOf_levels in Hv by (apply chain_nonempty; assumption).
      destruct (chain_pow2 _ Hc (expOf arr)) as [_ Hfull]; [rewrite Hhd, vcLeaves_length; apply padded_pow|].
      assert (Hleaves : Forall isleafV (hd [] (levelsOf (vcLeaves arr)))).
      { rewrite Hhd. apply Forall_forall. intros h Hh. destruct (In_nth _ _ [] Hh) as (k & Hk & <-).
        rewrite vcLeaves_nth by assumption. apply vcLeaf_isleaf. }
      assert (Hpl : forall it, In it (claimpl el) -> isleafV (snd it)).
      { intros [p' h] Hit. apply claimpl_in in Hit. destruct Hit as (e' & _ & ->). left. exists e'. reflexivity. }
      pose proof (sound_core s hnode Hlen_node Hinj_node Hnz_node isleafV) as SC.
      specialize (SC ltac:(intros h b [[e' ->]| ->]; [apply Hsep_leaf | apply Hsep_bottom])
                     ltac:(intros h [[e' ->]| ->]; [apply Hlen_leaf | apply Hlen_bottom])
                     ltac:(intros h [[e' ->]| ->]; [apply Hnz_leaf | apply Hnz_bottom])
                     (levelsOf (vcLeaves arr)) Hc Hleaves
                     _ (claimpl el) (p_path pf) (claimpl_nonempty el Hne) Hpl Hf Hv (p, hleaf e)).
      destruct SC as (_ & S2 & S3); [apply claimpl_in; eauto|].
      cbn [fst snd] in *. rewrite Hhd in *. specialize (S3 Hfull). specialize (S2 S3).
      split; [assumption|].
      rewrite vcLeaves_nth in S2 by assumption. rewrite N2Nat.id in S2.
      unfold MerkleArray.vcLeaf in S2.
      destruct (vcIndex p (pathOf arr)) as [lsb|]; [|exfalso; apply (Hsep_leaf_bottom e); symmetry; assumption].
      exists lsb. split; [reflexivity|].
      destruct (nth_error arr (N.to_nat lsb)) as [e'|]; [|exfalso; apply (Hsep_leaf_bottom e); symmetry; assumption].
      apply Hinj_leaf in S2. subst e'. reflexivity.
    Qed.

    (* with the true tree depth: element i of the array is e (position binding) *)
    Theorem sound_vc : forall arr elems pf,
      verifyVC (rootOf (buildVC arr)) elems pf = VOk ->
      p_depth pf = depthOf (buildVC arr) ->
      forall i e, In (i, e) elems -> nth_error arr (N.to_nat i) = Some e.
    Proof.
      intros arr elems pf Hv Hd i e Hin.
      destruct (sound_vc_leaf arr elems pf Hv i e Hin) as (p & Hp & Hpl & lsb & Hl & He).
      rewrite Hd in Hp. destruct (tree_index arr i p Hp) as [_ Hback].
      rewrite (Hback lsb Hl) in He. exact He.
    Qed.
  End SoundVC.
  #[local] Set Default Proof Using "Hlen_leaf Hlen_bottom Hlen_node".

  (* ================= completeness ================= *)
  Lemma map_opt'_all : forall {A B} (f : A -> option B) (g : A -> B) l,
    (forall x, In x l -> f x = Some (g x)) -> map_opt' f l = Some (map g l).
  Proof.
    intros A B f g. induction l as [|x l IH]; intros H; [reflexivity|].
    cbn [map_opt' map]. rewrite (H x (or_introl eq_refl)), IH; [reflexivity|].
    intros y Hy. apply H. right. assumption.
  Qed.

  Theorem complete_vc : forall arr idxs elems,
    idxs <> [] -> (forall i, In i idxs -> (N.to_nat i < length arr)%nat) ->
    (N.of_nat (length arr) <= 2 ^ 63)%N ->
    NoDup (map fst elems) ->
    (forall p e, In (p, e) elems <-> In p idxs /\ nth_error arr (N.to_nat p) = Some e) ->
    exists pf, prove (buildVC arr) idxs = inl pf /\ verifyVC (rootOf (buildVC arr)) elems pf = VOk.
  Proof.
    intros arr idxs elems Hine Hrange Hbig Hnd Helems.
    set (d := depthOf (buildVC arr)).
    set (rv := fun i => rev_bits (N.to_nat d) i).
    set (leaves := vcLeaves arr).
    assert (Hidx : forall i, (N.to_nat i < length arr)%nat ->
              vcIndex i d = Some (rv i) /\ (N.to_nat (rv i) < length leaves)%nat /\
              vcIndex (rv i) (pathOf arr) = Some i /\ (rv i < shl1 d)%N).
    { intros i Hi. destruct (elem_index arr i Hi Hbig) as (p & H1 & H2 & H3 & H4). fold d in H1, H4.
      destruct (vcIndex_some _ _ _ H1) as [_ ->]. fold (rv i). auto. }
    assert (Hlne : leaves <> []) by apply vcLeaves_nonempty.
    assert (Hlen : Forall (lenS s) leaves).
    { apply Forall_forall. intros h Hh. destruct (In_nth _ _ [] Hh) as (k & Hk & <-).
      unfold leaves. rewrite vcLeaves_nth by assumption. unfold MerkleArray.vcLeaf.
      destruct (vcIndex _ _); [|apply Hlen_bottom]. destruct (nth_error arr _); [apply Hlen_leaf | apply Hlen_bottom]. }
    destruct (levelsOf_chain leaves Hlne) as [Hc Hhd].
    set (P := dedup (sortN (map rv idxs))).
    set (el := map (fun pe => (rv (fst pe), snd pe)) elems).
    assert (HS : sincr P) by (apply dedup_sincr, sortN_sorted).
    assert (Hkeys : forall i e, In (i, e) elems -> (N.to_nat i < length arr)%nat).
    { intros i e Hin. apply Helems in Hin. apply Hrange. tauto. }
    assert (Hmem : forall p, In p P <-> In p (map fst el)).
    { intros p. unfold P, el. rewrite dedup_in, sortN_in, map_map, !in_map_iff. cbn [fst]. split.
      - intros (i & <- & Hi). specialize (Hrange i Hi).
        destruct (nth_error arr (N.to_nat i)) as [e|] eqn:En; [|apply nth_error_None in En; lia].
        exists (i, e). split; [reflexivity | apply Helems; auto].
      - intros ([i e] & <- & Hin). exists i. split; [reflexivity | apply Helems in Hin; tauto]. }
    assert (Hene : elems <> []).
    { destruct idxs as [|i ?]; [contradiction|]. intros Hel.
      assert (Hi : In (rv i) P) by (unfold P; rewrite dedup_in, sortN_in; apply in_map; left; reflexivity).
      apply Hmem in Hi. unfold el in Hi. rewrite Hel in Hi. destruct Hi. }
    assert (Helne : el <> []) by (unfold el; destruct elems; [contradiction | discriminate]).
    assert (Hndel : NoDup (map fst el)).
    { unfold el. rewrite map_map. cbn [fst].
      assert (G : forall l : list (N * E), (forall i e, In (i, e) l -> (N.to_nat i < length arr)%nat) ->
                  NoDup (map fst l) -> NoDup (map (fun x => rv (fst x)) l)).
      { induction l as [|[i e] l IH]; intros Hk Hn; [constructor|].
        cbn [map fst] in *. inversion Hn as [|x xs Hnin Hn' [Ex Exs]]. constructor.
        - intros Hin. apply in_map_iff in Hin. destruct Hin as ([i' e'] & Heq & Hin'). cbn [fst] in Heq.
          assert (i' = i).
          { destruct (Hidx i (Hk i e (or_introl eq_refl))) as (_ & _ & H3 & _).
            destruct (Hidx i' (Hk i' e' (or_intror Hin'))) as (_ & _ & H3' & _).
            rewrite Heq in H3'. congruence. }
          subst i'. apply Hnin. apply in_map_iff. exists (i, e'). auto.
        - apply IH; [|assumption]. intros i' e' Hin'. apply (Hk i' e'). right. assumption. }
      apply G; assumption. }
    assert (Hleaf : forall p e, In (p, e) el ->
              (N.to_nat p < length leaves)%nat /\ nth (N.to_nat p) leaves [] = hleaf e).
    { intros p e Hin. unfold el in Hin. apply in_map_iff in Hin. destruct Hin as ([i e'] & Heq & Hin).
      cbn [fst snd] in Heq. inversion Heq; subst p e'.
      destruct (Hidx i (Hkeys i e Hin)) as (_ & H2 & H3 & _). split; [assumption|].
      unfold leaves. rewrite vcLeaves_nth by assumption. rewrite N2Nat.id.
      unfold MerkleArray.vcLeaf. rewrite H3.
      apply Helems in Hin. destruct Hin as [_ ->]. reflexivity. }
    assert (Hdepth : forall p, In p P -> (p < shl1 d)%N).
    { intros p Hp. unfold P in Hp. rewrite dedup_in, sortN_in, in_map_iff in Hp.
      destruct Hp as (i & <- & Hi). apply (Hidx i (Hrange i Hi)). }
    destruct (verify_complete_core leaves el P d true Hlne Hlen Helne Hndel HS Hmem Hleaf Hdepth)
      as [E1 E2].
    exists (mkProof (snd (proveLoop (levelsOf leaves) P)) d). split.
    - rewrite prove_nonempty by assumption. unfold MerkleArray.buildVC at 1 2 3. cbn [t_n t_vc t_levels]. fold leaves.
      assert (Hane : arr <> []).
      { destruct idxs as [|i ?]; [contradiction|]. specialize (Hrange i (or_introl eq_refl)).
        intros ->. cbn in Hrange. lia. }
      destruct (N.eqb_spec (N.of_nat (length arr)) 0); [destruct arr; [contradiction | cbn in *; lia]|].
      assert (Hex : existsb (fun i => (N.of_nat (length arr) <=? i)%N) idxs = false).
      { apply not_true_is_false. intros Hex. apply existsb_exists in Hex. destruct Hex as (i & Hi & Hle).
        specialize (Hrange i Hi). apply N.leb_le in Hle. lia. }
      rewrite Hex. fold d.
      rewrite (map_opt'_all _ rv) by (intros i Hi; apply (Hidx i (Hrange i Hi))).
      fold P. change (t_levels (buildVC arr)) with (levelsOf leaves).
      destruct (proveLoop (levelsOf leaves) P) as [plf hints] eqn:Ep. cbn [fst snd] in *.
      rewrite E1. cbn [length Nat.eqb]. reflexivity.
    - unfold MerkleArray.verifyVC, MerkleArray.verifyVC_gen. cbn [p_depth].
      assert (Hconv : convertIndexes E elems d = Some el).
      { unfold convertIndexes, el. apply map_opt'_all. intros [i e] Hin. cbn [fst snd].
        destruct (Hidx i (Hkeys i e Hin)) as (-> & _). reflexivity. }
      rewrite Hconv. unfold MerkleArray.buildVC. fold leaves.
      rewrite rootOf_levels by (apply chain_nonempty; assumption). exact E2.
  Qed.

  (* TreeDepth is not bound for vector commitments either: position 0, any claimed depth *)
  Theorem depth_not_bound_vc : forall arr e0 d',
    nth_error arr 0 = Some e0 -> (N.of_nat (length arr) <= 2 ^ 63)%N -> (d' < 64)%N ->
    exists pf, prove (buildVC arr) [0%N] = inl pf /\
               verifyVC (rootOf (buildVC arr)) [(0%N, e0)] (mkProof (p_path pf) d') = VOk.
  Proof.
    intros arr e0 d' H0 Hbig Hd'.
    assert (Hlen : (0 < length arr)%nat) by (destruct arr; [discriminate | cbn; lia]).
    destruct (complete_vc arr [0%N] [(0%N, e0)]) as (pf & Hp & Hv); try assumption.
    - discriminate.
    - intros i [<-|[]]. cbn. assumption.
    - cbn. constructor; [tauto | constructor].
    - intros p e. cbn [In]. split.
      + intros [Heq|[]]. inversion Heq; subst p e. split; [left; reflexivity | exact H0].
      + intros [[<-|[]] He]. change (N.to_nat 0) with 0%nat in He. rewrite H0 in He.
        inversion He. left. reflexivity.
    - exists pf. split; [assumption|].
      unfold MerkleArray.verifyVC, MerkleArray.verifyVC_gen in *. cbn [p_depth].
      assert (Hc0 : forall d, (d < 64)%N -> convertIndexes E [(0%N, e0)] d = Some [(0%N, e0)]).
      { intros d Hd. unfold convertIndexes. cbn [map_opt' fst snd]. unfold vcIndex.
        rewrite (shl1_lt64 d Hd). destruct (N.ltb_spec 0 (2 ^ d)).
        - rewrite rev_bits_zero. reflexivity.
        - pose proof (N.pow_nonzero 2 d). lia. }
      rewrite (Hc0 d' Hd').
      destruct (convertIndexes E [(0%N, e0)] (p_depth pf)) as [el|] eqn:Ec; [|discriminate].
      assert (Hdp : (p_depth pf < 64)%N).
      { unfold convertIndexes in Ec. cbn [map_opt' fst snd] in Ec.
        destruct (vcIndex 0 (p_depth pf)) eqn:Ev; [|discriminate].
        apply vcIndex_some in Ev. destruct Ev as [Ev _]. eapply shl1_pos. eassumption. }
      rewrite (Hc0 _ Hdp) in Ec. inversion Ec; subst el.
      destruct pf as [path dd]. cbn [p_path p_depth] in *.
      rewrite <- Hv. apply verify_depth_irrelevant.
      intros pe [<-|[]]. cbn [fst]. rewrite !shl1_lt64 by assumption.
      pose proof (N.pow_nonzero 2 d'). pose proof (N.pow_nonzero 2 dd). lia.
  Qed.
End VC.
