(* C20, part 4: Ledger.AddBlock re-evaluates an accepted block with validate = false
   (eval.Eval(..., false, ...)): it reaches the same StateDelta as the validating run. *)
From Coq Require Import NArith List Bool Lia ZifyN ZifyNat ZifyBool.
From Verif.model Require Import GenVal.
From Verif.proofs Require Import GenValProofs GenValTheorems.
Import ListNotations.
Open Scope N_scope.

Definition En (P : params) (r : N) : env := mkEnv P false false r (p_maxbytes P).

Lemma tx_val_nov : forall P r L parent c s c' s',
  transaction (Ev P r) L parent c s = Ok (c', s') ->
  transaction (En P r) L parent c s = Ok (c', s').
Proof.
  intros P r L parent c s c' s' H. unfold transaction in *.
  cbn [Ev En e_validate e_generate e_P e_rnd negb andb orb] in *.
  inv_bind H as [] eq H1. inv_bind H as [c1 a1] eq H2. inv_bind H as [] eq H3. inv_bind H as [] eq H4.
  cbn [bind]. exact H.
Qed.

Lemma loop_val_nov : forall P r L parent bb bb' txs c gb gb0 c' ss gb',
  group_loop (Ev P r) L parent c bb gb txs = Ok (c', ss, gb') ->
  group_loop (En P r) L parent c bb' gb0 txs = Ok (c', ss, gb0).
Proof.
  intros P r L parent bb bb' txs. induction txs as [|s txs IH]; intros c gb gb0 c' ss gb' H.
  - cbn in *. injection H as <- <- _. reflexivity.
  - cbn [group_loop] in *. inv_bind H as [c1 s1] eq H1. rewrite (tx_val_nov _ _ _ _ _ _ _ _ H1). cbn [bind].
    destruct (e_validate (Ev P r) && _); [discriminate|].
    destruct (negb (t_gidok (fst s))); [discriminate|].
    inv_bind H as [[c2 ss2] gb2] eq H2. injection H as <- <- _.
    cbn [En e_validate andb]. rewrite (IH _ _ gb0 _ _ _ H2). reflexivity.
Qed.

(* the evaluator states agree on everything but blockTxBytes (only counted when validating) *)
Definition ev_sim (a b : evst) : Prop := ev_top a = ev_top b /\ ev_payset a = ev_payset b.

Lemma group_val_nov : forall P r L ev evn g ev',
  ev_sim ev evn ->
  transaction_group (Ev P r) L ev g = Ok ev' ->
  exists evn', transaction_group (En P r) L evn g = Ok evn' /\ ev_sim ev' evn'.
Proof.
  intros P r L ev evn g ev' [St Sp] H. unfold transaction_group in *.
  destruct (g_txns g) eqn:Htx; [injection H as <-; exists evn; split; [reflexivity|split; assumption]|].
  rewrite <- Htx in *.
  cbn [Ev En e_P e_validate] in *.
  destruct (p_maxgroup P <? _); [discriminate|]. destruct (true && negb (g_wf g)); [discriminate|].
  cbn [andb]. inv_bind H as [[c ss] gb] eq Hl.
  rewrite <- St. rewrite (loop_val_nov _ _ _ _ _ (ev_bytes evn) _ _ _ 0 _ _ _ Hl). cbn [bind].
  destruct (negb (g_gid g)); [discriminate|]. destruct (negb (g_feeok g)); [discriminate|].
  injection H as <-. eexists. split; [reflexivity|]. split; cbn; [reflexivity|rewrite Sp; reflexivity].
Qed.

Lemma run_val_nov : forall P r L gs ev evn ev',
  ev_sim ev evn ->
  run_groups (Ev P r) L ev gs = Ok ev' ->
  exists evn', run_groups (En P r) L evn gs = Ok evn' /\ ev_sim ev' evn'.
Proof.
  intros P r L gs. induction gs as [|g gs IH]; intros ev evn ev' S H.
  - cbn in *. injection H as <-. exists evn. auto.
  - cbn [run_groups] in *. inv_bind H as ev1 eq H1.
    destruct (group_val_nov _ _ _ _ _ _ _ S H1) as (evn1 & Hn1 & S1). rewrite Hn1. cbn [bind].
    eapply IH; eauto.
Qed.

Theorem addblock_same_delta : forall P L blk d,
  eval_block P true L blk = Ok d -> eval_block P false L blk = Ok d.
Proof.
  intros P L [h ps] d H. unfold eval_block in *. cbn [b_hdr b_payset] in *.
  set (r := h_round h) in *. fold (Ev P r) in H. fold (En P r).
  inv_bind H as [h1 l0] eq Hst. destruct (start_val _ _ _ _ _ _ Hst) as (-> & -> & _).
  assert (Hsn : start (En P r) L h = Ok (h, put layer0 (lv_pool L) (base_lookup L (lv_pool L)))).
  { unfold start in *. cbn [Ev En e_P e_generate e_validate] in *.
    destruct (h_round h =? 0); [discriminate|]. inv_bind Hst as [] eq Hc. cbn [bind]. exact Hst. }
  rewrite Hsn. cbn [bind].
  inv_bind H as ev eq Hrun.
  destruct (run_val_nov P r L ps _ (mkEv (put layer0 (lv_pool L) (base_lookup L (lv_pool L))) [] 0) _
              (conj eq_refl eq_refl) Hrun) as (evn & Hn & [St Sp]).
  rewrite Hn. cbn [bind].
  inv_bind H as [h2 top] eq Heob. inv_bind H as [] eq Hld. injection H as <-.
  unfold end_of_block in *. cbn [Ev En e_P e_generate e_validate bind] in *.
  inv_bind Heob as [] eq Hchk. inv_bind Heob as top1 eq Hpo. injection Heob as <- <-.
  rewrite <- St, Hpo. reflexivity.
Qed.

(* determinism of a Gallina function: immediate, and no statement about the Go runtime *)
Lemma eval_function : forall P v L blk d1 d2,
  eval_block P v L blk = Ok d1 -> eval_block P v L blk = Ok d2 -> d1 = d2.
Proof. intros P v L blk d1 d2 H1 H2. rewrite H1 in H2. inversion H2. reflexivity. Qed.
